/-
n-column ranges: membership decomposition by column, `Intersect`, `TryMerge`, `RemoveOverlap`.
-/
import Gms.Lemmas.RangeCol

namespace Gms.Range
namespace Range

/-- No column of the range is inverted (lower bound above upper bound). -/
def NonInv (r : Range) : Prop := ∀ c ∈ r, ColRange.NonInv c

instance (r : Range) : Decidable (NonInv r) := by unfold NonInv; exact inferInstance

/-- Membership with column `i` left out. -/
def memExcept : Range → Nat → Tuple → Bool
  | _ :: cs, 0, _ :: vs => mem cs vs
  | c :: cs, i + 1, v :: vs => c.mem v && memExcept cs i vs
  | _, _, _ => false

theorem mem_length : ∀ {a : Range} {v : Tuple}, a.mem v = true → a.length = v.length
  | [], [], _ => rfl
  | [], _ :: _, h => by simp [mem] at h
  | _ :: _, [], h => by simp [mem] at h
  | _ :: cs, _ :: vs, h => by
    simp [mem] at h
    simp [mem_length h.2]

theorem mem_split : ∀ (a : Range) (i : Nat) (v : Tuple), i < a.length →
    a.mem v = (memExcept a i v && (a[i]?.getD default).mem (v[i]?.getD none))
  | [], _, _, h => by simp at h
  | c :: cs, i, [], _ => by cases i <;> simp [mem, memExcept]
  | c :: cs, 0, v :: vs, _ => by simp [mem, memExcept, Bool.and_comm]
  | c :: cs, i + 1, v :: vs, h => by
    have ih := mem_split cs i vs (by simpa using h)
    simp only [mem, memExcept, List.getElem?_cons_succ]
    rw [ih, Bool.and_assoc]

theorem mem_set : ∀ (a : Range) (i : Nat) (c : ColRange) (v : Tuple), i < a.length →
    mem (a.set i c) v = (memExcept a i v && c.mem (v[i]?.getD none))
  | [], _, _, _, h => by simp at h
  | x :: cs, i, c, [], _ => by cases i <;> simp [mem, memExcept]
  | x :: cs, 0, c, v :: vs, _ => by simp [mem, memExcept, Bool.and_comm]
  | x :: cs, i + 1, c, v :: vs, h => by
    have ih := mem_set cs i c vs (by simpa using h)
    simp only [List.set_cons_succ, mem, memExcept, List.getElem?_cons_succ]
    rw [ih, Bool.and_assoc]

theorem memExcept_set : ∀ (a : Range) (i : Nat) (c : ColRange) (v : Tuple),
    memExcept (a.set i c) i v = memExcept a i v
  | [], _, _, _ => by simp [memExcept]
  | x :: cs, i, c, [] => by cases i <;> simp [memExcept]
  | x :: cs, 0, c, v :: vs => by simp [memExcept]
  | x :: cs, i + 1, c, v :: vs => by
    simp only [List.set_cons_succ, memExcept]
    rw [memExcept_set cs i c vs]

theorem nonInv_set {a : Range} {i : Nat} {c : ColRange} (ha : NonInv a) (hc : c.NonInv) :
    NonInv (a.set i c) := by
  intro x hx
  rcases List.mem_or_eq_of_mem_set hx with h | h
  · exact ha x h
  · rw [h]; exact hc

theorem nonInv_getD {a : Range} (ha : NonInv a) (i : Nat) : (a[i]?.getD default).NonInv := by
  cases h : a[i]? with
  | some c => exact ha c (List.mem_of_getElem? h)
  | none =>
    show (default : ColRange).lo.compare (default : ColRange).hi ≤ 0
    decide

/-! ### all2 -/

theorem all2_subset_sound : ∀ (a b : Range) (v : Tuple), a.length = b.length →
    all2 ColRange.isSubsetOf a b = true → a.mem v = true → b.mem v = true
  | [], [], v, _, _, h => h
  | [], _ :: _, _, hl, _, _ => by simp at hl
  | _ :: _, [], _, hl, _, _ => by simp at hl
  | x :: as, y :: bs, [], _, _, h => by simp [mem] at h
  | x :: as, y :: bs, v :: vs, hl, h2, h => by
    simp [all2] at h2
    simp [mem] at h ⊢
    exact ⟨ColRange.isSubsetOf_sound h2.1 v h.1, all2_subset_sound as bs vs (by simpa using hl) h2.2 h.2⟩

theorem isSubsetOf_sound {a b : Range} (h : a.isSubsetOf b = true) (v : Tuple) (hv : a.mem v = true) :
    b.mem v = true := by
  unfold isSubsetOf at h
  by_cases hl : a.length ≠ b.length
  · simp [hl] at h
  · simp [hl] at h
    exact all2_subset_sound a b v (by omega) h hv

theorem all2_overlaps_false : ∀ (a b : Range) (v : Tuple),
    all2 (fun x y => (x.overlaps y).2) a b = false → (a.mem v && b.mem v) = false
  | [], _, _, h => by simp [all2] at h
  | _ :: _, [], _, h => by simp [all2] at h
  | x :: as, y :: bs, [], _ => by simp [mem]
  | x :: as, y :: bs, v :: vs, h => by
    simp [all2] at h
    simp only [mem]
    by_cases hx : (x.overlaps y).2 = true
    · have ih := all2_overlaps_false as bs vs (h hx)
      cases h1 : x.mem v <;> cases h2 : y.mem v <;> cases h3 : mem as vs <;> cases h4 : mem bs vs <;> simp_all
    · have := ColRange.overlaps_false (by simpa using hx) v
      cases h1 : x.mem v <;> cases h2 : y.mem v <;> simp_all

/-- Ranges that `Overlaps` reports as non-overlapping share no key tuple. -/
theorem overlaps_false {a b : Range} (h : a.overlaps b = false) (v : Tuple) :
    (a.mem v && b.mem v) = false := by
  unfold overlaps at h
  by_cases hl : a.length ≠ b.length
  · cases h1 : a.mem v <;> cases h2 : b.mem v <;> simp
    exact hl (by rw [mem_length h1, mem_length h2])
  · simp [hl] at h
    exact all2_overlaps_false a b v h

/-! ### Intersect -/

theorem intersectCols_none : ∀ (a b : Range) (v : Tuple), a.length = b.length →
    intersectCols a b = none → (a.mem v && b.mem v) = false
  | [], [], _, _, h => by simp [intersectCols] at h
  | [], _ :: _, _, hl, _ => by simp at hl
  | _ :: _, [], _, hl, _ => by simp at hl
  | x :: as, y :: bs, [], _, _ => by simp [mem]
  | x :: as, y :: bs, v :: vs, hl, h => by
    simp only [intersectCols] at h
    simp only [mem]
    by_cases hf : (x.tryIntersect y).2 = true
    · simp [hf] at h
      have ih := intersectCols_none as bs vs (by simpa using hl) h
      cases h1 : x.mem v <;> cases h2 : y.mem v <;> cases h3 : mem as vs <;> cases h4 : mem bs vs <;> simp_all
    · have hm := ColRange.mem_tryIntersect x y v
      rw [ColRange.tryIntersect_false (by simpa using hf), ColRange.mem_empty] at hm
      cases h1 : x.mem v <;> cases h2 : y.mem v <;> simp [h1, h2] at hm ⊢

theorem intersectCols_some : ∀ (a b r : Range) (v : Tuple), a.length = b.length →
    intersectCols a b = some r → r.mem v = (a.mem v && b.mem v)
  | [], [], r, v, _, h => by
    simp [intersectCols] at h; subst h; cases v <;> simp [mem]
  | [], _ :: _, _, _, hl, _ => by simp at hl
  | _ :: _, [], _, _, hl, _ => by simp at hl
  | x :: as, y :: bs, r, v, hl, h => by
    simp only [intersectCols] at h
    by_cases hf : (x.tryIntersect y).2 = true
    · simp [hf] at h
      obtain ⟨r', hr', e⟩ := h
      subst e
      cases v with
      | nil => simp [mem]
      | cons v vs =>
        simp only [mem]
        rw [intersectCols_some as bs r' vs (by simpa using hl) hr', ColRange.mem_tryIntersect]
        cases x.mem v <;> cases y.mem v <;> cases mem as vs <;> cases mem bs vs <;> rfl
    · simp [hf] at h

theorem mem_asEmpty (a : Range) (h : a ≠ []) (v : Tuple) : a.asEmpty.mem v = false := by
  cases a with
  | nil => exact absurd rfl h
  | cons c cs => cases v <;> simp [asEmpty, mem, ColRange.mem_empty]

/-- `Intersect` denotes the intersection (ranges of one length ≥ 1). -/
theorem mem_intersect {a b : Range} (hl : a.length = b.length) (hne : a ≠ []) (v : Tuple) :
    (a.intersect b).mem v = (a.mem v && b.mem v) := by
  unfold intersect
  rw [if_neg (by simp [hl])]
  cases h : intersectCols a b with
  | none => simp only; rw [mem_asEmpty a hne, intersectCols_none a b v hl h]
  | some r => exact intersectCols_some a b r v hl h

theorem intersect_length {a b : Range} (hl : a.length = b.length) : (a.intersect b).length = a.length := by
  unfold intersect
  rw [if_neg (by simp [hl])]
  cases h : intersectCols a b with
  | none => simp [asEmpty]
  | some r =>
    simp only
    have : ∀ (a b r : Range), a.length = b.length → intersectCols a b = some r → r.length = a.length := by
      intro a
      induction a with
      | nil => intro b r hl h; cases b <;> simp_all [intersectCols]
      | cons x as ih =>
        intro b r hl h
        cases b with
        | nil => simp at hl
        | cons y bs =>
          simp only [intersectCols] at h
          by_cases hf : (x.tryIntersect y).2 = true
          · simp [hf] at h
            obtain ⟨r', hr', e⟩ := h
            subst e
            simp [ih bs r' (by simpa using hl) hr']
          · simp [hf] at h
    exact this a b r hl h

/-! ### diffIdx -/

theorem diffIdx_nil : ∀ (a b : Range), a.length = b.length → diffIdx a b = [] → a = b
  | [], [], _, _ => rfl
  | [], _ :: _, hl, _ => by simp at hl
  | _ :: _, [], hl, _ => by simp at hl
  | x :: as, y :: bs, hl, h => by
    simp only [diffIdx] at h
    by_cases he : x.equals y = true
    · simp [he] at h
      rw [(ColRange.equals_iff x y).mp he, diffIdx_nil as bs (by simpa using hl) h]
    · simp [he] at h

theorem diffIdx_head_lt : ∀ (a b : Range) (i : Nat) (rest : List Nat), diffIdx a b = i :: rest →
    i < a.length ∧ i < b.length
  | [], _, _, _, h => by simp [diffIdx] at h
  | _ :: _, [], _, _, h => by simp [diffIdx] at h
  | x :: as, y :: bs, i, rest, h => by
    simp only [diffIdx] at h
    by_cases he : x.equals y = true
    · simp [he] at h
      cases hd : diffIdx as bs with
      | nil => simp [hd] at h
      | cons j js =>
        simp [hd] at h
        have := diffIdx_head_lt as bs j js hd
        simp; omega
    · simp [he] at h
      simp; omega

/-- Replacing the first differing column by a common value removes it from the list of
differing columns (the measure of `RemoveOverlap`'s recursion). -/
theorem diffIdx_set : ∀ (a b : Range) (i : Nat) (rest : List Nat) (c : ColRange), diffIdx a b = i :: rest →
    diffIdx (a.set i c) (b.set i c) = rest
  | [], _, _, _, _, h => by simp [diffIdx] at h
  | _ :: _, [], _, _, _, h => by simp [diffIdx] at h
  | x :: as, y :: bs, i, rest, c, h => by
    simp only [diffIdx] at h
    by_cases he : x.equals y = true
    · simp [he] at h
      cases hd : diffIdx as bs with
      | nil => simp [hd] at h
      | cons j js =>
        simp [hd] at h
        obtain ⟨e1, e2⟩ := h
        subst e1; subst e2
        simp only [List.set_cons_succ, diffIdx, he, if_true]
        rw [diffIdx_set as bs j js c hd]
    · simp [he] at h
      obtain ⟨e1, e2⟩ := h
      subst e1; subst e2
      simp [diffIdx, ColRange.equals_self]

theorem diffIdx_single : ∀ (a b : Range) (i : Nat) (v : Tuple), a.length = b.length → diffIdx a b = [i] →
    memExcept a i v = memExcept b i v
  | [], _, _, _, _, h => by simp [diffIdx] at h
  | _ :: _, [], _, _, _, h => by simp [diffIdx] at h
  | x :: as, y :: bs, i, v, hl, h => by
    simp only [diffIdx] at h
    by_cases he : x.equals y = true
    · simp [he] at h
      cases hd : diffIdx as bs with
      | nil => simp [hd] at h
      | cons j js =>
        simp [hd] at h
        obtain ⟨e1, ⟨e2, e3⟩, e4⟩ := h
        subst e2; subst e3; subst e4
        cases v with
        | nil => simp [memExcept]
        | cons v vs =>
          simp only [memExcept]
          rw [diffIdx_single as bs j vs (by simpa using hl) hd, (ColRange.equals_iff x y).mp he]
    · simp [he] at h
      obtain ⟨e1, e2⟩ := h
      subst e1
      have := diffIdx_nil as bs (by simpa using hl) e2
      subst this
      cases v <;> simp [memExcept]

theorem isSubsetOf_self (a : Range) : a.isSubsetOf a = true := by
  unfold isSubsetOf
  simp
  induction a with
  | nil => simp [all2]
  | cons x as ih => simp [all2, ColRange.isSubsetOf_self, ih]

/-! ### TryMerge -/

/-- `TryMerge` denotes the union when it succeeds, and keeps ranges non-inverted. -/
theorem tryMerge_sound {a b m : Range} (h : a.tryMerge b = .yes m) (v : Tuple) :
    m.mem v = (a.mem v || b.mem v) := by
  unfold tryMerge at h
  by_cases hl : a.length ≠ b.length
  · simp [hl] at h
  · simp only [hl, if_false] at h
    have hl' : a.length = b.length := by omega
    by_cases h1 : b.isSubsetOf a = true
    · simp [h1] at h; subst h
      cases hb : b.mem v with
      | false => simp
      | true => simp [isSubsetOf_sound h1 v hb]
    · simp only [h1, if_false] at h
      by_cases h2 : a.isSubsetOf b = true
      · simp [h2] at h; subst h
        cases ha : a.mem v with
        | false => simp
        | true => simp [isSubsetOf_sound h2 v ha]
      · simp only [h2, if_false] at h
        cases hd : diffIdx a b with
        | nil => simp [hd] at h
        | cons i rest =>
          cases rest with
          | cons j js => simp [hd] at h
          | nil =>
            simp only [hd] at h
            by_cases hu : ((a[i]?.getD default).tryUnion (b[i]?.getD default)).2 = true
            · simp [hu] at h; subst h
              obtain ⟨ia, ib⟩ := diffIdx_head_lt a b i [] hd
              rw [mem_set a i _ v ia, mem_split a i v ia, mem_split b i v ib,
                ColRange.tryUnion_true hu, diffIdx_single a b i v hl' hd]
              cases memExcept b i v <;> cases (a[i]?.getD default).mem (v[i]?.getD none) <;>
                cases (b[i]?.getD default).mem (v[i]?.getD none) <;> rfl
            · simp [hu] at h

theorem tryMerge_nonInv {a b m : Range} (ha : NonInv a) (hb : NonInv b) (h : a.tryMerge b = .yes m) :
    NonInv m := by
  unfold tryMerge at h
  by_cases hl : a.length ≠ b.length
  · simp [hl] at h
  · simp only [hl, if_false] at h
    by_cases h1 : b.isSubsetOf a = true
    · simp [h1] at h; subst h; exact ha
    · simp only [h1, if_false] at h
      by_cases h2 : a.isSubsetOf b = true
      · simp [h2] at h; subst h; exact hb
      · simp only [h2, if_false] at h
        cases hd : diffIdx a b with
        | nil => simp [hd] at h
        | cons i rest =>
          cases rest with
          | cons j js => simp [hd] at h
          | nil =>
            simp only [hd] at h
            by_cases hu : ((a[i]?.getD default).tryUnion (b[i]?.getD default)).2 = true
            · simp [hu] at h; subst h
              exact nonInv_set ha (ColRange.tryUnion_nonInv (nonInv_getD ha i) (nonInv_getD hb i) hu)
            · simp [hu] at h

theorem tryMerge_length {a b m : Range} (h : a.tryMerge b = .yes m) : m.length = a.length := by
  unfold tryMerge at h
  by_cases hl : a.length ≠ b.length
  · simp [hl] at h
  · simp only [hl, if_false] at h
    by_cases h1 : b.isSubsetOf a = true
    · simp [h1] at h; subst h; rfl
    · simp only [h1, if_false] at h
      by_cases h2 : a.isSubsetOf b = true
      · simp [h2] at h; subst h; omega
      · simp only [h2, if_false] at h
        cases hd : diffIdx a b with
        | nil => simp [hd] at h
        | cons i rest =>
          cases rest with
          | cons j js => simp [hd] at h
          | nil =>
            simp only [hd] at h
            by_cases hu : ((a[i]?.getD default).tryUnion (b[i]?.getD default)).2 = true
            · simp [hu] at h; subst h; simp
            · simp [hu] at h

/-- `TryMerge` never reports "invalid index to merge" (ranges of one length). -/
theorem tryMerge_ne_err (a b : Range) : a.tryMerge b ≠ .err := by
  unfold tryMerge
  by_cases hl : a.length ≠ b.length
  · simp [hl]
  · simp only [hl, if_false]
    by_cases h1 : b.isSubsetOf a = true
    · simp [h1]
    · simp only [h1, if_false]
      by_cases h2 : a.isSubsetOf b = true
      · simp [h2]
      · simp only [h2, if_false]
        cases hd : diffIdx a b with
        | nil =>
          have := diffIdx_nil a b (by omega) hd
          subst this
          exact absurd (isSubsetOf_self a) h1
        | cons i rest =>
          cases rest with
          | cons j js => simp
          | nil =>
            simp only
            by_cases hu : ((a[i]?.getD default).tryUnion (b[i]?.getD default)).2 = true <;> simp [hu]

end Range
end Gms.Range
