/-
C26 — lemmas about the temporal comparison model `Gms.Model.TimeCmp` (core Lean only).

* comparison through an integer key (NULL greatest, as coded): reflexive, antisymmetric, transitive, total
* `roundTo` / `truncDay` (Go `Round`, `Truncate`): identity on multiples, monotone
* the calendar: `dfc` / `goDate` are strictly monotone in the lexicographic order of the civil fields, i.e.
  the order of the instants IS the calendar order (`cmpInt_goDate_eq_lexCmp`)
The property theorems are in `Gms/Props/C26.lean`.
-/
import Gms.Model.TimeCmp
import Gms.Lemmas.Cal
namespace Gms.TimeCmp
open Gms.Cal
open Gms.Conv (Cmp cmpInt)

/-! ## three-way comparison of integers -/

theorem ci_refl (a : Int) : cmpInt a a = .eq := by simp [cmpInt]

theorem ci_lt (a b : Int) : cmpInt a b = .lt ↔ a < b := by
  unfold cmpInt
  by_cases h1 : a = b
  · subst h1; simp
  · by_cases h3 : a < b <;> simp [h1, h3]

theorem ci_eq (a b : Int) : cmpInt a b = .eq ↔ a = b := by
  unfold cmpInt
  by_cases h1 : a = b
  · subst h1; simp
  · by_cases h3 : a < b <;> simp [h1, h3]

theorem ci_gt (a b : Int) : cmpInt a b = .gt ↔ b < a := by
  unfold cmpInt
  by_cases h1 : a = b
  · subst h1; simp
  · by_cases h3 : a < b
    · simp [h1, h3]; omega
    · simp [h1, h3]; omega

theorem ci_ne_err (a b : Int) : cmpInt a b ≠ .err := by
  unfold cmpInt; split <;> (try split) <;> simp

theorem ci_flip (a b : Int) : cmpInt b a = (cmpInt a b).flip := by
  unfold cmpInt
  by_cases h1 : a = b
  · subst h1; simp [Cmp.flip]
  · have h2 : ¬ b = a := fun h => h1 h.symm
    by_cases h3 : a < b
    · have : ¬ b < a := by omega
      simp [h1, h2, h3, this, Cmp.flip]
    · have : b < a := by omega
      simp [h1, h2, h3, this, Cmp.flip]

theorem ci_le (a b : Int) : (cmpInt a b).le = true ↔ a ≤ b := by
  unfold Cmp.le cmpInt
  by_cases h1 : a = b
  · subst h1; simp
  · by_cases h3 : a < b
    · simp [h1, h3]; omega
    · simp [h1, h3]; omega

/-! ## comparison through a partial integer key -/

def cmpViaKey (k : TVal → Option Int) (a b : TVal) : Cmp :=
  match compareNulls a b with
  | some r => r
  | none =>
    match k a, k b with
    | some x, some y => cmpInt x y
    | _, _ => .err

/-- `datetimeType.Compare` is a comparison through the key `operand ty` (an exact instant). -/
theorem implCompare_eq_viaKey (ty : TTy) (a b : TVal) : implCompare ty a b = cmpViaKey (operand ty) a b := rfl

theorem compareNulls_of_ne {a b : TVal} (ha : a ≠ .null) (hb : b ≠ .null) : compareNulls a b = none := by
  cases a <;> cases b <;> simp_all [compareNulls]

theorem compareNulls_null_left {b : TVal} (hb : b ≠ .null) : compareNulls .null b = some .gt := by
  cases b <;> simp_all [compareNulls]

theorem compareNulls_null_right {a : TVal} (ha : a ≠ .null) : compareNulls a .null = some .lt := by
  cases a <;> simp_all [compareNulls]

section laws
variable (k : TVal → Option Int)

theorem viaKey_nonnull {a b : TVal} (ha : a ≠ .null) (hb : b ≠ .null) :
    cmpViaKey k a b = match k a, k b with
      | some x, some y => cmpInt x y
      | _, _ => .err := by
  unfold cmpViaKey; rw [compareNulls_of_ne ha hb]

theorem viaKey_refl (a : TVal) : cmpViaKey k a a = .eq ∨ cmpViaKey k a a = .err := by
  by_cases ha : a = .null
  · subst ha; left; rfl
  · rw [viaKey_nonnull k ha ha]
    cases k a with
    | none => right; rfl
    | some x => left; exact ci_refl x

theorem viaKey_antisymm (a b : TVal) : cmpViaKey k b a = (cmpViaKey k a b).flip := by
  by_cases ha : a = .null
  · subst ha
    by_cases hb : b = .null
    · subst hb; rfl
    · unfold cmpViaKey; rw [compareNulls_null_left hb, compareNulls_null_right hb]; rfl
  · by_cases hb : b = .null
    · subst hb
      unfold cmpViaKey; rw [compareNulls_null_left ha, compareNulls_null_right ha]; rfl
    · rw [viaKey_nonnull k ha hb, viaKey_nonnull k hb ha]
      cases k a <;> cases k b <;> simp only [Cmp.flip]
      exact ci_flip _ _

theorem viaKey_total {a b : TVal} (ha : a = .null ∨ (k a).isSome) (hb : b = .null ∨ (k b).isSome) :
    cmpViaKey k a b ≠ .err := by
  by_cases ha' : a = .null
  · subst ha'
    by_cases hb' : b = .null
    · subst hb'; simp [cmpViaKey, compareNulls]
    · unfold cmpViaKey; rw [compareNulls_null_left hb']; simp
  · by_cases hb' : b = .null
    · subst hb'; unfold cmpViaKey; rw [compareNulls_null_right ha']; simp
    · rw [viaKey_nonnull k ha' hb']
      rcases ha with ha | ha
      · exact absurd ha ha'
      · rcases hb with hb | hb
        · exact absurd hb hb'
        · cases hka : k a <;> cases hkb : k b <;> simp_all [ci_ne_err]

theorem viaKey_trans (a b c : TVal)
    (hab : (cmpViaKey k a b).le = true) (hbc : (cmpViaKey k b c).le = true) :
    (cmpViaKey k a c).le = true ∧
      ((cmpViaKey k a b = .lt ∨ cmpViaKey k b c = .lt) → cmpViaKey k a c = .lt) := by
  by_cases ha : a = .null
  · subst ha
    by_cases hb : b = .null
    · subst hb
      refine ⟨hbc, fun h => ?_⟩
      rcases h with h | h
      · simp [cmpViaKey, compareNulls] at h
      · exact h
    · unfold cmpViaKey at hab; rw [compareNulls_null_left hb] at hab; simp [Cmp.le] at hab
  · by_cases hc : c = .null
    · subst hc
      by_cases hb : b = .null
      · subst hb
        refine ⟨hab, fun h => ?_⟩
        rcases h with h | h
        · exact h
        · simp [cmpViaKey, compareNulls] at h
      · refine ⟨?_, fun _ => ?_⟩
        · unfold cmpViaKey; rw [compareNulls_null_right ha]; simp [Cmp.le]
        · unfold cmpViaKey; rw [compareNulls_null_right ha]
    · by_cases hb : b = .null
      · subst hb
        unfold cmpViaKey at hbc; rw [compareNulls_null_left hc] at hbc; simp [Cmp.le] at hbc
      · rw [viaKey_nonnull k ha hb] at hab
        rw [viaKey_nonnull k hb hc] at hbc
        rw [viaKey_nonnull k ha hb, viaKey_nonnull k hb hc, viaKey_nonnull k ha hc]
        cases hka : k a with
        | none => simp [hka, Cmp.le] at hab
        | some x =>
          cases hkb : k b with
          | none => simp [hka, hkb, Cmp.le] at hab
          | some y =>
            cases hkc : k c with
            | none => simp [hkb, hkc, Cmp.le] at hbc
            | some z =>
              simp only [hka, hkb] at hab
              simp only [hkb, hkc] at hbc
              simp only
              rw [ci_le] at hab hbc ⊢
              refine ⟨by omega, ?_⟩
              rintro (h | h)
              · rw [ci_lt] at h ⊢; omega
              · rw [ci_lt] at h ⊢; omega

end laws

/-! ## `Round` and `Truncate` -/

theorem unit_cases (ty : TTy) :
    ty.unit = 1000000000 ∨ ty.unit = 100000000 ∨ ty.unit = 10000000 ∨ ty.unit = 1000000 ∨
    ty.unit = 100000 ∨ ty.unit = 10000 ∨ ty.unit = 1000 := by
  unfold TTy.unit
  by_cases h : ty.precision < 6
  · rw [if_pos h]
    generalize ty.precision = p at h
    have hp : p = 0 ∨ p = 1 ∨ p = 2 ∨ p = 3 ∨ p = 4 ∨ p = 5 := by omega
    rcases hp with rfl | rfl | rfl | rfl | rfl | rfl <;> simp [nsSec]
  · rw [if_neg h]; simp

theorem unit_pos (ty : TTy) : 0 < ty.unit := by
  rcases unit_cases ty with h | h | h | h | h | h | h <;> omega

/-- every rounding unit divides a day and a second -/
theorem unit_dvd_day (ty : TTy) : nsDay % ty.unit = 0 := by
  rcases unit_cases ty with h | h | h | h | h | h | h <;> rw [h] <;> decide

/-- `Round` leaves a multiple of the unit alone -/
theorem roundTo_of_multiple (d t : Int) (hd : 0 < d) (h : t % d = 0) : roundTo d t = t := by
  simp only [roundTo, h]
  rw [if_pos (by omega)]; omega

/-- `Round` yields a multiple of the unit -/
theorem roundTo_multiple (d t : Int) (_hd : 0 < d) : roundTo d t % d = 0 := by
  simp only [roundTo]
  have h1 : (t - t % d) % d = 0 := by
    have := Int.emod_emod_of_dvd t (Int.dvd_refl d)
    rw [Int.sub_emod, this]; simp
  split
  · exact h1
  · have e : t + (d - t % d) = (t - t % d) + d := by omega
    rw [e, Int.add_emod, h1]; simp

/-- `Round` moves an instant by at most half a unit -/
theorem roundTo_near (d t : Int) (hd : 0 < d) : 2 * (roundTo d t - t) ≤ d ∧ -d < 2 * (roundTo d t - t) := by
  have h0 := Int.emod_nonneg t (Int.ne_of_gt hd)
  have h1 := Int.emod_lt_of_pos t hd
  simp only [roundTo]
  split <;> omega

/-- `Round` is monotone: conversion never inverts the chronological order -/
theorem roundTo_mono (d a b : Int) (hd : 0 < d) (h : a ≤ b) : roundTo d a ≤ roundTo d b := by
  have ha := roundTo_multiple d a hd
  have hb := roundTo_multiple d b hd
  have na := roundTo_near d a hd
  have nb := roundTo_near d b hd
  -- two multiples of d: if ra > rb then ra ≥ rb + d, but ra ≤ a + d/2 ≤ b + d/2 < rb + d — unless equality at half-way
  by_cases hle : roundTo d a ≤ roundTo d b
  · exact hle
  · exfalso
    have hgt : roundTo d b < roundTo d a := by omega
    have hdiff : (roundTo d a - roundTo d b) % d = 0 := by
      rw [Int.sub_emod, ha, hb]; simp
    have hge : d ≤ roundTo d a - roundTo d b := by
      have hpos : 0 < roundTo d a - roundTo d b := by omega
      have := Int.le_of_dvd hpos (Int.dvd_of_emod_eq_zero hdiff)
      exact this
    -- so 2(ra - a) = d and 2(rb - b) = -d + something; a half-way `a` rounds up and then b ≥ a is at or above it
    have e1 : 2 * (roundTo d a - a) = d ∨ 2 * (roundTo d a - a) < d := by omega
    rcases e1 with e1 | e1
    · -- a is exactly half-way: ra = a + d/2; rb ≤ ra - d = a - d/2 ≤ b - d/2, so 2(rb - b) ≤ -d: contradiction
      omega
    · omega

theorem truncDay_mono (a b : Int) (h : a ≤ b) : truncDay a ≤ truncDay b := by
  simp only [truncDay, nsDay]; omega

theorem truncDay_multiple (t : Int) : truncDay t % nsDay = 0 := by
  simp only [truncDay, nsDay]; omega

/-- a day boundary is a multiple of every rounding unit -/
theorem truncDay_unit (ty : TTy) (t : Int) : truncDay t % ty.unit = 0 := by
  have h := truncDay_multiple t
  have hd := unit_dvd_day ty
  have : (ty.unit : Int) ∣ truncDay t :=
    Int.dvd_trans (Int.dvd_of_emod_eq_zero hd) (Int.dvd_of_emod_eq_zero h)
  exact Int.emod_eq_zero_of_dvd this

theorem zeroTime_eq : zeroTime = -62169984000 * nsSec := by decide

theorem zeroTime_unit (ty : TTy) : zeroTime % ty.unit = 0 := by
  rcases unit_cases ty with h | h | h | h | h | h | h <;> rw [h] <;> decide

/-! ## The order of instants is the calendar order -/

/-- days before the March-based year `Y` (up to the constant 719468) -/
def yearDays (Y : Int) : Int := (Y / 400) * 146097 + (Y % 400) * 365 + (Y % 400) / 4 - (Y % 400) / 100

/-- days before month `mp` (0 = March) inside a March-based year -/
def mOff (mp : Int) : Int := (153 * mp + 2) / 5

/-- the March-based year a civil date belongs to -/
def marchYear (y m : Int) : Int := if m ≤ 2 then y - 1 else y

theorem dfc_split (y m d : Int) :
    dfc y m d = yearDays (marchYear y m) + (mOff (mpOf m) + (d - 1)) - 719468 := by
  simp only [dfc, yearDays, mOff, marchYear]; omega

theorem yearDays_mono (Y Y' : Int) (h : Y ≤ Y') : yearDays Y ≤ yearDays Y' := by
  simp only [yearDays]; omega

theorem mOff_mono (a b : Int) (h : a ≤ b) : mOff a ≤ mOff b := by
  simp only [mOff]; omega

/-- a valid day lies inside its month: before the first day of the next one (March .. January) -/
theorem day_in_month (y m d : Int) (h : validCivil y m d) (hm : m ≠ 2) :
    0 ≤ mOff (mpOf m) ∧ mOff (mpOf m) + (d - 1) < mOff (mpOf m + 1) := by
  obtain ⟨h1, h2, h3, h4⟩ := h
  have hm : m = 1 ∨ m = 3 ∨ m = 4 ∨ m = 5 ∨ m = 6 ∨ m = 7 ∨ m = 8 ∨ m = 9 ∨ m = 10 ∨ m = 11 ∨ m = 12 := by omega
  rcases hm with rfl | rfl | rfl | rfl | rfl | rfl | rfl | rfl | rfl | rfl | rfl <;>
    simp [dim] at h4 <;> simp only [mOff, mpOf] <;> omega

/-- a valid date lies inside its March-based year: before the first of March of the next one -/
theorem day_in_year (y m d : Int) (h : validCivil y m d) :
    0 ≤ mOff (mpOf m) + (d - 1) ∧
    yearDays (marchYear y m) + (mOff (mpOf m) + (d - 1)) < yearDays (marchYear y m + 1) := by
  by_cases hm : m = 2
  · subst hm
    obtain ⟨h1, h2, h3, h4⟩ := h
    by_cases hl : isLeap y = true
    · have hl' := (isLeap_iff y).mp hl
      simp [dim, hl] at h4
      simp only [mOff, mpOf, marchYear, yearDays]; omega
    · have hl' := fun h => hl ((isLeap_iff y).mpr h)
      simp [dim, hl] at h4
      simp only [mOff, mpOf, marchYear, yearDays]; omega
  · have hd := day_in_month y m d h hm
    obtain ⟨h1, h2, h3, h4⟩ := h
    have hle : mOff (mpOf m + 1) ≤ mOff 11 := by
      apply mOff_mono; simp only [mpOf]; split <;> omega
    have e11 : mOff 11 = 337 := by decide
    refine ⟨by omega, ?_⟩
    have : yearDays (marchYear y m) + 365 ≤ yearDays (marchYear y m + 1) := by
      simp only [yearDays]; omega
    omega

/-- the day number is strictly monotone in (year, month, day) on valid civil dates -/
theorem dfc_lt_of_lex (y m d y' m' d' : Int) (h : validCivil y m d) (h' : validCivil y' m' d')
    (hl : y < y' ∨ (y = y' ∧ (m < m' ∨ (m = m' ∧ d < d')))) : dfc y m d < dfc y' m' d' := by
  rw [dfc_split y m d, dfc_split y' m' d']
  have hy := day_in_year y m d h
  have hy' := day_in_year y' m' d' h'
  -- the lexicographic order carries over to (March-based year, March-based month, day)
  have hlex : marchYear y m < marchYear y' m' ∨
      (marchYear y m = marchYear y' m' ∧ (mpOf m < mpOf m' ∨ (mpOf m = mpOf m' ∧ d < d'))) := by
    obtain ⟨h1, h2, _, _⟩ := h
    obtain ⟨h1', h2', _, _⟩ := h'
    simp only [marchYear, mpOf]
    by_cases c1 : m ≤ 2 <;> by_cases c2 : m' ≤ 2 <;>
      simp only [c1, c2, if_true, if_false] <;>
      (try simp only [show (m > 2) = False by simp; omega]) <;>
      (try simp only [show (m' > 2) = False by simp; omega]) <;>
      (try simp only [show (m > 2) = True by simp; omega]) <;>
      (try simp only [show (m' > 2) = True by simp; omega]) <;>
      simp only [if_true, if_false] <;> omega
  rcases hlex with hY | ⟨hY, hm | ⟨hm, hd⟩⟩
  · have := yearDays_mono (marchYear y m + 1) (marchYear y' m') (by omega)
    omega
  · rw [hY] at hy ⊢
    have hm2 : m ≠ 2 := by
      intro e; subst e
      obtain ⟨h1', h2', _, _⟩ := h'
      simp only [mpOf] at hm; split at hm <;> omega
    have hin := day_in_month y m d h hm2
    have hmo := mOff_mono (mpOf m + 1) (mpOf m') (by omega)
    obtain ⟨_, _, hd1', _⟩ := h'
    omega
  · rw [hY, hm]; omega

theorem dfc_le_of_lex (y m d y' m' d' : Int) (h : validCivil y m d) (h' : validCivil y' m' d')
    (hl : y < y' ∨ (y = y' ∧ (m < m' ∨ (m = m' ∧ d ≤ d')))) : dfc y m d ≤ dfc y' m' d' := by
  by_cases he : y = y' ∧ m = m' ∧ d = d'
  · obtain ⟨rfl, rfl, rfl⟩ := he; exact Int.le_refl _
  · exact Int.le_of_lt (dfc_lt_of_lex y m d y' m' d' h h' (by omega))

/-- the instant of valid civil fields: day number and time of day -/
theorem goDate_split (f : Fields) (h : validFields f) :
    goDate f = dfc f.y f.mo f.d * nsDay + (f.h * nsHour + f.mi * nsMin + f.s * nsSec + f.ns) ∧
    0 ≤ f.h * nsHour + f.mi * nsMin + f.s * nsSec + f.ns ∧
    f.h * nsHour + f.mi * nsMin + f.s * nsSec + f.ns < nsDay := by
  have hg := goDate_of_valid f h
  obtain ⟨h1, h2, h3, h4, h5, h6, h7, h8, h9, h10, h11, h12⟩ := h
  simp only [nsDay, nsHour, nsMin, nsSec] at hg ⊢
  omega

theorem validFields_civil (f : Fields) (h : validFields f) : validCivil f.y f.mo f.d := by
  obtain ⟨h1, h2, h3, h4, _⟩ := h; exact ⟨h1, h2, h3, h4⟩

theorem lex_step (x y : Int) (L R : Cmp) (hlt : x < y → L = .lt) (hgt : y < x → L = .gt)
    (heq : x = y → L = R) : L = if x ≠ y then cmpInt x y else R := by
  rcases Int.lt_trichotomy x y with h | h | h
  · rw [if_pos (by omega), (ci_lt x y).mpr h]; exact hlt h
  · rw [if_neg (by omega)]; exact heq h
  · rw [if_pos (by omega), (ci_gt x y).mpr h]; exact hgt h

/-- **The order of the instants is the calendar order**: on valid civil fields, comparing the exact
instants is the lexicographic comparison of (year, month, day, hour, minute, second, nanosecond). -/
theorem cmpInt_goDate_eq_lexCmp (f g : Fields) (hf : validFields f) (hg : validFields g) :
    cmpInt (goDate f) (goDate g) = lexCmp f g := by
  obtain ⟨ef, f0, f1⟩ := goDate_split f hf
  obtain ⟨eg, g0, g1⟩ := goDate_split g hg
  have cf := validFields_civil f hf
  have cg := validFields_civil g hg
  have dlt := dfc_lt_of_lex f.y f.mo f.d g.y g.mo g.d cf cg
  have dgt := dfc_lt_of_lex g.y g.mo g.d f.y f.mo f.d cg cf
  obtain ⟨_, _, _, _, a5, a6, a7, a8, a9, a10, a11, a12⟩ := hf
  obtain ⟨_, _, _, _, b5, b6, b7, b8, b9, b10, b11, b12⟩ := hg
  have dayLt : dfc f.y f.mo f.d < dfc g.y g.mo g.d → cmpInt (goDate f) (goDate g) = .lt := by
    intro h; rw [ci_lt, ef, eg]; simp only [nsDay] at *; omega
  have dayGt : dfc g.y g.mo g.d < dfc f.y f.mo f.d → cmpInt (goDate f) (goDate g) = .gt := by
    intro h; rw [ci_gt, ef, eg]; simp only [nsDay] at *; omega
  unfold lexCmp
  apply lex_step
  · intro h; exact dayLt (dlt (Or.inl h))
  · intro h; exact dayGt (dgt (Or.inl h))
  intro hy
  apply lex_step
  · intro h; exact dayLt (dlt (Or.inr ⟨hy, Or.inl h⟩))
  · intro h; exact dayGt (dgt (Or.inr ⟨hy.symm, Or.inl h⟩))
  intro hmo
  apply lex_step
  · intro h; exact dayLt (dlt (Or.inr ⟨hy, Or.inr ⟨hmo, h⟩⟩))
  · intro h; exact dayGt (dgt (Or.inr ⟨hy.symm, Or.inr ⟨hmo.symm, h⟩⟩))
  intro hd
  -- same day: the time of day decides, field by field
  have eday : dfc f.y f.mo f.d = dfc g.y g.mo g.d := by rw [hy, hmo, hd]
  rw [ef, eg, eday]
  generalize dfc g.y g.mo g.d * nsDay = base
  simp only [nsHour, nsMin, nsSec]
  apply lex_step
  · intro h; rw [ci_lt]; omega
  · intro h; rw [ci_gt]; omega
  intro hh
  apply lex_step
  · intro h; rw [ci_lt]; omega
  · intro h; rw [ci_gt]; omega
  intro hmi
  apply lex_step
  · intro h; rw [ci_lt]; omega
  · intro h; rw [ci_gt]; omega
  intro hs
  rw [hh, hmi, hs]
  rcases Int.lt_trichotomy f.ns g.ns with h | h | h
  · rw [(ci_lt f.ns g.ns).mpr h, ci_lt]; omega
  · rw [h, ci_refl, ci_refl]
  · rw [(ci_gt f.ns g.ns).mpr h, ci_gt]; omega

end Gms.TimeCmp
