/-
Laws of the shared SQL reference semantics (M1 + M2): three-valued logic, IN / NOT IN, joins,
set operations as bag algebra, grouping, ordering. Used by C02, C05, C06 (and reusable by every
property that takes `Gms.Rel.eval` as the definition of SQL).
-/
import Gms.Model.Rel

namespace Gms.Sql

/-! ## Three-valued logic -/

theorem Tri.not_not (a : Tri) : Tri.not (Tri.not a) = a := by cases a <;> rfl
theorem Tri.and_comm (a b : Tri) : Tri.and a b = Tri.and b a := by cases a <;> cases b <;> rfl
theorem Tri.or_comm (a b : Tri) : Tri.or a b = Tri.or b a := by cases a <;> cases b <;> rfl
theorem Tri.and_assoc (a b c : Tri) : Tri.and (Tri.and a b) c = Tri.and a (Tri.and b c) := by
  cases a <;> cases b <;> cases c <;> rfl
theorem Tri.or_assoc (a b c : Tri) : Tri.or (Tri.or a b) c = Tri.or a (Tri.or b c) := by
  cases a <;> cases b <;> cases c <;> rfl
/-- De Morgan holds in Kleene logic. -/
theorem Tri.not_and (a b : Tri) : Tri.not (Tri.and a b) = Tri.or (Tri.not a) (Tri.not b) := by
  cases a <;> cases b <;> rfl
theorem Tri.not_or (a b : Tri) : Tri.not (Tri.or a b) = Tri.and (Tri.not a) (Tri.not b) := by
  cases a <;> cases b <;> rfl
theorem Tri.and_eq_t (a b : Tri) : Tri.and a b = .t ↔ a = .t ∧ b = .t := by
  cases a <;> cases b <;> simp [Tri.and]
theorem Tri.or_eq_t (a b : Tri) : Tri.or a b = .t ↔ a = .t ∨ b = .t := by
  cases a <;> cases b <;> simp [Tri.or]
theorem Tri.or_eq_f (a b : Tri) : Tri.or a b = .f ↔ a = .f ∧ b = .f := by
  cases a <;> cases b <;> simp [Tri.or]
theorem Tri.not_eq_t (a : Tri) : Tri.not a = .t ↔ a = .f := by cases a <;> simp [Tri.not]

/-- Reading back the SQL value of a truth value. -/
theorem truth_toValue (x : Tri) : x.toValue.truth = x := by cases x <;> rfl

theorem toValue_isNull (x : Tri) : x.toValue.isNull = true ↔ x = .u := by cases x <;> simp [Tri.toValue, Value.isNull]

theorem truth_eq_u (v : Value) : v.truth = .u ↔ v = .null := by
  cases v with
  | null => simp [Value.truth]
  | int i => by_cases h : i = 0 <;> simp [Value.truth, h]
  | str b => simp [Value.truth]

/-! ## Comparison with NULL, IN, NOT IN -/

theorem cmpTri_null_right (op : CmpOp) (h : op ≠ .nseq) (v : Value) : cmpTri op v .null = .u := by
  cases op <;> first | (exact absurd rfl h) | (cases v <;> rfl)

theorem cmpTri_null_left (op : CmpOp) (h : op ≠ .nseq) (v : Value) : cmpTri op .null v = .u := by
  cases op <;> first | (exact absurd rfl h) | (cases v <;> rfl)

/-- `v IN (…)` is TRUE iff some element is definitely equal. -/
theorem inTri_eq_t (v : Value) (vs : List Value) :
    inTri v vs = .t ↔ ∃ w ∈ vs, cmpTri .eq v w = .t := by
  induction vs with
  | nil => simp [inTri]
  | cons w ws ih => simp [inTri, Tri.or_eq_t, ih]

/-- `v IN (…)` is FALSE iff every element is definitely different. -/
theorem inTri_eq_f (v : Value) (vs : List Value) :
    inTri v vs = .f ↔ ∀ w ∈ vs, cmpTri .eq v w = .f := by
  induction vs with
  | nil => simp [inTri]
  | cons w ws ih => simp [inTri, Tri.or_eq_f, ih]

/-- A NULL in the list: `IN` is never FALSE … -/
theorem inTri_null_mem (v : Value) (vs : List Value) (h : Value.null ∈ vs) : inTri v vs ≠ .f := by
  intro hf
  have := (inTri_eq_f v vs).mp hf .null h
  rw [cmpTri_null_right .eq (by decide)] at this
  cases this

/-- … hence `NOT IN` is never TRUE. -/
theorem notIn_null_never_true (v : Value) (vs : List Value) (h : Value.null ∈ vs) :
    Tri.not (inTri v vs) ≠ .t := by
  rw [Ne, Tri.not_eq_t]
  exact inTri_null_mem v vs h

/-- A NULL on the left: `IN` over a non-empty list is never FALSE either. -/
theorem inTri_null_left (vs : List Value) (h : vs ≠ []) : inTri .null vs ≠ .f := by
  intro hf
  cases vs with
  | nil => exact h rfl
  | cons w ws =>
    have := (inTri_eq_f .null (w :: ws)).mp hf w (by simp)
    rw [cmpTri_null_left .eq (by decide)] at this
    cases this

/-- `NOT IN` is TRUE exactly when every element is definitely different (the "anti-join that
respects NULLs"): in particular over the empty list. -/
theorem notIn_eq_t (v : Value) (vs : List Value) :
    Tri.not (inTri v vs) = .t ↔ ∀ w ∈ vs, cmpTri .eq v w = .f := by
  rw [Tri.not_eq_t, inTri_eq_f]

/-! ## `dedup` -/

theorem mem_dedup {α : Type} [DecidableEq α] (a : α) (l : List α) : a ∈ dedup l ↔ a ∈ l := by
  induction l with
  | nil => simp [dedup]
  | cons b l ih =>
    simp only [dedup, List.mem_cons, List.mem_filter, ih, decide_eq_true_eq]
    by_cases h : a = b <;> simp [h]

theorem dedup_nodup {α : Type} [DecidableEq α] (l : List α) : (dedup l).Nodup := by
  induction l with
  | nil => simp [dedup]
  | cons b l ih =>
    simp only [dedup, List.nodup_cons, List.mem_filter, decide_eq_true_eq]
    exact ⟨fun h => h.2 rfl, ih.filter _⟩

theorem dedup_count {α : Type} [DecidableEq α] (a : α) (l : List α) :
    (dedup l).count a = if a ∈ l then 1 else 0 := by
  rw [List.Nodup.count (dedup_nodup l)]
  simp [mem_dedup]

end Gms.Sql

namespace Gms.Rel
open Gms.Sql

/-! ## Joins -/

theorem mem_innerJoin (m : Row → Row → Bool) (L R : List Row) (x : Row) :
    x ∈ innerJoin m L R ↔ ∃ a ∈ L, ∃ b ∈ R, m a b = true ∧ x = a ++ b := by
  simp only [innerJoin, List.mem_flatMap, List.mem_map, List.mem_filter]
  constructor
  · rintro ⟨a, ha, b, ⟨hb, hm⟩, rfl⟩; exact ⟨a, ha, b, hb, hm, rfl⟩
  · rintro ⟨a, ha, b, hb, hm, rfl⟩; exact ⟨a, ha, b, ⟨hb, hm⟩, rfl⟩

/-- The rows of a left outer join: matched pairs, and unmatched left rows padded with NULLs. -/
theorem mem_leftJoin (m : Row → Row → Bool) (w : Nat) (L R : List Row) (x : Row) :
    x ∈ leftJoin m w L R ↔
      ∃ a ∈ L, (∃ b ∈ R, m a b = true ∧ x = a ++ b) ∨ ((∀ b ∈ R, m a b = false) ∧ x = a ++ nulls w) := by
  simp only [leftJoin, List.mem_flatMap]
  constructor
  · rintro ⟨a, ha, hx⟩
    refine ⟨a, ha, ?_⟩
    by_cases he : (R.filter (m a)).isEmpty = true
    · rw [if_pos he] at hx
      right
      simp only [List.mem_singleton] at hx
      refine ⟨?_, hx⟩
      intro b hb
      have : R.filter (m a) = [] := by simpa using he
      have hb' : b ∉ R.filter (m a) := by rw [this]; simp
      simp only [List.mem_filter, not_and] at hb'
      simpa using hb' hb
    · rw [if_neg he] at hx
      left
      simp only [List.mem_map, List.mem_filter] at hx
      obtain ⟨b, ⟨hb, hm⟩, rfl⟩ := hx
      exact ⟨b, hb, hm, rfl⟩
  · rintro ⟨a, ha, h⟩
    refine ⟨a, ha, ?_⟩
    rcases h with ⟨b, hb, hm, rfl⟩ | ⟨hall, rfl⟩
    · have hne : ¬ (R.filter (m a)).isEmpty = true := by
        intro he
        have : R.filter (m a) = [] := by simpa using he
        have : b ∈ R.filter (m a) := by simp [List.mem_filter, hb, hm]
        simp_all
      rw [if_neg hne]
      simp only [List.mem_map, List.mem_filter]
      exact ⟨b, ⟨hb, hm⟩, rfl⟩
    · have he : (R.filter (m a)).isEmpty = true := by
        simp only [List.isEmpty_iff, List.filter_eq_nil_iff]
        intro b hb; simp [hall b hb]
      rw [if_pos he]; simp

/-- Bag-level characterisation: a left outer join is the inner join plus the anti-join padded
with NULLs. -/
theorem leftJoin_perm (m : Row → Row → Bool) (w : Nat) (L R : List Row) :
    (leftJoin m w L R).Perm (innerJoin m L R ++ (antiJoin m L R).map (· ++ nulls w)) := by
  induction L with
  | nil => simp [leftJoin, innerJoin, antiJoin]
  | cons a L ih =>
    have hl : leftJoin m w (a :: L) R =
        (if (R.filter (m a)).isEmpty then [a ++ nulls w] else (R.filter (m a)).map (a ++ ·)) ++ leftJoin m w L R := by
      simp [leftJoin]
    have hi : innerJoin m (a :: L) R = (R.filter (m a)).map (a ++ ·) ++ innerJoin m L R := by
      simp [innerJoin]
    rw [hl, hi]
    by_cases he : (R.filter (m a)).isEmpty = true
    · have hnil : R.filter (m a) = [] := by simpa using he
      have hany : R.any (m a) = false := by
        rw [List.any_eq_false]
        intro b hb
        have : b ∉ R.filter (m a) := by rw [hnil]; simp
        simp only [List.mem_filter, not_and] at this
        simpa using this hb
      have ha : antiJoin m (a :: L) R = a :: antiJoin m L R := by
        simp [antiJoin, hany]
      rw [if_pos he, hnil, ha]
      simp only [List.map_nil, List.nil_append, List.map_cons, List.singleton_append]
      exact (List.Perm.cons _ ih).trans List.perm_middle.symm
    · have hany : R.any (m a) = true := by
        rw [List.any_eq_true]
        have hne : R.filter (m a) ≠ [] := by simpa using he
        obtain ⟨b, hb⟩ := List.exists_mem_of_ne_nil _ hne
        simp only [List.mem_filter] at hb
        exact ⟨b, hb.1, hb.2⟩
      have ha : antiJoin m (a :: L) R = antiJoin m L R := by
        simp [antiJoin, hany]
      rw [if_neg he, ha, List.append_assoc]
      exact List.Perm.append_left _ ih

/-- No left row is lost by a left outer join. -/
theorem leftJoin_keeps_left (m : Row → Row → Bool) (w : Nat) (L R : List Row) (a : Row) (ha : a ∈ L) :
    ∃ x ∈ leftJoin m w L R, a <+: x := by
  by_cases h : ∃ b ∈ R, m a b = true
  · obtain ⟨b, hb, hm⟩ := h
    exact ⟨a ++ b, (mem_leftJoin m w L R _).mpr ⟨a, ha, Or.inl ⟨b, hb, hm, rfl⟩⟩, List.prefix_append a b⟩
  · refine ⟨a ++ nulls w, (mem_leftJoin m w L R _).mpr ⟨a, ha, Or.inr ⟨?_, rfl⟩⟩, List.prefix_append a _⟩
    intro b hb
    cases hm : m a b with
    | false => rfl
    | true => exact absurd ⟨b, hb, hm⟩ h

/-- With the join condition in ON or in WHERE: the same inner join. -/
theorem innerJoin_on_eq_where (m : Row → Row → Bool) (lw : Nat) (L R : List Row)
    (hL : ∀ a ∈ L, a.length = lw) :
    innerJoin m L R =
      (innerJoin (fun _ _ => true) L R).filter (fun x => m (x.take lw) (x.drop lw)) := by
  induction L with
  | nil => simp [innerJoin]
  | cons a L ih =>
    have hi : ∀ m', innerJoin m' (a :: L) R = (R.filter (m' a)).map (a ++ ·) ++ innerJoin m' L R := by
      intro m'; simp [innerJoin]
    rw [hi, hi, List.filter_append, ← ih (fun x hx => hL x (List.mem_cons_of_mem _ hx))]
    congr 1
    have hla : a.length = lw := hL a (by simp)
    have ht : R.filter (fun _ => true) = R := by simp
    rw [List.filter_map, ht]
    congr 1
    apply List.filter_congr
    intro b _
    simp [Function.comp, ← hla]

/-! ## Set operations as bag algebra -/

theorem count_intersectAll (l r : List Row) (a : Row) :
    (intersectAll l r).count a = min (l.count a) (r.count a) := by
  induction l generalizing r with
  | nil => simp [intersectAll]
  | cons b l ih =>
    unfold intersectAll
    by_cases hb : b ∈ r
    · rw [if_pos hb]
      by_cases hab : b = a
      · subst hab
        have : 0 < r.count b := List.count_pos_iff.mpr hb
        simp only [List.count_cons_self, ih, List.count_erase_self]
        omega
      · have hab' : (b == a) = false := by simpa using hab
        simp only [List.count_cons, hab', ih, List.count_erase_of_ne (Ne.symm hab)]
        simp
    · rw [if_neg hb]
      by_cases hab : b = a
      · subst hab
        have : r.count b = 0 := List.count_eq_zero.mpr hb
        simp [ih, this]
      · have hab' : (b == a) = false := by simpa using hab
        simp [List.count_cons, hab', ih]

theorem count_exceptAll (l r : List Row) (a : Row) :
    (exceptAll l r).count a = l.count a - r.count a := by
  induction l generalizing r with
  | nil => simp [exceptAll]
  | cons b l ih =>
    unfold exceptAll
    by_cases hb : b ∈ r
    · rw [if_pos hb]
      by_cases hab : b = a
      · subst hab
        have : 0 < r.count b := List.count_pos_iff.mpr hb
        simp only [List.count_cons_self, ih, List.count_erase_self]
        omega
      · have hab' : (b == a) = false := by simpa using hab
        simp [List.count_cons, hab', ih, List.count_erase_of_ne (Ne.symm hab)]
    · rw [if_neg hb]
      by_cases hab : b = a
      · subst hab
        have : r.count b = 0 := List.count_eq_zero.mpr hb
        simp only [List.count_cons_self, ih, this]
        omega
      · have hab' : (b == a) = false := by simpa using hab
        simp [List.count_cons, hab', ih]

/-! ## Grouping -/

/-- Filtering a list by each of the distinct values of a key function and concatenating gives a
permutation of the list. -/
theorem flatMap_filter_key_perm {κ : Type} [DecidableEq κ] (key : Row → κ) (rows : List Row) :
    ((dedup (rows.map key)).flatMap (fun k => rows.filter (fun r => key r = k))).Perm rows := by
  rw [List.perm_iff_count]
  intro a
  rw [List.count_flatMap]
  have hcount : ∀ k, (rows.filter (fun r => decide (key r = k))).count a = if key a = k then rows.count a else 0 := by
    intro k
    by_cases hk : key a = k
    · rw [List.count_filter (by simp [hk])]; simp [hk]
    · rw [if_neg hk]
      apply List.count_eq_zero.mpr
      intro hm
      have := (List.mem_filter.mp hm).2
      simp [hk] at this
  -- sum over the distinct keys: only the key of `a` contributes
  have key_sum : ∀ (ks : List κ), ks.Nodup →
      (ks.map (fun k => (rows.filter (fun r => decide (key r = k))).count a)).sum
        = if key a ∈ ks then rows.count a else 0 := by
    intro ks hnd
    induction ks with
    | nil => simp
    | cons k ks ih =>
      have hnd' := List.nodup_cons.mp hnd
      simp only [List.map_cons, List.sum_cons, ih hnd'.2, hcount k, List.mem_cons]
      by_cases hk : key a = k
      · subst hk
        simp [hnd'.1]
      · simp [hk]
  simp only [Function.comp_def]
  rw [key_sum _ (dedup_nodup _)]
  by_cases ha : a ∈ rows
  · have : key a ∈ dedup (rows.map key) := (mem_dedup _ _).mpr (List.mem_map_of_mem ha)
    simp [this]
  · have : rows.count a = 0 := List.count_eq_zero.mpr ha
    simp [this]

/-- GROUP BY partitions its input: the groups, concatenated, are a permutation of the input; the
keys are pairwise distinct; every member of a group has the group's key; no group is empty. -/
theorem groupRows_partition (key : Row → Row) (rows : List Row) :
    ((groupRows true key rows).flatMap (·.2)).Perm rows
    ∧ ((groupRows true key rows).map (·.1)).Nodup
    ∧ (∀ g ∈ groupRows true key rows, (∀ r ∈ g.2, key r = g.1) ∧ g.2 ≠ []) := by
  refine ⟨?_, ?_, ?_⟩
  · have := flatMap_filter_key_perm key rows
    simpa [groupRows, List.flatMap_map] using this
  · simp only [groupRows, if_true, List.map_map]
    have : ((fun g : Row × List Row => g.1) ∘ fun k => (k, rows.filter (fun r => decide (key r = k)))) = id := by
      funext k; rfl
    rw [this, List.map_id]
    exact dedup_nodup _
  · intro g hg
    simp only [groupRows, if_true, List.mem_map] at hg
    obtain ⟨k, hk, rfl⟩ := hg
    refine ⟨fun r hr => by simpa using (List.mem_filter.mp hr).2, ?_⟩
    have hk' := (mem_dedup _ _).mp hk
    obtain ⟨r, hr, hkr⟩ := List.mem_map.mp hk'
    intro hnil
    have : r ∈ rows.filter (fun r => decide (key r = k)) := by simp [List.mem_filter, hr, hkr]
    simp only at hnil
    rw [hnil] at this
    cases this

/-- Without grouping keys there is exactly one group, even over an empty input. -/
theorem groupRows_noKeys (key : Row → Row) (rows : List Row) :
    groupRows false key rows = [([], rows)] := rfl

/-! ## ORDER BY / LIMIT -/

theorem insertBy_perm {α : Type} (le : α → α → Bool) (x : α) (l : List α) :
    (insertBy le x l).Perm (x :: l) := by
  induction l with
  | nil => simp [insertBy]
  | cons y ys ih =>
    unfold insertBy
    by_cases h : le x y = true
    · simp [h]
    · simp only [h]
      exact (List.Perm.cons y ih).trans (List.Perm.swap x y ys)

theorem sortBy_perm {α : Type} (le : α → α → Bool) (l : List α) : (sortBy le l).Perm l := by
  induction l with
  | nil => simp [sortBy]
  | cons x xs ih => exact (insertBy_perm le x _).trans (List.Perm.cons x ih)

theorem insertBy_sorted {α : Type} (le : α → α → Bool)
    (total : ∀ a b, le a b = true ∨ le b a = true)
    (trans : ∀ a b c, le a b = true → le b c = true → le a c = true)
    (x : α) (l : List α) (h : l.Pairwise (fun a b => le a b = true)) :
    (insertBy le x l).Pairwise (fun a b => le a b = true) := by
  induction l with
  | nil => simp [insertBy]
  | cons y ys ih =>
    unfold insertBy
    have hp := List.pairwise_cons.mp h
    by_cases hxy : le x y = true
    · simp only [hxy, if_true]
      refine List.pairwise_cons.mpr ⟨?_, h⟩
      intro z hz
      rcases List.mem_cons.mp hz with rfl | hz'
      · exact hxy
      · exact trans _ _ _ hxy (hp.1 z hz')
    · simp only [hxy]
      refine List.pairwise_cons.mpr ⟨?_, ih hp.2⟩
      intro z hz
      have hz' := (insertBy_perm le x ys).mem_iff.mp hz
      rcases List.mem_cons.mp hz' with rfl | hz''
      · rcases total z y with h1 | h1
        · exact absurd h1 hxy
        · exact h1
      · exact hp.1 z hz''

theorem sortBy_sorted {α : Type} (le : α → α → Bool)
    (total : ∀ a b, le a b = true ∨ le b a = true)
    (trans : ∀ a b c, le a b = true → le b c = true → le a c = true)
    (l : List α) : (sortBy le l).Pairwise (fun a b => le a b = true) := by
  induction l with
  | nil => simp [sortBy]
  | cons x xs ih => exact insertBy_sorted le total trans x _ ih

end Gms.Rel
