/-
Join keys whose equality is not byte equality: hash / lookup / semi-join operators keyed by a NORMAL
FORM of the key are right; keyed by the stored value (or by another function that is not constant on
the classes of `=`) they lose rows.
-/
import Gms.Lemmas.Phys
import Gms.Model.PhysKeys

namespace Gms.Phys
open Gms.Sql Gms.Rel List

theorem bytesCmp_eq_of_eq : ∀ a b : List UInt8, bytesCmp a b = .eq → a = b
  | [], [], _ => rfl
  | [], _ :: _, h => by simp [bytesCmp] at h
  | _ :: _, [], h => by simp [bytesCmp] at h
  | x :: xs, y :: ys, h => by
    unfold bytesCmp at h
    by_cases h1 : x < y
    · simp [h1] at h
    · by_cases h2 : y < x
      · simp [h1, h2] at h
      · simp only [h1, h2, if_false] at h
        have hxy : x = y := by
          have a1 : ¬ x.toNat < y.toNat := by simpa [UInt8.lt_iff_toNat_lt] using h1
          have a2 : ¬ y.toNat < x.toNat := by simpa [UInt8.lt_iff_toNat_lt] using h2
          exact UInt8.toNat_inj.mp (by omega)
        rw [hxy, bytesCmp_eq_of_eq xs ys h]

/-- `v = w` is TRUE only for the same non-NULL value. -/
theorem cmpTri_eq_t (v w : Value) (h : cmpTri .eq v w = .t) : v = w := by
  unfold cmpTri at h
  cases v <;> cases w <;> simp [Value.cmp?, Tri.ofBool, CmpOp.holds] at h
  · rename_i a b
    have : compare a b = .eq := by
      cases hc : compare a b <;> simp [hc] at h ⊢
    rw [Int.compare_eq_eq.mp this]
  · rename_i a b
    have : bytesCmp a b = .eq := by
      cases hc : bytesCmp a b <;> simp [hc] at h ⊢
    rw [bytesCmp_eq_of_eq a b this]

theorem Tri.and_eq_t {x y : Tri} (h : Tri.and x y = .t) : x = .t ∧ y = .t := by
  cases x <;> cases y <;> simp [Tri.and] at h ⊢

/-- A join condition on keys compared through a normal form `n` (collation fold, numeric value…):
`n(l.ci) = n(r.cj) AND residual`. -/
def keyedCond (n : Value → Value) (i j : Nat) (res : Row → Row → Tri) (a b : Row) : Tri :=
  Tri.and (cmpTri .eq (n (a.getD i .null)) (n (b.getD j .null))) (res a b)

theorem keyedCond_t (n : Value → Value) (i j : Nat) (res : Row → Row → Tri) (a b : Row)
    (h : keyedCond n i j res a b = .t) : n (b.getD j .null) = n (a.getD i .null) :=
  (cmpTri_eq_t _ _ (Tri.and_eq_t h).1).symm

/-- **A hash join keyed by the normal form of the key = the nested-loop join** (inner and left outer,
same row sequence, every state of the lazily published table, any residual). This is what
`GetHashKey` must provide: `HashOfSimple` hashes the collation WEIGHTS of a string / the value
converted to the common compare type. -/
theorem hashJoin_normKey (lo : Bool) (n : Value → Value) (i j : Nat) (res : Row → Row → Tri) (rw : Nat)
    (choice : Nat) (L R : List Row) :
    hashJoin lo false (keyedCond n i j res) rw (fun a => n (a.getD i .null)) (fun b => n (b.getD j .null))
        choice L R
      = nlJoin lo false (keyedCond n i j res) rw L R :=
  hashJoinGo_eq_nl_noexcl lo _ rw _ _ R choice L false (fun a _ b _ h => keyedCond_t n i j res a b h)

/-- More generally: ANY key function that is constant on the classes of the normal form will do (a
lossy hash of it, for instance). -/
theorem hashJoin_coarserKey {κ : Type} [DecidableEq κ] (lo : Bool) (n : Value → Value) (h : Value → κ)
    (i j : Nat) (res : Row → Row → Tri) (rw : Nat) (choice : Nat) (L R : List Row) :
    hashJoin lo false (keyedCond n i j res) rw (fun a => h (n (a.getD i .null))) (fun b => h (n (b.getD j .null)))
        choice L R
      = nlJoin lo false (keyedCond n i j res) rw L R :=
  hashJoinGo_eq_nl_noexcl lo _ rw _ _ R choice L false
    (fun a _ b _ hc => by simp only [keyedCond_t n i j res a b hc])

/-! ### Lookup join whose equality conjunct was dropped ("implied by the lookup") -/

section Lookup
variable {κ : Type} [DecidableEq κ]

theorem matchRows_true (a : Row) (X : List Row) : matchRows (fun _ _ => Tri.t) a X = X := by
  simp [matchRows]

/-- The memo removes the equality conjunct a lookup join is keyed on. That is sound when the index
returns exactly the rows whose key EQUALS the probe key — i.e. when "same index key" and "condition
TRUE" coincide. -/
theorem lookupJoin_dropped_cond_perm (lo : Bool) (c : Row → Row → Tri) (rw : Nat) (kL kR : Row → κ)
    (idx : κ → List Row) (L R : List Row)
    (hidx : ∀ k, idx k ~ R.filter (fun r => kR r = k))
    (H : ∀ a ∈ L, ∀ b ∈ R, (c a b = .t ↔ kR b = kL a)) :
    lookupJoin lo (fun _ _ => Tri.t) rw kL idx L ~ nlJoin lo false c rw L R := by
  unfold lookupJoin nlJoin
  apply flatMap_congr_perm
  intro a ha
  rw [nlScanRow_closed, nlScanRow_closed, matchRows_true]
  have hm : matchRows c a R = R.filter (fun r => kR r = kL a) := by
    unfold matchRows
    apply List.filter_congr
    intro b hb
    have := H a ha b hb
    by_cases hk : kR b = kL a
    · simp [hk, this.mpr hk]
    · have hne : c a b ≠ .t := fun h => hk (this.mp h)
      cases hc : c a b <;> simp_all
  rw [hm]
  have hp := hidx (kL a)
  rw [hp.isEmpty_eq]
  exact (hp.map _).append_right _

/-- The general form: the lookup join keeps a residual condition `c'` and is keyed on `kL`/`kR`; it
is the join on `c` when "`c` is TRUE" means "`c'` is TRUE and the index returns the row". -/
theorem lookupJoin_residual_perm (lo : Bool) (c c' : Row → Row → Tri) (rw : Nat) (kL kR : Row → κ)
    (idx : κ → List Row) (L R : List Row)
    (hidx : ∀ k, idx k ~ R.filter (fun r => kR r = k))
    (H : ∀ a ∈ L, ∀ b ∈ R, (c a b = .t ↔ (c' a b = .t ∧ kR b = kL a))) :
    lookupJoin lo c' rw kL idx L ~ nlJoin lo false c rw L R := by
  unfold lookupJoin nlJoin
  apply flatMap_congr_perm
  intro a ha
  rw [nlScanRow_closed, nlScanRow_closed]
  have hm : matchRows c a R = matchRows c' a (R.filter (fun r => kR r = kL a)) := by
    unfold matchRows
    rw [List.filter_filter]
    apply List.filter_congr
    intro b hb
    have := H a ha b hb
    by_cases hk : kR b = kL a
    · by_cases hc' : c' a b = .t
      · simp [hk, hc', this.mpr ⟨hc', hk⟩]
      · have hne : c a b ≠ .t := fun h => hc' (this.mp h).1
        cases hc : c a b <;> cases hd : c' a b <;> simp_all <;> decide
    · have hne : c a b ≠ .t := fun h => hk (this.mp h).2
      cases hc : c a b <;> simp_all
  rw [hm]
  have hp : matchRows c' a (idx (kL a)) ~ matchRows c' a (R.filter fun r => kR r = kL a) :=
    (hidx (kL a)).filter _
  rw [hp.isEmpty_eq]
  exact (hp.map _).append_right _

end Lookup

/-! ### Semi join as inner join over a de-duplicated right side -/

/-- The memo's rewrite of a semi join: inner join with the right side de-duplicated (`D`), projected
back on the left row. Sound when `D` keeps at least one and at most one matching row per left row. -/
theorem semi_as_inner_over_distinct (m : Row → Row → Bool) (L R D : List Row)
    (hany : ∀ a ∈ L, D.any (m a) = R.any (m a))
    (hone : ∀ a ∈ L, (D.filter (m a)).length ≤ 1) :
    (L.flatMap fun a => (D.filter (m a)).map fun _ => a) = semiJoin m L R := by
  unfold semiJoin
  induction L with
  | nil => rfl
  | cons a L ih =>
    have ih' := ih (fun x hx => hany x (by simp [hx])) (fun x hx => hone x (by simp [hx]))
    rw [List.flatMap_cons, ih', List.filter_cons]
    have h1 := hany a (by simp)
    have h2 := hone a (by simp)
    cases hf : D.filter (m a) with
    | nil =>
      have : D.any (m a) = false := by
        rw [List.any_eq_false]; intro b hb hmb
        have : b ∈ D.filter (m a) := List.mem_filter.mpr ⟨hb, hmb⟩
        rw [hf] at this; simp at this
      rw [← h1, this]; simp
    | cons b t =>
      have hb : b ∈ D.filter (m a) := by rw [hf]; simp
      have hbm := List.mem_filter.mp hb
      have : D.any (m a) = true := List.any_eq_true.mpr ⟨b, hbm.1, hbm.2⟩
      have ht : t = [] := by
        rw [hf] at h2
        cases t with
        | nil => rfl
        | cons _ _ => simp at h2
      rw [← h1, this, ht]; simp

end Gms.Phys
