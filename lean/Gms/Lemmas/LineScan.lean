/-
C50 — chunking independence of the LOAD DATA line scanner (`Gms.Outfile.scan`): for every way the
reader cuts the file into chunks, the tokens `bufio.Scanner` + `LoadData.SplitLines` produce are the
whole-file split `splitLines`.
-/
import Gms.Model.Outfile

namespace Gms.Outfile

theorem isPrefixOf_append_of_le (p d e : Bytes) (h : p.length ≤ d.length) :
    p.isPrefixOf (d ++ e) = p.isPrefixOf d := by
  induction p generalizing d with
  | nil => simp
  | cons x xs ih =>
    cases d with
    | nil => simp at h
    | cons y ys =>
      simp only [List.length_cons, Nat.add_le_add_iff_right] at h
      simp [List.isPrefixOf, ih ys h]

theorem isPrefixOf_length_le (p d : Bytes) (h : p.isPrefixOf d = true) : p.length ≤ d.length :=
  (List.isPrefixOf_iff_prefix.mp h).length_le

theorem isPrefixOf_split (p d : Bytes) (h : p.isPrefixOf d = true) : d = p ++ d.drop p.length := by
  obtain ⟨t, ht⟩ := List.isPrefixOf_iff_prefix.mp h
  subst ht
  simp

theorem splitLines_skip (lt l rest cur : Bytes) :
    splitLines lt l.length (l ++ rest) cur = splitLines lt 0 rest cur := by
  induction l with
  | nil => rfl
  | cons c cs ih => simpa [splitLines] using ih

/-- `bytes.Index` found the terminator at `i`: it lies inside the data. -/
theorem index_bound (p : Bytes) : ∀ (d : Bytes) (i : Nat), index p d = some i → i + p.length ≤ d.length := by
  intro d
  induction d with
  | nil => intro i h; simp [index] at h
  | cons c cs ih =>
    intro i h
    simp only [index] at h
    split at h
    · rename_i hp
      have := isPrefixOf_length_le p (c :: cs) hp
      simp only [Option.some.injEq] at h
      omega
    · cases hi : index p cs with
      | none => simp [hi] at h
      | some j =>
        simp [hi] at h
        have := ih j hi
        simp only [List.length_cons]
        omega

/-- The first occurrence of the terminator does not move when more bytes arrive. -/
theorem index_append (p e : Bytes) : ∀ (d : Bytes) (i : Nat), index p d = some i → index p (d ++ e) = some i := by
  intro d
  induction d with
  | nil => intro i h; simp [index] at h
  | cons c cs ih =>
    intro i h
    simp only [index] at h
    split at h
    · rename_i hp
      have hl := isPrefixOf_length_le p (c :: cs) hp
      have := isPrefixOf_append_of_le p (c :: cs) e hl
      simp only [List.cons_append] at this ⊢
      simp only [index, this, hp, if_true]
      exact h
    · rename_i hp
      cases hi : index p cs with
      | none => simp [hi] at h
      | some j =>
        simp [hi] at h
        have hb := index_bound p cs j hi
        have hl : p.length ≤ (c :: cs).length := by simp only [List.length_cons]; omega
        have := isPrefixOf_append_of_le p (c :: cs) e hl
        simp only [List.cons_append] at this ⊢
        simp only [index, this, hp, Bool.false_eq_true, if_false, ih j hi]
        simp [h]

/-- Whole-file split when the terminator occurs: first token up to and including the first
occurrence, then the rest. -/
theorem splitLines_some (lt : Bytes) (hl : lt ≠ []) :
    ∀ (data cur : Bytes) (i : Nat), index lt data = some i →
      splitLines lt 0 data cur
        = (cur.reverse ++ data.take (i + lt.length)) :: splitLines lt 0 (data.drop (i + lt.length)) [] := by
  intro data
  induction data with
  | nil => intro cur i h; simp [index] at h
  | cons c cs ih =>
    intro cur i h
    simp only [index] at h
    split at h
    · rename_i hp
      simp only [Option.some.injEq] at h
      subst h
      have hs := isPrefixOf_split lt (c :: cs) hp
      match lt, hl with
      | l0 :: lt', _ =>
        rw [splitLines, if_pos hp]
        simp only [List.length_cons, Nat.zero_add, Nat.add_sub_cancel]
        have hcs : cs = lt' ++ (c :: cs).drop (lt'.length + 1) := by
          have := hs
          simp only [List.length_cons, List.cons_append] at this
          exact (List.cons.inj this).2
        have hsk := splitLines_skip (l0 :: lt') lt' ((c :: cs).drop (lt'.length + 1)) []
        rw [← hcs] at hsk
        rw [hsk]
        congr 1
        have : (c :: cs).take (lt'.length + 1) = l0 :: lt' := by
          conv => lhs; rw [hs]
          simp
        rw [this]
    · rename_i hp
      cases hi : index lt cs with
      | none => simp [hi] at h
      | some j =>
        simp [hi] at h
        subst h
        rw [splitLines, if_neg hp, ih (c :: cur) j hi]
        have e : j + 1 + lt.length = (j + lt.length) + 1 := by omega
        rw [e]
        simp

/-- Whole-file split when the terminator does not occur: the pending bytes are the last token. -/
theorem splitLines_none (lt : Bytes) :
    ∀ (data cur : Bytes), index lt data = none →
      splitLines lt 0 data cur = if (cur.reverse ++ data).isEmpty then [] else [cur.reverse ++ data] := by
  intro data
  induction data with
  | nil => intro cur _; simp [splitLines]
  | cons c cs ih =>
    intro cur h
    simp only [index] at h
    split at h
    · simp at h
    · rename_i hp
      have hi : index lt cs = none := by
        cases hj : index lt cs with
        | none => rfl
        | some j => simp [hj] at h
      rw [splitLines, if_neg hp, ih (c :: cur) hi]
      simp

/-- At EOF the scanner loop yields exactly the whole-file split of the pending bytes. -/
theorem drain_eof (lt : Bytes) (hl : lt ≠ []) :
    ∀ (fuel : Nat) (data : Bytes), data.length < fuel → drain lt true fuel data = (splitLines lt 0 data [], []) := by
  intro fuel
  induction fuel with
  | zero => intro data h; omega
  | succ fuel ih =>
    intro data h
    have hlen : 0 < lt.length := List.length_pos_iff.mpr hl
    cases data with
    | nil => simp [drain, splitFn, splitLines]
    | cons c cs =>
      cases hi : index lt (c :: cs) with
      | some i =>
        have hb := index_bound lt (c :: cs) i hi
        have hne : i + lt.length ≠ 0 := by omega
        have hrec := ih ((c :: cs).drop (i + lt.length)) (by simp only [List.length_drop, List.length_cons] at *; omega)
        have hs := splitLines_some lt hl (c :: cs) [] i hi
        simp only [drain, splitFn, hi, Bool.and_eq_true, List.isEmpty_cons, Bool.false_eq_true, and_false, if_false, hne, hrec, hs]
        simp
      | none =>
        have hs := splitLines_none lt (c :: cs) [] hi
        have hrec := ih [] (by simp only [List.length_cons, List.length_nil] at *; omega)
        simp only [drain, splitFn, hi, Bool.and_eq_true, List.isEmpty_cons, Bool.false_eq_true, and_false, if_false, if_true,
          List.length_cons, Nat.add_one_ne_zero, hs]
        simp [hrec, splitLines]

/-- Before EOF: the tokens the scanner loop emits from the buffered bytes `d`, followed by the
whole-file split of (what it left pending ++ the bytes still to come), are the whole-file split of
`d ++ e` — whatever `e` is. -/
theorem drain_more (lt : Bytes) (hl : lt ≠ []) (e : Bytes) :
    ∀ (fuel : Nat) (d : Bytes), d.length < fuel →
      splitLines lt 0 (d ++ e) []
        = (drain lt false fuel d).1 ++ splitLines lt 0 ((drain lt false fuel d).2 ++ e) [] := by
  intro fuel
  induction fuel with
  | zero => intro d h; omega
  | succ fuel ih =>
    intro d h
    have hlen : 0 < lt.length := List.length_pos_iff.mpr hl
    cases hi : index lt d with
    | none => simp [drain, splitFn, hi]
    | some i =>
      have hb := index_bound lt d i hi
      have hne : i + lt.length ≠ 0 := by omega
      have hrec := ih (d.drop (i + lt.length)) (by simp only [List.length_drop]; omega)
      have hs := splitLines_some lt hl (d ++ e) [] i (index_append lt e d i hi)
      rw [hs, List.take_append_of_le_length hb, List.drop_append_of_le_length hb, hrec]
      simp [drain, splitFn, hi, hl]

/-- The streaming scanner equals the whole-file split of everything it is given. -/
theorem scan_eq (lt : Bytes) (hl : lt ≠ []) :
    ∀ (chunks : List Bytes) (buf : Bytes), scan lt buf chunks = splitLines lt 0 (buf ++ chunks.flatten) [] := by
  intro chunks
  induction chunks with
  | nil => intro buf; simp [scan, drain_eof lt hl (buf.length + 1) buf (by omega)]
  | cons c cs ih =>
    intro buf
    have := drain_more lt hl cs.flatten (buf.length + c.length + 1) (buf ++ c) (by simp only [List.length_append]; omega)
    simp only [scan, ih, List.flatten_cons]
    rw [← List.append_assoc, this]

/-! ### A split function that remembers where it stopped searching

`splitFnResume back`: the stateful variant (closure over `searched`). With the resume point
`len(data) - (len(lt) - 1)` it is equivalent to the stateless function for every chunking
(`scanResume_ok`); the invariant `Inv` is what a resume point has to satisfy. -/

/-- No occurrence of `p` starts before offset `k` of `d`. -/
def NoOcc (p d : Bytes) (k : Nat) : Prop := ∀ j, j < k → p.isPrefixOf (d.drop j) = false

theorem index_skip (p : Bytes) : ∀ (k : Nat) (d : Bytes), NoOcc p d k → k ≤ d.length →
    index p d = (index p (d.drop k)).map (· + k) := by
  intro k
  induction k with
  | zero => intro d _ _; simp
  | succ k ih =>
    intro d h hk
    cases d with
    | nil => simp at hk
    | cons c cs =>
      have h0 := h 0 (by omega)
      simp only [List.drop_zero] at h0
      have hcs : NoOcc p cs k := fun j hj => by
        have := h (j + 1) (by omega)
        simpa using this
      have := ih cs hcs (by simpa using hk)
      simp only [index, h0, Bool.false_eq_true, if_false, List.drop_succ_cons]
      rw [this]
      cases index p (List.drop k cs) with
      | none => rfl
      | some i => simp [Nat.add_assoc]

theorem index_none_noOcc (p : Bytes) (hp : p ≠ []) : ∀ (d : Bytes), index p d = none → ∀ j, p.isPrefixOf (d.drop j) = false := by
  intro d
  induction d with
  | nil =>
    intro _ j
    cases p with
    | nil => exact absurd rfl hp
    | cons x xs => simp
  | cons c cs ih =>
    intro h j
    simp only [index] at h
    split at h
    · simp at h
    · rename_i hpre
      have hi : index p cs = none := by
        cases hj : index p cs with
        | none => rfl
        | some j => simp [hj] at h
      cases j with
      | zero => exact Bool.eq_false_iff.mpr hpre
      | succ j => simpa using ih hi j

theorem noOcc_append (p d e : Bytes) (k : Nat) (h : NoOcc p d k) (hk : 0 < k → k + p.length ≤ d.length + 1) :
    NoOcc p (d ++ e) k := by
  intro j hj
  have hk := hk (by omega)
  have hle : j ≤ d.length := by omega
  rw [List.drop_append_of_le_length hle]
  rw [isPrefixOf_append_of_le p (d.drop j) e (by simp only [List.length_drop]; omega)]
  exact h j hj

/-- Soundness of the remembered offset: it lies inside the pending bytes, no terminator starts
before it, and it is far enough from the end that bytes arriving later cannot complete a terminator
that starts before it. -/
def Inv (lt buf : Bytes) (s : Nat) : Prop :=
  s ≤ buf.length ∧ NoOcc lt buf s ∧ (0 < s → s + lt.length ≤ buf.length + 1)

theorem inv_zero (lt buf : Bytes) : Inv lt buf 0 := ⟨by omega, fun j hj => by omega, fun h => by omega⟩

theorem inv_append (lt buf e : Bytes) (s : Nat) (h : Inv lt buf s) : Inv lt (buf ++ e) s := by
  obtain ⟨h1, h2, h3⟩ := h
  refine ⟨by simp only [List.length_append]; omega, noOcc_append lt buf e s h2 h3, fun h => ?_⟩
  have := h3 h
  simp only [List.length_append]; omega

/-- The resuming split function with the correct resume point (`len(data) - (len(lt) - 1)`) agrees
with the stateless one as long as `searched` is sound, and keeps it sound. -/
theorem splitFnResume_ok (lt : Bytes) (hl : lt ≠ []) (buf : Bytes) (atEOF : Bool) (s : Nat) (hinv : Inv lt buf s) :
    ((splitFnResume (lt.length - 1) lt buf atEOF s).1, (splitFnResume (lt.length - 1) lt buf atEOF s).2.1) = splitFn lt buf atEOF ∧
      ((splitFnResume (lt.length - 1) lt buf atEOF s).2.1 = none → Inv lt buf (splitFnResume (lt.length - 1) lt buf atEOF s).2.2) ∧
      ((splitFnResume (lt.length - 1) lt buf atEOF s).2.1 ≠ none → (splitFnResume (lt.length - 1) lt buf atEOF s).2.2 = 0) := by
  have hinv' := hinv
  obtain ⟨hs, hno, _⟩ := hinv
  have hlen : 0 < lt.length := List.length_pos_iff.mpr hl
  have hidx := index_skip lt s buf hno hs
  simp only [splitFnResume, splitFn]
  by_cases h0 : (atEOF && buf.isEmpty) = true
  · simp only [h0, if_true]
    exact ⟨trivial, fun _ => hinv', by simp⟩
  · simp only [h0, Bool.false_eq_true, if_false]
    cases hi : index lt (buf.drop s) with
    | some i =>
      rw [hi] at hidx
      simp only [Option.map_some] at hidx
      simp [hidx, Nat.add_comm i s]
    | none =>
      rw [hi] at hidx
      simp only [Option.map_none] at hidx
      simp only [hidx]
      cases atEOF with
      | true => simp
      | false =>
        simp only [Bool.false_eq_true, if_false, ne_eq, not_true_eq_false, false_implies, and_true, true_and]
        intro _
        have hall := index_none_noOcc lt hl buf hidx
        exact ⟨by omega, fun j _ => hall j, fun h => by omega⟩

theorem drainResume_ok (lt : Bytes) (hl : lt ≠ []) (atEOF : Bool) :
    ∀ (fuel : Nat) (buf : Bytes) (s : Nat), Inv lt buf s →
      ((drainResume (lt.length - 1) lt atEOF fuel buf s).1, (drainResume (lt.length - 1) lt atEOF fuel buf s).2.1)
          = drain lt atEOF fuel buf
        ∧ Inv lt (drainResume (lt.length - 1) lt atEOF fuel buf s).2.1 (drainResume (lt.length - 1) lt atEOF fuel buf s).2.2 := by
  intro fuel
  induction fuel with
  | zero => intro buf s h; exact ⟨rfl, h⟩
  | succ fuel ih =>
    intro buf s h
    obtain ⟨h1, h2, h3⟩ := splitFnResume_ok lt hl buf atEOF s h
    rcases hr : splitFnResume (lt.length - 1) lt buf atEOF s with ⟨adv, tok, s'⟩
    rw [hr] at h1 h2 h3
    simp only at h1 h2 h3
    cases tok with
    | none =>
      simp only [drainResume, drain, hr, ← h1]
      exact ⟨trivial, h2 rfl⟩
    | some t =>
      have hs' : s' = 0 := h3 (by simp)
      subst hs'
      simp only [drainResume, drain, hr, ← h1]
      by_cases ha : adv = 0
      · simp only [ha, if_true]
        exact ⟨trivial, inv_zero lt buf⟩
      · simp only [ha, if_false]
        obtain ⟨i1, i2⟩ := ih (buf.drop adv) 0 (inv_zero lt _)
        refine ⟨?_, i2⟩
        rw [← i1]

/-- The scanner driven by the resuming split function with the correct resume point produces the
same tokens as the scanner driven by the stateless `SplitLines`, for every chunking. -/
theorem scanResume_ok (lt : Bytes) (hl : lt ≠ []) :
    ∀ (chunks : List Bytes) (buf : Bytes) (s : Nat), Inv lt buf s →
      scanResume (lt.length - 1) lt buf s chunks = scan lt buf chunks := by
  intro chunks
  induction chunks with
  | nil =>
    intro buf s h
    have := (drainResume_ok lt hl true (buf.length + 1) buf s h).1
    simp only [scanResume, scan, ← this]
  | cons c cs ih =>
    intro buf s h
    obtain ⟨h1, h2⟩ := drainResume_ok lt hl false (buf.length + c.length + 1) (buf ++ c) s (inv_append lt buf c s h)
    simp only [scanResume, scan, ← h1]
    rw [ih _ _ h2]

end Gms.Outfile
