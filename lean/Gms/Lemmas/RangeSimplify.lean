/-
`SimplifyRangeColumn` keeps the members of its argument (used by `NotEquals` of the index builder).
-/
import Gms.Lemmas.RangeCol

namespace Gms.Range

/-- Some range of the list contains the point. -/
def anyMem (rs : List ColRange) (q : Option Int) : Bool := rs.any (fun r => r.mem q)

theorem mem_insertSorted {α : Type} (lt : α → α → Bool) (x y : α) (l : List α) :
    y ∈ insertSorted lt x l ↔ y = x ∨ y ∈ l := by
  induction l with
  | nil => simp [insertSorted]
  | cons z zs ih =>
    unfold insertSorted
    split
    · simp
    · simp only [List.mem_cons, ih]
      constructor
      · rintro (h | h | h) <;> simp [h]
      · rintro (h | h | h) <;> simp [h]

theorem mem_sortBy_aux {α : Type} (lt : α → α → Bool) (l acc : List α) (y : α) :
    y ∈ l.foldl (fun acc x => insertSorted lt x acc) acc ↔ y ∈ acc ∨ y ∈ l := by
  induction l generalizing acc with
  | nil => simp
  | cons x xs ih =>
    simp only [List.foldl_cons, ih, mem_insertSorted, List.mem_cons]
    constructor
    · rintro ((h | h) | h) <;> simp [h]
    · rintro (h | h | h) <;> simp [h]

theorem mem_sortBy {α : Type} (lt : α → α → Bool) (l : List α) (y : α) : y ∈ sortBy lt l ↔ y ∈ l := by
  unfold sortBy
  rw [mem_sortBy_aux]; simp

theorem anyMem_congr {xs ys : List ColRange} (h : ∀ x, x ∈ xs ↔ x ∈ ys) (q : Option Int) :
    anyMem xs q = anyMem ys q := by
  apply Bool.eq_iff_iff.mpr
  simp only [anyMem, List.any_eq_true]
  constructor
  · intro ⟨r, hr, hm⟩; exact ⟨r, (h r).mp hr, hm⟩
  · intro ⟨r, hr, hm⟩; exact ⟨r, (h r).mpr hr, hm⟩

theorem simplifyStep_den (st : List ColRange × ColRange) (r : ColRange) (q : Option Int) :
    (anyMem (simplifyStep st r).1 q || (simplifyStep st r).2.mem q) = ((anyMem st.1 q || st.2.mem q) || r.mem q) := by
  unfold simplifyStep
  by_cases hu : (st.2.tryUnion r).2 = true
  · simp only [hu, if_true]
    rw [ColRange.tryUnion_true hu q, Bool.or_assoc]
  · simp only [hu, if_false, Bool.false_eq_true]
    have hne := (ColRange.tryUnion_false (by simpa using hu)).1
    simp only [hne, Bool.not_false, if_true]
    simp [anyMem, List.any_append]

theorem simplify_fold_den (l : List ColRange) (st : List ColRange × ColRange) (q : Option Int) :
    (anyMem (l.foldl simplifyStep st).1 q || (l.foldl simplifyStep st).2.mem q) =
      ((anyMem st.1 q || st.2.mem q) || anyMem l q) := by
  induction l generalizing st with
  | nil => simp [anyMem]
  | cons r rs ih =>
    simp only [List.foldl_cons]
    rw [ih, simplifyStep_den]
    simp [anyMem, Bool.or_assoc]

/-- `SimplifyRangeColumn` denotes the union of its arguments. -/
theorem simplify_anyMem (rs : List ColRange) (q : Option Int) : anyMem (simplify rs) q = anyMem rs q := by
  unfold simplify
  by_cases he : rs.isEmpty = true
  · simp only [he, if_true]
    have : rs = [] := by simpa using he
    subst this; rfl
  · simp only [he, if_false, Bool.false_eq_true]
    have key := simplify_fold_den (sortBy ColRange.less rs) ([], ColRange.empty) q
    simp only [anyMem, List.any_nil, ColRange.mem_empty, Bool.or_false, Bool.false_or] at key
    have hs : anyMem (sortBy ColRange.less rs) q = anyMem rs q := anyMem_congr (mem_sortBy _ rs) q
    by_cases hc : ((sortBy ColRange.less rs).foldl simplifyStep ([], ColRange.empty)).2.isEmpty = true
    · simp only [hc, Bool.not_true, Bool.false_eq_true, if_false]
      rw [(ColRange.isEmpty_iff _).mp hc q, Bool.or_false] at key
      rw [← hs]; exact key
    · have hc' : ((sortBy ColRange.less rs).foldl simplifyStep ([], ColRange.empty)).2.isEmpty = false := by
        simpa using hc
      simp only [hc', Bool.not_false, if_true]
      rw [← hs]
      simp only [anyMem, List.any_append, List.any_cons, List.any_nil, Bool.or_false]
      exact key

end Gms.Range
