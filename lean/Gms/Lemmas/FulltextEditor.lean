/-
C51 — the Full-Text editor keeps the pseudo-index tables in sync with the parent table:
lemmas about the Impl model Gms/Model/FulltextEditor.lean (imported by Gms/Props/C51.lean).
-/
import Gms.Model.FulltextEditor
namespace Gms.Fulltext

section
variable {κ : Type} [DecidableEq κ] {ρ : Type} [DecidableEq ρ]
variable (key : Word → κ) (rk : Row → ρ) (minLen maxLen : Nat)

theorem keysOK_tail (r : Row) (rows : List Row) (h : KeysOK rk (r :: rows)) : KeysOK rk rows :=
  fun a ha b hb e => h a (by simp [ha]) b (by simp [hb]) e

/-- In a table with unique keys, a row whose key occurs in the table is that row. -/
theorem find_key (rows : List Row) (r : Row) (hr : r ∈ rows) (hk : KeysOK rk rows) :
    rows.find? (fun x => rk x = rk r) = some r := by
  induction rows with
  | nil => simp at hr
  | cons a rows ih =>
    by_cases ha : rk a = rk r
    · have : a = r := hk a (by simp) r hr ha
      simp [List.find?_cons, ha, this]
    · have hr' : r ∈ rows := by
        rcases List.mem_cons.mp hr with h | h
        · subst h; exact absurd rfl ha
        · exact h
      simp [List.find?_cons, ha, ih hr' (keysOK_tail rk a rows hk)]

theorem find_none (rows : List Row) (q : ρ) (h : ∀ a ∈ rows, rk a ≠ q) :
    rows.find? (fun x => rk x = q) = none := by
  simp only [List.find?_eq_none, decide_eq_true_eq]
  exact h

theorem sync_insert (rows : List Row) (ix : Idx κ ρ) (r : Row)
    (hs : Sync key rk minLen maxLen rows ix) (hk : KeysOK rk (r :: rows)) :
    Sync key rk minLen maxLen (r :: rows) (edInsert key rk minLen maxLen ix r) := by
  obtain ⟨hrc, hdc, hgc, hpos⟩ := hs
  have hgc' : ∀ k, ix.gc k + (if hasClass (stor key minLen maxLen r) k then 1 else 0)
      = gcSpec key minLen maxLen (r :: rows) k := by
    intro k
    rw [hgc k]
    simp only [gcSpec, List.filter_cons]
    split <;> simp
  by_cases hin : r ∈ rows
  · -- an identical row exists
    have hc : ix.rc r ≥ 1 := by rw [hrc r]; exact List.count_pos_iff.mpr hin
    simp only [edInsert, hc, if_true]
    refine ⟨?_, ?_, hgc', ?_⟩
    · intro x
      simp only [rcSpec, List.count_cons]
      by_cases hx : x = r
      · subst hx; simp [hrc x, rcSpec]
      · have : (r == x) = false := by simp [Ne.symm hx]
        simp [hx, this, hrc x, rcSpec]
    · intro k q
      rw [hdc k q]
      simp only [dcSpec, List.find?_cons]
      by_cases hq : rk r = q
      · subst hq
        simp [find_key rk rows r hin (keysOK_tail rk r rows hk)]
      · simp [hq]
    · intro w q p
      rw [hpos w q p]
      simp only [posSpec, List.any_cons]
      cases hb : (decide (rk r = q) && hasPos minLen maxLen r w p) with
      | false => simp
      | true =>
        simp only [Bool.true_or]
        exact List.any_eq_true.mpr ⟨r, hin, hb⟩
  · -- a new row
    have hc0 : ix.rc r = 0 := by rw [hrc r]; exact List.count_eq_zero.mpr hin
    have hc : ¬ ix.rc r ≥ 1 := by omega
    have hnokey : ∀ a ∈ rows, rk a ≠ rk r := by
      intro a ha e
      have := hk a (by simp [ha]) r (by simp) e
      subst this; exact hin ha
    simp only [edInsert, hc, if_false]
    refine ⟨?_, ?_, hgc', ?_⟩
    · intro x
      simp only [rcSpec, List.count_cons]
      by_cases hx : x = r
      · subst hx; simp [List.count_eq_zero.mpr hin]
      · have : (r == x) = false := by simp [Ne.symm hx]
        simp [hx, this, hrc x, rcSpec]
    · intro k q
      simp only [dcSpec, List.find?_cons]
      by_cases hq : q = rk r
      · subst hq
        have h0 : ix.dc k (rk r) = 0 := by
          rw [hdc k (rk r)]; simp [dcSpec, find_none rk rows (rk r) hnokey]
        cases hcl : hasClass (stor key minLen maxLen r) k <;> simp [hcl, h0]
      · have hq' : ¬ rk r = q := fun e => hq e.symm
        simp [hq, hq', hdc k q, dcSpec]
    · intro w q p
      simp only [hpos w q p, posSpec, List.any_cons]
      by_cases hq : q = rk r
      · subst hq; simp [Bool.or_comm]
      · have hq' : ¬ rk r = q := fun e => hq e.symm
        simp [hq, hq']


/-! ### erase -/

theorem filter_erase_length (p : Row → Bool) (rows : List Row) (r : Row) (hr : r ∈ rows) :
    ((rows.erase r).filter p).length = (rows.filter p).length - (if p r then 1 else 0) := by
  induction rows with
  | nil => simp at hr
  | cons a rows ih =>
    by_cases ha : a = r
    · subst ha
      simp only [List.erase_cons_head, List.filter_cons]
      split <;> simp
    · have hr' : r ∈ rows := by
        rcases List.mem_cons.mp hr with h | h
        · exact absurd h.symm ha
        · exact h
      have hne : (a == r) = false := by simp [ha]
      simp only [List.erase_cons, hne, List.filter_cons]
      have := ih hr'
      have hpos : p r = true → 1 ≤ (rows.filter p).length := fun h =>
        List.length_pos_iff_exists_mem.mpr ⟨r, List.mem_filter.mpr ⟨hr', h⟩⟩
      cases hp : p a <;> cases hpr : p r <;> simp_all <;> omega

theorem find_erase_of_not (p : Row → Bool) (rows : List Row) (r : Row) (h : p r = false) :
    (rows.erase r).find? p = rows.find? p := by
  induction rows with
  | nil => rfl
  | cons a rows ih =>
    by_cases ha : a = r
    · subst ha; simp [List.find?_cons, h]
    · have hne : (a == r) = false := by simp [ha]
      simp [List.erase_cons, hne, List.find?_cons, ih]

theorem any_erase_of_not (p : Row → Bool) (rows : List Row) (r : Row) (h : p r = false) :
    (rows.erase r).any p = rows.any p := by
  induction rows with
  | nil => rfl
  | cons a rows ih =>
    by_cases ha : a = r
    · subst ha; simp [h]
    · have hne : (a == r) = false := by simp [ha]
      simp [List.erase_cons, hne, List.any_cons, ih]

theorem keysOK_erase (rows : List Row) (r : Row) (h : KeysOK rk rows) : KeysOK rk (rows.erase r) :=
  fun a ha b hb e => h a (List.mem_of_mem_erase ha) b (List.mem_of_mem_erase hb) e

/-! ### unique entries come from the document -/

theorem bump_words (k : κ) (w : Word) (acc : List (Word × κ × Nat)) :
    ∀ e ∈ bump k w acc, e.1 = w ∨ ∃ e' ∈ acc, e'.1 = e.1 := by
  induction acc with
  | nil => intro e he; simp [bump] at he; subst he; exact Or.inl rfl
  | cons a acc ih =>
    obtain ⟨w', k', n⟩ := a
    intro e he
    by_cases hk : k' = k
    · simp only [bump, hk, if_true, List.mem_cons] at he
      rcases he with rfl | he
      · exact Or.inr ⟨(w', k', n), by simp, rfl⟩
      · exact Or.inr ⟨e, by simp [he], rfl⟩
    · simp only [bump, hk, if_false, List.mem_cons] at he
      rcases he with rfl | he
      · exact Or.inr ⟨(w', k', n), by simp, rfl⟩
      · rcases ih e he with h | ⟨e', he', h⟩
        · exact Or.inl h
        · exact Or.inr ⟨e', by simp [he'], h⟩

theorem foldl_bump_words (ws : List Word) (acc : List (Word × κ × Nat)) :
    ∀ e ∈ ws.foldl (fun a w => bump (key w) w a) acc, e.1 ∈ ws ∨ ∃ e' ∈ acc, e'.1 = e.1 := by
  induction ws generalizing acc with
  | nil => intro e he; exact Or.inr ⟨e, he, rfl⟩
  | cons w ws ih =>
    intro e he
    simp only [List.foldl_cons] at he
    rcases ih _ e he with h | ⟨e', he', h⟩
    · exact Or.inl (by simp [h])
    · rcases bump_words (key w) w acc e' he' with h' | ⟨e'', he'', h''⟩
      · exact Or.inl (by rw [← h, h']; simp)
      · exact Or.inr ⟨e'', he'', by rw [h'', h]⟩

theorem uniq_words (r : Row) : ∀ e ∈ uniq key minLen r, e.1 ∈ (tokenize minLen (docOf r)).map (·.1) := by
  intro e he
  rcases foldl_bump_words key _ [] e he with h | ⟨e', he', _⟩
  · exact h
  · simp at he'

theorem noLong_uniq (r : Row) (h : noLong minLen maxLen r) :
    (uniq key minLen r).any (fun e => bytes e.1 > maxLen) = false ∧ stor key minLen maxLen r = uniq key minLen r := by
  have hall : ∀ e ∈ uniq key minLen r, bytes e.1 ≤ maxLen := by
    intro e he
    obtain ⟨t, ht, hte⟩ := List.mem_map.mp (uniq_words key minLen r e he)
    have := List.any_eq_false.mp h t ht
    simp at this
    rw [← hte]; exact this
  constructor
  · rw [List.any_eq_false]
    intro e he
    have := hall e he
    simp; omega
  · simp only [stor]
    rw [List.filter_eq_self]
    intro e he
    simp [hall e he]


theorem any_key (f : Row → Bool) (rows : List Row) (r : Row) (hr : r ∈ rows) (hk : KeysOK rk rows) :
    rows.any (fun x => decide (rk x = rk r) && f x) = f r := by
  cases hf : f r with
  | true => exact List.any_eq_true.mpr ⟨r, hr, by simp [hf]⟩
  | false =>
    rw [List.any_eq_false]
    intro x hx
    by_cases e : rk x = rk r
    · have := hk x hx r hr e
      subst this; simp [hf]
    · simp [e]

theorem any_nokey (f : Row → Bool) (rows : List Row) (q : ρ) (h : ∀ a ∈ rows, rk a ≠ q) :
    rows.any (fun x => decide (rk x = q) && f x) = false := by
  rw [List.any_eq_false]
  intro x hx
  simp [h x hx]

theorem sync_delete (rows : List Row) (ix : Idx κ ρ) (r : Row)
    (hs : Sync key rk minLen maxLen rows ix) (hk : KeysOK rk rows) (hr : r ∈ rows) (hl : noLong minLen maxLen r) :
    ∃ ix', edDelete key rk minLen maxLen ix r = some ix' ∧ Sync key rk minLen maxLen (rows.erase r) ix' := by
  obtain ⟨hrc, hdc, hgc, hpos⟩ := hs
  obtain ⟨hany, hst⟩ := noLong_uniq key minLen maxLen r hl
  have hcnt : 1 ≤ rows.count r := List.count_pos_iff.mpr hr
  have hke := keysOK_erase rk rows r hk
  have hgc' : ∀ k, ix.gc k - (if hasClass (uniq key minLen r) k then 1 else 0)
      = gcSpec key minLen maxLen (rows.erase r) k := by
    intro k
    rw [hgc k]
    simp only [gcSpec]
    rw [filter_erase_length (fun x => hasClass (stor key minLen maxLen x) k) rows r hr, hst]
  have hrc' : ∀ x, x ≠ r → ix.rc x = rcSpec (rows.erase r) x := by
    intro x hx
    rw [hrc x]; simp only [rcSpec]; rw [List.count_erase_of_ne hx]
  have hdc' : ∀ k q, q ≠ rk r → ix.dc k q = dcSpec key rk minLen maxLen (rows.erase r) k q := by
    intro k q hq
    rw [hdc k q]
    simp only [dcSpec]
    rw [find_erase_of_not (fun x => decide (rk x = q)) rows r (by simp; exact fun e => hq e.symm)]
  have hpos' : ∀ w q p, q ≠ rk r → ix.pos w q p = posSpec rk minLen maxLen (rows.erase r) w q p := by
    intro w q p hq
    rw [hpos w q p]
    simp only [posSpec]
    rw [any_erase_of_not _ rows r (by simp; intro e; exact absurd e.symm hq)]
  have hrcr : ix.rc r = rows.count r := hrc r
  by_cases hgt : rows.count r > 1
  · -- another copy stays
    have hin : r ∈ rows.erase r := by
      apply List.count_pos_iff.mp
      rw [List.count_erase_self]; omega
    refine ⟨_, by simp only [edDelete]; rw [if_neg (by omega), if_pos (by omega)], ?_, ?_, hgc', ?_⟩
    · intro x
      by_cases hx : x = r
      · subst hx; simp [rcSpec, List.count_erase_self, hrcr]
      · simp [hx, hrc' x hx]
    · intro k q
      by_cases hq : q = rk r
      · subst hq
        rw [hdc k (rk r)]
        simp only [dcSpec, find_key rk rows r hr hk, find_key rk (rows.erase r) r hin hke]
      · exact hdc' k q hq
    · intro w q p
      by_cases hq : q = rk r
      · subst hq
        rw [hpos w (rk r) p]
        simp only [posSpec]
        rw [any_key rk _ rows r hr hk, any_key rk _ (rows.erase r) r hin hke]
      · exact hpos' w q p hq
  · -- the last copy
    have h1 : rows.count r = 1 := by omega
    have hnot : r ∉ rows.erase r := by
      intro h
      have := List.count_pos_iff.mpr h
      rw [List.count_erase_self] at this; omega
    have hnokey : ∀ a ∈ rows.erase r, rk a ≠ rk r := by
      intro a ha e
      have := hk a (List.mem_of_mem_erase ha) r hr e
      subst this; exact hnot ha
    refine ⟨{ rc := fun x => if x = r then 0 else ix.rc x
              pos := fun w q p => ix.pos w q p && !(decide (q = rk r) && hasPos minLen maxLen r w p)
              dc := fun k q => if q = rk r ∧ hasClass (uniq key minLen r) k = true then 0 else ix.dc k q
              gc := fun k => ix.gc k - (if hasClass (uniq key minLen r) k then 1 else 0) },
      by simp only [edDelete]; rw [if_neg (by omega), if_neg (by omega), hany]; rfl, ?_, ?_, hgc', ?_⟩
    · intro x
      by_cases hx : x = r
      · subst hx; simp [rcSpec, List.count_erase_self, h1]
      · simp [hx, hrc' x hx]
    · intro k q
      by_cases hq : q = rk r
      · subst hq
        have hz : dcSpec key rk minLen maxLen (rows.erase r) k (rk r) = 0 := by
          simp [dcSpec, find_none rk (rows.erase r) (rk r) hnokey]
        rw [hz]
        cases hcl : hasClass (uniq key minLen r) k with
        | true => simp [hcl]
        | false =>
          simp only [hcl, and_false, if_false, Bool.false_eq_true]
          rw [hdc k (rk r)]
          simp [dcSpec, find_key rk rows r hr hk, hst, hcl]
      · simp only [hq, false_and, if_false]
        exact hdc' k q hq
    · intro w q p
      by_cases hq : q = rk r
      · subst hq
        have hz : posSpec rk minLen maxLen (rows.erase r) w (rk r) p = false := any_nokey rk _ _ _ hnokey
        rw [hz]
        show (ix.pos w (rk r) p && !(decide (rk r = rk r) && hasPos minLen maxLen r w p)) = false
        rw [hpos w (rk r) p]
        simp only [posSpec]
        rw [any_key rk _ rows r hr hk]
        cases hasPos minLen maxLen r w p <;> simp
      · simp only [hq, decide_false, Bool.false_and, Bool.not_false, Bool.and_true]
        exact hpos' w q p hq

/-- `Delete` fails exactly on the last copy of a row that contains an over-long word. -/
theorem delete_fails_iff (rows : List Row) (ix : Idx κ ρ) (r : Row) (hs : Sync key rk minLen maxLen rows ix) :
    edDelete key rk minLen maxLen ix r = none ↔
      rows.count r = 1 ∧ (uniq key minLen r).any (fun e => bytes e.1 > maxLen) = true := by
  have hrcr : ix.rc r = rows.count r := hs.1 r
  simp only [edDelete, hrcr]
  by_cases h0 : rows.count r = 0
  · simp [h0]
  · by_cases h1 : rows.count r > 1
    · simp [h0, h1]; omega
    · have : rows.count r = 1 := by omega
      simp [this]


/-! ### Histories of row-level editor calls -/

theorem sync_empty : Sync key rk minLen maxLen [] (Idx.empty : Idx κ ρ) :=
  ⟨fun _ => rfl, fun _ _ => rfl, fun _ => rfl, fun _ _ _ => rfl⟩

theorem sync_step (rows : List Row) (ix : Idx κ ρ) (op : EdOp)
    (hs : Sync key rk minLen maxLen rows ix) (hk : KeysOK rk rows) (hok : opOK rk rows op)
    (hl : opNoLong minLen maxLen op) :
    ∃ ix', edStep key rk minLen maxLen ix op = some ix' ∧ Sync key rk minLen maxLen (tblStep rows op) ix' ∧
      KeysOK rk (tblStep rows op) := by
  cases op with
  | ins r => exact ⟨_, rfl, sync_insert key rk minLen maxLen rows ix r hs hok, hok⟩
  | del r =>
    obtain ⟨ix', h1, h2⟩ := sync_delete key rk minLen maxLen rows ix r hs hk hok hl
    exact ⟨ix', h1, h2, keysOK_erase rk rows r hk⟩
  | upd o n =>
    obtain ⟨ix', h1, h2⟩ := sync_delete key rk minLen maxLen rows ix o hs hk hok.1 hl
    refine ⟨edInsert key rk minLen maxLen ix' n, ?_, sync_insert key rk minLen maxLen _ ix' n h2 hok.2, hok.2⟩
    simp [edStep, edUpdate, h1]

/-- Every call of the history is admissible on the table it meets and deletes no row with an
over-long word. -/
def histOK (rows : List Row) : List EdOp → Prop
  | [] => True
  | op :: ops => opOK rk rows op ∧ opNoLong minLen maxLen op ∧ histOK (tblStep rows op) ops

def runEd (ix : Idx κ ρ) : List EdOp → Option (Idx κ ρ)
  | [] => some ix
  | op :: ops =>
    match edStep key rk minLen maxLen ix op with
    | some ix' => runEd ix' ops
    | none => none

theorem sync_hist (ops : List EdOp) (rows : List Row) (ix : Idx κ ρ)
    (hs : Sync key rk minLen maxLen rows ix) (hk : KeysOK rk rows) (hh : histOK rk minLen maxLen rows ops) :
    ∃ ix', runEd key rk minLen maxLen ix ops = some ix' ∧ Sync key rk minLen maxLen (ops.foldl tblStep rows) ix' := by
  induction ops generalizing rows ix with
  | nil => exact ⟨ix, rfl, hs⟩
  | cons op ops ih =>
    obtain ⟨hok, hl, hrest⟩ := hh
    obtain ⟨ix1, h1, h2, h3⟩ := sync_step key rk minLen maxLen rows ix op hs hk hok hl
    obtain ⟨ix2, h4, h5⟩ := ih (tblStep rows op) ix1 h2 h3 hrest
    exact ⟨ix2, by simp [runEd, h1, h4], by simpa using h5⟩

end
end Gms.Fulltext
