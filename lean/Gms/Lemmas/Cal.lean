/-
C31 — helper lemmas about the integer calendar model `Gms.Model.Cal` (core Lean only).
The property theorems are in `Gms/Props/C31.lean`.
-/
import Gms.Model.Cal

namespace Gms.Cal

/-! ## Calendar: `dfc` and `cfd` are mutually inverse -/

def WF (s : Stage) : Prop :=
  0 ≤ s.c ∧ s.c ≤ 3 ∧ 0 ≤ s.q ∧ s.q ≤ 24 ∧ 0 ≤ s.r ∧ s.r ≤ 3 ∧ 0 ≤ s.doy ∧ s.doy ≤ 365 ∧
  (s.doy = 365 → s.r = 3 ∧ (s.q < 24 ∨ s.c = 3))

theorem stage_spec (z : Int) : WF (stage z) ∧ (stage z).days = z := by
  simp only [stage, WF, Stage.days]
  omega

theorem dfc_cfdOf (s : Stage) (h : WF s) : dfc (cfdOf s).1 (cfdOf s).2.1 (cfdOf s).2.2 = s.days := by
  obtain ⟨era, c, q, r, doy⟩ := s
  simp only [WF, cfdOf, dfc, mpOf, Stage.days] at *
  omega

theorem stage_unique (s : Stage) (h : WF s) : stage s.days = s := by
  obtain ⟨era, c, q, r, doy⟩ := s
  simp only [WF, Stage.days] at h ⊢
  have hb : 0 ≤ 36524 * c + 1461 * q + 365 * r + doy ∧ 36524 * c + 1461 * q + 365 * r + doy ≤ 146096 := by omega
  have e1 : (era * 146097 + 36524 * c + 1461 * q + 365 * r + doy - 719468 + 719468) / 146097 = era := by omega
  have e2 : (era * 146097 + 36524 * c + 1461 * q + 365 * r + doy - 719468 + 719468) % 146097
      = 36524 * c + 1461 * q + 365 * r + doy := by omega
  have hb2 : 0 ≤ 1461 * q + 365 * r + doy ∧ 1461 * q + 365 * r + doy ≤ 36524 ∧
      (1461 * q + 365 * r + doy = 36524 → c = 3) := by omega
  have e3 : min ((36524 * c + 1461 * q + 365 * r + doy) / 36524) 3 = c := by omega
  have hb3 : 0 ≤ 365 * r + doy ∧ 365 * r + doy ≤ 1460 := by omega
  have e4 : (36524 * c + 1461 * q + 365 * r + doy - 36524 * c) / 1461 = q := by omega
  have e5 : min ((36524 * c + 1461 * q + 365 * r + doy - 36524 * c - 1461 * q) / 365) 3 = r := by omega
  simp only [stage, e1, e2, e3, e4, e5, Stage.mk.injEq, true_and]
  omega

theorem isLeap_iff (y : Int) : isLeap y = true ↔ (y % 4 = 0 ∧ (y % 100 ≠ 0 ∨ y % 400 = 0)) := by
  simp [isLeap]

def validCivil (y m d : Int) : Prop := 1 ≤ m ∧ m ≤ 12 ∧ 1 ≤ d ∧ d ≤ dim y m

/-- the stage a valid civil date belongs to -/
def stageOfCivil (y m d : Int) : Stage :=
  let y' := if m ≤ 2 then y - 1 else y
  let yoe := y' % 400
  { era := y' / 400, c := yoe / 100, q := (yoe % 100) / 4, r := yoe % 4, doy := (153 * mpOf m + 2) / 5 + (d - 1) }

theorem stageOfCivil_spec (y m d : Int) (h : validCivil y m d) :
    WF (stageOfCivil y m d) ∧ (stageOfCivil y m d).days = dfc y m d ∧ cfdOf (stageOfCivil y m d) = (y, m, d) := by
  obtain ⟨h1, h2, h3, h4⟩ := h
  have hm : m = 1 ∨ m = 2 ∨ m = 3 ∨ m = 4 ∨ m = 5 ∨ m = 6 ∨ m = 7 ∨ m = 8 ∨ m = 9 ∨ m = 10 ∨ m = 11 ∨ m = 12 := by omega
  by_cases hl : isLeap y = true
  · have hl' := (isLeap_iff y).mp hl
    rcases hm with rfl | rfl | rfl | rfl | rfl | rfl | rfl | rfl | rfl | rfl | rfl | rfl <;>
      simp [dim, hl] at h4 <;>
      simp only [stageOfCivil, WF, Stage.days, dfc, cfdOf, mpOf, Prod.mk.injEq] <;> omega
  · have hl' := fun h => hl ((isLeap_iff y).mpr h)
    rcases hm with rfl | rfl | rfl | rfl | rfl | rfl | rfl | rfl | rfl | rfl | rfl | rfl <;>
      simp [dim, hl] at h4 <;>
      simp only [stageOfCivil, WF, Stage.days, dfc, cfdOf, mpOf, Prod.mk.injEq] <;> omega

/-- the civil date of every day number is a valid civil date -/
theorem cfdOf_valid (s : Stage) (h : WF s) : validCivil (cfdOf s).1 (cfdOf s).2.1 (cfdOf s).2.2 := by
  obtain ⟨era, c, q, r, doy⟩ := s
  simp only [WF] at h
  have hmp : 0 ≤ (5 * doy + 2) / 153 ∧ (5 * doy + 2) / 153 ≤ 11 := by omega
  generalize hk : (5 * doy + 2) / 153 = mp at hmp
  have hm : mp = 0 ∨ mp = 1 ∨ mp = 2 ∨ mp = 3 ∨ mp = 4 ∨ mp = 5 ∨ mp = 6 ∨ mp = 7 ∨ mp = 8 ∨ mp = 9 ∨ mp = 10 ∨ mp = 11 := by omega
  simp only [validCivil, cfdOf, hk]
  rcases hm with rfl | rfl | rfl | rfl | rfl | rfl | rfl | rfl | rfl | rfl | rfl | rfl
  all_goals simp only [dim]
  all_goals first
    | (simp; omega)
    | skip
  -- February (mp = 11): the 366th day exists only before a leap year's March
  simp only [show ((11 : Int) < 10) = False by decide, if_false, show (11 : Int) - 9 = 2 by decide,
    if_true, show ((2 : Int) ≤ 2) = True by decide]
  by_cases hl : isLeap (100 * c + 4 * q + r + 400 * era + 1) = true
  · simp only [hl, if_true]; omega
  · have hl' := fun h => hl ((isLeap_iff _).mpr h)
    simp only [hl]
    refine ⟨by omega, by omega, by omega, ?_⟩
    by_cases h365 : doy = 365
    · exfalso; apply hl'; omega
    · omega

theorem days_roundtrip (z : Int) : dfc (cfd z).1 (cfd z).2.1 (cfd z).2.2 = z := by
  have h := stage_spec z
  rw [cfd, dfc_cfdOf _ h.1, h.2]

theorem civil_roundtrip (y m d : Int) (h : validCivil y m d) : cfd (dfc y m d) = (y, m, d) := by
  obtain ⟨hw, hd, hc⟩ := stageOfCivil_spec y m d h
  rw [cfd, ← hd, stage_unique _ hw, hc]

theorem cfd_valid (z : Int) : validCivil (cfd z).1 (cfd z).2.1 (cfd z).2.2 :=
  cfdOf_valid _ (stage_spec z).1

theorem dfc_day (y m d : Int) : dfc y m d = dfc y m 1 + (d - 1) := by
  simp only [dfc]; omega

/-! ## Go time: `goDate` and `fieldsOf` are mutually inverse on valid fields -/

theorem goDate_of_valid (f : Fields) (h : validFields f) :
    goDate f = dfc f.y f.mo f.d * nsDay + f.h * nsHour + f.mi * nsMin + f.s * nsSec + f.ns := by
  obtain ⟨h1, h2, _⟩ := h
  have e1 : (f.mo - 1) / 12 = 0 := by omega
  have e2 : (f.mo - 1) % 12 + 1 = f.mo := by omega
  simp only [goDate, e1, e2, Int.add_zero]
  rw [dfc_day f.y f.mo f.d]

theorem fieldsOf_goDate (f : Fields) (h : validFields f) : fieldsOf (goDate f) = f := by
  have hg := goDate_of_valid f h
  obtain ⟨h1, h2, h3, h4, h5, h6, h7, h8, h9, h10, h11, h12⟩ := h
  have hc := civil_roundtrip f.y f.mo f.d ⟨h1, h2, h3, h4⟩
  generalize dfc f.y f.mo f.d = z at hg hc
  have ed : goDate f / nsDay = z := by rw [hg]; simp only [nsDay, nsHour, nsMin, nsSec]; omega
  have er : goDate f % nsDay = f.h * nsHour + f.mi * nsMin + f.s * nsSec + f.ns := by
    rw [hg]; simp only [nsDay, nsHour, nsMin, nsSec]; omega
  obtain ⟨y, mo, d, hh, mi, ss, ns⟩ := f
  simp only [fieldsOf, ed, er, hc, Fields.mk.injEq, true_and]
  simp only [nsDay, nsHour, nsMin, nsSec] at *
  omega

theorem fieldsOf_valid (t : Int) : validFields (fieldsOf t) := by
  have hv := cfd_valid (t / nsDay)
  simp only [validCivil] at hv
  simp only [validFields, fieldsOf]
  simp only [nsDay, nsHour, nsMin, nsSec] at *
  omega

theorem goDate_fieldsOf (t : Int) : goDate (fieldsOf t) = t := by
  rw [goDate_of_valid _ (fieldsOf_valid t)]
  have hd := days_roundtrip (t / nsDay)
  simp only [fieldsOf]
  rw [hd]
  simp only [nsDay, nsHour, nsMin, nsSec]
  omega

end Gms.Cal
