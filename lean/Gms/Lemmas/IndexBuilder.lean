/-
Lemmas for C03: exact arithmetic of literal rounding, the ranges each builder call produces,
`updateCol`, the odometer of `Ranges`.
-/
import Gms.Lemmas.RangeSimplify
import Gms.Lemmas.RangeROR
import Gms.Model.IndexBuilder

namespace Gms.IndexBuilder
open Gms.Range

/-! ## Rounding of literals -/

theorem pow10_pos (s : Nat) : 0 < pow10 s := Int.pow_pos (by decide)

theorem den_pos (k : Lit) : 0 < k.den := by
  cases k with
  | int v => simp [Lit.den]
  | dec c s => exact pow10_pos s

theorem gt_iff (k : Lit) (x : Int) : k.num < x * k.den ↔ k.floor < x :=
  (Int.ediv_lt_iff_lt_mul (den_pos k)).symm

theorem le_iff (k : Lit) (x : Int) : x * k.den ≤ k.num ↔ x ≤ k.floor :=
  (Int.le_ediv_iff_mul_le (den_pos k)).symm

theorem lt_iff (k : Lit) (x : Int) : x * k.den < k.num ↔ x < k.ceil := by
  unfold Lit.ceil
  have h := Int.ediv_lt_iff_lt_mul (a := -k.num) (b := -x) (den_pos k)
  rw [Int.neg_mul] at h
  constructor
  · intro hh; have := h.mpr (by omega); omega
  · intro hh; have := h.mp (by omega); omega

theorem ge_iff (k : Lit) (x : Int) : k.num ≤ x * k.den ↔ k.ceil ≤ x := by
  unfold Lit.ceil
  have h := Int.le_ediv_iff_mul_le (a := -x) (b := -k.num) (den_pos k)
  rw [Int.neg_mul] at h
  constructor
  · intro hh; have := h.mpr (by omega); omega
  · intro hh; have := h.mp (by omega); omega

theorem neg_ediv_of_not_dvd (a b : Int) (h : 0 < b) (hr : a % b ≠ 0) : (-a) / b = -(a / b) - 1 := by
  have h1 := Int.mul_ediv_add_emod a b
  have h2 := Int.emod_nonneg a (by omega : b ≠ 0)
  have h3 := Int.emod_lt_of_pos a h
  have := (Int.ediv_emod_unique (a := -a) (r := b - a % b) (q := -(a / b) - 1) h).mpr ⟨by
    have : b * (-(a / b) - 1) = -(b * (a / b)) - b := by
      rw [Int.mul_sub, Int.mul_neg, Int.mul_one]
    omega, by omega, by omega⟩
  exact this.1

theorem ceil_eq (k : Lit) : k.ceil = if k.integral then k.floor else k.floor + 1 := by
  unfold Lit.ceil Lit.floor Lit.integral
  by_cases h : k.num % k.den = 0
  · simp only [h, beq_self_eq_true, if_true]
    rw [Int.neg_ediv_of_dvd (Int.dvd_of_emod_eq_zero h)]; omega
  · have : (k.num % k.den == 0) = false := by simpa using h
    simp only [this, Bool.false_eq_true, if_false]
    rw [neg_ediv_of_not_dvd _ _ (den_pos k) h]; omega

theorem eq_iff (k : Lit) (x : Int) : x * k.den = k.num ↔ (k.integral = true ∧ x = k.floor) := by
  constructor
  · intro h
    have hd : k.num % k.den = 0 := by rw [← h]; exact Int.mul_emod_left x k.den
    refine ⟨by simp [Lit.integral, hd], ?_⟩
    unfold Lit.floor
    rw [← h, Int.mul_ediv_cancel _ (by have := den_pos k; omega)]
  · intro ⟨hi, hx⟩
    have hd : k.num % k.den = 0 := by simpa [Lit.integral] using hi
    rw [hx]
    exact Int.ediv_mul_cancel (Int.dvd_of_emod_eq_zero hd)

/-! ## Membership of key points in the constructor ranges -/

theorem mem_pt_greaterThan (c : Int) (x : Option Int) :
    (ColRange.greaterThan c).mem (pt x) = match x with | none => false | some v => decide (c < v) := by
  cases x <;> simp [ColRange.greaterThan, ColRange.mem, pt, Cut.isBelow, keyPt]

theorem mem_pt_greaterOrEqual (c : Int) (x : Option Int) :
    (ColRange.greaterOrEqual c).mem (pt x) = match x with | none => false | some v => decide (c ≤ v) := by
  cases x <;> simp [ColRange.greaterOrEqual, ColRange.mem, pt, Cut.isBelow, keyPt]

theorem mem_pt_lessThan (c : Int) (x : Option Int) :
    (ColRange.lessThan c).mem (pt x) = match x with | none => false | some v => decide (v < c) := by
  cases x with
  | none => simp [ColRange.lessThan, ColRange.mem, pt, Cut.isBelow]
  | some v =>
    simp only [ColRange.lessThan, ColRange.mem, pt, Cut.isBelow, keyPt]
    apply Bool.eq_iff_iff.mpr; simp

theorem mem_pt_lessOrEqual (c : Int) (x : Option Int) :
    (ColRange.lessOrEqual c).mem (pt x) = match x with | none => false | some v => decide (v ≤ c) := by
  cases x with
  | none => simp [ColRange.lessOrEqual, ColRange.mem, pt, Cut.isBelow]
  | some v =>
    simp only [ColRange.lessOrEqual, ColRange.mem, pt, Cut.isBelow, keyPt]
    apply Bool.eq_iff_iff.mpr; simp

theorem mem_pt_closed (c : Int) (x : Option Int) :
    (ColRange.closed c c).mem (pt x) = match x with | none => false | some v => decide (v = c) := by
  cases x with
  | none => simp [ColRange.closed, ColRange.mem, pt, Cut.isBelow]
  | some v =>
    simp only [ColRange.closed, ColRange.mem, pt, Cut.isBelow, keyPt]
    apply Bool.eq_iff_iff.mpr; simp; omega

theorem mem_pt_notNull (x : Option Int) : ColRange.notNull.mem (pt x) = x.isSome := by
  cases x <;> simp [ColRange.notNull, ColRange.mem, pt, Cut.isBelow, keyPt]

theorem mem_pt_null (x : Option Int) : ColRange.null.mem (pt x) = x.isNone := by
  cases x <;> simp [ColRange.null, ColRange.mem, pt, Cut.isBelow, keyPt]

theorem mem_all (q : Option Int) : ColRange.all.mem q = true := by
  simp [ColRange.all, ColRange.mem, Cut.isBelow]

/-- The column value is NULL or lies in the column type's range. -/
def InType (t : IntType) : Option Int → Prop
  | none => True
  | some v => t.min ≤ v ∧ v ≤ t.max

/-! ## The ranges of each builder call are exactly the predicate -/

theorem potGreaterThan_spec (t : IntType) (k : Lit) (x : Option Int) (hx : InType t x) :
    (potGreaterThan t k).mem (pt x) = (Pred.gt k).holds x := by
  unfold potGreaterThan convert
  cases x with
  | none => split <;> (try split) <;> simp [Pred.holds, mem_pt_greaterThan, mem_pt_notNull, ColRange.mem_empty]
  | some v =>
    have g := gt_iff k v
    simp only [InType] at hx
    simp only [Pred.holds]
    by_cases h1 : k.floor > t.max
    · simp only [h1, if_true, ColRange.mem_empty]
      symm; simp; omega
    · by_cases h2 : k.floor < t.min
      · simp only [h1, h2, if_true, if_false, mem_pt_notNull]
        symm; simp; omega
      · simp only [h1, h2, if_false, mem_pt_greaterThan]
        apply Bool.eq_iff_iff.mpr; simp; omega

theorem potLessThan_spec (t : IntType) (k : Lit) (x : Option Int) (hx : InType t x) :
    (potLessThan t k).mem (pt x) = (Pred.lt k).holds x := by
  unfold potLessThan convert
  cases x with
  | none => split <;> (try split) <;> simp [Pred.holds, mem_pt_lessThan, mem_pt_notNull, ColRange.mem_empty]
  | some v =>
    have g := lt_iff k v
    simp only [InType] at hx
    simp only [Pred.holds]
    by_cases h1 : k.ceil > t.max
    · simp only [h1, if_true, mem_pt_notNull]
      symm; simp; omega
    · by_cases h2 : k.ceil < t.min
      · simp only [h1, h2, if_true, if_false, ColRange.mem_empty]
        symm; simp; omega
      · simp only [h1, h2, if_false, mem_pt_lessThan]
        apply Bool.eq_iff_iff.mpr; simp; omega

theorem potGreaterOrEqual_spec (t : IntType) (k : Lit) (x : Option Int) (hx : InType t x) :
    (potGreaterOrEqual t k).mem (pt x) = (Pred.ge k).holds x := by
  unfold potGreaterOrEqual convert
  cases x with
  | none =>
    cases hi : k.integral <;> (repeat' split) <;>
      simp [Pred.holds, mem_pt_greaterThan, mem_pt_greaterOrEqual, mem_pt_notNull, ColRange.mem_empty]
  | some v =>
    have g := ge_iff k v
    have c := ceil_eq k
    simp only [InType] at hx
    simp only [Pred.holds]
    by_cases hi : k.integral = true
    · simp only [hi, if_true] at c
      by_cases h1 : k.floor > t.max
      · simp only [h1, if_true, ColRange.mem_empty]
        symm; simp; omega
      · by_cases h2 : k.floor < t.min
        · simp only [h1, h2, if_true, if_false, mem_pt_notNull]
          symm; simp; omega
        · simp only [h1, h2, if_false, hi, Bool.not_true, Bool.false_eq_true, mem_pt_greaterOrEqual]
          apply Bool.eq_iff_iff.mpr; simp; omega
    · have hi' : k.integral = false := by simpa using hi
      simp only [hi', Bool.false_eq_true, if_false] at c
      by_cases h1 : k.floor > t.max
      · simp only [h1, if_true, ColRange.mem_empty]
        symm; simp; omega
      · by_cases h2 : k.floor < t.min
        · simp only [h1, h2, if_true, if_false, mem_pt_notNull]
          symm; simp; omega
        · simp only [h1, h2, if_false, hi', Bool.not_false, if_true, mem_pt_greaterThan]
          apply Bool.eq_iff_iff.mpr; simp; omega

theorem potLessOrEqual_spec (t : IntType) (k : Lit) (x : Option Int) (hx : InType t x) :
    (potLessOrEqual t k).mem (pt x) = (Pred.le k).holds x := by
  unfold potLessOrEqual convert
  cases x with
  | none =>
    cases hi : k.integral <;> (repeat' split) <;>
      simp [Pred.holds, mem_pt_lessThan, mem_pt_lessOrEqual, mem_pt_notNull, ColRange.mem_empty]
  | some v =>
    have g := le_iff k v
    have c := ceil_eq k
    simp only [InType] at hx
    simp only [Pred.holds]
    by_cases hi : k.integral = true
    · simp only [hi, if_true] at c
      by_cases h1 : k.ceil > t.max
      · simp only [h1, if_true, mem_pt_notNull]
        symm; simp; omega
      · by_cases h2 : k.ceil < t.min
        · simp only [h1, h2, if_true, if_false, ColRange.mem_empty]
          symm; simp; omega
        · simp only [h1, h2, if_false, hi, Bool.not_true, Bool.false_eq_true, mem_pt_lessOrEqual]
          apply Bool.eq_iff_iff.mpr; simp; omega
    · have hi' : k.integral = false := by simpa using hi
      simp only [hi', Bool.false_eq_true, if_false] at c
      by_cases h1 : k.ceil > t.max
      · simp only [h1, if_true, mem_pt_notNull]
        symm; simp; omega
      · by_cases h2 : k.ceil < t.min
        · simp only [h1, h2, if_true, if_false, ColRange.mem_empty]
          symm; simp; omega
        · simp only [h1, h2, if_false, hi', Bool.not_false, if_true, mem_pt_lessThan]
          apply Bool.eq_iff_iff.mpr; simp; omega

theorem potEqualsOne_spec (t : IntType) (k : Lit) (x : Option Int) (hx : InType t x) :
    (potEqualsOne t k).mem (pt x) = (Pred.eq [k]).holds x := by
  unfold potEqualsOne convert
  cases x with
  | none => (repeat' split) <;> simp [Pred.holds, mem_pt_closed, ColRange.mem_empty]
  | some v =>
    have e := eq_iff k v
    simp only [InType] at hx
    simp only [Pred.holds, List.any_cons, List.any_nil, Bool.or_false]
    by_cases hi : k.integral = true
    · simp only [hi, Bool.not_true, Bool.false_eq_true, if_false]
      by_cases h1 : k.floor > t.max
      · simp only [h1, if_true, ne_eq, not_true_eq_false, not_false_eq_true, reduceCtorEq, ColRange.mem_empty]
        symm; simp; intro h; have := (e.mp h).2; omega
      · by_cases h2 : k.floor < t.min
        · simp only [h1, h2, if_true, if_false, ne_eq, not_false_eq_true, reduceCtorEq, ColRange.mem_empty]
          symm; simp; intro h; have := (e.mp h).2; omega
        · simp only [h1, h2, if_false, ne_eq, not_true_eq_false, mem_pt_closed]
          apply Bool.eq_iff_iff.mpr; simp
          constructor
          · intro h; exact e.mpr ⟨hi, h⟩
          · intro h; exact (e.mp h).2
    · have hi' : k.integral = false := by simpa using hi
      simp only [hi', Bool.not_false, if_true, ColRange.mem_empty]
      symm; simp; intro h; have := (e.mp h).1; rw [hi'] at this; simp at this

theorem potNotEquals_spec (t : IntType) (k : Lit) (x : Option Int) (hx : InType t x) :
    anyMem (potNotEquals t k).1 (pt x) = (Pred.neq k).holds x := by
  unfold potNotEquals convert
  cases x with
  | none =>
    (repeat' split) <;>
      simp [anyMem, Pred.holds, mem_pt_greaterThan, mem_pt_lessThan, mem_pt_notNull]
  | some v =>
    have e := eq_iff k v
    simp only [InType] at hx
    simp only [Pred.holds]
    by_cases hi : k.integral = true
    · simp only [hi, Bool.not_true, Bool.false_eq_true, if_false]
      by_cases h1 : k.floor > t.max
      · simp only [h1, if_true, ne_eq, not_true_eq_false, not_false_eq_true, reduceCtorEq, anyMem, List.any_cons, List.any_nil,
          mem_pt_notNull]
        symm; simp; intro h; have := (e.mp h).2; omega
      · by_cases h2 : k.floor < t.min
        · simp only [h1, h2, if_true, if_false, ne_eq, not_false_eq_true, reduceCtorEq, anyMem, List.any_cons, List.any_nil,
            mem_pt_notNull]
          symm; simp; intro h; have := (e.mp h).2; omega
        · simp only [h1, h2, if_false, ne_eq, not_true_eq_false, anyMem, List.any_cons, List.any_nil, mem_pt_greaterThan,
            mem_pt_lessThan]
          apply Bool.eq_iff_iff.mpr; simp
          constructor
          · intro h h'; have := (e.mp h').2; omega
          · intro h
            by_cases hv : v = k.floor
            · exact absurd (e.mpr ⟨hi, hv⟩) h
            · omega
    · have hi' : k.integral = false := by simpa using hi
      simp only [hi', Bool.not_false, if_true, anyMem, List.any_cons, List.any_nil, mem_pt_notNull]
      symm; simp; intro h; have := (e.mp h).1; rw [hi'] at this; simp at this

/-! ## Builder state -/

/-- Every column has a range that contains the column's point. -/
def colsSat : List (List ColRange) → Tuple → Bool
  | [], [] => true
  | c :: cs, w :: ws => anyMem c w && colsSat cs ws
  | _, _ => false

def colsSatExcept : List (List ColRange) → Nat → Tuple → Bool
  | _ :: cs, 0, _ :: ws => colsSat cs ws
  | c :: cs, i + 1, w :: ws => anyMem c w && colsSatExcept cs i ws
  | _, _, _ => false

theorem colsSat_split : ∀ (cols : List (List ColRange)) (i : Nat) (w : Tuple), i < cols.length →
    colsSat cols w = (colsSatExcept cols i w && anyMem (cols[i]?.getD []) (w[i]?.getD none))
  | [], _, _, h => by simp at h
  | c :: cs, i, [], _ => by cases i <;> simp [colsSat, colsSatExcept]
  | c :: cs, 0, w :: ws, _ => by simp [colsSat, colsSatExcept, Bool.and_comm]
  | c :: cs, i + 1, w :: ws, h => by
    have ih := colsSat_split cs i ws (by simpa using h)
    simp only [colsSat, colsSatExcept, List.getElem?_cons_succ]
    rw [ih, Bool.and_assoc]

theorem colsSat_set : ∀ (cols : List (List ColRange)) (i : Nat) (new : List ColRange) (w : Tuple), i < cols.length →
    colsSat (cols.set i new) w = (colsSatExcept cols i w && anyMem new (w[i]?.getD none))
  | [], _, _, _, h => by simp at h
  | c :: cs, i, new, [], _ => by cases i <;> simp [colsSat, colsSatExcept]
  | c :: cs, 0, new, w :: ws, _ => by simp [colsSat, colsSatExcept, Bool.and_comm]
  | c :: cs, i + 1, new, w :: ws, h => by
    have ih := colsSat_set cs i new ws (by simpa using h)
    simp only [List.set_cons_succ, colsSat, colsSatExcept, List.getElem?_cons_succ]
    rw [ih, Bool.and_assoc]

/-- The key tuple (as points) satisfies the builder state. -/
def B.sat (b : B) (w : Tuple) : Bool := !b.invalid && colsSat b.cols w

theorem anyMem_inter (cur pot : List ColRange) (q : Option Int) :
    anyMem (cur.flatMap (fun c => pot.filterMap (fun p =>
      if (c.tryIntersect p).2 && !(c.tryIntersect p).1.isEmpty then some (c.tryIntersect p).1 else none))) q
      = (anyMem cur q && anyMem pot q) := by
  apply Bool.eq_iff_iff.mpr
  simp only [anyMem, List.any_eq_true, List.mem_flatMap, List.mem_filterMap, Bool.and_eq_true]
  constructor
  · rintro ⟨r, ⟨c, hc, p, hp, hr⟩, hm⟩
    split at hr
    · simp only [Option.some.injEq] at hr
      subst hr
      rw [ColRange.mem_tryIntersect] at hm
      simp only [Bool.and_eq_true] at hm
      exact ⟨⟨c, hc, hm.1⟩, ⟨p, hp, hm.2⟩⟩
    · simp at hr
  · rintro ⟨⟨c, hc, hmc⟩, ⟨p, hp, hmp⟩⟩
    have hm : (c.tryIntersect p).1.mem q = true := by rw [ColRange.mem_tryIntersect, hmc, hmp]; rfl
    have hfl : (c.tryIntersect p).2 = true := (ColRange.tryIntersect_flag c p).mpr ⟨q, hmc, hmp⟩
    have hne : (c.tryIntersect p).1.isEmpty = false := (ColRange.not_isEmpty_iff _).mpr ⟨q, hm⟩
    refine ⟨(c.tryIntersect p).1, ⟨c, hc, p, hp, ?_⟩, hm⟩
    simp [hfl, hne]

theorem updateCol_sat (b : B) (i : Nat) (pot : List ColRange) (w : Tuple) (hp : pot ≠ [])
    (hi : i < b.cols.length) (hb : b.invalid = false) :
    (updateCol b i pot).sat w = (b.sat w && anyMem pot (w[i]?.getD none))
    ∧ (updateCol b i pot).cols.length = b.cols.length := by
  unfold updateCol
  have hpe : pot.isEmpty = false := by cases pot <;> simp_all
  simp only [hpe, Bool.false_eq_true, if_false]
  have key := anyMem_inter (b.cols[i]?.getD []) pot (w[i]?.getD none)
  by_cases hn : (List.flatMap (fun c => List.filterMap (fun p =>
      if (c.tryIntersect p).2 && !(c.tryIntersect p).1.isEmpty then some (c.tryIntersect p).1 else none) pot)
      (b.cols[i]?.getD [])).isEmpty = true
  · simp only [hn, if_true]
    refine ⟨?_, trivial⟩
    have he := List.isEmpty_iff.mp hn
    rw [he] at key
    simp only [B.sat, Bool.not_true, Bool.false_and, hb, Bool.not_false, Bool.true_and]
    rw [colsSat_split b.cols i w hi, Bool.and_assoc, ← key]
    simp [anyMem]
  · simp only [hn, if_false, Bool.false_eq_true]
    refine ⟨?_, by simp⟩
    simp only [B.sat, hb, Bool.not_false, Bool.true_and]
    rw [colsSat_set b.cols i _ w hi, key, colsSat_split b.cols i w hi, Bool.and_assoc]

theorem simplifyCol_sat (b : B) (i : Nat) (w : Tuple) (hi : i < b.cols.length) :
    (simplifyCol b i).sat w = b.sat w ∧ (simplifyCol b i).cols.length = b.cols.length := by
  unfold simplifyCol
  by_cases hb : b.invalid = true
  · simp [hb]
  · have hb' : b.invalid = false := by simpa using hb
    simp only [hb', Bool.false_eq_true, if_false]
    have key := simplify_anyMem (b.cols[i]?.getD []) (w[i]?.getD none)
    by_cases hn : (simplify (b.cols[i]?.getD [])).isEmpty = true
    · simp only [hn, if_true]
      refine ⟨?_, trivial⟩
      rw [List.isEmpty_iff.mp hn] at key
      simp only [B.sat, Bool.not_true, Bool.false_and, hb', Bool.not_false, Bool.true_and]
      rw [colsSat_split b.cols i w hi, ← key]
      simp [anyMem]
    · simp only [hn, if_false, Bool.false_eq_true]
      refine ⟨?_, by simp⟩
      simp only [B.sat, hb', Bool.not_false, Bool.true_and]
      rw [colsSat_set b.cols i _ w hi, key, colsSat_split b.cols i w hi]

theorem getD_map_pt (v : List (Option Int)) (i : Nat) : (v.map pt)[i]?.getD none = pt (v[i]?.getD none) := by
  simp only [List.getElem?_map]
  cases v[i]? <;> rfl

theorem notEqualsOne_sat (t : IntType) (b : B) (i : Nat) (k : Lit) (v : List (Option Int))
    (hi : i < b.cols.length) (hx : InType t (v[i]?.getD none)) :
    (notEqualsOne t b i k).sat (v.map pt) = (b.sat (v.map pt) && (Pred.neq k).holds (v[i]?.getD none))
    ∧ (notEqualsOne t b i k).cols.length = b.cols.length := by
  unfold notEqualsOne
  by_cases hb : b.invalid = true
  · simp [hb, B.sat]
  · have hb' : b.invalid = false := by simpa using hb
    simp only [hb', Bool.false_eq_true, if_false]
    have hne : (potNotEquals t k).1 ≠ [] := by
      unfold potNotEquals
      by_cases h1 : (!k.integral) = true
      · simp [h1]
      · by_cases h2 : (convert t k.floor).2 ≠ InR.inRange
        · simp [h1, h2]
        · simp [h1, h2]
    obtain ⟨u1, u2⟩ := updateCol_sat b i (potNotEquals t k).1 (v.map pt) hne hi hb'
    rw [getD_map_pt, potNotEquals_spec t k _ hx] at u1
    by_cases hs : (potNotEquals t k).2 = true
    · simp only [hs, if_true]
      obtain ⟨s1, s2⟩ := simplifyCol_sat (updateCol b i (potNotEquals t k).1) i (v.map pt) (by omega)
      exact ⟨by rw [s1, u1], by omega⟩
    · simp only [hs, if_false, Bool.false_eq_true]
      exact ⟨u1, u2⟩

theorem notIn_fold_sat (t : IntType) (i : Nat) (v : List (Option Int)) (hx : InType t (v[i]?.getD none)) :
    ∀ (ks : List Lit) (b : B), i < b.cols.length →
    (ks.foldl (fun b k => notEqualsOne t b i k) b).sat (v.map pt)
      = (b.sat (v.map pt) && ks.all (fun k => (Pred.neq k).holds (v[i]?.getD none)))
    ∧ (ks.foldl (fun b k => notEqualsOne t b i k) b).cols.length = b.cols.length
  | [], b, _ => by simp
  | k :: ks, b, hi => by
    obtain ⟨n1, n2⟩ := notEqualsOne_sat t b i k v hi hx
    obtain ⟨f1, f2⟩ := notIn_fold_sat t i v hx ks (notEqualsOne t b i k) (by omega)
    simp only [List.foldl_cons, List.all_cons]
    exact ⟨by rw [f1, n1, Bool.and_assoc], by omega⟩

theorem notIn_holds (ks : List Lit) (hne : ks ≠ []) (x : Option Int) :
    (Pred.notIn ks).holds x = ks.all (fun k => (Pred.neq k).holds x) := by
  cases x with
  | none =>
    cases ks with
    | nil => exact absurd rfl hne
    | cons k ks => simp [Pred.holds]
  | some v => simp [Pred.holds]

theorem eq_holds (ks : List Lit) (x : Option Int) :
    (Pred.eq ks).holds x = ks.any (fun k => (Pred.eq [k]).holds x) := by
  cases x with
  | none => simp [Pred.holds]
  | some v => simp [Pred.holds]

/-- The predicates SQL can express: `IN` / `NOT IN` lists are not empty. -/
def Pred.WF : Pred → Prop
  | .eq ks => ks ≠ []
  | .notIn ks => ks ≠ []
  | _ => True

/-- One builder call restricts the satisfying key tuples by exactly its predicate. -/
theorem apply_sat (t : IntType) (b : B) (i : Nat) (p : Pred) (v : List (Option Int))
    (hi : i < b.cols.length) (hx : InType t (v[i]?.getD none)) (hwf : p.WF) :
    (apply t b i p).sat (v.map pt) = (b.sat (v.map pt) && p.holds (v[i]?.getD none))
    ∧ (apply t b i p).cols.length = b.cols.length := by
  unfold apply
  by_cases hb : b.invalid = true
  · simp [hb, B.sat]
  · have hb' : b.invalid = false := by simpa using hb
    simp only [hb', Bool.false_eq_true, if_false]
    have single : ∀ (r : ColRange) (q : Pred), r.mem (pt (v[i]?.getD none)) = q.holds (v[i]?.getD none) →
        (updateCol b i [r]).sat (v.map pt) = (b.sat (v.map pt) && q.holds (v[i]?.getD none))
        ∧ (updateCol b i [r]).cols.length = b.cols.length := by
      intro r q hr
      obtain ⟨u1, u2⟩ := updateCol_sat b i [r] (v.map pt) (by simp) hi hb'
      rw [getD_map_pt] at u1
      exact ⟨by rw [u1]; simp [anyMem, hr], u2⟩
    cases p with
    | eq ks =>
      simp only
      have hne : ks.map (potEqualsOne t) ≠ [] := by
        simp only [Pred.WF] at hwf
        intro h; exact hwf (List.map_eq_nil_iff.mp h)
      obtain ⟨u1, u2⟩ := updateCol_sat b i (ks.map (potEqualsOne t)) (v.map pt) hne hi hb'
      refine ⟨?_, u2⟩
      rw [u1, getD_map_pt, eq_holds]
      congr 1
      simp only [anyMem, List.any_map]
      apply List.any_congr rfl
      simp only [Function.comp]
      exact fun k => potEqualsOne_spec t k _ hx
    | neq k => exact notEqualsOne_sat t b i k v hi hx
    | notIn ks =>
      simp only
      obtain ⟨f1, f2⟩ := notIn_fold_sat t i v hx ks b hi
      exact ⟨by rw [f1, notIn_holds ks hwf], f2⟩
    | gt k => exact single _ _ (potGreaterThan_spec t k _ hx)
    | ge k => exact single _ _ (potGreaterOrEqual_spec t k _ hx)
    | lt k => exact single _ _ (potLessThan_spec t k _ hx)
    | le k => exact single _ _ (potLessOrEqual_spec t k _ hx)
    | isNull => exact single _ .isNull (by rw [mem_pt_null]; cases v[i]?.getD none <;> rfl)
    | isNotNull => exact single _ .isNotNull (by rw [mem_pt_notNull]; cases v[i]?.getD none <;> rfl)

/-! ## `Ranges`: the odometer enumerates the product of the column lists -/

theorem memAny_product : ∀ (cols : List (List ColRange)) (w : Tuple), memAny (product cols) w = colsSat cols w
  | [], [] => by simp [product, memAny, Range.mem, colsSat]
  | [], _ :: _ => by simp [product, memAny, Range.mem, colsSat]
  | c :: cs, [] => by
    simp only [colsSat, memAny, product]
    apply Bool.eq_false_iff.mpr
    simp [Range.mem]
  | c :: cs, w :: ws => by
    have ih := memAny_product cs ws
    apply Bool.eq_iff_iff.mpr
    simp only [memAny, product, List.any_eq_true, List.mem_flatMap, List.mem_map, colsSat, Bool.and_eq_true, anyMem]
    constructor
    · rintro ⟨r, ⟨rest, hrest, x, hx, e⟩, hm⟩
      subst e
      simp only [Range.mem, Bool.and_eq_true] at hm
      refine ⟨⟨x, hx, hm.1⟩, ?_⟩
      rw [← ih]; simp only [memAny, List.any_eq_true]; exact ⟨rest, hrest, hm.2⟩
    · rintro ⟨⟨x, hx, hmx⟩, hcs⟩
      rw [← ih] at hcs
      simp only [memAny, List.any_eq_true] at hcs
      obtain ⟨rest, hrest, hmr⟩ := hcs
      exact ⟨x :: rest, ⟨rest, hrest, x, hx, rfl⟩, by simp [Range.mem, hmx, hmr]⟩

theorem memAny_rotate1 (xs : List Range) (w : Tuple) : memAny (rotate1 xs) w = memAny xs w := by
  cases xs with
  | nil => rfl
  | cons x xs => simp [rotate1, memAny, List.any_append, Bool.or_comm]

theorem memAny_filter_nonempty (xs : List Range) (w : Tuple) (hw : w ≠ []) :
    memAny (xs.filter (fun r => !r.isEmpty)) w = memAny xs w := by
  induction xs with
  | nil => rfl
  | cons x xs ih =>
    simp only [List.filter_cons]
    by_cases he : x.isEmpty = true
    · simp only [he, Bool.not_true, Bool.false_eq_true, if_false]
      rw [ih, memAny_cons, isEmpty_sound he w hw]; rfl
    · have he' : x.isEmpty = false := by simpa using he
      simp only [he', Bool.not_false, if_true]
      rw [memAny_cons, memAny_cons, ih]

theorem mem_map_empty (cols : List (List ColRange)) (hn : cols ≠ []) (w : Tuple) :
    Range.mem (cols.map (fun _ => ColRange.empty)) w = false := by
  cases cols with
  | nil => exact absurd rfl hn
  | cons c cs => cases w <;> simp [Range.mem, ColRange.mem_empty]

/-- `Ranges` denotes exactly the key tuples that satisfy the builder state. -/
theorem ranges_sat (b : B) (w : Tuple) (hn : b.cols ≠ []) (hw : w ≠ []) : memAny (ranges b) w = b.sat w := by
  unfold ranges B.sat
  by_cases hb : b.invalid = true
  · simp only [hb, if_true, Bool.not_true, Bool.false_and]
    rw [memAny_cons, mem_map_empty b.cols hn, memAny_nil]; rfl
  · have hb' : b.invalid = false := by simpa using hb
    simp only [hb', Bool.false_eq_true, if_false, Bool.not_false, Bool.true_and]
    have key : memAny ((rotate1 (product b.cols)).filter (fun r => !r.isEmpty)) w = colsSat b.cols w := by
      rw [memAny_filter_nonempty _ w hw, memAny_rotate1, memAny_product]
    by_cases he : ((rotate1 (product b.cols)).filter (fun r => !r.isEmpty)).isEmpty = true
    · simp only [he, if_true]
      rw [List.isEmpty_iff.mp he] at key
      rw [memAny_cons, mem_map_empty b.cols hn, memAny_nil, ← key]; rfl
    · simp only [he, if_false, Bool.false_eq_true]
      exact key

theorem colsSat_new : ∀ (n : Nat) (w : Tuple), w.length = n → colsSat (List.replicate n [ColRange.all]) w = true
  | 0, [], _ => rfl
  | 0, _ :: _, h => by simp at h
  | n + 1, [], h => by simp at h
  | n + 1, w :: ws, h => by
    simp only [List.replicate_succ, colsSat, anyMem, List.any_cons, List.any_nil, mem_all, Bool.or_false, Bool.true_and]
    exact colsSat_new n ws (by simpa using h)

theorem build_fold_sat (t : IntType) (v : List (Option Int)) (hv : ∀ x ∈ v, InType t x) :
    ∀ (ops : List (Nat × Pred)) (b : B), (∀ op ∈ ops, op.1 < b.cols.length ∧ op.2.WF) →
    (ops.foldl (fun b op => apply t b op.1 op.2) b).sat (v.map pt)
      = (b.sat (v.map pt) && ops.all (fun op => op.2.holds (v[op.1]?.getD none)))
    ∧ (ops.foldl (fun b op => apply t b op.1 op.2) b).cols.length = b.cols.length
  | [], b, _ => by simp
  | op :: ops, b, h => by
    have hop := h op (by simp)
    have hx : InType t (v[op.1]?.getD none) := by
      cases hg : v[op.1]? with
      | none => exact trivial
      | some x => exact hv x (List.mem_of_getElem? hg)
    obtain ⟨a1, a2⟩ := apply_sat t b op.1 op.2 v hop.1 hx hop.2
    obtain ⟨f1, f2⟩ := build_fold_sat t v hv ops (apply t b op.1 op.2)
      (fun o ho => by rw [a2]; exact h o (by simp [ho]))
    simp only [List.foldl_cons, List.all_cons]
    exact ⟨by rw [f1, a1, Bool.and_assoc], by omega⟩

end Gms.IndexBuilder
