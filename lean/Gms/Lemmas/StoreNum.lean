/-
Lemmas for C27 about the 64-bit converters on numeric values (Go integers and decimals).
-/
import Gms.Model.Store
import Gms.Lemmas.Round
namespace Gms.Store
open Gms.Num Gms.Conv

/-- what `convertToInt64` does on a numeric value `c / 10^s` (Go integer or decimal) -/
theorem convertToInt64_num (v : Val) (hwf : v.WF) (c : Int) (s : Nat) (hx : numOf v = some (c, s)) :
    (convertToInt64 v).err = .none ∧
    (((convertToInt64 v).flag = .inRange ∧ (convertToInt64 v).val = roundHalfAway c s ∧ inI64 (roundHalfAway c s)) ∨
     ((convertToInt64 v).flag = .overflow ∧ (convertToInt64 v).val = maxI64 ∧ maxI64 ≤ roundHalfAway c s ∧
        maxI64 * 10 ^ s < c) ∨
     ((convertToInt64 v).flag = .underflow ∧ (convertToInt64 v).val = minI64 ∧ roundHalfAway c s ≤ minI64 ∧
        c < minI64 * 10 ^ s)) := by
  cases v with
  | null => simp [numOf] at hx
  | s bs => simp [numOf] at hx
  | i x =>
    simp only [numOf, Option.some.injEq, Prod.mk.injEq] at hx
    obtain ⟨rfl, rfl⟩ := hx
    simp only [Val.WF] at hwf
    rw [rha_scale_zero]
    exact ⟨rfl, Or.inl ⟨rfl, rfl, hwf⟩⟩
  | u x =>
    simp only [numOf, Option.some.injEq, Prod.mk.injEq] at hx
    obtain ⟨rfl, rfl⟩ := hx
    simp only [Val.WF, inU64] at hwf
    rw [rha_scale_zero]
    by_cases h : x > maxI64
    · have e : convertToInt64 (.u x) = ⟨maxI64, .overflow, .none⟩ := by simp [convertToInt64, h]
      rw [e]
      exact ⟨rfl, Or.inr (Or.inl ⟨rfl, rfl, by omega, by omega⟩)⟩
    · have e : convertToInt64 (.u x) = ⟨x, .inRange, .none⟩ := by simp [convertToInt64, h]
      rw [e]
      refine ⟨rfl, Or.inl ⟨rfl, rfl, ?_⟩⟩
      simp only [inI64, minI64, maxI64] at *; omega
  | d c' s' =>
    simp only [numOf, Option.some.injEq, Prod.mk.injEq] at hx
    obtain ⟨rfl, rfl⟩ := hx
    by_cases hg : decGt c' s' maxI64 = true
    · have e : convertToInt64 (.d c' s') = ⟨maxI64, .overflow, .none⟩ := by simp [convertToInt64, hg]
      rw [e]
      simp only [decGt, decide_eq_true_eq] at hg
      exact ⟨rfl, Or.inr (Or.inl ⟨rfl, rfl, rha_ge_of_ge _ _ _ (by omega), by omega⟩)⟩
    · by_cases hl : decLt c' s' minI64 = true
      · have e : convertToInt64 (.d c' s') = ⟨minI64, .underflow, .none⟩ := by simp [convertToInt64, hg, hl]
        rw [e]
        simp only [decLt, decide_eq_true_eq] at hl
        exact ⟨rfl, Or.inr (Or.inr ⟨rfl, rfl, rha_le_of_le _ _ _ (by omega), by omega⟩)⟩
      · have e : convertToInt64 (.d c' s') = ⟨roundHalfAway c' s', .inRange, .none⟩ := by
          simp [convertToInt64, hg, hl]
        rw [e]
        simp only [decGt, decide_eq_true_eq] at hg
        simp only [decLt, decide_eq_true_eq] at hl
        exact ⟨rfl, Or.inl ⟨rfl, rfl, rha_ge_of_ge _ _ _ (by omega), rha_le_of_le _ _ _ (by omega)⟩⟩

/-- what `convertToUint64` does on a non-negative numeric value -/
theorem convertToUint64_num (v : Val) (hwf : v.WF) (c : Int) (s : Nat) (hx : numOf v = some (c, s))
    (hc : 0 ≤ c) :
    (convertToUint64 v).err = .none ∧
    (((convertToUint64 v).flag = .inRange ∧ (convertToUint64 v).val = roundHalfAway c s ∧
        0 ≤ roundHalfAway c s ∧ roundHalfAway c s ≤ maxU64) ∨
     ((convertToUint64 v).flag = .overflow ∧ (convertToUint64 v).val = maxU64 ∧ maxU64 ≤ roundHalfAway c s ∧
        maxU64 * 10 ^ s < c)) := by
  cases v with
  | null => simp [numOf] at hx
  | s bs => simp [numOf] at hx
  | i x =>
    simp only [numOf, Option.some.injEq, Prod.mk.injEq] at hx
    obtain ⟨rfl, rfl⟩ := hx
    simp only [Val.WF, inI64, minI64, maxI64] at hwf
    have hn : ¬ x < 0 := by omega
    have e : convertToUint64 (.i x) = ⟨x, .inRange, .none⟩ := by simp [convertToUint64, hn]
    rw [e, rha_scale_zero]
    refine ⟨rfl, Or.inl ⟨rfl, rfl, hc, ?_⟩⟩
    simp only [maxU64]; omega
  | u x =>
    simp only [numOf, Option.some.injEq, Prod.mk.injEq] at hx
    obtain ⟨rfl, rfl⟩ := hx
    simp only [Val.WF, inU64] at hwf
    rw [rha_scale_zero]
    exact ⟨rfl, Or.inl ⟨rfl, rfl, hwf.1, hwf.2⟩⟩
  | d c' s' =>
    simp only [numOf, Option.some.injEq, Prod.mk.injEq] at hx
    obtain ⟨rfl, rfl⟩ := hx
    by_cases hg : decGt c' s' maxU64 = true
    · have e : convertToUint64 (.d c' s') = ⟨maxU64, .overflow, .none⟩ := by simp [convertToUint64, hg]
      rw [e]
      simp only [decGt, decide_eq_true_eq] at hg
      exact ⟨rfl, Or.inr ⟨rfl, rfl, rha_ge_of_ge _ _ _ (by omega), by omega⟩⟩
    · have hn : ¬ c' < 0 := by omega
      have e : convertToUint64 (.d c' s') = ⟨roundHalfAway c' s', .inRange, .none⟩ := by
        simp [convertToUint64, hg, hn]
      rw [e]
      simp only [decGt, decide_eq_true_eq] at hg
      exact ⟨rfl, Or.inl ⟨rfl, rfl, rha_ge_of_ge c' s' 0 (by omega), rha_le_of_le _ _ _ (by omega)⟩⟩
end Gms.Store
