/-
Lemmas for C41 (persist / reload of the access-control state): keyed collections with pairwise different
keys survive `sort → write → read → m[k] = v`; what an erased privilege set holds, by membership; the
account lookup of `GetUser` as a cascade of `find?`, and its independence of the account order.
-/
import Gms.Model.PrivSerial
import Gms.Lemmas.Priv

namespace Gms.PrivSerial
open Gms.Priv

section Generic
variable {α β : Type}

theorem putKey_fresh (key : β → String × Bool) (acc : List β) (v : β)
    (h : ∀ x ∈ acc, key x ≠ key v) : putKey key acc v = acc ++ [v] := by
  unfold putKey
  congr 1
  apply List.filter_eq_self.2
  intro x hx
  simpa using h x hx

theorem foldl_putKey_append (key : β → String × Bool) (l acc : List β)
    (h : ((acc ++ l).map key).Nodup) : l.foldl (putKey key) acc = acc ++ l := by
  induction l generalizing acc with
  | nil => simp
  | cons v l ih =>
    have hv : putKey key acc v = acc ++ [v] := by
      apply putKey_fresh
      intro x hx heq
      simp only [List.map_append, List.map_cons] at h
      have := (List.nodup_append.1 h).2.2 (key x) (List.mem_map_of_mem hx) (key v) (by simp)
      exact this heq
    simp only [List.foldl_cons, hv]
    rw [ih]
    · simp
    · simpa using h

theorem foldl_putKey_nil (key : β → String × Bool) (l : List β) (h : (l.map key).Nodup) :
    l.foldl (putKey key) [] = l := by
  simpa using foldl_putKey_append key l [] (by simpa using h)

theorem roundtrip (key : α → String × Bool) (key' : β → String × Bool) (keep : α → Bool) (tr : α → β)
    (le : α → α → Bool) (l : List α) (hn : (l.map key).Nodup) (hk : ∀ a ∈ l, keep a = true → key' (tr a) = key a) :
    (((l.filter keep).mergeSort le).map tr).foldl (putKey key') [] = ((l.filter keep).mergeSort le).map tr ∧
    ((((l.filter keep).mergeSort le).map tr).map key').Nodup ∧
    ∀ b, b ∈ ((l.filter keep).mergeSort le).map tr ↔ ∃ a ∈ l, keep a = true ∧ b = tr a := by
  have hperm := List.mergeSort_perm (l.filter keep) le
  have hkeys : (((l.filter keep).mergeSort le).map tr).map key' = ((l.filter keep).mergeSort le).map key := by
    rw [List.map_map]
    apply List.map_congr_left
    intro a ha
    have := List.mem_filter.1 ((hperm.mem_iff).1 ha)
    exact hk a this.1 this.2
  have hnd : ((((l.filter keep).mergeSort le).map tr).map key').Nodup := by
    rw [hkeys]
    have h1 : ((l.filter keep).map key).Nodup := (List.filter_sublist.map key).nodup hn
    exact ((hperm.map key).nodup_iff).2 h1
  refine ⟨foldl_putKey_nil key' _ hnd, hnd, ?_⟩
  intro b
  simp only [List.mem_map, List.mem_mergeSort, List.mem_filter]
  constructor
  · rintro ⟨a, ⟨ha, hka⟩, rfl⟩; exact ⟨a, ha, hka, rfl⟩
  · rintro ⟨a, ha, hka, rfl⟩; exact ⟨a, ⟨ha, hka⟩, rfl⟩

def optB {γ : Type} (o : Option γ) (P : γ → Bool) : Bool := match o with | some s => P s | none => false

/-- Lookup in a map built from a list with pairwise different keys. -/
theorem mget_map_iff {κ γ : Type} [DecidableEq κ] (key : α → κ) (f : α → γ) (P : γ → Bool) (l : List α)
    (hn : (l.map key).Nodup) (k : κ) :
    optB (mget (l.map (fun x => (key x, f x))) k) P = true ↔
      ∃ x ∈ l, key x = k ∧ P (f x) = true := by
  induction l with
  | nil => simp [mget, optB]
  | cons a l ih =>
    simp only [List.map_cons, List.nodup_cons] at hn
    simp only [List.map_cons, mget]
    by_cases hk : key a = k
    · simp only [hk, if_true, optB]
      constructor
      · intro h; exact ⟨a, by simp, hk, h⟩
      · rintro ⟨x, hx, hkx, hp⟩
        rcases List.mem_cons.1 hx with rfl | hx'
        · exact hp
        · exact absurd (List.mem_map.2 ⟨x, hx', hkx.trans hk.symm⟩) hn.1
    · simp only [hk, if_false]
      rw [ih hn.2]
      constructor
      · rintro ⟨x, hx, h⟩; exact ⟨x, List.mem_cons_of_mem _ hx, h⟩
      · rintro ⟨x, hx, hkx, hp⟩
        rcases List.mem_cons.1 hx with rfl | hx'
        · exact absurd hkx hk
        · exact ⟨x, hx', hkx, hp⟩

end Generic

theorem filter_const_true {α : Type} (l : List α) : l.filter (fun _ => true) = l := by
  induction l with
  | nil => rfl
  | cons a l ih => simp [List.filter, ih]

theorem nodup_pair {α κ : Type} (key : α → κ) (b : α → Bool) (l : List α) (h : (l.map key).Nodup) :
    (l.map (fun x => (key x, b x))).Nodup := by
  induction l with
  | nil => simp
  | cons a l ih =>
    simp only [List.map_cons, List.nodup_cons, List.mem_map, not_exists, not_and] at h ⊢
    refine ⟨?_, ih h.2⟩
    intro x hx heq
    exact h.1 x hx (Prod.mk.inj heq).1

theorem nodup_fst_of_pair {α κ : Type} (key : α → κ) (l : List α) (h : (l.map (fun x => (key x, false))).Nodup) :
    (l.map key).Nodup := by
  induction l with
  | nil => simp
  | cons a l ih =>
    simp only [List.map_cons, List.nodup_cons, List.mem_map, not_exists, not_and] at h ⊢
    refine ⟨?_, ih h.2⟩
    intro x hx heq
    exact h.1 x hx (by rw [heq])

theorem mem_toSlice (l : List Priv) (p : Priv) : p ∈ toSlice l ↔ p ∈ l := by
  simp [toSlice, sortNats, List.mem_mergeSort, List.mem_eraseDups]

theorem nonempty_of_mem {p : Priv} {l : List Priv} (h : p ∈ l) : (!l.isEmpty) = true := by
  cases l with
  | nil => simp at h
  | cons a r => rfl

/-! ## Invariants of a privilege set -/

/-- The key under which the loader files an entry with this name (`fixKeys` = the repaired loader). -/
def keyOf (fk : Bool) (name : String) : String := if fk then lower name else name

/-- The entries are the entries of Go maps: pairwise different keys at every level. -/
structure Keyed (ps : NPrivSet) : Prop where
  dbs : (ps.dbs.map NDb.key).Nodup
  tables : ∀ d ∈ ps.dbs, (d.tables.map NTbl.key).Nodup
  routines : ∀ d ∈ ps.dbs, (d.routines.map (fun r => (r.key, r.isProc))).Nodup

/-- Every entry that gets persisted sits under the key the loader will give it. -/
structure DbKeysOK (fk : Bool) (d : NDb) : Prop where
  key : keyOf fk d.name = d.key
  tkey : ∀ t ∈ d.tables, t.hasPrivileges = true → keyOf fk t.name = t.key
  rkey : ∀ r ∈ d.routines, keyOf fk r.name = r.key

def KeysOK (fk : Bool) (ps : NPrivSet) : Prop := ∀ d ∈ ps.dbs, d.hasPrivileges = true → DbKeysOK fk d

/-! ## One persisted-and-reloaded database entry -/

def rtTbl (fk : Bool) (t : NTbl) : NTbl := loadTbl fk { name := t.name, privs := toSlice t.privs }
def rtRtn (fk : Bool) (r : NRtn) : NRtn := loadRtn fk { name := r.name, isProc := r.isProc, privs := toSlice r.privs }
def rtDb (fk : Bool) (d : NDb) : NDb :=
  loadDb fk { name := d.name, privs := toSlice d.privs, tables := serTables d.tables, routines := serRoutines d.routines }

theorem rtDb_tables (fk : Bool) (d : NDb) (hn : (d.tables.map NTbl.key).Nodup) (h : DbKeysOK fk d) :
    ((rtDb fk d).tables.map NTbl.key).Nodup ∧
    ∀ t', t' ∈ (rtDb fk d).tables ↔ ∃ t ∈ d.tables, t.hasPrivileges = true ∧ t' = rtTbl fk t := by
  have r := roundtrip (fun t : NTbl => (t.key, false)) (fun t : NTbl => (t.key, false)) NTbl.hasPrivileges (rtTbl fk)
    (fun a b => strLe a.name b.name) d.tables (nodup_pair _ _ _ hn)
    (by intro a ha hp; simp only [rtTbl, loadTbl]; rw [← h.tkey a ha hp]; rfl)
  have e : (rtDb fk d).tables = ((d.tables.filter NTbl.hasPrivileges).mergeSort (fun a b => strLe a.name b.name)).map (rtTbl fk) := by
    simp only [rtDb, loadDb, serTables, sortBy, List.map_map]
    exact r.1
  rw [e]
  exact ⟨nodup_fst_of_pair _ _ r.2.1, r.2.2⟩

theorem rtDb_routines (fk : Bool) (d : NDb) (hn : (d.routines.map (fun r => (r.key, r.isProc))).Nodup) (h : DbKeysOK fk d) :
    ((rtDb fk d).routines.map (fun r => (r.key, r.isProc))).Nodup ∧
    ∀ r', r' ∈ (rtDb fk d).routines ↔ ∃ r ∈ d.routines, r' = rtRtn fk r := by
  have r := roundtrip (fun r : NRtn => (r.key, r.isProc)) (fun r : NRtn => (r.key, r.isProc)) (fun _ => true) (rtRtn fk)
    (fun a b => strLe a.name b.name) d.routines hn
    (by intro a ha _; simp only [rtRtn, loadRtn]; rw [← h.rkey a ha]; rfl)
  have e : (rtDb fk d).routines = ((d.routines.filter (fun _ => true)).mergeSort (fun a b => strLe a.name b.name)).map (rtRtn fk) := by
    simp only [rtDb, loadDb, serRoutines, sortBy, List.map_map, filter_const_true]
    have := r.1
    simp only [filter_const_true] at this
    exact this
  rw [e]
  refine ⟨r.2.1, ?_⟩
  intro r'
  rw [r.2.2]
  simp

theorem rt_dbs (fk : Bool) (ps : NPrivSet) (hk : Keyed ps) (h : KeysOK fk ps) :
    (((loadPrivSet fk (serPrivSet ps)).dbs).map NDb.key).Nodup ∧
    ∀ d', d' ∈ (loadPrivSet fk (serPrivSet ps)).dbs ↔ ∃ d ∈ ps.dbs, d.hasPrivileges = true ∧ d' = rtDb fk d := by
  have r := roundtrip (fun d : NDb => (d.key, false)) (fun d : NDb => (d.key, false)) NDb.hasPrivileges (rtDb fk)
    (fun a b => strLe a.name b.name) ps.dbs (nodup_pair _ _ _ hk.dbs)
    (by intro a ha hp; simp only [rtDb, loadDb]; rw [← (h a ha hp).key]; rfl)
  have e : (loadPrivSet fk (serPrivSet ps)).dbs =
      ((ps.dbs.filter NDb.hasPrivileges).mergeSort (fun a b => strLe a.name b.name)).map (rtDb fk) := by
    simp only [loadPrivSet, serPrivSet, serDbs, sortBy, List.map_map]
    exact r.1
  rw [e]
  exact ⟨nodup_fst_of_pair _ _ r.2.1, r.2.2⟩

theorem rtDb_key (fk : Bool) (d : NDb) (h : DbKeysOK fk d) : (rtDb fk d).key = d.key := by
  simp only [rtDb, loadDb]; rw [← h.key]; rfl

theorem rtDb_privs (fk : Bool) (d : NDb) (p : Priv) : p ∈ (rtDb fk d).privs ↔ p ∈ d.privs := by
  simp only [rtDb, loadDb]; exact mem_toSlice _ _

theorem rtTbl_key (fk : Bool) (d : NDb) (h : DbKeysOK fk d) (t : NTbl) (ht : t ∈ d.tables) (hp : t.hasPrivileges = true) :
    (rtTbl fk t).key = t.key := by
  simp only [rtTbl, loadTbl]; rw [← h.tkey t ht hp]; rfl

theorem rtRtn_key (fk : Bool) (d : NDb) (h : DbKeysOK fk d) (r : NRtn) (hr : r ∈ d.routines) :
    ((rtRtn fk r).key, (rtRtn fk r).isProc) = (r.key, r.isProc) := by
  simp only [rtRtn, loadRtn]; rw [← h.rkey r hr]; rfl

/-! ## What an erased set holds, by membership -/

theorem holds_db_eq (ps : PrivSet) (k : String) (p : Priv) :
    ps.holds (.db k p) = optB (mget ps.dbs k) (fun s => decide (p ∈ s.privs)) := by
  simp only [PrivSet.holds, optB]; cases mget ps.dbs k <;> rfl

theorem holds_tbl_eq (ps : PrivSet) (k t : String) (p : Priv) :
    ps.holds (.tbl k t p) = optB (mget ps.dbs k) (fun s => optB (mget s.tables t) (fun tp => decide (p ∈ tp))) := by
  simp only [PrivSet.holds, optB]
  cases mget ps.dbs k with
  | none => rfl
  | some s => simp only []; cases mget s.tables t <;> rfl

theorem holds_rtn_eq (ps : PrivSet) (k r : String) (b : Bool) (p : Priv) :
    ps.holds (.rtn k r b p) = optB (mget ps.dbs k) (fun s => optB (mget s.routines (r, b)) (fun rp => decide (p ∈ rp))) := by
  simp only [PrivSet.holds, optB]
  cases mget ps.dbs k with
  | none => rfl
  | some s => simp only []; cases mget s.routines (r, b) <;> rfl

theorem holds_db_iff (ps : NPrivSet) (hn : (ps.dbs.map NDb.key).Nodup) (k : String) (p : Priv) :
    (erase ps).holds (.db k p) = true ↔ ∃ d ∈ ps.dbs, d.key = k ∧ p ∈ d.privs := by
  rw [holds_db_eq]
  refine (mget_map_iff NDb.key eraseDb (fun s => decide (p ∈ s.privs)) ps.dbs hn k).trans ?_
  constructor
  · rintro ⟨d, h1, h2, h3⟩; exact ⟨d, h1, h2, of_decide_eq_true h3⟩
  · rintro ⟨d, h1, h2, h3⟩; exact ⟨d, h1, h2, decide_eq_true h3⟩

theorem holds_tbl_iff (ps : NPrivSet) (hn : (ps.dbs.map NDb.key).Nodup)
    (hd : ∀ d ∈ ps.dbs, (d.tables.map NTbl.key).Nodup) (k t : String) (p : Priv) :
    (erase ps).holds (.tbl k t p) = true ↔
      ∃ d ∈ ps.dbs, d.key = k ∧ ∃ x ∈ d.tables, x.key = t ∧ p ∈ x.privs := by
  rw [holds_tbl_eq]
  refine (mget_map_iff NDb.key eraseDb _ ps.dbs hn k).trans ?_
  constructor
  · rintro ⟨d, hdm, hk, hp⟩
    have h2 := (mget_map_iff NTbl.key NTbl.privs (fun tp => decide (p ∈ tp)) d.tables (hd d hdm) t).1 hp
    obtain ⟨x, hx, hxk, hp⟩ := h2
    exact ⟨d, hdm, hk, x, hx, hxk, by simpa using hp⟩
  · rintro ⟨d, hdm, hk, x, hx, hxk, hp⟩
    exact ⟨d, hdm, hk, (mget_map_iff NTbl.key NTbl.privs (fun tp => decide (p ∈ tp)) d.tables (hd d hdm) t).2
      ⟨x, hx, hxk, by simpa using hp⟩⟩

theorem holds_rtn_iff (ps : NPrivSet) (hn : (ps.dbs.map NDb.key).Nodup)
    (hd : ∀ d ∈ ps.dbs, (d.routines.map (fun r => (r.key, r.isProc))).Nodup) (k r : String) (b : Bool) (p : Priv) :
    (erase ps).holds (.rtn k r b p) = true ↔
      ∃ d ∈ ps.dbs, d.key = k ∧ ∃ x ∈ d.routines, (x.key, x.isProc) = (r, b) ∧ p ∈ x.privs := by
  rw [holds_rtn_eq]
  refine (mget_map_iff NDb.key eraseDb _ ps.dbs hn k).trans ?_
  constructor
  · rintro ⟨d, hdm, hk, hp⟩
    have h2 := (mget_map_iff (fun x : NRtn => (x.key, x.isProc)) NRtn.privs (fun rp => decide (p ∈ rp)) d.routines (hd d hdm) (r, b)).1 hp
    obtain ⟨x, hx, hxk, hp⟩ := h2
    exact ⟨d, hdm, hk, x, hx, hxk, by simpa using hp⟩
  · rintro ⟨d, hdm, hk, x, hx, hxk, hp⟩
    exact ⟨d, hdm, hk, (mget_map_iff (fun x : NRtn => (x.key, x.isProc)) NRtn.privs (fun rp => decide (p ∈ rp)) d.routines (hd d hdm) (r, b)).2
      ⟨x, hx, hxk, by simpa using hp⟩⟩

/-- Persisting and reloading a privilege set keeps exactly the grants it holds. -/
theorem reload_holds (fk : Bool) (ps : NPrivSet) (hk : Keyed ps) (h : KeysOK fk ps) (g : Grant) :
    (erase (loadPrivSet fk (serPrivSet ps))).holds g = (erase ps).holds g := by
  have hr := rt_dbs fk ps hk h
  have hmem : ∀ d', d' ∈ (loadPrivSet fk (serPrivSet ps)).dbs → ∃ d ∈ ps.dbs, d.hasPrivileges = true ∧ d' = rtDb fk d :=
    fun d' hd' => (hr.2 d').1 hd'
  apply bool_eq_of_iff
  cases g with
  | glob p =>
    simp only [PrivSet.holds, erase, loadPrivSet, serPrivSet]
    exact ⟨fun h => decide_eq_true ((mem_toSlice _ _).1 (of_decide_eq_true h)),
      fun h => decide_eq_true ((mem_toSlice _ _).2 (of_decide_eq_true h))⟩
  | dyn n => simp only [PrivSet.holds, erase, loadPrivSet, serPrivSet]
  | db k p =>
    rw [holds_db_iff _ hr.1, holds_db_iff _ hk.dbs]
    constructor
    · rintro ⟨d', hd', hkk, hp⟩
      obtain ⟨d, hd, hpd, rfl⟩ := hmem d' hd'
      exact ⟨d, hd, (rtDb_key fk d (h d hd hpd)).symm.trans hkk, (rtDb_privs fk d p).1 hp⟩
    · rintro ⟨d, hd, hkk, hp⟩
      have hpd : d.hasPrivileges = true := by simp only [NDb.hasPrivileges, nonempty_of_mem hp, Bool.true_or]
      exact ⟨rtDb fk d, (hr.2 _).2 ⟨d, hd, hpd, rfl⟩, (rtDb_key fk d (h d hd hpd)).trans hkk, (rtDb_privs fk d p).2 hp⟩
  | tbl k t p =>
    rw [holds_tbl_iff _ hr.1 (by
        intro d' hd'
        obtain ⟨d, hd, hpd, rfl⟩ := hmem d' hd'
        exact (rtDb_tables fk d (hk.tables d hd) (h d hd hpd)).1),
      holds_tbl_iff _ hk.dbs hk.tables]
    constructor
    · rintro ⟨d', hd', hkk, x', hx', hxk, hp⟩
      obtain ⟨d, hd, hpd, rfl⟩ := hmem d' hd'
      obtain ⟨x, hx, hxp, rfl⟩ := ((rtDb_tables fk d (hk.tables d hd) (h d hd hpd)).2 x').1 hx'
      exact ⟨d, hd, (rtDb_key fk d (h d hd hpd)).symm.trans hkk, x, hx,
        (rtTbl_key fk d (h d hd hpd) x hx hxp).symm.trans hxk, (mem_toSlice _ _).1 hp⟩
    · rintro ⟨d, hd, hkk, x, hx, hxk, hp⟩
      have hxp : x.hasPrivileges = true := nonempty_of_mem hp
      have hpd : d.hasPrivileges = true := by
        simp only [NDb.hasPrivileges, Bool.or_eq_true, List.any_eq_true]
        exact Or.inl (Or.inr ⟨x, hx, hxp⟩)
      exact ⟨rtDb fk d, (hr.2 _).2 ⟨d, hd, hpd, rfl⟩, (rtDb_key fk d (h d hd hpd)).trans hkk,
        rtTbl fk x, ((rtDb_tables fk d (hk.tables d hd) (h d hd hpd)).2 _).2 ⟨x, hx, hxp, rfl⟩,
        (rtTbl_key fk d (h d hd hpd) x hx hxp).trans hxk, (mem_toSlice _ _).2 hp⟩
  | rtn k r b p =>
    rw [holds_rtn_iff _ hr.1 (by
        intro d' hd'
        obtain ⟨d, hd, hpd, rfl⟩ := hmem d' hd'
        exact (rtDb_routines fk d (hk.routines d hd) (h d hd hpd)).1),
      holds_rtn_iff _ hk.dbs hk.routines]
    constructor
    · rintro ⟨d', hd', hkk, x', hx', hxk, hp⟩
      obtain ⟨d, hd, hpd, rfl⟩ := hmem d' hd'
      obtain ⟨x, hx, rfl⟩ := ((rtDb_routines fk d (hk.routines d hd) (h d hd hpd)).2 x').1 hx'
      exact ⟨d, hd, (rtDb_key fk d (h d hd hpd)).symm.trans hkk, x, hx,
        (rtRtn_key fk d (h d hd hpd) x hx).symm.trans hxk, (mem_toSlice _ _).1 hp⟩
    · rintro ⟨d, hd, hkk, x, hx, hxk, hp⟩
      have hxp : x.hasPrivileges = true := nonempty_of_mem hp
      have hpd : d.hasPrivileges = true := by
        simp only [NDb.hasPrivileges, Bool.or_eq_true, List.any_eq_true]
        exact Or.inr ⟨x, hx, hxp⟩
      exact ⟨rtDb fk d, (hr.2 _).2 ⟨d, hd, hpd, rfl⟩, (rtDb_key fk d (h d hd hpd)).trans hkk,
        rtRtn fk x, ((rtDb_routines fk d (hk.routines d hd) (h d hd hpd)).2 _).2 ⟨x, hx, rfl⟩,
        (rtRtn_key fk d (h d hd hpd) x hx).trans hxk, (mem_toSlice _ _).2 hp⟩

/-- Everything the authorization code can ask a privilege set is determined by the grants it holds. -/
theorem view_congr (a b : PrivSet) (h : ∀ g, a.holds g = b.holds g) : a.view = b.view := by
  have e : ∀ v w : View, v.hasGlobal = w.hasGlobal → v.hasDyn = w.hasDyn → v.hasDb = w.hasDb → v.hasTbl = w.hasTbl →
      v.hasRtn = w.hasRtn → v.globalNone = w.globalNone → v.dbNone = w.dbNone → v.dbAny = w.dbAny →
      v.tblAny = w.tblAny → v = w := by
    intro v w h1 h2 h3 h4 h5 h6 h7 h8 h9
    cases v; cases w; simp_all
  apply e
  · funext p; exact h (.glob p)
  · funext n; exact h (.dyn (lower n))
  · funext d p; exact h (.db (lower d) p)
  · funext d t p; exact h (.tbl (lower d) (lower t) p)
  · funext d r b' p; exact h (.rtn (lower d) (lower r) b' p)
  · apply bool_eq_of_iff
    rw [PrivSet.globalNone_iff, PrivSet.globalNone_iff]
    simp only [h]
  · funext d
    apply bool_eq_of_iff
    rw [PrivSet.dbNone_iff, PrivSet.dbNone_iff]
    simp only [h]
  · funext d
    apply bool_eq_of_iff
    rw [PrivSet.dbAny_iff, PrivSet.dbAny_iff]
    simp only [h]
  · funext d t
    apply bool_eq_of_iff
    rw [PrivSet.tblAny_iff, PrivSet.tblAny_iff]
    simp only [h]

/-! ## `GetUser` as a cascade of `find?` -/

/-- The account `GetUser` returns (rather than its position). -/
def getUserKey (keys : List (String × String)) (user host : String) (roleSearch : Bool) : Option (String × String) :=
  (getUserIdx keys user host roleSearch).bind (fun i => keys[i]?)

theorem findIdx_some (P : String × String → Bool) (l : List (String × String)) (i : Nat)
    (h : findIdx P l = some i) : ∃ k, l[i]? = some k ∧ l.find? P = some k := by
  induction l generalizing i with
  | nil => simp [findIdx] at h
  | cons a l ih =>
    simp only [findIdx] at h
    by_cases hp : P a = true
    · simp only [hp, if_true, Option.some.injEq] at h
      subst h
      exact ⟨a, by simp, by simp [List.find?, hp]⟩
    · simp only [hp, Bool.false_eq_true, if_false, Option.map_eq_some_iff] at h
      obtain ⟨j, hj, rfl⟩ := h
      obtain ⟨k, hk1, hk2⟩ := ih j hj
      exact ⟨k, by simpa using hk1, by simp [List.find?, hp, hk2]⟩

theorem findIdx_none (P : String × String → Bool) (l : List (String × String))
    (h : findIdx P l = none) : l.find? P = none := by
  induction l with
  | nil => rfl
  | cons a l ih =>
    simp only [findIdx] at h
    by_cases hp : P a = true
    · simp [hp] at h
    · simp only [hp, Bool.false_eq_true, if_false, Option.map_eq_none_iff] at h
      simp [List.find?, hp, ih h]

/-- `find?` as a cascade: this is what `GetUser` computes. -/
theorem getUserKey_eq (keys : List (String × String)) (user host : String) (rs : Bool) :
    getUserKey keys user host rs =
      ((keys.find? (fun k => decide (k.2 = normHost host ∧ k.1 = user))).or
        ((keys.find? (fun k => k.1 = user && hostMatches (normHost host) host k.2 rs)).or
          (keys.find? (fun k => k.1 = "" && hostMatches (normHost host) host k.2 rs)))) := by
  simp only [getUserKey, getUserIdx]
  cases h1 : findIdx (fun k => decide (k.2 = normHost host ∧ k.1 = user)) keys with
  | some i =>
    obtain ⟨k, hk1, hk2⟩ := findIdx_some _ _ _ h1
    rw [hk2]; simp [hk1]
  | none =>
    rw [findIdx_none _ _ h1]
    cases h2 : findIdx (fun k => k.1 = user && hostMatches (normHost host) host k.2 rs) keys with
    | some i =>
      obtain ⟨k, hk1, hk2⟩ := findIdx_some _ _ _ h2
      rw [hk2]; simp [hk1]
    | none =>
      rw [findIdx_none _ _ h2]
      cases h3 : findIdx (fun k => k.1 = "" && hostMatches (normHost host) host k.2 rs) keys with
      | some i =>
        obtain ⟨k, hk1, hk2⟩ := findIdx_some _ _ _ h3
        rw [hk2]; simp [hk1]
      | none =>
        rw [findIdx_none _ _ h3]
        simp

theorem perm_eq_of_length_le_one {α : Type} {l l' : List α} (h : l.Perm l') (hl : l.length ≤ 1) : l = l' := by
  match l, hl with
  | [], _ => exact (List.Perm.nil_eq h)
  | [a], _ => exact List.singleton_perm.1 h

theorem find?_eq_head?_filter {α : Type} (P : α → Bool) (l : List α) : l.find? P = (l.filter P).head? :=
  List.head?_filter.symm

/-- `find?` does not depend on the order when at most one element qualifies. -/
theorem find?_perm {α : Type} (P : α → Bool) {l l' : List α} (h : l.Perm l') (hc : (l.filter P).length ≤ 1) :
    l.find? P = l'.find? P := by
  rw [find?_eq_head?_filter, find?_eq_head?_filter, perm_eq_of_length_le_one (h.filter P) hc]

theorem filter_exact_le_one (keys : List (String × String)) (hn : keys.Nodup) (k0 : String × String) :
    (keys.filter (fun k => decide (k.2 = k0.2 ∧ k.1 = k0.1))).length ≤ 1 := by
  induction keys with
  | nil => simp
  | cons a l ih =>
    simp only [List.nodup_cons] at hn
    by_cases ha : a.2 = k0.2 ∧ a.1 = k0.1
    · have hz : l.filter (fun k => decide (k.2 = k0.2 ∧ k.1 = k0.1)) = [] := by
        apply List.filter_eq_nil_iff.2
        intro x hx
        simp only [decide_eq_true_eq]
        intro hx2
        have : x = a := Prod.ext (hx2.2.trans ha.2.symm) (hx2.1.trans ha.1.symm)
        exact hn.1 (this ▸ hx)
      rw [List.filter_cons_of_pos (by simpa using ha), hz]
      simp
    · rw [List.filter_cons_of_neg (by simpa using ha)]
      exact ih hn.2

/-- **The account a session runs as does not depend on the order of the accounts, unless the session is
ambiguous** (two or more accounts of its name, or of the anonymous name, accept its host). -/
theorem getUser_order_independent (keys keys' : List (String × String)) (hp : keys.Perm keys') (hn : keys.Nodup)
    (user host : String) (rs : Bool) (ha : ambiguous keys user host rs = false) :
    getUserKey keys' user host rs = getUserKey keys user host rs := by
  rw [getUserKey_eq, getUserKey_eq]
  have h1 := find?_perm (fun k => decide (k.2 = normHost host ∧ k.1 = user)) hp
    (filter_exact_le_one keys hn (user, normHost host))
  rw [← h1]
  cases hx : keys.find? (fun k => decide (k.2 = normHost host ∧ k.1 = user)) with
  | some k => simp
  | none =>
    simp only [Option.none_or]
    -- no exact match: the counts are bounded
    have hex : keys.any (fun k => decide (k.2 = normHost host ∧ k.1 = user)) = false := by
      rw [List.find?_eq_none] at hx
      rw [List.any_eq_false]
      exact hx
    simp only [ambiguous, hex, Bool.not_false, Bool.true_and, Bool.or_eq_false_iff, decide_eq_false_iff_not,
      Bool.and_eq_false_iff, Nat.not_le] at ha
    have h2 := find?_perm (fun k => k.1 = user && hostMatches (normHost host) host k.2 rs) hp
      (by have := ha.1; simp only [matchCount] at this; omega)
    rw [← h2]
    cases hy : keys.find? (fun k => k.1 = user && hostMatches (normHost host) host k.2 rs) with
    | some k => simp
    | none =>
      simp only [Option.none_or]
      have hc0 : matchCount keys user host rs = 0 := by
        simp only [matchCount]
        rw [List.find?_eq_none] at hy
        rw [List.length_eq_zero_iff, List.filter_eq_nil_iff]
        exact hy
      have h3 := find?_perm (fun k => k.1 = "" && hostMatches (normHost host) host k.2 rs) hp
        (by
          rcases ha.2 with h | h
          · exact absurd hc0 h
          · simp only [matchCount] at h; omega)
      exact h3.symm


end Gms.PrivSerial
