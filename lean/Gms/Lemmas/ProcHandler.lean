/-
C24 — lemmas about the error path (`Gms/Model/ProcHandler.lean`).

* `exitScanAux_balanced`, `compileH_balanced`, `exit_scan_finds_block_end` — for ALL code: the EXIT
  scan of `handleError`, started at the handler's DECLARE op, stops exactly at the `ScopeEnd` of the
  block that declared the handler, whatever (scope-balanced) code — nested blocks included — lies
  between; code emitted by `ConvertStmt` is scope-balanced.
* `handleError_exit_independent_of_failing_op` — the counter an EXIT handler resumes at does not
  depend on which op raised the error.
* `spec_exit_skips_rest_of_declaring_block`, `spec_continue_resumes_in_nested_block` — the Spec on
  the shape of the class: an error raised in a nested block under an EXIT handler of the enclosing
  block completes the *enclosing* block (for all statements behind the failing one and behind the
  nested block); under a CONTINUE handler the statement behind the failing one runs next.
-/
import Gms.Model.ProcHandler
namespace Gms.ProcH
open Gms.ProcLang

/-- Scope depth after running over `ops` starting at depth `d`; `none` if it would drop below 0. -/
def depthAfter : List HOp → Nat → Option Nat
  | [], d => some d
  | .scopeBegin _ :: r, d => depthAfter r (d + 1)
  | .scopeEnd _ :: r, d => if d = 0 then none else depthAfter r (d - 1)
  | .declare _ _ :: r, d => depthAfter r d
  | .handler _ _ _ _ :: r, d => depthAfter r d
  | .set _ _ :: r, d => depthAfter r d
  | .exec _ :: r, d => depthAfter r d
  | .ifz _ _ :: r, d => depthAfter r d
  | .goto _ :: r, d => depthAfter r d
  | .exception :: r, d => depthAfter r d
  | .signal :: r, d => depthAfter r d

theorem depthAfter_append (a b : List HOp) : ∀ d,
    depthAfter (a ++ b) d = (depthAfter a d).bind (depthAfter b) := by
  induction a with
  | nil => intro d; rfl
  | cons op r ih =>
    intro d
    cases op <;> simp only [List.cons_append, depthAfter, ih]
    split <;> simp

/-- The EXIT scan passes over code that keeps the depth at or above its starting level. -/
theorem exitScanAux_balanced (body tl : List HOp) : ∀ (d d' r i : Nat),
    depthAfter body d = some d' →
    exitScanAux (body ++ tl) (r + 1 + d) i = exitScanAux tl (r + 1 + d') (i + body.length) := by
  induction body with
  | nil => intro d d' r i h; simp [depthAfter] at h; subst h; simp
  | cons op rest ih =>
    intro d d' r i h
    have hne : ¬ (r + 1 + d = 0) := by omega
    cases op with
    | scopeBegin k =>
      simp only [depthAfter] at h
      have := ih (d + 1) d' r (i + 1) h
      simp only [List.cons_append, exitScanAux, hne, if_false, List.length_cons]
      rw [show r + 1 + d + 1 = r + 1 + (d + 1) by omega, this]
      congr 1; omega
    | scopeEnd k =>
      simp only [depthAfter] at h
      split at h
      · cases h
      · rename_i hd
        have := ih (d - 1) d' r (i + 1) h
        simp only [List.cons_append, exitScanAux, hne, if_false, List.length_cons]
        rw [show r + 1 + d - 1 = r + 1 + (d - 1) by omega, this]
        congr 1; omega
    | _ =>
      simp only [depthAfter] at h
      have := ih d d' r (i + 1) h
      simp only [List.cons_append, exitScanAux, hne, if_false, List.length_cons]
      rw [this]
      congr 1; omega

/-- Code emitted by `ConvertStmt` is scope-balanced. -/
theorem compileH_balanced : ∀ (s : HStmt) (base d : Nat), depthAfter (compileH base s) d = some d := by
  intro s
  induction s with
  | seq a b iha ihb =>
    intro base d
    simp only [compileH, depthAfter_append, iha, Option.bind_some, ihb]
  | block b ih =>
    intro base d
    simp only [compileH, depthAfter, depthAfter_append, ih, Option.bind_some]
    simp
  | ite c t e iht ihe =>
    intro base d
    simp only [compileH, depthAfter, depthAfter_append, iht, ihe, Option.bind_some, List.append_assoc,
      List.cons_append, List.nil_append]
  | «while» c b ih =>
    intro base d
    simp only [compileH, depthAfter, depthAfter_append, ih, Option.bind_some]
  | _ => intro base d; simp [compileH, depthAfter]

/-- **The EXIT scan finds the end of the declaring block.** For every op list of the form
`A ++ handler :: Q ++ scopeEnd :: B` with `Q` scope-balanced (everything between the handler's
DECLARE and the `END` of its block: the rest of the block's statements, nested blocks included),
the scan started at the handler's counter returns the index of that `ScopeEnd`. -/
theorem exit_scan_finds_block_end (A Q B : List HOp) (ex nf : Bool) (x : Name) (e : Expr) (j : Int)
    (hQ : depthAfter Q 0 = some 0) :
    exitScan (A ++ HOp.handler ex nf x e :: (Q ++ HOp.scopeEnd j :: B)) A.length = A.length + 1 + Q.length := by
  unfold exitScan
  rw [List.drop_left']
  · simp only [exitScanAux, Nat.one_ne_zero, if_false]
    have := exitScanAux_balanced Q (HOp.scopeEnd j :: B) 0 0 0 (A.length + 1) hQ
    simp only [Nat.zero_add, Nat.add_zero] at this
    rw [this]
    cases B <;> simp [exitScanAux]
  · rfl

/-- … in particular in the code of a block `BEGIN pre; DECLARE … HANDLER …; post END` compiled at
any position, with arbitrary statements `pre`, `post`: the scan returns the index of the block's own
`ScopeEnd` (`base + 1 + |pre| + 1 + |post|`), however deeply `post` nests further blocks. -/
theorem exit_scan_compiled_block (base : Nat) (pre post : HStmt) (ex nf : Bool) (x : Name) (e : Expr)
    (A B : List HOp) (hA : A.length = base) :
    exitScan (A ++ compileH base (.block (.seq pre (.seq (.handler ex nf x e) post))) ++ B)
        (base + 1 + (compileH (base + 1) pre).length)
      = base + 1 + (compileH (base + 1) pre).length + 1 +
          (compileH (base + 1 + (compileH (base + 1) pre).length + 1) post).length := by
  have hQ := compileH_balanced post (base + 1 + (compileH (base + 1) pre).length + 1) 0
  have key := exit_scan_finds_block_end (A ++ HOp.scopeBegin ((base + 1 : Nat) : Int) :: compileH (base + 1) pre)
    (compileH (base + 1 + (compileH (base + 1) pre).length + 1) post) B ex nf x e
    ((base + 1 + ((compileH (base + 1) pre) ++ (HOp.handler ex nf x e ::
      compileH (base + 1 + (compileH (base + 1) pre).length + 1) post)).length + 1 : Nat) : Int) hQ
  simp only [List.length_append, List.length_cons, hA] at key
  simp only [compileH, List.length_cons, List.length_nil, List.append_assoc, List.cons_append, List.nil_append,
    List.length_append] at key ⊢
  rw [show base + 1 + (compileH (base + 1) pre).length = base + ((compileH (base + 1) pre).length + 1) by omega]
  rw [show base + ((compileH (base + 1) pre).length + 1) + 1 = base + 1 + (compileH (base + 1) pre).length + 1 by omega] at *
  exact key

/-- The counter an EXIT handler resumes at is a function of the handler alone: it does not depend on
the op that raised the error (nor on the error). -/
theorem handleError_exit_independent_of_failing_op (ops : List HOp) (c c' code code' : Nat) (σ σ' : HStore)
    (h : Hnd) (hm : matchingHandler σ.stack = some h) (hx : h.exit = true) (ha : σ.assign h.x h.e = some σ') :
    handleError ops c code σ = .running ⟨(exitScan ops h.counter : Nat), σ'⟩ ∧
    handleError ops c code σ = handleError ops c' code' σ := by
  simp [handleError, hm, hx, ha]

/-! ### The Spec on the shape of the class -/

/-- **Spec, EXIT.** `BEGIN DECLARE EXIT HANDLER FOR SQLEXCEPTION SET x = e; BEGIN SIGNAL …; a END; b END`:
for all statements `a` (behind the failing statement) and `b` (behind the nested block), all stores
and all `x`, `e`: the handler statement runs in the scope of the outer block and the *outer* block
is complete — neither `a` nor `b` runs. -/
theorem spec_exit_skips_rest_of_declaring_block (a b : HStmt) (x : Name) (e : Expr) (σ σ2 : HStore) (n : Nat)
    (h2 : ({ σ with stack := { vars := [], hs := [⟨true, false, x, e, 0⟩] } :: σ.stack } : HStore).assign x e = some σ2) :
    execH (n + 6) (.block (.seq (.handler true false x e) (.seq (.block (.seq .signal a)) b))) σ
      = some (.normal, σ2.pop) := by
  have hlen : σ2.stack.length = σ.stack.length + 1 := by
    unfold HStore.assign at h2
    split at h2
    · cases h2
    · rename_i v hv
      unfold HStore.set at h2
      split at h2
      · rename_i st hst
        cases h2
        have : ∀ (l l' : List HScope) , setH x v l = some l' → l'.length = l.length := by
          intro l
          induction l with
          | nil => intro l' h; simp [setH] at h
          | cons s r ih =>
            intro l' h
            simp only [setH] at h
            split at h
            · cases h; rfl
            · cases hr : setH x v r with
              | none => simp [hr] at h
              | some r' => simp [hr] at h; subst h; simp [ih r' hr]
        simpa using this _ _ hst
      · split at h2
        · cases h2; rfl
        · cases h2
  simp only [execH, HStore.push, HStore.addHandler, HScope.empty, List.nil_append, raise, findHandler,
    List.find?, Bool.not_false, h2, List.length_cons, List.cons_append, List.nil_append, if_true,
    HStore.pop, List.tail_cons]
  simp

/-- **Spec, CONTINUE.** Same shape under a CONTINUE handler: the statement `a` behind the failing one,
in the nested block, runs next — on the store the handler statement left, with the nested scope back
on top (`ra` is its result) — and the two blocks then complete in the ordinary way. -/
theorem spec_continue_resumes_in_nested_block (a : HStmt) (x : Name) (e : Expr) (σ σ2 : HStore) (n : Nat)
    (sig : HSig) (σ3 : HStore)
    (h2 : ({ σ with stack := { vars := [], hs := [⟨false, false, x, e, 0⟩] } :: σ.stack } : HStore).assign x e = some σ2)
    (hra : execH (n + 1) a { σ2 with stack := HScope.empty :: σ2.stack } = some (sig, σ3))
    (hsig : ∀ d, sig ≠ .exit d) :
    execH (n + 5) (.block (.seq (.handler false false x e) (.block (.seq .signal a)))) σ
      = some (sig, σ3.pop.pop) := by
  have step : execH (n + 2) (.seq .signal a)
      { σ with stack := HScope.empty :: { vars := [], hs := [⟨false, false, x, e, 0⟩] } :: σ.stack }
      = some (sig, σ3) := by
    rw [execH]
    rw [show execH (n + 1) HStmt.signal
        { σ with stack := HScope.empty :: { vars := [], hs := [⟨false, false, x, e, 0⟩] } :: σ.stack }
        = some (.normal, { σ2 with stack := HScope.empty :: σ2.stack }) by
      simp [execH, raise, findHandler, HScope.empty, h2]]
    simpa using hra
  rw [execH]
  rw [show execH (n + 4) (.seq (.handler false false x e) (.block (.seq .signal a))) σ.push
      = some (sig, σ3.pop) by
    rw [execH]
    rw [show execH (n + 3) (.handler false false x e) σ.push
        = some (.normal, { σ with stack := { vars := [], hs := [⟨false, false, x, e, 0⟩] } :: σ.stack }) by
      simp [execH, HStore.push, HStore.addHandler, HScope.empty]]
    dsimp only
    rw [execH]; dsimp only [HStore.push]
    rw [step]
    cases sig <;> simp_all]
  cases sig <;> simp_all

end Gms.ProcH
