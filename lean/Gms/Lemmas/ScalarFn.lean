/-
C34 — helper lemmas about Gms/Model/ScalarFn.lean (imported by Gms/Props/C34.lean).

Strings range over *all* well-formed UTF-8 strings, written `enc rs` for an arbitrary list `rs` of
Unicode scalar values (`Scalars rs`); byte strings range over all lists of bytes (`IsBytes`).
-/
import Gms.Model.ScalarFn
import Gms.Lemmas.Utf8

namespace Gms.ScalarFn
open Gms.Utf8

abbrev Scalars (rs : List Nat) : Prop := ∀ r ∈ rs, isScalar r = true
abbrev IsBytes (b : Bytes) : Prop := ∀ x ∈ b, x < 256
abbrev enc := encodeRunes

theorem longText_enc (rs : List Nat) (h : Scalars rs) : longText (enc rs) = .ok (enc rs) := by
  simp [longText, valid_encode rs h]

/-! ## CHAR_LENGTH -/

theorem charLenAux_encodeRune (r : Nat) (h : isScalar r = true) (t : Bytes) :
    charLenAux 0 (encodeRune r ++ t) = (charLenAux 0 t).map (· + 1) := by
  rcases encodeRune_cases r h with ⟨h1, e⟩ | ⟨h1, h2, e⟩ | ⟨h1, h2, h3, e⟩ | ⟨h1, h2, e⟩
  · have ne : ¬ r = runeError := by unfold runeError; omega
    rw [e]; simp [charLenAux, decodeRune1_ascii r h1, ne]
  · rw [e]; simp [charLenAux, decodeRune1_two r h1 h2]
  · rw [e]; simp [charLenAux, decodeRune1_three r h1 h2 h3]
  · rw [e]; simp [charLenAux, decodeRune1_four r h1 h2]

theorem charLen_enc (rs : List Nat) (h : Scalars rs) : charLenAux 0 (enc rs) = some rs.length := by
  induction rs with
  | nil => rfl
  | cons r rs ih =>
    have hr := h r (by simp)
    have ht : Scalars rs := fun x hx => h x (by simp [hx])
    simp only [enc, encodeRunes] at ih ⊢
    rw [charLenAux_encodeRune r hr, ih ht]
    simp

/-! ## Prefix search -/

theorem isPrefix_iff (p l : List Nat) : isPrefix p l = true ↔ l.take p.length = p := by
  induction p generalizing l with
  | nil => simp [isPrefix]
  | cons a p ih =>
    cases l with
    | nil => simp [isPrefix]
    | cons b l =>
      simp only [isPrefix, Bool.and_eq_true, decide_eq_true_eq, List.length_cons, List.take_succ_cons,
        List.cons.injEq, ih]
      constructor
      · rintro ⟨rfl, h⟩; exact ⟨rfl, h⟩
      · rintro ⟨rfl, h⟩; exact ⟨rfl, h⟩

/-- `strings.Index` is sound: the needle occurs at the reported offset. -/
theorem indexOf_sound (sub l : List Nat) (i : Nat) (h : indexOf sub l = some i) :
    (l.drop i).take sub.length = sub := by
  induction l generalizing i with
  | nil =>
    simp only [indexOf] at h
    split at h
    · cases sub with
      | nil => simp
      | cons _ _ => simp at *
    · cases h
  | cons c cs ih =>
    simp only [indexOf] at h
    split at h
    · rename_i hp
      cases h
      simpa using (isPrefix_iff sub (c :: cs)).mp hp
    · cases hq : indexOf sub cs with
      | none => simp [hq] at h
      | some j =>
        simp [hq] at h
        subst h
        simpa using ih j hq

/-- …and it reports the first occurrence. -/
theorem indexOf_first (sub l : List Nat) (i : Nat) (h : indexOf sub l = some i) :
    ∀ j < i, (l.drop j).take sub.length ≠ sub := by
  induction l generalizing i with
  | nil =>
    simp only [indexOf] at h
    split at h
    · cases h; intro j hj; omega
    · cases h
  | cons c cs ih =>
    simp only [indexOf] at h
    split at h
    · cases h; intro j hj; omega
    · rename_i hp
      cases hq : indexOf sub cs with
      | none => simp [hq] at h
      | some k =>
        simp [hq] at h
        subst h
        intro j hj
        cases j with
        | zero =>
          intro e
          exact hp ((isPrefix_iff sub (c :: cs)).mpr (by simpa using e))
        | succ j => simpa using ih k hq j (by omega)

/-- `none` means there is no occurrence at all. -/
theorem indexOf_none (sub l : List Nat) (h : indexOf sub l = none) :
    ∀ j ≤ l.length, (l.drop j).take sub.length ≠ sub := by
  induction l with
  | nil =>
    simp only [indexOf] at h
    split at h
    · cases h
    · rename_i hne
      intro j _ e
      apply hne
      cases sub with
      | nil => rfl
      | cons _ _ => simp at e
  | cons c cs ih =>
    simp only [indexOf] at h
    split at h
    · cases h
    · rename_i hp
      cases hq : indexOf sub cs with
      | some k => simp [hq] at h
      | none =>
        intro j hj
        cases j with
        | zero =>
          intro e
          exact hp ((isPrefix_iff sub (c :: cs)).mpr (by simpa using e))
        | succ j => simpa using ih hq j (by simpa using hj)


theorem scalars_append {a b : List Nat} (ha : Scalars a) (hb : Scalars b) : Scalars (a ++ b) := by
  intro r hr; rcases List.mem_append.mp hr with h | h
  · exact ha r h
  · exact hb r h

theorem scalars_sub {a b : List Nat} (hb : Scalars b) (h : ∀ x ∈ a, x ∈ b) : Scalars a :=
  fun r hr => hb r (h r hr)

/-! ## SUBSTRING / LEFT / RIGHT on rune lists -/

/-- The clamp of the repaired `Substring.Eval` never changes the result: taking more than what is
left takes what is left. -/
theorem take_clamp (xs : List Nat) (s L : Int) (hs0 : 0 ≤ s) (hs : s < xs.length) :
    (xs.drop s.toNat).take (if L > (xs.length : Int) - s then (xs.length : Int) - s else L).toNat
      = (xs.drop s.toNat).take L.toNat := by
  by_cases h : L > (xs.length : Int) - s
  · rw [if_pos h, List.take_of_length_le (by simp; omega), List.take_of_length_le (by simp; omega)]
  · rw [if_neg h]

/-- SUBSTRING computes its specification for **every** start and length (no overflow guard: the
repaired clamp does not add). The only side conditions are those of the int64 representation:
`start` is an int64 and the string has fewer than 2^62 characters. -/
theorem substr_eq_spec (text : List Nat) (p : Int) (len? : Option Int)
    (hlen : (text.length : Int) < 4611686018427387904) (hp : minI64 ≤ p) :
    substrRunes text p len? = substrRunesSpec text p len? := by
  unfold substrRunes substrRunesSpec
  dsimp only
  generalize len?.getD (text.length : Int) = L
  by_cases hneg : p < 0
  · have hw1 : wrap64 ((text.length : Int) + p) = text.length + p := by
      unfold wrap64 two63 two64 minI64 at *; omega
    simp only [hneg, if_true, hw1]
    by_cases hc : (text.length : Int) + p < 0 ∨ (text.length : Int) + p ≥ text.length ∨ L ≤ 0
    · rw [if_pos hc, if_pos hc]
    · rw [if_neg hc, if_neg hc]
      exact take_clamp text _ L (by omega) (by omega)
  · simp only [hneg, if_false]
    by_cases hc : p - 1 < 0 ∨ p - 1 ≥ (text.length : Int) ∨ L ≤ 0
    · rw [if_pos hc, if_pos hc]
    · rw [if_neg hc, if_neg hc]
      exact take_clamp text _ L (by omega) (by omega)

/-- The two-argument form from a non-negative position is `drop` (no side condition). -/
theorem substr_nowrap (text : List Nat) (p : Int) (hp : 0 ≤ p) :
    substrRunes text (p + 1) none = text.drop p.toNat := by
  unfold substrRunes
  simp only [Option.getD_none]
  have h1 : ¬ (p + 1 < 0) := by omega
  simp only [h1, if_false]
  by_cases hge : p ≥ text.length
  · have : p + 1 - 1 < 0 ∨ p + 1 - 1 ≥ (text.length : Int) ∨ (text.length : Int) ≤ 0 := by omega
    rw [if_pos this]
    have : text.length ≤ p.toNat := by omega
    simp [List.drop_eq_nil_of_le this]
  · have hc : ¬ (p + 1 - 1 < 0 ∨ p + 1 - 1 ≥ (text.length : Int) ∨ (text.length : Int) ≤ 0) := by omega
    rw [if_neg hc]
    have e1 : (p + 1 - 1).toNat = p.toNat := by congr 1; omega
    rw [take_clamp text _ _ (by omega) (by omega), e1]
    exact List.take_of_length_le (by simp)

/-! ## HEX / UNHEX -/

theorem digitVal_digitUpper (d : Nat) (h : d < 16) : digitVal (digitUpper d) = some d := by
  have : d = 0 ∨ d = 1 ∨ d = 2 ∨ d = 3 ∨ d = 4 ∨ d = 5 ∨ d = 6 ∨ d = 7 ∨ d = 8 ∨ d = 9 ∨ d = 10 ∨ d = 11
      ∨ d = 12 ∨ d = 13 ∨ d = 14 ∨ d = 15 := by omega
  rcases this with h | h | h | h | h | h | h | h | h | h | h | h | h | h | h | h <;> subst h <;> decide

theorem unhexPairs_hexUpper (b : Bytes) (h : IsBytes b) : unhexPairs (hexUpper b) = some b := by
  induction b with
  | nil => rfl
  | cons x b ih =>
    have hx : x < 256 := h x (by simp)
    have hb : IsBytes b := fun y hy => h y (by simp [hy])
    have e : hexUpper (x :: b) = digitUpper (x / 16) :: digitUpper (x % 16) :: hexUpper b := by
      simp [hexUpper]
    rw [e]
    simp only [unhexPairs]
    rw [digitVal_digitUpper _ (by omega), digitVal_digitUpper _ (by omega)]
    have ih' := ih hb
    simp only [hexUpper] at ih'
    simp only [hexUpper, ih']
    have : x / 16 < 16 ∧ x % 16 < 16 := by omega
    simp [this]
    omega

theorem digitUpper_lt (d : Nat) (h : d < 16) : digitUpper d < 0x80 := by
  unfold digitUpper; split <;> omega

theorem hexUpper_ascii (b : Bytes) (h : IsBytes b) : isAscii (hexUpper b) = true := by
  induction b with
  | nil => rfl
  | cons x b ih =>
    have hx : x < 256 := h x (by simp)
    have hb : IsBytes b := fun y hy => h y (by simp [hy])
    have e : hexUpper (x :: b) = digitUpper (x / 16) :: digitUpper (x % 16) :: hexUpper b := by
      simp [hexUpper]
    rw [e, isAscii_cons, isAscii_cons, ih hb]
    have h1 := digitUpper_lt (x / 16) (by omega)
    have h2 := digitUpper_lt (x % 16) (by omega)
    simp [h1, h2]

theorem hexUpper_length (b : Bytes) : (hexUpper b).length = 2 * b.length := by
  induction b with
  | nil => rfl
  | cons x b ih =>
    have e : hexUpper (x :: b) = digitUpper (x / 16) :: digitUpper (x % 16) :: hexUpper b := by
      simp [hexUpper]
    rw [e]; simp [ih]; omega

/-! ## Padding (generic in the element type: bytes for the Impl model, runes for the Spec) -/

theorem repeat_length (s : List Nat) (n : Nat) : (repeatBytes s n).length = n * s.length := by
  induction n with
  | zero => simp [repeatBytes]
  | succ n ih => simp [repeatBytes, ih]; rw [Nat.add_mul]; omega

theorem repeat_mem (s : List Nat) (n : Nat) : ∀ x ∈ repeatBytes s n, x ∈ s := by
  induction n with
  | zero => simp [repeatBytes]
  | succ n ih =>
    intro x hx
    simp only [repeatBytes, List.mem_append] at hx
    rcases hx with h | h
    · exact h
    · exact ih x h

/-- LPAD/RPAD deliver exactly `n` elements (unless the pad string is empty and needed). -/
theorem padImpl_length (left : Bool) (s p : List Nat) (n : Int) (hn : 0 ≤ n)
    (hp : p ≠ [] ∨ (s.length : Int) ≥ n) : (padImpl left s n p).length = n.toNat := by
  unfold padImpl
  by_cases h0 : n ≤ 0
  · have : n = 0 := by omega
    subst this; simp
  · rw [if_neg h0]
    by_cases h1 : (s.length : Int) ≥ n
    · rw [if_pos h1]; simp; omega
    · rw [if_neg h1]
      have hpne : p ≠ [] := by rcases hp with h | h; exact h; omega
      have hpe : p.isEmpty = false := by cases p; contradiction; rfl
      simp only [hpe, Bool.false_eq_true, if_false]
      have hpl : 0 < p.length := by cases p; contradiction; simp
      have hdm := Nat.div_add_mod (n.toNat - s.length) p.length
      have hml := Nat.mod_lt (n.toNat - s.length) hpl
      have hmul : (n.toNat - s.length) / p.length * p.length = p.length * ((n.toNat - s.length) / p.length) :=
        Nat.mul_comm _ _
      cases left
      · simp only [Bool.false_eq_true, if_false, List.length_drop, List.length_append, repeat_length,
          List.length_take]
        rw [Nat.min_eq_left (Nat.le_of_lt hml)]
        omega
      · simp only [if_true, List.length_take, List.length_append, repeat_length]
        rw [Nat.min_eq_left (Nat.le_of_lt hml)]
        omega

theorem padImpl_mem (left : Bool) (s p : List Nat) (n : Int) :
    ∀ x ∈ padImpl left s n p, x ∈ s ∨ x ∈ p := by
  intro x hx
  unfold padImpl at hx
  split at hx
  · simp at hx
  · split at hx
    · exact Or.inl (List.mem_of_mem_take hx)
    · split at hx
      · simp at hx
      · cases left
        · simp only [Bool.false_eq_true, if_false] at hx
          have hx := List.mem_of_mem_drop hx
          simp only [List.mem_append] at hx
          rcases hx with (h | h) | h
          · exact Or.inl h
          · exact Or.inr (repeat_mem _ _ x h)
          · exact Or.inr (List.mem_of_mem_take h)
        · simp only [if_true] at hx
          have hx := List.mem_of_mem_take hx
          simp only [List.mem_append] at hx
          rcases hx with (h | h) | h
          · exact Or.inr (repeat_mem _ _ x h)
          · exact Or.inr (List.mem_of_mem_take h)
          · exact Or.inl h

/-! ## Digits -/

theorem foldl_digits_shift (b a : Nat) (ys : List Nat) :
    ys.foldl (fun a d => a * b + d) a = a * b ^ ys.length + ys.foldl (fun a d => a * b + d) 0 := by
  induction ys generalizing a with
  | nil => simp
  | cons y ys ih =>
    simp only [List.foldl_cons, List.length_cons]
    rw [ih (a * b + y), ih (0 * b + y)]
    rw [Nat.pow_succ, Nat.add_mul, Nat.zero_mul, Nat.zero_add, Nat.mul_assoc, Nat.mul_comm (b ^ ys.length) b]
    omega

theorem ofDigits_append (b : Nat) (xs ys : List Nat) :
    ofDigits b (xs ++ ys) = ofDigits b xs * b ^ ys.length + ofDigits b ys := by
  unfold ofDigits
  rw [List.foldl_append, foldl_digits_shift]

theorem toDigitsAux_spec (b : Nat) (hb : 2 ≤ b) (f n : Nat) (acc : List Nat) (hf : n < f) :
    ofDigits b (toDigitsAux b f n acc) = n * b ^ acc.length + ofDigits b acc := by
  induction f generalizing n acc with
  | zero => omega
  | succ f ih =>
    simp only [toDigitsAux]
    split
    · rename_i hlt
      have : n :: acc = [n] ++ acc := rfl
      rw [this, ofDigits_append]
      simp [ofDigits]
    · rename_i hge
      have hdiv : n / b < f := by
        have : n / b < n := Nat.div_lt_self (by omega) (by omega)
        omega
      rw [ih (n / b) (n % b :: acc) hdiv]
      have : n % b :: acc = [n % b] ++ acc := rfl
      rw [this, ofDigits_append]
      simp only [ofDigits, List.foldl_cons, List.foldl_nil, List.length_append, List.length_singleton]
      have h1 := Nat.div_add_mod n b
      have e : b ^ (1 + acc.length) = b * b ^ acc.length := by rw [Nat.add_comm, Nat.pow_succ, Nat.mul_comm]
      rw [e, ← Nat.mul_assoc]
      have : n / b * b = b * (n / b) := Nat.mul_comm _ _
      rw [this, Nat.zero_mul, Nat.zero_add]
      rw [← Nat.add_assoc, ← Nat.add_mul, h1]

/-- Reading back the digits of `n` in base `b ≥ 2` gives `n`. -/
theorem ofDigits_toDigits (b n : Nat) (hb : 2 ≤ b) : ofDigits b (toDigits b n) = n := by
  unfold toDigits
  rw [toDigitsAux_spec b hb (n + 1) n [] (by omega)]
  simp [ofDigits]

theorem toDigitsAux_lt (b : Nat) (hb : 2 ≤ b) (f n : Nat) (acc : List Nat) (hacc : ∀ d ∈ acc, d < b) (hf : n < f) :
    ∀ d ∈ toDigitsAux b f n acc, d < b := by
  induction f generalizing n acc with
  | zero => omega
  | succ f ih =>
    simp only [toDigitsAux]
    split
    · rename_i hlt
      intro d hd
      rcases List.mem_cons.mp hd with rfl | h
      · exact hlt
      · exact hacc d h
    · have hdiv : n / b < f := by
        have : n / b < n := Nat.div_lt_self (by omega) (by omega)
        omega
      apply ih (n / b) (n % b :: acc) _ hdiv
      intro d hd
      rcases List.mem_cons.mp hd with rfl | h
      · exact Nat.mod_lt _ (by omega)
      · exact hacc d h

theorem toDigits_lt (b n : Nat) (hb : 2 ≤ b) : ∀ d ∈ toDigits b n, d < b :=
  toDigitsAux_lt b hb (n + 1) n [] (by simp) (by omega)

theorem digitVal_digitLower (d : Nat) (h : d < 36) : digitVal (digitLower d) = some d := by
  unfold digitLower digitVal
  by_cases h10 : d < 10
  · simp [h10]; omega
  · simp [h10]
    have a : ¬ (48 ≤ 87 + d ∧ 87 + d ≤ 57) := by omega
    have b : 97 ≤ 87 + d ∧ 87 + d ≤ 122 := by omega
    simp [a, b]

/-- The prefix loop of CONV reads a digit string back exactly, as long as no prefix overflows. -/
theorem parsePrefix_digits (b : Nat) (hb36 : b ≤ 36) (ds : List Nat) (hds : ∀ d ∈ ds, d < b) (acc : Nat)
    (hfit : ((acc * b ^ ds.length + ofDigits b ds : Nat) : Int) < two64) :
    parsePrefix b (ds.map digitLower) acc = acc * b ^ ds.length + ofDigits b ds := by
  induction ds generalizing acc with
  | nil => simp [parsePrefix, ofDigits]
  | cons d ds ih =>
    have hd : d < b := hds d (by simp)
    have hrest : ∀ x ∈ ds, x < b := fun x hx => hds x (by simp [hx])
    simp only [List.map_cons, parsePrefix]
    rw [digitVal_digitLower d (by omega)]
    simp only [hd, if_true]
    have hsplit : ofDigits b (d :: ds) = d * b ^ ds.length + ofDigits b ds := by
      have : d :: ds = [d] ++ ds := rfl
      rw [this, ofDigits_append]; simp [ofDigits]
    have heq : acc * b ^ (d :: ds).length + ofDigits b (d :: ds)
        = (acc * b + d) * b ^ ds.length + ofDigits b ds := by
      rw [hsplit, List.length_cons, Nat.pow_succ, Nat.add_mul, Nat.mul_assoc, Nat.mul_comm (b ^ ds.length) b]
      omega
    rw [heq] at hfit ⊢
    have hpow : 0 < b ^ ds.length := Nat.pow_pos (by omega)
    have hsmall : ¬ (((acc * b + d : Nat) : Int) ≥ two64) := by
      have : acc * b + d ≤ (acc * b + d) * b ^ ds.length := Nat.le_mul_of_pos_right _ hpow
      unfold two64 at *
      omega
    rw [if_neg hsmall]
    exact ih hrest (acc * b + d) hfit

/-! ## BASE64 -/

theorem b64Val_b64Char : ∀ v, v < 64 → b64Val (b64Char v) = some v ∧ b64Char v ≠ 61 ∧ b64Char v ≠ 10 ∧ b64Char v ≠ 13 := by
  decide

theorem b64DecodeQ_group (x y z w a b c d : Nat) (rest r : Bytes) (hz : z ≠ 61) (hw : w ≠ 61)
    (hx : b64Val x = some a) (hy : b64Val y = some b) (hz' : b64Val z = some c) (hw' : b64Val w = some d)
    (hr : b64DecodeQ rest = some r) :
    b64DecodeQ (x :: y :: z :: w :: rest) =
      some ((a * 4 + b / 16) :: (b % 16 * 16 + c / 4) :: (c % 4 * 64 + d) :: r) := by
  rw [b64DecodeQ]
  · simp [hx, hy, hz', hw', hr]
  · intro h _ _; exact hz h
  · intro h _; exact hw h

theorem b64_roundtrip (bs : Bytes) (h : IsBytes bs) : b64DecodeQ (b64Encode bs) = some bs := by
  fun_induction b64Encode bs with
  | case1 => rfl
  | case2 a =>
    have ha : a < 256 := h a (by simp)
    have h1 := b64Val_b64Char (a / 4) (by omega)
    have h2 := b64Val_b64Char (a % 4 * 16) (by omega)
    rw [b64DecodeQ]
    simp [h1.1, h2.1]
    omega
  | case3 a b =>
    have ha : a < 256 := h a (by simp)
    have hb : b < 256 := h b (by simp)
    have h1 := b64Val_b64Char (a / 4) (by omega)
    have h2 := b64Val_b64Char (a % 4 * 16 + b / 16) (by omega)
    have h3 := b64Val_b64Char (b % 16 * 4) (by omega)
    rw [b64DecodeQ]
    · simp [h1.1, h2.1, h3.1]
      omega
    · intro e; exact h3.2.1 e
  | case4 a b c rest ih =>
    have ha : a < 256 := h a (by simp)
    have hb : b < 256 := h b (by simp)
    have hc : c < 256 := h c (by simp)
    have hr : IsBytes rest := fun x hx => h x (by simp [hx])
    have h1 := b64Val_b64Char (a / 4) (by omega)
    have h2 := b64Val_b64Char (a % 4 * 16 + b / 16) (by omega)
    have h3 := b64Val_b64Char (b % 16 * 4 + c / 64) (by omega)
    have h4 := b64Val_b64Char (c % 64) (by omega)
    rw [b64DecodeQ_group _ _ _ _ _ _ _ _ _ _ h3.2.1 h4.2.1 h1.1 h2.1 h3.1 h4.1 (ih hr)]
    congr 2
    · omega
    · congr 1
      · omega
      · congr 1; omega

theorem b64Encode_chars (bs : Bytes) (h : IsBytes bs) : ∀ x ∈ b64Encode bs, x ≠ 10 ∧ x ≠ 13 := by
  fun_induction b64Encode bs with
  | case1 => simp
  | case2 a =>
    have ha : a < 256 := h a (by simp)
    have h1 := b64Val_b64Char (a / 4) (by omega)
    have h2 := b64Val_b64Char (a % 4 * 16) (by omega)
    intro x hx
    simp only [List.mem_cons, List.mem_nil_iff, or_false] at hx
    rcases hx with rfl | rfl | rfl | rfl
    · exact ⟨h1.2.2.1, h1.2.2.2⟩
    · exact ⟨h2.2.2.1, h2.2.2.2⟩
    · decide
    · decide
  | case3 a b =>
    have ha : a < 256 := h a (by simp)
    have hb : b < 256 := h b (by simp)
    have h1 := b64Val_b64Char (a / 4) (by omega)
    have h2 := b64Val_b64Char (a % 4 * 16 + b / 16) (by omega)
    have h3 := b64Val_b64Char (b % 16 * 4) (by omega)
    intro x hx
    simp only [List.mem_cons, List.mem_nil_iff, or_false] at hx
    rcases hx with rfl | rfl | rfl | rfl
    · exact ⟨h1.2.2.1, h1.2.2.2⟩
    · exact ⟨h2.2.2.1, h2.2.2.2⟩
    · exact ⟨h3.2.2.1, h3.2.2.2⟩
    · decide
  | case4 a b c rest ih =>
    have ha : a < 256 := h a (by simp)
    have hb : b < 256 := h b (by simp)
    have hc : c < 256 := h c (by simp)
    have hr : IsBytes rest := fun x hx => h x (by simp [hx])
    have h1 := b64Val_b64Char (a / 4) (by omega)
    have h2 := b64Val_b64Char (a % 4 * 16 + b / 16) (by omega)
    have h3 := b64Val_b64Char (b % 16 * 4 + c / 64) (by omega)
    have h4 := b64Val_b64Char (c % 64) (by omega)
    intro x hx
    simp only [List.mem_cons] at hx
    rcases hx with rfl | rfl | rfl | rfl | hx
    · exact ⟨h1.2.2.1, h1.2.2.2⟩
    · exact ⟨h2.2.2.1, h2.2.2.2⟩
    · exact ⟨h3.2.2.1, h3.2.2.2⟩
    · exact ⟨h4.2.2.1, h4.2.2.2⟩
    · exact ih hr x hx

theorem filter_splitLines (f : Nat) (s : Bytes) (hs : ∀ x ∈ s, x ≠ 10 ∧ x ≠ 13) :
    (splitLines f s).filter (fun c => c ≠ 10 ∧ c ≠ 13) = s := by
  induction f generalizing s with
  | zero =>
    simp only [splitLines]
    apply List.filter_eq_self.mpr
    intro x hx; simpa using hs x hx
  | succ f ih =>
    simp only [splitLines]
    split
    · apply List.filter_eq_self.mpr
      intro x hx; simpa using hs x hx
    · have h1 : ∀ x ∈ s.take 76, x ≠ 10 ∧ x ≠ 13 := fun x hx => hs x (List.mem_of_mem_take hx)
      have h2 : ∀ x ∈ s.drop 76, x ≠ 10 ∧ x ≠ 13 := fun x hx => hs x (List.mem_of_mem_drop hx)
      rw [List.filter_append, List.filter_cons]
      have : (List.filter (fun c => decide (c ≠ 10 ∧ c ≠ 13)) (s.take 76)) = s.take 76 := by
        apply List.filter_eq_self.mpr
        intro x hx; simpa using h1 x hx
      rw [this, ih _ h2]
      simp

/-- `FROM_BASE64(TO_BASE64(x)) = x` for every byte string, line breaks included. -/
theorem fromBase64_toBase64_bytes (bs : Bytes) (h : IsBytes bs) : fromBase64 (toBase64 bs) = some bs := by
  unfold fromBase64 toBase64
  simp only
  rw [filter_splitLines _ _ (b64Encode_chars bs h), b64_roundtrip bs h]


/-! ## Dispatch of `impl` -/

theorem impl_length (a : List Val) : impl "length" a = fLength a := rfl
theorem impl_char_length (a : List Val) : impl "char_length" a = fCharLength a := rfl
theorem impl_concat (a : List Val) : impl "concat" a = fConcat a := rfl
theorem impl_substring (a : List Val) : impl "substring" a = fSubstring a := rfl
theorem impl_left (a : List Val) : impl "left" a = fLeftRight false a := rfl
theorem impl_right (a : List Val) : impl "right" a = fLeftRight true a := rfl
theorem impl_instr (a : List Val) : impl "instr" a = fInstr a := rfl
theorem impl_locate (a : List Val) : impl "locate" a = fLocate a := rfl
theorem impl_reverse (a : List Val) : impl "reverse" a = fReverse a := rfl
theorem impl_repeat (a : List Val) : impl "repeat" a = fRepeat a := rfl
theorem impl_replace (a : List Val) : impl "replace" a = fReplace a := rfl
theorem impl_lpad (a : List Val) : impl "lpad" a = fPad true a := rfl
theorem impl_rpad (a : List Val) : impl "rpad" a = fPad false a := rfl
theorem impl_unhex (a : List Val) : impl "unhex" a = fUnhex a := rfl
theorem impl_hex (a : List Val) : impl "hex" a = fHex a := rfl
theorem impl_abs (a : List Val) : impl "abs" a = fAbs a := rfl
theorem impl_sign (a : List Val) : impl "sign" a = fSign a := rfl
theorem impl_round (a : List Val) : impl "round" a = fRound a := rfl
theorem impl_truncate (a : List Val) : impl "truncate" a = fTruncate a := rfl
theorem impl_bin (a : List Val) : impl "bin" a = fBin a := rfl
theorem impl_inet_ntoa (a : List Val) : impl "inet_ntoa" a = fInetNtoa a := rfl
theorem impl_inet_aton (a : List Val) : impl "inet_aton" a = fInetAton a := rfl
theorem impl_to_base64 (a : List Val) : impl "to_base64" a = fToBase64 a := rfl
theorem impl_from_base64 (a : List Val) : impl "from_base64" a = fFromBase64 a := rfl
theorem impl_conv (a : List Val) : impl "conv" a = fConv a := rfl

end Gms.ScalarFn
