/-
Helper lemmas for C30 (model: Gms/Model/RangeMap.lean). Core Lean only.
-/
import Gms.Model.RangeMap

namespace Gms.RangeMap

/-! ## Boxes -/

theorem contains_length : ∀ (a : Bounds) (x : List Nat), contains a x = true → a.length ≤ x.length
  | [], _, _ => by simp
  | (_, _) :: bs, [], h => by simp [contains] at h
  | (lo, hi) :: bs, d :: ds, h => by
    simp only [contains, Bool.and_eq_true] at h
    have := contains_length bs ds h.2
    simp; omega

theorem contains_append : ∀ (a : Bounds) (x y : List Nat),
    contains a x = true → contains a (x ++ y) = true
  | [], _, _, _ => by simp [contains]
  | (_, _) :: bs, [], _, h => by simp [contains] at h
  | (lo, hi) :: bs, d :: ds, y, h => by
    simp only [contains, Bool.and_eq_true, List.cons_append] at h ⊢
    exact ⟨h.1, contains_append bs ds y h.2⟩

theorem contains_take (a : Bounds) (x : List Nat) (n : Nat) (h : contains a (x.take n) = true) :
    contains a x = true := by
  have := contains_append a (x.take n) (x.drop n) h
  simpa using this

theorem disjoint_contains : ∀ (a b : Bounds) (z : List Nat),
    disjointB a b = true → contains a z = true → contains b z = true → False
  | [], _, _, h, _, _ => by simp [disjointB] at h
  | _ :: _, [], _, h, _, _ => by simp [disjointB] at h
  | (l1, h1) :: a, (l2, h2) :: b, [], _, hc, _ => by simp [contains] at hc
  | (l1, h1) :: a, (l2, h2) :: b, d :: ds, h, hc1, hc2 => by
    simp only [contains, Bool.and_eq_true, Bool.not_eq_true', Bool.or_eq_false_iff,
      decide_eq_false_iff_not] at hc1 hc2
    simp only [disjointB, Bool.or_eq_true, Nat.blt_eq] at h
    rcases h with (h | h) | h
    · omega
    · omega
    · exact disjoint_contains a b ds h hc1.2 hc2.2

theorem disjointB_symm : ∀ (a b : Bounds), disjointB a b = disjointB b a
  | [], [] => rfl
  | [], _ :: _ => rfl
  | _ :: _, [] => rfl
  | (l1, h1) :: a, (l2, h2) :: b => by
    simp only [disjointB, disjointB_symm a b]
    cases Nat.blt h1 l2 <;> cases Nat.blt h2 l1 <;> rfl

/-! ## Mixed radix -/

theorem card_pos : ∀ (bs : Bounds), 0 < card bs
  | [] => by simp [card]
  | (lo, hi) :: rest => by
    simp only [card]
    exact Nat.mul_pos (by omega) (card_pos rest)

theorem pv_length : ∀ (bs : Bounds), (pv bs).length = bs.length
  | [] => rfl
  | _ :: rest => by simp [pv, pv_length rest]

theorem div_mul_add (a c t : Nat) (hc : 0 < c) (ht : t < c) : (a * c + t) / c = a := by
  rw [Nat.add_comm, Nat.add_mul_div_right _ _ hc, Nat.div_eq_of_lt ht]; simp

theorem toIdx_lt : ∀ (bs : Bounds) (ds : List Nat), boundsOK bs = true → contains bs ds = true →
    toIdx bs (pv bs) ds < card bs
  | [], _, _, _ => by simp [toIdx, card]
  | (_, _) :: bs, [], _, h => by simp [contains] at h
  | (lo, hi) :: bs, d :: ds, hb, hc => by
    simp only [boundsOK, Bool.and_eq_true, Nat.ble_eq, Nat.blt_eq] at hb
    simp only [contains, Bool.and_eq_true, Bool.not_eq_true', Bool.or_eq_false_iff,
      decide_eq_false_iff_not] at hc
    have ih := toIdx_lt bs ds hb.2 hc.2
    simp only [pv, toIdx, card]
    have e : (d + 256 - lo) % 256 = d - lo := by omega
    rw [e]
    have h1 : (d - lo) * card bs + toIdx bs (pv bs) ds < (d - lo) * card bs + card bs := by omega
    have h2 : (d - lo) * card bs + card bs = (d - lo + 1) * card bs := by
      rw [Nat.add_mul]; simp
    have h3 : (d - lo + 1) * card bs ≤ (hi - lo + 1) * card bs :=
      Nat.mul_le_mul_right _ (by omega)
    omega

theorem fromIdx_toIdx : ∀ (bs : Bounds) (ds : List Nat), boundsOK bs = true →
    contains bs ds = true → ds.length = bs.length →
    fromIdx bs (pv bs) (toIdx bs (pv bs) ds) = ds
  | [], ds, _, _, hl => by
    simp at hl; simp [hl, fromIdx]
  | (_, _) :: bs, [], _, h, _ => by simp [contains] at h
  | (lo, hi) :: bs, d :: ds, hb, hc, hl => by
    simp only [boundsOK, Bool.and_eq_true, Nat.ble_eq, Nat.blt_eq] at hb
    simp only [contains, Bool.and_eq_true, Bool.not_eq_true', Bool.or_eq_false_iff,
      decide_eq_false_iff_not] at hc
    have hl' : ds.length = bs.length := by simpa using hl
    have ih := fromIdx_toIdx bs ds hb.2 hc.2 hl'
    have hlt := toIdx_lt bs ds hb.2 hc.2
    simp only [pv, toIdx, fromIdx]
    have e : (d + 256 - lo) % 256 = d - lo := by omega
    rw [e, div_mul_add _ _ _ (card_pos bs) hlt]
    have e2 : (lo + (d - lo) % 256) % 256 = d := by omega
    rw [e2]
    have e3 : (d - lo) * card bs + toIdx bs (pv bs) ds - (d - lo) * card bs = toIdx bs (pv bs) ds := by
      omega
    rw [e3, ih]

theorem fromIdx_spec : ∀ (bs : Bounds) (i : Nat), boundsOK bs = true → i < card bs →
    contains bs (fromIdx bs (pv bs) i) = true ∧ (fromIdx bs (pv bs) i).length = bs.length ∧
      toIdx bs (pv bs) (fromIdx bs (pv bs) i) = i
  | [], i, _, hi => by
    simp only [card] at hi
    simp [fromIdx, contains, toIdx]; omega
  | (lo, hi) :: bs, i, hb, hlt => by
    simp only [boundsOK, Bool.and_eq_true, Nat.ble_eq, Nat.blt_eq] at hb
    obtain ⟨⟨hlo, hhi⟩, hbs⟩ := hb
    simp only [card] at hlt
    have hc := card_pos bs
    have hd : i / card bs < hi - lo + 1 := (Nat.div_lt_iff_lt_mul hc).2 hlt
    have hdm := Nat.div_add_mod i (card bs)
    rw [Nat.mul_comm] at hdm
    have hm : i - i / card bs * card bs = i % card bs := by omega
    obtain ⟨ih1, ih2, ih3⟩ := fromIdx_spec bs (i % card bs) hbs (Nat.mod_lt _ hc)
    have e1 : (lo + i / card bs % 256) % 256 = lo + i / card bs := by
      generalize i / card bs = q at hd; omega
    have e2 : (lo + i / card bs + 256 - lo) % 256 = i / card bs := by
      generalize i / card bs = q at hd; omega
    simp only [pv, fromIdx, toIdx, contains, hm, List.length_cons, e1, e2, ih2, ih3, ih1]
    refine ⟨?_, trivial, hdm⟩
    simp only [Bool.and_true, Bool.not_eq_true', Bool.or_eq_false_iff, decide_eq_false_iff_not]
    generalize i / card bs = q at hd; omega

/-! ## Tables -/

theorem mem_getD_flatten {α : Type} : ∀ (l : List (List α)) (k : Nat) (e : α),
    e ∈ l.getD k [] → e ∈ l.flatten ∧ k < l.length
  | [], k, e, h => by simp at h
  | x :: xs, 0, e, h => by
    simp at h; simp [h]
  | x :: xs, k + 1, e, h => by
    have h' : e ∈ xs.getD k [] := by simpa using h
    have := mem_getD_flatten xs k e h'
    simp [this.1]; omega

theorem exists_getD_of_mem_flatten {α : Type} : ∀ (l : List (List α)) (e : α),
    e ∈ l.flatten → ∃ k, k < l.length ∧ e ∈ l.getD k []
  | [], e, h => by simp at h
  | x :: xs, e, h => by
    simp only [List.flatten_cons, List.mem_append] at h
    rcases h with h | h
    · exact ⟨0, by simp, by simpa using h⟩
    · obtain ⟨k, hk, hm⟩ := exists_getD_of_mem_flatten xs e h
      exact ⟨k + 1, by simp; omega, by simpa using hm⟩

theorem boundsEqB_eq : ∀ (a b : Bounds), boundsEqB a b = true → a = b
  | [], [], _ => rfl
  | [], _ :: _, h => by simp [boundsEqB] at h
  | _ :: _, [], h => by simp [boundsEqB] at h
  | (a, b) :: x, (c, d) :: y, h => by
    simp only [boundsEqB, Bool.and_eq_true] at h
    rw [Nat.eq_of_beq_eq_true h.1.1, Nat.eq_of_beq_eq_true h.1.2, boundsEqB_eq x y h.2]

theorem natsEqB_eq : ∀ (a b : List Nat), natsEqB a b = true → a = b
  | [], [], _ => rfl
  | [], _ :: _, h => by simp [natsEqB] at h
  | _ :: _, [], h => by simp [natsEqB] at h
  | a :: x, c :: y, h => by
    simp only [natsEqB, Bool.and_eq_true] at h
    rw [Nat.eq_of_beq_eq_true h.1, natsEqB_eq x y h.2]

theorem eqB_eq (a b : Entry) (h : a.eqB b = true) : a = b := by
  simp only [Entry.eqB, Bool.and_eq_true] at h
  cases a; cases b
  simp only [Entry.mk.injEq]
  exact ⟨boundsEqB_eq _ _ h.1.1.1, boundsEqB_eq _ _ h.1.1.2, natsEqB_eq _ _ h.1.2, natsEqB_eq _ _ h.2⟩

/-- What `entryOK` says, as propositions. -/
structure EntryOK (e : Entry) : Prop where
  bIn : boundsOK e.inR = true
  bOut : boundsOK e.outR = true
  mIn : e.inM = pv e.inR
  mOut : e.outM = pv e.outR
  le : card e.inR ≤ card e.outR

theorem entryOK_spec (e : Entry) (h : entryOK e = true) : EntryOK e := by
  simp only [entryOK, Bool.and_eq_true, Nat.ble_eq] at h
  exact ⟨h.1.1.1.1, h.1.1.1.2, natsEqB_eq _ _ h.1.1.2, natsEqB_eq _ _ h.1.2, h.2⟩

theorem shapeB_spec (src : Entry → Bounds) : ∀ (tbl : List (List Entry)) (k0 : Nat),
    shapeB src k0 tbl = true →
    ∀ k e, e ∈ tbl.getD k [] → (src e).length = k0 + k + 1 ∧ EntryOK e
  | [], _, _, k, e, h => by simp at h
  | l :: ls, k0, hs, 0, e, h => by
    simp only [shapeB, Bool.and_eq_true, List.all_eq_true] at hs
    have h' : e ∈ l := by simpa using h
    have := hs.1 e h'
    have hl := Nat.eq_of_beq_eq_true this.1
    exact ⟨by omega, entryOK_spec e this.2⟩
  | l :: ls, k0, hs, k + 1, e, h => by
    simp only [shapeB, Bool.and_eq_true] at hs
    have h' : e ∈ ls.getD k [] := by simpa using h
    have := shapeB_spec src ls (k0 + 1) hs.2 k e h'
    exact ⟨by omega, this.2⟩

theorem pairwiseB_spec (src : Entry → Bounds) : ∀ (l : List Entry), pairwiseB src l = true →
    ∀ a ∈ l, ∀ b ∈ l, a = b ∨ disjointB (src a) (src b) = true
  | [], _, a, ha, _, _ => by simp at ha
  | x :: xs, h, a, ha, b, hb => by
    simp only [pairwiseB, Bool.and_eq_true, List.all_eq_true, Bool.or_eq_true] at h
    have ih := pairwiseB_spec src xs h.2
    simp only [List.mem_cons] at ha hb
    rcases ha with ha | ha <;> rcases hb with hb | hb
    · left; rw [ha, hb]
    · subst ha
      rcases h.1 b hb with hd | he
      · exact Or.inr hd
      · exact Or.inl (eqB_eq _ _ he)
    · subst hb
      rcases h.1 a ha with hd | he
      · right; rw [disjointB_symm]; exact hd
      · exact Or.inl (eqB_eq _ _ he).symm
    · exact ih a ha b hb

/-- One side of a table: shapes, and pairwise disjoint source boxes (prefix-wise across lengths). -/
structure SideOK (tbl : List (List Entry)) (src : Entry → Bounds) : Prop where
  shape : ∀ k e, e ∈ tbl.getD k [] → (src e).length = k + 1 ∧ EntryOK e
  disj : ∀ a ∈ tbl.flatten, ∀ b ∈ tbl.flatten, a = b ∨ disjointB (src a) (src b) = true

theorem sideOK_of (tbl : List (List Entry)) (src : Entry → Bounds)
    (h1 : shapeB src 0 tbl = true) (h2 : sideDisjointB src tbl = true) : SideOK tbl src := by
  constructor
  · intro k e he
    have := shapeB_spec src tbl 0 h1 k e he
    exact ⟨by omega, this.2⟩
  · exact pairwiseB_spec src _ h2

theorem subsetB_spec (a b : List (List Entry)) (h : subsetB a b = true) :
    ∀ e ∈ a.flatten, e ∈ b.flatten := by
  intro e he
  simp only [subsetB, List.all_eq_true, List.any_eq_true] at h
  obtain ⟨e', he', heq⟩ := h e he
  rw [eqB_eq e e' heq]; exact he'

/-- `lookup` returns an entry of the right row that contains the unit. -/
theorem lookup_some (tbl : List (List Entry)) (src : Entry → Bounds) (r : List Nat) (e : Entry)
    (h : lookup tbl src r = some e) :
    e ∈ tbl.getD (r.length - 1) [] ∧ contains (src e) r = true := by
  unfold lookup at h
  exact ⟨List.mem_of_find?_eq_some h, by simpa using List.find?_some h⟩

/-- In a well-formed side, `lookup` finds *the* entry that contains the unit. -/
theorem lookup_unique (tbl : List (List Entry)) (src : Entry → Bounds) (hs : SideOK tbl src)
    (r : List Nat) (e : Entry) (he : e ∈ tbl.getD (r.length - 1) [])
    (hc : contains (src e) r = true) : lookup tbl src r = some e := by
  unfold lookup
  cases hf : (tbl.getD (r.length - 1) []).find? (fun e => contains (src e) r) with
  | none =>
    rw [List.find?_eq_none] at hf
    exact absurd hc (by simpa using hf e he)
  | some e' =>
    have hm := List.mem_of_find?_eq_some hf
    have hc' : contains (src e') r = true := by simpa using List.find?_some hf
    rcases hs.disj e' (mem_getD_flatten _ _ _ hm).1 e (mem_getD_flatten _ _ _ he).1 with h | h
    · rw [h]
    · exact (disjoint_contains _ _ r h hc' hc).elim

/-- Unfolding `convRune`. -/
theorem convRune_some (tbl : List (List Entry)) (src dst : Entry → Bounds) (sm dm : Entry → List Nat)
    (r c : List Nat) (h : convRune tbl src dst sm dm r = some c) :
    1 ≤ r.length ∧ r.length ≤ tbl.length ∧
      ∃ e, lookup tbl src r = some e ∧ c = fromIdx (dst e) (dm e) (toIdx (src e) (sm e) r) := by
  unfold convRune at h
  split at h
  · simp at h
  · rename_i hn
    split at h
    · rename_i e he
      simp only [Option.some.injEq] at h
      exact ⟨by omega, by omega, e, he, h.symm⟩
    · simp at h

/-- No proper prefix of a convertible unit is convertible (prefix-freeness of a side). -/
theorem conv_prefix_free (tbl : List (List Entry)) (src dst : Entry → Bounds) (sm dm : Entry → List Nat)
    (hs : SideOK tbl src) (u c : List Nat) (h : convRune tbl src dst sm dm u = some c)
    (m : Nat) (hm1 : 1 ≤ m) (hm2 : m < u.length) :
    convRune tbl src dst sm dm (u.take m) = none := by
  cases hx : convRune tbl src dst sm dm (u.take m) with
  | none => rfl
  | some c' =>
    exfalso
    obtain ⟨_, _, e2, hl2, _⟩ := convRune_some _ _ _ _ _ _ _ h
    obtain ⟨_, _, e1, hl1, _⟩ := convRune_some _ _ _ _ _ _ _ hx
    obtain ⟨hm1', hc1⟩ := lookup_some _ _ _ _ hl1
    obtain ⟨hm2', hc2⟩ := lookup_some _ _ _ _ hl2
    have hlen1 := (hs.shape _ _ hm1').1
    have hlen2 := (hs.shape _ _ hm2').1
    have htl : (u.take m).length = m := by simp; omega
    rw [htl] at hlen1
    rcases hs.disj e1 (mem_getD_flatten _ _ _ hm1').1 e2 (mem_getD_flatten _ _ _ hm2').1 with he | hd
    · rw [he] at hlen1; omega
    · exact disjoint_contains _ _ u hd (contains_take _ _ _ hc1) hc2

/-- The two directions of a table are inverse to each other on a unit whose index fits into
the destination box; both lookups hit the same entry with the same index. -/
theorem conv_inv (tbl tbl' : List (List Entry)) (src dst : Entry → Bounds) (sm dm : Entry → List Nat)
    (hs : SideOK tbl src) (hs' : SideOK tbl' dst)
    (hsm : ∀ e, EntryOK e → sm e = pv (src e) ∧ dm e = pv (dst e) ∧
      boundsOK (src e) = true ∧ boundsOK (dst e) = true)
    (hsub : ∀ e ∈ tbl.flatten, e ∈ tbl'.flatten)
    (u c : List Nat) (h : convRune tbl src dst sm dm u = some c)
    (hfit : ∀ e, lookup tbl src u = some e → toIdx (src e) (sm e) u < card (dst e)) :
    convRune tbl' dst src dm sm c = some u ∧
      ∃ e, lookup tbl src u = some e ∧ lookup tbl' dst c = some e ∧
        toIdx (dst e) (dm e) c = toIdx (src e) (sm e) u := by
  obtain ⟨hu1, hu2, e, hl, hc⟩ := convRune_some _ _ _ _ _ _ _ h
  obtain ⟨hmem, hcont⟩ := lookup_some _ _ _ _ hl
  obtain ⟨hlen, hok⟩ := hs.shape _ _ hmem
  obtain ⟨hsm1, hdm1, hb1, hb2⟩ := hsm e hok
  have hfit' := hfit e hl
  rw [hsm1] at hfit'
  rw [hsm1, hdm1] at hc
  obtain ⟨f1, f2, f3⟩ := fromIdx_spec (dst e) _ hb2 hfit'
  rw [← hc] at f1 f2 f3
  -- `e` sits in row `|c|-1` of the other table
  obtain ⟨k, hk, hek⟩ := exists_getD_of_mem_flatten tbl' e (hsub e (mem_getD_flatten _ _ _ hmem).1)
  have hlen' := (hs'.shape _ _ hek).1
  have hck : c.length - 1 = k := by omega
  have hl' : lookup tbl' dst c = some e := lookup_unique tbl' dst hs' c e (by rw [hck]; exact hek) f1
  refine ⟨?_, e, hl, hl', by rw [hsm1, hdm1, f3]⟩
  unfold convRune
  have hcond : ¬ (c.length = 0 ∨ c.length > tbl'.length) := by omega
  rw [if_neg hcond, hl']
  simp only [Option.some.injEq]
  rw [hsm1, hdm1, f3]
  exact fromIdx_toIdx (src e) u hb1 hcont (by omega)

theorem fromIdx_length : ∀ (bs : Bounds) (i : Nat), (fromIdx bs (pv bs) i).length = bs.length
  | [], _ => by simp [fromIdx]
  | (lo, hi) :: bs, i => by simp [pv, fromIdx, fromIdx_length bs]

/-- In a well-formed table the produced unit is never empty. -/
theorem convRune_out_pos (tbl tbl' : List (List Entry)) (src dst : Entry → Bounds) (sm dm : Entry → List Nat)
    (hs : SideOK tbl src) (hs' : SideOK tbl' dst)
    (hdm : ∀ e, EntryOK e → dm e = pv (dst e))
    (hsub : ∀ e ∈ tbl.flatten, e ∈ tbl'.flatten)
    (u c : List Nat) (h : convRune tbl src dst sm dm u = some c) : 1 ≤ c.length := by
  obtain ⟨_, _, e, hl, hc⟩ := convRune_some _ _ _ _ _ _ _ h
  obtain ⟨hmem, _⟩ := lookup_some _ _ _ _ hl
  obtain ⟨_, hok⟩ := hs.shape _ _ hmem
  obtain ⟨k, _, hek⟩ := exists_getD_of_mem_flatten tbl' e (hsub e (mem_getD_flatten _ _ _ hmem).1)
  have hlen' := (hs'.shape _ _ hek).1
  rw [hc, hdm e hok, fromIdx_length]; omega

/-! ## The search loop and the outer loops -/

/-- `u ↦ c` is a unit the search loop stops at: convertible, of admissible length, and no
proper prefix is convertible. -/
def IsUnit (f : List Nat → Option (List Nat)) (L : Nat) (u c : List Nat) : Prop :=
  f u = some c ∧ 1 ≤ u.length ∧ u.length ≤ L ∧ ∀ m, 1 ≤ m → m < u.length → f (u.take m) = none

theorem scan_found_aux (f : List Nat → Option (List Nat)) (guard : Bool) (u rest c : List Nat)
    (len L : Nat) (hu : f u = some c) (hlen : u.length ≤ len) (hL : u.length ≤ L) :
    ∀ (k n : Nat), n + k = L + 1 → 1 ≤ n → n ≤ u.length →
      (∀ m, n ≤ m → m < u.length → f (u.take m) = none) →
      scan f guard (u ++ rest) len n k = .found u.length c := by
  intro k
  induction k with
  | zero => intro n h1 _ h3 _; omega
  | succ k ih =>
    intro n h1 h2 h3 h4
    unfold scan
    have g1 : (guard && decide (n > len)) = false := by
      have : ¬ n > len := by omega
      simp [this]
    have g2 : ¬ n > (u ++ rest).length := by simp; omega
    rw [g1]
    simp only [Bool.false_eq_true, if_false, if_neg g2]
    rw [List.take_append_of_le_length h3]
    by_cases hn : n = u.length
    · subst hn; simp [hu]
    · have hlt : n < u.length := by omega
      rw [h4 n (Nat.le_refl _) hlt]
      exact ih (n + 1) (by omega) (by omega) (by omega) (fun m hm1 hm2 => h4 m (by omega) hm2)

theorem scan_found (f : List Nat → Option (List Nat)) (guard : Bool) (L : Nat) (u c rest : List Nat)
    (len : Nat) (h : IsUnit f L u c) (hlen : u.length ≤ len) :
    scan f guard (u ++ rest) len 1 L = .found u.length c :=
  scan_found_aux f guard u rest c len L h.1 hlen h.2.2.1 L 1 (by omega) (Nat.le_refl _) h.2.1
    (fun m hm1 hm2 => h.2.2.2 m hm1 hm2)

theorem scan_inv (f : List Nat → Option (List Nat)) (guard : Bool) (buf : List Nat) (len : Nat) :
    ∀ (k n N : Nat) (out : List Nat), scan f guard buf len n k = .found N out →
      n ≤ N ∧ N < n + k ∧ N ≤ buf.length ∧ (guard = true → N ≤ len) ∧ f (buf.take N) = some out ∧
        ∀ m, n ≤ m → m < N → f (buf.take m) = none := by
  intro k
  induction k with
  | zero => intro n N out h; simp [scan] at h
  | succ k ih =>
    intro n N out h
    unfold scan at h
    split at h
    · simp at h
    · rename_i hg
      split at h
      · simp at h
      · rename_i hb
        split at h
        · rename_i o ho
          simp only [Scan.found.injEq] at h
          obtain ⟨h1, h2⟩ := h
          subst h1; subst h2
          refine ⟨Nat.le_refl _, by omega, by omega, ?_, ho, fun m hm1 hm2 => by omega⟩
          intro hgt
          simp only [hgt, Bool.true_and, decide_eq_true_eq] at hg
          omega
        · rename_i ho
          obtain ⟨a1, a2, a3, a4, a5, a6⟩ := ih (n + 1) N out h
          refine ⟨by omega, by omega, a3, a4, a5, ?_⟩
          intro m hm1 hm2
          by_cases hmn : m = n
          · subst hmn; exact ho
          · exact a6 m (by omega) hm2

/-- The result does not depend on the fuel once it exceeds the length. -/
theorem convLoop_fuel (f : List Nat → Option (List Nat)) (guard : Bool) (L : Nat) (extra : List Nat) :
    ∀ (fuel1 fuel2 : Nat) (s : List Nat), s.length < fuel1 → s.length < fuel2 →
      convLoop f guard L extra fuel1 s = convLoop f guard L extra fuel2 s := by
  intro fuel1
  induction fuel1 with
  | zero => intro _ s h; omega
  | succ fuel1 ih =>
    intro fuel2 s h1 h2
    cases fuel2 with
    | zero => omega
    | succ fuel2 =>
      unfold convLoop
      by_cases he : s.isEmpty
      · simp [he]
      · simp only [he, Bool.false_eq_true, if_false]
        have hne : s ≠ [] := by simpa using he
        have hpos : 0 < s.length := List.length_pos_iff.2 hne
        cases hsc : scan f guard (s ++ extra) s.length 1 L with
        | found n out =>
          simp only
          have hn := (scan_inv f guard _ _ L 1 n out hsc).1
          by_cases hgt : n > s.length
          · simp [hgt]
          · simp only [hgt, if_false]
            rw [ih fuel2 (s.drop n) (by simp; omega) (by simp; omega)]
        | short n => rfl
        | exhausted => rfl
        | oob => rfl

/-- One step of the outer loop over a unit. -/
theorem convLoop_step (f : List Nat → Option (List Nat)) (guard : Bool) (L : Nat) (extra : List Nat)
    (u c rest : List Nat) (h : IsUnit f L u c) (fuel : Nat) :
    convLoop f guard L extra (fuel + 1) (u ++ rest) =
      (convLoop f guard L extra fuel rest).prepend c := by
  conv => lhs; unfold convLoop
  have hne : (u ++ rest).isEmpty = false := by
    have : 0 < u.length := h.2.1
    cases u with
    | nil => simp at this
    | cons a t => simp
  rw [hne]
  simp only [Bool.false_eq_true, if_false]
  rw [List.append_assoc, scan_found f guard L u c (rest ++ extra) _ h (by simp)]
  have : ¬ (u.length + rest.length < u.length) := by omega
  simp [this]

/-- Strings made of units convert unit by unit, whatever follows them. -/
theorem convLoop_units (f : List Nat → Option (List Nat)) (guard : Bool) (L : Nat) (extra : List Nat) :
    ∀ (us : List (List Nat × List Nat)), (∀ p ∈ us, IsUnit f L p.1 p.2) →
      ∀ (t : List Nat) (fuel : Nat), ((us.map (·.1)).flatten ++ t).length < fuel →
      convLoop f guard L extra fuel ((us.map (·.1)).flatten ++ t) =
        (convLoop f guard L extra (t.length + 1) t).prepend (us.map (·.2)).flatten := by
  intro us
  induction us with
  | nil =>
    intro _ t fuel hf
    simp only [List.map_nil, List.flatten_nil, List.nil_append] at hf ⊢
    rw [convLoop_fuel f guard L extra fuel (t.length + 1) t hf (by omega)]
    cases convLoop f guard L extra (t.length + 1) t <;> simp [Res.prepend]
  | cons p us ih =>
    intro hu t fuel hf
    cases fuel with
    | zero => omega
    | succ fuel =>
      simp only [List.map_cons, List.flatten_cons, List.append_assoc] at hf ⊢
      rw [convLoop_step f guard L extra p.1 p.2 _ (hu p (by simp)) fuel]
      rw [ih (fun q hq => hu q (by simp [hq])) t fuel (by
        have := (hu p (by simp)).2.1
        simp at hf ⊢; omega)]
      cases convLoop f guard L extra (t.length + 1) t <;> simp [Res.prepend]

theorem convLoop_nil (f : List Nat → Option (List Nat)) (guard : Bool) (L : Nat) (extra : List Nat)
    (fuel : Nat) : convLoop f guard L extra (fuel + 1) [] = .ok [] := by
  simp [convLoop]

/-- A successful conversion decomposes the string into units. -/
theorem convLoop_ok_inv (f : List Nat → Option (List Nat)) (guard : Bool) (L : Nat) (extra : List Nat) :
    ∀ (fuel : Nat) (s b : List Nat), convLoop f guard L extra fuel s = .ok b →
      ∃ us : List (List Nat × List Nat), (∀ p ∈ us, IsUnit f L p.1 p.2) ∧
        s = (us.map (·.1)).flatten ∧ b = (us.map (·.2)).flatten := by
  intro fuel
  induction fuel with
  | zero => intro s b h; simp [convLoop] at h
  | succ fuel ih =>
    intro s b h
    unfold convLoop at h
    by_cases he : s.isEmpty
    · simp only [he, if_true, Res.ok.injEq] at h
      exact ⟨[], by simp, by simpa using he, by simp [← h]⟩
    · simp only [he, Bool.false_eq_true, if_false] at h
      cases hsc : scan f guard (s ++ extra) s.length 1 L with
      | found n out =>
        rw [hsc] at h
        simp only at h
        by_cases hgt : n > s.length
        · simp [hgt] at h
        · simp only [hgt, if_false] at h
          cases hr : convLoop f guard L extra fuel (s.drop n) with
          | ok b' =>
            rw [hr] at h
            simp only [Res.prepend, Res.ok.injEq] at h
            obtain ⟨us, hus, hs, hb⟩ := ih _ _ hr
            obtain ⟨a1, a2, a3, _, a5, a6⟩ := scan_inv f guard _ _ L 1 n out hsc
            have htake : (s ++ extra).take n = s.take n := List.take_append_of_le_length (by omega)
            refine ⟨(s.take n, out) :: us, ?_, ?_, ?_⟩
            · intro p hp
              simp only [List.mem_cons] at hp
              rcases hp with hp | hp
              · subst hp
                refine ⟨by rw [← htake]; exact a5, by simp; omega, by simp; omega, ?_⟩
                intro m hm1 hm2
                have hm3 : m < n := by simp at hm2; omega
                have := a6 m hm1 hm3
                rw [List.take_append_of_le_length (by omega)] at this
                rw [List.take_take, Nat.min_eq_left (by omega)]
                exact this
              · exact hus p hp
            · simp only [List.map_cons, List.flatten_cons, ← hs]; simp
            · simp only [List.map_cons, List.flatten_cons, ← hb]; exact h.symm
          | fail => rw [hr] at h; simp [Res.prepend] at h
          | crash => rw [hr] at h; simp [Res.prepend] at h
      | short n => rw [hsc] at h; simp at h
      | exhausted => rw [hsc] at h; simp at h
      | oob => rw [hsc] at h; simp at h

/-! ## Guarded vs. unguarded loop (no spare capacity) -/

theorem scan_unguarded (f : List Nat → Option (List Nat)) (str : List Nat) :
    ∀ (k n : Nat), scan f false str str.length n k =
      match scan f true str str.length n k with
      | .short _ => .oob
      | r => r := by
  intro k
  induction k with
  | zero => intro n; simp [scan]
  | succ k ih =>
    intro n
    unfold scan
    by_cases hn : n > str.length
    · simp [hn]
    · simp only [Bool.false_and, Bool.false_eq_true, if_false, hn, Bool.true_and, decide_false]
      cases f (str.take n) with
      | some out => simp
      | none => simp only; exact ih (n + 1)

theorem scan_guard_not_oob (f : List Nat → Option (List Nat)) (str : List Nat) :
    ∀ (k n : Nat), scan f true str str.length n k ≠ .oob := by
  intro k
  induction k with
  | zero => intro n; simp [scan]
  | succ k ih =>
    intro n
    unfold scan
    by_cases hn : n > str.length
    · simp [hn]
    · simp only [hn, Bool.true_and, decide_false, Bool.false_eq_true, if_false]
      cases f (str.take n) with
      | some out => simp
      | none => simp only; exact ih (n + 1)

/-- A guarded search never looks behind `len(str)`: what lies between `len` and `cap` of the
slice is irrelevant. -/
theorem scan_guard_extra (f : List Nat → Option (List Nat)) (str extra : List Nat) :
    ∀ (k n : Nat), scan f true (str ++ extra) str.length n k = scan f true str str.length n k := by
  intro k
  induction k with
  | zero => intro n; simp [scan]
  | succ k ih =>
    intro n
    unfold scan
    by_cases hn : n > str.length
    · simp [hn]
    · have h1 : ¬ n > (str ++ extra).length := by simp; omega
      simp only [hn, h1, Bool.true_and, decide_false, Bool.false_eq_true, if_false]
      rw [List.take_append_of_le_length (by omega)]
      cases f (str.take n) with
      | some out => rfl
      | none => simp only; exact ih (n + 1)

/-- The guarded outer loop does not depend on the spare capacity of its argument. -/
theorem convLoop_guard_extra (f : List Nat → Option (List Nat)) (L : Nat) (extra : List Nat) :
    ∀ (fuel : Nat) (s : List Nat), convLoop f true L extra fuel s = convLoop f true L [] fuel s := by
  intro fuel
  induction fuel with
  | zero => intro s; simp [convLoop]
  | succ fuel ih =>
    intro s
    unfold convLoop
    by_cases he : s.isEmpty
    · simp [he]
    · simp only [he, Bool.false_eq_true, if_false, List.append_nil]
      rw [scan_guard_extra f s extra L 1]
      cases hsc : scan f true s s.length 1 L with
      | found n out => simp only; rw [ih (s.drop n)]
      | short n => rfl
      | exhausted => rfl
      | oob => rfl

/-- A guarded loop never panics. -/
theorem convLoop_guard_no_crash (f : List Nat → Option (List Nat)) (L : Nat) :
    ∀ (fuel : Nat) (s : List Nat), convLoop f true L [] fuel s ≠ .crash := by
  intro fuel
  induction fuel with
  | zero => intro s; simp [convLoop]
  | succ fuel ih =>
    intro s
    unfold convLoop
    by_cases he : s.isEmpty
    · simp [he]
    · simp only [he, Bool.false_eq_true, if_false, List.append_nil]
      cases hsc : scan f true s s.length 1 L with
      | found n out =>
        simp only
        have hn := (scan_inv f true _ _ L 1 n out hsc).2.2.2.1 rfl
        have : ¬ n > s.length := by omega
        simp only [this, if_false]
        have := ih (s.drop n)
        cases hr : convLoop f true L [] fuel (s.drop n) <;> simp_all [Res.prepend]
      | short n => simp
      | exhausted => simp
      | oob => exact absurd hsc (scan_guard_not_oob f s L 1)

/-- The unguarded loop either panics or agrees with the guarded one. -/
theorem convLoop_unguarded_cases (f : List Nat → Option (List Nat)) (L : Nat) :
    ∀ (fuel : Nat) (s : List Nat),
      convLoop f false L [] fuel s = .crash ∨
        convLoop f false L [] fuel s = convLoop f true L [] fuel s := by
  intro fuel
  induction fuel with
  | zero => intro s; simp [convLoop]
  | succ fuel ih =>
    intro s
    unfold convLoop
    by_cases he : s.isEmpty
    · simp [he]
    · simp only [he, Bool.false_eq_true, if_false, List.append_nil]
      rw [scan_unguarded f s L 1]
      cases hsc : scan f true s s.length 1 L with
      | found n out =>
        simp only
        by_cases hgt : n > s.length
        · simp [hgt]
        · simp only [hgt, if_false]
          rcases ih (s.drop n) with h | h
          · left; rw [h]; rfl
          · right; rw [h]
      | short n => simp
      | exhausted => simp
      | oob => simp

/-- The unguarded loop panics exactly when the search reaches a rest that is shorter than `L`
and has no convertible prefix. -/
def TailAt (f : List Nat → Option (List Nat)) (L : Nat) (s : List Nat) : Prop :=
  ∃ p t, s = p ++ t ∧ (∃ b, convLoop f true L [] (p.length + 1) p = .ok b) ∧ t ≠ [] ∧
    t.length < L ∧ ∀ m, 1 ≤ m → m ≤ t.length → f (t.take m) = none

theorem scan_short_inv (f : List Nat → Option (List Nat)) (guard : Bool) (buf : List Nat) (len : Nat) :
    ∀ (k n N : Nat), scan f guard buf len n k = .short N →
      n ≤ N ∧ N < n + k ∧ N = max n (len + 1) ∧ ∀ m, n ≤ m → m < N → f (buf.take m) = none := by
  intro k
  induction k with
  | zero => intro n N h; simp [scan] at h
  | succ k ih =>
    intro n N h
    unfold scan at h
    split at h
    · rename_i hg
      simp only [Scan.short.injEq] at h
      subst h
      simp only [Bool.and_eq_true, decide_eq_true_eq] at hg
      exact ⟨Nat.le_refl _, by omega, by omega, fun m h1 h2 => by omega⟩
    · rename_i hg
      split at h
      · simp at h
      · split at h
        · simp at h
        · rename_i ho
          obtain ⟨a1, a2, a3, a4⟩ := ih (n + 1) N h
          have hnl : ¬ (guard = true ∧ n > len) := by simpa using hg
          refine ⟨by omega, by omega, ?_, ?_⟩
          · cases guard with
            | false =>
              -- an unguarded scan never answers `short`
              exfalso
              clear ih a1 a2 a3 a4 hnl ho hg
              revert h
              generalize n + 1 = n'
              induction k generalizing n' with
              | zero => simp [scan]
              | succ k ihk =>
                unfold scan
                simp only [Bool.false_and, Bool.false_eq_true, if_false]
                split
                · simp
                · split
                  · simp
                  · exact ihk (n' + 1)
            | true =>
              have : ¬ n > len := by simpa using hnl
              omega
          · intro m hm1 hm2
            by_cases hmn : m = n
            · subst hmn; exact ho
            · exact a4 m (by omega) hm2

theorem convLoop_crash_iff (f : List Nat → Option (List Nat)) (L : Nat) :
    ∀ (fuel : Nat) (s : List Nat), s.length < fuel →
      (convLoop f false L [] fuel s = .crash ↔ TailAt f L s) := by
  intro fuel
  induction fuel with
  | zero => intro s h; omega
  | succ fuel ih =>
    intro s hf
    constructor
    · intro h
      unfold convLoop at h
      by_cases he : s.isEmpty
      · simp [he] at h
      · simp only [he, Bool.false_eq_true, if_false, List.append_nil] at h
        have hne : s ≠ [] := by simpa using he
        rw [scan_unguarded f s L 1] at h
        cases hsc : scan f true s s.length 1 L with
        | found n out =>
          rw [hsc] at h
          simp only at h
          obtain ⟨a1, a2, a3, a4, a5, a6⟩ := scan_inv f true _ _ L 1 n out hsc
          have hle : ¬ n > s.length := by have := a4 rfl; omega
          simp only [hle, if_false] at h
          have hcr : convLoop f false L [] fuel (s.drop n) = .crash := by
            cases hr : convLoop f false L [] fuel (s.drop n) <;> simp_all [Res.prepend]
          obtain ⟨p, t, hs, ⟨b, hb⟩, ht1, ht2, ht3⟩ :=
            (ih (s.drop n) (by simp; omega)).1 hcr
          have hunit : IsUnit f L (s.take n) out := by
            refine ⟨a5, by simp; omega, by simp; omega, ?_⟩
            intro m hm1 hm2
            have hm3 : m < n := by simp at hm2; omega
            rw [List.take_take, Nat.min_eq_left (by omega)]
            exact a6 m hm1 hm3
          refine ⟨s.take n ++ p, t, ?_, ⟨out ++ b, ?_⟩, ht1, ht2, ht3⟩
          · rw [List.append_assoc, ← hs]; simp
          · have := convLoop_step f true L [] (s.take n) out p hunit ((s.take n ++ p).length)
            rw [this, convLoop_fuel f true L [] _ (p.length + 1) p (by simp; omega) (by omega), hb]
            rfl
        | short n =>
          obtain ⟨a1, a2, a3, a4⟩ := scan_short_inv f true _ _ L 1 n hsc
          have hpos : 0 < s.length := List.length_pos_iff.2 hne
          refine ⟨[], s, by simp, ⟨[], by simp [convLoop]⟩, hne, by omega, ?_⟩
          intro m hm1 hm2
          exact a4 m hm1 (by omega)
        | exhausted => rw [hsc] at h; simp at h
        | oob => exact absurd hsc (scan_guard_not_oob f s L 1)
    · rintro ⟨p, t, hs, ⟨b, hb⟩, ht1, ht2, ht3⟩
      obtain ⟨us, hus, hp, _⟩ := convLoop_ok_inv f true L [] _ _ _ hb
      subst hs
      rw [hp] at hf ⊢
      rw [convLoop_units f false L [] us hus t (fuel + 1) hf]
      -- at `t` the search runs off the end of the slice
      have hcr : convLoop f false L [] (t.length + 1) t = .crash := by
        unfold convLoop
        have he : t.isEmpty = false := by
          cases t with
          | nil => exact absurd rfl ht1
          | cons a r => rfl
        simp only [he, Bool.false_eq_true, if_false, List.append_nil]
        have hoob : ∀ (k n : Nat), n + k = L + 1 → 1 ≤ n → n ≤ t.length + 1 →
            scan f false t t.length n k = .oob := by
          intro k
          induction k with
          | zero => intro n h1 h2 h3; omega
          | succ k ihk =>
            intro n h1 h2 h3
            unfold scan
            simp only [Bool.false_and, Bool.false_eq_true, if_false]
            by_cases hn : n > t.length
            · simp [hn]
            · simp only [hn, if_false]
              rw [ht3 n h2 (by omega)]
              exact ihk (n + 1) (by omega) (by omega) (by omega)
        rw [hoob L 1 (by omega) (Nat.le_refl _) (by omega)]
      rw [hcr]; rfl

/-- Where the unguarded loop panics, the guarded loop reports failure. -/
theorem convLoop_tail_fail (f : List Nat → Option (List Nat)) (L : Nat) (s : List Nat)
    (h : TailAt f L s) : convLoop f true L [] (s.length + 1) s = .fail := by
  obtain ⟨p, t, hs, ⟨b, hb⟩, ht1, ht2, ht3⟩ := h
  obtain ⟨us, hus, hp, _⟩ := convLoop_ok_inv f true L [] _ _ _ hb
  subst hs
  rw [hp]
  rw [convLoop_units f true L [] us hus t _ (Nat.lt_succ_self _)]
  have hfl : convLoop f true L [] (t.length + 1) t = .fail := by
    unfold convLoop
    have he : t.isEmpty = false := by
      cases t with
      | nil => exact absurd rfl ht1
      | cons a r => rfl
    simp only [he, Bool.false_eq_true, if_false, List.append_nil]
    have hshort : ∀ (k n : Nat), n + k = L + 1 → 1 ≤ n → n ≤ t.length + 1 →
        scan f true t t.length n k = .short (t.length + 1) := by
      intro k
      induction k with
      | zero => intro n h1 h2 h3; omega
      | succ k ihk =>
        intro n h1 h2 h3
        unfold scan
        by_cases hn : n > t.length
        · have : n = t.length + 1 := by omega
          simp [this]
        · simp only [hn, Bool.true_and, decide_false, Bool.false_eq_true, if_false]
          rw [ht3 n h2 (by omega)]
          exact ihk (n + 1) (by omega) (by omega) (by omega)
    rw [hshort L 1 (by omega) (Nat.le_refl _) (by omega)]
  rw [hfl]; rfl

/-- Two unit functions that agree on every substring give the same loop result. -/
theorem scan_congr (f g : List Nat → Option (List Nat)) (guard : Bool) (buf : List Nat) (len : Nat)
    (h : ∀ n, f (buf.take n) = g (buf.take n)) :
    ∀ (k n : Nat), scan f guard buf len n k = scan g guard buf len n k := by
  intro k
  induction k with
  | zero => intro n; simp [scan]
  | succ k ih =>
    intro n
    unfold scan
    rw [h n, ih (n + 1)]

theorem convLoop_congr (f g : List Nat → Option (List Nat)) (guard : Bool) (L : Nat) :
    ∀ (fuel : Nat) (s : List Nat), (∀ p u t, s = p ++ u ++ t → f u = g u) →
      convLoop f guard L [] fuel s = convLoop g guard L [] fuel s := by
  intro fuel
  induction fuel with
  | zero => intro s _; simp [convLoop]
  | succ fuel ih =>
    intro s h
    unfold convLoop
    by_cases he : s.isEmpty
    · simp [he]
    · simp only [he, Bool.false_eq_true, if_false, List.append_nil]
      rw [scan_congr f g guard s s.length (fun n => h [] (s.take n) (s.drop n) (by simp)) L 1]
      cases hsc : scan g guard s s.length 1 L with
      | found n out =>
        simp only
        rw [ih (s.drop n) (fun p u t hd => h (s.take n ++ p) u t (by
          rw [List.append_assoc, List.append_assoc, ← List.append_assoc p, ← hd]; simp))]
      | short n => rfl
      | exhausted => rfl
      | oob => rfl

/-! ## EncodeReplaceUnknown -/

/-- `EncodeReplaceUnknown` always returns (no panic, no failure), for any table and any bytes. -/
theorem replLoop_total (f : List Nat → Option (List Nat)) (collapse : Bool) (L : Nat) :
    ∀ (fuel : Nat) (s : List Nat), s.length < fuel → ∃ b, replLoop f collapse L fuel s = .ok b := by
  intro fuel
  induction fuel with
  | zero => intro s h; omega
  | succ fuel ih =>
    intro s hf
    unfold replLoop
    by_cases he : s.isEmpty
    · exact ⟨[], by simp [he]⟩
    · simp only [he, Bool.false_eq_true, if_false]
      have hne : s ≠ [] := by simpa using he
      have hpos : 0 < s.length := List.length_pos_iff.2 hne
      -- whatever the search answers, the step consumes between 1 and |s| bytes
      have key : ∀ (n : Nat) (out : List Nat), 1 ≤ n →
          ∃ b, (if (if n ≥ s.length then s.length else n) = 0 then Res.crash
            else (replLoop f collapse L fuel (s.drop (if n ≥ s.length then s.length else n))).prepend
              (if out.isEmpty then [63] else out)) = .ok b := by
        intro n out hn
        have h0 : ¬ (if n ≥ s.length then s.length else n) = 0 := by split <;> omega
        rw [if_neg h0]
        obtain ⟨b, hb⟩ := ih (s.drop (if n ≥ s.length then s.length else n)) (by
          simp only [List.length_drop]; split <;> omega)
        exact ⟨_, by rw [hb]; rfl⟩
      have hfb : 1 ≤ (if utf8Len s = 0 then 1 else utf8Len s) := by split <;> omega
      cases hsc : scan f true s s.length 1 L with
      | found n out =>
        exact key n out (scan_inv f true _ _ L 1 n out hsc).1
      | short n =>
        have hn := (scan_short_inv f true _ _ L 1 n hsc).1
        cases collapse with
        | true => exact key n [] hn
        | false => exact key _ [63] hfb
      | exhausted => exact key _ [63] hfb
      | oob => exact absurd hsc (scan_guard_not_oob f s L 1)

theorem replLoop_fuel (f : List Nat → Option (List Nat)) (collapse : Bool) (L : Nat) :
    ∀ (fuel1 fuel2 : Nat) (s : List Nat), s.length < fuel1 → s.length < fuel2 →
      replLoop f collapse L fuel1 s = replLoop f collapse L fuel2 s := by
  intro fuel1
  induction fuel1 with
  | zero => intro _ s h; omega
  | succ fuel1 ih =>
    intro fuel2 s h1 h2
    cases fuel2 with
    | zero => omega
    | succ fuel2 =>
      unfold replLoop
      by_cases he : s.isEmpty
      · simp [he]
      · simp only [he, Bool.false_eq_true, if_false]
        have hne : s ≠ [] := by simpa using he
        have hpos : 0 < s.length := List.length_pos_iff.2 hne
        have key : ∀ (n : Nat) (out : List Nat),
            (if (if n ≥ s.length then s.length else n) = 0 then Res.crash
              else (replLoop f collapse L fuel1 (s.drop (if n ≥ s.length then s.length else n))).prepend
                (if out.isEmpty then [63] else out)) =
            (if (if n ≥ s.length then s.length else n) = 0 then Res.crash
              else (replLoop f collapse L fuel2 (s.drop (if n ≥ s.length then s.length else n))).prepend
                (if out.isEmpty then [63] else out)) := by
          intro n out
          by_cases h0 : (if n ≥ s.length then s.length else n) = 0
          · simp [h0]
          · rw [if_neg h0, if_neg h0, ih fuel2 _ (by simp only [List.length_drop]; omega)
              (by simp only [List.length_drop]; omega)]
        cases hsc : scan f true s s.length 1 L with
        | found n out => exact key n out
        | short n =>
          cases collapse with
          | true => exact key n []
          | false => exact key _ [63]
        | exhausted => exact key _ [63]
        | oob => exact key 0 []

/-- One step of `EncodeReplaceUnknown` over a unit with a non-empty image. -/
theorem replLoop_step (f : List Nat → Option (List Nat)) (collapse : Bool) (L : Nat)
    (u c rest : List Nat) (h : IsUnit f L u c) (hc : c ≠ []) (fuel : Nat) :
    replLoop f collapse L (fuel + 1) (u ++ rest) = (replLoop f collapse L fuel rest).prepend c := by
  conv => lhs; unfold replLoop
  have hne : (u ++ rest).isEmpty = false := by
    have : 0 < u.length := h.2.1
    cases u with
    | nil => simp at this
    | cons a t => simp
  rw [hne]
  simp only [Bool.false_eq_true, if_false]
  have hsc := scan_found f true L u c rest (u ++ rest).length h (by simp)
  rw [hsc]
  have hu := h.2.1
  have hce : c.isEmpty = false := by cases c with
    | nil => exact absurd rfl hc
    | cons a t => rfl
  simp only [hce, Bool.false_eq_true, if_false]
  by_cases hr : rest.length = 0
  · have : rest = [] := List.length_eq_zero_iff.1 hr
    subst this
    have h0 : ¬ u.length = 0 := by omega
    simp [h0]
  · have h1 : ¬ u.length ≥ (u ++ rest).length := by simp; omega
    have h0 : ¬ u.length = 0 := by omega
    simp only [h1, if_false, h0]
    simp

theorem replLoop_units (f : List Nat → Option (List Nat)) (collapse : Bool) (L : Nat) :
    ∀ (us : List (List Nat × List Nat)), (∀ p ∈ us, IsUnit f L p.1 p.2 ∧ p.2 ≠ []) →
      ∀ (t : List Nat) (fuel : Nat), ((us.map (·.1)).flatten ++ t).length < fuel →
      replLoop f collapse L fuel ((us.map (·.1)).flatten ++ t) =
        (replLoop f collapse L (t.length + 1) t).prepend (us.map (·.2)).flatten := by
  intro us
  induction us with
  | nil =>
    intro _ t fuel hf
    simp only [List.map_nil, List.flatten_nil, List.nil_append] at hf ⊢
    rw [replLoop_fuel f collapse L fuel (t.length + 1) t hf (by omega)]
    cases replLoop f collapse L (t.length + 1) t <;> simp [Res.prepend]
  | cons p us ih =>
    intro hu t fuel hf
    cases fuel with
    | zero => omega
    | succ fuel =>
      simp only [List.map_cons, List.flatten_cons, List.append_assoc] at hf ⊢
      rw [replLoop_step f collapse L p.1 p.2 _ (hu p (by simp)).1 (hu p (by simp)).2 fuel]
      rw [ih (fun q hq => hu q (by simp [hq])) t fuel (by
        have := (hu p (by simp)).1.2.1
        simp at hf ⊢; omega)]
      cases replLoop f collapse L (t.length + 1) t <;> simp [Res.prepend]

/-- The rest of the string at which Go's loop collapses several characters into one `?`:
shorter than `L`, no convertible prefix, and more than one UTF-8 unit long. -/
def CollapseAt (f : List Nat → Option (List Nat)) (L : Nat) (s : List Nat) : Prop :=
  ∃ p t, s = p ++ t ∧ t ≠ [] ∧ t.length < L ∧ (∀ m, 1 ≤ m → m ≤ t.length → f (t.take m) = none) ∧
    utf8Len t < t.length

theorem replLoop_collapse_eq (f : List Nat → Option (List Nat)) (L : Nat) :
    ∀ (fuel : Nat) (s : List Nat), ¬ CollapseAt f L s →
      replLoop f true L fuel s = replLoop f false L fuel s := by
  intro fuel
  induction fuel with
  | zero => intro s _; simp [replLoop]
  | succ fuel ih =>
    intro s hno
    unfold replLoop
    by_cases he : s.isEmpty
    · simp [he]
    · simp only [he, Bool.false_eq_true, if_false]
      have hne : s ≠ [] := by simpa using he
      have hsuf : ∀ n, ¬ CollapseAt f L (s.drop n) := by
        intro n ⟨p, t, hs, ht⟩
        exact hno ⟨s.take n ++ p, t, by rw [List.append_assoc, ← hs]; simp, ht⟩
      cases hsc : scan f true s s.length 1 L with
      | found n out => simp only; rw [ih _ (hsuf _)]
      | exhausted => simp only; rw [ih _ (hsuf _)]
      | oob => simp
      | short n =>
        obtain ⟨a1, a2, a3, a4⟩ := scan_short_inv f true _ _ L 1 n hsc
        have hpos : 0 < s.length := List.length_pos_iff.2 hne
        have hn : n = s.length + 1 := by omega
        have hu : ¬ utf8Len s < s.length := by
          intro hlt
          exact hno ⟨[], s, by simp, hne, by omega, fun m h1 h2 => a4 m h1 (by omega), hlt⟩
        have h1 : (if n ≥ s.length then s.length else n) = s.length := by
          rw [if_pos (by omega)]
        have h2 : (if (if utf8Len s = 0 then 1 else utf8Len s) ≥ s.length then s.length
            else (if utf8Len s = 0 then 1 else utf8Len s)) = s.length := by
          rw [if_pos (by split <;> omega)]
        simp only [if_true, h1, h2]
        rw [ih _ (hsuf _)]
        simp

theorem replLoop_congr (f g : List Nat → Option (List Nat)) (collapse : Bool) (L : Nat) :
    ∀ (fuel : Nat) (s : List Nat), (∀ p u t, s = p ++ u ++ t → f u = g u) →
      replLoop f collapse L fuel s = replLoop g collapse L fuel s := by
  intro fuel
  induction fuel with
  | zero => intro s _; simp [replLoop]
  | succ fuel ih =>
    intro s h
    unfold replLoop
    by_cases he : s.isEmpty
    · simp [he]
    · simp only [he, Bool.false_eq_true, if_false]
      rw [scan_congr f g true s s.length (fun n => h [] (s.take n) (s.drop n) (by simp)) L 1]
      have hsuf : ∀ n, ∀ p u t, s.drop n = p ++ u ++ t → f u = g u := by
        intro n p u t hd
        exact h (s.take n ++ p) u t (by
          rw [List.append_assoc, List.append_assoc, ← List.append_assoc p, ← hd]; simp)
      cases hsc : scan g true s s.length 1 L with
      | found n out => simp only; rw [ih _ (hsuf _)]
      | exhausted => simp only; rw [ih _ (hsuf _)]
      | oob => simp
      | short n =>
        cases collapse with
        | true => simp only [if_true]; rw [ih _ (hsuf _)]
        | false => simp only [Bool.false_eq_true, if_false]; rw [ih _ (hsuf _)]

end Gms.RangeMap
