/-
C27: binary strings written into integer / BIT columns — the `[]byte` branch of the converters agrees
with the conversion of the integer the bytes denote, or refuses.
-/
import Gms.Model.StoreBin
import Gms.Lemmas.NumConv
namespace Gms.Store
open Gms.Num Gms.Conv

theorem beVal_fold_cast (bs : List UInt8) (a : Nat) :
    List.foldl (fun (acc : Int) (b : UInt8) => acc * 256 + (b.toNat : Int)) (a : Int) bs =
      ((List.foldl (fun acc (b : UInt8) => acc * 256 + b.toNat) a bs : Nat) : Int) := by
  induction bs generalizing a with
  | nil => rfl
  | cons b bs ih =>
    simp only [List.foldl_cons]
    have : (a : Int) * 256 + (b.toNat : Int) = ((a * 256 + b.toNat : Nat) : Int) := by omega
    rw [this, ih]

theorem beVal_cast (bs : List UInt8) :
    List.foldl (fun (acc : Int) (b : UInt8) => acc * 256 + (b.toNat : Int)) ((0 : Nat) : Int) bs = (beVal bs : Int) :=
  beVal_fold_cast bs 0

theorem beVal_fold_lt (bs : List UInt8) (a : Nat) :
    List.foldl (fun acc (b : UInt8) => acc * 256 + b.toNat) a bs < (a + 1) * 256 ^ bs.length := by
  induction bs generalizing a with
  | nil => simp only [List.foldl_nil, List.length_nil, Nat.pow_zero, Nat.mul_one]; omega
  | cons b bs ih =>
    simp only [List.foldl_cons, List.length_cons]
    have hb : b.toNat < 256 := b.toNat_lt
    have h1 := ih (a * 256 + b.toNat)
    have h2 : (a * 256 + b.toNat + 1) * 256 ^ bs.length ≤ (a + 1) * 256 * 256 ^ bs.length :=
      Nat.mul_le_mul_right _ (by omega)
    calc _ < (a * 256 + b.toNat + 1) * 256 ^ bs.length := h1
      _ ≤ (a + 1) * 256 * 256 ^ bs.length := h2
      _ = (a + 1) * 256 ^ (bs.length + 1) := by rw [Nat.pow_succ, Nat.mul_assoc, Nat.mul_comm 256]

/-- at most eight bytes denote a 64-bit unsigned value -/
theorem beVal_le8 (bs : List UInt8) (h : bs.length ≤ 8) : (beVal bs : Int) ≤ maxU64 := by
  have h1 := beVal_fold_lt bs 0
  have h2 : 256 ^ bs.length ≤ 256 ^ 8 := Nat.pow_le_pow_right (by omega) h
  have h3 : beVal bs < 256 ^ 8 := by unfold beVal; omega
  simp only [maxU64]; omega

theorem wrapTo_zero (t : ITy) : convertInt.wrapTo t 0 = 0 := by cases t <;> decide

/-- **refused**: the empty binary string and every value beyond the 64-bit limit of the type's
converter yield `0, InRange, ErrInvalidValue` (all ten types) -/
theorem binary_refused (it : ITy) (bs : List UInt8) (h : bs = [] ∨ (beVal bs : Int) > binLimit it) :
    convertIntB it bs = ⟨.int 0, .inRange, .fatal⟩ := by
  by_cases hu : it = .u64
  · subst hu
    have hh : bs = [] ∨ (beVal bs : Int) > maxU64 := by simpa [binLimit] using h
    simp only [convertIntB, convertToUint64B, hh, if_true]
  · have hh : bs = [] ∨ (beVal bs : Int) > maxI64 := by simpa [binLimit, hu] using h
    cases it <;>
      first
      | exact absurd rfl hu
      | simp only [convertIntB, convertToInt64B, hh, if_true, wrapTo_zero]

/-- **a binary string is converted like the integer it denotes**: non-empty, within the limit of the
type's 64-bit converter (all ten types) -/
theorem binary_as_integer (it : ITy) (bs : List UInt8) (hne : bs ≠ []) (hr : (beVal bs : Int) ≤ binLimit it) :
    convertIntB it bs = convertInt it (.u (beVal bs)) := by
  by_cases hu : it = .u64
  · subst hu
    have hh : ¬ (bs = [] ∨ (beVal bs : Int) > maxU64) := by simp only [binLimit, if_true] at hr; simp [hne]; omega
    simp only [convertIntB, convertToUint64B, hh, if_false]
    rw [convertInt_u64 _ (by simp)]; rfl
  · have hr' : (beVal bs : Int) ≤ maxI64 := by simpa [binLimit, hu] using hr
    have hh : ¬ (bs = [] ∨ (beVal bs : Int) > maxI64) := by simp [hne]; omega
    have e3 : convertToInt64 (.u (beVal bs)) = ⟨beVal bs, .inRange, .none⟩ := by
      simp only [convertToInt64]; rw [if_neg (by omega)]
    have e1 : convertToInt64B bs = ⟨beVal bs, .inRange, .none⟩ := by
      simp only [convertToInt64B, hh, if_false]
    by_cases h64 : it = .i64
    · subst h64
      rw [convertInt_i64 _ (by simp), e3]; simp only [convertIntB, e1]
    · rw [convertInt_narrow it ⟨h64, hu⟩ _ (by simp), e3]
      have : convertIntB it bs =
          (let r := convertToInt64B bs
           if r.err = .fatal then ⟨.int (convertInt.wrapTo it r.val), r.flag, .fatal⟩
           else if r.val > it.hi then ⟨.int it.hi, .overflow, .none⟩
           else if r.val < it.lo then
             ⟨.int (if it.unsigned then convertInt.wrapTo it (it.hi + r.val + 1) else it.lo), .underflow, .none⟩
           else ⟨.int r.val, .inRange, r.err⟩) := by
        cases it <;> first | exact absurd rfl h64 | exact absurd rfl hu | rfl
      rw [this, e1]

/-- BIT: a binary string of at most eight bytes is converted like the unsigned integer it denotes -/
theorem bit_binary_as_integer (n : Nat) (bs : List UInt8) (h : bs.length ≤ 8) :
    convertBit n (.s bs) = convertBit n (.u (beVal bs)) := by
  simp only [convertBit]
  rw [if_neg (by omega), beVal_cast]

end Gms.Store
