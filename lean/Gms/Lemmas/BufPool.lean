/-
C35 — invariant of the scratch-buffer memory model (Gms/Model/BufPool.lean): as long as every
connection keeps the discipline, the buffers held by different connections are different, nobody
holds a pooled buffer, every pending row still reads as the bytes that were written for it, and
every client has read exactly what the engine produced.
-/
import Gms.Model.BufPool

namespace Gms.BufPool

theorem splice_length (mem : List Nat) (i : Nat) (bs : List Nat) (h : i ≤ mem.length) :
    i + bs.length ≤ (splice mem i bs).length := by
  simp [splice, List.length_take, List.length_drop]; omega

/-- The bytes just written read back. -/
theorem read_splice_at (mem : List Nat) (i : Nat) (bs : List Nat) (h : i ≤ mem.length) :
    ((splice mem i bs).drop i).take bs.length = bs := by
  have hl : (mem.take i).length = i := by simp [List.length_take]; omega
  unfold splice
  rw [List.append_assoc, List.drop_append_of_le_length (by omega)]
  have : (mem.take i).drop i = [] := by
    apply List.drop_eq_nil_of_le; omega
  rw [this, List.nil_append]
  simp

/-- A write at the write position does not touch what lies below it. -/
theorem read_splice_below (mem : List Nat) (i : Nat) (bs : List Nat) (off len : Nat)
    (h : i ≤ mem.length) (hb : off + len ≤ i) :
    ((splice mem i bs).drop off).take len = (mem.drop off).take len := by
  have hl : (mem.take i).length = i := by simp [List.length_take]; omega
  unfold splice
  rw [List.append_assoc, List.drop_append_of_le_length (by omega)]
  rw [List.take_append_of_le_length (by simp [List.length_drop]; omega)]
  rw [List.drop_take, List.take_take]
  congr 1
  omega

@[simp] theorem setConn_same (s : St) (c : Nat) (k : Conn) : (setConn s c k).conns c = k := by
  simp [setConn]
@[simp] theorem setConn_ne (s : St) (c c' : Nat) (k : Conn) (h : c' ≠ c) :
    (setConn s c k).conns c' = s.conns c' := by
  simp [setConn, h]
@[simp] theorem setConn_free (s : St) (c : Nat) (k : Conn) : (setConn s c k).free = s.free := rfl
@[simp] theorem setConn_bufs (s : St) (c : Nat) (k : Conn) : (setConn s c k).bufs = s.bufs := rfl
@[simp] theorem setConn_nbufs (s : St) (c : Nat) (k : Conn) : (setConn s c k).nbufs = s.nbufs := rfl

theorem apply_borrow_cons (s : St) (c b : Nat) (rest : List Nat) (hf : s.free = b :: rest) :
    apply s (.borrow c) = setConn { s with free := rest } c { (s.conns c) with held := some b } := by
  simp [apply, hf]

theorem apply_borrow_nil (s : St) (c : Nat) (hf : s.free = []) :
    apply s (.borrow c) =
      setConn { s with nbufs := s.nbufs + 1,
                       bufs := fun b => if b = s.nbufs then { mem := [], pos := 0 } else s.bufs b }
        c { (s.conns c) with held := some s.nbufs } := by
  simp [apply, hf]

/-- result states of the individual events, spelled out -/
def afterWrite (s : St) (c b : Nat) (row : List Nat) : St :=
  let bf := s.bufs b
  let bf' : Buf := { mem := splice bf.mem bf.pos row, pos := bf.pos + row.length }
  let k := s.conns c
  setConn { s with bufs := fun b' => if b' = b then bf' else s.bufs b' } c
    { k with pending := k.pending ++ [({ buf := b, off := bf.pos, len := row.length }, row)] }

def afterDeliver (s : St) (c : Nat) : St :=
  let k := s.conns c
  setConn s c { k with pending := [],
                       received := k.received ++ k.pending.map (fun p => deref s.bufs p.1),
                       sent := k.sent ++ k.pending.map (fun p => p.2) }

def afterRelease (s : St) (c b : Nat) : St :=
  let bf := s.bufs b
  let k := s.conns c
  setConn { s with free := b :: s.free,
                   bufs := fun b' => if b' = b then { bf with pos := 0 } else s.bufs b' }
    c { k with held := none }

theorem apply_write_some (s : St) (c b : Nat) (row : List Nat) (hb : (s.conns c).held = some b) :
    apply s (.write c row) = afterWrite s c b row := by
  simp [apply, hb, afterWrite]

theorem apply_deliver (s : St) (c : Nat) : apply s (.deliver c) = afterDeliver s c := rfl

theorem apply_drop (s : St) (c : Nat) :
    apply s (.drop c) = setConn s c { (s.conns c) with pending := [] } := rfl

theorem apply_release_some (s : St) (c b : Nat) (hb : (s.conns c).held = some b) :
    apply s (.release c) = afterRelease s c b := by
  simp [apply, hb, afterRelease]

structure Inv (s : St) : Prop where
  freeNodup : s.free.Nodup
  freeLt : ∀ b ∈ s.free, b < s.nbufs
  heldLt : ∀ c b, (s.conns c).held = some b → b < s.nbufs ∧ b ∉ s.free
  heldInj : ∀ c c' b, (s.conns c).held = some b → (s.conns c').held = some b → c = c'
  posLe : ∀ b, (s.bufs b).pos ≤ (s.bufs b).mem.length
  pendNone : ∀ c, (s.conns c).held = none → (s.conns c).pending = []
  pendHeld : ∀ c b, (s.conns c).held = some b → ∀ p ∈ (s.conns c).pending,
      p.1.buf = b ∧ p.1.off + p.1.len ≤ (s.bufs b).pos ∧ deref s.bufs p.1 = p.2
  recv : ∀ c, (s.conns c).received = (s.conns c).sent

theorem inv_init : Inv init := by
  constructor <;> simp [init, emptyConn]

/-- Frame: the `held` of every connection after an update of `c` that keeps `held`. -/
theorem held_setConn_keep (s : St) (c c' : Nat) (k : Conn) (hk : k.held = (s.conns c).held) :
    ((setConn s c k).conns c').held = (s.conns c').held := by
  by_cases hc : c' = c
  · subst hc; simp [hk]
  · simp [hc]

theorem inv_borrow (s : St) (c : Nat) (h : Inv s) (hp : pre s (.borrow c) = true) :
    Inv (apply s (.borrow c)) := by
  have hnone : (s.conns c).held = none := by
    simpa [pre, Option.isNone_iff_eq_none] using hp
  have hpend : (s.conns c).pending = [] := h.pendNone c hnone
  cases hf : s.free with
  | cons b rest =>
    rw [apply_borrow_cons s c b rest hf]
    have hnd : (b :: rest).Nodup := hf ▸ h.freeNodup
    have hbn : b ∉ rest := (List.nodup_cons.mp hnd).1
    have hblt : b < s.nbufs := h.freeLt b (by rw [hf]; simp)
    refine ⟨?_, ?_, ?_, ?_, ?_, ?_, ?_, ?_⟩
    · exact (List.nodup_cons.mp hnd).2
    · intro x hx; exact h.freeLt x (by rw [hf]; simp at hx ⊢; exact Or.inr hx)
    · intro c' b' hh
      by_cases hc : c' = c
      · subst hc; simp at hh; subst hh; exact ⟨hblt, hbn⟩
      · simp [hc] at hh
        have := h.heldLt c' b' hh
        rw [hf] at this
        simp at this ⊢
        exact ⟨this.1, this.2.2⟩
    · intro c1 c2 b' h1 h2
      by_cases hc1 : c1 = c <;> by_cases hc2 : c2 = c
      · rw [hc1, hc2]
      · subst hc1; simp at h1; simp [hc2] at h2; subst h1
        have := (h.heldLt c2 b h2).2; rw [hf] at this; simp at this
      · subst hc2; simp at h2; simp [hc1] at h1; subst h2
        have := (h.heldLt c1 b h1).2; rw [hf] at this; simp at this
      · simp [hc1] at h1; simp [hc2] at h2
        exact h.heldInj c1 c2 b' h1 h2
    · intro x; exact h.posLe x
    · intro c' hh
      by_cases hc : c' = c
      · subst hc; simp at hh
      · simp [hc] at hh ⊢; exact h.pendNone c' hh
    · intro c' b' hh p hpm
      by_cases hc : c' = c
      · subst hc; simp [hpend] at hpm
      · simp [hc] at hh hpm ⊢; exact h.pendHeld c' b' hh p hpm
    · intro c'
      by_cases hc : c' = c
      · subst hc; simp; exact h.recv c'
      · simp [hc]; exact h.recv c'
  | nil =>
    rw [apply_borrow_nil s c hf]
    refine ⟨?_, ?_, ?_, ?_, ?_, ?_, ?_, ?_⟩
    · simp [hf]
    · simp [hf]
    · intro c' b' hh
      by_cases hc : c' = c
      · subst hc; simp at hh; subst hh; simp [hf]
      · simp [hc] at hh
        have := (h.heldLt c' b' hh).1
        simp [hf]; omega
    · intro c1 c2 b' h1 h2
      by_cases hc1 : c1 = c <;> by_cases hc2 : c2 = c
      · rw [hc1, hc2]
      · subst hc1; simp at h1; simp [hc2] at h2; subst h1
        have := (h.heldLt c2 _ h2).1; omega
      · subst hc2; simp at h2; simp [hc1] at h1; subst h2
        have := (h.heldLt c1 _ h1).1; omega
      · simp [hc1] at h1; simp [hc2] at h2
        exact h.heldInj c1 c2 b' h1 h2
    · intro x
      by_cases hx : x = s.nbufs
      · simp [hx]
      · simp [hx]; exact h.posLe x
    · intro c' hh
      by_cases hc : c' = c
      · subst hc; simp at hh
      · simp [hc] at hh ⊢; exact h.pendNone c' hh
    · intro c' b' hh p hpm
      by_cases hc : c' = c
      · subst hc; simp [hpend] at hpm
      · simp [hc] at hh hpm
        have hb' : b' ≠ s.nbufs := by have := (h.heldLt c' b' hh).1; omega
        have := h.pendHeld c' b' hh p hpm
        refine ⟨this.1, ?_, ?_⟩
        · simp [hb']; exact this.2.1
        · have e := this.2.2
          unfold deref at e ⊢
          simp only [setConn_bufs, this.1, hb', if_false]
          rw [this.1] at e; exact e
    · intro c'
      by_cases hc : c' = c
      · subst hc; simp; exact h.recv c'
      · simp [hc]; exact h.recv c'

theorem inv_write (s : St) (c : Nat) (row : List Nat) (h : Inv s)
    (hp : pre s (.write c row) = true) : Inv (apply s (.write c row)) := by
  have hsome : ∃ b, (s.conns c).held = some b := by
    simpa [pre, Option.isSome_iff_exists] using hp
  obtain ⟨b, hb⟩ := hsome
  rw [apply_write_some s c b row hb]
  have hpos := h.posLe b
  have hkeep : ∀ c', ((afterWrite s c b row).conns c').held = (s.conns c').held := by
    intro c'
    by_cases hc : c' = c
    · subst hc; simp [afterWrite]
    · simp [afterWrite, hc]
  unfold afterWrite at hkeep ⊢
  simp only at hkeep ⊢
  refine ⟨h.freeNodup, h.freeLt, ?_, ?_, ?_, ?_, ?_, ?_⟩
  · intro c' b' hh
    rw [hkeep] at hh; exact h.heldLt c' b' hh
  · intro c1 c2 b' h1 h2
    rw [hkeep] at h1 h2; exact h.heldInj c1 c2 b' h1 h2
  · intro x
    by_cases hx : x = b
    · subst hx
      simp only [setConn_bufs, if_true]
      have := splice_length (s.bufs x).mem (s.bufs x).pos row hpos
      omega
    · simp [hx]; exact h.posLe x
  · intro c' hh
    rw [hkeep] at hh
    by_cases hc : c' = c
    · subst hc; rw [hb] at hh; simp at hh
    · simp [hc]; exact h.pendNone c' hh
  · intro c' b' hh p hpm
    rw [hkeep] at hh
    by_cases hc : c' = c
    · subst hc
      rw [hb] at hh
      have hbb : b = b' := by injection hh
      subst hbb
      simp only [setConn_same] at hpm
      rw [List.mem_append] at hpm
      rcases hpm with hold | hnew
      · have := h.pendHeld c' b hb p hold
        refine ⟨this.1, ?_, ?_⟩
        · simp only [setConn_bufs, if_true]; omega
        · have e := this.2.2
          unfold deref at e ⊢
          simp only [setConn_bufs, this.1, if_true]
          rw [this.1] at e
          rw [read_splice_below _ _ _ _ _ hpos this.2.1]; exact e
      · simp only [List.mem_singleton] at hnew
        subst hnew
        refine ⟨rfl, ?_, ?_⟩
        · simp
        · unfold deref
          simp only [setConn_bufs, if_true]
          exact read_splice_at _ _ _ hpos
    · simp only [setConn_ne _ _ _ _ hc] at hpm
      have hne : b' ≠ b := by
        intro e; subst e; exact hc (h.heldInj c' c b' hh hb)
      have := h.pendHeld c' b' hh p hpm
      refine ⟨this.1, ?_, ?_⟩
      · simp [hne]; exact this.2.1
      · have e := this.2.2
        unfold deref at e ⊢
        simp only [setConn_bufs, this.1, hne, if_false]
        rw [this.1] at e; exact e
  · intro c'
    by_cases hc : c' = c
    · subst hc; simp; exact h.recv c'
    · simp [hc]; exact h.recv c'

theorem inv_deliver (s : St) (c : Nat) (h : Inv s) (hp : pre s (.deliver c) = true) :
    Inv (apply s (.deliver c)) := by
  have hread : (s.conns c).pending.map (fun p => deref s.bufs p.1)
      = (s.conns c).pending.map (fun p => p.2) := by
    cases hh : (s.conns c).held with
    | none => rw [h.pendNone c hh]; rfl
    | some b =>
      apply List.map_congr_left
      intro p hpm
      exact (h.pendHeld c b hh p hpm).2.2
  rw [apply_deliver]
  have hkeep : ∀ c', ((afterDeliver s c).conns c').held = (s.conns c').held := by
    intro c'
    by_cases hc : c' = c
    · subst hc; simp [afterDeliver]
    · simp [afterDeliver, hc]
  unfold afterDeliver at hkeep ⊢
  simp only at hkeep ⊢
  refine ⟨h.freeNodup, h.freeLt, ?_, ?_, h.posLe, ?_, ?_, ?_⟩
  · intro c' b' hh
    rw [hkeep] at hh; exact h.heldLt c' b' hh
  · intro c1 c2 b' h1 h2
    rw [hkeep] at h1 h2; exact h.heldInj c1 c2 b' h1 h2
  · intro c' hh
    rw [hkeep] at hh
    by_cases hc : c' = c
    · subst hc; simp
    · simp [hc]; exact h.pendNone c' hh
  · intro c' b' hh p hpm
    rw [hkeep] at hh
    by_cases hc : c' = c
    · subst hc; simp at hpm
    · simp [hc] at hpm ⊢; exact h.pendHeld c' b' hh p hpm
  · intro c'
    by_cases hc : c' = c
    · subst hc; simp only [setConn_same]; rw [hread, h.recv c']
    · simp [hc]; exact h.recv c'

theorem inv_drop (s : St) (c : Nat) (h : Inv s) : Inv (apply s (.drop c)) := by
  rw [apply_drop]
  have hkeep : ∀ c', ((setConn s c { (s.conns c) with pending := [] }).conns c').held
        = (s.conns c').held := by
    intro c'
    by_cases hc : c' = c
    · subst hc; simp
    · simp [hc]
  refine ⟨h.freeNodup, h.freeLt, ?_, ?_, h.posLe, ?_, ?_, ?_⟩
  · intro c' b' hh
    rw [hkeep] at hh; exact h.heldLt c' b' hh
  · intro c1 c2 b' h1 h2
    rw [hkeep] at h1 h2; exact h.heldInj c1 c2 b' h1 h2
  · intro c' hh
    rw [hkeep] at hh
    by_cases hc : c' = c
    · subst hc; simp
    · simp [hc]; exact h.pendNone c' hh
  · intro c' b' hh p hpm
    rw [hkeep] at hh
    by_cases hc : c' = c
    · subst hc; simp at hpm
    · simp [hc] at hpm ⊢; exact h.pendHeld c' b' hh p hpm
  · intro c'
    by_cases hc : c' = c
    · subst hc; simp; exact h.recv c'
    · simp [hc]; exact h.recv c'

theorem inv_release (s : St) (c : Nat) (h : Inv s) (hp : pre s (.release c) = true) :
    Inv (apply s (.release c)) := by
  have hp' : (∃ b, (s.conns c).held = some b) ∧ (s.conns c).pending = [] := by
    simpa [pre, Option.isSome_iff_exists, List.isEmpty_iff] using hp
  obtain ⟨⟨b, hb⟩, hpend⟩ := hp'
  have hbl := h.heldLt c b hb
  rw [apply_release_some s c b hb]
  unfold afterRelease
  simp only
  refine ⟨?_, ?_, ?_, ?_, ?_, ?_, ?_, ?_⟩
  · simp only [setConn_free]; exact List.nodup_cons.mpr ⟨hbl.2, h.freeNodup⟩
  · intro x hx
    simp only [setConn_free, List.mem_cons] at hx
    rcases hx with e | e
    · rw [e]; exact hbl.1
    · exact h.freeLt x e
  · intro c' b' hh
    by_cases hc : c' = c
    · subst hc; simp at hh
    · simp only [setConn_ne _ _ _ _ hc] at hh
      have := h.heldLt c' b' hh
      refine ⟨this.1, ?_⟩
      simp only [setConn_free, List.mem_cons, not_or]
      refine ⟨?_, this.2⟩
      intro e; subst e; exact hc (h.heldInj c' c b' hh hb)
  · intro c1 c2 b' h1 h2
    by_cases hc1 : c1 = c
    · subst hc1; simp at h1
    · by_cases hc2 : c2 = c
      · subst hc2; simp at h2
      · simp only [setConn_ne _ _ _ _ hc1] at h1
        simp only [setConn_ne _ _ _ _ hc2] at h2
        exact h.heldInj c1 c2 b' h1 h2
  · intro x
    by_cases hx : x = b
    · simp [hx]
    · simp [hx]; exact h.posLe x
  · intro c' hh
    by_cases hc : c' = c
    · subst hc; simp; exact hpend
    · simp [hc] at hh ⊢; exact h.pendNone c' hh
  · intro c' b' hh p hpm
    by_cases hc : c' = c
    · subst hc; simp at hh
    · simp only [setConn_ne _ _ _ _ hc] at hh hpm
      have hne : b' ≠ b := by
        intro e; subst e; exact hc (h.heldInj c' c b' hh hb)
      have := h.pendHeld c' b' hh p hpm
      refine ⟨this.1, ?_, ?_⟩
      · simp [hne]; exact this.2.1
      · have e := this.2.2
        unfold deref at e ⊢
        simp only [setConn_bufs, this.1, hne, if_false]
        rw [this.1] at e; exact e
  · intro c'
    by_cases hc : c' = c
    · subst hc; simp; exact h.recv c'
    · simp [hc]; exact h.recv c'

theorem inv_apply (s : St) (e : Ev) (h : Inv s) (hp : pre s e = true) : Inv (apply s e) := by
  cases e with
  | borrow c => exact inv_borrow s c h hp
  | write c row => exact inv_write s c row h hp
  | deliver c => exact inv_deliver s c h hp
  | drop c => exact inv_drop s c h
  | release c => exact inv_release s c h hp

/-- `Inv` does not mention the flag. -/
theorem inv_bad_irrel (s : St) (b : Bool) (h : Inv s) : Inv { s with bad := b } :=
  ⟨h.freeNodup, h.freeLt, h.heldLt, h.heldInj, h.posLe, h.pendNone, h.pendHeld, h.recv⟩

theorem bad_sticky (s : St) (es : List Ev) (h : (run s es).bad = false) : s.bad = false := by
  induction es generalizing s with
  | nil => exact h
  | cons e es ih =>
    have := ih (step s e) h
    simp [step] at this
    exact this.1

theorem inv_run (s : St) (es : List Ev) (h : Inv s) (hb : (run s es).bad = false) :
    Inv (run s es) := by
  induction es generalizing s with
  | nil => exact h
  | cons e es ih =>
    have hs : (step s e).bad = false := bad_sticky (step s e) es hb
    have hpre : pre s e = true := by
      simp [step] at hs; exact hs.2
    exact ih (step s e) (inv_bad_irrel (apply s e) _ (inv_apply s e h hpre)) hb

/-! ### Server-side cursor: alone on the server the late read is still right -/

theorem run_append (s : St) (xs ys : List Ev) : run s (xs ++ ys) = run (run s xs) ys := by
  induction xs generalizing s with
  | nil => rfl
  | cons x xs ih => exact ih (step s x)

/-- Writing rows while holding a buffer keeps the discipline (and the buffer). -/
theorem run_writes (s : St) (c b : Nat) (rows : List (List Nat)) (hb : (s.conns c).held = some b) :
    (run s (rows.map (Ev.write c))).bad = s.bad ∧
    ((run s (rows.map (Ev.write c))).conns c).held = some b := by
  induction rows generalizing s with
  | nil => exact ⟨rfl, hb⟩
  | cons r rs ih =>
    have hpre : pre s (.write c r) = true := by simp [pre, hb]
    have hstep : (step s (.write c r)).bad = s.bad := by simp [step, hpre]
    have hheld : ((step s (.write c r)).conns c).held = some b := by
      simp [step, apply_write_some s c b r hb, afterWrite, hb]
    have := ih (step s (.write c r)) hheld
    simp only [List.map_cons, run]
    exact ⟨this.1.trans hstep, this.2⟩

/-- Giving the buffer back does not change a byte of memory. -/
theorem deref_after_release (s : St) (c : Nat) (p : Slice) :
    deref (apply s (.release c)).bufs p = deref s.bufs p := by
  cases hb : (s.conns c).held with
  | none => simp [apply, hb]
  | some b =>
    rw [apply_release_some s c b hb]
    unfold afterRelease deref
    simp only [setConn_bufs]
    by_cases h : p.buf = b
    · simp [h]
    · simp [h]

theorem cursor_alone_exact (c : Nat) (rows : List (List Nat)) :
    let s := run init (cursorTrace c rows [])
    (s.conns c).received = (s.conns c).sent := by
  intro s
  -- the state after `borrow` and the writes is disciplined
  let s1 := run init ([Ev.borrow c] ++ rows.map (Ev.write c))
  have hs : s = run s1 [Ev.release c, Ev.deliver c] := by
    show run init (cursorTrace c rows []) = _
    unfold cursorTrace
    rw [List.append_nil, List.append_assoc ([Ev.borrow c] ++ rows.map (Ev.write c)), run_append]
    rfl
  have hborrow : ((step init (.borrow c)).conns c).held = some 0 := by
    simp [step, apply, init, setConn]
  have hbad0 : (step init (.borrow c)).bad = false := by
    simp [step, pre, init, emptyConn]
  have hw := run_writes (step init (.borrow c)) c 0 rows hborrow
  have hbad1 : s1.bad = false := by
    show (run init ([Ev.borrow c] ++ rows.map (Ev.write c))).bad = false
    rw [run_append]; show (run (step init (.borrow c)) _).bad = false
    rw [hw.1]; exact hbad0
  have hheld1 : (s1.conns c).held = some 0 := by
    show ((run init ([Ev.borrow c] ++ rows.map (Ev.write c))).conns c).held = some 0
    rw [run_append]; exact hw.2
  have inv1 : Inv s1 := inv_run init _ inv_init hbad1
  -- release: memory unchanged, pending unchanged; deliver reads what was written
  have hpend : ∀ p ∈ (s1.conns c).pending, deref (apply s1 (.release c)).bufs p.1 = p.2 := by
    intro p hp
    rw [deref_after_release]
    exact (inv1.pendHeld c 0 hheld1 p hp).2.2
  have hrel : ((apply s1 (.release c)).conns c) = { (s1.conns c) with held := none } := by
    rw [apply_release_some s1 c 0 hheld1]; simp [afterRelease]
  rw [hs]
  simp only [run, step, apply_deliver, afterDeliver, setConn_same, hrel]
  have hmap : (s1.conns c).pending.map (fun p => deref (apply s1 (.release c)).bufs p.1)
      = (s1.conns c).pending.map (fun p => p.2) :=
    List.map_congr_left hpend
  simp only [hmap, inv1.recv c]

end Gms.BufPool
