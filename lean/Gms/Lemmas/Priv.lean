/-
Lemmas about the access-control model (Gms/Model/Priv.lean): Go-map association lists, privilege
lists, and — the core — what every `PrivSet` operation does to the abstraction `PrivSet.holds`.
Used by Props/C39.lean and Props/C41.lean.
-/
import Gms.Model.Priv

namespace Gms.Priv

/-! ## Go maps -/
section Map
variable {κ α : Type} [DecidableEq κ]

theorem mget_merase (m : List (κ × α)) (k k' : κ) :
    mget (merase m k) k' = if k' = k then none else mget m k' := by
  induction m with
  | nil => simp [merase, mget]
  | cons e r ih =>
    obtain ⟨a, v⟩ := e
    unfold merase at ih ⊢
    simp only [List.filter_cons]
    by_cases h : a = k <;> by_cases h' : k' = k <;> by_cases h2 : a = k' <;> simp_all [mget]

theorem mget_mset (m : List (κ × α)) (k : κ) (v : α) (k' : κ) :
    mget (mset m k v) k' = if k' = k then some v else mget m k' := by
  unfold mset
  by_cases h : k' = k
  · subst h; simp [mget]
  · have h' : ¬ k = k' := fun e => h e.symm
    simp [mget, h, h', mget_merase]

theorem mget_of_mem_fst (m : List (κ × α)) (e : κ × α) (h : e ∈ m) : ∃ v, mget m e.1 = some v := by
  induction m with
  | nil => simp at h
  | cons e' r ih =>
    obtain ⟨a, v⟩ := e'
    by_cases ha : a = e.1
    · exact ⟨v, by simp [mget, ha]⟩
    · rcases List.mem_cons.mp h with rfl | hr
      · exact absurd rfl ha
      · obtain ⟨w, hw⟩ := ih hr
        exact ⟨w, by simp [mget, ha, hw]⟩

theorem mem_of_mget (m : List (κ × α)) (k : κ) (v : α) (h : mget m k = some v) : (k, v) ∈ m := by
  induction m with
  | nil => simp [mget] at h
  | cons e r ih =>
    obtain ⟨a, w⟩ := e
    by_cases ha : a = k
    · subst ha; simp [mget] at h; subst h; simp
    · simp [mget, ha] at h; exact List.mem_cons_of_mem _ (ih h)

theorem manyVal_iff (m : List (κ × α)) (P : α → Bool) :
    manyVal m P = true ↔ ∃ k v, mget m k = some v ∧ P v = true := by
  unfold manyVal
  rw [List.any_eq_true]
  constructor
  · rintro ⟨e, _, he⟩
    cases hg : mget m e.1 with
    | none => simp [hg] at he
    | some v => exact ⟨e.1, v, hg, by simpa [hg] using he⟩
  · rintro ⟨k, v, hg, hp⟩
    exact ⟨(k, v), mem_of_mget m k v hg, by simp [hg, hp]⟩

/-- Folding over the map denoted by `o`: an invariant-style induction principle. -/
theorem mfold_induct {β : Type} (o : List (κ × α)) (f : β → κ → α → β) (init : β) (Q : β → Prop)
    (h0 : Q init) (hstep : ∀ b k v, Q b → mget o k = some v → Q (f b k v)) : Q (mfold o f init) := by
  unfold mfold
  suffices h : ∀ (l : List (κ × α)) (b : β), Q b →
      Q (l.foldl (fun acc e => match mget o e.1 with | some v => f acc e.1 v | none => acc) b) from h o init h0
  intro l
  induction l with
  | nil => intro b hb; simpa using hb
  | cons e r ih =>
    intro b hb
    simp only [List.foldl_cons]
    apply ih
    cases hg : mget o e.1 with
    | none => simpa using hb
    | some v => exact hstep b e.1 v hb hg
end Map

/-! ## privilege lists -/

theorem mem_pins (l : List Priv) (p q : Priv) : q ∈ pins l p ↔ q ∈ l ∨ q = p := by
  unfold pins
  by_cases h : p ∈ l
  · simp only [h, if_true]
    constructor
    · exact Or.inl
    · rintro (h' | rfl)
      · exact h'
      · exact h
  · simp [h]

theorem mem_pinsAll (l ps : List Priv) (q : Priv) : q ∈ pinsAll l ps ↔ q ∈ l ∨ q ∈ ps := by
  unfold pinsAll
  induction ps generalizing l with
  | nil => simp
  | cons p r ih =>
    simp only [List.foldl_cons, List.mem_cons]
    rw [ih, mem_pins]
    constructor
    · rintro ((h | h) | h)
      · exact Or.inl h
      · exact Or.inr (Or.inl h)
      · exact Or.inr (Or.inr h)
    · rintro (h | h | h)
      · exact Or.inl (Or.inl h)
      · exact Or.inl (Or.inr h)
      · exact Or.inr h

theorem mem_prem (l : List Priv) (p q : Priv) : q ∈ prem l p ↔ q ∈ l ∧ q ≠ p := by
  simp [prem]

theorem mem_premAll (l ps : List Priv) (q : Priv) : q ∈ premAll l ps ↔ q ∈ l ∧ q ∉ ps := by
  unfold premAll
  induction ps generalizing l with
  | nil => simp
  | cons p r ih =>
    simp only [List.foldl_cons, List.mem_cons, not_or]
    rw [ih, mem_prem]
    constructor
    · rintro ⟨⟨h1, h2⟩, h3⟩; exact ⟨h1, h2, h3⟩
    · rintro ⟨h1, h2, h3⟩; exact ⟨⟨h1, h2⟩, h3⟩

theorem isEmpty_iff_forall_not_mem (l : List Priv) : l.isEmpty = true ↔ ∀ p, p ∉ l := by
  cases l with
  | nil => simp
  | cons a r =>
    simp only [List.isEmpty_cons, Bool.false_eq_true, false_iff]
    intro h
    exact h a (by simp)


section
variable {κ α β : Type} [DecidableEq κ]

theorem foldl_mset_obs (o : List (κ × α)) (F : Option β → α → β) (obs : Option β → Bool) (obsv : α → Bool)
    (hF : ∀ x v, obs (some (F x v)) = (obs x || obsv v)) (k : κ) (l : List (κ × α)) (acc : List (κ × β)) :
    obs (mget (l.foldl (fun acc e => match mget o e.1 with
        | some v => mset acc e.1 (F (mget acc e.1) v) | none => acc) acc) k)
      = (obs (mget acc k) || (l.any (fun e => decide (e.1 = k)) &&
          (match mget o k with | some v => obsv v | none => false))) := by
  induction l generalizing acc with
  | nil => simp
  | cons e r ih =>
    simp only [List.foldl_cons, List.any_cons]
    rw [ih]
    by_cases hk : e.1 = k
    · subst hk
      cases hm : mget o e.1 with
      | none => simp
      | some v =>
        simp only [mget_mset, if_true, hF, decide_true, Bool.true_or, Bool.true_and]
        cases obs (mget acc e.1) <;> cases obsv v <;> simp
    · have hk' : ¬ k = e.1 := fun h => hk h.symm
      cases hm : mget o e.1 with
      | none => simp [hk]
      | some v => simp [mget_mset, hk, hk']

theorem any_fst_eq_iff (o : List (κ × α)) (k : κ) : o.any (fun e => decide (e.1 = k)) = (mget o k).isSome := by
  induction o with
  | nil => simp [mget]
  | cons e r ih =>
    obtain ⟨a, v⟩ := e
    by_cases h : a = k <;> simp [mget, h, ih]

theorem mfold_mset_obs (o : List (κ × α)) (F : Option β → α → β) (obs : Option β → Bool) (obsv : α → Bool)
    (hF : ∀ x v, obs (some (F x v)) = (obs x || obsv v)) (init : List (κ × β)) (k : κ) :
    obs (mget (mfold o (fun acc k v => mset acc k (F (mget acc k) v)) init) k)
      = (obs (mget init k) || (match mget o k with | some v => obsv v | none => false)) := by
  unfold mfold
  have := foldl_mset_obs o F obs obsv hF k o init
  rw [any_fst_eq_iff] at this
  refine Eq.trans this ?_
  cases mget o k <;> simp
end


/-! ## What each operation of privilege_set.go does to `holds` -/
namespace PrivSet

theorem glob_mem_map (p : Priv) (l : List Priv) : Grant.glob p ∈ l.map Grant.glob ↔ p ∈ l := by
  simp

theorem holds_addGlobal (ps : PrivSet) (privs : List Priv) (g : Grant) :
    (ps.addGlobal privs).holds g = (ps.holds g || decide (g ∈ privs.map Grant.glob)) := by
  cases g <;> simp [holds, addGlobal, mem_pinsAll]

theorem holds_remGlobal (ps : PrivSet) (privs : List Priv) (g : Grant) :
    (ps.remGlobal privs).holds g = (ps.holds g && !decide (g ∈ privs.map Grant.glob)) := by
  cases g <;> simp [holds, remGlobal, mem_premAll]

theorem holds_clearGlobal (ps : PrivSet) (g : Grant) :
    ps.clearGlobal.holds g = (ps.holds g && !g.isGlobalLevel) := by
  cases g <;> simp [holds, clearGlobal, Grant.isGlobalLevel, mget]

theorem mget_foldl_mset (names : List String) (wgo : Bool) (m : List (String × Bool)) (k : String) :
    (mget (names.foldl (fun m n => mset m (lower n) wgo) m) k).isSome =
      ((mget m k).isSome || decide (k ∈ names.map lower)) := by
  induction names generalizing m with
  | nil => simp
  | cons n r ih =>
    simp only [List.foldl_cons, List.map_cons, List.mem_cons]
    rw [ih, mget_mset]
    by_cases h : k = lower n <;> simp [h]

theorem holds_addDynamic (ps : PrivSet) (wgo : Bool) (names : List String) (g : Grant) :
    (ps.addDynamic wgo names).holds g = (ps.holds g || decide (g ∈ names.map (fun n => Grant.dyn (lower n)))) := by
  cases g with
  | dyn n =>
    have := mget_foldl_mset names wgo ps.dynamic n
    simp only [holds, addDynamic, this]
    congr 1
    simp
  | glob p => simp [holds, addDynamic]; rfl
  | db d p => simp [holds, addDynamic]
  | tbl d t p => simp [holds, addDynamic]
  | rtn d r b p => simp [holds, addDynamic]

theorem mget_foldl_merase (names : List String) (m : List (String × Bool)) (k : String) :
    (mget (names.foldl merase m) k).isSome = ((mget m k).isSome && !decide (k ∈ names)) := by
  induction names generalizing m with
  | nil => simp
  | cons n r ih =>
    simp only [List.foldl_cons, List.mem_cons]
    rw [ih, mget_merase]
    by_cases h : k = n <;> simp [h]

theorem holds_remDynamic (ps : PrivSet) (names : List String) (g : Grant) :
    (ps.remDynamic names).holds g = (ps.holds g && !decide (g ∈ names.map Grant.dyn)) := by
  cases g with
  | dyn n =>
    have := mget_foldl_merase names ps.dynamic n
    simp only [holds, remDynamic, this]
    congr 1
    simp
  | glob p => simp [holds, remDynamic]; rfl
  | db d p => simp [holds, remDynamic]
  | tbl d t p => simp [holds, remDynamic]
  | rtn d r b p => simp [holds, remDynamic]


/-- What a database entry says about a grant located in that database. -/
def _root_.Gms.Priv.DbSet.holdsIn (s : DbSet) : Grant → Bool
  | .db _ p => p ∈ s.privs
  | .tbl _ t p => match mget s.tables t with | some tp => p ∈ tp | none => false
  | .rtn _ r b p => match mget s.routines (r, b) with | some rp => p ∈ rp | none => false
  | _ => false

theorem holds_atDb (ps : PrivSet) (d : String) (g : Grant) (h : g.atDb d = true) :
    ps.holds g = match mget ps.dbs d with | some s => s.holdsIn g | none => false := by
  cases g <;> simp [Grant.atDb] at h <;> subst h <;> simp [holds, DbSet.holdsIn] <;> rfl

theorem holds_dbs_congr (ps : PrivSet) (dbs' : List (String × DbSet)) (g : Grant)
    (h : ∀ d, g.atDb d = true → mget dbs' d = mget ps.dbs d) :
    ({ ps with dbs := dbs' } : PrivSet).holds g = ps.holds g := by
  cases g with
  | glob p => rfl
  | dyn n => rfl
  | db d p => simp [holds, h d (by simp [Grant.atDb])]
  | tbl d t p => simp [holds, h d (by simp [Grant.atDb])]
  | rtn d r b p => simp [holds, h d (by simp [Grant.atDb])]

theorem holds_setDb (ps : PrivSet) (d : String) (s : DbSet) (g : Grant) :
    (ps.setDb d s).holds g = if g.atDb (lower d) then s.holdsIn g else ps.holds g := by
  by_cases h : g.atDb (lower d) = true
  · rw [holds_atDb _ _ _ h]
    simp [h, setDb, mget_mset]
  · simp only [h, Bool.false_eq_true, if_false]
    apply holds_dbs_congr
    intro d' hd'
    rw [mget_mset]
    have : d' ≠ lower d := by rintro rfl; exact h hd'
    simp [this]

theorem holds_eraseDb (ps : PrivSet) (k : String) (g : Grant) :
    ({ ps with dbs := merase ps.dbs k } : PrivSet).holds g = (ps.holds g && !g.atDb k) := by
  by_cases h : g.atDb k = true
  · rw [holds_atDb _ _ _ h]
    simp [h, mget_merase]
  · simp only [h, Bool.not_false, Bool.and_true]
    apply holds_dbs_congr
    intro d' hd'
    rw [mget_merase]
    have : d' ≠ k := by rintro rfl; exact h hd'
    simp [this]

theorem holdsIn_dbOrNew (ps : PrivSet) (d : String) (g : Grant) (h : g.atDb (lower d) = true) :
    (ps.dbOrNew d).holdsIn g = ps.holds g := by
  rw [holds_atDb _ _ _ h]
  unfold dbOrNew
  cases mget ps.dbs (lower d) with
  | some s => rfl
  | none => cases g <;> simp [DbSet.holdsIn, mget]

theorem holds_addDb (ps : PrivSet) (d : String) (privs : List Priv) (g : Grant) :
    (ps.addDb d privs).holds g = (ps.holds g || decide (g ∈ privs.map (Grant.db (lower d)))) := by
  unfold addDb
  simp only [holds_setDb]
  by_cases h : g.atDb (lower d) = true
  · simp only [h, if_true]
    rw [← holdsIn_dbOrNew ps d g h]
    cases g <;> simp [Grant.atDb] at h <;> subst h <;> simp [DbSet.holdsIn, mem_pinsAll]
  · simp only [h, Bool.false_eq_true, if_false]
    cases g <;> simp [Grant.atDb] at h <;> simp <;> intros <;> simp_all

theorem holds_addTbl (ps : PrivSet) (d t : String) (privs : List Priv) (g : Grant) :
    (ps.addTbl d t privs).holds g = (ps.holds g || decide (g ∈ privs.map (Grant.tbl (lower d) (lower t)))) := by
  unfold addTbl
  simp only [holds_setDb]
  by_cases h : g.atDb (lower d) = true
  · simp only [h, if_true]
    rw [← holdsIn_dbOrNew ps d g h]
    cases g <;> simp [Grant.atDb] at h <;> subst h <;> simp [DbSet.holdsIn, mget_mset]
    case tbl t' p =>
      by_cases ht : t' = lower t
      · subst ht
        cases hm : mget (ps.dbOrNew d).tables (lower t) <;> simp [hm, mem_pinsAll]
      · simp [ht]
        intros; simp_all
  · simp only [h, Bool.false_eq_true, if_false]
    cases g <;> simp [Grant.atDb] at h <;> simp <;> intros <;> simp_all

theorem holds_addRtn (ps : PrivSet) (d r : String) (b : Bool) (privs : List Priv) (g : Grant) :
    (ps.addRtn d r b privs).holds g = (ps.holds g || decide (g ∈ privs.map (Grant.rtn (lower d) (lower r) b))) := by
  unfold addRtn
  simp only [holds_setDb]
  by_cases h : g.atDb (lower d) = true
  · simp only [h, if_true]
    rw [← holdsIn_dbOrNew ps d g h]
    cases g <;> simp [Grant.atDb] at h <;> subst h <;> simp [DbSet.holdsIn, mget_mset]
    case rtn r' b' p =>
      by_cases hr : (r', b') = (lower r, b)
      · obtain ⟨rfl, rfl⟩ := Prod.mk.inj hr
        cases hm : mget (ps.dbOrNew d).routines (lower r, b') <;> simp [hm, mem_pinsAll]
      · have hr' : ¬ (r' = lower r ∧ b' = b) := fun ⟨h1, h2⟩ => hr (by rw [h1, h2])
        simp [hr']
        intros; simp_all
  · simp only [h, Bool.false_eq_true, if_false]
    cases g <;> simp [Grant.atDb] at h <;> simp <;> intros <;> simp_all


theorem all_atDb_db (k : String) (privs : List Priv) : ∀ x ∈ privs.map (Grant.db k), x.atDb k = true := by
  intro x hx; obtain ⟨p, _, rfl⟩ := List.mem_map.mp hx; simp [Grant.atDb]
theorem all_atDb_tbl (k t : String) (privs : List Priv) : ∀ x ∈ privs.map (Grant.tbl k t), x.atDb k = true := by
  intro x hx; obtain ⟨p, _, rfl⟩ := List.mem_map.mp hx; simp [Grant.atDb]
theorem all_atDb_rtn (k r : String) (b : Bool) (privs : List Priv) : ∀ x ∈ privs.map (Grant.rtn k r b), x.atDb k = true := by
  intro x hx; obtain ⟨p, _, rfl⟩ := List.mem_map.mp hx; simp [Grant.atDb]

theorem decide_mem_false_of_not_atDb (g : Grant) (k : String) (L : List Grant)
    (hL : ∀ x ∈ L, x.atDb k = true) (h : ¬ g.atDb k = true) : decide (g ∈ L) = false := by
  simp only [decide_eq_false_iff_not]
  intro hg; exact h (hL g hg)

theorem holds_false_of_none (ps : PrivSet) (k : String) (g : Grant) (hm : mget ps.dbs k = none)
    (h : g.atDb k = true) : ps.holds g = false := by
  rw [holds_atDb _ _ _ h, hm]

theorem holds_clearDb (ps : PrivSet) (d : String) (g : Grant) :
    (ps.clearDb d).holds g = (ps.holds g && !g.atDb (lower d)) := holds_eraseDb ps (lower d) g

/-- `RemoveDatabase` deleted the whole entry of database `d`. -/
def dbEmptied (ps : PrivSet) (d : String) (privs : List Priv) : Bool :=
  match mget ps.dbs (lower d) with
  | some s => (premAll s.privs privs).isEmpty
  | none => false

theorem holds_remDb (ps : PrivSet) (d : String) (privs : List Priv) (g : Grant) :
    (ps.remDb d privs).holds g =
      if ps.dbEmptied d privs then (ps.holds g && !g.atDb (lower d))
      else (ps.holds g && !decide (g ∈ privs.map (Grant.db (lower d)))) := by
  unfold remDb dbEmptied
  by_cases h : g.atDb (lower d) = true
  · cases hm : mget ps.dbs (lower d) with
    | none => simp [holds_false_of_none ps _ g hm h]
    | some s =>
      simp only
      by_cases he : (premAll s.privs privs).isEmpty = true
      · simp only [he, if_true]
        exact holds_eraseDb ps (lower d) g
      · simp only [he, Bool.false_eq_true, if_false]
        rw [holds_setDb]
        simp only [h, if_true]
        rw [holds_atDb _ _ _ h, hm]
        cases g <;> simp [Grant.atDb] at h <;> subst h <;> simp [DbSet.holdsIn, mem_premAll]
  · have hn := decide_mem_false_of_not_atDb g (lower d) _ (all_atDb_db (lower d) privs) h
    have hf : g.atDb (lower d) = false := by simpa using h
    cases hm : mget ps.dbs (lower d) with
    | none => simp only [Bool.false_eq_true, if_false]; rw [hn]; simp
    | some s =>
      simp only
      by_cases he : (premAll s.privs privs).isEmpty = true
      · simp only [he, if_true]
        exact holds_eraseDb ps (lower d) g
      · simp only [he, Bool.false_eq_true, if_false]
        rw [holds_setDb, hn]
        simp [hf]


theorem holds_remTbl (ps : PrivSet) (d t : String) (privs : List Priv) (g : Grant) :
    (ps.remTbl d t privs).holds g = (ps.holds g && !decide (g ∈ privs.map (Grant.tbl (lower d) (lower t)))) := by
  unfold remTbl
  by_cases h : g.atDb (lower d) = true
  · cases hm : mget ps.dbs (lower d) with
    | none => simp [holds_false_of_none ps _ g hm h]
    | some s =>
      simp only
      cases ht : mget s.tables (lower t) with
      | none =>
        simp only
        rw [holds_atDb _ _ _ h, hm]
        cases g <;> simp [Grant.atDb] at h <;> subst h <;> simp [DbSet.holdsIn]
        case tbl t' p =>
          by_cases htt : t' = lower t
          · subst htt; simp [ht]
          · intro _; exact Or.inr (fun e => htt e.symm)
      | some tp =>
        simp only
        rw [holds_setDb]
        simp only [h, if_true]
        rw [holds_atDb _ _ _ h, hm]
        cases g <;> simp [Grant.atDb] at h <;> subst h <;> simp [DbSet.holdsIn, mget_mset]
        case tbl t' p =>
          by_cases htt : t' = lower t
          · subst htt; simp [ht, mem_premAll]
          · simp [htt]
            intro _; exact Or.inr (fun e => htt e.symm)
  · have hn := decide_mem_false_of_not_atDb g (lower d) _ (all_atDb_tbl (lower d) (lower t) privs) h
    have hf : g.atDb (lower d) = false := by simpa using h
    rw [hn]
    cases hm : mget ps.dbs (lower d) with
    | none => simp
    | some s =>
      simp only
      cases ht : mget s.tables (lower t) with
      | none => simp
      | some tp => simp only; rw [holds_setDb]; simp [hf]

theorem holds_clearTbl (ps : PrivSet) (d t : String) (g : Grant) :
    (ps.clearTbl d t).holds g = (ps.holds g && !g.isTbl (lower d) (lower t)) := by
  unfold clearTbl
  simp only [holds_setDb]
  by_cases h : g.atDb (lower d) = true
  · simp only [h, if_true]
    rw [← holdsIn_dbOrNew ps d g h]
    cases g <;> simp [Grant.atDb] at h <;> subst h <;> simp [DbSet.holdsIn, mget_mset, Grant.isTbl]
    case tbl t' p =>
      by_cases htt : t' = lower t <;> simp [htt]
  · have hf : g.atDb (lower d) = false := by simpa using h
    simp only [hf, Bool.false_eq_true, if_false]
    cases g <;> simp [Grant.atDb] at hf <;> simp [Grant.isTbl]
    case tbl d' t' p => intro _; exact Or.inl hf

def memOpt (o : Option (List Priv)) (p : Priv) : Bool := match o with | some l => decide (p ∈ l) | none => false

theorem mget_remRtn_routines (m : List ((String × Bool) × List Priv)) (r : String) (b : Bool)
    (privs : List Priv) (k : String × Bool) (p : Priv) :
    memOpt (mget (if (premAll ((mget m (lower r, b)).getD []) privs).isEmpty ∧ r = lower r
            then merase (mset m (lower r, b) (premAll ((mget m (lower r, b)).getD []) privs)) (r, b)
            else mset m (lower r, b) (premAll ((mget m (lower r, b)).getD []) privs)) k) p =
      (memOpt (mget m k) p && !(decide (k = (lower r, b)) && decide (p ∈ privs))) := by
  by_cases hc : (premAll ((mget m (lower r, b)).getD []) privs).isEmpty = true ∧ r = lower r
  · rw [if_pos hc]
    obtain ⟨he, hrr⟩ := hc
    rw [mget_merase, mget_mset, ← hrr]
    by_cases hk : k = (r, b)
    · subst hk
      simp only [if_true, memOpt]
      rw [isEmpty_iff_forall_not_mem] at he
      have := he p
      rw [mem_premAll, ← hrr] at this
      cases hm : mget m (r, b) with
      | none => simp
      | some l => simp [hm] at this ⊢; exact this
    · simp [hk]
  · rw [if_neg hc, mget_mset]
    by_cases hk : k = (lower r, b)
    · subst hk
      simp only [if_true, memOpt]
      cases hm : mget m (lower r, b) <;> simp [mem_premAll]
    · simp [hk]

theorem holds_remRtn (ps : PrivSet) (d r : String) (b : Bool) (privs : List Priv) (g : Grant) :
    (ps.remRtn d r b privs).holds g = (ps.holds g && !decide (g ∈ privs.map (Grant.rtn (lower d) (lower r) b))) := by
  unfold remRtn
  simp only [holds_setDb]
  by_cases h : g.atDb (lower d) = true
  · simp only [h, if_true]
    rw [← holdsIn_dbOrNew ps d g h]
    cases g with
    | glob p => simp [Grant.atDb] at h
    | dyn n => simp [Grant.atDb] at h
    | db d' p => simp [DbSet.holdsIn]
    | tbl d' t' p => simp [DbSet.holdsIn]
    | rtn d' r' b' p =>
      simp [Grant.atDb] at h
      subst h
      have := mget_remRtn_routines (ps.dbOrNew d).routines r b privs (r', b') p
      simp only [memOpt] at this
      simp only [DbSet.holdsIn]
      refine Eq.trans this ?_
      congr 1
      by_cases hk : (r', b') = (lower r, b)
      · obtain ⟨rfl, rfl⟩ := Prod.mk.inj hk
        simp
      · have hr' : ¬ (r' = lower r ∧ b' = b) := fun ⟨h1, h2⟩ => hk (by rw [h1, h2])
        simp [hk]
        intro x _ h2 h3
        exact absurd ⟨h2.symm, h3.symm⟩ hr'
  · have hn := decide_mem_false_of_not_atDb g (lower d) _ (all_atDb_rtn (lower d) (lower r) b privs) h
    have hf : g.atDb (lower d) = false := by simpa using h
    rw [hn]
    simp [hf]

theorem holdsIn_unionDb (s o : DbSet) (g : Grant) : (unionDb s o).holdsIn g = (s.holdsIn g || o.holdsIn g) := by
  cases g with
  | glob p => rfl
  | dyn n => rfl
  | db d p => simp [DbSet.holdsIn, unionDb, mem_pinsAll]
  | tbl d t p =>
    simp only [DbSet.holdsIn, unionDb]
    have := mfold_mset_obs o.tables (fun x v => pinsAll (x.getD []) v) (fun x => memOpt x p) (fun v => decide (p ∈ v))
      (by intro x v; cases x <;> simp [memOpt, mem_pinsAll]) s.tables t
    simp only [memOpt] at this
    refine Eq.trans this ?_
    cases mget o.tables t <;> rfl
  | rtn d r b p =>
    simp only [DbSet.holdsIn, unionDb]
    have := mfold_mset_obs o.routines (fun x v => pinsAll (x.getD []) v) (fun x => memOpt x p) (fun v => decide (p ∈ v))
      (by intro x v; cases x <;> simp [memOpt, mem_pinsAll]) s.routines (r, b)
    simp only [memOpt] at this
    refine Eq.trans this ?_
    cases mget o.routines (r, b) <;> rfl

theorem holdsIn_empty (g : Grant) : ({} : DbSet).holdsIn g = false := by
  cases g <;> simp [DbSet.holdsIn, mget]

theorem holds_union (a b : PrivSet) (g : Grant) : (a.union b).holds g = (a.holds g || b.holds g) := by
  by_cases hg : ∃ d, g.atDb d = true
  · obtain ⟨d, hd⟩ := hg
    rw [holds_atDb _ _ _ hd, holds_atDb _ _ _ hd, holds_atDb _ _ _ hd]
    simp only [union]
    have := mfold_mset_obs b.dbs (fun x s => unionDb (x.getD {}) s)
      (fun x => match x with | some s => s.holdsIn g | none => false) (fun s => s.holdsIn g)
      (by intro x v; cases x <;> simp [holdsIn_unionDb, holdsIn_empty]) a.dbs d
    refine Eq.trans this ?_
    cases mget a.dbs d <;> cases mget b.dbs d <;> rfl
  · cases g with
    | glob p => simp [holds, union, mem_pinsAll]
    | dyn n =>
      simp only [holds, union]
      have := mfold_mset_obs b.dynamic (fun x w => (x.getD false || w)) (fun x => x.isSome) (fun _ => true)
        (by intro x v; simp) a.dynamic n
      refine Eq.trans this ?_
      cases mget b.dynamic n <;> simp
    | db d p => exact absurd ⟨d, by simp [Grant.atDb]⟩ hg
    | tbl d t p => exact absurd ⟨d, by simp [Grant.atDb]⟩ hg
    | rtn d r b' p => exact absurd ⟨d, by simp [Grant.atDb]⟩ hg

end PrivSet

/-- The Impl privilege set `ps` denotes the set of grants `gs`. -/
def Refines (ps : PrivSet) (gs : GSet) : Prop := ∀ g, ps.holds g = decide (g ∈ gs)

namespace PrivSet

theorem globalNone_iff (ps : PrivSet) : ps.view.globalNone = true ↔ ∀ p, ps.holds (.glob p) = false := by
  simp only [view, isEmpty_iff_forall_not_mem, holds, decide_eq_false_iff_not]

theorem dbNone_iff (ps : PrivSet) (d : String) :
    ps.view.dbNone d = true ↔ ∀ p, ps.holds (.db (lower d) p) = false := by
  simp only [view, holds]
  cases hm : mget ps.dbs (lower d) with
  | none => simp
  | some s =>
    simp only [isEmpty_iff_forall_not_mem, decide_eq_false_iff_not]

theorem tblAny_iff (ps : PrivSet) (d t : String) :
    ps.view.tblAny d t = true ↔ ∃ p, ps.holds (.tbl (lower d) (lower t) p) = true := by
  simp only [view, holds]
  cases hm : mget ps.dbs (lower d) with
  | none => simp
  | some s =>
    simp only
    cases ht : mget s.tables (lower t) with
    | none => simp
    | some tp =>
      simp only [decide_eq_true_eq]
      cases tp with
      | nil => simp
      | cons a r => simp only [List.isEmpty_cons, Bool.not_false, true_iff]; exact ⟨a, by simp⟩

theorem nonempty_iff_exists (l : List Priv) : (!l.isEmpty) = true ↔ ∃ p, p ∈ l := by
  cases l with
  | nil => simp
  | cons a r => simp only [List.isEmpty_cons, Bool.not_false, true_iff]; exact ⟨a, by simp⟩

theorem dbAny_iff (ps : PrivSet) (d : String) :
    ps.view.dbAny d = true ↔ ∃ g, g.atDb (lower d) = true ∧ ps.holds g = true := by
  simp only [view]
  cases hm : mget ps.dbs (lower d) with
  | none =>
    simp only [Bool.false_eq_true, false_iff, not_exists, not_and]
    intro g hg
    rw [holds_false_of_none ps _ g hm hg]; simp
  | some s =>
    simp only [Bool.or_eq_true, manyVal_iff, nonempty_iff_exists]
    constructor
    · rintro ((⟨p, hp⟩ | ⟨t, tp, ht, p, hp⟩) | ⟨k, rp, hr, p, hp⟩)
      · exact ⟨.db (lower d) p, by simp [Grant.atDb], by simp [holds, hm, hp]⟩
      · exact ⟨.tbl (lower d) t p, by simp [Grant.atDb], by simp [holds, hm, ht, hp]⟩
      · obtain ⟨r, b⟩ := k
        exact ⟨.rtn (lower d) r b p, by simp [Grant.atDb], by simp [holds, hm, hr, hp]⟩
    · rintro ⟨g, hg, hh⟩
      rw [holds_atDb _ _ _ hg, hm] at hh
      cases g with
      | glob p => simp [Grant.atDb] at hg
      | dyn n => simp [Grant.atDb] at hg
      | db d' p => exact Or.inl (Or.inl ⟨p, by simpa [DbSet.holdsIn] using hh⟩)
      | tbl d' t p =>
        simp only [DbSet.holdsIn] at hh
        cases ht : mget s.tables t with
        | none => simp [ht] at hh
        | some tp => exact Or.inl (Or.inr ⟨t, tp, ht, p, by simpa [ht] using hh⟩)
      | rtn d' r b p =>
        simp only [DbSet.holdsIn] at hh
        cases hr : mget s.routines (r, b) with
        | none => simp [hr] at hh
        | some rp => exact Or.inr ⟨(r, b), rp, hr, p, by simpa [hr] using hh⟩

end PrivSet

theorem bool_eq_of_iff {a b : Bool} (h : a = true ↔ b = true) : a = b := by
  cases a <;> cases b <;> simp_all

theorem view_eq {ps : PrivSet} {gs : GSet} (h : Refines ps gs) : ps.view = gs.view := by
  have e : ∀ v w : View, v.hasGlobal = w.hasGlobal → v.hasDyn = w.hasDyn → v.hasDb = w.hasDb → v.hasTbl = w.hasTbl →
      v.hasRtn = w.hasRtn → v.globalNone = w.globalNone → v.dbNone = w.dbNone → v.dbAny = w.dbAny →
      v.tblAny = w.tblAny → v = w := by
    intro v w h1 h2 h3 h4 h5 h6 h7 h8 h9
    cases v; cases w; simp_all
  apply e
  · funext p; exact h (.glob p)
  · funext n; exact h (.dyn (lower n))
  · funext d p; exact h (.db (lower d) p)
  · funext d t p; exact h (.tbl (lower d) (lower t) p)
  · funext d r b p; exact h (.rtn (lower d) (lower r) b p)
  · apply bool_eq_of_iff
    rw [PrivSet.globalNone_iff]
    simp only [GSet.view, List.all_eq_true, Bool.not_eq_true']
    constructor
    · intro hh g hg
      cases g <;> simp [Grant.isGlob]
      case glob p => have := hh p; rw [h] at this; simp at this; exact this hg
    · intro hh p
      rw [h]; simp only [decide_eq_false_iff_not]
      intro hm; have := hh _ hm; simp [Grant.isGlob] at this
  · funext d
    apply bool_eq_of_iff
    rw [PrivSet.dbNone_iff]
    simp only [GSet.view, List.all_eq_true, Bool.not_eq_true']
    constructor
    · intro hh g hg
      cases g <;> simp [Grant.isDbLevel]
      case db d' p =>
        intro hd; subst hd
        have := hh p; rw [h] at this; simp at this; exact this hg
    · intro hh p
      rw [h]; simp only [decide_eq_false_iff_not]
      intro hm; have := hh _ hm; simp [Grant.isDbLevel] at this
  · funext d
    apply bool_eq_of_iff
    rw [PrivSet.dbAny_iff]
    simp only [GSet.view, List.any_eq_true]
    constructor
    · rintro ⟨g, hg, hh⟩
      rw [h] at hh
      exact ⟨g, by simpa using hh, hg⟩
    · rintro ⟨g, hg, hh⟩
      exact ⟨g, hh, by rw [h]; simpa using hg⟩
  · funext d t
    apply bool_eq_of_iff
    rw [PrivSet.tblAny_iff]
    simp only [GSet.view, List.any_eq_true]
    constructor
    · rintro ⟨p, hp⟩
      rw [h] at hp
      exact ⟨_, by simpa using hp, by simp [Grant.isTbl]⟩
    · rintro ⟨g, hg, hh⟩
      cases g <;> simp [Grant.isTbl] at hh
      case tbl d' t' p =>
        obtain ⟨rfl, rfl⟩ := hh
        exact ⟨p, by rw [h]; simpa using hg⟩



theorem any_eq_mem_map (privs : List Priv) (ctor : Priv → Grant) (g : Grant) :
    (privs.any fun p => decide (g = ctor p)) = decide (g ∈ privs.map ctor) := by
  apply bool_eq_of_iff
  simp only [List.any_eq_true, decide_eq_true_eq, List.mem_map]
  constructor
  · rintro ⟨p, hp, rfl⟩; exact ⟨p, hp, rfl⟩
  · rintro ⟨p, hp, rfl⟩; exact ⟨p, hp, rfl⟩

theorem any_eq_mem_map_s (names : List String) (ctor : String → Grant) (g : Grant) :
    (names.any fun p => decide (g = ctor p)) = decide (g ∈ names.map ctor) := by
  apply bool_eq_of_iff
  simp only [List.any_eq_true, decide_eq_true_eq, List.mem_map]
  constructor
  · rintro ⟨p, hp, rfl⟩; exact ⟨p, hp, rfl⟩
  · rintro ⟨p, hp, rfl⟩; exact ⟨p, hp, rfl⟩

theorem refines_add {ps : PrivSet} {gs : GSet} (h : Refines ps gs) (ps' : PrivSet) (L : List Grant)
    (hh : ∀ g, ps'.holds g = (ps.holds g || decide (g ∈ L))) : Refines ps' (gs ++ L) := by
  intro g; rw [hh, h g]; simp [List.mem_append]

theorem refines_filter {ps : PrivSet} {gs : GSet} (h : Refines ps gs) (ps' : PrivSet) (P : Grant → Bool)
    (hh : ∀ g, ps'.holds g = (ps.holds g && P g)) : Refines ps' (gs.filter P) := by
  intro g; rw [hh, h g]
  apply bool_eq_of_iff
  simp [List.mem_filter]

theorem refines_empty : Refines implPS.empty specPS.empty := by
  intro g; cases g <;> simp [implPS, specPS, PrivSet.holds, mget]

theorem refines_addGlobal {ps gs} (h : Refines ps gs) (privs : List Priv) :
    Refines (implPS.addGlobal ps privs) (specPS.addGlobal gs privs) :=
  refines_add h _ _ (PrivSet.holds_addGlobal ps privs)

theorem refines_addDynamic {ps gs} (h : Refines ps gs) (wgo : Bool) (names : List String) :
    Refines (implPS.addDynamic ps wgo names) (specPS.addDynamic gs wgo names) :=
  refines_add h _ _ (PrivSet.holds_addDynamic ps wgo names)

theorem refines_addDb {ps gs} (h : Refines ps gs) (d : String) (privs : List Priv) :
    Refines (implPS.addDb ps d privs) (specPS.addDb gs d privs) :=
  refines_add h _ _ (PrivSet.holds_addDb ps d privs)

theorem refines_addTbl {ps gs} (h : Refines ps gs) (d t : String) (privs : List Priv) :
    Refines (implPS.addTbl ps d t privs) (specPS.addTbl gs d t privs) :=
  refines_add h _ _ (PrivSet.holds_addTbl ps d t privs)

theorem refines_addRtn {ps gs} (h : Refines ps gs) (d r : String) (b : Bool) (privs : List Priv) :
    Refines (implPS.addRtn ps d r b privs) (specPS.addRtn gs d r b privs) :=
  refines_add h _ _ (PrivSet.holds_addRtn ps d r b privs)

theorem refines_remGlobal {ps gs} (h : Refines ps gs) (privs : List Priv) :
    Refines (implPS.remGlobal ps privs) (specPS.remGlobal gs privs) :=
  refines_filter h _ _ (fun g => by rw [any_eq_mem_map]; exact PrivSet.holds_remGlobal ps privs g)

theorem refines_remDynamic {ps gs} (h : Refines ps gs) (names : List String) :
    Refines (implPS.remDynamic ps names) (specPS.remDynamic gs names) :=
  refines_filter h _ _ (fun g => by rw [any_eq_mem_map_s]; exact PrivSet.holds_remDynamic ps names g)

theorem refines_remTbl {ps gs} (h : Refines ps gs) (d t : String) (privs : List Priv) :
    Refines (implPS.remTbl ps d t privs) (specPS.remTbl gs d t privs) :=
  refines_filter h _ _ (fun g => by rw [any_eq_mem_map]; exact PrivSet.holds_remTbl ps d t privs g)

theorem refines_remRtn {ps gs} (h : Refines ps gs) (d r : String) (b : Bool) (privs : List Priv) :
    Refines (implPS.remRtn ps d r b privs) (specPS.remRtn gs d r b privs) :=
  refines_filter h _ _ (fun g => by rw [any_eq_mem_map]; exact PrivSet.holds_remRtn ps d r b privs g)

theorem refines_clearGlobal {ps gs} (h : Refines ps gs) :
    Refines (implPS.clearGlobal ps) (specPS.clearGlobal gs) :=
  refines_filter h _ _ (PrivSet.holds_clearGlobal ps)

theorem refines_clearTbl {ps gs} (h : Refines ps gs) (d t : String) :
    Refines (implPS.clearTbl ps d t) (specPS.clearTbl gs d t) :=
  refines_filter h _ _ (PrivSet.holds_clearTbl ps d t)

theorem refines_union {a b : PrivSet} {ga gb : GSet} (ha : Refines a ga) (hb : Refines b gb) :
    Refines (implPS.union a b) (specPS.union ga gb) := by
  intro g
  show (a.union b).holds g = decide (g ∈ ga ++ gb)
  rw [PrivSet.holds_union, ha g, hb g]; simp [List.mem_append]

/-- The account holds a table- or routine-level grant inside database `d`. -/
def holdsBelow (ps : PrivSet) (d : String) : Prop := ∃ g, g.belowDb (lower d) = true ∧ ps.holds g = true

theorem atDb_split (g : Grant) (k : String) : g.atDb k = (g.isDbLevel k || g.belowDb k) := by
  cases g <;> simp [Grant.atDb, Grant.isDbLevel, Grant.belowDb]

/-- Database-level REVOKE of single privileges refines the Spec when the account holds nothing below
the database (this is the guard of the known defect). -/
theorem refines_remDb_partial {ps gs} (h : Refines ps gs) (d : String) (privs : List Priv)
    (hg : ¬ holdsBelow ps d) : Refines (implPS.remDb ps d privs) (specPS.remDb gs d privs) := by
  apply refines_filter h
  intro g
  rw [any_eq_mem_map]
  show (ps.remDb d privs).holds g = _
  rw [PrivSet.holds_remDb]
  by_cases he : ps.dbEmptied d privs = true
  · simp only [he, if_true]
    -- the entry was deleted: every database-level grant it held was named, nothing lives below it
    by_cases hgd : g.isDbLevel (lower d) = true
    · cases g <;> simp [Grant.isDbLevel] at hgd
      case db d' p =>
        subst hgd
        simp only [Grant.atDb, decide_true, Bool.not_true, Bool.and_false]
        unfold PrivSet.dbEmptied at he
        cases hm : mget ps.dbs (lower d) with
        | none => simp [PrivSet.holds, hm]
        | some s =>
          rw [hm] at he
          simp only [isEmpty_iff_forall_not_mem, mem_premAll] at he
          by_cases hp : p ∈ s.privs
          · have : p ∈ privs := Classical.byContradiction (fun hn => he p ⟨hp, hn⟩)
            simp [this]
          · simp [PrivSet.holds, hm, hp]
    · have hgd' : g.isDbLevel (lower d) = false := by simpa using hgd
      have hnm : decide (g ∈ privs.map (Grant.db (lower d))) = false := by
        simp only [decide_eq_false_iff_not, List.mem_map, not_exists, not_and]
        rintro p _ rfl
        simp [Grant.isDbLevel] at hgd
      rw [hnm, atDb_split, hgd']
      by_cases hb : g.belowDb (lower d) = true
      · have : ps.holds g = false := by
          cases hh : ps.holds g with
          | false => rfl
          | true => exact absurd ⟨g, hb, hh⟩ hg
        simp [this]
      · have hb' : g.belowDb (lower d) = false := by simpa using hb
        simp [hb']
  · have he' : ps.dbEmptied d privs = false := by simpa using he
    simp [he']

theorem refines_clearDb_partial {ps gs} (h : Refines ps gs) (d : String)
    (hg : ¬ holdsBelow ps d) : Refines (implPS.clearDb ps d) (specPS.clearDb gs d) := by
  apply refines_filter h
  intro g
  show (ps.clearDb d).holds g = _
  rw [PrivSet.holds_clearDb, atDb_split]
  by_cases hb : g.belowDb (lower d) = true
  · have : ps.holds g = false := by
      cases hh : ps.holds g with
      | false => rfl
      | true => exact absurd ⟨g, hb, hh⟩ hg
    simp [this]
  · have hb' : g.belowDb (lower d) = false := by simpa using hb
    simp [hb']


end Gms.Priv
