/-
Lemmas about the MemTable model shared by the C13 and C14 property files.
-/
import Gms.Model.MemTable

namespace Gms.MemTable

/-! ## Keyed maps (the Spec of a keyed table) -/

/-- The Spec of a keyed table: key values ↦ row. -/
abbrev KMap := List Val → Option Row

def kput (pk : List Nat) (m : KMap) (r : Row) : KMap := fun k => if k = proj pk r then some r else m k
def kdel (m : KMap) (k0 : List Val) : KMap := fun k => if k = k0 then none else m k

/-- Abstraction function: the keyed map a stored row list denotes. -/
def absT (pk : List Nat) (t : List Row) : KMap := fun k => t.find? (fun r => decide (proj pk r = k))

def NoDupPk (pk : List Nat) (t : List Row) : Prop := (t.map (proj pk)).Nodup

/-- No column has a case-insensitive collation (`BinaryEq` for whole rows). -/
def NoCi (sch : Schema) : Prop := ∀ c ∈ sch.cols, c.ci = false

/-- `getRowKey` separates the key values of the rows in `S`. -/
def KeyInjOn (pk : List Nat) (S : List Row) : Prop :=
  ∀ r1 ∈ S, ∀ r2 ∈ S, getRowKey pk r1 = getRowKey pk r2 → proj pk r1 = proj pk r2

theorem getRowKey_eq (pk : List Nat) (r : Row) :
    getRowKey pk r = (proj pk r).flatMap (fun v => keyPart (printVal v)) := by
  simp [getRowKey, proj, List.flatMap_map]

theorem key_of_proj {pk : List Nat} {r1 r2 : Row} (h : proj pk r1 = proj pk r2) :
    getRowKey pk r1 = getRowKey pk r2 := by
  rw [getRowKey_eq, getRowKey_eq, h]

theorem colMatch_zero (a b : Val) : colMatch 0 a b = (a == b) := by simp [colMatch]

theorem columnsMatch_nil_iff (cols : List Nat) (r1 r2 : Row) :
    columnsMatch cols [] r1 r2 = true ↔ proj cols r1 = proj cols r2 := by
  induction cols with
  | nil => simp [columnsMatch, proj]
  | cons c cs ih =>
    simp only [columnsMatch, List.headD_nil, List.tail_nil, colMatch_zero, Bool.and_eq_true, beq_iff_eq, ih]
    simp [proj]

theorem valEq_false (a b : Val) : valEq false a b = (a == b) := by
  cases a <;> cases b <;> simp [valEq]
  rename_i x y
  rw [Bool.eq_iff_iff]
  simp

theorem rowEquals_noCi (cols : List Col) (h : ∀ c ∈ cols, c.ci = false) (a b : Row) :
    rowEquals cols a b = true → a = b := by
  induction cols generalizing a b with
  | nil => cases a <;> cases b <;> simp [rowEquals]
  | cons c cs ih =>
    cases a with
    | nil => cases b <;> simp [rowEquals]
    | cons x xs =>
      cases b with
      | nil => simp [rowEquals]
      | cons y ys =>
        have hc : c.ci = false := h c (by simp)
        simp only [rowEquals, hc, valEq_false, Bool.and_eq_true, beq_iff_eq]
        intro ⟨h1, h2⟩
        rw [h1, ih (fun c hc => h c (by simp [hc])) xs ys h2]

theorem rowEquals_self (cols : List Col) (a : Row) (h : a.length = cols.length) :
    rowEquals cols a a = true := by
  induction cols generalizing a with
  | nil => cases a with
    | nil => rfl
    | cons => simp at h
  | cons c cs ih =>
    cases a with
    | nil => simp at h
    | cons x xs =>
      have hv : valEq c.ci x x = true := by cases x <;> simp [valEq]
      simp only [rowEquals, hv, Bool.true_and]
      exact ih xs (by simpa using h)

/-! ### `deleteHelper` / `insertHelper` against the keyed map -/

theorem absT_nil (pk : List Nat) : absT pk [] = fun _ => none := by
  funext k; simp [absT]

theorem absT_cons (pk : List Nat) (a : Row) (t : List Row) (k : List Val) :
    absT pk (a :: t) k = if proj pk a = k then some a else absT pk t k := by
  simp only [absT, List.find?_cons]
  by_cases h : proj pk a = k <;> simp [h]

theorem absT_none_of_not_mem (pk : List Nat) (t : List Row) (k : List Val)
    (h : k ∉ t.map (proj pk)) : absT pk t k = none := by
  induction t with
  | nil => simp [absT]
  | cons a t ih =>
    rw [absT_cons]
    simp only [List.map_cons, List.mem_cons, not_or] at h
    have : ¬ proj pk a = k := fun e => h.1 e.symm
    simp [this, ih h.2]

theorem absT_some_iff (pk : List Nat) (t : List Row) (hnd : NoDupPk pk t) (k : List Val) (r : Row) :
    absT pk t k = some r ↔ r ∈ t ∧ proj pk r = k := by
  induction t with
  | nil => simp [absT]
  | cons a t ih =>
    have hnd' : NoDupPk pk t := by
      unfold NoDupPk at hnd ⊢; simp only [List.map_cons, List.nodup_cons] at hnd; exact hnd.2
    have hnot : proj pk a ∉ t.map (proj pk) := by
      unfold NoDupPk at hnd; simp only [List.map_cons, List.nodup_cons] at hnd; exact hnd.1
    rw [absT_cons]
    by_cases h : proj pk a = k
    · simp only [h, if_true, Option.some.injEq, List.mem_cons]
      constructor
      · intro e; subst e; exact ⟨Or.inl rfl, h⟩
      · intro ⟨hm, hk⟩
        rcases hm with rfl | hm
        · rfl
        · exfalso; apply hnot; rw [h, ← hk]; exact List.mem_map_of_mem hm
    · simp only [h, if_false, List.mem_cons]
      rw [ih hnd']
      constructor
      · intro ⟨hm, hk⟩; exact ⟨Or.inr hm, hk⟩
      · intro ⟨hm, hk⟩
        rcases hm with rfl | hm
        · exact absurd hk h
        · exact ⟨hm, hk⟩

/-- the predicate `deleteHelper` searches with, under `NoCi`: same key values. -/
theorem delPred_iff (sch : Schema) (hci : NoCi sch) (pr row : Row) :
    (columnsMatch sch.pk [] pr row || rowEquals sch.cols pr row) = true ↔ proj sch.pk pr = proj sch.pk row := by
  rw [Bool.or_eq_true, columnsMatch_nil_iff]
  constructor
  · rintro (h | h)
    · exact h
    · rw [rowEquals_noCi sch.cols hci pr row h]
  · intro h; exact Or.inl h

theorem eraseFirst_congr {α : Type} (p q : α → Bool) (l : List α) (h : ∀ a ∈ l, p a = q a) :
    eraseFirst p l = eraseFirst q l := by
  induction l with
  | nil => rfl
  | cons a as ih =>
    simp only [eraseFirst]
    rw [h a (by simp), ih (fun b hb => h b (by simp [hb]))]

theorem eraseFirst_proj (pk : List Nat) (t : List Row) (k0 : List Val) (hnd : NoDupPk pk t) :
    absT pk (eraseFirst (fun r => decide (proj pk r = k0)) t) = kdel (absT pk t) k0
      ∧ NoDupPk pk (eraseFirst (fun r => decide (proj pk r = k0)) t)
      ∧ (∀ r, r ∈ eraseFirst (fun r => decide (proj pk r = k0)) t → r ∈ t) := by
  induction t with
  | nil =>
    refine ⟨?_, by simp [NoDupPk, eraseFirst], by simp [eraseFirst]⟩
    funext k; simp [eraseFirst, absT, kdel]
  | cons a t ih =>
    have hnd' : NoDupPk pk t := by
      unfold NoDupPk at hnd ⊢; simp only [List.map_cons, List.nodup_cons] at hnd; exact hnd.2
    have hnot : proj pk a ∉ t.map (proj pk) := by
      unfold NoDupPk at hnd; simp only [List.map_cons, List.nodup_cons] at hnd; exact hnd.1
    by_cases h : proj pk a = k0
    · simp only [eraseFirst, h, decide_true, if_true]
      refine ⟨?_, hnd', fun r hr => by simp [hr]⟩
      funext k
      simp only [kdel, absT_cons, h]
      by_cases hk : k = k0
      · subst hk; simp only [if_true]
        exact absT_none_of_not_mem pk t k (by rw [← h]; exact hnot)
      · have : ¬ k0 = k := fun e => hk e.symm
        simp [hk, this]
    · simp only [eraseFirst, h, decide_false, Bool.false_eq_true, if_false]
      obtain ⟨ih1, ih2, ih3⟩ := ih hnd'
      refine ⟨?_, ?_, ?_⟩
      · funext k
        simp only [kdel, absT_cons]
        by_cases hk : k = k0
        · subst hk; simp only [h, if_false, if_true]
          rw [ih1]; simp [kdel]
        · simp only [hk, if_false]
          by_cases ha : proj pk a = k
          · simp [ha]
          · simp only [ha, if_false]; rw [ih1]; simp [kdel, hk]
      · unfold NoDupPk; simp only [List.map_cons, List.nodup_cons]
        refine ⟨?_, ih2⟩
        intro hm
        obtain ⟨r, hr, hre⟩ := List.mem_map.mp hm
        exact hnot (List.mem_map.mpr ⟨r, ih3 r hr, hre⟩)
      · intro r hr
        simp only [List.mem_cons] at hr ⊢
        rcases hr with rfl | hr
        · exact Or.inl rfl
        · exact Or.inr (ih3 r hr)

theorem pkDeleteHelper_spec (sch : Schema) (hci : NoCi sch) (t : List Row) (d : Row)
    (hnd : NoDupPk sch.pk t) :
    absT sch.pk (pkDeleteHelper sch t d) = kdel (absT sch.pk t) (proj sch.pk d)
      ∧ NoDupPk sch.pk (pkDeleteHelper sch t d) := by
  unfold pkDeleteHelper
  rw [eraseFirst_congr _ (fun r => decide (proj sch.pk r = proj sch.pk d)) t
    (fun a _ => by
      have := delPred_iff sch hci a d
      by_cases h : proj sch.pk a = proj sch.pk d
      · simp [h, this.mpr h]
      · have h' : ¬ ((columnsMatch sch.pk [] a d || rowEquals sch.cols a d) = true) := fun e => h (this.mp e)
        simp [h, Bool.eq_false_iff.mpr h'])]
  have := eraseFirst_proj sch.pk t (proj sch.pk d) hnd
  exact ⟨this.1, this.2.1⟩

theorem replaceFirst_proj (pk : List Nat) (t : List Row) (a : Row) (hnd : NoDupPk pk t) :
    (match replaceFirst (fun r => decide (proj pk r = proj pk a)) a t with
     | some t' => absT pk t' = kput pk (absT pk t) a ∧ t'.map (proj pk) = t.map (proj pk)
     | none => proj pk a ∉ t.map (proj pk)) := by
  induction t with
  | nil => simp [replaceFirst]
  | cons b t ih =>
    have hnd' : NoDupPk pk t := by
      unfold NoDupPk at hnd ⊢; simp only [List.map_cons, List.nodup_cons] at hnd; exact hnd.2
    have hnot : proj pk b ∉ t.map (proj pk) := by
      unfold NoDupPk at hnd; simp only [List.map_cons, List.nodup_cons] at hnd; exact hnd.1
    by_cases h : proj pk b = proj pk a
    · simp only [replaceFirst, h, decide_true, if_true]
      refine ⟨?_, by simp [h]⟩
      funext k
      simp only [kput, absT_cons]
      by_cases hk : k = proj pk a
      · subst hk; simp
      · have : ¬ proj pk a = k := fun e => hk e.symm
        simp [hk, this, h]
    · simp only [replaceFirst, h, decide_false, Bool.false_eq_true, if_false]
      have ih' := ih hnd'
      cases hr : replaceFirst (fun r => decide (proj pk r = proj pk a)) a t with
      | none =>
        rw [hr] at ih'
        simp only [Option.map_none, List.map_cons, List.mem_cons, not_or]
        exact ⟨fun e => h e.symm, ih'⟩
      | some t' =>
        rw [hr] at ih'
        simp only [Option.map_some]
        obtain ⟨i1, i2⟩ := ih'
        refine ⟨?_, by simp [i2]⟩
        funext k
        simp only [kput, absT_cons]
        by_cases hk : k = proj pk a
        · subst hk; simp only [h, if_false, if_true]; rw [i1]; simp [kput]
        · simp only [hk, if_false]
          by_cases hb : proj pk b = k
          · simp [hb]
          · simp only [hb, if_false]; rw [i1]; simp [kput, hk]

theorem absT_append_single (pk : List Nat) (t : List Row) (a : Row) (h : proj pk a ∉ t.map (proj pk)) :
    absT pk (t ++ [a]) = kput pk (absT pk t) a := by
  funext k
  induction t with
  | nil =>
    simp only [List.nil_append, absT_cons, kput, absT_nil]
    by_cases hk : k = proj pk a
    · subst hk; simp
    · have : ¬ proj pk a = k := fun e => hk e.symm
      simp [hk, this]
  | cons b t ih =>
    simp only [List.map_cons, List.mem_cons, not_or] at h
    simp only [List.cons_append, absT_cons, kput]
    by_cases hb : proj pk b = k
    · have : ¬ k = proj pk a := fun e => h.1 (by rw [← e, hb])
      simp [hb, this]
    · simp only [hb, if_false]
      rw [ih h.2]; simp [kput]

theorem pkInsertHelper_spec (sch : Schema) (t : List Row) (a : Row) (hnd : NoDupPk sch.pk t) :
    absT sch.pk (pkInsertHelper sch t a) = kput sch.pk (absT sch.pk t) a
      ∧ NoDupPk sch.pk (pkInsertHelper sch t a) := by
  unfold pkInsertHelper
  have hc : replaceFirst (fun pr => columnsMatch sch.pk [] pr a) a t
      = replaceFirst (fun r => decide (proj sch.pk r = proj sch.pk a)) a t := by
    congr 1; funext r
    by_cases h : proj sch.pk r = proj sch.pk a
    · simp [h, (columnsMatch_nil_iff sch.pk r a).mpr h]
    · have : ¬ columnsMatch sch.pk [] r a = true := fun e => h ((columnsMatch_nil_iff sch.pk r a).mp e)
      simp [h, Bool.eq_false_iff.mpr this]
  rw [hc]
  have := replaceFirst_proj sch.pk t a hnd
  cases hr : replaceFirst (fun r => decide (proj sch.pk r = proj sch.pk a)) a t with
  | some t' =>
    rw [hr] at this
    refine ⟨this.1, ?_⟩
    unfold NoDupPk at hnd ⊢; rw [this.2]; exact hnd
  | none =>
    rw [hr] at this
    refine ⟨absT_append_single sch.pk t a this, ?_⟩
    unfold NoDupPk at hnd ⊢
    simp only [List.map_append, List.map_cons, List.map_nil]
    rw [List.nodup_append]
    refine ⟨hnd, by simp, ?_⟩
    intro x hx y hy
    simp only [List.mem_cons, List.not_mem_nil, or_false] at hy
    subst hy; intro e; subst e; exact this hx


/-! ### `ApplyEdits` against the keyed map -/

/-- Effect of the pending edits on a keyed map: all deletes, then all adds. -/
def eff (pk : List Nat) (adds dels : List (Key × Row)) (m : KMap) : KMap :=
  (adds.map (·.2)).foldl (kput pk) ((dels.map (·.2)).foldl (fun m d => kdel m (proj pk d)) m)

theorem foldl_delete_spec (sch : Schema) (hci : NoCi sch) (ds : List Row) (t : List Row)
    (hnd : NoDupPk sch.pk t) :
    absT sch.pk (ds.foldl (pkDeleteHelper sch) t) = ds.foldl (fun m d => kdel m (proj sch.pk d)) (absT sch.pk t)
      ∧ NoDupPk sch.pk (ds.foldl (pkDeleteHelper sch) t) := by
  induction ds generalizing t with
  | nil => exact ⟨rfl, hnd⟩
  | cons d ds ih =>
    simp only [List.foldl_cons]
    obtain ⟨h1, h2⟩ := pkDeleteHelper_spec sch hci t d hnd
    obtain ⟨i1, i2⟩ := ih (pkDeleteHelper sch t d) h2
    exact ⟨by rw [i1, h1], i2⟩

theorem foldl_insert_spec (sch : Schema) (as : List Row) (t : List Row) (hnd : NoDupPk sch.pk t) :
    absT sch.pk (as.foldl (pkInsertHelper sch) t) = as.foldl (kput sch.pk) (absT sch.pk t)
      ∧ NoDupPk sch.pk (as.foldl (pkInsertHelper sch) t) := by
  induction as generalizing t with
  | nil => exact ⟨rfl, hnd⟩
  | cons a as ih =>
    simp only [List.foldl_cons]
    obtain ⟨h1, h2⟩ := pkInsertHelper_spec sch t a hnd
    obtain ⟨i1, i2⟩ := ih (pkInsertHelper sch t a) h2
    exact ⟨by rw [i1, h1], i2⟩

/-- `ApplyEdits` (before the sort) realises `eff` on the stored rows and keeps the keys distinct. -/
theorem pkApplyU_spec (sch : Schema) (hci : NoCi sch) (e : Ed) (hnd : NoDupPk sch.pk e.rows) :
    absT sch.pk (pkApplyU sch e) = eff sch.pk e.adds e.dels (absT sch.pk e.rows)
      ∧ NoDupPk sch.pk (pkApplyU sch e) := by
  unfold pkApplyU eff
  obtain ⟨d1, d2⟩ := foldl_delete_spec sch hci (e.dels.map (·.2)) e.rows hnd
  obtain ⟨a1, a2⟩ := foldl_insert_spec sch (e.adds.map (·.2)) _ d2
  exact ⟨by rw [a1, d1], a2⟩

theorem foldl_kdel_apply (pk : List Nat) (ds : List Row) (m : KMap) (k : List Val) :
    (ds.foldl (fun m d => kdel m (proj pk d)) m) k
      = if ds.any (fun d => decide (proj pk d = k)) then none else m k := by
  induction ds generalizing m with
  | nil => simp
  | cons d ds ih =>
    simp only [List.foldl_cons, List.any_cons]
    rw [ih]
    by_cases h : proj pk d = k
    · have : k = proj pk d := h.symm
      simp [h, kdel]
    · have : ¬ k = proj pk d := fun e => h e.symm
      simp [h, kdel, this]

theorem foldl_kput_apply (pk : List Nat) (rs : List Row) (m : KMap) (k : List Val)
    (hnd : (rs.map (proj pk)).Nodup) :
    (rs.foldl (kput pk) m) k
      = match rs.find? (fun r => decide (proj pk r = k)) with
        | some r => some r
        | none => m k := by
  induction rs generalizing m with
  | nil => simp
  | cons a rs ih =>
    simp only [List.map_cons, List.nodup_cons] at hnd
    simp only [List.foldl_cons, List.find?_cons]
    rw [ih _ hnd.2]
    by_cases h : proj pk a = k
    · have hn : rs.find? (fun r => decide (proj pk r = k)) = none := by
        rw [List.find?_eq_none]
        intro x hx hd
        simp only [decide_eq_true_eq] at hd
        exact hnd.1 (by rw [h, ← hd]; exact List.mem_map_of_mem hx)
      simp [hn, h, kput]
    · have hk : ¬ k = proj pk a := fun e => h e.symm
      simp only [h, decide_false]
      cases rs.find? (fun r => decide (proj pk r = k)) with
      | some r => rfl
      | none => simp [kput, hk]

/-- well-formedness of the keyed accumulator w.r.t. a set `S` of rows. -/
structure AccWF (pk : List Nat) (S : List Row) (e : Ed) : Prop where
  addsKey : ∀ x ∈ e.adds, x.1 = getRowKey pk x.2 ∧ x.2 ∈ S
  delsKey : ∀ x ∈ e.dels, x.1 = getRowKey pk x.2 ∧ x.2 ∈ S
  addsNd : e.adds.Pairwise (fun x y => x.1 ≠ y.1)

theorem alSet_mem (l : List (Key × Row)) (k : Key) (r : Row) (x : Key × Row) (h : x ∈ alSet l k r) :
    x = (k, r) ∨ x ∈ l := by
  induction l with
  | nil => simp [alSet] at h; exact Or.inl h
  | cons a l ih =>
    obtain ⟨k', r'⟩ := a
    simp only [alSet] at h
    split at h
    · simp only [List.mem_cons] at h ⊢
      rcases h with h | h
      · exact Or.inl h
      · exact Or.inr (Or.inr h)
    · simp only [List.mem_cons] at h ⊢
      rcases h with h | h
      · exact Or.inr (Or.inl h)
      · rcases ih h with h | h
        · exact Or.inl h
        · exact Or.inr (Or.inr h)

theorem alDel_mem (l : List (Key × Row)) (k : Key) (x : Key × Row) (h : x ∈ alDel l k) : x ∈ l := by
  induction l with
  | nil => simp [alDel] at h
  | cons a l ih =>
    obtain ⟨k', r'⟩ := a
    simp only [alDel] at h
    split at h
    · exact List.mem_cons_of_mem _ h
    · simp only [List.mem_cons] at h ⊢
      rcases h with h | h
      · exact Or.inl h
      · exact Or.inr (ih h)

theorem alSet_pairwise (l : List (Key × Row)) (k : Key) (r : Row)
    (h : l.Pairwise (fun x y => x.1 ≠ y.1)) : (alSet l k r).Pairwise (fun x y => x.1 ≠ y.1) := by
  induction l with
  | nil => simp [alSet]
  | cons a l ih =>
    obtain ⟨k', r'⟩ := a
    rw [List.pairwise_cons] at h
    simp only [alSet]
    split
    · rename_i hk
      rw [List.pairwise_cons]
      refine ⟨?_, h.2⟩
      intro y hy; have := h.1 y hy; simp only at this ⊢; rw [← hk]; exact this
    · rename_i hk
      rw [List.pairwise_cons]
      refine ⟨?_, ih h.2⟩
      intro y hy
      rcases alSet_mem l k r y hy with rfl | hy
      · exact hk
      · exact h.1 y hy

theorem alDel_pairwise (l : List (Key × Row)) (k : Key)
    (h : l.Pairwise (fun x y => x.1 ≠ y.1)) : (alDel l k).Pairwise (fun x y => x.1 ≠ y.1) := by
  induction l with
  | nil => simp [alDel]
  | cons a l ih =>
    obtain ⟨k', r'⟩ := a
    rw [List.pairwise_cons] at h
    simp only [alDel]
    split
    · exact h.2
    · rw [List.pairwise_cons]
      exact ⟨fun y hy => h.1 y (alDel_mem l k y hy), ih h.2⟩

/-- entries of `l` carry the printed key of their row, and their rows are in `S`. -/
def Keyed (pk : List Nat) (S : List Row) (l : List (Key × Row)) : Prop :=
  ∀ x ∈ l, x.1 = getRowKey pk x.2 ∧ x.2 ∈ S

theorem Keyed.tail {pk : List Nat} {S : List Row} {a : Key × Row} {l : List (Key × Row)}
    (h : Keyed pk S (a :: l)) : Keyed pk S l := fun x hx => h x (List.mem_cons_of_mem _ hx)

theorem alSet_find (pk : List Nat) (S : List Row) (hinj : KeyInjOn pk S) (l : List (Key × Row))
    (hk : Keyed pk S l) (r : Row) (hr : r ∈ S) (k : List Val) :
    ((alSet l (getRowKey pk r) r).map (·.2)).find? (fun x => decide (proj pk x = k))
      = if proj pk r = k then some r else (l.map (·.2)).find? (fun x => decide (proj pk x = k)) := by
  induction l with
  | nil => simp [alSet, List.find?_cons]; by_cases h : proj pk r = k <;> simp [h]
  | cons a l ih =>
    obtain ⟨k', r'⟩ := a
    have ha := hk (k', r') (by simp)
    simp only at ha
    simp only [alSet]
    split
    · rename_i hkk
      have hp : proj pk r' = proj pk r := hinj r' ha.2 r hr (by rw [← ha.1, hkk])
      simp only [List.map_cons, List.find?_cons, hp]
      by_cases h : proj pk r = k <;> simp [h]
    · rename_i hkk
      have hp : ¬ proj pk r' = proj pk r := fun e => hkk (by rw [ha.1]; exact key_of_proj e)
      simp only [List.map_cons, List.find?_cons]
      rw [ih hk.tail]
      by_cases h : proj pk r = k
      · have : ¬ proj pk r' = k := fun e => hp (by rw [e, h])
        simp [h, this]
      · simp [h]

theorem alSet_any (pk : List Nat) (S : List Row) (hinj : KeyInjOn pk S) (l : List (Key × Row))
    (hk : Keyed pk S l) (r : Row) (hr : r ∈ S) (k : List Val) :
    ((alSet l (getRowKey pk r) r).map (·.2)).any (fun x => decide (proj pk x = k))
      = (decide (proj pk r = k) || (l.map (·.2)).any (fun x => decide (proj pk x = k))) := by
  induction l with
  | nil => simp [alSet]
  | cons a l ih =>
    obtain ⟨k', r'⟩ := a
    have ha := hk (k', r') (by simp)
    simp only at ha
    simp only [alSet]
    split
    · rename_i hkk
      have hp : proj pk r' = proj pk r := hinj r' ha.2 r hr (by rw [← ha.1, hkk])
      simp only [List.map_cons, List.any_cons, hp]
      by_cases h : proj pk r = k <;> simp [h]
    · simp only [List.map_cons, List.any_cons]
      rw [ih hk.tail]
      by_cases h : proj pk r = k <;> by_cases h' : proj pk r' = k <;> simp [h, h']

theorem alDel_find (pk : List Nat) (S : List Row) (hinj : KeyInjOn pk S) (l : List (Key × Row))
    (hk : Keyed pk S l) (hnd : l.Pairwise (fun x y => x.1 ≠ y.1)) (r : Row) (hr : r ∈ S) (k : List Val) :
    ((alDel l (getRowKey pk r)).map (·.2)).find? (fun x => decide (proj pk x = k))
      = if proj pk r = k then none else (l.map (·.2)).find? (fun x => decide (proj pk x = k)) := by
  induction l with
  | nil => simp [alDel]
  | cons a l ih =>
    obtain ⟨k', r'⟩ := a
    have ha := hk (k', r') (by simp)
    simp only at ha
    rw [List.pairwise_cons] at hnd
    simp only [alDel]
    split
    · rename_i hkk
      have hp : proj pk r' = proj pk r := hinj r' ha.2 r hr (by rw [← ha.1, hkk])
      simp only [List.map_cons, List.find?_cons, hp]
      by_cases h : proj pk r = k
      · simp only [h, if_true]
        rw [List.find?_eq_none]
        intro x hx hd
        simp only [decide_eq_true_eq] at hd
        obtain ⟨y, hy, rfl⟩ := List.mem_map.mp hx
        have hy' := hk y (List.mem_cons_of_mem _ hy)
        apply hnd.1 y hy
        simp only
        rw [ha.1, hy'.1]
        exact key_of_proj (by rw [hp, h, hd])
      · simp [h]
    · rename_i hkk
      have hp : ¬ proj pk r' = proj pk r := fun e => hkk (by rw [ha.1]; exact key_of_proj e)
      simp only [List.map_cons, List.find?_cons]
      rw [ih hk.tail hnd.2]
      by_cases h : proj pk r = k
      · have : ¬ proj pk r' = k := fun e => hp (by rw [e, h])
        simp [h, this]
      · simp [h]

theorem keyed_projs_nodup (pk : List Nat) (S : List Row) (l : List (Key × Row)) (hk : Keyed pk S l)
    (hnd : l.Pairwise (fun x y => x.1 ≠ y.1)) : ((l.map (·.2)).map (proj pk)).Nodup := by
  induction l with
  | nil => simp
  | cons a l ih =>
    rw [List.pairwise_cons] at hnd
    simp only [List.map_cons, List.nodup_cons]
    refine ⟨?_, ih hk.tail hnd.2⟩
    intro hm
    obtain ⟨y, hy, hye⟩ := List.mem_map.mp hm
    obtain ⟨z, hz, rfl⟩ := List.mem_map.mp hy
    apply hnd.1 z hz
    rw [(hk a (by simp)).1, (hk z (List.mem_cons_of_mem _ hz)).1]
    exact key_of_proj hye.symm

/-- pointwise form of `eff` for a well-formed accumulator. -/
theorem eff_apply (pk : List Nat) (S : List Row) (adds dels : List (Key × Row)) (hk : Keyed pk S adds)
    (hnd : adds.Pairwise (fun x y => x.1 ≠ y.1)) (m : KMap) (k : List Val) :
    eff pk adds dels m k
      = match (adds.map (·.2)).find? (fun r => decide (proj pk r = k)) with
        | some r => some r
        | none => if (dels.map (·.2)).any (fun d => decide (proj pk d = k)) then none else m k := by
  unfold eff
  rw [foldl_kput_apply pk _ _ k (keyed_projs_nodup pk S adds hk hnd), foldl_kdel_apply]

theorem eff_insert (sch : Schema) (S : List Row) (hinj : KeyInjOn sch.pk S) (e : Ed)
    (hwf : AccWF sch.pk S e) (r : Row) (hr : r ∈ S) (m : KMap) :
    eff sch.pk (pkInsert sch e r).adds (pkInsert sch e r).dels m
      = kput sch.pk (eff sch.pk e.adds e.dels m) r
    ∧ AccWF sch.pk S (pkInsert sch e r) := by
  have hwf' : AccWF sch.pk S (pkInsert sch e r) := by
    refine ⟨?_, hwf.delsKey, alSet_pairwise _ _ _ hwf.addsNd⟩
    intro x hx
    rcases alSet_mem _ _ _ x hx with rfl | hx
    · exact ⟨rfl, hr⟩
    · exact hwf.addsKey x hx
  refine ⟨?_, hwf'⟩
  funext k
  rw [eff_apply sch.pk S _ _ hwf'.addsKey hwf'.addsNd]
  simp only [kput]
  rw [eff_apply sch.pk S _ _ hwf.addsKey hwf.addsNd]
  simp only [pkInsert]
  rw [alSet_find sch.pk S hinj e.adds hwf.addsKey r hr k]
  by_cases h : proj sch.pk r = k
  · have : k = proj sch.pk r := h.symm
    simp [h]
  · have : ¬ k = proj sch.pk r := fun e => h e.symm
    simp only [h, if_false, this]
    rfl

theorem eff_delete (sch : Schema) (S : List Row) (hinj : KeyInjOn sch.pk S) (e : Ed)
    (hwf : AccWF sch.pk S e) (r : Row) (hr : r ∈ S) (m : KMap) :
    eff sch.pk (pkDelete sch e r).adds (pkDelete sch e r).dels m
      = kdel (eff sch.pk e.adds e.dels m) (proj sch.pk r)
    ∧ AccWF sch.pk S (pkDelete sch e r) := by
  have hwf' : AccWF sch.pk S (pkDelete sch e r) := by
    refine ⟨?_, ?_, alDel_pairwise _ _ hwf.addsNd⟩
    · intro x hx; exact hwf.addsKey x (alDel_mem _ _ x hx)
    · intro x hx
      rcases alSet_mem _ _ _ x hx with rfl | hx
      · exact ⟨rfl, hr⟩
      · exact hwf.delsKey x hx
  refine ⟨?_, hwf'⟩
  funext k
  rw [eff_apply sch.pk S _ _ hwf'.addsKey hwf'.addsNd]
  simp only [kdel]
  rw [eff_apply sch.pk S _ _ hwf.addsKey hwf.addsNd]
  simp only [pkDelete]
  simp only [alDel_find sch.pk S hinj e.adds hwf.addsKey hwf.addsNd r hr k,
    alSet_any sch.pk S hinj e.dels hwf.delsKey r hr k]
  by_cases h : proj sch.pk r = k
  · have : k = proj sch.pk r := h.symm
    simp [h]
  · have : ¬ k = proj sch.pk r := fun e => h e.symm
    simp only [h, if_false, this, decide_false, Bool.false_or]


/-! ### sequences of accumulator calls -/

/-- a call on the edit accumulator -/
inductive AccCall where
  | ins (r : Row)
  | del (r : Row)
  deriving Repr

def AccCall.row : AccCall → Row
  | .ins r => r
  | .del r => r

/-- Impl: keyed accumulator step. -/
def accStepPk (sch : Schema) (e : Ed) : AccCall → Ed
  | .ins r => pkInsert sch e r
  | .del r => pkDelete sch e r

/-- Spec: the same call on the keyed map. -/
def specStepK (pk : List Nat) (m : KMap) : AccCall → KMap
  | .ins r => kput pk m r
  | .del r => kdel m (proj pk r)

theorem fold_eff (sch : Schema) (S : List Row) (hinj : KeyInjOn sch.pk S) (calls : List AccCall)
    (hS : ∀ c ∈ calls, c.row ∈ S) (e : Ed) (hwf : AccWF sch.pk S e) (m : KMap) :
    eff sch.pk (calls.foldl (accStepPk sch) e).adds (calls.foldl (accStepPk sch) e).dels m
        = calls.foldl (specStepK sch.pk) (eff sch.pk e.adds e.dels m)
      ∧ AccWF sch.pk S (calls.foldl (accStepPk sch) e)
      ∧ (calls.foldl (accStepPk sch) e).rows = e.rows := by
  induction calls generalizing e with
  | nil => exact ⟨rfl, hwf, rfl⟩
  | cons c cs ih =>
    simp only [List.foldl_cons]
    have hc : c.row ∈ S := hS c (by simp)
    have hcs : ∀ c ∈ cs, c.row ∈ S := fun c h => hS c (by simp [h])
    cases c with
    | ins r =>
      obtain ⟨h1, h2⟩ := eff_insert sch S hinj e hwf r hc m
      obtain ⟨i1, i2, i3⟩ := ih hcs (pkInsert sch e r) h2
      exact ⟨by simp only [accStepPk, specStepK]; rw [i1, h1], i2, by rw [show accStepPk sch e (.ins r) = pkInsert sch e r from rfl, i3]; rfl⟩
    | del r =>
      obtain ⟨h1, h2⟩ := eff_delete sch S hinj e hwf r hc m
      obtain ⟨i1, i2, i3⟩ := ih hcs (pkDelete sch e r) h2
      exact ⟨by simp only [accStepPk, specStepK]; rw [i1, h1], i2, by rw [show accStepPk sch e (.del r) = pkDelete sch e r from rfl, i3]; rfl⟩

/-! ### `sortRows` is a permutation; the keyed map does not depend on the stored order -/

theorem insertSorted_perm (lt : Row → Row → Bool) (x : Row) (l : List Row) :
    (insertSorted lt x l).Perm (x :: l) := by
  induction l with
  | nil => exact List.Perm.refl _
  | cons y ys ih =>
    simp only [insertSorted]
    split
    · exact List.Perm.refl _
    · exact (List.Perm.cons y ih).trans (List.Perm.swap x y ys)

theorem sortRowsBy_perm (lt : Row → Row → Bool) (l : List Row) : (sortRowsBy lt l).Perm l := by
  induction l with
  | nil => exact List.Perm.refl _
  | cons x xs ih =>
    simp only [sortRowsBy, List.foldr_cons]
    exact (insertSorted_perm lt x _).trans (List.Perm.cons x ih)

theorem sortRows_perm (sch : Schema) (t : List Row) : (sortRows sch t).Perm t := sortRowsBy_perm _ t

theorem absT_perm (pk : List Nat) (l1 l2 : List Row) (hp : l1.Perm l2) (hnd : NoDupPk pk l1) :
    absT pk l1 = absT pk l2 ∧ NoDupPk pk l2 := by
  have hnd2 : NoDupPk pk l2 := by
    unfold NoDupPk at hnd ⊢
    exact (List.Perm.nodup_iff (List.Perm.map (proj pk) hp)).mp hnd
  refine ⟨?_, hnd2⟩
  funext k
  cases h : absT pk l1 k with
  | none =>
    symm
    apply absT_none_of_not_mem
    intro hm
    obtain ⟨r, hr, hrk⟩ := List.mem_map.mp hm
    have : absT pk l1 k = some r := (absT_some_iff pk l1 hnd k r).mpr ⟨hp.mem_iff.mpr hr, hrk⟩
    rw [h] at this; cases this
  | some r =>
    symm
    obtain ⟨hr, hrk⟩ := (absT_some_iff pk l1 hnd k r).mp h
    exact (absT_some_iff pk l2 hnd2 k r).mpr ⟨hp.mem_iff.mp hr, hrk⟩

/-! ### printing integers is injective -/

def ofDec (ds : List Nat) : Nat := ds.foldl (fun a d => 10 * a + (d - 48)) 0

theorem ofDec_snoc (xs : List Nat) (d : Nat) : ofDec (xs ++ [d]) = 10 * ofDec xs + (d - 48) := by
  simp [ofDec, List.foldl_append]

theorem natDecF_inv (f n : Nat) (h : n < f) : ofDec (natDecF f n) = n := by
  induction f generalizing n with
  | zero => omega
  | succ f ih =>
    simp only [natDecF]
    split
    · simp [ofDec, digit]; omega
    · rw [ofDec_snoc, ih (n / 10) (by omega)]
      simp only [digit]; omega

theorem natDecF_digits (f n : Nat) : ∀ d ∈ natDecF f n, 48 ≤ d ∧ d ≤ 57 := by
  induction f generalizing n with
  | zero => simp [natDecF]
  | succ f ih =>
    simp only [natDecF]
    split
    · intro d hd; simp only [List.mem_singleton] at hd; subst hd; simp only [digit]; omega
    · intro d hd
      rw [List.mem_append] at hd
      rcases hd with hd | hd
      · exact ih _ d hd
      · simp only [List.mem_singleton] at hd; subst hd; simp only [digit]; omega

theorem natDec_inj (a b : Nat) (h : natDec a = natDec b) : a = b := by
  have ha := natDecF_inv (a + 1) a (by omega)
  have hb := natDecF_inv (b + 1) b (by omega)
  unfold natDec at h
  rw [h] at ha
  omega

theorem printInt_inj (a b : Int) (h : printInt a = printInt b) : a = b := by
  unfold printInt at h
  by_cases ha : a < 0 <;> by_cases hb : b < 0
  · simp only [ha, hb, if_true, List.cons.injEq, true_and] at h
    have := natDec_inj _ _ h
    omega
  · simp only [ha, hb, if_true, if_false] at h
    have hd := natDecF_digits (b.toNat + 1) b.toNat 45 (by unfold natDec at h; rw [← h]; simp)
    omega
  · simp only [ha, hb, if_true, if_false] at h
    have hd := natDecF_digits (a.toNat + 1) a.toNat 45 (by unfold natDec at h; rw [h]; simp)
    omega
  · simp only [ha, hb, if_false] at h
    have := natDec_inj _ _ h
    omega

/-! ### the repaired `getRowKey` (length-prefixed parts) is injective on typed keys -/

theorem natDec_digits (n : Nat) : ∀ d ∈ natDec n, 48 ≤ d ∧ d ≤ 57 := natDecF_digits (n + 1) n

/-- a `:`-free prefix before the first `:` is determined by the whole string. -/
theorem colon_split_inj (a b x y : List Nat) (ha : ∀ d ∈ a, d ≠ 58) (hb : ∀ d ∈ b, d ≠ 58)
    (h : a ++ 58 :: x = b ++ 58 :: y) : a = b ∧ x = y := by
  induction a generalizing b with
  | nil =>
    cases b with
    | nil => simpa using h
    | cons b0 bs =>
      simp only [List.nil_append, List.cons_append, List.cons.injEq] at h
      exact absurd h.1.symm (hb b0 (by simp))
  | cons a0 as ih =>
    cases b with
    | nil =>
      simp only [List.nil_append, List.cons_append, List.cons.injEq] at h
      exact absurd h.1 (ha a0 (by simp))
    | cons b0 bs =>
      simp only [List.cons_append, List.cons.injEq] at h
      obtain ⟨h0, h1⟩ := h
      obtain ⟨e1, e2⟩ := ih bs (fun d hd => ha d (by simp [hd])) (fun d hd => hb d (by simp [hd])) h1
      exact ⟨by rw [h0, e1], e2⟩

/-- **Key parts are self-delimiting**: a concatenation that starts with a key part determines the
part and the rest (`%d:%s,` with the byte length of `%s`). -/
theorem keyPart_inj (s1 s2 t1 t2 : Key) (h : keyPart s1 ++ t1 = keyPart s2 ++ t2) : s1 = s2 ∧ t1 = t2 := by
  unfold keyPart at h
  simp only [List.append_assoc, List.cons_append] at h
  obtain ⟨hl, hr⟩ := colon_split_inj _ _ _ _
    (fun d hd => by have := natDec_digits _ d hd; omega)
    (fun d hd => by have := natDec_digits _ d hd; omega) h
  have hlen : s1.length = s2.length := natDec_inj _ _ hl
  obtain ⟨e1, e2⟩ := List.append_inj hr hlen
  simp only [List.nil_append, List.cons.injEq, true_and] at e2
  exact ⟨e1, e2⟩

/-- kind of a value: what the column type fixes (NULL / integer / string). -/
def Val.kind : Val → Nat
  | .null => 0
  | .int _ => 1
  | .str _ => 2

/-- `%v` printing is injective on values of one kind. (Across kinds it is not: `1` and `'1'`.) -/
theorem printVal_inj_kind (a b : Val) (hk : a.kind = b.kind) (h : printVal a = printVal b) : a = b := by
  cases a <;> cases b <;> simp only [Val.kind] at hk <;> try omega
  · rfl
  · simp only [printVal] at h; rw [printInt_inj _ _ h]
  · simp only [printVal] at h; rw [h]

/-- The repaired `getRowKey` separates the key values of any two rows whose key columns hold values
of the same kinds. -/
theorem getRowKey_inj (pk : List Nat) (r1 r2 : Row) (hk : ∀ c ∈ pk, (r1.at c).kind = (r2.at c).kind)
    (h : getRowKey pk r1 = getRowKey pk r2) : proj pk r1 = proj pk r2 := by
  induction pk with
  | nil => rfl
  | cons c cs ih =>
    simp only [getRowKey, List.flatMap_cons] at h
    obtain ⟨h1, h2⟩ := keyPart_inj _ _ _ _ h
    have hv := printVal_inj_kind _ _ (hk c (by simp)) h1
    simp only [proj, List.map_cons]
    rw [hv]
    congr 1
    exact ih (fun c hc => hk c (by simp [hc])) h2

/-- The key columns of `r` hold values of the declared kinds: a string in a VARCHAR column, an
integer in an INT column, never NULL (primary-key columns are NOT NULL; the engine rejects anything
else before the table editor is reached — `checkRow`, ERROR 1048). -/
def KeyTyped (sch : Schema) (r : Row) : Prop :=
  ∀ c ∈ sch.pk, (r.at c).kind = if (sch.cols.getD c {}).str then 2 else 1

/-- **`getRowKey` is injective on the key values of typed rows** — the statement that was false
before the repair of `pk_print_collision` (then: (1,23) / (12,3)). -/
theorem keyInjOn_typed (sch : Schema) (S : List Row) (h : ∀ r ∈ S, KeyTyped sch r) : KeyInjOn sch.pk S := by
  intro r1 h1 r2 h2 hk
  exact getRowKey_inj sch.pk r1 r2 (fun c hc => by rw [h r1 h1 c hc, h r2 h2 c hc]) hk

end Gms.MemTable
