/-
Column-range operations denote the set operations they are named after (M4 `Range`).
-/
import Gms.Lemmas.RangeCut

namespace Gms.Range

theorem imp_le {a b : Cut} (h : a.compare b ≤ 0) (v : Option Int) :
    b.isBelow v = true → a.isBelow v = true := Cut.le_sound a b h v

theorem imp_ge {a b : Cut} (h : 0 ≤ a.compare b) (v : Option Int) :
    a.isBelow v = true → b.isBelow v = true :=
  Cut.le_sound b a (by have := Cut.compare_antisymm a b; omega) v

theorem cmp_imp (a b : Cut) (v : Option Int) :
    (a.compare b = -1 → b.isBelow v = true → a.isBelow v = true) ∧
    (a.compare b = 0 → a.isBelow v = b.isBelow v) ∧
    (a.compare b = 1 → a.isBelow v = true → b.isBelow v = true) := by
  refine ⟨fun h => imp_le (by omega) v, fun h => by rw [(Cut.compare_eq_zero_iff a b).mp h], fun h => imp_ge (by omega) v⟩

theorem cutMax_cases (a b : Cut) : (cutMax a b = a ∧ b.compare a ≤ 0) ∨ (cutMax a b = b ∧ a.compare b ≤ 0) := by
  unfold cutMax
  by_cases h : a.compare b = -1
  · right; simp [h]
  · left; simp only [h, if_false, true_and]
    have := Cut.compare_antisymm a b
    rcases Cut.compare_range a b with c | c | c <;> omega

theorem cutMin_cases (a b : Cut) : (cutMin a b = a ∧ a.compare b ≤ 0) ∨ (cutMin a b = b ∧ b.compare a ≤ 0) := by
  unfold cutMin
  by_cases h : a.compare b = 1
  · right; simp only [h, if_true, true_and]
    have := Cut.compare_antisymm a b; omega
  · left; simp only [h, if_false, true_and]
    rcases Cut.compare_range a b with c | c | c <;> omega

namespace ColRange

/-- A column range whose lower bound is not above its upper bound. -/
def NonInv (r : ColRange) : Prop := r.lo.compare r.hi ≤ 0

instance (r : ColRange) : Decidable r.NonInv := by unfold NonInv; exact inferInstance

theorem mem_eq (r : ColRange) (v : Option Int) : r.mem v = (r.lo.isBelow v && !r.hi.isBelow v) := rfl

theorem mem_empty (v : Option Int) : ColRange.empty.mem v = false := by
  simp [mem, empty, Cut.isBelow]

theorem equals_iff (r o : ColRange) : r.equals o = true ↔ r = o := by
  cases r; cases o
  simp [equals, Cut.compare_eq_zero_iff]

theorem equals_self (r : ColRange) : r.equals r = true := (equals_iff r r).mpr rfl

theorem isEmpty_iff (r : ColRange) : r.isEmpty = true ↔ ∀ v, r.mem v = false := by
  unfold isEmpty
  have anti := Cut.compare_antisymm r.lo r.hi
  constructor
  · intro h v
    have h' : r.hi.compare r.lo ≤ 0 := by simp at h; omega
    rw [mem_eq]
    cases hl : r.lo.isBelow v with
    | false => simp
    | true => rw [Cut.le_sound _ _ h' v hl]; simp
  · intro h
    rcases Cut.compare_range r.lo r.hi with c | c | c
    · obtain ⟨v, h1, h2⟩ := Cut.lt_witness r.lo r.hi (by omega)
      have := h v; rw [mem_eq, h1, h2] at this; simp at this
    · simp [c]
    · simp [c]

theorem not_isEmpty_iff (r : ColRange) : r.isEmpty = false ↔ ∃ v, r.mem v = true := by
  constructor
  · intro h
    have : r.lo.compare r.hi < 0 := by
      unfold isEmpty at h; simp at h; exact h
    obtain ⟨v, h1, h2⟩ := Cut.lt_witness _ _ this
    exact ⟨v, by rw [mem_eq, h1, h2]; rfl⟩
  · intro ⟨v, hv⟩
    cases he : r.isEmpty with
    | false => rfl
    | true => rw [(isEmpty_iff r).mp he v] at hv; simp at hv

theorem isEmpty_false_lt {r : ColRange} (h : r.isEmpty = false) : r.lo.compare r.hi < 0 := by
  unfold isEmpty at h; simp at h; exact h

theorem nonInv_of_not_isEmpty {r : ColRange} (h : r.isEmpty = false) : r.NonInv := by
  have := isEmpty_false_lt h; unfold NonInv; omega

/-! ### Overlaps -/

theorem overlaps_false {r o : ColRange} (h : (r.overlaps o).2 = false) (v : Option Int) :
    (r.mem v && o.mem v) = false := by
  unfold overlaps at h
  by_cases h1 : r.lo.compare o.hi ≥ 0
  · have i := imp_ge h1 v
    rw [mem_eq, mem_eq]
    cases ha : r.lo.isBelow v <;> cases hb : o.hi.isBelow v <;> simp_all
  · by_cases h2 : o.lo.compare r.hi ≥ 0
    · have i := imp_ge h2 v
      rw [mem_eq, mem_eq]
      cases ha : o.lo.isBelow v <;> cases hb : r.hi.isBelow v <;> simp_all
    · simp [h1, h2] at h

theorem overlaps_true_eq {r o : ColRange} (h : (r.overlaps o).2 = true) :
    (r.overlaps o).1 = ⟨cutMax r.lo o.lo, cutMin r.hi o.hi⟩ ∧ r.lo.compare o.hi < 0 ∧ o.lo.compare r.hi < 0 := by
  unfold overlaps at h ⊢
  by_cases h1 : r.lo.compare o.hi ≥ 0
  · simp [h1] at h
  · by_cases h2 : o.lo.compare r.hi ≥ 0
    · simp [h1, h2] at h
    · simp only [h1, h2, if_false, true_and]; omega

theorem overlaps_true {r o : ColRange} (h : (r.overlaps o).2 = true) (v : Option Int) :
    (r.overlaps o).1.mem v = (r.mem v && o.mem v) := by
  rw [(overlaps_true_eq h).1]
  simp only [mem_eq, isBelow_cutMax, isBelow_cutMin]
  cases r.lo.isBelow v <;> cases r.hi.isBelow v <;> cases o.lo.isBelow v <;> cases o.hi.isBelow v <;> rfl

/-- For non-empty operands the flag of `Overlaps` says exactly whether a common point exists. -/
theorem overlaps_true_iff {r o : ColRange} (hr : r.isEmpty = false) (ho : o.isEmpty = false) :
    (r.overlaps o).2 = true ↔ ∃ v, r.mem v = true ∧ o.mem v = true := by
  constructor
  · intro h
    obtain ⟨he, h1, h2⟩ := overlaps_true_eq h
    have hr' := isEmpty_false_lt hr
    have ho' := isEmpty_false_lt ho
    have hlt : (cutMax r.lo o.lo).compare (cutMin r.hi o.hi) < 0 := by
      rcases cutMax_cases r.lo o.lo with ⟨e, _⟩ | ⟨e, _⟩ <;> rcases cutMin_cases r.hi o.hi with ⟨e', _⟩ | ⟨e', _⟩ <;>
        rw [e, e'] <;> assumption
    obtain ⟨v, hv1, hv2⟩ := Cut.lt_witness _ _ hlt
    refine ⟨v, ?_⟩
    have := overlaps_true h v
    rw [he, mem_eq, hv1, hv2] at this
    simp at this
    exact this
  · intro ⟨v, h1, h2⟩
    cases hf : (r.overlaps o).2 with
    | true => rfl
    | false => have := overlaps_false hf v; rw [h1, h2] at this; simp at this

theorem overlaps_nonInv {r o : ColRange} (hr : r.NonInv) (ho : o.NonInv) (h : (r.overlaps o).2 = true) :
    (r.overlaps o).1.NonInv := by
  obtain ⟨he, h1, h2⟩ := overlaps_true_eq h
  rw [he]; unfold NonInv at *
  rcases cutMax_cases r.lo o.lo with ⟨e, _⟩ | ⟨e, _⟩ <;> rcases cutMin_cases r.hi o.hi with ⟨e', _⟩ | ⟨e', _⟩ <;>
    simp only [e, e'] <;> omega

/-! ### TryIntersect -/

theorem mem_tryIntersect (r o : ColRange) (v : Option Int) :
    (r.tryIntersect o).1.mem v = (r.mem v && o.mem v) := by
  unfold tryIntersect
  by_cases h : ((orderedCuts r.lo o.lo).2).compare ((orderedCuts r.hi o.hi).1) < 0
  · simp only [h, if_true, mem_eq, isBelow_ordered_fst, isBelow_ordered_snd]
    cases r.lo.isBelow v <;> cases r.hi.isBelow v <;> cases o.lo.isBelow v <;> cases o.hi.isBelow v <;> rfl
  · simp only [h, if_false, mem_empty]
    have i := imp_ge (a := (orderedCuts r.lo o.lo).2) (b := (orderedCuts r.hi o.hi).1) (by omega) v
    rw [isBelow_ordered_fst, isBelow_ordered_snd] at i
    simp only [mem_eq]
    cases h1 : r.lo.isBelow v <;> cases h2 : r.hi.isBelow v <;> cases h3 : o.lo.isBelow v <;> cases h4 : o.hi.isBelow v <;> simp_all

theorem tryIntersect_flag (r o : ColRange) :
    (r.tryIntersect o).2 = true ↔ ∃ v, r.mem v = true ∧ o.mem v = true := by
  have hm := mem_tryIntersect r o
  unfold tryIntersect at hm ⊢
  by_cases h : ((orderedCuts r.lo o.lo).2).compare ((orderedCuts r.hi o.hi).1) < 0
  · simp only [h, if_true] at hm ⊢
    obtain ⟨v, h1, h2⟩ := Cut.lt_witness _ _ h
    simp only [true_iff]
    refine ⟨v, ?_⟩
    have := hm v
    rw [mem_eq] at this; simp only [h1, h2] at this
    simpa using this.symm
  · simp only [h, if_false] at hm ⊢
    constructor
    · intro hh; simp at hh
    · intro ⟨v, h1, h2⟩
      have := hm v; rw [mem_empty, h1, h2] at this; simp at this

theorem tryIntersect_false {r o : ColRange} (h : (r.tryIntersect o).2 = false) : (r.tryIntersect o).1 = empty := by
  unfold tryIntersect at h ⊢
  by_cases hh : ((orderedCuts r.lo o.lo).2).compare ((orderedCuts r.hi o.hi).1) < 0
  · simp [hh] at h
  · simp [hh]

/-! ### TryUnion -/

theorem tryUnion_true {r o : ColRange} (h : (r.tryUnion o).2 = true) (v : Option Int) :
    (r.tryUnion o).1.mem v = (r.mem v || o.mem v) := by
  unfold tryUnion at h ⊢
  by_cases ho : o.isEmpty = true
  · simp only [ho, if_true]
    rw [(isEmpty_iff o).mp ho v]; simp
  · by_cases hr : r.isEmpty = true
    · simp only [ho, hr, if_true, if_false]
      rw [(isEmpty_iff r).mp hr v]; simp
    · by_cases hc : r.isConnected o = true
      · simp only [ho, hr, hc, if_false, Bool.not_true, Bool.false_eq_true]
        simp only [mem_eq, isBelow_ordered_fst, isBelow_ordered_snd]
        unfold isConnected at hc
        by_cases c1 : r.lo.compare o.hi > 0
        · simp [c1] at hc
        · simp only [c1, if_false, decide_eq_true_eq] at hc
          have i1 := imp_le (a := r.lo) (b := o.hi) (by omega) v
          have i2 := imp_le hc v
          cases h1 : r.lo.isBelow v <;> cases h2 : r.hi.isBelow v <;> cases h3 : o.lo.isBelow v <;> cases h4 : o.hi.isBelow v <;> simp_all
      · simp [ho, hr, hc] at h

theorem tryUnion_false {r o : ColRange} (h : (r.tryUnion o).2 = false) :
    r.isEmpty = false ∧ o.isEmpty = false ∧ r.isConnected o = false := by
  unfold tryUnion at h
  by_cases ho : o.isEmpty = true
  · simp [ho] at h
  · by_cases hr : r.isEmpty = true
    · simp [ho, hr] at h
    · by_cases hc : r.isConnected o = true
      · simp [ho, hr, hc] at h
      · simp at ho hr hc; exact ⟨hr, ho, hc⟩

theorem tryUnion_nonInv {r o : ColRange} (hr : r.NonInv) (ho : o.NonInv) (h : (r.tryUnion o).2 = true) :
    (r.tryUnion o).1.NonInv := by
  unfold tryUnion at h ⊢
  by_cases he : o.isEmpty = true
  · simpa [he] using hr
  · by_cases he' : r.isEmpty = true
    · simpa [he, he'] using ho
    · by_cases hc : r.isConnected o = true
      · simp only [he, he', hc, if_false, Bool.not_true, Bool.false_eq_true]
        unfold NonInv at *
        apply (Cut.le_iff _ _).mpr
        intro v hv
        rw [isBelow_ordered_snd] at hv
        rw [isBelow_ordered_fst]
        simp at hv
        rw [imp_le hr v hv.1]; rfl
      · simp [he, he', hc] at h

/-! ### Subtract -/

theorem subtract_isSome (r o : ColRange) : (r.subtract o).isSome = true := by
  unfold subtract
  by_cases h : (r.overlaps o).2 = true
  · simp only [h, Bool.not_true, Bool.false_eq_true, if_false]
    rcases Cut.compare_range r.lo o.lo with c | c | c <;> rcases Cut.compare_range r.hi o.hi with d | d | d <;>
      simp [c, d, subtractCase]
  · simp [h]

/-- `Subtract` denotes the set difference, provided the subtrahend is not inverted. -/
theorem mem_subtract {r o : ColRange} {ps : List ColRange} (ho : o.NonInv)
    (h : r.subtract o = some ps) (v : Option Int) :
    ps.any (fun p => p.mem v) = (r.mem v && !o.mem v) := by
  unfold subtract at h
  by_cases hf : (r.overlaps o).2 = true
  · simp only [hf, Bool.not_true, Bool.false_eq_true, if_false] at h
    obtain ⟨_, f1, f2⟩ := overlaps_true_eq hf
    have i1 := imp_le (a := r.lo) (b := o.hi) (by omega) v
    have i2 := imp_le (a := o.lo) (b := r.hi) (by omega) v
    have i3 := imp_le ho v
    have k1 := cmp_imp r.lo o.lo v
    have k2 := cmp_imp r.hi o.hi v
    rcases Cut.compare_range r.lo o.lo with c | c | c <;> rcases Cut.compare_range r.hi o.hi with d | d | d <;>
      simp [c, d, subtractCase] at h <;> subst h <;> simp only [c, d] at k1 k2 <;>
      simp only [List.any_cons, List.any_nil, List.map, mem_eq, Sel.pick] <;>
      cases h1 : r.lo.isBelow v <;> cases h2 : r.hi.isBelow v <;> cases h3 : o.lo.isBelow v <;>
      cases h4 : o.hi.isBelow v <;> simp_all
  · simp at hf
    simp [hf] at h; subst h
    have := overlaps_false hf v
    simp only [List.any_cons, List.any_nil, Bool.or_false]
    cases h1 : r.mem v <;> cases h2 : o.mem v <;> simp_all

end ColRange
end Gms.Range

namespace Gms.Range
namespace ColRange

theorem subtract_nonInv {r o : ColRange} {ps : List ColRange} (hr : r.NonInv)
    (h : r.subtract o = some ps) : ∀ p ∈ ps, p.NonInv := by
  unfold subtract at h
  by_cases hf : (r.overlaps o).2 = true
  · simp only [hf, Bool.not_true, Bool.false_eq_true, if_false] at h
    rcases Cut.compare_range r.lo o.lo with c | c | c <;> rcases Cut.compare_range r.hi o.hi with d | d | d <;>
      simp [c, d, subtractCase] at h <;> subst h <;> simp [Sel.pick, NonInv] <;>
      (have := Cut.compare_antisymm r.hi o.hi; omega)
  · simp at hf
    simp [hf] at h; subst h
    intro p hp; simp at hp; subst hp; exact hr

theorem isSubsetOf_sound {r o : ColRange} (h : r.isSubsetOf o = true) (v : Option Int)
    (hv : r.mem v = true) : o.mem v = true := by
  unfold isSubsetOf at h
  by_cases c : r.lo.compare o.lo = -1
  · simp [c] at h
  · by_cases d : r.hi.compare o.hi = 1
    · simp [c, d] at h
    · have i1 := imp_ge (a := r.lo) (b := o.lo) (by rcases Cut.compare_range r.lo o.lo with x | x | x <;> omega) v
      have i2 := imp_le (a := r.hi) (b := o.hi) (by rcases Cut.compare_range r.hi o.hi with x | x | x <;> omega) v
      rw [mem_eq] at hv ⊢
      cases h1 : r.lo.isBelow v <;> cases h2 : r.hi.isBelow v <;> cases h3 : o.lo.isBelow v <;>
        cases h4 : o.hi.isBelow v <;> simp_all

theorem isSubsetOf_self (r : ColRange) : r.isSubsetOf r = true := by
  simp [isSubsetOf, Cut.compare_self]

end ColRange
end Gms.Range
