/-
C28 — lemmas about the character-set part of the wire form (Gms/Model/WireCs.lean): every encoder
produces at most `maxLen` bytes per code point, the closed form of the SET/ENUM length loops, the
length of a comma-joined selection; `decodeCs ∘ encode = id` for each of the seven encoders.
-/
import Gms.Model.WireCs
import Gms.Lemmas.Utf8

namespace Gms.WireCs
open Gms.Utf8

/-! ## Encoders: bytes per code point -/

theorem encodeRune_length_le (r : Nat) : (encodeRune r).length ≤ 4 := by
  unfold encodeRune
  split <;> (try split) <;> (try split) <;> (try split) <;> simp

theorem encodeRune_length_pos (r : Nat) : 1 ≤ (encodeRune r).length := by
  unfold encodeRune
  split <;> (try split) <;> (try split) <;> (try split) <;> simp

theorem encodeRune_length_le3 (r : Nat) (h : r < 0x10000) : (encodeRune r).length ≤ 3 := by
  unfold encodeRune
  split
  · simp
  · split
    · simp
    · split
      · simp
      · simp

/-- **Every encoder of the envelope produces at most `MaxLength()` bytes per code point** (binary
is excluded: it passes the UTF-8 bytes through while announcing a width of 1 — it is never the
effective result character set of a character column). -/
theorem encodeCp_length_le (c : Cs) (cp : Nat) (e : Bytes) (hc : c ≠ .binary)
    (h : encodeCp c cp = some e) : e.length ≤ c.maxLen := by
  unfold encodeCp at h
  split at h
  · exact absurd h (by simp)
  · cases c
    case binary => exact absurd rfl hc
    case utf8mb4 =>
      simp only [Option.some.injEq] at h
      subst h; exact encodeRune_length_le cp
    case utf8mb3 =>
      simp only at h
      split at h
      · rename_i hlt
        simp only [Option.some.injEq] at h
        subst h; exact encodeRune_length_le3 cp hlt
      · exact absurd h (by simp)
    case ascii =>
      simp only at h
      split at h
      · simp only [Option.some.injEq] at h; subst h; simp [Cs.maxLen]
      · exact absurd h (by simp)
    case latin1 =>
      simp only at h
      cases hb : latin1Byte? cp with
      | none => simp [hb] at h
      | some b => simp [hb] at h; subst h; simp [Cs.maxLen]
    case utf16 =>
      simp only at h
      split at h
      · simp only [Option.some.injEq] at h; subst h; simp [Cs.maxLen]
      · simp only [Option.some.injEq] at h; subst h; simp [Cs.maxLen]
    case utf32 =>
      simp only [Option.some.injEq] at h
      subst h; simp [Cs.maxLen]

theorem encode_length_le (c : Cs) (hc : c ≠ .binary) : ∀ (s : Str) (bs : Bytes),
    encode c s = some bs → bs.length ≤ s.length * c.maxLen
  | [], bs, h => by
    simp only [encode, Option.some.injEq] at h
    subst h; simp
  | r :: rs, bs, h => by
    unfold encode at h
    cases h1 : encodeCp c r with
    | none => simp [h1] at h
    | some a =>
      cases h2 : encode c rs with
      | none => simp [h1, h2] at h
      | some b =>
        simp only [h1, h2, Option.some.injEq] at h
        subst h
        have ha := encodeCp_length_le c r a hc h1
        have hb := encode_length_le c hc rs b h2
        simp only [List.length_append, List.length_cons, Nat.add_mul, Nat.one_mul]
        omega

/-- a string has at most as many code points as UTF-8 bytes -/
theorem length_le_utf8Len : ∀ (s : Str), s.length ≤ utf8Len s
  | [] => by simp [utf8Len, encodeRunes]
  | r :: rs => by
    have := length_le_utf8Len rs
    have h1 := encodeRune_length_pos r
    simp only [utf8Len, encodeRunes, List.length_append, List.length_cons] at this ⊢
    omega

/-! ## The length loops of `CreateEnumType` / `CreateSetType` -/

def sumLen : List Str → Nat
  | [] => 0
  | m :: rest => m.length + sumLen rest

/-- the ENUM length dominates every member -/
theorem enumLen_ge (w : Nat) : ∀ (ms : List Str) (i : Nat) (m : Str), ms[i]? = some m →
    m.length * w ≤ enumLen w ms
  | [], i, m, h => by simp at h
  | x :: rest, 0, m, h => by
    simp only [List.getElem?_cons_zero, Option.some.injEq] at h
    subst h
    simp only [enumLen]
    split <;> omega
  | x :: rest, i + 1, m, h => by
    simp only [List.getElem?_cons_succ] at h
    have := enumLen_ge w rest i m h
    simp only [enumLen]
    split <;> omega

/-- closed form of the SET loop: every member at `w` bytes per character plus one separator of `w`
bytes for every member except the first of the whole list -/
theorem setLenFrom_eq (w : Nat) : ∀ (ms : List Str) (i : Nat),
    setLenFrom w i ms = sumLen ms * w + (if i ≠ 0 then ms.length else ms.length - 1) * w
  | [], i => by simp [setLenFrom, sumLen]
  | m :: rest, i => by
    rw [setLenFrom, setLenFrom_eq w rest (i + 1)]
    simp only [sumLen, List.length_cons, Nat.add_mul]
    have h1 : (i + 1 ≠ 0) := by omega
    simp only [h1, ne_eq, not_false_eq_true, if_true]
    by_cases hi : i = 0
    · subst hi
      simp
      omega
    · simp only [hi, not_false_eq_true, if_true, Nat.add_mul, Nat.one_mul]
      omega

theorem setLen_eq (w : Nat) (ms : List Str) : setLen w ms = sumLen ms * w + (ms.length - 1) * w := by
  simp [setLen, setLenFrom_eq]

theorem joinComma_length : ∀ (l : List Str), (joinComma l).length = sumLen l + (l.length - 1)
  | [] => rfl
  | [m] => by simp [joinComma, sumLen]
  | m :: x :: rest => by
    have := joinComma_length (x :: rest)
    simp only [joinComma, List.length_append, List.length_cons, sumLen] at this ⊢
    omega

theorem selected_le : ∀ (ms : List Str) (b : Nat),
    sumLen (selected ms b) ≤ sumLen ms ∧ (selected ms b).length ≤ ms.length
  | [], b => by simp [selected, sumLen]
  | m :: rest, b => by
    have := selected_le rest (b / 2)
    unfold selected
    split <;> simp only [sumLen, List.length_cons] <;> omega

/-- all bits set selects every member -/
theorem selected_all : ∀ (ms : List Str), selected ms (2 ^ ms.length - 1) = ms
  | [] => rfl
  | m :: rest => by
    have h1 : (2 ^ (rest.length + 1) - 1) % 2 = 1 := by
      have : 2 ^ (rest.length + 1) = 2 * 2 ^ rest.length := by rw [Nat.pow_succ]; omega
      have hp : 0 < 2 ^ rest.length := Nat.pow_pos (by omega)
      omega
    have h2 : (2 ^ (rest.length + 1) - 1) / 2 = 2 ^ rest.length - 1 := by
      have : 2 ^ (rest.length + 1) = 2 * 2 ^ rest.length := by rw [Nat.pow_succ]; omega
      have hp : 0 < 2 ^ rest.length := Nat.pow_pos (by omega)
      omega
    simp only [selected, List.length_cons, h1, if_true, h2, selected_all rest]

/-- the comma-joined selection has at most as many characters as the SET loop accounts for -/
theorem setText_length_le (ms : List Str) (b : Nat) :
    (setText ms b).length ≤ sumLen ms + (ms.length - 1) := by
  have := selected_le ms b
  rw [setText, joinComma_length]
  omega

/-! ## Round trip of the transcoding -/

theorem encode_cons (c : Cs) (r : Nat) (rs : Str) (bs : Bytes) (h : encode c (r :: rs) = some bs) :
    ∃ a b, encodeCp c r = some a ∧ encode c rs = some b ∧ bs = a ++ b := by
  unfold encode at h
  cases h1 : encodeCp c r with
  | none => simp [h1] at h
  | some a =>
    cases h2 : encode c rs with
    | none => simp [h1, h2] at h
    | some b =>
      simp only [h1, h2, Option.some.injEq] at h
      exact ⟨a, b, rfl, rfl, h.symm⟩

theorem encodeCp_scalar (c : Cs) (r : Nat) (a : Bytes) (h : encodeCp c r = some a) : isScalar r = true := by
  unfold encodeCp at h
  split at h
  · exact absurd h (by simp)
  · rename_i hs; simpa using hs

/-- utf32 -/
theorem decode_encode_utf32 : ∀ (s : Str) (bs : Bytes) (fuel : Nat), encode .utf32 s = some bs → s.length < fuel →
    decodeCs .utf32 fuel bs = some s
  | [], bs, fuel, h, hf => by
    simp only [encode, Option.some.injEq] at h
    subst h
    obtain ⟨f, rfl⟩ : ∃ f, fuel = f + 1 := ⟨fuel - 1, by simp at hf; omega⟩
    simp [decodeCs]
  | r :: rs, bs, fuel, h, hf => by
    obtain ⟨a, b, ha, hb, rfl⟩ := encode_cons _ _ _ _ h
    have hs := encodeCp_scalar _ _ _ ha
    obtain ⟨f, rfl⟩ : ∃ f, fuel = f + 1 := ⟨fuel - 1, by simp at hf; omega⟩
    have ih := decode_encode_utf32 rs b f hb (by simp at hf; omega)
    simp only [encodeCp, hs, Bool.not_true, Bool.false_eq_true, if_false, Option.some.injEq] at ha
    subst ha
    have hr : r < 0x110000 := by
      simp only [isScalar, Bool.or_eq_true, Bool.and_eq_true, decide_eq_true_eq] at hs; omega
    have hu : r / 65536 * 65536 + r / 256 % 256 * 256 + r % 256 = r := by omega
    simp [decodeCs, hu, hs, ih]

theorem fuel_succ (fuel n : Nat) (h : n < fuel) : ∃ f, fuel = f + 1 := ⟨fuel - 1, by omega⟩

/-- ascii -/
theorem decode_encode_ascii : ∀ (s : Str) (bs : Bytes) (fuel : Nat), encode .ascii s = some bs → s.length < fuel →
    decodeCs .ascii fuel bs = some s
  | [], bs, fuel, h, hf => by
    simp only [encode, Option.some.injEq] at h
    subst h
    obtain ⟨f, rfl⟩ := fuel_succ _ _ hf
    simp [decodeCs]
  | r :: rs, bs, fuel, h, hf => by
    obtain ⟨a, b, ha, hb, rfl⟩ := encode_cons _ _ _ _ h
    have hs := encodeCp_scalar _ _ _ ha
    obtain ⟨f, rfl⟩ := fuel_succ _ _ hf
    have ih := decode_encode_ascii rs b f hb (by simp at hf; omega)
    simp only [encodeCp, hs, Bool.not_true, Bool.false_eq_true, if_false] at ha
    split at ha
    · rename_i hlt
      simp only [Option.some.injEq] at ha
      subst ha
      simp [decodeCs, hlt, ih]
    · exact absurd ha (by simp)

theorem findIdx_getD (x : Nat) : ∀ (l : List Nat) (i : Nat), l.findIdx? (· == x) = some i →
    l[i]? = some x
  | [], i, h => by simp at h
  | y :: rest, i, h => by
    rw [List.findIdx?_cons] at h
    split at h
    · rename_i hy
      simp only [Option.some.injEq] at h
      subst h
      simp only [beq_iff_eq] at hy
      simp [hy]
    · cases hr : rest.findIdx? (· == x) with
      | none => simp [hr] at h
      | some j =>
        simp only [hr, Option.map_some, Option.some.injEq] at h
        subst h
        have := findIdx_getD x rest j hr
        simpa using this

theorem latin1Cp_byte (r b : Nat) (h : latin1Byte? r = some b) : latin1Cp b = r := by
  unfold latin1Byte? at h
  split at h
  · rename_i hr
    simp only [Option.some.injEq] at h
    subst h
    unfold latin1Cp
    rw [if_neg (by omega)]
  · cases hi : cp1252Hi.findIdx? (· == r) with
    | none => simp [hi] at h
    | some i =>
      simp only [hi, Option.map_some, Option.some.injEq] at h
      subst h
      have hg' := findIdx_getD r cp1252Hi i hi
      have hlt : i < cp1252Hi.length := (List.getElem?_eq_some_iff.mp hg').1
      have hg : cp1252Hi.getD i 0 = r := by simp [List.getD, hg']
      have h32 : cp1252Hi.length = 32 := by decide
      unfold latin1Cp
      rw [if_pos (by omega)]
      have : 128 + i - 128 = i := by omega
      rw [this, hg]

/-- latin1 (cp1252) -/
theorem decode_encode_latin1 : ∀ (s : Str) (bs : Bytes) (fuel : Nat), encode .latin1 s = some bs → s.length < fuel →
    decodeCs .latin1 fuel bs = some s
  | [], bs, fuel, h, hf => by
    simp only [encode, Option.some.injEq] at h
    subst h
    obtain ⟨f, rfl⟩ := fuel_succ _ _ hf
    simp [decodeCs]
  | r :: rs, bs, fuel, h, hf => by
    obtain ⟨a, b, ha, hb, rfl⟩ := encode_cons _ _ _ _ h
    have hs := encodeCp_scalar _ _ _ ha
    obtain ⟨f, rfl⟩ := fuel_succ _ _ hf
    have ih := decode_encode_latin1 rs b f hb (by simp at hf; omega)
    simp only [encodeCp, hs, Bool.not_true, Bool.false_eq_true, if_false] at ha
    cases hb' : latin1Byte? r with
    | none => simp [hb'] at ha
    | some x =>
      simp only [hb', Option.map_some, Option.some.injEq] at ha
      subst ha
      simp [decodeCs, ih, latin1Cp_byte r x hb']

/-- utf16 (big endian, surrogate pairs) -/
theorem decode_encode_utf16 : ∀ (s : Str) (bs : Bytes) (fuel : Nat), encode .utf16 s = some bs → s.length < fuel →
    decodeCs .utf16 fuel bs = some s
  | [], bs, fuel, h, hf => by
    simp only [encode, Option.some.injEq] at h
    subst h
    obtain ⟨f, rfl⟩ := fuel_succ _ _ hf
    simp [decodeCs]
  | r :: rs, bs, fuel, h, hf => by
    obtain ⟨a, b, ha, hb, rfl⟩ := encode_cons _ _ _ _ h
    have hs := encodeCp_scalar _ _ _ ha
    obtain ⟨f, rfl⟩ := fuel_succ _ _ hf
    have ih := decode_encode_utf16 rs b f hb (by simp at hf; omega)
    have hsc := (isScalar_iff r).mp hs
    simp only [encodeCp, hs, Bool.not_true, Bool.false_eq_true, if_false] at ha
    split at ha
    · rename_i hlt
      simp only [Option.some.injEq] at ha
      subst ha
      have hu : r / 256 * 256 + r % 256 = r := by omega
      have hc : r < 0xD800 ∨ 0xE000 ≤ r := by omega
      simp [decodeCs, hu, hc, ih]
    · rename_i hge
      simp only [Option.some.injEq] at ha
      subst ha
      have hu : (0xD800 + (r - 0x10000) / 1024) / 256 * 256 + (0xD800 + (r - 0x10000) / 1024) % 256 =
          0xD800 + (r - 0x10000) / 1024 := Nat.div_add_mod' _ _
      have hl : (0xDC00 + (r - 0x10000) % 1024) / 256 * 256 + (0xDC00 + (r - 0x10000) % 1024) % 256 =
          0xDC00 + (r - 0x10000) % 1024 := Nat.div_add_mod' _ _
      have hc1 : ¬ (0xD800 + (r - 0x10000) / 1024 < 0xD800 ∨ 0xE000 ≤ 0xD800 + (r - 0x10000) / 1024) := by omega
      have hc2 : 0xD800 + (r - 0x10000) / 1024 < 0xDC00 ∧ 0xDC00 ≤ 0xDC00 + (r - 0x10000) % 1024 ∧
          0xDC00 + (r - 0x10000) % 1024 < 0xE000 := by omega
      have hv : 0x10000 + (0xD800 + (r - 0x10000) / 1024 - 0xD800) * 1024 + (0xDC00 + (r - 0x10000) % 1024 - 0xDC00) = r := by
        omega
      simp only [decodeCs, List.cons_append, List.nil_append, hu, hl, hc1, hc2, hv, if_false, if_true, and_self, ih, Option.map_some]


/-- the UTF-8 family passes the Go string through -/
theorem encode_utf8_family (c : Cs) (hc : c = .utf8mb4 ∨ c = .binary ∨ c = .utf8mb3) : ∀ (s : Str) (bs : Bytes),
    encode c s = some bs →
    bs = encodeRunes s ∧ (∀ r ∈ s, isScalar r = true) ∧ (c = .utf8mb3 → ∀ r ∈ s, r < 0x10000)
  | [], bs, h => by
    simp only [encode, Option.some.injEq] at h
    subst h
    simp [encodeRunes]
  | r :: rs, bs, h => by
    obtain ⟨a, b, ha, hb, rfl⟩ := encode_cons _ _ _ _ h
    have hs := encodeCp_scalar _ _ _ ha
    obtain ⟨ih1, ih2, ih3⟩ := encode_utf8_family c hc rs b hb
    have hae : a = encodeRune r ∧ (c = .utf8mb3 → r < 0x10000) := by
      rcases hc with rfl | rfl | rfl
      · simp only [encodeCp, hs, Bool.not_true, Bool.false_eq_true, if_false, Option.some.injEq] at ha
        exact ⟨ha.symm, by simp⟩
      · simp only [encodeCp, hs, Bool.not_true, Bool.false_eq_true, if_false, Option.some.injEq] at ha
        exact ⟨ha.symm, by simp⟩
      · simp only [encodeCp, hs, Bool.not_true, Bool.false_eq_true, if_false] at ha
        split at ha
        · rename_i hlt
          simp only [Option.some.injEq] at ha
          exact ⟨ha.symm, fun _ => hlt⟩
        · exact absurd ha (by simp)
    refine ⟨by rw [hae.1, ih1]; rfl, ?_, ?_⟩
    · intro x hx
      rcases List.mem_cons.1 hx with rfl | hx
      · exact hs
      · exact ih2 x hx
    · intro h3 x hx
      rcases List.mem_cons.1 hx with rfl | hx
      · exact hae.2 h3
      · exact ih3 h3 x hx

theorem decode_encode_utf8_family (c : Cs) (hc : c = .utf8mb4 ∨ c = .binary ∨ c = .utf8mb3) (s : Str) (bs : Bytes)
    (fuel : Nat) (h : encode c s = some bs) (hf : 0 < fuel) : decodeCs c fuel bs = some s := by
  obtain ⟨rfl, hsc, h3⟩ := encode_utf8_family c hc s bs h
  obtain ⟨f, rfl⟩ := fuel_succ _ _ hf
  have hv := valid_encode s hsc
  have hd := decode_encode s hsc
  cases s with
  | nil => rcases hc with rfl | rfl | rfl <;> simp [decodeCs, encodeRunes]
  | cons r rs =>
    have hne : encodeRunes (r :: rs) ≠ [] := by
      have := encodeRune_length_pos r
      intro he
      have hl := congrArg List.length he
      simp only [encodeRunes, List.length_append, List.length_nil] at hl
      omega
    cases hb : encodeRunes (r :: rs) with
    | nil => exact absurd hb hne
    | cons x xs =>
      rw [hb] at hv hd
      rcases hc with rfl | rfl | rfl
      · simp [decodeCs, hv, hd]
      · simp [decodeCs, hv, hd]
      · have hall : (r :: rs).all (· < 0x10000) = true := by
          simp only [List.all_eq_true, decide_eq_true_eq]
          exact h3 rfl
        simp only [decodeCs, hv, hd, hall, Bool.and_self, if_true]

/-- **Round trip of the transcoding**: for each of the seven encoders, decoding what `Encode` produced
yields the code points again. -/
theorem decode_encode_cs (c : Cs) (s : Str) (bs : Bytes) (fuel : Nat) (h : encode c s = some bs)
    (hf : s.length < fuel) : decodeCs c fuel bs = some s := by
  cases c
  case utf8mb4 => exact decode_encode_utf8_family _ (Or.inl rfl) s bs fuel h (by omega)
  case utf8mb3 => exact decode_encode_utf8_family _ (Or.inr (Or.inr rfl)) s bs fuel h (by omega)
  case binary => exact decode_encode_utf8_family _ (Or.inr (Or.inl rfl)) s bs fuel h (by omega)
  case latin1 => exact decode_encode_latin1 s bs fuel h hf
  case ascii => exact decode_encode_ascii s bs fuel h hf
  case utf16 => exact decode_encode_utf16 s bs fuel h hf
  case utf32 => exact decode_encode_utf32 s bs fuel h hf

/-- every encoder produces at least one byte per code point -/
theorem encode_length_ge (c : Cs) : ∀ (s : Str) (bs : Bytes), encode c s = some bs → s.length ≤ bs.length
  | [], bs, h => by simp
  | r :: rs, bs, h => by
    obtain ⟨a, b, ha, hb, rfl⟩ := encode_cons _ _ _ _ h
    have ih := encode_length_ge c rs b hb
    have hs := encodeCp_scalar _ _ _ ha
    have ha1 : 1 ≤ a.length := by
      simp only [encodeCp, hs, Bool.not_true, Bool.false_eq_true, if_false] at ha
      have := encodeRune_length_pos r
      cases c <;> simp only at ha
      case utf8mb4 => simp only [Option.some.injEq] at ha; subst ha; exact this
      case binary => simp only [Option.some.injEq] at ha; subst ha; exact this
      case utf8mb3 =>
        split at ha
        · simp only [Option.some.injEq] at ha; subst ha; exact this
        · exact absurd ha (by simp)
      case ascii =>
        split at ha
        · simp only [Option.some.injEq] at ha; subst ha; simp
        · exact absurd ha (by simp)
      case latin1 =>
        cases hb' : latin1Byte? r with
        | none => simp [hb'] at ha
        | some x => simp [hb'] at ha; subst ha; simp
      case utf16 =>
        split at ha <;> (simp only [Option.some.injEq] at ha; subst ha; simp)
      case utf32 => simp only [Option.some.injEq] at ha; subst ha; simp
    simp only [List.length_append, List.length_cons]
    omega

/-- **`roundTrip` holds whenever the value can be sent at all**. -/
theorem roundTrip_of_sent (res : Res) (t : Ty) (v : Val) (bs : Bytes) (h : sentText res t v = some bs) :
    roundTrip res t v = true := by
  unfold roundTrip
  unfold sentText at h
  cases hp : plainText t v with
  | none => simp [hp] at h
  | some s =>
    simp only [hp] at h
    simp only [sentText, hp, h]
    have := decode_encode_cs _ s bs (bs.length + 1) h (by have := encode_length_ge _ s bs h; omega)
    simp [this]
end Gms.WireCs
