/-
C28 — lemmas about the character-set part of the wire form (Gms/Model/WireCs.lean): every encoder
produces at most `maxLen` bytes per code point, the closed form of the SET/ENUM length loops, the
length of a comma-joined selection.
-/
import Gms.Model.WireCs

namespace Gms.WireCs
open Gms.Utf8

/-! ## Encoders: bytes per code point -/

theorem encodeRune_length_le (r : Nat) : (encodeRune r).length ≤ 4 := by
  unfold encodeRune
  split <;> (try split) <;> (try split) <;> (try split) <;> simp

theorem encodeRune_length_pos (r : Nat) : 1 ≤ (encodeRune r).length := by
  unfold encodeRune
  split <;> (try split) <;> (try split) <;> (try split) <;> simp

theorem encodeRune_length_le3 (r : Nat) (h : r < 0x10000) : (encodeRune r).length ≤ 3 := by
  unfold encodeRune
  split
  · simp
  · split
    · simp
    · split
      · simp
      · simp

/-- **Every encoder of the envelope produces at most `MaxLength()` bytes per code point** (binary
is excluded: it passes the UTF-8 bytes through while announcing a width of 1 — it is never the
effective result character set of a character column). -/
theorem encodeCp_length_le (c : Cs) (cp : Nat) (e : Bytes) (hc : c ≠ .binary)
    (h : encodeCp c cp = some e) : e.length ≤ c.maxLen := by
  unfold encodeCp at h
  split at h
  · exact absurd h (by simp)
  · cases c
    case binary => exact absurd rfl hc
    case utf8mb4 =>
      simp only [Option.some.injEq] at h
      subst h; exact encodeRune_length_le cp
    case utf8mb3 =>
      simp only at h
      split at h
      · rename_i hlt
        simp only [Option.some.injEq] at h
        subst h; exact encodeRune_length_le3 cp hlt
      · exact absurd h (by simp)
    case ascii =>
      simp only at h
      split at h
      · simp only [Option.some.injEq] at h; subst h; simp [Cs.maxLen]
      · exact absurd h (by simp)
    case latin1 =>
      simp only at h
      cases hb : latin1Byte? cp with
      | none => simp [hb] at h
      | some b => simp [hb] at h; subst h; simp [Cs.maxLen]
    case utf16 =>
      simp only at h
      split at h
      · simp only [Option.some.injEq] at h; subst h; simp [Cs.maxLen]
      · simp only [Option.some.injEq] at h; subst h; simp [Cs.maxLen]
    case utf32 =>
      simp only [Option.some.injEq] at h
      subst h; simp [Cs.maxLen]

theorem encode_length_le (c : Cs) (hc : c ≠ .binary) : ∀ (s : Str) (bs : Bytes),
    encode c s = some bs → bs.length ≤ s.length * c.maxLen
  | [], bs, h => by
    simp only [encode, Option.some.injEq] at h
    subst h; simp
  | r :: rs, bs, h => by
    unfold encode at h
    cases h1 : encodeCp c r with
    | none => simp [h1] at h
    | some a =>
      cases h2 : encode c rs with
      | none => simp [h1, h2] at h
      | some b =>
        simp only [h1, h2, Option.some.injEq] at h
        subst h
        have ha := encodeCp_length_le c r a hc h1
        have hb := encode_length_le c hc rs b h2
        simp only [List.length_append, List.length_cons, Nat.add_mul, Nat.one_mul]
        omega

/-- a string has at most as many code points as UTF-8 bytes -/
theorem length_le_utf8Len : ∀ (s : Str), s.length ≤ utf8Len s
  | [] => by simp [utf8Len, encodeRunes]
  | r :: rs => by
    have := length_le_utf8Len rs
    have h1 := encodeRune_length_pos r
    simp only [utf8Len, encodeRunes, List.length_append, List.length_cons] at this ⊢
    omega

/-! ## The length loops of `CreateEnumType` / `CreateSetType` -/

def sumLen : List Str → Nat
  | [] => 0
  | m :: rest => m.length + sumLen rest

/-- the ENUM length dominates every member -/
theorem enumLen_ge (w : Nat) : ∀ (ms : List Str) (i : Nat) (m : Str), ms[i]? = some m →
    m.length * w ≤ enumLen w ms
  | [], i, m, h => by simp at h
  | x :: rest, 0, m, h => by
    simp only [List.getElem?_cons_zero, Option.some.injEq] at h
    subst h
    simp only [enumLen]
    split <;> omega
  | x :: rest, i + 1, m, h => by
    simp only [List.getElem?_cons_succ] at h
    have := enumLen_ge w rest i m h
    simp only [enumLen]
    split <;> omega

/-- closed form of the SET loop: every member at `w` bytes per character plus one separator of `w`
bytes for every member except the first of the whole list -/
theorem setLenFrom_eq (w : Nat) : ∀ (ms : List Str) (i : Nat),
    setLenFrom w i ms = sumLen ms * w + (if i ≠ 0 then ms.length else ms.length - 1) * w
  | [], i => by simp [setLenFrom, sumLen]
  | m :: rest, i => by
    rw [setLenFrom, setLenFrom_eq w rest (i + 1)]
    simp only [sumLen, List.length_cons, Nat.add_mul]
    have h1 : (i + 1 ≠ 0) := by omega
    simp only [h1, ne_eq, not_false_eq_true, if_true]
    by_cases hi : i = 0
    · subst hi
      simp
      omega
    · simp only [hi, not_false_eq_true, if_true, Nat.add_mul, Nat.one_mul]
      omega

theorem setLen_eq (w : Nat) (ms : List Str) : setLen w ms = sumLen ms * w + (ms.length - 1) * w := by
  simp [setLen, setLenFrom_eq]

theorem joinComma_length : ∀ (l : List Str), (joinComma l).length = sumLen l + (l.length - 1)
  | [] => rfl
  | [m] => by simp [joinComma, sumLen]
  | m :: x :: rest => by
    have := joinComma_length (x :: rest)
    simp only [joinComma, List.length_append, List.length_cons, sumLen] at this ⊢
    omega

theorem selected_le : ∀ (ms : List Str) (b : Nat),
    sumLen (selected ms b) ≤ sumLen ms ∧ (selected ms b).length ≤ ms.length
  | [], b => by simp [selected, sumLen]
  | m :: rest, b => by
    have := selected_le rest (b / 2)
    unfold selected
    split <;> simp only [sumLen, List.length_cons] <;> omega

/-- all bits set selects every member -/
theorem selected_all : ∀ (ms : List Str), selected ms (2 ^ ms.length - 1) = ms
  | [] => rfl
  | m :: rest => by
    have h1 : (2 ^ (rest.length + 1) - 1) % 2 = 1 := by
      have : 2 ^ (rest.length + 1) = 2 * 2 ^ rest.length := by rw [Nat.pow_succ]; omega
      have hp : 0 < 2 ^ rest.length := Nat.pow_pos (by omega)
      omega
    have h2 : (2 ^ (rest.length + 1) - 1) / 2 = 2 ^ rest.length - 1 := by
      have : 2 ^ (rest.length + 1) = 2 * 2 ^ rest.length := by rw [Nat.pow_succ]; omega
      have hp : 0 < 2 ^ rest.length := Nat.pow_pos (by omega)
      omega
    simp only [selected, List.length_cons, h1, if_true, h2, selected_all rest]

/-- the comma-joined selection has at most as many characters as the SET loop accounts for -/
theorem setText_length_le (ms : List Str) (b : Nat) :
    (setText ms b).length ≤ sumLen ms + (ms.length - 1) := by
  have := selected_le ms b
  rw [setText, joinComma_length]
  omega

end Gms.WireCs
