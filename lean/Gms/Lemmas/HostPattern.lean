/-
C40 — lemmas about the host-pattern matcher (`Gms/Model/HostPattern.lean`): the structural matcher `glob`
decides the Spec `Matches`; the C39 model `Gms.Priv.globMatch` is the same function; a match is the
pattern's segments interleaved with gaps; a host shorter than the pattern's literals never matches; without
`_` the code's rule is MySQL's LIKE rule.
-/
import Gms.Model.HostPattern
import Gms.Model.Priv

namespace Gms.HostPattern

theorem gapOk_nil : gapOk [] := by intro x hx; cases hx

theorem gapOk_cons {c : Char} {g : List Char} : gapOk (c :: g) ↔ c ≠ '\n' ∧ gapOk g := by
  constructor
  · intro h
    exact ⟨h c (List.mem_cons_self ..), fun x hx => h x (List.mem_cons_of_mem _ hx)⟩
  · rintro ⟨hc, hg⟩ x hx
    cases hx with
    | head => exact hc
    | tail _ hm => exact hg x hm

theorem anyTail_iff (f : List Char → Bool) (h : List Char) :
    anyTail f h = true ↔ ∃ g t, h = g ++ t ∧ gapOk g ∧ f t = true := by
  induction h with
  | nil =>
    simp only [anyTail]
    constructor
    · intro hf; exact ⟨[], [], rfl, gapOk_nil, hf⟩
    · rintro ⟨g, t, hgt, _, hf⟩
      have h2 : g = [] ∧ t = [] := List.append_eq_nil_iff.1 hgt.symm
      rw [h2.2] at hf; exact hf
  | cons c hs ih =>
    simp only [anyTail, Bool.or_eq_true, Bool.and_eq_true, bne_iff_ne, ne_eq]
    constructor
    · rintro (hf | ⟨hc, ht⟩)
      · exact ⟨[], c :: hs, rfl, gapOk_nil, hf⟩
      · obtain ⟨g, t, hgt, hg, hf⟩ := ih.1 ht
        exact ⟨c :: g, t, by simp [hgt], gapOk_cons.2 ⟨hc, hg⟩, hf⟩
    · rintro ⟨g, t, hgt, hg, hf⟩
      cases g with
      | nil =>
        left
        have : t = c :: hs := by simpa using hgt.symm
        rw [← this]; exact hf
      | cons d g =>
        right
        have h2 : c = d ∧ hs = g ++ t := by simpa using hgt
        have hg2 := gapOk_cons.1 hg
        exact ⟨by rw [h2.1]; exact hg2.1, ih.2 ⟨g, t, h2.2, hg2.2, hf⟩⟩

theorem glob_sound : ∀ (p h : List Char), glob p h = true → Matches p h
  | [], h, hg => by
    cases h with
    | nil => exact .nil
    | cons _ _ => simp [glob] at hg
  | p :: ps, h, hg => by
    simp only [glob] at hg
    split at hg
    · rename_i hp
      subst hp
      obtain ⟨g, t, rfl, hgo, hf⟩ := (anyTail_iff _ _).1 hg
      exact .wild g ps t hgo (glob_sound ps t hf)
    · rename_i hp
      cases h with
      | nil => simp at hg
      | cons c hs =>
        simp only [Bool.and_eq_true, beq_iff_eq] at hg
        obtain ⟨rfl, h2⟩ := hg
        exact .lit p ps hs hp (glob_sound ps hs h2)

theorem glob_complete {p h : List Char} (m : Matches p h) : glob p h = true := by
  induction m with
  | nil => rfl
  | lit c ps hs hc _ ih => simp [glob, hc, ih]
  | wild g ps hs hg _ ih =>
    simp only [glob, if_true]
    exact (anyTail_iff _ _).2 ⟨g, hs, rfl, hg, ih⟩

/-- The C39 model of the matcher (well-founded recursion) is `glob`. -/
theorem globMatch_eq_glob : ∀ (p h : List Char), Gms.Priv.globMatch p h = glob p h := by
  intro p
  induction p with
  | nil => intro h; cases h <;> simp [Gms.Priv.globMatch, glob]
  | cons c ps ih =>
    intro h
    induction h with
    | nil =>
      rw [Gms.Priv.globMatch]
      by_cases hc : c = '%'
      · simp [hc, glob, anyTail, ih]
      · simp [hc, glob]
    | cons d hs ih2 =>
      rw [Gms.Priv.globMatch]
      by_cases hc : c = '%'
      · subst hc
        simp only [if_true, glob, anyTail, ih, ih2]
        cases glob ps (d :: hs) <;> cases anyTail (glob ps) hs <;> by_cases hd : d = '\n' <;> simp [hd]
      · simp only [hc, if_false, glob, ih]
        by_cases hcd : c = d <;> simp [hcd]

/-! ## segments -/

theorem segs_ne_nil (p : List Char) : segs p ≠ [] := by
  cases p with
  | nil => simp [segs]
  | cons c ps =>
    simp only [segs]
    split
    · simp
    · split <;> simp

theorem segs_cons_lit (c : Char) (ps : List Char) (hc : c ≠ '%') :
    ∃ s ss, segs ps = s :: ss ∧ segs (c :: ps) = (c :: s) :: ss := by
  cases h : segs ps with
  | nil => exact absurd h (segs_ne_nil ps)
  | cons s ss => exact ⟨s, ss, rfl, by simp [segs, hc, h]⟩

theorem interleave_cons_head (c : Char) (s : List Char) (ss gs : List (List Char)) :
    interleave ((c :: s) :: ss) gs = c :: interleave (s :: ss) gs := by
  cases gs <;> simp [interleave]

theorem matches_interleave {p h : List Char} (m : Matches p h) :
    ∃ gs, gs.length + 1 = (segs p).length ∧ (∀ g ∈ gs, gapOk g) ∧ h = interleave (segs p) gs := by
  induction m with
  | nil => exact ⟨[], rfl, by simp, rfl⟩
  | lit c ps hs hc _ ih =>
    obtain ⟨gs, hl, hg, rfl⟩ := ih
    obtain ⟨s, ss, e1, e2⟩ := segs_cons_lit c ps hc
    refine ⟨gs, ?_, hg, ?_⟩
    · rw [e2]; rw [e1] at hl; simpa using hl
    · rw [e2, e1, interleave_cons_head]
  | wild g ps hs hgo _ ih =>
    obtain ⟨gs, hl, hg, rfl⟩ := ih
    refine ⟨g :: gs, by simp [segs, hl], ?_, ?_⟩
    · intro x hx
      cases hx with
      | head => exact hgo
      | tail _ hm => exact hg x hm
    · simp [segs, interleave]

theorem interleave_matches : ∀ (p h : List Char) (gs : List (List Char)),
    gs.length + 1 = (segs p).length → (∀ g ∈ gs, gapOk g) → h = interleave (segs p) gs → Matches p h
  | [], h, gs, hl, _, hh => by
    have : gs = [] := by cases gs <;> simp_all [segs]
    subst this
    rw [hh]; exact .nil
  | c :: ps, h, gs, hl, hg, hh => by
    by_cases hc : c = '%'
    · subst hc
      have e : segs ('%' :: ps) = [] :: segs ps := by simp [segs]
      rw [e] at hl hh
      cases gs with
      | nil => exact absurd (by simpa using hl) (segs_ne_nil ps)
      | cons g gs =>
        have hh2 : h = g ++ interleave (segs ps) gs := by simpa [interleave] using hh
        rw [hh2]
        exact .wild g ps _ (hg g (List.mem_cons_self ..))
          (interleave_matches ps _ gs (by simpa using hl) (fun x hx => hg x (List.mem_cons_of_mem _ hx)) rfl)
    · obtain ⟨s, ss, e1, e2⟩ := segs_cons_lit c ps hc
      rw [e2] at hl hh
      rw [interleave_cons_head] at hh
      rw [hh]
      exact .lit c ps _ hc (interleave_matches ps _ gs (by rw [e1]; simpa using hl) hg (by rw [e1]))

theorem litLen_cons_lit (c : Char) (ps : List Char) (hc : c ≠ '%') : litLen (c :: ps) = litLen ps + 1 := by
  simp [litLen, List.filter, hc]

theorem litLen_cons_wild (ps : List Char) : litLen ('%' :: ps) = litLen ps := by
  simp [litLen, List.filter]

theorem matches_litLen {p h : List Char} (m : Matches p h) : litLen p ≤ h.length := by
  induction m with
  | nil => simp [litLen]
  | lit c ps hs hc _ ih => rw [litLen_cons_lit c ps hc]; simp; exact ih
  | wild g ps hs _ _ ih => rw [litLen_cons_wild]; simp; omega

/-! ## MySQL's LIKE rule -/

theorem anyTail_eq_anyTailAll (f f' : List Char → Bool) :
    ∀ (h : List Char), (∀ x ∈ h, x ≠ '\n') → (∀ t, (∀ x ∈ t, x ≠ '\n') → f t = f' t) → anyTail f h = anyTailAll f' h
  | [], _, hf => by simp [anyTail, anyTailAll, hf [] (by simp)]
  | c :: hs, hh, hf => by
    have hc : c ≠ '\n' := hh c (List.mem_cons_self ..)
    have hs' : ∀ x ∈ hs, x ≠ '\n' := fun x hx => hh x (List.mem_cons_of_mem _ hx)
    have hb : (c != '\n') = true := by simp [hc]
    simp only [anyTail, anyTailAll, hf (c :: hs) hh, hb, Bool.true_and, anyTail_eq_anyTailAll f f' hs hs' hf]

theorem glob_eq_like : ∀ (p h : List Char), '_' ∉ p → (∀ x ∈ h, x ≠ '\n') → glob p h = likeMatch p h
  | [], h, _, _ => by simp [glob, likeMatch]
  | c :: ps, h, hp, hh => by
    have hp' : '_' ∉ ps := fun hm => hp (List.mem_cons_of_mem _ hm)
    have hc_ : c ≠ '_' := fun e => hp (by rw [e]; exact List.mem_cons_self ..)
    by_cases hc : c = '%'
    · simp only [glob, likeMatch, hc, if_true]
      exact anyTail_eq_anyTailAll _ _ h hh (fun t ht => glob_eq_like ps t hp' ht)
    · cases h with
      | nil => simp [glob, likeMatch, hc]
      | cons d hs =>
        have hs' : ∀ x ∈ hs, x ≠ '\n' := fun x hx => hh x (List.mem_cons_of_mem _ hx)
        have hb : (c == '_') = false := by simp [hc_]
        simp only [glob, likeMatch, hc, if_false, hb, Bool.false_or, glob_eq_like ps hs hp' hs']

end Gms.HostPattern
