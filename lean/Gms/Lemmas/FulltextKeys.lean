/-
C51 — lemmas about the resolution of key columns (Gms/Model/Fulltext.lean: `getKeyColumns`,
`parentIndexCols`, `lookup`, `filterWalk`) and about the reference table semantics keeping every
declared key unique.
-/
import Gms.Model.Fulltext

namespace Gms.Fulltext

/-! ### `GetKeyColumns` returns the columns of the index the filter selects -/

theorem firstUsable_spec (nn : List Nat) (uks : List (List Nat)) :
    ∀ (i j : Nat) (cs : List Nat), firstUsable nn i uks = some (j, cs) →
      i ≤ j ∧ uks.getD (j - i) [] = cs ∧ cs.all (fun c => nn.contains c) = true := by
  induction uks with
  | nil => intro i j cs h; simp [firstUsable] at h
  | cons u rest ih =>
    intro i j cs h
    unfold firstUsable at h
    split at h
    · rename_i hu
      simp only [Option.some.injEq, Prod.mk.injEq] at h
      obtain ⟨rfl, rfl⟩ := h
      exact ⟨Nat.le_refl _, by simp, hu⟩
    · obtain ⟨h1, h2, h3⟩ := ih (i + 1) j cs h
      refine ⟨by omega, ?_, h3⟩
      have e : j - i = (j - (i + 1)) + 1 := by omega
      rw [e]
      simpa using h2

/-- For every key layout the key values are stored (`KeyColumns.Positions`) in exactly the column
order of the parent index that `fulltextFilterTableRowIter` probes with them. -/
theorem key_resolution (lay : Layout) :
    (getKeyColumns lay).positions = parentIndexCols lay (getKeyColumns lay).type := by
  unfold getKeyColumns
  split
  · rfl
  · split
    · rename_i i cs h
      have := (firstUsable_spec lay.nn lay.uks 0 i cs h).2.1
      simpa [parentIndexCols] using this.symm
    · rfl

theorem firstUsable_mem (nn : List Nat) (uks : List (List Nat)) :
    ∀ (i j : Nat) (cs : List Nat), firstUsable nn i uks = some (j, cs) → cs ∈ uks := by
  induction uks with
  | nil => intro i j cs h; simp [firstUsable] at h
  | cons u rest ih =>
    intro i j cs h
    unfold firstUsable at h
    split at h
    · simp only [Option.some.injEq, Prod.mk.injEq] at h
      obtain ⟨_, rfl⟩ := h
      simp
    · exact List.mem_cons_of_mem _ (ih (i + 1) j cs h)

/-- The positions of a keyed layout are one of the declared keys of the table. -/
theorem positions_mem_constraints (lay : Layout) (h : keyedIdx lay = true) :
    (getKeyColumns lay).positions ∈ constraints lay := by
  unfold keyedIdx getKeyColumns at h
  unfold getKeyColumns constraints
  split
  · rename_i hp; simp [hp]
  · rename_i hp
    split
    · rename_i i cs hf
      simp [firstUsable_mem lay.nn lay.uks 0 i cs hf]
    · rename_i hf
      simp [hp, hf] at h

/-! ### The parent-index lookup with a row's own key -/

/-- The rows are pairwise different on the key columns `cs`. -/
def UniqueOn (cs : List Nat) (rows : List Row) : Prop := (rows.map (keyVals cs)).Nodup

theorem filter_own {α β : Type} [BEq β] [LawfulBEq β] (f : α → β) (l : List α) (h : (l.map f).Nodup) (a : α) (ha : a ∈ l) :
    l.filter (fun r => f r == f a) = [a] := by
  induction l with
  | nil => simp at ha
  | cons x xs ih =>
    simp only [List.map_cons, List.nodup_cons] at h
    obtain ⟨hx, hxs⟩ := h
    rcases List.mem_cons.mp ha with rfl | hin
    · have : xs.filter (fun r => f r == f a) = [] := by
        rw [List.filter_eq_nil_iff]
        intro r hr hc
        exact hx (List.mem_map.mpr ⟨r, hr, eq_of_beq hc⟩)
      simp [this]
    · have hne : (f x == f a) = false := by
        rw [beq_eq_false_iff_ne]
        exact fun e => hx (List.mem_map.mpr ⟨a, hin, e.symm⟩)
      simp [List.filter_cons, hne, ih hxs hin]

/-- Probing the index over `cs` with the key values of a row of the table finds exactly that row. -/
theorem lookup_own (cs : List Nat) (rows : List Row) (h : UniqueOn cs rows) (a : Row) (ha : a ∈ rows) :
    lookup cs rows (keyVals cs a) = [a] := by
  unfold lookup
  exact filter_own (keyVals cs) rows h a ha

theorem flatMap_singleton_of {α : Type} (g : α → List α) (l : List α) (h : ∀ r ∈ l, g r = [r]) : l.flatMap g = l := by
  induction l with
  | nil => rfl
  | cons x xs ih =>
    simp only [List.flatMap_cons, h x (by simp)]
    rw [ih (fun r hr => h r (by simp [hr]))]
    rfl

/-! ### Counting -/

theorem count_filter_ite {α : Type} [DecidableEq α] (p : α → Bool) (l : List α) (x : α) :
    (l.filter p).count x = if p x then l.count x else 0 := by
  induction l with
  | nil => simp
  | cons y ys ih =>
    by_cases hy : p y = true <;> by_cases e : y = x
    · subst e; simp [List.filter_cons, hy, ih]
    · simp [List.filter_cons, hy, List.count_cons, ih, e]
    · subst e; simp [List.filter_cons, hy, ih]
    · simp [List.filter_cons, hy, List.count_cons, ih, e]

theorem count_flatMap_filter {α ε : Type} [DecidableEq α] (p : ε → α → Bool) (W : List ε) (rows : List α) (x : α) :
    (W.flatMap fun e => rows.filter (p e)).count x = (W.filter fun e => p e x).length * rows.count x := by
  induction W with
  | nil => simp
  | cons e es ih =>
    simp only [List.flatMap_cons, List.count_append, ih, count_filter_ite, List.filter_cons]
    by_cases h : p e x = true
    · simp [h, Nat.add_mul, Nat.add_comm]
    · simp [h]

theorem count_flatMap_replicate {α : Type} [DecidableEq α] (n : α → Nat) (rows : List α) (x : α) :
    (rows.flatMap fun r => List.replicate (n r) r).count x = n x * rows.count x := by
  induction rows with
  | nil => simp
  | cons y ys ih =>
    simp only [List.flatMap_cons, List.count_append, ih, List.count_cons, List.count_replicate]
    by_cases e : y = x
    · subst e; simp [Nat.mul_add, Nat.add_comm]
    · simp [e]

/-! ### The reference table semantics keeps every declared key unique -/

/-- Every declared key of the layout is unique on the rows. -/
def KeysUnique (lay : Layout) (rows : List Row) : Prop := ∀ cs ∈ constraints lay, UniqueOn cs rows

theorem uniqueOn_iff (cs : List Nat) (rows : List Row) :
    UniqueOn cs rows ↔ rows.Pairwise (fun a b => keyVals cs a ≠ keyVals cs b) := by
  unfold UniqueOn List.Nodup
  rw [List.pairwise_map]

theorem not_conflict_of (lay : Layout) (a b : Row) (h : conflict lay a b = false) (cs : List Nat) (hcs : cs ∈ constraints lay) :
    keyVals cs a ≠ keyVals cs b := by
  unfold conflict at h
  have := List.any_eq_false.mp h cs hcs
  simpa using this

theorem keyVals_setCols (cs : List Nat) (r : Row) (c : List (Option (List R))) :
    keyVals cs { r with cols := c } = keyVals cs r := rfl

/-- Two rows with the same `id` that agree on `cs` after `id` was overwritten agreed before. -/
theorem keyVals_setId_inj (cs : List Nat) (a b : Row) (n : Nat) (hid : a.id = b.id)
    (h : keyVals cs { a with id := n } = keyVals cs { b with id := n }) : keyVals cs a = keyVals cs b := by
  unfold keyVals at *
  rw [List.map_inj_left] at *
  intro p hp
  have := h p hp
  unfold val at *
  by_cases h0 : p = 0
  · simp [h0, hid]
  · simpa [h0] using this

theorem two_le_length_of_mem_ne {α : Type} (l : List α) (a b : α) (ha : a ∈ l) (hb : b ∈ l) (hne : a ≠ b) : 2 ≤ l.length := by
  match l, ha, hb with
  | [x], ha, hb =>
    simp at ha hb
    exact absurd (ha.trans hb.symm) hne
  | _ :: _ :: _, _, _ => simp

theorem keyVals_setId_same (cs : List Nat) (a : Row) (n : Nat) (h : a.id = n) :
    keyVals cs { a with id := n } = keyVals cs a := by subst h; rfl
theorem keyVals_setK2_same (cs : List Nat) (a : Row) (n : Nat) (h : a.k2 = n) :
    keyVals cs { a with k2 := n } = keyVals cs a := by subst h; rfl

theorem keysUnique_applyOp (lay : Layout) (rows : List Row) (op : Op) (h : KeysUnique lay rows) :
    KeysUnique lay (applyOp lay rows op) := by
  intro cs hcs
  have hu := (uniqueOn_iff cs rows).mp (h cs hcs)
  rw [uniqueOn_iff]
  cases op with
  | ins r =>
    simp only [applyOp]
    split
    · exact hu
    · rename_i hc
      rw [List.pairwise_append]
      refine ⟨hu, by simp, ?_⟩
      intro a ha b hb
      simp only [List.mem_singleton] at hb
      subst hb
      have hf : conflict lay b a = false := by
        have := List.any_eq_false.mp (by simpa using hc) a ha
        simpa using this
      exact (not_conflict_of lay b a hf cs hcs).symm
  | del k =>
    simp only [applyOp]
    exact hu.sublist List.filter_sublist
  | upd k cols =>
    simp only [applyOp]
    rw [List.pairwise_map]
    refine hu.imp ?_
    intro a b hab
    by_cases ha : (a.id == k) = true <;> by_cases hb : (b.id == k) = true <;> simp [ha, hb, keyVals_setCols] <;> exact hab
  | rekey k n =>
    simp only [applyOp]
    split
    · exact hu
    · rename_i hc
      rw [List.pairwise_map]
      refine hu.imp_of_mem ?_
      intro a b ha hb hab
      by_cases hkn : k = n
      · subst hkn
        by_cases ea : (a.id == k) = true <;> by_cases eb : (b.id == k) = true
        · have ea' : a.id = k := by simpa using ea
          have eb' : b.id = k := by simpa using eb
          simp only [ea, eb, if_true]
          rw [keyVals_setId_same cs a k ea', keyVals_setId_same cs b k eb']; exact hab
        · have ea' : a.id = k := by simpa using ea
          simp only [ea, eb, if_true]
          rw [keyVals_setId_same cs a k ea']; simpa using hab
        · have eb' : b.id = k := by simpa using eb
          simp only [ea, eb, if_true]
          rw [keyVals_setId_same cs b k eb']; simpa using hab
        · simpa [ea, eb] using hab
      · have hno : ∀ t ∈ targets k rows, ∀ r ∈ rows, (r.id != k) = true → conflict lay { t with id := n } r = false := by
          intro t ht r hr hrk
          have h1 : ((targets k rows).any fun t => rows.any fun r => r.id != k && conflict lay { t with id := n } r) = false := by
            have hkn' : (k != n) = true := by simpa using hkn
            simpa [hkn'] using hc
          cases hcf : conflict lay { t with id := n } r with
          | false => rfl
          | true =>
            have : ((targets k rows).any fun t => rows.any fun r => r.id != k && conflict lay { t with id := n } r) = true :=
              List.any_eq_true.mpr ⟨t, ht, List.any_eq_true.mpr ⟨r, hr, by simp [hrk, hcf]⟩⟩
            rw [h1] at this
            exact absurd this (by simp)
        by_cases ea : (a.id == k) = true <;> by_cases eb : (b.id == k) = true
        · have ea' : a.id = k := by simpa using ea
          have eb' : b.id = k := by simpa using eb
          simp only [ea, eb, if_true]
          intro e
          exact hab (keyVals_setId_inj cs a b n (ea'.trans eb'.symm) e)
        · simp only [ea, eb, if_true]
          have hat : a ∈ targets k rows := List.mem_filter.mpr ⟨ha, ea⟩
          have hbk : (b.id != k) = true := by simpa using eb
          simpa using not_conflict_of lay _ _ (hno a hat b hb hbk) cs hcs
        · simp only [ea, eb, if_true]
          have hbt : b ∈ targets k rows := List.mem_filter.mpr ⟨hb, eb⟩
          have hak : (a.id != k) = true := by simpa using ea
          simpa using (not_conflict_of lay _ _ (hno b hbt a ha hak) cs hcs).symm
        · simpa [ea, eb] using hab
  | rekey2 k n =>
    simp only [applyOp]
    split
    · exact hu
    · rename_i hc
      rw [List.pairwise_map]
      refine hu.imp_of_mem ?_
      intro a b ha hb hab
      have hc' := hc
      simp only [Bool.or_eq_true, not_or] at hc'
      obtain ⟨hlen, hany⟩ := hc'
      have hne : constraints lay ≠ [] := fun e => by simp [e] at hcs
      have hlen' : (targets k rows).length < 2 := by
        have : (constraints lay != []) = true := by simpa using hne
        simp [this] at hlen
        omega
      have hno : ∀ t ∈ targets k rows, ∀ r ∈ rows, (t.k2 != n) = true → (r.id != k) = true → conflict lay { t with k2 := n } r = false := by
        intro t ht r hr htn hrk
        have h1 : ((targets k rows).any fun t => t.k2 != n && rows.any fun r => r.id != k && conflict lay { t with k2 := n } r) = false := by
          simpa using hany
        cases hcf : conflict lay { t with k2 := n } r with
        | false => rfl
        | true =>
          have : ((targets k rows).any fun t => t.k2 != n && rows.any fun r => r.id != k && conflict lay { t with k2 := n } r) = true :=
            List.any_eq_true.mpr ⟨t, ht, by
              rw [Bool.and_eq_true]
              exact ⟨htn, List.any_eq_true.mpr ⟨r, hr, by simp [hrk, hcf]⟩⟩⟩
          rw [h1] at this
          exact absurd this (by simp)
      by_cases ea : (a.id == k) = true <;> by_cases eb : (b.id == k) = true
      · exfalso
        have hat : a ∈ targets k rows := List.mem_filter.mpr ⟨ha, ea⟩
        have hbt : b ∈ targets k rows := List.mem_filter.mpr ⟨hb, eb⟩
        have : a ≠ b := fun e => hab (by rw [e])
        have := two_le_length_of_mem_ne _ a b hat hbt this
        omega
      · simp only [ea, eb, if_true]
        have hat : a ∈ targets k rows := List.mem_filter.mpr ⟨ha, ea⟩
        have hbk : (b.id != k) = true := by simpa using eb
        by_cases hn : a.k2 = n
        · rw [keyVals_setK2_same cs a n hn]; simpa using hab
        · have : (a.k2 != n) = true := by simpa using hn
          simpa using not_conflict_of lay _ _ (hno a hat b hb this hbk) cs hcs
      · simp only [ea, eb, if_true]
        have hbt : b ∈ targets k rows := List.mem_filter.mpr ⟨hb, eb⟩
        have hak : (a.id != k) = true := by simpa using ea
        by_cases hn : b.k2 = n
        · rw [keyVals_setK2_same cs b n hn]; simpa using hab
        · have : (b.k2 != n) = true := by simpa using hn
          simpa using (not_conflict_of lay _ _ (hno b hbt a ha this hak) cs hcs).symm
      · simpa [ea, eb] using hab

theorem keysUnique_nil (lay : Layout) : KeysUnique lay [] := by
  intro cs _; simp [UniqueOn]

theorem keysUnique_foldl (lay : Layout) (ops : List Op) (rows : List Row) (h : KeysUnique lay rows) :
    KeysUnique lay (ops.foldl (applyOp lay) rows) := by
  induction ops generalizing rows with
  | nil => exact h
  | cons op ops ih => exact ih _ (keysUnique_applyOp lay rows op h)

/-- The Impl model of a statement either follows the reference semantics or leaves the table alone. -/
theorem keysUnique_applyOpImpl (minLen maxLen : Nat) (lay : Layout) (rows : List Row) (op : Op) (h : KeysUnique lay rows) :
    KeysUnique lay (applyOpImpl minLen maxLen lay rows op) := by
  unfold applyOpImpl
  split
  · exact h
  · exact keysUnique_applyOp lay rows op h

theorem keysUnique_foldl_impl (minLen maxLen : Nat) (lay : Layout) (ops : List Op) (rows : List Row) (h : KeysUnique lay rows) :
    KeysUnique lay (ops.foldl (applyOpImpl minLen maxLen lay) rows) := by
  induction ops generalizing rows with
  | nil => exact h
  | cons op ops ih => exact ih _ (keysUnique_applyOpImpl minLen maxLen lay rows op h)

end Gms.Fulltext
