/-
Lemmas for `Gms.Model.SharedStore` (C36): the stable insertion sort, uniqueness of the sorted
arrangement, the secondary index as a permutation of the positions, and Impl = Spec on consistent
storage.
-/
import Gms.Model.SharedStore

namespace Gms.SharedStore
open List

variable {α : Type}

/-! ### insertion sort -/

theorem insertBy_perm (le : α → α → Bool) (x : α) (l : List α) : (insertBy le x l).Perm (x :: l) := by
  induction l with
  | nil => exact Perm.refl _
  | cons y ys ih =>
    simp only [insertBy]
    split
    · exact Perm.refl _
    · exact (Perm.cons y ih).trans (Perm.swap x y ys)

theorem sortBy_perm (le : α → α → Bool) (l : List α) : (sortBy le l).Perm l := by
  induction l with
  | nil => exact Perm.refl _
  | cons x xs ih => exact (insertBy_perm le x _).trans (Perm.cons x ih)

theorem insertBy_sorted (le : α → α → Bool) (tot : ∀ a b, le a b = false → le b a = true)
    (tr : ∀ a b c, le a b = true → le b c = true → le a c = true) (x : α) (l : List α)
    (h : l.Pairwise (fun a b => le a b = true)) : (insertBy le x l).Pairwise (fun a b => le a b = true) := by
  induction l with
  | nil => simp [insertBy]
  | cons y ys ih =>
    simp only [insertBy]
    split
    · next hxy =>
      refine pairwise_cons.2 ⟨?_, h⟩
      intro z hz
      rcases mem_cons.1 hz with rfl | hz
      · exact hxy
      · exact tr _ _ _ hxy (rel_of_pairwise_cons h hz)
    · next hxy =>
      refine pairwise_cons.2 ⟨?_, ih (pairwise_cons.1 h).2⟩
      intro z hz
      have hz' : z ∈ x :: ys := (insertBy_perm le x ys).mem_iff.1 hz
      rcases mem_cons.1 hz' with rfl | hz'
      · exact tot _ _ (by simpa using hxy)
      · exact rel_of_pairwise_cons h hz'

theorem sortBy_sorted (le : α → α → Bool) (tot : ∀ a b, le a b = false → le b a = true)
    (tr : ∀ a b c, le a b = true → le b c = true → le a c = true) (l : List α) :
    (sortBy le l).Pairwise (fun a b => le a b = true) := by
  induction l with
  | nil => simp [sortBy]
  | cons x xs ih => exact insertBy_sorted le tot tr x _ ih

/-- A sorted list is a fixed point of the stable sort (no element moves). -/
theorem sortBy_of_sorted (le : α → α → Bool) (l : List α) (h : l.Pairwise (fun a b => le a b = true)) :
    sortBy le l = l := by
  induction l with
  | nil => rfl
  | cons x xs ih =>
    simp only [sortBy]
    rw [ih (pairwise_cons.1 h).2]
    cases xs with
    | nil => rfl
    | cons y ys =>
      have : le x y = true := rel_of_pairwise_cons h mem_cons_self
      simp [insertBy, this]

theorem insertBy_all_false (le : α → α → Bool) (x : α) (l : List α) (h : ∀ y ∈ l, le x y = false) :
    insertBy le x l = l ++ [x] := by
  induction l with
  | nil => rfl
  | cons y ys ih =>
    have hy : le x y = false := h y mem_cons_self
    simp only [insertBy, hy]
    rw [ih (fun z hz => h z (mem_cons_of_mem _ hz))]
    simp

/-- The sorted arrangement is unique: sorting any permutation of a sorted list `s` (on whose
members the order is antisymmetric) gives `s`. -/
theorem sortBy_eq_of_perm (le : α → α → Bool) (tot : ∀ a b, le a b = false → le b a = true)
    (tr : ∀ a b c, le a b = true → le b c = true → le a c = true) {l s : List α} (hp : l.Perm s)
    (hs : s.Pairwise (fun a b => le a b = true))
    (anti : ∀ a b, a ∈ s → b ∈ s → le a b = true → le b a = true → a = b) : sortBy le l = s := by
  have hps : (sortBy le l).Perm s := (sortBy_perm le l).trans hp
  exact Perm.eq_of_pairwise (le := fun a b => le a b = true)
    (fun a b ha hb hab hba => anti a b (hps.mem_iff.1 ha) hb hab hba)
    (sortBy_sorted le tot tr l) hs hps

/-! ### the orders used -/

theorem pkLe_tot (a b : Row) : pkLe a b = false → pkLe b a = true := by
  simp only [pkLe, decide_eq_false_iff_not, decide_eq_true_eq]; omega

theorem pkLe_tr (a b c : Row) : pkLe a b = true → pkLe b c = true → pkLe a c = true := by
  simp only [pkLe, decide_eq_true_eq]; omega

theorem optLe_tot (a b : Option Int) : optLe a b = false → optLe b a = true := by
  cases a <;> cases b <;> simp [optLe]; omega

theorem optLe_tr (a b c : Option Int) : optLe a b = true → optLe b c = true → optLe a c = true := by
  cases a <;> cases b <;> cases c <;> simp [optLe]; omega

theorem optLe_anti (a b : Option Int) : optLe a b = true → optLe b a = true → a = b := by
  cases a <;> cases b <;> simp [optLe]; omega

/-- In a list stored in strictly ascending key order, the key determines the row. -/
theorem eq_of_pk_eq {s : List Row} (hs : s.Pairwise (fun a b => a.pk < b.pk)) {a b : Row} (ha : a ∈ s) (hb : b ∈ s)
    (h : a.pk = b.pk) : a = b := by
  induction s with
  | nil => cases ha
  | cons x xs ih =>
    have hx := pairwise_cons.1 hs
    rcases mem_cons.1 ha with ha | ha <;> rcases mem_cons.1 hb with hb | hb
    · rw [ha, hb]
    · have := hx.1 _ hb; rw [ha] at h; omega
    · have := hx.1 _ ha; rw [hb] at h; omega
    · exact ih hx.2 ha hb

theorem strict_pkLe {s : List Row} (hs : s.Pairwise (fun a b => a.pk < b.pk)) : s.Pairwise (fun a b => pkLe a b = true) :=
  hs.imp (by intro a b h; simp only [pkLe, decide_eq_true_eq]; omega)

/-- Sorting any permutation of rows stored in ascending key order restores that order. -/
theorem sortBy_pkLe_of_perm {l s : List Row} (hp : l.Perm s) (hs : s.Pairwise (fun a b => a.pk < b.pk)) :
    sortBy pkLe l = s :=
  sortBy_eq_of_perm pkLe pkLe_tot pkLe_tr hp (strict_pkLe hs)
    (fun a b ha hb hab hba => eq_of_pk_eq hs ha hb (by simp only [pkLe, decide_eq_true_eq] at hab hba; omega))

/-- The stable DESCENDING sort of rows stored in ascending key order is the reversed list. -/
theorem sortBy_pkGe_of_strict {s : List Row} (hs : s.Pairwise (fun a b => a.pk < b.pk)) : sortBy pkGe s = s.reverse := by
  induction s with
  | nil => rfl
  | cons x xs ih =>
    have hx := pairwise_cons.1 hs
    simp only [sortBy]
    rw [ih hx.2, insertBy_all_false]
    · simp
    · intro y hy
      have := hx.1 y (mem_reverse.1 hy)
      simp only [pkGe, decide_eq_false_iff_not]; omega

/-- Rows stored in strictly ascending key order, at least two of them: reversing moves them. -/
theorem reverse_ne_of_strict {s : List Row} (hs : s.Pairwise (fun a b => a.pk < b.pk)) (h2 : 2 ≤ s.length) :
    s.reverse ≠ s := by
  intro hr
  match s, hs, h2, hr with
  | a :: b :: rest, hp, _, hr =>
    have hlast : (a :: b :: rest).reverse.head? = some a := by rw [hr]; rfl
    rw [head?_reverse, getLast?_cons_cons] at hlast
    have hmem : a ∈ b :: rest := mem_of_getLast? hlast
    have := (pairwise_cons.1 hp).1 a hmem
    omega

/-! ### the secondary index -/

theorem range_filterMap_getElem {β : Type} (l : List α) (g : α → Option β) :
    (List.range l.length).filterMap (fun i => (l[i]?).bind g) = l.filterMap g := by
  induction l with
  | nil => simp
  | cons x xs ih =>
    rw [length_cons, range_succ_eq_map, filterMap_cons, filterMap_map]
    simp only [getElem?_cons_zero, Option.bind_some, filterMap_cons]
    have : ((fun i => ((x :: xs)[i]?).bind g) ∘ Nat.succ) = fun i => (xs[i]?).bind g := by
      funext i; simp
    rw [this, ih]

theorem filterMap_guard (p : α → Bool) (l : List α) :
    l.filterMap (fun r => if p r then some r else none) = l.filter p := by
  induction l with
  | nil => rfl
  | cons x xs ih => by_cases h : p x <;> simp [h, ih]

theorem filterMap_congr' {β : Type} {f g : α → Option β} {l : List α} (h : ∀ x ∈ l, f x = g x) :
    l.filterMap f = l.filterMap g := by
  induction l with
  | nil => rfl
  | cons x xs ih =>
    rw [filterMap_cons, filterMap_cons, h x mem_cons_self, ih (fun y hy => h y (mem_cons_of_mem _ hy))]

theorem entryOk_spec {rows : List Row} {e : Entry} (h : entryOk rows e = true) :
    ∃ r, rows[e.idx]? = some r ∧ r.v = e.key ∧ r.pk = e.pk := by
  unfold entryOk at h
  split at h
  · next r hr =>
    simp only [Bool.and_eq_true, beq_iff_eq] at h
    exact ⟨r, hr, h.1, h.2⟩
  · cases h

/-- Walking a consistent index and dereferencing the positions reaches exactly the rows whose
indexed value is in range, each once (in index order). -/
theorem fetch_perm (ph : Phys) (hc : Consistent ph) (lo hi : Option Int) :
    (fetch ph.rows ph.sec lo hi).Perm (ph.rows.filter fun r => vIn lo hi r.v) := by
  obtain ⟨_, hperm, hok, _⟩ := hc
  have h1 : fetch ph.rows ph.sec lo hi =
      (ph.sec.map (·.idx)).filterMap (fun i => (ph.rows[i]?).bind fun r => if vIn lo hi r.v then some r else none) := by
    rw [filterMap_map]
    unfold fetch
    apply filterMap_congr'
    intro e he
    obtain ⟨r, hr, hv, _⟩ := entryOk_spec (hok e he)
    simp only [Function.comp, hr, Option.bind_some, hv]
  rw [h1]
  refine (hperm.filterMap _).trans ?_
  rw [range_filterMap_getElem, filterMap_guard]

/-- The indexed values of the rows an index walk reaches are the keys of the entries in range. -/
theorem fetch_map_v (rows : List Row) (es : List Entry) (hok : ∀ e ∈ es, entryOk rows e = true) (lo hi : Option Int) :
    (fetch rows es lo hi).map (·.v) = (es.map (·.key)).filter (vIn lo hi) := by
  induction es with
  | nil => rfl
  | cons e es ih =>
    obtain ⟨r, hr, hv, _⟩ := entryOk_spec (hok e mem_cons_self)
    have ih' := ih (fun e' he' => hok e' (mem_cons_of_mem _ he'))
    unfold fetch at ih' ⊢
    rw [filterMap_cons]
    by_cases h : vIn lo hi e.key = true
    · have h2 : (if vIn lo hi e.key = true then rows[e.idx]? else none) = some r := by simp [h, hr]
      rw [h2]
      simp only [map_cons, filter_cons, h, if_true, hv]
      rw [ih']
    · have h2 : (if vIn lo hi e.key = true then rows[e.idx]? else none) = none := by simp [h]
      rw [h2]
      simp only [map_cons, filter_cons, h]
      exact ih'

theorem fetch_reverse (rows : List Row) (es : List Entry) (lo hi : Option Int) :
    fetch rows es.reverse lo hi = (fetch rows es lo hi).reverse := by
  unfold fetch; rw [filterMap_reverse]

/-! ### Impl = Spec on consistent storage -/

theorem logical_eq (ph : Phys) (hc : Consistent ph) : logical ph = ph.rows :=
  sortBy_of_sorted pkLe _ (strict_pkLe hc.1)

theorem srng_asc (ph : Phys) (hc : Consistent ph) (lo hi : Option Int) :
    (fetch ph.rows ph.sec lo hi).map (·.v) = sortBy optLe ((ph.rows.map (·.v)).filter (vIn lo hi)) := by
  have hp : ((ph.rows.map (·.v)).filter (vIn lo hi)).Perm ((fetch ph.rows ph.sec lo hi).map (·.v)) := by
    have e : (ph.rows.map (·.v)).filter (vIn lo hi) = (ph.rows.filter fun r => vIn lo hi r.v).map (·.v) := by
      rw [filter_map]; rfl
    rw [e]
    exact ((fetch_perm ph hc lo hi).map (·.v)).symm
  have hs : ((fetch ph.rows ph.sec lo hi).map (·.v)).Pairwise (fun a b => optLe a b = true) := by
    rw [fetch_map_v ph.rows ph.sec hc.2.2.1]
    exact (pairwise_map.2 hc.2.2.2).filter _
  exact (sortBy_eq_of_perm optLe optLe_tot optLe_tr hp hs (fun a b _ _ => optLe_anti a b)).symm

/-- **Impl = Spec**: on consistent storage every access path returns what the statement means on
the logical table. -/
theorem impl_eq_spec (ph : Phys) (hc : Consistent ph) (q : Q) : implEval ph q = specEval (logical ph) q := by
  rw [logical_eq ph hc]
  cases q with
  | pkr lo hi desc lim =>
    cases desc
    · simp [implEval, specEval, sortBy_of_sorted pkLe _ (strict_pkLe hc.1)]
    · simp [implEval, specEval, sortBy_pkGe_of_strict hc.1]
  | srows lo hi =>
    simp only [implEval, specEval]
    rw [sortBy_pkLe_of_perm (fetch_perm ph hc (some lo) (some hi)) (hc.1.filter _)]
  | srng lo hi desc =>
    cases desc
    · simp only [implEval, specEval, Bool.false_eq_true, if_false]
      rw [← srng_asc ph hc lo hi, map_map]; rfl
    · simp only [implEval, specEval, if_true]
      rw [fetch_reverse, ← srng_asc ph hc lo hi, map_reverse, map_reverse, map_map]; rfl
  | scan => simp [implEval, specEval, sortBy_of_sorted pkLe _ (strict_pkLe hc.1)]
  | agg => simp [implEval, specEval]

/-! ### histories over the shared storage -/

theorem runWith_copy (ph : Phys) (qs : List Q) :
    runWith execCopy ph qs = (qs.map (implEval ph), ph) := by
  induction qs with
  | nil => rfl
  | cons q qs ih => simp [runWith, execCopy, ih]

/-- After a reverse primary-key lookup under `execAlias`, an ascending one puts the storage back
(which is why the damage comes and goes with the schedule). -/
theorem alias_asc_repairs (ph : Phys) (hc : Consistent ph) (lo hi lo' hi' : Option Int) (lim lim' : Option Nat) :
    (execAlias (execAlias ph (.pkr lo hi true lim)).2 (.pkr lo' hi' false lim')).2 = ph := by
  simp only [execAlias, Bool.false_eq_true, if_false, if_true]
  rw [sortBy_pkLe_of_perm (sortBy_perm pkGe ph.rows) hc.1]

end Gms.SharedStore
