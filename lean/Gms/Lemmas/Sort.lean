/-
Lemmas for C04: the ordering of ORDER BY is a total preorder; the left-to-right stable sort equals
the reference insertion sort; top-N = sort-then-take.
-/
import Gms.Model.Sort
import Gms.Lemmas.Rel

namespace Gms.Sort
open Gms.Sql Gms.Rel List

/-! ## `Value.ord` is a linear order -/

theorem bytesCmp_swap : ∀ a b : List UInt8, bytesCmp b a = (bytesCmp a b).swap
  | [], [] => rfl
  | [], _ :: _ => rfl
  | _ :: _, [] => rfl
  | x :: xs, y :: ys => by
    unfold bytesCmp
    by_cases h1 : x < y
    · have h2 : ¬ y < x := by
        intro h; exact absurd (UInt8.lt_trans h1 h) (UInt8.lt_irrefl x)
      simp [h1, h2, Ordering.swap]
    · by_cases h2 : y < x
      · simp [h1, h2, Ordering.swap]
      · simp [h1, h2, bytesCmp_swap xs ys]

theorem bytesCmp_eq_iff : ∀ a b : List UInt8, bytesCmp a b = .eq ↔ a = b
  | [], [] => by simp [bytesCmp]
  | [], _ :: _ => by simp [bytesCmp]
  | _ :: _, [] => by simp [bytesCmp]
  | x :: xs, y :: ys => by
    unfold bytesCmp
    by_cases h1 : x < y
    · have : x ≠ y := fun e => by subst e; exact UInt8.lt_irrefl x h1
      simp [h1, this]
    · by_cases h2 : y < x
      · have : x ≠ y := fun e => by subst e; exact UInt8.lt_irrefl x h2
        simp [h1, h2, this]
      · have hxy : x = y := by
          have h1' : y ≤ x := UInt8.not_lt.mp h1
          have h2' : x ≤ y := UInt8.not_lt.mp h2
          exact UInt8.le_antisymm h2' h1'
        simp [h1, h2, hxy, bytesCmp_eq_iff xs ys]

theorem bytesCmp_lt_trans : ∀ a b c : List UInt8, bytesCmp a b = .lt → bytesCmp b c = .lt → bytesCmp a c = .lt
  | [], [], _ => by simp [bytesCmp]
  | [], _ :: _, [] => by simp [bytesCmp]
  | [], _ :: _, _ :: _ => by simp [bytesCmp]
  | _ :: _, [], _ => by simp [bytesCmp]
  | _ :: _, _ :: _, [] => by simp [bytesCmp]
  | x :: xs, y :: ys, z :: zs => by
    intro h1 h2
    unfold bytesCmp at h1 h2 ⊢
    by_cases hxy : x < y
    · by_cases hyz : y < z
      · simp [UInt8.lt_trans hxy hyz]
      · by_cases hzy : z < y
        · simp [hyz, hzy] at h2
        · have : y = z := UInt8.le_antisymm (UInt8.not_lt.mp hzy) (UInt8.not_lt.mp hyz)
          subst this
          simp [hxy]
    · by_cases hyx : y < x
      · simp [hxy, hyx] at h1
      · have : x = y := UInt8.le_antisymm (UInt8.not_lt.mp hyx) (UInt8.not_lt.mp hxy)
        subst this
        simp only [hxy, hyx, if_false] at h1
        by_cases hyz : x < z
        · simp [hyz]
        · by_cases hzy : z < x
          · simp [hyz, hzy] at h2
          · simp only [hyz, hzy, if_false] at h2 ⊢
            exact bytesCmp_lt_trans xs ys zs h1 h2

theorem ord_swap (a b : Value) : b.ord a = (a.ord b).swap := by
  cases a with
  | null => cases b <;> rfl
  | int x =>
    cases b with
    | null => rfl
    | int y => exact (Int.compare_swap x y).symm
    | str y => rfl
  | str x =>
    cases b with
    | null => rfl
    | int y => rfl
    | str y => exact bytesCmp_swap x y

theorem ord_eq_iff (a b : Value) : a.ord b = .eq ↔ a = b := by
  cases a with
  | null => cases b <;> simp [Value.ord]
  | int x =>
    cases b with
    | null => simp [Value.ord]
    | int y => simp [Value.ord, Int.compare_eq_eq]
    | str y => simp [Value.ord]
  | str x =>
    cases b with
    | null => simp [Value.ord]
    | int y => simp [Value.ord]
    | str y => simp [Value.ord, bytesCmp_eq_iff]

theorem ord_lt_trans (a b c : Value) (h1 : a.ord b = .lt) (h2 : b.ord c = .lt) : a.ord c = .lt := by
  cases a <;> cases b <;> cases c <;> simp only [Value.ord, reduceCtorEq] at h1 h2 ⊢
  · rename_i x y z
    rw [Int.compare_eq_lt] at *
    exact Int.lt_trans h1 h2
  · rename_i x y z
    exact bytesCmp_lt_trans x y z h1 h2

/-! ## `CompareRows` = the reference key comparison; it is a total preorder -/

theorem cmpKeyImpl_eq (d : Bool) (a b : Value) :
    cmpKeyImpl d a b = match a.ord b with
      | .eq => none
      | o => some (if d then o.swap else o) := by
  cases d <;> cases a <;> cases b <;> simp [cmpKeyImpl, Value.isNull, typeCompare, Value.ord, Ordering.swap]
  all_goals first
    | (rename_i x y
       first
        | (rw [← Int.compare_swap y x]; cases compare y x <;> rfl)
        | (rw [bytesCmp_swap y x]; cases bytesCmp y x <;> rfl)
        | (cases compare x y <;> rfl)
        | (cases bytesCmp x y <;> rfl))
    | rfl

theorem cmpRowsImpl_eq_keysCmp : ∀ (ds : List Bool) (a b : Row), cmpRowsImpl ds a b = keysCmp ds a b
  | d :: ds, a :: as, b :: bs => by
    unfold cmpRowsImpl keysCmp
    rw [cmpKeyImpl_eq]
    cases h : a.ord b <;> simp [cmpRowsImpl_eq_keysCmp ds as bs]
  | [], a :: as, b :: bs => by
    unfold cmpRowsImpl keysCmp
    rw [cmpKeyImpl_eq]
    cases h : a.ord b <;> simp [cmpRowsImpl_eq_keysCmp [] as bs]
  | [], [], _ => by simp [cmpRowsImpl, keysCmp]
  | [], _ :: _, [] => by simp [cmpRowsImpl, keysCmp]
  | _ :: _, [], _ => by simp [cmpRowsImpl, keysCmp]
  | _ :: _, _ :: _, [] => by simp [cmpRowsImpl, keysCmp]

/-- One key with its direction. -/
def dcmp (d : Bool) (a b : Value) : Ordering := if d then (a.ord b).swap else a.ord b

theorem keysCmp_cons (d : Bool) (ds : List Bool) (a b : Value) (as bs : Row) :
    keysCmp (d :: ds) (a :: as) (b :: bs) = match dcmp d a b with
      | .eq => keysCmp ds as bs
      | o => o := by
  simp only [keysCmp, dcmp]
  cases h : a.ord b <;> cases d <;> simp [Ordering.swap]

theorem keysCmp_nil_cons (a b : Value) (as bs : Row) :
    keysCmp [] (a :: as) (b :: bs) = match dcmp false a b with
      | .eq => keysCmp [] as bs
      | o => o := by
  simp only [keysCmp, dcmp]
  cases h : a.ord b <;> simp

theorem dcmp_swap (d : Bool) (a b : Value) : dcmp d b a = (dcmp d a b).swap := by
  unfold dcmp
  cases d <;> simp [ord_swap a b]

theorem keysCmp_swap : ∀ (ds : List Bool) (a b : Row), keysCmp ds b a = (keysCmp ds a b).swap
  | d :: ds, a :: as, b :: bs => by
    rw [keysCmp_cons, keysCmp_cons, dcmp_swap d a b]
    cases h : dcmp d a b <;> simp [Ordering.swap, keysCmp_swap ds as bs]
  | [], a :: as, b :: bs => by
    rw [keysCmp_nil_cons, keysCmp_nil_cons, dcmp_swap false a b]
    cases h : dcmp false a b <;> simp [Ordering.swap, keysCmp_swap [] as bs]
  | [], [], _ => by simp [keysCmp, Ordering.swap]
  | [], _ :: _, [] => by simp [keysCmp, Ordering.swap]
  | _ :: _, [], _ => by simp [keysCmp, Ordering.swap]
  | _ :: _, _ :: _, [] => by simp [keysCmp, Ordering.swap]

theorem dcmp_eq_iff (d : Bool) (a b : Value) : dcmp d a b = .eq ↔ a = b := by
  unfold dcmp
  cases d
  · simpa using ord_eq_iff a b
  · rw [if_pos rfl, ← ord_eq_iff a b]
    cases a.ord b <;> simp [Ordering.swap]

theorem dcmp_lt_trans (d : Bool) (a b c : Value) (h1 : dcmp d a b = .lt) (h2 : dcmp d b c = .lt) :
    dcmp d a c = .lt := by
  unfold dcmp at *
  cases d
  · simp only [Bool.false_eq_true, if_false] at *
    exact ord_lt_trans a b c h1 h2
  · simp only [if_true] at *
    -- swap: a.ord b = gt, b.ord c = gt, i.e. c.ord b = lt, b.ord a = lt
    have h1' : b.ord a = .lt := by rw [ord_swap a b]; exact h1
    have h2' : c.ord b = .lt := by rw [ord_swap b c]; exact h2
    have := ord_lt_trans c b a h2' h1'
    rw [ord_swap c a, this]
    rfl

/-- `≤` of the key comparison is transitive on key tuples of one length. -/
theorem keysCmp_le_trans : ∀ (ds : List Bool) (a b c : Row), a.length = b.length → b.length = c.length →
    keysCmp ds a b ≠ .gt → keysCmp ds b c ≠ .gt → keysCmp ds a c ≠ .gt := by
  intro ds a
  induction a generalizing ds with
  | nil =>
    intro b c hab hbc _ _
    have hb : b = [] := List.length_eq_zero_iff.mp (by simpa using hab.symm)
    subst hb
    have hc : c = [] := List.length_eq_zero_iff.mp (by simpa using hbc.symm)
    subst hc
    cases ds <;> simp [keysCmp]
  | cons x as ih =>
    intro b c hab hbc h1 h2
    cases b with
    | nil => simp at hab
    | cons y bs =>
      cases c with
      | nil => simp at hbc
      | cons z cs =>
        have hl1 : as.length = bs.length := by simpa using hab
        have hl2 : bs.length = cs.length := by simpa using hbc
        -- uniform treatment of `d :: ds` and `[]`
        have key : ∀ (d : Bool) (rest : List Bool),
            (match dcmp d x y with | .eq => keysCmp rest as bs | o => o) ≠ .gt →
            (match dcmp d y z with | .eq => keysCmp rest bs cs | o => o) ≠ .gt →
            (match dcmp d x z with | .eq => keysCmp rest as cs | o => o) ≠ .gt := by
          intro d rest g1 g2
          cases hxy : dcmp d x y with
          | gt => simp [hxy] at g1
          | eq =>
            have exy := (dcmp_eq_iff d x y).mp hxy
            subst exy
            cases hyz : dcmp d x z with
            | gt => simp [hyz] at g2
            | lt => simp
            | eq =>
              simp only [hxy, hyz] at g1 g2 ⊢
              exact ih rest bs cs hl1 hl2 g1 g2
          | lt =>
            cases hyz : dcmp d y z with
            | gt => simp [hyz] at g2
            | lt => simp [dcmp_lt_trans d x y z hxy hyz]
            | eq =>
              have eyz := (dcmp_eq_iff d y z).mp hyz
              subst eyz
              simp [hxy]
        cases ds with
        | nil =>
          rw [keysCmp_nil_cons] at h1 h2 ⊢
          exact key false [] h1 h2
        | cons d rest =>
          rw [keysCmp_cons] at h1 h2 ⊢
          exact key d rest h1 h2

/-! ## Generic: comparators that are total preorders -/

section Generic
variable {α : Type}

/-- A three-way comparison that is antisymmetric (`swap`) and whose `≤` is transitive. -/
structure TotalPre (cmp : α → α → Ordering) : Prop where
  swap : ∀ a b, cmp b a = (cmp a b).swap
  trans : ∀ a b c, cmp a b ≠ .gt → cmp b c ≠ .gt → cmp a c ≠ .gt

def leOf (cmp : α → α → Ordering) (a b : α) : Bool := cmp a b != .gt
def ltOf (cmp : α → α → Ordering) (a b : α) : Bool := cmp a b == .lt

theorem TotalPre.lt_iff_not_le {cmp : α → α → Ordering} (h : TotalPre cmp) (x y : α) :
    ltOf cmp x y = !leOf cmp y x := by
  unfold ltOf leOf
  rw [h.swap x y]
  cases cmp x y <;> rfl

theorem TotalPre.le_total {cmp : α → α → Ordering} (h : TotalPre cmp) (a b : α) :
    leOf cmp a b = true ∨ leOf cmp b a = true := by
  unfold leOf
  rw [h.swap a b]
  cases cmp a b <;> simp [Ordering.swap]

theorem TotalPre.le_trans {cmp : α → α → Ordering} (h : TotalPre cmp) (a b c : α)
    (h1 : leOf cmp a b = true) (h2 : leOf cmp b c = true) : leOf cmp a c = true := by
  unfold leOf at *
  have := h.trans a b c (by simpa using h1) (by simpa using h2)
  simpa using this

theorem insertAfter_pos (lt : α → α → Bool) (x y : α) (ys : List α) (h : lt x y = true) :
    insertAfter lt x (y :: ys) = x :: y :: ys := by simp [insertAfter, h]
theorem insertAfter_neg (lt : α → α → Bool) (x y : α) (ys : List α) (h : lt x y = false) :
    insertAfter lt x (y :: ys) = y :: insertAfter lt x ys := by simp [insertAfter, h]
theorem insertBy_pos (le : α → α → Bool) (x y : α) (ys : List α) (h : le x y = true) :
    insertBy le x (y :: ys) = x :: y :: ys := by simp [insertBy, h]
theorem insertBy_neg (le : α → α → Bool) (x y : α) (ys : List α) (h : le x y = false) :
    insertBy le x (y :: ys) = y :: insertBy le x ys := by simp [insertBy, h]

/-- Inserting an earlier element in front of its equals and a later element behind its equals
commute. -/
theorem insert_comm {cmp : α → α → Ordering} (h : TotalPre cmp) (x y : α) (s : List α) :
    insertBy (leOf cmp) y (insertAfter (ltOf cmp) x s) = insertAfter (ltOf cmp) x (insertBy (leOf cmp) y s) := by
  induction s with
  | nil =>
    have e3 : insertAfter (ltOf cmp) x ([] : List α) = [x] := rfl
    have e4 : insertBy (leOf cmp) y ([] : List α) = [y] := rfl
    rw [e3, e4]
    cases hyx : leOf cmp y x
    · have hxy : ltOf cmp x y = true := by rw [h.lt_iff_not_le x y, hyx]; rfl
      rw [insertBy_neg _ _ _ _ hyx, insertAfter_pos _ _ _ _ hxy, e4]
    · have hxy : ltOf cmp x y = false := by rw [h.lt_iff_not_le x y, hyx]; rfl
      rw [insertBy_pos _ _ _ _ hyx, insertAfter_neg _ _ _ _ hxy, e3]
  | cons z s ih =>
    cases hxz : ltOf cmp x z
    · -- z ≤ x
      have hzx : leOf cmp z x = true := by
        have := h.lt_iff_not_le x z
        rw [hxz] at this
        cases hc : leOf cmp z x
        · rw [hc] at this; cases this
        · rfl
      cases hyz : leOf cmp y z
      · rw [insertAfter_neg _ _ _ _ hxz, insertBy_neg _ _ _ _ hyz, insertBy_neg _ _ _ _ hyz,
          insertAfter_neg _ _ _ _ hxz, ih]
      · -- y ≤ z ≤ x  ⇒  ¬ x < y
        have hyx : leOf cmp y x = true := h.le_trans y z x hyz hzx
        have hxy : ltOf cmp x y = false := by rw [h.lt_iff_not_le x y, hyx]; rfl
        rw [insertAfter_neg _ _ _ _ hxz, insertBy_pos _ _ _ _ hyz, insertBy_pos _ _ _ _ hyz,
          insertAfter_neg _ _ _ _ hxy, insertAfter_neg _ _ _ _ hxz]
    · have hxz' : leOf cmp x z = true := by
        unfold ltOf at hxz; unfold leOf
        cases hcz : cmp x z
        · rfl
        · rfl
        · rw [hcz] at hxz; cases hxz
      cases hyz : leOf cmp y z
      · -- x < z < y  ⇒  ¬ y ≤ x
        have hyx : leOf cmp y x = false := by
          cases hc : leOf cmp y x
          · rfl
          · have := h.le_trans y x z hc hxz'
            rw [hyz] at this
            cases this
        rw [insertAfter_pos _ _ _ _ hxz, insertBy_neg _ _ _ _ hyx, insertBy_neg _ _ _ _ hyz,
          insertAfter_pos _ _ _ _ hxz]
      · -- x < z, y ≤ z
        rw [insertAfter_pos _ _ _ _ hxz, insertBy_pos _ _ _ _ hyz]
        cases hyx : leOf cmp y x
        · have hxy : ltOf cmp x y = true := by rw [h.lt_iff_not_le x y, hyx]; rfl
          rw [insertBy_neg _ _ _ _ hyx, insertBy_pos _ _ _ _ hyz, insertAfter_pos _ _ _ _ hxy]
        · have hxy : ltOf cmp x y = false := by rw [h.lt_iff_not_le x y, hyx]; rfl
          rw [insertBy_pos _ _ _ _ hyx, insertAfter_neg _ _ _ _ hxy, insertAfter_pos _ _ _ _ hxz]

theorem insertAfter_sortBy {cmp : α → α → Ordering} (h : TotalPre cmp) (x : α) (pre : List α) :
    insertAfter (ltOf cmp) x (sortBy (leOf cmp) pre) = sortBy (leOf cmp) (pre ++ [x]) := by
  induction pre with
  | nil => simp [sortBy, insertAfter, insertBy]
  | cons y p ih =>
    simp only [sortBy, List.cons_append]
    rw [← ih, insert_comm h]

theorem foldl_insertAfter_sortBy {cmp : α → α → Ordering} (h : TotalPre cmp) (rows pre : List α) :
    rows.foldl (fun s x => insertAfter (ltOf cmp) x s) (sortBy (leOf cmp) pre) = sortBy (leOf cmp) (pre ++ rows) := by
  induction rows generalizing pre with
  | nil => simp
  | cons x r ih =>
    simp only [List.foldl_cons]
    rw [insertAfter_sortBy h, ih]
    simp

/-- `sort.Stable` (rows consumed left to right) computes the reference stable sort. -/
theorem sortL2R_eq_sortBy {cmp : α → α → Ordering} (h : TotalPre cmp) (rows : List α) :
    sortL2R (ltOf cmp) rows = sortBy (leOf cmp) rows := by
  have := foldl_insertAfter_sortBy h rows []
  simpa [sortL2R, sortBy] using this

/-! ### top-N (no order properties needed) -/

theorem take_insertAfter (lt : α → α → Bool) (x : α) (s : List α) (n : Nat) :
    (insertAfter lt x s).take n = (insertAfter lt x (s.take n)).take n := by
  induction s generalizing n with
  | nil => simp
  | cons y s ih =>
    cases n with
    | zero => simp
    | succ k =>
      by_cases hxy : lt x y = true
      · simp only [insertAfter, hxy, if_true, List.take_succ_cons]
        congr 1
        cases k with
        | zero => simp
        | succ j => simp [List.take_succ_cons, List.take_take]
      · have hxy' : lt x y = false := by simpa using hxy
        simp only [insertAfter, hxy', Bool.false_eq_true, if_false, List.take_succ_cons]
        rw [ih k]

theorem foldl_topNStep (lt : α → α → Bool) (n : Nat) (rows s : List α) :
    rows.foldl (topNStep lt n) (s.take n) = (rows.foldl (fun s x => insertAfter lt x s) s).take n := by
  induction rows generalizing s with
  | nil => simp
  | cons x r ih =>
    simp only [List.foldl_cons]
    have : topNStep lt n (s.take n) x = (insertAfter lt x s).take n := by
      unfold topNStep
      exact (take_insertAfter lt x s n).symm
    rw [this, ih]

/-- **Top-N heap = sort, then take `n`** — exactly, including which of several equal rows
survive (the arrival-number tie-break makes the heap keep the earliest ones). -/
theorem topN_eq_take_sort (lt : α → α → Bool) (n : Nat) (rows : List α) :
    topN lt n rows = (sortL2R lt rows).take n := by
  have := foldl_topNStep lt n rows []
  simpa [topN, sortL2R] using this

theorem head?_insertAfter (lt : α → α → Bool) (x : α) (s : List α) :
    (insertAfter lt x s).head? = match s.head? with
      | none => some x
      | some h => some (if lt x h then x else h) := by
  cases s with
  | nil => rfl
  | cons y s => by_cases h : lt x y = true <;> simp [insertAfter, h]

theorem head?_foldl_insertAfter (lt : α → α → Bool) (xs : List α) (h : α) (s : List α) :
    (xs.foldl (fun s x => insertAfter lt x s) (h :: s)).head?
      = some (xs.foldl (fun best r => if lt r best then r else best) h) := by
  induction xs generalizing h s with
  | nil => rfl
  | cons x r ih =>
    simp only [List.foldl_cons]
    by_cases hx : lt x h = true
    · simp only [insertAfter, hx, if_true]
      exact ih x (h :: s)
    · have hx' : lt x h = false := by simpa using hx
      simp only [insertAfter, hx', Bool.false_eq_true, if_false]
      exact ih h (insertAfter lt x s)

/-- The LIMIT-1 scan returns the first row of the stable sort. -/
theorem top1_eq_head_sort (lt : α → α → Bool) (rows : List α) :
    top1 lt rows = (sortL2R lt rows).head? := by
  cases rows with
  | nil => rfl
  | cons x xs =>
    unfold top1 sortL2R
    simp only [List.foldl_cons, insertAfter]
    exact (head?_foldl_insertAfter lt xs x []).symm

theorem toList_head?_eq_take_one (l : List α) : l.head?.toList = l.take 1 := by
  cases l <;> simp

/-- What the planner builds for `ORDER BY … LIMIT n OFFSET m` returns the slice `m+1 … m+n` of the
sorted rows. -/
theorem topNPlan_eq_slice (lt : α → α → Bool) (n m : Nat) (rows : List α) :
    topNPlan lt n m rows = ((sortL2R lt rows).drop m).take n := by
  unfold topNPlan offsetRows
  by_cases h1 : n + m = 1
  · rw [if_pos h1, top1_eq_head_sort, toList_head?_eq_take_one, ← h1, List.drop_take]
    congr 1; omega
  · rw [if_neg h1, topN_eq_take_sort, List.drop_take]
    congr 1; omega

end Generic

end Gms.Sort
