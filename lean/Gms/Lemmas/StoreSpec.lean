/-
C27: the Spec `acceptableConvert` (Bool-valued, used by the driver) in Prop form.
-/
import Gms.Model.Store
namespace Gms.Store
open Gms.Num Gms.Conv

/-- Prop form of the Spec `acceptableConvert` for a numeric value `x = c / 10^s` -/
def Acceptable (t : Ty) (x : Int × Nat) (r : CRes) : Prop :=
  (t.storable (target t x) = true → exactInBounds t x = true →
      r.err = .none ∧ r.flag = .inRange ∧ storedCoeff t r.val = some (target t x)) ∧
  (t.storable (target t x) = true → exactInBounds t x = false →
      r.err = .fatal ∨ storedCoeff t r.val = some (target t x)) ∧
  (t.storable (target t x) = false →
      conversionOk r = false ∧ (r.err = .fatal ∨ storedCoeff t r.val = some (nearest t (target t x))))

theorem numOf_ne_null {v : Val} {x} (h : numOf v = some x) : v ≠ .null := by
  intro e; subst e; simp [numOf] at h

theorem acceptableConvert_num (t : Ty) (v : Val) (x : Int × Nat) (r : CRes) (hv : numOf v = some x) :
    acceptableConvert t v r =
      (if t = .year ∧ 1 ≤ target t x ∧ target t x ≤ 99 then none
       else if t.storable (target t x) then
         if exactInBounds t x then
           some (r.err == Err.none && r.flag == Flag.inRange && storedCoeff t r.val == some (target t x))
         else some (r.err == Err.fatal || storedCoeff t r.val == some (target t x))
       else
         some (!(conversionOk r) &&
           (r.err == Err.fatal || storedCoeff t r.val == some (nearest t (target t x))))) := by
  cases v with
  | null => simp [numOf] at hv
  | s bs => simp [numOf] at hv
  | i a => simp only [acceptableConvert, hv]
  | u a => simp only [acceptableConvert, hv]
  | d a b => simp only [acceptableConvert, hv]

theorem acceptableConvert_of (t : Ty) (v : Val) (x : Int × Nat) (r : CRes) (hv : numOf v = some x)
    (hy : ¬ (t = .year ∧ 1 ≤ target t x ∧ target t x ≤ 99)) (h : Acceptable t x r) :
    acceptableConvert t v r = some true := by
  rw [acceptableConvert_num t v x r hv, if_neg hy]
  obtain ⟨h1, h2, h3⟩ := h
  by_cases hs : t.storable (target t x) = true
  · rw [if_pos hs]
    by_cases he : exactInBounds t x = true
    · rw [if_pos he]
      obtain ⟨a, b, c⟩ := h1 hs he
      simp [a, b, c]
    · rw [if_neg he]
      have he' : exactInBounds t x = false := by simpa using he
      rcases h2 hs he' with a | a <;> simp [a]
  · rw [if_neg hs]
    have hs' : t.storable (target t x) = false := by simpa using hs
    obtain ⟨a, b⟩ := h3 hs'
    rcases b with b | b <;> simp [a, b]
end Gms.Store
