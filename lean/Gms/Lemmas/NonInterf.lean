/-
Lemmas about the interleaving model `Gms.NonInterf` (C36): one global step touches one session and
copies the store; projection of a schedule onto one session; the registry invariant; a session
alone is its program executed statement by statement; progress.
-/
import Gms.Model.NonInterf
namespace Gms.NonInterf
variable {Db : Type}

theorem step_db (n : Nat) (progs : Nat → List (Stmt Db)) (g : St Db) (i : Nat) :
    (step n progs g i).db = g.db := by
  unfold step
  by_cases hi : i < n
  · simp only [hi, if_true]
    cases (progs i)[(g.sess i).pc]? with
    | none => rfl
    | some st => cases (g.sess i).phase <;> rfl
  · simp [hi]

theorem step_sess_self (n : Nat) (progs : Nat → List (Stmt Db)) (g : St Db) (i : Nat) (hi : i < n) :
    (step n progs g i).sess i = lstep g.db (progs i) (g.sess i) := by
  unfold step lstep
  simp only [hi, if_true]
  cases (progs i)[(g.sess i).pc]? with
  | none => rfl
  | some st => cases (g.sess i).phase <;> simp [upd]

theorem step_sess_other (n : Nat) (progs : Nat → List (Stmt Db)) (g : St Db) (i j : Nat) (h : j ≠ i) :
    (step n progs g i).sess j = g.sess j := by
  unfold step
  by_cases hi : i < n
  · simp only [hi, if_true]
    cases (progs i)[(g.sess i).pc]? with
    | none => rfl
    | some st => cases (g.sess i).phase <;> simp [upd, h]
  · simp [hi]

/-- `k` local steps starting from `s` (head first, as `foldl` consumes a schedule). -/
def lsteps (db : Db) (prog : List (Stmt Db)) : Nat → Sess → Sess
  | 0, s => s
  | k + 1, s => lsteps db prog k (lstep db prog s)

theorem lsteps_succ' (db : Db) (prog : List (Stmt Db)) (k : Nat) (s : Sess) :
    lsteps db prog (k + 1) s = lstep db prog (lsteps db prog k s) := by
  induction k generalizing s with
  | zero => rfl
  | succ k ih => rw [lsteps, ih (lstep db prog s)]; rfl

theorem solo_eq_lsteps (db : Db) (prog : List (Stmt Db)) (k : Nat) :
    solo db prog k = lsteps db prog k initSess := by
  induction k with
  | zero => rfl
  | succ k ih => rw [solo, ih, lsteps_succ']

theorem lsteps_add (db : Db) (prog : List (Stmt Db)) (a b : Nat) (s : Sess) :
    lsteps db prog (a + b) s = lsteps db prog b (lsteps db prog a s) := by
  induction a generalizing s with
  | zero => simp [lsteps]
  | succ a ih => rw [Nat.succ_add, lsteps, ih, lsteps]

theorem foldl_db (n : Nat) (progs : Nat → List (Stmt Db)) (evs : List Nat) (g : St Db) :
    (evs.foldl (step n progs) g).db = g.db := by
  induction evs generalizing g with
  | nil => rfl
  | cons e evs ih => rw [List.foldl_cons, ih, step_db]

theorem foldl_sess (n : Nat) (progs : Nat → List (Stmt Db)) (evs : List Nat) (g : St Db) (i : Nat) (hi : i < n) :
    (evs.foldl (step n progs) g).sess i = lsteps g.db (progs i) (occ i evs) (g.sess i) := by
  induction evs generalizing g with
  | nil => rfl
  | cons e evs ih =>
    rw [List.foldl_cons, ih, step_db]
    by_cases he : e = i
    · subst he
      simp only [occ, if_true, Nat.add_comm 1]
      rw [lsteps, step_sess_self _ _ _ _ hi]
    · simp only [occ, he, if_false, Nat.zero_add]
      rw [step_sess_other _ _ _ _ _ (Ne.symm he)]

theorem step_ge (n : Nat) (progs : Nat → List (Stmt Db)) (g : St Db) (i : Nat) (h : ¬ i < n) :
    step n progs g i = g := by
  unfold step; simp [h]

theorem foldl_sess_ge (n : Nat) (progs : Nat → List (Stmt Db)) (evs : List Nat) (g : St Db) (i : Nat) (hi : ¬ i < n) :
    (evs.foldl (step n progs) g).sess i = g.sess i := by
  induction evs generalizing g with
  | nil => rfl
  | cons e evs ih =>
    rw [List.foldl_cons, ih]
    by_cases he : e = i
    · subst he; rw [step_ge _ _ _ _ hi]
    · rw [step_sess_other _ _ _ _ _ (Ne.symm he)]

theorem sumN_upd (f : Sess → Nat) (ss : Nat → Sess) (i : Nat) (v : Sess) (n : Nat) (hi : i < n) :
    sumN (fun j => f (upd ss i v j)) n + f (ss i) = sumN (fun j => f (ss j)) n + f v := by
  induction n with
  | zero => omega
  | succ n ih =>
    simp only [sumN]
    by_cases h : i = n
    · subst h
      have e : sumN (fun j => f (upd ss i v j)) i = sumN (fun j => f (ss j)) i := by
        clear ih hi
        suffices H : ∀ m, m ≤ i → sumN (fun j => f (upd ss i v j)) m = sumN (fun j => f (ss j)) m from H i (Nat.le_refl _)
        intro m hm
        induction m with
        | zero => rfl
        | succ m ihm =>
          simp only [sumN]
          rw [ihm (by omega)]
          have : m ≠ i := by omega
          simp [upd, this]
      rw [e]; simp [upd]; omega
    · have hlt : i < n := by omega
      have := ih hlt
      have hn : n ≠ i := fun e => h e.symm
      simp only [upd, hn, if_false]
      simp only [upd] at this
      omega

theorem sumN_congr (f g : Nat → Nat) (n : Nat) (h : ∀ i, i < n → f i = g i) : sumN f n = sumN g n := by
  induction n with
  | zero => rfl
  | succ n ih => simp only [sumN]; rw [ih (fun i hi => h i (by omega)), h n (by omega)]

theorem sumN_zero (f : Nat → Nat) (n : Nat) (h : ∀ i, i < n → f i = 0) : sumN f n = 0 := by
  induction n with
  | zero => rfl
  | succ n ih => simp only [sumN]; rw [ih (fun i hi => h i (by omega)), h n (by omega)]

theorem sem_questions (st : Stmt Db) (db : Db) (l : Local) : (sem st db l).2.questions = l.questions := by
  cases st with
  | read f sel w => cases w <;> rfl
  | _ => rfl

theorem sem_comSelect (st : Stmt Db) (db : Db) (l : Local) :
    (sem st db l).2.comSelect = l.comSelect + (if st.isSelect then 1 else 0) := by
  cases st with
  | read f sel w => cases w <;> rfl
  | _ => rfl

structure Reg (n : Nat) (g : St Db) : Prop where
  questions : g.questions = sumN (fun i => (g.sess i).loc.questions) n
  comSelect : g.comSelect = sumN (fun i => (g.sess i).loc.comSelect) n
  running : g.running = sumN (fun i => busy (g.sess i)) n
  command : ∀ i, (g.sess i).command = decide ((g.sess i).phase ≠ .idle)

theorem reg_init (n : Nat) (db : Db) : Reg n (init db) := by
  constructor
  · simp only [init]; rw [sumN_zero]; intro i _; rfl
  · simp only [init]; rw [sumN_zero]; intro i _; rfl
  · simp only [init]; rw [sumN_zero]; intro i _; rfl
  · intro i; rfl

theorem sumN_ge (f : Nat → Nat) (n i : Nat) (hi : i < n) : f i ≤ sumN f n := by
  induction n with
  | zero => omega
  | succ m ih =>
    simp only [sumN]
    by_cases hm : i = m
    · subst hm; omega
    · have := ih (by omega); omega

theorem reg_upd (n : Nat) (g : St Db) (i : Nat) (hi : i < n) (h : Reg n g) (v : Sess) (dq dc : Nat) (r' : Nat)
    (hq : v.loc.questions = (g.sess i).loc.questions + dq)
    (hc : v.loc.comSelect = (g.sess i).loc.comSelect + dc)
    (hr : r' + busy (g.sess i) = g.running + busy v)
    (hcmd : v.command = decide (v.phase ≠ .idle)) :
    Reg n { db := g.db, questions := g.questions + dq, comSelect := g.comSelect + dc, running := r', sess := upd g.sess i v } := by
  obtain ⟨h1, h2, h3, h4⟩ := h
  have kq := sumN_upd (fun s => s.loc.questions) g.sess i v n hi
  have kc := sumN_upd (fun s => s.loc.comSelect) g.sess i v n hi
  have kr := sumN_upd busy g.sess i v n hi
  refine ⟨?_, ?_, ?_, ?_⟩
  · simp only; omega
  · simp only; omega
  · simp only; omega
  · intro j; simp only [upd]; split
    · exact hcmd
    · exact h4 j

theorem reg_step (n : Nat) (progs : Nat → List (Stmt Db)) (g : St Db) (i : Nat) (h : Reg n g) :
    Reg n (step n progs g i) := by
  unfold step
  by_cases hi : i < n
  · simp only [hi, if_true]
    cases hst : (progs i)[(g.sess i).pc]? with
    | none => exact h
    | some st =>
      have hcm := h.command i
      cases hph : (g.sess i).phase with
      | idle =>
        have := reg_upd n g i hi h { g.sess i with phase := .began, command := true } 0 0 (g.running + 1) rfl rfl
          (by simp [busy, hph]) (by simp)
        simpa using this
      | began =>
        have := reg_upd n g i hi h { g.sess i with phase := .counted, loc := { (g.sess i).loc with questions := (g.sess i).loc.questions + 1 } }
          1 0 g.running rfl rfl (by simp [busy, hph]) (by simp [hcm, hph])
        simpa using this
      | counted =>
        have := reg_upd n g i hi h { g.sess i with phase := .evaluated, loc := (sem st g.db (g.sess i).loc).2, results := (sem st g.db (g.sess i).loc).1 :: (g.sess i).results }
          0 (if st.isSelect then 1 else 0) g.running (by simp [sem_questions]) (by simp [sem_comSelect]) (by simp [busy, hph]) (by simp [hcm, hph])
        simpa using this
      | evaluated =>
        have hr := h.running
        have hpos : 1 ≤ g.running := by
          have : busy (g.sess i) = 1 := by simp [busy, hph]
          have h2 := sumN_ge (fun j => busy (g.sess j)) n i hi
          omega
        have := reg_upd n g i hi h { g.sess i with phase := .idle, pc := (g.sess i).pc + 1, command := false }
          0 0 (g.running - 1) rfl rfl (by simp [busy, hph]; omega) (by simp)
        simpa using this
  · simp only [hi, if_false]; exact h

theorem reg_foldl (n : Nat) (progs : Nat → List (Stmt Db)) (evs : List Nat) (g : St Db) (h : Reg n g) :
    Reg n (evs.foldl (step n progs) g) := by
  induction evs generalizing g with
  | nil => exact h
  | cons e evs ih => exact ih _ (reg_step n progs g e h)

theorem seqRun_snoc (db : Db) (prog : List (Stmt Db)) (st : Stmt Db) (l : Local) :
    seqRun db (prog ++ [st]) l =
      ((seqRun db prog l).1 ++ [(sem st db { (seqRun db prog l).2 with questions := (seqRun db prog l).2.questions + 1 }).1],
       (sem st db { (seqRun db prog l).2 with questions := (seqRun db prog l).2.questions + 1 }).2) := by
  induction prog generalizing l with
  | nil => simp [seqRun]
  | cons a rest ih => simp only [List.cons_append, seqRun]; rw [ih]

theorem seqRun_questions (db : Db) (prog : List (Stmt Db)) (l : Local) :
    (seqRun db prog l).2.questions = l.questions + prog.length := by
  induction prog generalizing l with
  | nil => simp [seqRun]
  | cons a rest ih =>
    simp only [seqRun, List.length_cons]
    rw [ih, sem_questions]; simp; omega

structure SoloInv (db : Db) (prog : List (Stmt Db)) (s : Sess) : Prop where
  pc_le : s.pc ≤ prog.length
  idle : s.phase = .idle ∨ s.phase = .began →
    s.results.reverse = (seqRun db (prog.take s.pc) initLocal).1 ∧ s.loc = (seqRun db (prog.take s.pc) initLocal).2
  counted : s.phase = .counted →
    s.results.reverse = (seqRun db (prog.take s.pc) initLocal).1 ∧
    s.loc = { (seqRun db (prog.take s.pc) initLocal).2 with questions := (seqRun db (prog.take s.pc) initLocal).2.questions + 1 }
  evaluated : s.phase = .evaluated → s.pc < prog.length ∧
    s.results.reverse = (seqRun db (prog.take (s.pc + 1)) initLocal).1 ∧ s.loc = (seqRun db (prog.take (s.pc + 1)) initLocal).2

theorem soloInv_init (db : Db) (prog : List (Stmt Db)) : SoloInv db prog initSess := by
  constructor
  · exact Nat.zero_le _
  · intro _; simp [initSess, seqRun]
  · intro h; simp [initSess] at h
  · intro h; simp [initSess] at h

theorem soloInv_lstep (db : Db) (prog : List (Stmt Db)) (s : Sess) (h : SoloInv db prog s) :
    SoloInv db prog (lstep db prog s) := by
  unfold lstep
  cases hst : prog[s.pc]? with
  | none => exact h
  | some st =>
    have hlt : s.pc < prog.length := (List.getElem?_eq_some_iff.mp hst).1
    cases hph : s.phase with
    | idle =>
      have hi := h.idle (Or.inl hph)
      constructor
      · exact h.pc_le
      · intro _; exact hi
      · intro hh; simp at hh
      · intro hh; simp at hh
    | began =>
      have hi := h.idle (Or.inr hph)
      constructor
      · exact h.pc_le
      · intro hh; simp at hh
      · intro _; simp only; exact ⟨hi.1, by rw [hi.2]⟩
      · intro hh; simp at hh
    | counted =>
      have hc := h.counted hph
      constructor
      · exact h.pc_le
      · intro hh; simp at hh
      · intro hh; simp at hh
      · intro _
        refine ⟨hlt, ?_, ?_⟩
        · simp only [List.reverse_cons]
          rw [List.take_add_one, hst, Option.toList_some, seqRun_snoc, hc.1, hc.2]
        · simp only
          rw [List.take_add_one, hst, Option.toList_some, seqRun_snoc, hc.2]
    | evaluated =>
      have he := h.evaluated hph
      constructor
      · exact he.1
      · intro _; exact ⟨he.2.1, he.2.2⟩
      · intro hh; simp at hh
      · intro hh; simp at hh

theorem soloInv_lsteps (db : Db) (prog : List (Stmt Db)) (k : Nat) (s : Sess) (h : SoloInv db prog s) :
    SoloInv db prog (lsteps db prog k s) := by
  induction k generalizing s with
  | zero => exact h
  | succ k ih => exact ih _ (soloInv_lstep db prog s h)

theorem lstep_done (db : Db) (prog : List (Stmt Db)) (s : Sess) (h : prog.length ≤ s.pc) : lstep db prog s = s := by
  unfold lstep
  have : prog[s.pc]? = none := List.getElem?_eq_none_iff.mpr h
  rw [this]

theorem lsteps_done (db : Db) (prog : List (Stmt Db)) (k : Nat) (s : Sess) (h : prog.length ≤ s.pc) :
    lsteps db prog k s = s := by
  induction k with
  | zero => rfl
  | succ k ih => rw [lsteps, lstep_done db prog s h, ih]

theorem lsteps_four (db : Db) (prog : List (Stmt Db)) (s : Sess) (hph : s.phase = .idle) (hlt : s.pc < prog.length) :
    (lsteps db prog 4 s).phase = .idle ∧ (lsteps db prog 4 s).pc = s.pc + 1 := by
  have hget : prog[s.pc]? = some prog[s.pc] := List.getElem?_eq_getElem hlt
  simp [lsteps, lstep, hget, hph]

theorem lsteps_statements (db : Db) (prog : List (Stmt Db)) (j : Nat) (hj : j ≤ prog.length) :
    (lsteps db prog (4 * j) initSess).phase = .idle ∧ (lsteps db prog (4 * j) initSess).pc = j := by
  induction j with
  | zero => exact ⟨rfl, rfl⟩
  | succ j ih =>
    have ihj := ih (by omega)
    have e : 4 * (j + 1) = 4 * j + 4 := by omega
    rw [e, lsteps_add]
    have := lsteps_four db prog (lsteps db prog (4 * j) initSess) ihj.1 (by rw [ihj.2]; omega)
    rw [ihj.2] at this
    exact this

theorem lsteps_enough (db : Db) (prog : List (Stmt Db)) (k : Nat) (hk : 4 * prog.length ≤ k) :
    (lsteps db prog k initSess).phase = .idle ∧ (lsteps db prog k initSess).pc = prog.length := by
  have e : k = 4 * prog.length + (k - 4 * prog.length) := by omega
  have h0 := lsteps_statements db prog prog.length (Nat.le_refl _)
  rw [e, lsteps_add, lsteps_done _ _ _ _ (by rw [h0.2]; exact Nat.le_refl _)]
  exact h0
end Gms.NonInterf
