/-
C31 — lemmas about the SQL text of DATE / DATETIME values (`Gms.Cal` §8): the unpadded decimal
writer (`showNat`, Go's strconv.AppendInt) against the fixed-width writer (`padW`).
-/
import Gms.Lemmas.CalParse

namespace Gms.Cal

/-! ### `showNat` and `padW` -/

theorem padW_lead_zero (w v : Nat) (h : v < 10 ^ w) : padW (w + 1) v = 48 :: padW w v := by
  induction w generalizing v with
  | zero =>
    have : v = 0 := by simpa using h
    subst this; rfl
  | succ w ih =>
    have h' : v / 10 < 10 ^ w := by
      rw [Nat.pow_succ] at h; omega
    show padW (w + 1) (v / 10) ++ [digit v] = 48 :: (padW w (v / 10) ++ [digit v])
    rw [ih _ h']; rfl

/-- a number with exactly `w + 1` digits is written by `%d` as its `w + 1` digits -/
theorem showNatAux_eq_padW (w : Nat) : ∀ v fuel, 10 ^ w ≤ v ∨ w = 0 → v < 10 ^ (w + 1) → v < fuel →
    showNatAux fuel v = padW (w + 1) v := by
  induction w with
  | zero =>
    intro v fuel _ hv hf
    cases fuel with
    | zero => omega
    | succ n =>
      have : v < 10 := by simpa using hv
      simp [showNatAux, this, padW]
  | succ w ih =>
    intro v fuel hl hv hf
    have hl : 10 ^ (w + 1) ≤ v := by
      rcases hl with h | h
      · exact h
      · omega
    cases fuel with
    | zero => omega
    | succ n =>
      have h10 : ¬ v < 10 := by
        have : 10 ≤ 10 ^ (w + 1) := by
          rw [Nat.pow_succ]; have := Nat.one_le_two_pow (n := 0); have : 1 ≤ 10 ^ w := Nat.one_le_pow _ _ (by decide); omega
        omega
      have h1 : 10 ^ w ≤ v / 10 := by rw [Nat.pow_succ] at hl; omega
      have h2 : v / 10 < 10 ^ (w + 1) := by rw [Nat.pow_succ] at hv; omega
      have h3 : v / 10 < n := by omega
      rw [showNatAux]
      simp only [h10, if_false]
      rw [ih (v / 10) n (Or.inl h1) h2 h3]
      rfl

theorem showNat_eq_padW (w v : Nat) (hl : 10 ^ w ≤ v ∨ w = 0) (hv : v < 10 ^ (w + 1)) :
    showNat v = padW (w + 1) v :=
  showNatAux_eq_padW w v (v + 1) hl hv (by omega)

/-- the length of `%d` of a number below 1000 is at most 3 -/
theorem showNat_length_lt4 (v : Nat) (h : v < 1000) : (showNat v).length < 4 := by
  by_cases h1 : v < 10
  · rw [showNat_eq_padW 0 v (Or.inr rfl) (by simpa using h1), padW_length]; decide
  · by_cases h2 : v < 100
    · rw [showNat_eq_padW 1 v (Or.inl (by simpa using Nat.le_of_not_lt h1)) (by simpa using h2), padW_length]; decide
    · rw [showNat_eq_padW 2 v (Or.inl (by simpa using Nat.le_of_not_lt h2)) (by simpa using h), padW_length]; decide

/-- two digits written as `'0'+v/10, '0'+v%10` -/
theorem two_digits (v : Nat) : [digit (v / 10), digit v] = padW 2 v := rfl

theorem padShow_lt (w v : Nat) (h : v < 10 ^ w) : padShow w v = padW w v := by
  simp [padShow, h]

/-- `if h < 10 { '0' }; AppendInt(h)` is the two-digit hour -/
theorem hour_text (h : Nat) (hh : h < 100) : (if h < 10 then [48] else []) ++ showNat h = padW 2 h := by
  by_cases h1 : h < 10
  · simp only [h1, if_true]
    rw [showNat_eq_padW 0 h (Or.inr rfl) (by simpa using h1), padW_lead_zero 1 h (by simpa using h1)]
    rfl
  · simp only [h1, if_false, List.nil_append]
    exact showNat_eq_padW 1 h (Or.inl (by simpa using Nat.le_of_not_lt h1)) (by simpa using hh)

/-- the padding loop of `appendMicroseconds` followed by `AppendInt` writes exactly `p` digits -/
theorem microZeros_showNat (p : Nat) : ∀ sub fuel, sub < 10 ^ (p + 1) → p < fuel →
    microZeros fuel (10 ^ p) sub ++ showNat sub = padW (p + 1) sub := by
  induction p with
  | zero =>
    intro sub fuel hs hf
    cases fuel with
    | zero => omega
    | succ n =>
      simp only [microZeros, Nat.pow_zero, Nat.lt_irrefl, false_and, if_false, List.nil_append]
      exact showNat_eq_padW 0 sub (Or.inr rfl) hs
  | succ p ih =>
    intro sub fuel hs hf
    cases fuel with
    | zero => omega
    | succ n =>
      have hpos : 10 ^ (p + 1) > 1 := by
        have : 1 ≤ 10 ^ p := Nat.one_le_pow _ _ (by decide)
        rw [Nat.pow_succ]; omega
      have hdiv : 10 ^ (p + 1) / 10 = 10 ^ p := by
        rw [Nat.pow_succ]; omega
      by_cases hlt : sub < 10 ^ (p + 1)
      · simp only [microZeros, hpos, hlt, and_self, if_true, hdiv, List.cons_append]
        rw [ih sub n hlt (by omega), padW_lead_zero (p + 1) sub hlt]
      · simp only [microZeros, hlt, and_false, if_false, List.nil_append]
        exact showNat_eq_padW (p + 1) sub (Or.inl (Nat.le_of_not_lt hlt)) hs

theorem sqlMicros_eq (us prec : Nat) (hp : prec ≤ 6) (hus : us < 1000000) :
    sqlMicrosImpl us prec = if prec = 0 then [] else 46 :: padW prec (us / 10 ^ (6 - prec)) := by
  unfold sqlMicrosImpl
  by_cases h0 : prec = 0
  · simp [h0]
  · simp only [h0, if_false]
    obtain ⟨p, rfl⟩ : ∃ p, prec = p + 1 := ⟨prec - 1, by omega⟩
    have hs : us / 10 ^ (6 - (p + 1)) < 10 ^ (p + 1) := by
      have hp' : p ≤ 5 := by omega
      rw [Nat.div_lt_iff_lt_mul (Nat.pow_pos (by decide))]
      have : 10 ^ (p + 1) * 10 ^ (6 - (p + 1)) = 1000000 := by
        rw [← Nat.pow_add]
        have : p + 1 + (6 - (p + 1)) = 6 := by omega
        rw [this]
      omega
    simp only [Nat.add_sub_cancel]
    rw [microZeros_showNat p _ (p + 1) hs (by omega)]

/-! ### the SQL text -/

/-- time of day: the Impl writer is the Spec writer on every valid clock -/
theorem sqlTime_eq_spec (f : Fields) (prec : Nat) (hv : validFields f) (hp : prec ≤ 6) :
    sqlTimeImplF f prec = sqlTimeSpecF f prec := by
  obtain ⟨_, _, _, _, h1, h2, h3, h4, h5, h6, h7, h8⟩ := hv
  have hh : ¬ f.h < 0 := by omega
  have hus : (f.ns / 1000).toNat < 1000000 := by omega
  have e10 : (f.h < 10) = (f.h.toNat < 10) := by
    apply propext; constructor <;> intro h <;> omega
  simp only [sqlTimeImplF, sqlTimeSpecF, showInt, hh, if_false, sqlMicros_eq _ _ hp hus, e10]
  rw [hour_text f.h.toNat (by omega)]
  rw [padShow_lt 2 f.h.toNat (by simp; omega), padShow_lt 2 f.mi.toNat (by simp; omega),
    padShow_lt 2 f.s.toNat (by simp; omega)]
  simp [← two_digits]

/-- date: outside the year class 1..999 the Impl writer is the Spec writer -/
theorem sqlDate_eq_spec (f : Fields) (hv : validFields f) (hy : 0 ≤ f.y ∧ f.y ≤ 9999)
    (hr : ¬ (1 ≤ f.y ∧ f.y ≤ 999)) : sqlDateImplF f = sqlDateSpecF f := by
  obtain ⟨m1, m2, d1, d2, _⟩ := hv
  have hd : f.d ≤ 31 := by
    have : dim f.y f.mo ≤ 31 := by unfold dim; split <;> (try split) <;> omega
    omega
  simp only [sqlDateImplF, sqlDateSpecF]
  rw [padShow_lt 2 f.mo.toNat (by simp; omega), padShow_lt 2 f.d.toNat (by simp; omega),
    padShow_lt 4 f.y.toNat (by simp; omega)]
  by_cases h0 : f.y = 0
  · have e : padW 4 0 = [48, 48, 48, 48] := by decide
    simp [h0, e, ← two_digits]
  · have hge : 1000 ≤ f.y := by omega
    have hneg : ¬ f.y < 0 := by omega
    simp only [h0, if_false, showInt, hneg]
    rw [showNat_eq_padW 3 f.y.toNat (Or.inl (by simp; omega)) (by simp; omega)]
    simp [← two_digits]

/-- inside the year class the year is written with fewer than four digits: the texts differ -/
theorem sqlDate_ne_spec (f : Fields) (hv : validFields f) (hr : 1 ≤ f.y ∧ f.y ≤ 999) (tl tl' : Str)
    (hl : tl.length = tl'.length) : sqlDateImplF f ++ tl ≠ sqlDateSpecF f ++ tl' := by
  intro h
  obtain ⟨m1, m2, d1, d2, _⟩ := hv
  have hd : f.d ≤ 31 := by
    have : dim f.y f.mo ≤ 31 := by unfold dim; split <;> (try split) <;> omega
    omega
  have hlen := congrArg List.length h
  have h0 : ¬ f.y = 0 := by omega
  have hneg : ¬ f.y < 0 := by omega
  have hs := showNat_length_lt4 f.y.toNat (by omega)
  simp only [sqlDateImplF, sqlDateSpecF, h0, if_false, showInt, hneg, List.length_append,
    List.length_cons, List.length_nil] at hlen
  rw [padShow_lt 4 f.y.toNat (by simp; omega), padShow_lt 2 f.mo.toNat (by simp; omega),
    padShow_lt 2 f.d.toNat (by simp; omega)] at hlen
  simp only [padW_length] at hlen
  omega

end Gms.Cal
