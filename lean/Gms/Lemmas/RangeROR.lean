/-
`RemoveOverlap` and the worklist of `RemoveOverlappingRanges`.
-/
import Gms.Lemmas.RangeN

namespace Gms.Range

theorem memAny_append (xs ys : List Range) (v : Tuple) :
    memAny (xs ++ ys) v = (memAny xs v || memAny ys v) := by
  simp [memAny, List.any_append]

theorem memAny_cons (x : Range) (xs : List Range) (v : Tuple) :
    memAny (x :: xs) v = (x.mem v || memAny xs v) := by
  simp [memAny]

theorem memAny_nil (v : Tuple) : memAny [] v = false := rfl

theorem memAny_iff (xs : List Range) (v : Tuple) : memAny xs v = true ↔ ∃ r ∈ xs, Range.mem r v = true := by
  simp [memAny]

theorem memAny_map_set (a : Range) (i : Nat) (ps : List ColRange) (v : Tuple) (hi : i < a.length) :
    memAny (ps.map (fun p => a.set i p)) v = (Range.memExcept a i v && ps.any (fun p => p.mem (v[i]?.getD none))) := by
  induction ps with
  | nil => simp [memAny]
  | cons p ps ih =>
    rw [List.map_cons, memAny_cons, ih, Range.mem_set a i p v hi, List.any_cons]
    cases Range.memExcept a i v <;> simp

theorem all2_getD {p : ColRange → ColRange → Bool} : ∀ (a b : Range) (i : Nat), Range.all2 p a b = true →
    i < a.length → i < b.length → p (a[i]?.getD default) (b[i]?.getD default) = true
  | [], _, _, _, h, _ => by simp at h
  | _ :: _, [], _, _, _, h => by simp at h
  | x :: as, y :: bs, 0, h, _, _ => by simp [Range.all2] at h; simpa using h.1
  | x :: as, y :: bs, i + 1, h, h1, h2 => by
    simp [Range.all2] at h
    simpa using all2_getD as bs i h.2 (by simpa using h1) (by simpa using h2)

theorem overlaps_length {a b : Range} (h : a.overlaps b = true) : a.length = b.length := by
  unfold Range.overlaps at h
  by_cases hl : a.length ≠ b.length
  · simp [hl] at h
  · omega

/-- `RemoveOverlap`: the pieces returned cover exactly the two ranges, and stay non-inverted. -/
theorem removeOverlap_sound : ∀ (fuel : Nat) (a b : Range) (rs : List Range) (ok : Bool),
    Range.NonInv a → Range.NonInv b → removeOverlap fuel a b = .res rs ok →
    (∀ v, memAny rs v = (a.mem v || b.mem v)) ∧ (∀ r ∈ rs, Range.NonInv r)
  | 0, _, _, _, _, _, _, h => by simp [removeOverlap] at h
  | fuel + 1, a, b, rs, ok, ha, hb, h => by
    unfold removeOverlap at h
    cases hm : a.tryMerge b with
    | err => simp [hm] at h
    | yes m =>
      simp [hm] at h
      obtain ⟨e1, _⟩ := h
      subst e1
      refine ⟨fun v => ?_, ?_⟩
      · rw [memAny_cons, memAny_nil, Range.tryMerge_sound hm v]; simp
      · intro r hr; simp at hr; subst hr; exact Range.tryMerge_nonInv ha hb hm
    | no =>
      simp only [hm] at h
      by_cases hov : a.overlaps b = true
      · simp only [hov, Bool.not_true, Bool.false_eq_true, if_false] at h
        have hl := overlaps_length hov
        cases hd : Range.diffIdx a b with
        | nil =>
          have := Range.diffIdx_nil a b hl hd
          subst this
          have : a.tryMerge a = .yes a := by
            unfold Range.tryMerge; simp [Range.isSubsetOf_self]
          rw [this] at hm; simp at hm
        | cons i rest =>
          simp only [hd] at h
          obtain ⟨ia, ib⟩ := Range.diffIdx_head_lt a b i rest hd
          have hall : Range.all2 (fun x y => (x.overlaps y).2) a b = true := by
            unfold Range.overlaps at hov; simpa [hl] using hov
          have hflag := all2_getD a b i hall ia ib
          have hai := Range.nonInv_getD ha i
          have hbi := Range.nonInv_getD hb i
          have hovn := ColRange.overlaps_nonInv hai hbi hflag
          cases hs1 : (a[i]?.getD default).subtract ((a[i]?.getD default).overlaps (b[i]?.getD default)).1 with
          | none => simp [hs1] at h
          | some s1 =>
            cases hs2 : (b[i]?.getD default).subtract ((a[i]?.getD default).overlaps (b[i]?.getD default)).1 with
            | none => simp [hs1, hs2] at h
            | some s2 =>
              simp only [hs1, hs2] at h
              cases hrec : removeOverlap fuel (a.set i ((a[i]?.getD default).overlaps (b[i]?.getD default)).1)
                  (b.set i ((a[i]?.getD default).overlaps (b[i]?.getD default)).1) with
              | fuel => simp [hrec] at h
              | err => simp [hrec] at h
              | crash => simp [hrec] at h
              | res rs' ok' =>
                simp [hrec] at h
                obtain ⟨e1, _⟩ := h
                subst e1
                obtain ⟨ih1, ih2⟩ := removeOverlap_sound fuel _ _ rs' ok'
                  (Range.nonInv_set ha hovn) (Range.nonInv_set hb hovn) hrec
                refine ⟨fun v => ?_, ?_⟩
                · rw [memAny_append, memAny_append, ih1 v, memAny_map_set a i s1 v ia, memAny_map_set b i s2 v ib,
                    ColRange.mem_subtract hovn hs1, ColRange.mem_subtract hovn hs2,
                    Range.mem_set a i _ v ia, Range.mem_set b i _ v ib, ColRange.overlaps_true hflag,
                    Range.mem_split a i v ia, Range.mem_split b i v ib]
                  cases Range.memExcept a i v <;> cases Range.memExcept b i v <;>
                    cases (a[i]?.getD default).mem (v[i]?.getD none) <;>
                    cases (b[i]?.getD default).mem (v[i]?.getD none) <;> rfl
                · intro r hr
                  rcases List.mem_append.mp hr with hr | hr
                  · obtain ⟨p, hp, e⟩ := List.mem_map.mp hr
                    rw [← e]; exact Range.nonInv_set ha (ColRange.subtract_nonInv hai hs1 p hp)
                  · rcases List.mem_append.mp hr with hr | hr
                    · obtain ⟨p, hp, e⟩ := List.mem_map.mp hr
                      rw [← e]; exact Range.nonInv_set hb (ColRange.subtract_nonInv hbi hs2 p hp)
                    · exact ih2 r hr
      · simp at hov
        simp [hov] at h
        obtain ⟨e1, _⟩ := h
        subst e1
        refine ⟨fun v => ?_, ?_⟩
        · simp [memAny]
        · intro r hr; simp at hr; rcases hr with e | e <;> subst e <;> assumption

/-- The recursion of `RemoveOverlap` ends within `len + 1` calls: with that fuel the model never
reports `fuel`, and it never panics or errors. -/
theorem removeOverlap_total : ∀ (fuel : Nat) (a b : Range), (Range.diffIdx a b).length < fuel →
    ∃ rs ok, removeOverlap fuel a b = .res rs ok
  | 0, _, _, h => by omega
  | fuel + 1, a, b, hf => by
    unfold removeOverlap
    cases hm : a.tryMerge b with
    | err => exact absurd hm (Range.tryMerge_ne_err a b)
    | yes m => exact ⟨_, _, rfl⟩
    | no =>
      simp only
      by_cases hov : a.overlaps b = true
      · simp only [hov, Bool.not_true, Bool.false_eq_true, if_false]
        cases hd : Range.diffIdx a b with
        | nil => exact ⟨_, _, rfl⟩
        | cons i rest =>
          simp only
          have s1 := ColRange.subtract_isSome (a[i]?.getD default) ((a[i]?.getD default).overlaps (b[i]?.getD default)).1
          have s2 := ColRange.subtract_isSome (b[i]?.getD default) ((a[i]?.getD default).overlaps (b[i]?.getD default)).1
          obtain ⟨x1, hx1⟩ := Option.isSome_iff_exists.mp s1
          obtain ⟨x2, hx2⟩ := Option.isSome_iff_exists.mp s2
          rw [hx1, hx2]
          simp only
          have hrest := Range.diffIdx_set a b i rest ((a[i]?.getD default).overlaps (b[i]?.getD default)).1 hd
          obtain ⟨rs', ok', hrec⟩ := removeOverlap_total fuel (a.set i _) (b.set i _)
            (by rw [hrest]; rw [hd] at hf; simp at hf; omega)
          rw [hrec]
          exact ⟨_, _, rfl⟩
      · simp at hov
        simp only [hov, Bool.not_false, if_true]
        exact ⟨_, _, rfl⟩

theorem diffIdx_length_le : ∀ (a b : Range), (Range.diffIdx a b).length ≤ a.length
  | [], _ => by simp [Range.diffIdx]
  | _ :: _, [] => by simp [Range.diffIdx]
  | x :: as, y :: bs => by
    have := diffIdx_length_le as bs
    simp only [Range.diffIdx]
    split <;> simp <;> omega

/-! ### The inner loop -/

theorem firstOverlap_hit : ∀ (rang : Range) (conns : List Range) (c : Range) (newRanges : List Range),
    firstOverlap rang conns = .hit c newRanges →
    c ∈ conns ∧ removeOverlap (removeOverlapFuel c) c rang = .res newRanges true
  | _, [], _, _, h => by simp [firstOverlap] at h
  | rang, x :: xs, c, nr, h => by
    unfold firstOverlap at h
    cases hr : removeOverlap (removeOverlapFuel x) x rang with
    | fuel => simp [hr] at h
    | err => simp [hr] at h
    | crash => simp [hr] at h
    | res rs ok =>
      cases ok with
      | true =>
        simp [hr] at h
        obtain ⟨e1, e2⟩ := h
        subst e1; subst e2
        exact ⟨by simp, hr⟩
      | false =>
        simp [hr] at h
        obtain ⟨h1, h2⟩ := firstOverlap_hit rang xs c nr h
        exact ⟨by simp [h1], h2⟩

/-! ### `GetRangeCollection` and `validateRangeCollection` -/

theorem any_isEmpty_sound : ∀ (r : Range) (v : Tuple), r.any ColRange.isEmpty = true → Range.mem r v = false
  | [], _, h => by simp at h
  | _ :: _, [], _ => rfl
  | c :: cs, x :: xs, h => by
    simp only [Range.mem]
    simp only [List.any_cons, Bool.or_eq_true] at h
    rcases h with h | h
    · rw [(ColRange.isEmpty_iff c).mp h x]; rfl
    · rw [any_isEmpty_sound cs xs h]; simp

theorem isEmpty_sound {r : Range} (h : r.isEmpty = true) (v : Tuple) (hv : v ≠ []) : Range.mem r v = false := by
  unfold Range.isEmpty at h
  cases r with
  | nil => cases v with
    | nil => exact absurd rfl hv
    | cons _ _ => rfl
  | cons c cs =>
    simp only [List.isEmpty_cons, Bool.false_or] at h
    exact any_isEmpty_sound _ v h

theorem collectStep_sound (coll : List Range) (e : Range) (rang : Range) (coll' : List Range) (e' : Range)
    (hc : Range.NonInv rang) (hn : ∀ r ∈ coll, Range.NonInv r)
    (h : collectStep (some (coll, e)) rang = some (coll', e')) :
    (∀ v, v ≠ [] → memAny coll' v = (memAny coll v || Range.mem rang v)) ∧ (∀ r ∈ coll', Range.NonInv r) := by
  unfold collectStep at h
  simp only at h
  by_cases he : rang.isEmpty = true
  · simp [he] at h
    obtain ⟨e1, _⟩ := h
    subst e1
    exact ⟨fun v hv => by rw [isEmpty_sound he v hv]; simp, hn⟩
  · simp at he
    simp only [he, Bool.not_false, if_true] at h
    cases hl : coll.getLast? with
    | none =>
      simp [hl] at h
      obtain ⟨e1, _⟩ := h
      subst e1
      have : coll = [] := by simpa using hl
      subst this
      exact ⟨fun v _ => by simp [memAny], fun r hr => by simp at hr; subst hr; exact hc⟩
    | some last =>
      simp only [hl] at h
      obtain ⟨ys, hys⟩ := List.getLast?_eq_some_iff.mp hl
      have hdl : coll.dropLast = ys := by rw [hys]; simp
      have hsplit : coll = coll.dropLast ++ [last] := by rw [hdl]; exact hys
      have hlast : Range.NonInv last := hn last (by rw [hsplit]; simp)
      cases hm : last.tryMerge rang with
      | err => simp [hm] at h
      | no =>
        simp [hm] at h
        obtain ⟨e1, _⟩ := h
        subst e1
        refine ⟨fun v _ => by rw [memAny_append]; simp [memAny], ?_⟩
        intro r hr
        simp at hr
        rcases hr with hr | hr
        · exact hn r hr
        · subst hr; exact hc
      | yes m =>
        simp [hm] at h
        obtain ⟨e1, _⟩ := h
        subst e1
        refine ⟨fun v _ => ?_, ?_⟩
        · rw [memAny_append, memAny_cons, memAny_nil, Range.tryMerge_sound hm v]
          conv => rhs; rw [hsplit, memAny_append, memAny_cons, memAny_nil]
          cases memAny coll.dropLast v <;> cases Range.mem last v <;> cases Range.mem rang v <;> rfl
        · intro r hr
          simp at hr
          rcases hr with hr | hr
          · exact hn r (List.dropLast_subset coll hr)
          · subst hr; exact Range.tryMerge_nonInv hlast hc hm

theorem collect_fold_sound : ∀ (stored : List Range) (coll : List Range) (e : Range) (coll' : List Range) (e' : Range),
    (∀ r ∈ stored, Range.NonInv r) → (∀ r ∈ coll, Range.NonInv r) →
    stored.foldl collectStep (some (coll, e)) = some (coll', e') →
    (∀ v, v ≠ [] → memAny coll' v = (memAny coll v || memAny stored v))
  | [], coll, e, coll', e', _, _, h => by
    simp at h
    obtain ⟨e1, _⟩ := h
    subst e1
    intro v _; simp [memAny]
  | rang :: rest, coll, e, coll', e', hs, hc, h => by
    simp only [List.foldl_cons] at h
    cases hstep : collectStep (some (coll, e)) rang with
    | none =>
      rw [hstep] at h
      have : ∀ (l : List Range), l.foldl collectStep none = none := by
        intro l; induction l with
        | nil => rfl
        | cons x xs ih => simpa [collectStep] using ih
      rw [this] at h; simp at h
    | some p =>
      obtain ⟨c1, e1⟩ := p
      rw [hstep] at h
      obtain ⟨s1, s2⟩ := collectStep_sound coll e rang c1 e1 (hs rang (by simp)) hc hstep
      have ih := collect_fold_sound rest c1 e1 coll' e' (fun r hr => hs r (by simp [hr])) s2 h
      intro v hv
      rw [ih v hv, s1 v hv, memAny_cons]
      cases memAny coll v <;> cases Range.mem rang v <;> cases memAny rest v <;> rfl

/-- The `emptyRange` slot of `GetRangeCollection` only ever holds ranges without members. -/
theorem collect_fold_empty : ∀ (stored : List Range) (coll : List Range) (e : Range) (coll' : List Range) (e' : Range),
    (∀ v : Tuple, v ≠ [] → Range.mem e v = false) →
    stored.foldl collectStep (some (coll, e)) = some (coll', e') →
    ∀ v : Tuple, v ≠ [] → Range.mem e' v = false
  | [], coll, e, coll', e', he, h => by
    simp at h
    obtain ⟨_, e2⟩ := h
    subst e2; exact he
  | rang :: rest, coll, e, coll', e', he, h => by
    simp only [List.foldl_cons] at h
    cases hstep : collectStep (some (coll, e)) rang with
    | none =>
      rw [hstep] at h
      have : ∀ (l : List Range), l.foldl collectStep none = none := by
        intro l; induction l with
        | nil => rfl
        | cons x xs ih => simpa [collectStep] using ih
      rw [this] at h; simp at h
    | some p =>
      obtain ⟨c1, e1⟩ := p
      rw [hstep] at h
      refine collect_fold_empty rest c1 e1 coll' e' ?_ h
      unfold collectStep at hstep
      simp only at hstep
      by_cases hem : rang.isEmpty = true
      · simp [hem] at hstep
        obtain ⟨_, e2⟩ := hstep
        subst e2
        exact fun v hv => isEmpty_sound hem v hv
      · simp at hem
        simp only [hem, Bool.not_false, if_true] at hstep
        cases hl : coll.getLast? with
        | none => simp [hl] at hstep; obtain ⟨_, e2⟩ := hstep; subst e2; exact he
        | some last =>
          simp only [hl] at hstep
          cases hm : last.tryMerge rang with
          | err => simp [hm] at hstep
          | no => simp [hm] at hstep; obtain ⟨_, e2⟩ := hstep; subst e2; exact he
          | yes m => simp [hm] at hstep; obtain ⟨_, e2⟩ := hstep; subst e2; exact he

/-- `GetRangeCollection` keeps the members (on key tuples with at least one column). -/
theorem getRangeCollection_sound (stored coll : List Range) (hs : ∀ r ∈ stored, Range.NonInv r)
    (h : getRangeCollection stored = some coll) (v : Tuple) (hv : v ≠ []) :
    memAny coll v = memAny stored v := by
  unfold getRangeCollection at h
  cases hf : stored.foldl collectStep (some ([], [])) with
  | none => simp [hf] at h
  | some p =>
    obtain ⟨c1, e1⟩ := p
    simp only [hf] at h
    have key := collect_fold_sound stored [] [] c1 e1 hs (by simp) hf v hv
    by_cases hc : c1.isEmpty = true
    · simp [hc] at h
      subst h
      have : c1 = [] := by simpa using hc
      subst this
      -- every stored range was empty: the result is one of them (or the zero value)
      have hk : memAny stored v = false := by simpa [memAny] using key.symm
      rw [hk, memAny_cons, memAny_nil, Bool.or_false]
      exact collect_fold_empty stored [] [] [] e1 (by intro _; cases v <;> simp_all [Range.mem]) hf v hv
    · simp [hc] at h
      subst h
      simpa [memAny] using key

theorem validate_sound : ∀ (coll : List Range), validate coll = true →
    List.Pairwise (fun r s => ∀ v, (Range.mem r v && Range.mem s v) = false) coll
  | [], _ => List.Pairwise.nil
  | r :: rs, h => by
    simp [validate] at h
    refine List.Pairwise.cons ?_ (validate_sound rs h.2)
    intro s hs v
    exact Range.overlaps_false (h.1 s hs) v

end Gms.Range
