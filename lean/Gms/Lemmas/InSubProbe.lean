/-
Lemmas for C02: the Impl model of `InSubquery.Eval` (`Gms.InSubProbe.probe`: hash probe, then the
probe for the NULL key) computes the SQL definition of `IN` (`Gms.Sql.inTri`: the three-valued
disjunction of the equalities) for every left value and every result set.
-/
import Gms.Model.InSubProbe
import Gms.Lemmas.Rel

namespace Gms.InSubProbe
open Gms.Sql

theorem bytesCmp_eq_iff : ∀ a b : List UInt8, bytesCmp a b = .eq ↔ a = b
  | [], [] => by simp [bytesCmp]
  | [], _ :: _ => by simp [bytesCmp]
  | _ :: _, [] => by simp [bytesCmp]
  | x :: xs, y :: ys => by
    unfold bytesCmp
    by_cases h1 : x < y
    · have : x ≠ y := fun e => by subst e; exact UInt8.lt_irrefl x h1
      simp [h1, this]
    · by_cases h2 : y < x
      · have : x ≠ y := fun e => by subst e; exact UInt8.lt_irrefl x h2
        simp [h1, h2, this]
      · have hxy : x = y := by
          have h1' : y ≤ x := UInt8.not_lt.mp h1
          have h2' : x ≤ y := UInt8.not_lt.mp h2
          exact UInt8.le_antisymm h2' h1'
        simp [hxy, bytesCmp_eq_iff xs ys]

/-- `Compare(left, val) == 0` holds exactly for equal non-NULL values. -/
theorem cmp?_eq_iff (x w : Value) (hx : x ≠ .null) : x.cmp? w = some .eq ↔ w = x := by
  cases x with
  | null => exact absurd rfl hx
  | int a =>
    cases w with
    | null => simp [Value.cmp?]
    | int b =>
      simp only [Value.cmp?, Option.some.injEq, Value.int.injEq]
      rw [Int.compare_eq_eq]; exact eq_comm
    | str b => simp [Value.cmp?]
  | str a =>
    cases w with
    | null => simp [Value.cmp?]
    | int b => simp [Value.cmp?]
    | str b =>
      simp only [Value.cmp?, Option.some.injEq, Value.str.injEq]
      rw [bytesCmp_eq_iff]; exact eq_comm

theorem cmp?_eq_none_iff (x w : Value) (hx : x ≠ .null) : x.cmp? w = none ↔ w = .null := by
  cases x <;> cases w <;> simp_all [Value.cmp?]

theorem cmpTri_eq_t_iff (x w : Value) (hx : x ≠ .null) : cmpTri .eq x w = .t ↔ w = x := by
  rw [← cmp?_eq_iff x w hx]
  unfold cmpTri
  cases h : x.cmp? w with
  | none => simp
  | some o => cases o <;> simp [CmpOp.holds, Tri.ofBool]

theorem cmpTri_eq_u_iff (x w : Value) (hx : x ≠ .null) : cmpTri .eq x w = .u ↔ w = .null := by
  rw [← cmp?_eq_none_iff x w hx]
  unfold cmpTri
  cases h : x.cmp? w with
  | none => simp
  | some o => cases o <;> simp [CmpOp.holds, Tri.ofBool]

theorem or_t_left (b : Tri) : Tri.or .t b = .t := by cases b <;> rfl
theorem or_f_left (b : Tri) : Tri.or .f b = b := by cases b <;> rfl
theorem or_u_left (b : Tri) : Tri.or .u b = if b = .t then .t else .u := by cases b <;> rfl

/-- The SQL definition of `x IN ws` for a non-NULL `x`, in closed form. -/
theorem inTri_nonnull (x : Value) (hx : x ≠ .null) (ws : List Value) :
    inTri x ws = if x ∈ ws then .t else if Value.null ∈ ws then .u else .f := by
  induction ws with
  | nil => simp [inTri]
  | cons w ws ih =>
    rw [inTri, ih]
    by_cases h1 : w = x
    · rw [(cmpTri_eq_t_iff x w hx).mpr h1, or_t_left]
      simp [h1]
    · have h1' : ¬ x = w := fun e => h1 e.symm
      by_cases h2 : w = .null
      · rw [(cmpTri_eq_u_iff x w hx).mpr h2, or_u_left]
        subst h2
        by_cases h3 : x ∈ ws <;> by_cases h4 : Value.null ∈ ws <;> simp [h1', h3, h4]
      · have ht : cmpTri .eq x w ≠ .t := fun h => h1 ((cmpTri_eq_t_iff x w hx).mp h)
        have hu : cmpTri .eq x w ≠ .u := fun h => h2 ((cmpTri_eq_u_iff x w hx).mp h)
        have hf : cmpTri .eq x w = .f := by
          cases h : cmpTri .eq x w <;> simp_all
        have h2' : ¬ Value.null = w := fun e => h2 e.symm
        rw [hf, or_f_left]
        simp [h1', h2']

/-- … and for a NULL on the left: FALSE over the empty set, NULL otherwise. -/
theorem inTri_null (ws : List Value) : inTri .null ws = if ws.isEmpty then .f else .u := by
  induction ws with
  | nil => simp [inTri]
  | cons w ws ih =>
    rw [inTri, ih, cmpTri_null_left .eq (by decide), or_u_left]
    cases ws <;> simp

/-- **The hash probe of `InSubquery.Eval` computes `IN`**: for every left value and result set. -/
theorem probe_eq_inTri (x : Value) (ws : List Value) : probe x ws = (inTri x ws).toValue := by
  unfold probe
  by_cases hx : x = .null
  · subst hx
    rw [inTri_null]
    cases ws <;> simp [Value.isNull, Tri.toValue]
  · have hn : x.isNull = false := by cases x <;> simp_all [Value.isNull]
    rw [inTri_nonnull x hx, hn]
    simp only [Bool.false_eq_true, if_false]
    cases hf : ws.find? (fun w => decide (w = x)) with
    | some w =>
      have hw := List.find?_some hf
      have hmem := List.mem_of_find?_eq_some hf
      simp only [decide_eq_true_eq] at hw
      subst hw
      have : w.cmp? w = some .eq := (cmp?_eq_iff w w hx).mpr rfl
      simp [hmem, this, Tri.ofBool]
    | none =>
      have hnot : x ∉ ws := by
        intro hm
        have := List.find?_eq_none.mp hf x hm
        simp at this
      have hany : ws.any Value.isNull = decide (Value.null ∈ ws) := by
        rw [Bool.eq_iff_iff]
        simp only [List.any_eq_true, decide_eq_true_eq]
        constructor
        · rintro ⟨v, hv, hvn⟩
          cases v <;> simp_all [Value.isNull]
        · intro h; exact ⟨.null, h, rfl⟩
      simp only [hnot, if_false, hany]
      by_cases h : Value.null ∈ ws <;> simp [h, Tri.toValue]

end Gms.InSubProbe
