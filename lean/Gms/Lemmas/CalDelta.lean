/-
C31 — lemmas about `TimeDelta.apply` (model `applyDelta`) and the diff functions.
-/
import Gms.Lemmas.Cal

namespace Gms.Cal

theorem dim_bounds (y m : Int) : 28 ≤ dim y m ∧ dim y m ≤ 31 := by
  unfold dim
  split
  · split <;> omega
  · split <;> omega

theorem dim_ne_feb (y y' m : Int) (h : m ≠ 2) : dim y m = dim y' m := by
  simp [dim, h]

theorem dim_feb (y : Int) : dim y 2 = if isLeap y then 29 else 28 := by
  simp [dim]

theorem goDate_month_ok (f : Fields) (h1 : 1 ≤ f.mo) (h2 : f.mo ≤ 12) :
    goDate f = (dfc f.y f.mo 1 + (f.d - 1)) * nsDay + f.h * nsHour + f.mi * nsMin + f.s * nsSec + f.ns := by
  have e1 : (f.mo - 1) / 12 = 0 := by omega
  have e2 : (f.mo - 1) % 12 + 1 = f.mo := by omega
  simp only [goDate, e1, e2, Int.add_zero]

/-- Go: `AddDate(0, 0, n)` moves the instant by exactly `n` days. -/
theorem addDays_eq (t n : Int) : addDays t n = t + n * nsDay := by
  have hv := fieldsOf_valid t
  have hg := goDate_fieldsOf t
  rw [goDate_month_ok _ hv.1 hv.2.1] at hg
  have hg2 := goDate_month_ok { fieldsOf t with d := (fieldsOf t).d + n } hv.1 hv.2.1
  simp only [addDays]
  rw [hg2]
  simp only [nsDay, nsHour, nsMin, nsSec] at *
  omega

/-- day of month after the year step -/
def yearsDay (td : Delta) (sign : Int) (f : Fields) : Int :=
  if f.mo = 2 ∧ f.d = 29 ∧ ¬ isLeap (f.y + td.years * sign) then 28 else f.d

theorem feb29_leap (f : Fields) (h : validFields f) (hm : f.mo = 2) (hd : f.d = 29) : isLeap f.y = true := by
  have h4 := h.2.2.2.1
  rw [hm, dim_feb] at h4
  by_cases hl : isLeap f.y = true
  · exact hl
  · simp [hl] at h4; omega

theorem applyYears_eq (td : Delta) (sign t : Int) :
    applyYears td sign t =
      goDate { fieldsOf t with y := (fieldsOf t).y + td.years * sign, d := yearsDay td sign (fieldsOf t) } := by
  have hv := fieldsOf_valid t
  unfold applyYears yearsDay
  by_cases hy : td.years = 0
  · simp only [hy, ne_eq, not_true_eq_false, if_false, Int.zero_mul, Int.add_zero]
    have : ¬ ((fieldsOf t).mo = 2 ∧ (fieldsOf t).d = 29 ∧ ¬ isLeap (fieldsOf t).y = true) := by
      intro ⟨a, b, c⟩; exact c (feb29_leap _ hv a b)
    simp only [this, if_false]
    exact (goDate_fieldsOf t).symm
  · simp only [hy, ne_eq, not_false_eq_true, if_true]
    split
    · rename_i h; simp only [h.1]
    · rfl

theorem yearsStep_valid (td : Delta) (sign : Int) (f : Fields) (h : validFields f) :
    validFields { f with y := f.y + td.years * sign, d := yearsDay td sign f } := by
  obtain ⟨h1, h2, h3, h4, rest⟩ := h
  refine ⟨h1, h2, ?_, ?_, rest⟩
  · show 1 ≤ yearsDay td sign f
    unfold yearsDay; split <;> omega
  · show yearsDay td sign f ≤ dim (f.y + td.years * sign) f.mo
    unfold yearsDay
    by_cases hm : f.mo = 2
    · simp only [hm, true_and]
      rw [hm] at h4
      rw [dim_feb] at h4 ⊢
      by_cases hd : f.d = 29
      · by_cases hl : isLeap (f.y + td.years * sign) = true <;> simp [hd, hl]
      · have : f.d ≤ 28 := by
          by_cases hl : isLeap f.y = true <;> simp [hl] at h4 <;> omega
        simp only [hd, false_and, if_false]
        by_cases hl : isLeap (f.y + td.years * sign) = true <;> simp [hl] <;> omega
    · simp only [hm, false_and, if_false]
      rw [← dim_ne_feb f.y _ f.mo hm]; exact h4

def clampDay (d y m : Int) : Int := if d > dim y m then dim y m else d

theorem applyMonths_eq (td : Delta) (sign t : Int) :
    applyMonths td sign t =
      goDate { fieldsOf t with
        y := (fieldsOf t).y + ((fieldsOf t).mo - 1 + td.months * sign) / 12,
        mo := ((fieldsOf t).mo - 1 + td.months * sign) % 12 + 1,
        d := clampDay (fieldsOf t).d ((fieldsOf t).y + ((fieldsOf t).mo - 1 + td.months * sign) / 12)
               (((fieldsOf t).mo - 1 + td.months * sign) % 12 + 1) } := by
  have hv := fieldsOf_valid t
  unfold applyMonths clampDay
  by_cases hm : td.months = 0
  · obtain ⟨h1, h2, h3, h4, _⟩ := hv
    have e1 : ((fieldsOf t).mo - 1 + 0 * sign) / 12 = 0 := by omega
    have e2 : ((fieldsOf t).mo - 1 + 0 * sign) % 12 + 1 = (fieldsOf t).mo := by omega
    have e3 : ¬ ((fieldsOf t).d > dim (fieldsOf t).y (fieldsOf t).mo) := by omega
    simp only [hm, ne_eq, not_true_eq_false, if_false, e1, e2, Int.add_zero, e3]
    exact (goDate_fieldsOf t).symm
  · simp only [hm, ne_eq, not_false_eq_true, if_true]

theorem applyDays_eq (td : Delta) (sign t : Int) : applyDays td sign t = t + td.days * sign * nsDay := by
  unfold applyDays
  by_cases hd : td.days = 0
  · simp [hd]
  · simp only [hd, ne_eq, not_false_eq_true, if_true, addDays_eq]

theorem monthsStep_valid (f : Fields) (h : validFields f) (y m : Int) (h1 : 1 ≤ m) (h2 : m ≤ 12) :
    validFields { f with y := y, mo := m, d := clampDay f.d y m } := by
  obtain ⟨_, _, h3, h4, rest⟩ := h
  have hb := dim_bounds y m
  refine ⟨h1, h2, ?_, ?_, rest⟩
  · show 1 ≤ clampDay f.d y m
    unfold clampDay; split <;> omega
  · show clampDay f.d y m ≤ dim y m
    unfold clampDay; split <;> omega

/-- `applyDelta` = `specDelta` outside the region. -/
theorem applyDelta_eq_spec (td : Delta) (sign t : Int) (hs : sign = 1 ∨ sign = -1)
    (hr : intermediateFeb29 td sign t = false) : applyDelta td sign t = specDelta td sign t := by
  have hv := fieldsOf_valid t
  unfold applyDelta specDelta
  simp only
  rw [applyDays_eq, applyMonths_eq, applyYears_eq]
  rw [fieldsOf_goDate _ (yearsStep_valid td sign _ hv)]
  simp only
  -- year / month of the target agree
  have ey : (fieldsOf t).y + td.years * sign + ((fieldsOf t).mo - 1 + td.months * sign) / 12
      = (12 * (fieldsOf t).y + ((fieldsOf t).mo - 1) + sign * (12 * td.years + td.months)) / 12 := by
    rcases hs with rfl | rfl <;> omega
  have em : ((fieldsOf t).mo - 1 + td.months * sign) % 12
      = (12 * (fieldsOf t).y + ((fieldsOf t).mo - 1) + sign * (12 * td.years + td.months)) % 12 := by
    rcases hs with rfl | rfl <;> omega
  rw [ey, em]
  generalize (12 * (fieldsOf t).y + ((fieldsOf t).mo - 1) + sign * (12 * td.years + td.months)) / 12 = Y at *
  generalize hM : (12 * (fieldsOf t).y + ((fieldsOf t).mo - 1) + sign * (12 * td.years + td.months)) % 12 + 1 = M at *
  -- the day
  have ed : clampDay (yearsDay td sign (fieldsOf t)) Y M = (if (fieldsOf t).d > dim Y M then dim Y M else (fieldsOf t).d) := by
    unfold yearsDay
    by_cases hf : (fieldsOf t).mo = 2 ∧ (fieldsOf t).d = 29 ∧ ¬ isLeap ((fieldsOf t).y + td.years * sign) = true
    · rw [if_pos hf]
      obtain ⟨hm2, hd29, hnl⟩ := hf
      have hnl' : isLeap ((fieldsOf t).y + td.years * sign) = false := by simpa using hnl
      have hy0 : td.years ≠ 0 := by
        intro h0
        rw [h0, Int.zero_mul, Int.add_zero, feb29_leap _ hv hm2 hd29] at hnl'
        exact absurd hnl' (by decide)
      have hm0 : td.months = 0 := by
        by_cases h : td.months = 0
        · exact h
        · exfalso
          have : intermediateFeb29 td sign t = true := by
            simp only [intermediateFeb29, hm2, hd29, hnl', decide_eq_true_eq]
            exact ⟨hy0, h, trivial, trivial, by decide⟩
          rw [this] at hr; exact absurd hr (by decide)
      have hM2 : M = 2 := by rw [← hM, ← em, hm0, hm2]; omega
      have hY : Y = (fieldsOf t).y + td.years * sign := by rw [← ey, hm0, hm2]; omega
      rw [hM2, hY, hd29]
      unfold clampDay
      rw [dim_feb, hnl']
      decide
    · rw [if_neg hf]; rfl
  rw [ed]

end Gms.Cal
