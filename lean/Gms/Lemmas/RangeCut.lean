/-
Lemmas about cuts and column ranges (M4 `Range`): the Go comparison of cuts is the inclusion order
of the up-sets of points, and every column-range operation denotes the set operation it is named
after. Used by Props/C46 and Props/C03.
-/
import Gms.Model.Range

namespace Gms.Range
namespace Cut

theorem compare_range (a b : Cut) : a.compare b = -1 ∨ a.compare b = 0 ∨ a.compare b = 1 := by
  cases a <;> cases b <;> simp [compare, cmpKey] <;> (repeat' split) <;> (first | omega | simp_all)

theorem compare_antisymm (a b : Cut) : a.compare b = -(b.compare a) := by
  cases a <;> cases b <;> simp [compare, cmpKey] <;> (repeat' split) <;> (first | omega | simp_all)

theorem compare_eq_zero_iff (a b : Cut) : a.compare b = 0 ↔ a = b := by
  cases a <;> cases b <;> simp [compare, cmpKey] <;> (repeat' split) <;> (first | omega | simp_all)

theorem compare_self (a : Cut) : a.compare a = 0 := (compare_eq_zero_iff a a).mpr rfl

/-- `a ≤ b` in the Go order ⇒ every point above `b` is above `a`. -/
theorem le_sound (a b : Cut) (h : a.compare b ≤ 0) (v : Option Int) (hb : b.isBelow v = true) :
    a.isBelow v = true := by
  cases a <;> cases b <;> cases v <;> simp [compare, cmpKey, isBelow] at * <;>
    (try (repeat' split at h)) <;> (first | omega | simp_all)

/-- `a < b` in the Go order ⇒ some point lies above `a` and not above `b` (the order of points is
as fine as the order of cuts). -/
theorem lt_witness : ∀ (a b : Cut), a.compare b < 0 → ∃ v, a.isBelow v = true ∧ b.isBelow v = false
  | .belowNull, .belowNull, h => by simp [compare] at h
  | .belowNull, .aboveNull, _ => ⟨none, by simp [isBelow]⟩
  | .belowNull, .below _, _ => ⟨none, by simp [isBelow]⟩
  | .belowNull, .above _, _ => ⟨none, by simp [isBelow]⟩
  | .belowNull, .aboveAll, _ => ⟨none, by simp [isBelow]⟩
  | .aboveNull, .belowNull, h => by simp [compare] at h
  | .aboveNull, .aboveNull, h => by simp [compare] at h
  | .aboveNull, .below k, _ => ⟨some (2 * k - 1), by simp [isBelow]; omega⟩
  | .aboveNull, .above k, _ => ⟨some (2 * k), by simp [isBelow]⟩
  | .aboveNull, .aboveAll, _ => ⟨some 0, by simp [isBelow]⟩
  | .below _, .belowNull, h => by simp [compare] at h
  | .below _, .aboveNull, h => by simp [compare] at h
  | .below j, .below k, h => ⟨some (2 * j), by
      simp [compare, cmpKey] at h; simp [isBelow]; (repeat' split at h) <;> omega⟩
  | .below j, .above k, h => ⟨some (2 * j), by
      simp [compare, cmpKey] at h; simp [isBelow]; (repeat' split at h) <;> omega⟩
  | .below j, .aboveAll, _ => ⟨some (2 * j), by simp [isBelow]⟩
  | .above _, .belowNull, h => by simp [compare] at h
  | .above _, .aboveNull, h => by simp [compare] at h
  | .above j, .below k, h => ⟨some (2 * j + 1), by
      simp [compare, cmpKey] at h; simp [isBelow]; (repeat' split at h) <;> omega⟩
  | .above j, .above k, h => ⟨some (2 * j + 1), by
      simp [compare, cmpKey] at h; simp [isBelow]; (repeat' split at h) <;> omega⟩
  | .above j, .aboveAll, _ => ⟨some (2 * j + 1), by simp [isBelow]; omega⟩
  | .aboveAll, .belowNull, h => by simp [compare] at h
  | .aboveAll, .aboveNull, h => by simp [compare] at h
  | .aboveAll, .below _, h => by simp [compare] at h
  | .aboveAll, .above _, h => by simp [compare] at h
  | .aboveAll, .aboveAll, h => by simp [compare] at h

theorem le_iff (a b : Cut) :
    a.compare b ≤ 0 ↔ ∀ v, b.isBelow v = true → a.isBelow v = true := by
  constructor
  · exact fun h v hb => le_sound a b h v hb
  · intro h
    rcases compare_range a b with c | c | c
    · omega
    · omega
    · have h' : b.compare a < 0 := by rw [compare_antisymm]; omega
      obtain ⟨v, hv1, hv2⟩ := lt_witness b a h'
      rw [h v hv1] at hv2; simp at hv2

theorem lt_iff (a b : Cut) :
    a.compare b < 0 ↔ ∃ v, a.isBelow v = true ∧ b.isBelow v = false := by
  constructor
  · exact lt_witness a b
  · intro ⟨v, h1, h2⟩
    rcases compare_range a b with c | c | c
    · omega
    · rw [(compare_eq_zero_iff a b).mp c] at h1; rw [h1] at h2; simp at h2
    · have h' : b.compare a ≤ 0 := by rw [compare_antisymm]; omega
      rw [le_sound b a h' v h1] at h2; simp at h2

theorem le_trans {a b c : Cut} (h1 : a.compare b ≤ 0) (h2 : b.compare c ≤ 0) : a.compare c ≤ 0 :=
  (le_iff a c).mpr fun v hv => le_sound a b h1 v (le_sound b c h2 v hv)

theorem lt_of_lt_of_le {a b c : Cut} (h1 : a.compare b < 0) (h2 : b.compare c ≤ 0) : a.compare c < 0 := by
  obtain ⟨v, hv1, hv2⟩ := lt_witness a b h1
  refine (lt_iff a c).mpr ⟨v, hv1, ?_⟩
  cases hc : c.isBelow v with
  | false => rfl
  | true => rw [le_sound b c h2 v hc] at hv2; simp at hv2

theorem lt_of_le_of_lt {a b c : Cut} (h1 : a.compare b ≤ 0) (h2 : b.compare c < 0) : a.compare c < 0 := by
  obtain ⟨v, hv1, hv2⟩ := lt_witness b c h2
  exact (lt_iff a c).mpr ⟨v, le_sound a b h1 v hv1, hv2⟩

theorem le_total (a b : Cut) : a.compare b ≤ 0 ∨ b.compare a ≤ 0 := by
  have := compare_antisymm a b
  rcases compare_range a b with c | c | c <;> omega

/-- NULL is its own lowest point: only `belowNull` lies below it, and `belowNull` is the least cut. -/
theorem isBelow_none (c : Cut) : c.isBelow none = true ↔ c = .belowNull := by
  cases c <;> simp [isBelow]

theorem belowNull_le (c : Cut) : Cut.belowNull.compare c ≤ 0 := by
  cases c <;> simp [compare]

theorem le_aboveAll (c : Cut) : c.compare .aboveAll ≤ 0 := by
  cases c <;> simp [compare]

theorem isBelow_keyPt_below (k x : Int) : (Cut.below k).isBelow (keyPt x) = decide (k ≤ x) := by
  simp [isBelow, keyPt]

theorem isBelow_keyPt_above (k x : Int) : (Cut.above k).isBelow (keyPt x) = decide (k < x) := by
  simp [isBelow, keyPt]

end Cut

/-! ### max / min / ordered pair of cuts -/

theorem isBelow_cutMax (a b : Cut) (v : Option Int) :
    (cutMax a b).isBelow v = (a.isBelow v && b.isBelow v) := by
  unfold cutMax
  by_cases h : a.compare b = -1
  · simp only [h, if_true]
    cases hb : b.isBelow v with
    | false => simp
    | true => rw [Cut.le_sound a b (by omega) v hb]; rfl
  · simp only [h, if_false]
    have h' : b.compare a ≤ 0 := by
      have := Cut.compare_antisymm a b
      rcases Cut.compare_range a b with c | c | c <;> omega
    cases ha : a.isBelow v with
    | false => simp
    | true => rw [Cut.le_sound b a h' v ha]; rfl

theorem isBelow_cutMin (a b : Cut) (v : Option Int) :
    (cutMin a b).isBelow v = (a.isBelow v || b.isBelow v) := by
  unfold cutMin
  by_cases h : a.compare b = 1
  · simp only [h, if_true]
    have h' : b.compare a ≤ 0 := by have := Cut.compare_antisymm a b; omega
    cases ha : a.isBelow v with
    | false => simp
    | true => rw [Cut.le_sound b a h' v ha]; rfl
  · simp only [h, if_false]
    have h' : a.compare b ≤ 0 := by
      rcases Cut.compare_range a b with c | c | c <;> omega
    cases hb : b.isBelow v with
    | false => simp
    | true => rw [Cut.le_sound a b h' v hb]; rfl

theorem isBelow_ordered_fst (a b : Cut) (v : Option Int) :
    (orderedCuts a b).1.isBelow v = (a.isBelow v || b.isBelow v) := by
  unfold orderedCuts
  by_cases h : a.compare b ≤ 0
  · simp only [h, if_true]
    cases hb : b.isBelow v with
    | false => simp
    | true => rw [Cut.le_sound a b h v hb]; rfl
  · simp only [h, if_false]
    have h' : b.compare a ≤ 0 := by have := Cut.compare_antisymm a b; omega
    cases ha : a.isBelow v with
    | false => simp
    | true => rw [Cut.le_sound b a h' v ha]; rfl

theorem isBelow_ordered_snd (a b : Cut) (v : Option Int) :
    (orderedCuts a b).2.isBelow v = (a.isBelow v && b.isBelow v) := by
  unfold orderedCuts
  by_cases h : a.compare b ≤ 0
  · simp only [h, if_true]
    cases hb : b.isBelow v with
    | false => simp
    | true => rw [Cut.le_sound a b h v hb]; rfl
  · simp only [h, if_false]
    have h' : b.compare a ≤ 0 := by have := Cut.compare_antisymm a b; omega
    cases ha : a.isBelow v with
    | false => simp
    | true => rw [Cut.le_sound b a h' v ha]; rfl

end Gms.Range
