/-
Lemmas about `roundHalfAway` / `roundToScale` (Gms/Model/NumConv.lean): explicit quotient form,
symmetry, and "rounding never crosses an integer bound" (C27, C26).
-/
import Gms.Model.NumConv
import Gms.Lemmas.NumConv
namespace Gms.Conv
open Gms.Num

theorem rha_nonneg_eq (c : Int) (s : Nat) (h : 0 ≤ c) :
    roundHalfAway c s = (2 * c + 10 ^ s) / (2 * 10 ^ s) := by
  unfold roundHalfAway
  have hn : ¬ c < 0 := by omega
  simp only [hn, if_false]
  have : (c.natAbs : Int) = c := by omega
  push_cast
  rw [this]

theorem rha_neg_eq (c : Int) (s : Nat) (h : c < 0) :
    roundHalfAway c s = -((2 * (-c) + 10 ^ s) / (2 * 10 ^ s)) := by
  unfold roundHalfAway
  simp only [h, if_true]
  have : (c.natAbs : Int) = -c := by omega
  push_cast
  rw [this]

/-- rounding never crosses an integer bound: `c / 10^s ≤ B → round ≤ B` -/
theorem rha_le_of_le (c : Int) (s : Nat) (B : Int) (h : c ≤ B * 10 ^ s) : roundHalfAway c s ≤ B := by
  have hp := pow10_pos s
  generalize hP : (10 : Int) ^ s = p at *
  by_cases hc : 0 ≤ c
  · rw [rha_nonneg_eq c s hc, hP]
    have e : (B + 1) * (2 * p) = 2 * (B * p) + 2 * p := by grind
    have : (2 * c + p) / (2 * p) < B + 1 := by
      apply Int.ediv_lt_of_lt_mul (by omega)
      rw [e]; omega
    omega
  · have hc' : c < 0 := by omega
    rw [rha_neg_eq c s hc', hP]
    by_cases hB : 0 ≤ B
    · have : 0 ≤ (2 * (-c) + p) / (2 * p) := Int.ediv_nonneg (by omega) (by omega)
      omega
    · have e : (-B) * (2 * p) = -(2 * (B * p)) := by grind
      have : -B ≤ (2 * (-c) + p) / (2 * p) := by
        apply Int.le_ediv_of_mul_le (by omega)
        rw [e]; omega
      omega

theorem rha_neg (c : Int) (s : Nat) : roundHalfAway (-c) s = -roundHalfAway c s := by
  have hp := pow10_pos s
  by_cases h0 : c = 0
  · subst h0
    rw [Int.neg_zero, rha_nonneg_eq 0 s (by omega)]
    have : (2 * 0 + (10:Int) ^ s) / (2 * 10 ^ s) = 0 := by
      apply Int.ediv_eq_zero_of_lt <;> omega
    omega
  · by_cases hc : 0 < c
    · rw [rha_neg_eq (-c) s (by omega), rha_nonneg_eq c s (by omega)]; simp
    · rw [rha_nonneg_eq (-c) s (by omega), rha_neg_eq c s (by omega)]; simp

theorem rha_ge_of_ge (c : Int) (s : Nat) (B : Int) (h : B * 10 ^ s ≤ c) : B ≤ roundHalfAway c s := by
  have e : (-B) * 10 ^ s = -(B * 10 ^ s) := by grind
  have := rha_le_of_le (-c) s (-B) (by rw [e]; omega)
  rw [rha_neg] at this
  omega

theorem rha_exact (k : Int) (s : Nat) : roundHalfAway (k * 10 ^ s) s = k := by
  have h1 := rha_le_of_le (k * 10 ^ s) s k (Int.le_refl _)
  have h2 := rha_ge_of_ge (k * 10 ^ s) s k (Int.le_refl _)
  omega

theorem rha_scale_zero (c : Int) : roundHalfAway c 0 = c := by
  have := rha_exact c 0
  simpa using this

theorem target_int (c : Int) (s : Nat) : roundToScale c s 0 = roundHalfAway c s := by
  unfold roundToScale
  by_cases h : s ≤ 0
  · have : s = 0 := by omega
    subst this; simp [rha_scale_zero]
  · simp [h]
end Gms.Conv
