/-
C27: "exact, or rejected" for DECIMAL(p,s); "exact, or rejected" for YEAR and BIT(n).
-/
import Gms.Lemmas.StoreInt
namespace Gms.Store
open Gms.Num Gms.Conv

/-- `ConvertToDecimal` + the rounding step of `BoundsCheck` on a numeric value: a coefficient/scale
pair denoting the value rounded to the type's scale -/
theorem convertDec_num (p s : Nat) (col : Bool) (v : Val) (c : Int) (sc : Nat) (hx : numOf v = some (c, sc)) :
    ∃ c' sc', sc' ≤ s ∧ (col = true → sc' = s) ∧ c' * 10 ^ (s - sc') = roundToScale c sc s ∧
      convertDec p s col v =
        if c'.natAbs ≥ 10 ^ (p - s) * 10 ^ sc' then ⟨.null, .inRange, .fatal⟩ else ⟨.dec c' sc', .inRange, .none⟩ := by
  have key : ∀ (c1 : Int) (sc1 : Nat), toDecimal s col v = some (c1, sc1) →
      (sc1 ≤ s ∧ (col = true → sc1 = s) ∧ c1 * 10 ^ (s - sc1) = roundToScale c sc s) ∨
        (sc1 > s ∧ roundToScale c1 sc1 s = roundToScale c sc s) →
      ∃ c' sc', sc' ≤ s ∧ (col = true → sc' = s) ∧ c' * 10 ^ (s - sc') = roundToScale c sc s ∧
      convertDec p s col v =
        if c'.natAbs ≥ 10 ^ (p - s) * 10 ^ sc' then ⟨.null, .inRange, .fatal⟩ else ⟨.dec c' sc', .inRange, .none⟩ := by
    intro c1 sc1 htd h
    have hnn := numOf_ne_null hx
    rcases h with ⟨hle, hcol, heq⟩ | ⟨hgt, heq⟩
    · refine ⟨c1, sc1, hle, hcol, heq, ?_⟩
      have hns : ¬ sc1 > s := by omega
      cases v with
      | null => exact absurd rfl hnn
      | _ => simp only [convertDec, htd, hns, if_false]
    · refine ⟨roundToScale c1 sc1 s, s, Nat.le_refl _, fun _ => rfl, by simp [heq], ?_⟩
      cases v with
      | null => exact absurd rfl hnn
      | _ => simp only [convertDec, htd, hgt, if_true]
  cases v with
  | null => simp [numOf] at hx
  | s bs => simp [numOf] at hx
  | i x =>
    simp only [numOf, Option.some.injEq, Prod.mk.injEq] at hx
    obtain ⟨rfl, rfl⟩ := hx
    by_cases h : col = true ∧ 0 ≠ s
    · exact key (roundToScale x 0 s) s (by simp [toDecimal, h]) (Or.inl ⟨Nat.le_refl _, fun _ => rfl, by simp⟩)
    · exact key x 0 (by simp only [toDecimal, h, if_false])
        (Or.inl ⟨Nat.zero_le _, fun hc => by
          by_cases h0 : 0 = s
          · exact h0
          · exact absurd ⟨hc, h0⟩ h, by simp [roundToScale]⟩)
  | u x =>
    simp only [numOf, Option.some.injEq, Prod.mk.injEq] at hx
    obtain ⟨rfl, rfl⟩ := hx
    by_cases h : col = true ∧ 0 ≠ s
    · exact key (roundToScale x 0 s) s (by simp [toDecimal, h]) (Or.inl ⟨Nat.le_refl _, fun _ => rfl, by simp⟩)
    · exact key x 0 (by simp only [toDecimal, h, if_false])
        (Or.inl ⟨Nat.zero_le _, fun hc => by
          by_cases h0 : 0 = s
          · exact h0
          · exact absurd ⟨hc, h0⟩ h, by simp [roundToScale]⟩)
  | d c' sc' =>
    simp only [numOf, Option.some.injEq, Prod.mk.injEq] at hx
    obtain ⟨rfl, rfl⟩ := hx
    by_cases h : col = true ∧ sc' ≠ s
    · exact key (roundToScale c' sc' s) s (by simp [toDecimal, h]) (Or.inl ⟨Nat.le_refl _, fun _ => rfl, by simp⟩)
    · have htd : toDecimal s col (.d c' sc') = some (c', sc') := by simp only [toDecimal, h, if_false]
      by_cases hle : sc' ≤ s
      · exact key c' sc' htd (Or.inl ⟨hle, fun hc => by
          by_cases h0 : sc' = s
          · exact h0
          · exact absurd ⟨hc, h0⟩ h, by simp [roundToScale, hle]⟩)
      · exact key c' sc' htd (Or.inr ⟨by omega, rfl⟩)

theorem dec_storable_iff (p : Nat) (tg : Int) :
    (decide (-((10 : Int) ^ p - 1) ≤ tg) && decide (tg ≤ (10 : Int) ^ p - 1)) = true ↔ tg.natAbs < 10 ^ p := by
  have e : ((10 ^ p : Nat) : Int) = (10 : Int) ^ p := by push_cast; rfl
  simp only [Bool.and_eq_true, decide_eq_true_eq]
  rw [← e]
  omega

theorem dec_bound_iff (p s sc' : Nat) (c' : Int) (hsp : s ≤ p) (hle : sc' ≤ s) :
    c'.natAbs ≥ 10 ^ (p - s) * 10 ^ sc' ↔ ¬ (c' * 10 ^ (s - sc')).natAbs < 10 ^ p := by
  have hK : 0 < 10 ^ (s - sc') := Nat.pow_pos (by omega)
  have e1 : (c' * (10 : Int) ^ (s - sc')).natAbs = c'.natAbs * 10 ^ (s - sc') := by
    rw [Int.natAbs_mul, Int.natAbs_pow]; rfl
  have e2 : 10 ^ p = 10 ^ (p - s) * 10 ^ sc' * 10 ^ (s - sc') := by
    rw [← Nat.pow_add, ← Nat.pow_add]; congr 1; omega
  rw [e1, e2]
  constructor
  · intro h hlt
    have := Nat.mul_le_mul_right (10 ^ (s - sc')) h
    omega
  · intro h
    by_cases hc : c'.natAbs ≥ 10 ^ (p - s) * 10 ^ sc'
    · exact hc
    · exfalso; apply h
      exact Nat.mul_lt_mul_of_pos_right (by omega) hK

/-- **exact, or rejected** for DECIMAL(p,s), column and non-column: a numeric value is stored rounded
(half away from zero) to the scale, or refused when the rounded value needs more than `p` digits -/
theorem dec_acceptable (p s : Nat) (col : Bool) (hsp : s ≤ p) (v : Val) (c : Int) (sc : Nat)
    (hx : numOf v = some (c, sc)) : Acceptable (.dec p s col) (c, sc) (convert (.dec p s col) v) := by
  simp only [convert]
  obtain ⟨c', sc', hle, _, heq, hconv⟩ := convertDec_num p s col v c sc hx
  have htg : target (.dec p s col) (c, sc) = roundToScale c sc s := by simp [target, Ty.scale]
  have hst : Ty.storable (.dec p s col) (roundToScale c sc s) = true ↔ (roundToScale c sc s).natAbs < 10 ^ p := by
    simp only [Ty.storable, Ty.lo, Ty.hi]
    exact dec_storable_iff p _
  have hb := dec_bound_iff p s sc' c' hsp hle
  rw [heq] at hb
  unfold Acceptable
  rw [htg, hconv]
  refine ⟨?_, ?_, ?_⟩
  · intro hs _
    have : ¬ c'.natAbs ≥ 10 ^ (p - s) * 10 ^ sc' := fun h => (hb.1 h) (hst.1 hs)
    rw [if_neg this]
    exact ⟨rfl, rfl, by simp [storedCoeff, Ty.scale, heq]⟩
  · intro _ he; simp [exactInBounds] at he
  · intro hs
    have : c'.natAbs ≥ 10 ^ (p - s) * 10 ^ sc' := by
      apply hb.2
      intro h; have := hst.2 h; rw [this] at hs; cases hs
    rw [if_pos this]
    exact ⟨by simp [conversionOk], Or.inl rfl⟩
theorem year_spec_unfold (c : Int) (s : Nat) :
    target .year (c, s) = roundHalfAway c s ∧
    (Ty.storable .year (roundHalfAway c s) = true ↔
      roundHalfAway c s = 0 ∨ (1901 ≤ roundHalfAway c s ∧ roundHalfAway c s ≤ 2155)) := by
  refine ⟨by simp [target, Ty.scale, target_int], ?_⟩
  simp [Ty.storable]

theorem yearOfInt_storable (y : Int) (h : y = 0 ∨ (1901 ≤ y ∧ y ≤ 2155)) : yearOfInt y = some y := by
  unfold yearOfInt
  rcases h with h | h
  · simp [h]
  · have h0 : ¬ y = 0 := by omega
    have h1 : ¬ (1 ≤ y ∧ y ≤ 69) := by omega
    have h2 : ¬ (70 ≤ y ∧ y ≤ 99) := by omega
    simp [h0, h1, h2, h]

theorem yearOfInt_none (y : Int) (h0 : y ≠ 0) (h1 : ¬ (1 ≤ y ∧ y ≤ 99)) (h2 : ¬ (1901 ≤ y ∧ y ≤ 2155)) :
    yearOfInt y = none := by
  unfold yearOfInt
  have a : ¬ (1 ≤ y ∧ y ≤ 69) := by omega
  have b : ¬ (70 ≤ y ∧ y ≤ 99) := by omega
  simp [h0, a, b, h2]

/-- the integer `YearType_.Convert` finally looks at: the rounded value, or something negative when a
`uint64` above `MaxInt64` wrapped -/
theorem convertYear_num (v : Val) (hwf : v.WF) (c : Int) (s : Nat) (hx : numOf v = some (c, s))
    (hreg : ¬ year_decimal_beyond_int64_becomes_zero .year v) :
    ∃ y, (y = roundHalfAway c s ∨ (y < 0 ∧ roundHalfAway c s > 2155)) ∧
      convertYear v = (match yearOfInt y with
        | some y => ⟨.int y, .inRange, .none⟩
        | none => ⟨.null, .inRange, .fatal⟩) := by
  cases v with
  | null => simp [numOf] at hx
  | s bs => simp [numOf] at hx
  | i x =>
    simp only [numOf, Option.some.injEq, Prod.mk.injEq] at hx
    obtain ⟨rfl, rfl⟩ := hx
    exact ⟨x, Or.inl (rha_scale_zero x).symm, rfl⟩
  | u x =>
    simp only [numOf, Option.some.injEq, Prod.mk.injEq] at hx
    obtain ⟨rfl, rfl⟩ := hx
    simp only [Val.WF, inU64, maxU64] at hwf
    refine ⟨(BitVec.ofInt 64 x).toInt, ?_, rfl⟩
    rw [rha_scale_zero]
    by_cases h : x ≤ maxI64
    · left
      simp only [maxI64] at h
      rw [BitVec.toInt_ofInt]; simp only [Int.bmod]; omega
    · right
      simp only [maxI64] at h
      rw [BitVec.toInt_ofInt]; simp only [Int.bmod]; omega
  | d c' s' =>
    simp only [numOf, Option.some.injEq, Prod.mk.injEq] at hx
    obtain ⟨rfl, rfl⟩ := hx
    have hin : inI64 (roundHalfAway c' s') := by
      by_cases h : inI64 (roundHalfAway c' s')
      · exact h
      · exact absurd h hreg
    refine ⟨roundHalfAway c' s', Or.inl rfl, ?_⟩
    simp only [convertYear, hin, if_true]
    cases yearOfInt (roundHalfAway c' s') <;> rfl

/-- **exact, or rejected** for YEAR (four-digit values; two-digit inputs are an input convention and are
left undetermined by the Spec) -/
theorem year_acceptable (v : Val) (hwf : v.WF) (c : Int) (s : Nat) (hx : numOf v = some (c, s))
    (hy : ¬ (1 ≤ roundHalfAway c s ∧ roundHalfAway c s ≤ 99))
    (hreg : ¬ year_decimal_beyond_int64_becomes_zero .year v) :
    Acceptable .year (c, s) (convert .year v) := by
  simp only [convert]
  obtain ⟨htg, hst⟩ := year_spec_unfold c s
  obtain ⟨y, hy', hconv⟩ := convertYear_num v hwf c s hx hreg
  unfold Acceptable
  rw [htg, hconv]
  have hsto : Ty.storable .year (roundHalfAway c s) = true → yearOfInt y = some (roundHalfAway c s) := by
    intro hs
    have h := hst.1 hs
    rcases hy' with e | ⟨_, e⟩
    · rw [e]; exact yearOfInt_storable _ h
    · omega
  refine ⟨?_, ?_, ?_⟩
  · intro hs _
    rw [hsto hs]
    exact ⟨rfl, rfl, by simp [storedCoeff]⟩
  · intro hs _
    rw [hsto hs]
    right; simp [storedCoeff]
  · intro hs
    have hns : ¬ (roundHalfAway c s = 0 ∨ (1901 ≤ roundHalfAway c s ∧ roundHalfAway c s ≤ 2155)) := by
      intro h; have := hst.2 h; rw [this] at hs; cases hs
    have : yearOfInt y = none := by
      rcases hy' with e | ⟨e, _⟩
      · rw [e]; apply yearOfInt_none <;> omega
      · apply yearOfInt_none <;> omega
    rw [this]
    exact ⟨by simp [conversionOk], Or.inl rfl⟩

theorem two_pow_le (n : Nat) (hn : n ≤ 64) : (2 : Int) ^ n ≤ 2 ^ 64 := by
  have : (2 : Nat) ^ n ≤ 2 ^ 64 := Nat.pow_le_pow_right (by omega) hn
  exact_mod_cast this

/-- **exact, or rejected** for BIT(n), non-negative numeric values -/
theorem bit_acceptable (n : Nat) (hn : n ≤ 64) (v : Val) (hwf : v.WF) (c : Int) (s : Nat)
    (hx : numOf v = some (c, s)) (hreg : ¬ bit_negative_reinterpreted (.bit n) v) :
    Acceptable (.bit n) (c, s) (convert (.bit n) v) := by
  simp only [convert]
  have hc : 0 ≤ c := by
    by_cases h : c < 0
    · exfalso; apply hreg; simp [bit_negative_reinterpreted, hx, h]
    · omega
  have htg : target (.bit n) (c, s) = roundHalfAway c s := by simp [target, Ty.scale, target_int]
  have hr0 : 0 ≤ roundHalfAway c s := rha_ge_of_ge c s 0 (by omega)
  have hp := two_pow_le n hn
  have hpp : (0 : Int) < 2 ^ n := Int.pow_pos (by omega)
  have hst : Ty.storable (.bit n) (roundHalfAway c s) = true ↔ roundHalfAway c s ≤ 2 ^ n - 1 := by
    simp only [Ty.storable, Ty.lo, Ty.hi, Bool.and_eq_true]
    constructor
    · intro h; exact of_decide_eq_true h.2
    · intro h; exact ⟨decide_eq_true hr0, decide_eq_true h⟩
  -- the conversion reduces to the final width check on the rounded value
  have hconv : convertBit n v =
      if roundHalfAway c s > 2 ^ n - 1 then ⟨.null, .overflow, .fatal⟩
      else ⟨.int (roundHalfAway c s), .inRange, .none⟩ := by
    cases v with
    | null => simp [numOf] at hx
    | s bs => simp [numOf] at hx
    | i x =>
      simp only [numOf, Option.some.injEq, Prod.mk.injEq] at hx
      obtain ⟨rfl, rfl⟩ := hx
      simp only [Val.WF, inI64, minI64, maxI64] at hwf
      have : x % 2 ^ 64 = x := by omega
      simp only [convertBit, this, rha_scale_zero]
    | u x =>
      simp only [numOf, Option.some.injEq, Prod.mk.injEq] at hx
      obtain ⟨rfl, rfl⟩ := hx
      simp only [convertBit, rha_scale_zero]
    | d c' s' =>
      simp only [numOf, Option.some.injEq, Prod.mk.injEq] at hx
      obtain ⟨rfl, rfl⟩ := hx
      simp only [convertBit]
      by_cases h1 : roundHalfAway c' s' > maxU64
      · have : roundHalfAway c' s' > 2 ^ n - 1 := by simp only [maxU64] at h1; omega
        rw [if_pos h1, if_pos this]
      · have h2 : ¬ roundHalfAway c' s' < minI64 := by simp only [minI64]; omega
        have h3 : ((roundHalfAway c' s').natAbs : Int) % 2 ^ 64 = roundHalfAway c' s' := by
          simp only [maxU64] at h1; omega
        simp only [h1, h2, if_false]
        rw [h3]
  unfold Acceptable
  rw [htg, hconv]
  refine ⟨?_, ?_, ?_⟩
  · intro hs _
    have := hst.1 hs
    rw [if_neg (by omega)]
    exact ⟨rfl, rfl, by simp [storedCoeff]⟩
  · intro hs _
    have := hst.1 hs
    rw [if_neg (by omega)]
    right; simp [storedCoeff]
  · intro hs
    have : roundHalfAway c s > 2 ^ n - 1 := by
      by_cases h : roundHalfAway c s ≤ 2 ^ n - 1
      · have := hst.2 h; rw [this] at hs; cases hs
      · omega
    rw [if_pos this]
    exact ⟨by simp [conversionOk], Or.inl rfl⟩
end Gms.Store
