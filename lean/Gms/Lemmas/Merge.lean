/-
Merge join = inner join (same row sequence) on inputs sorted by an integer key, NULL keys first.
-/
import Gms.Lemmas.Phys

namespace Gms.Phys
open Gms.Sql Gms.Rel List

/-- Three-way comparison of two nullable integer keys; `none` = a NULL operand (`ErrNilOperand`). -/
def cmpK : Option Int → Option Int → Option Ordering
  | some a, some b => some (compare a b)
  | _, _ => none

/-- Index order: NULL first, then ascending. -/
def leK : Option Int → Option Int → Prop
  | none, _ => True
  | some _, none => False
  | some a, some b => a ≤ b

def SortedBy (k : Row → Option Int) (l : List Row) : Prop := l.Pairwise fun x y => leK (k x) (k y)

def mergeCmp (kl kr : Row → Option Int) (a b : Row) : Option Ordering := cmpK (kl a) (kr b)

/-- The join condition a merge join implements: keys equal (both non-NULL) and the other filters. -/
def mergeCond (kl kr : Row → Option Int) (sel : Row → Row → Bool) (a b : Row) : Bool :=
  (mergeCmp kl kr a b == some .eq) && sel a b

theorem cmpK_eq_iff (x y : Option Int) : cmpK x y = some .eq ↔ ∃ v, x = some v ∧ y = some v := by
  cases x <;> cases y <;> simp [cmpK, Int.compare_eq_eq]
  exact eq_comm

theorem mem_takeWhile_pred {α : Type} (p : α → Bool) (l : List α) (r : α) (h : r ∈ l.takeWhile p) : p r = true := by
  induction l with
  | nil => simp at h
  | cons c l ih =>
    rw [List.takeWhile_cons] at h
    by_cases hc : p c = true
    · simp only [hc, if_true] at h
      rcases List.mem_cons.mp h with rfl | h'
      · exact hc
      · exact ih h'
    · simp [hc] at h

theorem innerJoin_cons (m : Row → Row → Bool) (a : Row) (L R : List Row) :
    innerJoin m (a :: L) R = (R.filter (m a)).map (a ++ ·) ++ innerJoin m L R := by
  simp [innerJoin]

theorem innerJoin_nil_right (m : Row → Row → Bool) (L : List Row) : innerJoin m L [] = [] := by
  unfold innerJoin
  simp [flatMap_nil_fun]

theorem innerJoin_drop_left (m : Row → Row → Bool) (a : Row) (L R : List Row)
    (h : ∀ b ∈ R, m a b = false) : innerJoin m (a :: L) R = innerJoin m L R := by
  rw [innerJoin_cons]
  have : R.filter (m a) = [] := by
    rw [List.filter_eq_nil_iff]; intro b hb; simp [h b hb]
  simp [this]

theorem innerJoin_drop_right (m : Row → Row → Bool) (b : Row) (L R : List Row)
    (h : ∀ a ∈ L, m a b = false) : innerJoin m L (b :: R) = innerJoin m L R := by
  unfold innerJoin
  apply flatMap_congr'
  intro a ha
  simp [List.filter_cons, h a ha]

theorem innerJoin_append_left (m : Row → Row → Bool) (L1 L2 R : List Row) :
    innerJoin m (L1 ++ L2) R = innerJoin m L1 R ++ innerJoin m L2 R := by
  simp [innerJoin, List.flatMap_append]

theorem innerJoin_right_prefix_dead (m : Row → Row → Bool) (L B R : List Row)
    (h : ∀ a ∈ L, ∀ b ∈ B, m a b = false) : innerJoin m L (B ++ R) = innerJoin m L R := by
  unfold innerJoin
  apply flatMap_congr'
  intro a ha
  have : B.filter (m a) = [] := by
    rw [List.filter_eq_nil_iff]; intro b hb; simp [h a ha b hb]
  simp [List.filter_append, this]

theorem innerJoin_right_suffix_dead (m : Row → Row → Bool) (L B R : List Row)
    (h : ∀ a ∈ L, ∀ b ∈ R, m a b = false) : innerJoin m L (B ++ R) = innerJoin m L B := by
  unfold innerJoin
  apply flatMap_congr'
  intro a ha
  have : R.filter (m a) = [] := by
    rw [List.filter_eq_nil_iff]; intro b hb; simp [h a ha b hb]
  simp [List.filter_append, this]

theorem innerJoin_block (m sel : Row → Row → Bool) (rw : Nat) (las blk : List Row)
    (h : ∀ a ∈ las, ∀ b ∈ blk, m a b = sel a b) :
    innerJoin m las blk = las.flatMap fun a => blockRow false sel rw a blk := by
  unfold innerJoin
  apply flatMap_congr'
  intro a ha
  have hf : blk.filter (m a) = blk.filter (sel a) := List.filter_congr (fun b hb => h a ha b hb)
  unfold blockRow
  rw [hf]
  cases he : (blk.filter (sel a)).isEmpty
  · simp [he]
  · have : blk.filter (sel a) = [] := by simpa using he
    simp [this]

/-- In a list sorted on `k` whose elements are all `≥ some x`, everything left after dropping the
leading run of key `x` has a key `> x`. -/
theorem dropWhile_gt (k : Row → Option Int) (x : Int) (l : List Row) (hs : SortedBy k l)
    (hge : ∀ r ∈ l, ∃ y, k r = some y ∧ x ≤ y) :
    ∀ r ∈ l.dropWhile (fun r => cmpK (some x) (k r) == some .eq), ∃ y, k r = some y ∧ x < y := by
  induction l with
  | nil => intro r hr; simp at hr
  | cons c l ih =>
    intro r hr
    have hs' := List.pairwise_cons.mp hs
    by_cases hp : (cmpK (some x) (k c) == some .eq) = true
    · rw [List.dropWhile_cons] at hr
      simp only [hp, if_true] at hr
      exact ih hs'.2 (fun r hr => hge r (by simp [hr])) r hr
    · rw [List.dropWhile_cons] at hr
      simp only [hp, Bool.false_eq_true, if_false] at hr
      obtain ⟨yc, hyc, hxc⟩ := hge c (by simp)
      have hne : x ≠ yc := by
        intro e; apply hp; simp [hyc, cmpK, e]
      have hlt : x < yc := by omega
      rcases List.mem_cons.mp hr with rfl | hr'
      · exact ⟨yc, hyc, hlt⟩
      · obtain ⟨y, hy, _⟩ := hge r (by simp [hr'])
        have := hs'.1 r hr'
        rw [hyc, hy] at this
        exact ⟨y, hy, by simp [leK] at this; omega⟩

theorem takeWhile_key (k : Row → Option Int) (x : Int) (l : List Row) :
    ∀ r ∈ l.takeWhile (fun r => cmpK (some x) (k r) == some .eq), k r = some x := by
  intro r hr
  have := mem_takeWhile_pred _ _ _ hr
  have h2 : cmpK (some x) (k r) = some .eq := by simpa using this
  obtain ⟨v, hv1, hv2⟩ := (cmpK_eq_iff _ _).mp h2
  cases hv1
  exact hv2

theorem sorted_tail_ge (k : Row → Option Int) (c : Row) (l : List Row) (x : Int) (hs : SortedBy k (c :: l))
    (hc : k c = some x) : ∀ r ∈ l, ∃ y, k r = some y ∧ x ≤ y := by
  intro r hr
  have := (List.pairwise_cons.mp hs).1 r hr
  rw [hc] at this
  cases hk : k r with
  | none => rw [hk] at this; simp [leK] at this
  | some y => rw [hk] at this; exact ⟨y, rfl, by simpa [leK] using this⟩

/-- Symmetric versions for the left input (the predicate compares `k r` with the fixed right key). -/
theorem dropWhile_gt_left (k : Row → Option Int) (x : Int) (l : List Row) (hs : SortedBy k l)
    (hge : ∀ r ∈ l, ∃ y, k r = some y ∧ x ≤ y) :
    ∀ r ∈ l.dropWhile (fun r => cmpK (k r) (some x) == some .eq), ∃ y, k r = some y ∧ x < y := by
  have e : (fun r => cmpK (k r) (some x) == some .eq) = (fun r => cmpK (some x) (k r) == some .eq) := by
    funext r
    cases hk : k r with
    | none => simp [cmpK]
    | some y =>
      simp only [cmpK]
      by_cases h : y = x
      · subst h; simp
      · have h' : ¬ x = y := fun e => h e.symm
        have e1 : compare y x ≠ .eq := fun e => h (Int.compare_eq_eq.mp e)
        have e2 : compare x y ≠ .eq := fun e => h' (Int.compare_eq_eq.mp e)
        cases h1 : compare y x <;> cases h2 : compare x y <;> simp_all
  rw [e]
  exact dropWhile_gt k x l hs hge

theorem takeWhile_key_left (k : Row → Option Int) (x : Int) (l : List Row) :
    ∀ r ∈ l.takeWhile (fun r => cmpK (k r) (some x) == some .eq), k r = some x := by
  intro r hr
  have := mem_takeWhile_pred _ _ _ hr
  have h2 : cmpK (k r) (some x) = some .eq := by simpa using this
  obtain ⟨v, hv1, hv2⟩ := (cmpK_eq_iff _ _).mp h2
  cases hv2
  exact hv1

/-- **Merge join = inner join**, same row sequence, for every fuel that covers the inputs. -/
theorem mergeGo_eq_innerJoin (kl kr : Row → Option Int) (sel : Row → Row → Bool) (rw : Nat) :
    ∀ (n : Nat) (L R : List Row), L.length + R.length < n → SortedBy kl L → SortedBy kr R →
      mergeGo false (mergeCmp kl kr) (fun a => (kl a).isNone) sel rw n L R
        = innerJoin (mergeCond kl kr sel) L R := by
  intro n
  induction n with
  | zero => intro L R h; omega
  | succ n ih =>
    intro L R hn hL hR
    cases L with
    | nil => simp [mergeGo, innerJoin]
    | cons a L =>
      cases R with
      | nil => simp [mergeGo, innerJoin_nil_right]
      | cons b R =>
        have hL' := List.pairwise_cons.mp hL
        have hR' := List.pairwise_cons.mp hR
        simp only [mergeGo]
        cases hc : mergeCmp kl kr a b with
        | none =>
          simp only
          by_cases hnl : (kl a).isNone = true
          · -- the left key is NULL: the left row matches nothing
            have hka : kl a = none := by simpa using hnl
            simp only [hnl, if_true, Bool.false_eq_true, if_false, List.nil_append]
            rw [ih L (b :: R) (by simp at hn ⊢; omega) hL'.2 hR]
            symm
            apply innerJoin_drop_left
            intro b' _
            simp [mergeCond, mergeCmp, hka, cmpK]
          · -- the right key is NULL: the right row matches nothing
            have hkb : kr b = none := by
              cases hka : kl a with
              | none => simp [hka] at hnl
              | some x =>
                cases hkb : kr b with
                | none => rfl
                | some y => simp [mergeCmp, hka, hkb, cmpK] at hc
            simp only [hnl, Bool.false_eq_true, if_false]
            rw [ih (a :: L) R (by simp at hn ⊢; omega) hL hR'.2]
            symm
            apply innerJoin_drop_right
            intro a' _
            cases hka' : kl a' <;> simp [mergeCond, mergeCmp, hkb, hka', cmpK]
        | some o =>
          obtain ⟨x, hkx⟩ : ∃ x, kl a = some x := by
            cases hka : kl a with
            | none => simp [mergeCmp, hka, cmpK] at hc
            | some x => exact ⟨x, rfl⟩
          obtain ⟨y, hky⟩ : ∃ y, kr b = some y := by
            cases hkb : kr b with
            | none => simp [mergeCmp, hkx, hkb, cmpK] at hc
            | some y => exact ⟨y, rfl⟩
          have hcmp : compare x y = o := by simpa [mergeCmp, hkx, hky, cmpK] using hc
          have hRge := sorted_tail_ge kr b R y hR hky
          have hLge := sorted_tail_ge kl a L x hL hkx
          cases o with
          | lt =>
            have hxy : x < y := Int.compare_eq_lt.mp hcmp
            simp only [Bool.false_eq_true, if_false, List.nil_append]
            rw [ih L (b :: R) (by simp at hn ⊢; omega) hL'.2 hR]
            symm
            apply innerJoin_drop_left
            intro b' hb'
            have : ∃ y', kr b' = some y' ∧ y ≤ y' := by
              rcases List.mem_cons.mp hb' with rfl | h
              · exact ⟨y, hky, Int.le_refl y⟩
              · exact hRge b' h
            obtain ⟨y', hy', hle⟩ := this
            have hne : ¬ x = y' := by omega
            simp [mergeCond, mergeCmp, hkx, hy', cmpK, Int.compare_eq_eq, hne]
          | gt =>
            have hxy : y < x := Int.compare_eq_gt.mp hcmp
            simp only
            rw [ih (a :: L) R (by simp at hn ⊢; omega) hL hR'.2]
            symm
            apply innerJoin_drop_right
            intro a' ha'
            have : ∃ x', kl a' = some x' ∧ x ≤ x' := by
              rcases List.mem_cons.mp ha' with rfl | h
              · exact ⟨x, hkx, Int.le_refl x⟩
              · exact hLge a' h
            obtain ⟨x', hx', hle⟩ := this
            have hne : ¬ x' = y := by omega
            simp [mergeCond, mergeCmp, hky, hx', cmpK, Int.compare_eq_eq, hne]
          | eq =>
            have hxy : x = y := Int.compare_eq_eq.mp hcmp
            subst hxy
            simp only
            -- predicates of the two blocks, in key form
            have pR : (fun b' => mergeCmp kl kr a b' == some Ordering.eq) = fun r => cmpK (some x) (kr r) == some .eq := by
              funext r; simp [mergeCmp, hkx]
            have pL : (fun a' => mergeCmp kl kr a' b == some Ordering.eq) = fun r => cmpK (kl r) (some x) == some .eq := by
              funext r; simp [mergeCmp, hky]
            rw [pR, pL]
            -- name the four pieces
            generalize hTR : R.takeWhile (fun r => cmpK (some x) (kr r) == some .eq) = tR
            generalize hDR : R.dropWhile (fun r => cmpK (some x) (kr r) == some .eq) = dR
            generalize hTL : L.takeWhile (fun r => cmpK (kl r) (some x) == some .eq) = tL
            generalize hDL : L.dropWhile (fun r => cmpK (kl r) (some x) == some .eq) = dL
            have hRsplit : R = tR ++ dR := by rw [← hTR, ← hDR]; exact (List.takeWhile_append_dropWhile).symm
            have hLsplit : L = tL ++ dL := by rw [← hTL, ← hDL]; exact (List.takeWhile_append_dropWhile).symm
            have htR : ∀ r ∈ tR, kr r = some x := by rw [← hTR]; exact takeWhile_key kr x R
            have htL : ∀ r ∈ tL, kl r = some x := by rw [← hTL]; exact takeWhile_key_left kl x L
            have hdR : ∀ r ∈ dR, ∃ y, kr r = some y ∧ x < y := by
              rw [← hDR]; exact dropWhile_gt kr x R hR'.2 hRge
            have hdL : ∀ r ∈ dL, ∃ y, kl r = some y ∧ x < y := by
              rw [← hDL]; exact dropWhile_gt_left kl x L hL'.2 hLge
            have hsdR : SortedBy kr dR := by
              rw [← hDR]; exact hR'.2.sublist (List.dropWhile_sublist _)
            have hsdL : SortedBy kl dL := by
              rw [← hDL]; exact hL'.2.sublist (List.dropWhile_sublist _)
            have hlen : dL.length + dR.length < n := by
              have h1 : dL.length ≤ L.length := by rw [← hDL]; exact (List.dropWhile_sublist _).length_le
              have h2 : dR.length ≤ R.length := by rw [← hDR]; exact (List.dropWhile_sublist _).length_le
              simp at hn; omega
            rw [ih dL dR hlen hsdL hsdR]
            -- key facts about the condition on the four pieces
            have hkeyL : ∀ a' ∈ a :: tL, kl a' = some x := by
              intro a' h; rcases List.mem_cons.mp h with rfl | h
              · exact hkx
              · exact htL a' h
            have hkeyR : ∀ b' ∈ b :: tR, kr b' = some x := by
              intro b' h; rcases List.mem_cons.mp h with rfl | h
              · exact hky
              · exact htR b' h
            have hblock : ∀ a' ∈ a :: tL, ∀ b' ∈ b :: tR, mergeCond kl kr sel a' b' = sel a' b' := by
              intro a' ha' b' hb'
              simp [mergeCond, mergeCmp, hkeyL a' ha', hkeyR b' hb', cmpK]
            have hdeadR : ∀ a' ∈ a :: tL, ∀ b' ∈ dR, mergeCond kl kr sel a' b' = false := by
              intro a' ha' b' hb'
              obtain ⟨y, hy, hlt⟩ := hdR b' hb'
              have hne : ¬ x = y := by omega
              simp [mergeCond, mergeCmp, hkeyL a' ha', hy, cmpK, Int.compare_eq_eq, hne]
            have hdeadL : ∀ a' ∈ dL, ∀ b' ∈ b :: tR, mergeCond kl kr sel a' b' = false := by
              intro a' ha' b' hb'
              obtain ⟨y, hy, hlt⟩ := hdL a' ha'
              have hne : ¬ y = x := by omega
              simp [mergeCond, mergeCmp, hkeyR b' hb', hy, cmpK, Int.compare_eq_eq, hne]
            have e1 : a :: L = (a :: tL) ++ dL := by rw [hLsplit]; rfl
            have e2 : b :: R = (b :: tR) ++ dR := by rw [hRsplit]; rfl
            rw [e1, e2, innerJoin_append_left,
              innerJoin_right_suffix_dead _ (a :: tL) (b :: tR) dR hdeadR,
              innerJoin_right_prefix_dead _ dL (b :: tR) dR hdeadL,
              innerJoin_block _ sel rw (a :: tL) (b :: tR) hblock]

end Gms.Phys
