/-
Lemmas about schema changes of the in-memory table (Gms/Model/MemTableDdl.lean): resolving the
columns of a unique index BY NAME commutes with every modelled schema change, so the editor created
after the change guards the same values as the editor before it. Used by Gms/Props/C14.lean.
-/
import Gms.Model.MemTableDdl
namespace Gms.MemTable

/-! ## ordinals -/

theorem bump_zero (o : Nat) : bump 0 o = o + 1 := by simp [bump]

theorem bump_succ_zero (p : Nat) : bump (p + 1) 0 = 0 := by simp [bump]

theorem bump_succ_succ (p o : Nat) : bump (p + 1) (o + 1) = bump p o + 1 := by
  unfold bump; split <;> split <;> omega

theorem unbump_zero_succ (o : Nat) : unbump 0 (o + 1) = o := by simp [unbump]

theorem unbump_succ_zero (c : Nat) : unbump (c + 1) 0 = 0 := by simp [unbump]

theorem unbump_succ_succ (c o : Nat) : unbump (c + 1) (o + 1) = unbump c o + 1 ∨ o = c := by
  unfold unbump; split <;> split <;> omega

/-- reading behind a spliced-in element: position `o` has moved to `bump p o`. -/
theorem getD_insAt_bump {α : Type} (p : Nat) (a d : α) (l : List α) (o : Nat) (hp : p ≤ l.length) :
    (insAt p a l).getD (bump p o) d = l.getD o d := by
  induction p generalizing l o with
  | zero => simp [insAt, bump_zero]
  | succ p ih =>
    cases l with
    | nil => simp at hp
    | cons x l =>
      cases o with
      | zero => simp [insAt, bump_succ_zero]
      | succ o =>
        simp only [insAt, bump_succ_succ, List.getD_cons_succ]
        exact ih l o (by simpa using hp)

/-- reading after an element was removed: position `o ≠ c` has moved to `unbump c o`. -/
theorem getD_eraseIdx_unbump {α : Type} (c : Nat) (d : α) (l : List α) (o : Nat) (hne : o ≠ c) :
    (l.eraseIdx c).getD (unbump c o) d = l.getD o d := by
  induction l generalizing c o with
  | nil => simp
  | cons x l ih =>
    cases c with
    | zero =>
      cases o with
      | zero => exact absurd rfl hne
      | succ o => simp [unbump_zero_succ]
    | succ c =>
      cases o with
      | zero => simp [unbump_succ_zero]
      | succ o =>
        have hoc : o ≠ c := fun h => hne (by rw [h])
        rcases unbump_succ_succ c o with h | h
        · simp only [List.eraseIdx_cons_succ, h, List.getD_cons_succ]
          exact ih c o hoc
        · exact absurd h hoc

/-! ## `Schema.IndexOf` / `columnIndexes` under schema changes -/

theorem indexOf_mem {names : List Nat} {n : Nat} (h : n ∈ names) : ∃ i, indexOf names n = some i := by
  induction names with
  | nil => cases h
  | cons m ms ih =>
    simp only [indexOf]
    by_cases hm : m = n
    · exact ⟨0, by simp [hm]⟩
    · have : n ∈ ms := by
        rcases List.mem_cons.mp h with h | h
        · exact absurd h.symm hm
        · exact h
      obtain ⟨i, hi⟩ := ih this
      exact ⟨i + 1, by simp [hm, hi]⟩

theorem indexOf_lt {names : List Nat} {n i : Nat} (h : indexOf names n = some i) : i < names.length := by
  induction names generalizing i with
  | nil => simp [indexOf] at h
  | cons m ms ih =>
    simp only [indexOf] at h
    by_cases hm : m = n
    · simp [hm] at h; subst h; simp
    · simp only [hm, if_false] at h
      cases hx : indexOf ms n with
      | none => simp [hx] at h
      | some j =>
        simp [hx] at h; subst h
        have := ih hx
        simp; omega

/-- the looked-up name is at the ordinal found. -/
theorem indexOf_getD {names : List Nat} {n i : Nat} (h : indexOf names n = some i) : names.getD i 0 = n := by
  induction names generalizing i with
  | nil => simp [indexOf] at h
  | cons m ms ih =>
    simp only [indexOf] at h
    by_cases hm : m = n
    · simp [hm] at h; subst h; simp [hm]
    · simp only [hm, if_false] at h
      cases hx : indexOf ms n with
      | none => simp [hx] at h
      | some j =>
        simp [hx] at h; subst h
        simpa using ih hx

/-- ADD COLUMN: every other name is found at the bumped ordinal. -/
theorem indexOf_insAt (names : List Nat) (p a n : Nat) (hne : a ≠ n) (hp : p ≤ names.length) :
    indexOf (insAt p a names) n = (indexOf names n).map (bump p) := by
  induction p generalizing names with
  | zero =>
    simp only [insAt, indexOf, hne, if_false]
    cases indexOf names n <;> simp [bump_zero]
  | succ p ih =>
    cases names with
    | nil => simp at hp
    | cons x ns =>
      simp only [insAt, indexOf]
      by_cases hx : x = n
      · simp [hx, bump_succ_zero]
      · simp only [hx, if_false]
        rw [ih ns (by simpa using hp)]
        cases indexOf ns n <;> simp [bump_succ_succ]

/-- DROP COLUMN: every other name is found at the un-bumped ordinal. -/
theorem indexOf_eraseIdx (names : List Nat) (c n : Nat) (hne : names.getD c 0 ≠ n) (hc : c < names.length) :
    indexOf (names.eraseIdx c) n = (indexOf names n).map (unbump c) := by
  induction names generalizing c with
  | nil => simp at hc
  | cons x ns ih =>
    cases c with
    | zero =>
      have hx : x ≠ n := by simpa using hne
      simp only [List.eraseIdx_cons_zero, indexOf, hx, if_false]
      cases indexOf ns n <;> simp [unbump_zero_succ]
    | succ c =>
      simp only [List.eraseIdx_cons_succ, indexOf]
      by_cases hx : x = n
      · simp [hx, unbump_succ_zero]
      · simp only [hx, if_false]
        have hne' : ns.getD c 0 ≠ n := by simpa using hne
        rw [ih c hne' (by simpa using hc)]
        cases hi : indexOf ns n with
        | none => simp
        | some i =>
          simp only [Option.map_some, Option.some.injEq]
          rcases unbump_succ_succ c i with h | h
          · exact h.symm
          · exact absurd (h ▸ indexOf_getD hi) hne'

/-- RENAME COLUMN: the renamed column is found where the old name was, every other name where it was. -/
theorem indexOf_set (names : List Nat) (c new n : Nat) (hnd : names.Nodup) (hnew : new ∉ names)
    (hc : c < names.length) (hn : n ∈ names) :
    indexOf (names.set c new) (if n = names.getD c 0 then new else n) = indexOf names n := by
  induction names generalizing c with
  | nil => simp at hc
  | cons x ns ih =>
    have hxnew : x ≠ new := fun h => hnew (by simp [h])
    have hnewns : new ∉ ns := fun h => hnew (List.mem_cons_of_mem _ h)
    have hnd' : ns.Nodup := (List.nodup_cons.mp hnd).2
    have hxns : x ∉ ns := (List.nodup_cons.mp hnd).1
    cases c with
    | zero =>
      simp only [List.set_cons_zero, List.getD_cons_zero, indexOf]
      by_cases hnx : n = x
      · simp [hnx]
      · have hnn : new ≠ n := fun h => hnew (h ▸ hn)
        have hxn : x ≠ n := fun h => hnx h.symm
        simp [hnx, hxn, hnn]
    | succ c =>
      simp only [List.set_cons_succ, List.getD_cons_succ, indexOf]
      by_cases hnx : x = n
      · subst hnx
        have hc' : c < ns.length := by simpa using hc
        have hmem : ns.getD c 0 ∈ ns := by
          simp [List.getD_eq_getElem?_getD, List.getElem?_eq_getElem hc']
        have : ¬ (x = ns.getD c 0) := fun h => hxns (h ▸ hmem)
        rw [if_neg this]
        simp
      · have hnns : n ∈ ns := by
          rcases List.mem_cons.mp hn with h | h
          · exact absurd h.symm hnx
          · exact h
        have hx2 : x ≠ (if n = ns.getD c 0 then new else n) := by
          split
          · exact hxnew
          · exact hnx
        simp only [hx2, hnx, if_false]
        rw [ih c hnd' hnewns (by simpa using hc) hnns]

/-- `columnIndexes` under a renaming `g` of the names and a re-numbering `f` of the ordinals. -/
theorem columnIndexes_map (names names' : List Nat) (f g : Nat → Nat) (cs : List Nat)
    (h : ∀ n ∈ cs, indexOf names' (g n) = (indexOf names n).map f) :
    columnIndexes names' (cs.map g) = (columnIndexes names cs).map (List.map f) := by
  induction cs with
  | nil => rfl
  | cons n cs ih =>
    simp only [List.map_cons, columnIndexes]
    rw [h n (by simp), ih (fun m hm => h m (List.mem_cons_of_mem _ hm))]
    cases indexOf names n <;> cases columnIndexes names cs <;> simp

theorem columnIndexes_some (names cs : List Nat) (h : ∀ n ∈ cs, n ∈ names) :
    ∃ os, columnIndexes names cs = some os := by
  induction cs with
  | nil => exact ⟨[], rfl⟩
  | cons n cs ih =>
    obtain ⟨i, hi⟩ := indexOf_mem (h n (by simp))
    obtain ⟨os, hos⟩ := ih (fun m hm => h m (List.mem_cons_of_mem _ hm))
    exact ⟨i :: os, by simp [columnIndexes, hi, hos]⟩

theorem columnIndexes_lt (names cs os : List Nat) (h : columnIndexes names cs = some os) :
    ∀ o ∈ os, o < names.length := by
  induction cs generalizing os with
  | nil => simp [columnIndexes] at h; subst h; simp
  | cons n cs ih =>
    simp only [columnIndexes] at h
    cases hi : indexOf names n with
    | none => simp [hi] at h
    | some i =>
      cases hc : columnIndexes names cs with
      | none => simp [hi, hc] at h
      | some os' =>
        simp [hi, hc] at h; subst h
        intro o ho
        rcases List.mem_cons.mp ho with rfl | ho
        · exact indexOf_lt hi
        · exact ih os' hc o ho

/-- the by-name resolution of all unique indexes under a renaming / re-numbering. -/
theorem indexCols_map (names names' : List Nat) (f g : Nat → Nat) (idx : List (List Nat × List Nat))
    (h : ∀ ix ∈ idx, ∀ n ∈ ix.1, indexOf names' (g n) = (indexOf names n).map f) :
    (idx.map (fun ix => (ix.1.map g, ix.2))).filterMap (fun ix => (columnIndexes names' ix.1).map (fun cs => (cs, ix.2)))
      = (idx.filterMap (fun ix => (columnIndexes names ix.1).map (fun cs => (cs, ix.2)))).map
          (fun u => (u.1.map f, u.2)) := by
  induction idx with
  | nil => rfl
  | cons ix idx ih =>
    have h1 := columnIndexes_map names names' f g ix.1 (h ix (by simp))
    have ih' := ih (fun ix' hix' => h ix' (List.mem_cons_of_mem _ hix'))
    simp only [List.map_cons, List.filterMap_cons, h1]
    cases columnIndexes names ix.1 with
    | none => simpa using ih'
    | some cs => simpa using ih'

/-- no index is lost when all its columns exist. -/
theorem indexCols_length (names : List Nat) (idx : List (List Nat × List Nat))
    (h : ∀ ix ∈ idx, ∀ n ∈ ix.1, n ∈ names) :
    (idx.filterMap (fun ix => (columnIndexes names ix.1).map (fun cs => (cs, ix.2)))).length = idx.length := by
  induction idx with
  | nil => rfl
  | cons ix idx ih =>
    obtain ⟨os, hos⟩ := columnIndexes_some names ix.1 (h ix (by simp))
    simp [hos, ih (fun ix' hix' => h ix' (List.mem_cons_of_mem _ hix'))]

/-! ## the key predicates under a re-numbering of the ordinals -/

/-- `sch'` / `g r` is `sch` / `r` with the ordinals re-numbered by `f`, as far as the key columns
(`K`) and the rows in `R` are concerned. -/
structure Remap (sch sch' : Schema) (f : Nat → Nat) (g : Row → Row) (K : Nat → Prop) (R : Row → Prop) : Prop where
  pk : sch'.pk = sch.pk.map f
  uq : sch'.uniques = sch.uniques.map (fun u => (u.1.map f, u.2))
  kpk : ∀ c ∈ sch.pk, K c
  kuq : ∀ u ∈ sch.uniques, ∀ c ∈ u.1, K c
  val : ∀ r, R r → ∀ c, K c → (g r).at (f c) = r.at c
  col : ∀ c, K c → sch'.cols.getD (f c) {} = sch.cols.getD c {}

theorem any_congr_mem {α : Type} (l : List α) (p q : α → Bool) (h : ∀ a ∈ l, p a = q a) :
    l.any p = l.any q := by
  induction l with
  | nil => rfl
  | cons a l ih =>
    simp only [List.any_cons]
    rw [h a (by simp), ih (fun b hb => h b (List.mem_cons_of_mem _ hb))]

variable {sch sch' : Schema} {f : Nat → Nat} {g : Row → Row} {K : Nat → Prop} {R : Row → Prop}

theorem specKeyEq_remap (m : Remap sch sch' f g K R) (cs pls : List Nat) (hk : ∀ c ∈ cs, K c)
    (r1 r2 : Row) (h1 : R r1) (h2 : R r2) :
    specKeyEq sch' (cs.map f) pls (g r1) (g r2) = specKeyEq sch cs pls r1 r2 := by
  induction cs generalizing pls with
  | nil => rfl
  | cons c cs ih =>
    simp only [List.map_cons, specKeyEq]
    rw [m.val r1 h1 c (hk c (by simp)), m.val r2 h2 c (hk c (by simp)), m.col c (hk c (by simp)),
      ih pls.tail (fun c' hc' => hk c' (List.mem_cons_of_mem _ hc'))]

/-- the Impl's comparison (`columnsMatch`) reads the same values through the re-numbered ordinals. -/
theorem columnsMatch_remap (m : Remap sch sch' f g K R) (cs pls : List Nat) (hk : ∀ c ∈ cs, K c)
    (r1 r2 : Row) (h1 : R r1) (h2 : R r2) :
    columnsMatch (cs.map f) pls (g r1) (g r2) = columnsMatch cs pls r1 r2 := by
  induction cs generalizing pls with
  | nil => rfl
  | cons c cs ih =>
    simp only [List.map_cons, columnsMatch]
    rw [m.val r1 h1 c (hk c (by simp)), m.val r2 h2 c (hk c (by simp)),
      ih pls.tail (fun c' hc' => hk c' (List.mem_cons_of_mem _ hc'))]

theorem hasNull_remap (m : Remap sch sch' f g K R) (cs : List Nat) (hk : ∀ c ∈ cs, K c) (r : Row) (h : R r) :
    hasNullForAnyCols (g r) (cs.map f) = hasNullForAnyCols r cs := by
  simp only [hasNullForAnyCols, List.any_map]
  apply any_congr_mem
  intro c hc
  simp only [Function.comp]
  rw [m.val r h c (hk c hc)]

theorem specConflict_remap (m : Remap sch sch' f g K R) (r1 r2 : Row) (h1 : R r1) (h2 : R r2) :
    specConflict sch' (g r1) (g r2) = specConflict sch r1 r2 := by
  have hkeys : sch'.keys = sch.keys.map (fun k => (k.1.map f, k.2)) := by
    simp only [Schema.keys, Schema.keyless, m.pk, m.uq, List.isEmpty_map, List.map_append]
    by_cases h : sch.pk.isEmpty = true <;> simp [h]
  have hK : ∀ k ∈ sch.keys, ∀ c ∈ k.1, K c := by
    intro k hk
    simp only [Schema.keys, List.mem_append] at hk
    rcases hk with hk | hk
    · split at hk
      · cases hk
      · simp only [List.mem_cons, List.not_mem_nil, or_false] at hk
        subst hk; exact m.kpk
    · exact m.kuq k hk
  simp only [specConflict, hkeys, List.any_map]
  apply any_congr_mem
  intro k hk
  exact specKeyEq_remap m k.1 k.2 (hK k hk) r1 r2 h1 h2

theorem specNoDup_remap (m : Remap sch sch' f g K R) (t : List Row) (ht : ∀ r ∈ t, R r) :
    specNoDup sch' (t.map g) = specNoDup sch t := by
  induction t with
  | nil => rfl
  | cons r rs ih =>
    simp only [List.map_cons, specNoDup, List.any_map]
    rw [ih (fun x hx => ht x (List.mem_cons_of_mem _ hx))]
    congr 2
    apply any_congr_mem
    intro x hx
    exact specConflict_remap m r x (ht r (by simp)) (ht x (List.mem_cons_of_mem _ hx))

/-! ## every modelled schema change is such a re-numbering -/

theorem wf_unpack (ns : NSchema) (h : ns.wf = true) :
    ns.names.Nodup ∧ ns.cols.length = ns.names.length ∧ (∀ ix ∈ ns.idx, ∀ n ∈ ix.1, n ∈ ns.names)
      ∧ (∀ o ∈ ns.pk, o < ns.names.length) := by
  simp only [NSchema.wf, Bool.and_eq_true, decide_eq_true_eq, List.all_eq_true, List.contains_iff_mem] at h
  exact ⟨h.1.1.1, h.1.1.2, h.1.2, h.2⟩

theorem columnIndexes_mem (names cs os : List Nat) (h : columnIndexes names cs = some os) :
    ∀ o ∈ os, ∃ n ∈ cs, indexOf names n = some o := by
  induction cs generalizing os with
  | nil => simp [columnIndexes] at h; subst h; simp
  | cons n cs ih =>
    simp only [columnIndexes] at h
    cases hi : indexOf names n with
    | none => simp [hi] at h
    | some i =>
      cases hc : columnIndexes names cs with
      | none => simp [hi, hc] at h
      | some os' =>
        simp [hi, hc] at h; subst h
        intro o ho
        rcases List.mem_cons.mp ho with rfl | ho
        · exact ⟨n, by simp, hi⟩
        · obtain ⟨n', hn', h'⟩ := ih os' hc o ho
          exact ⟨n', List.mem_cons_of_mem _ hn', h'⟩

theorem map_id_pair (l : List (List Nat × List Nat)) : l.map (fun ix => (ix.1.map id, ix.2)) = l := by
  induction l with
  | nil => rfl
  | cons a l ih => simp

theorem remap_addCol (ns : NSchema) (p name : Nat) (c : Col) (hwf : ns.wf = true)
    (hok : ddlOk ns (.addCol p name c) = true) :
    Remap ns.resolve (ddlSchema ns (.addCol p name c)).resolve (bump p) (ddlRow (.addCol p name c))
      (fun _ => True) (fun r => r.length = ns.names.length) := by
  obtain ⟨_, hlen, hidx, _⟩ := wf_unpack ns hwf
  simp only [ddlOk, Bool.and_eq_true, decide_eq_true_eq, Bool.not_eq_true', List.contains_eq_mem,
    decide_eq_false_iff_not] at hok
  obtain ⟨hp, hfresh⟩ := hok
  refine ⟨rfl, ?_, fun _ _ => trivial, fun _ _ _ _ => trivial, ?_, ?_⟩
  · have := indexCols_map ns.names (insAt p name ns.names) (bump p) id ns.idx (fun ix hix n hn =>
      indexOf_insAt ns.names p name n (fun h => hfresh (h ▸ hidx ix hix n hn)) hp)
    rw [map_id_pair] at this
    exact this
  · intro r hr o _
    exact getD_insAt_bump p Val.null Val.null r o (hr ▸ hp)
  · intro o _
    exact getD_insAt_bump p c {} ns.cols o (hlen ▸ hp)

theorem remap_dropCol (ns : NSchema) (c : Nat) (hok : ddlOk ns (.dropCol c) = true) :
    Remap ns.resolve (ddlSchema ns (.dropCol c)).resolve (unbump c) (ddlRow (.dropCol c))
      (fun o => o ≠ c) (fun r => r.length = ns.names.length) := by
  simp only [ddlOk, Bool.and_eq_true, decide_eq_true_eq, Bool.not_eq_true', List.contains_eq_mem,
    decide_eq_false_iff_not, List.all_eq_true] at hok
  obtain ⟨⟨hc, hpk⟩, hix⟩ := hok
  refine ⟨rfl, ?_, fun o ho h => hpk (h ▸ ho), ?_, ?_, ?_⟩
  · have := indexCols_map ns.names (ns.names.eraseIdx c) (unbump c) id ns.idx (fun ix hix' n hn =>
      indexOf_eraseIdx ns.names c n (fun h => hix ix hix' (h ▸ hn)) hc)
    rw [map_id_pair] at this
    exact this
  · intro u hu o ho h
    simp only [NSchema.resolve, indexColsForTableEditor, List.mem_filterMap, Option.map_eq_some_iff] at hu
    obtain ⟨ix, hix', os, hos, rfl⟩ := hu
    obtain ⟨n, hn, hi⟩ := columnIndexes_mem ns.names ix.1 os hos o ho
    have := indexOf_getD hi
    exact hix ix hix' (by rw [← h, this]; exact hn)
  · intro r _ o ho
    exact getD_eraseIdx_unbump c Val.null r o ho
  · intro o ho
    exact getD_eraseIdx_unbump c {} ns.cols o ho

theorem remap_renCol (ns : NSchema) (c name : Nat) (hwf : ns.wf = true) (hok : ddlOk ns (.renCol c name) = true) :
    Remap ns.resolve (ddlSchema ns (.renCol c name)).resolve id (ddlRow (.renCol c name))
      (fun _ => True) (fun r => r.length = ns.names.length) := by
  obtain ⟨hnd, _, hidx, _⟩ := wf_unpack ns hwf
  simp only [ddlOk, Bool.and_eq_true, decide_eq_true_eq, Bool.not_eq_true', List.contains_eq_mem,
    decide_eq_false_iff_not] at hok
  obtain ⟨hc, hfresh⟩ := hok
  refine ⟨by simp [NSchema.resolve, ddlSchema], ?_, fun _ _ => trivial, fun _ _ _ _ => trivial,
    fun _ _ _ _ => rfl, fun _ _ => rfl⟩
  exact indexCols_map ns.names (ns.names.set c name) id
    (fun n => if n = ns.names.getD c 0 then name else n) ns.idx (fun ix hix n hn => by
      rw [indexOf_set ns.names c name n hnd hfresh hc (hidx ix hix n hn)]; simp)

theorem remap_renTab (ns : NSchema) :
    Remap ns.resolve (ddlSchema ns .renTab).resolve id (ddlRow .renTab)
      (fun _ => True) (fun r => r.length = ns.names.length) := by
  refine ⟨by simp [ddlSchema], ?_, fun _ _ => trivial, fun _ _ _ _ => trivial, fun _ _ _ _ => rfl, fun _ _ => rfl⟩
  simp only [ddlSchema]
  exact (map_id_pair _).symm

/-- **Every modelled schema change is a re-numbering of the key ordinals** that the by-name
resolution of the unique indexes follows. -/
theorem ddl_remap (ns : NSchema) (d : Ddl) (hwf : ns.wf = true) (hok : ddlOk ns d = true) :
    ∃ (f : Nat → Nat) (K : Nat → Prop),
      Remap ns.resolve (ddlSchema ns d).resolve f (ddlRow d) K (fun r => r.length = ns.names.length) := by
  cases d with
  | addCol p name c => exact ⟨_, _, remap_addCol ns p name c hwf hok⟩
  | dropCol c => exact ⟨_, _, remap_dropCol ns c hok⟩
  | renCol c name => exact ⟨_, _, remap_renCol ns c name hwf hok⟩
  | renTab => exact ⟨_, _, remap_renTab ns⟩

end Gms.MemTable
