/-
Lemmas for `Gms.Model.ProcSnap` (C36): registry writes stay inside the cells the registry owns, a
deep snapshot lives in cells the registry does not own.
-/
import Gms.Model.ProcSnap

namespace Gms.ProcSnap
open List

theorem findT_mem {ts : List TProg} {n : String} {t : TProg} (h : findT ts n = some t) : t ∈ ts :=
  List.mem_of_find?_eq_some h

theorem upd_other (f : Nat → PMap) (a b : Nat) (v : PMap) (h : b ≠ a) : upd f a v b = f b := by
  simp [upd, h]

theorem upd_same (f : Nat → PMap) (a : Nat) (v : PMap) : upd f a v a = v := by
  simp [upd]

/-- The live registry neither owns nor will ever allocate an address in `[lo, hi)`. -/
structure Inv (lo hi : Nat) (r : Reg) : Prop where
  next : hi ≤ r.next
  live : ∀ t ∈ r.tables, t.parts < lo ∨ hi ≤ t.parts

/-- One registry write keeps the invariant and does not touch the cells in `[lo, hi)`. -/
theorem apply_inv {lo hi : Nat} {r : Reg} (op : Op) (h : Inv lo hi r) :
    Inv lo hi (apply r op) ∧ ∀ a, lo ≤ a → a < hi → (apply r op).cells a = r.cells a := by
  have hn := h.next
  have hl := h.live
  have wr : ∀ t ∈ r.tables, ∀ (v : PMap) (a : Nat), lo ≤ a → a < hi → upd r.cells t.parts v a = r.cells a := by
    intro t ht v a h1 h2
    apply upd_other
    rcases hl t ht with h3 | h3 <;> omega
  have fresh : ∀ (v : PMap) (a : Nat), lo ≤ a → a < hi → upd r.cells r.next v a = r.cells a := by
    intro v a h1 h2
    apply upd_other; omega
  have grow : ∀ (n : String) (d : Nat), ∀ t ∈ r.tables ++ [(⟨n, d, r.next⟩ : TProg)], t.parts < lo ∨ hi ≤ t.parts := by
    intro n d t ht
    rcases mem_append.1 ht with ht | ht
    · exact hl t ht
    · rw [mem_singleton.1 ht]; right; exact hn
  cases op with
  | addTable n =>
    simp only [apply]
    split
    · exact ⟨h, fun _ _ _ => rfl⟩
    · exact ⟨⟨by simp only []; omega, grow n 0⟩, fresh []⟩
  | updTable n d =>
    simp only [apply]
    split
    · refine ⟨⟨hn, ?_⟩, fun _ _ _ => rfl⟩
      intro t ht
      obtain ⟨t0, ht0, rfl⟩ := mem_map.1 ht
      have := hl t0 ht0
      split <;> simpa using this
    · exact ⟨⟨by simp only []; omega, grow n d⟩, fresh []⟩
  | addPart tn p =>
    simp only [apply]
    split
    · next t ht => exact ⟨⟨hn, hl⟩, wr t (findT_mem ht) _⟩
    · exact ⟨h, fun _ _ _ => rfl⟩
  | updPart tn p d =>
    simp only [apply]
    split
    · next t ht => exact ⟨⟨hn, hl⟩, wr t (findT_mem ht) _⟩
    · exact ⟨h, fun _ _ _ => rfl⟩
  | removePart tn p =>
    simp only [apply]
    split
    · next t ht => exact ⟨⟨hn, hl⟩, wr t (findT_mem ht) _⟩
    · exact ⟨h, fun _ _ _ => rfl⟩
  | removeTable n =>
    exact ⟨⟨hn, fun t ht => hl t (mem_filter.1 ht).1⟩, fun _ _ _ => rfl⟩

theorem applyAll_inv {lo hi : Nat} (ops : List Op) (r : Reg) (h : Inv lo hi r) :
    Inv lo hi (applyAll r ops) ∧ ∀ a, lo ≤ a → a < hi → (applyAll r ops).cells a = r.cells a := by
  induction ops generalizing r with
  | nil => exact ⟨h, fun _ _ _ => rfl⟩
  | cons op ops ih =>
    have h1 := apply_inv op h
    have h2 := ih (apply r op) h1.1
    exact ⟨h2.1, fun a ha hb => (h2.2 a ha hb).trans (h1.2 a ha hb)⟩

/-- `copyTables` allocates one cell per table, leaves every older cell alone, and the copies hold
what the originals held. -/
theorem copyTables_spec (cells : Nat → PMap) (next : Nat) (ts : List TProg) (hts : ∀ t ∈ ts, t.parts < next) :
    (copyTables cells next ts).2.1 = next + ts.length ∧
    (∀ a, a < next → (copyTables cells next ts).1 a = cells a) ∧
    (∀ t ∈ (copyTables cells next ts).2.2, next ≤ t.parts ∧ t.parts < next + ts.length) ∧
    view (copyTables cells next ts).1 ⟨(copyTables cells next ts).2.2⟩ = view cells ⟨ts⟩ := by
  induction ts generalizing cells next with
  | nil => simp [copyTables, view]
  | cons t ts ih =>
    have ht : t.parts < next := hts t mem_cons_self
    have hts' : ∀ t' ∈ ts, t'.parts < next + 1 := fun t' h' => Nat.lt_succ_of_lt (hts t' (mem_cons_of_mem _ h'))
    obtain ⟨i1, i2, i3, i4⟩ := ih (upd cells next (cells t.parts)) (next + 1) hts'
    simp only [copyTables, length_cons]
    refine ⟨by omega, ?_, ?_, ?_⟩
    · intro a ha
      rw [i2 a (by omega), upd_other _ _ _ _ (by omega)]
    · intro t' ht'
      rcases mem_cons.1 ht' with rfl | ht'
      · simp only []; omega
      · have := i3 t' ht'; omega
    · simp only [view, map_cons] at i4 ⊢
      rw [i4]
      congr 1
      · rw [i2 next (by omega), upd_same]
      · apply map_congr_left
        intro t' ht'
        rw [upd_other _ _ _ _ (by have := hts t' (mem_cons_of_mem _ ht'); omega)]

/-- Registry writes keep every live map allocated. -/
theorem wf_apply (r : Reg) (op : Op) (h : WF r) : WF (apply r op) := by
  have grow : ∀ (n : String) (d : Nat), ∀ t ∈ r.tables ++ [(⟨n, d, r.next⟩ : TProg)], t.parts < r.next + 1 := by
    intro n d t ht
    rcases mem_append.1 ht with ht | ht
    · exact Nat.lt_succ_of_lt (h t ht)
    · rw [mem_singleton.1 ht]; exact Nat.lt_succ_self _
  cases op with
  | addTable n =>
    simp only [apply]
    split
    · exact h
    · exact grow n 0
  | updTable n d =>
    simp only [apply]
    split
    · intro t ht
      obtain ⟨t0, ht0, rfl⟩ := mem_map.1 ht
      have := h t0 ht0
      split <;> simpa using this
    · exact grow n d
  | addPart tn p => simp only [apply]; split <;> exact h
  | updPart tn p d => simp only [apply]; split <;> exact h
  | removePart tn p => simp only [apply]; split <;> exact h
  | removeTable n => exact fun t ht => h t (mem_filter.1 ht).1

theorem wf_applyAll (r : Reg) (ops : List Op) (h : WF r) : WF (applyAll r ops) := by
  induction ops generalizing r with
  | nil => exact h
  | cons op ops ih => exact ih (apply r op) (wf_apply r op h)

/-- **A deep snapshot is a value**: whatever the registry is asked to do afterwards, a reader of
the snapshot sees the state at the moment it was taken. -/
theorem deep_snapshot_stable (r : Reg) (hwf : WF r) (ops : List Op) :
    view (applyAll (snapDeep r).1 ops).cells (snapDeep r).2 = view r.cells ⟨r.tables⟩ := by
  obtain ⟨c1, _, c3, c4⟩ := copyTables_spec r.cells r.next r.tables hwf
  have hinv : Inv r.next (r.next + r.tables.length) (snapDeep r).1 :=
    ⟨by simp only [snapDeep]; omega, fun t ht => Or.inl (hwf t ht)⟩
  have hs := (applyAll_inv ops _ hinv).2
  rw [← c4]
  simp only [view, snapDeep]
  apply map_congr_left
  intro t ht
  have := c3 t ht
  have e := hs t.parts this.1 this.2
  simp only [snapDeep] at e
  rw [e]

end Gms.ProcSnap
