/-
Helper lemmas for C29 (model: Gms/Model/Collation.lean). Core Lean only.
-/
import Gms.Model.Collation

namespace Gms.Collation
open Gms.RangeMap (utf8Len)

/-! ## Decoder sizes -/

theorem utf8Len_le (s : List Nat) : utf8Len s ≤ s.length := by
  unfold utf8Len
  repeat' split
  all_goals simp
  all_goals (try split)
  all_goals omega

theorem decodeUtf8_size (s : List Nat) (h : s ≠ []) :
    1 ≤ (decodeUtf8 s).2 ∧ (decodeUtf8 s).2 ≤ 4 ∧ (decodeUtf8 s).2 ≤ s.length := by
  cases s with
  | nil => exact absurd rfl h
  | cons b0 rest =>
    have hle := utf8Len_le (b0 :: rest)
    simp only [decodeUtf8]
    repeat' split
    all_goals simp_all
    all_goals omega

theorem nextRune_size (bin : Bool) (s : List Nat) (h : s ≠ []) :
    1 ≤ (nextRune bin s).2 ∧ (nextRune bin s).2 ≤ 4 ∧ (nextRune bin s).2 ≤ s.length := by
  cases s with
  | nil => exact absurd rfl h
  | cons b rest =>
    unfold nextRune
    cases bin with
    | true => simp
    | false => simpa using decodeUtf8_size (b :: rest) (by simp)

theorem nextRune_false (s : List Nat) : nextRune false s = decodeUtf8 s := by
  cases s <;> simp [nextRune, decodeUtf8]

/-! ## Runes -/

theorem runesLoop_fuel (bin : Bool) : ∀ (f1 f2 : Nat) (s : List Nat), s.length < f1 → s.length < f2 →
    runesLoop bin f1 s = runesLoop bin f2 s := by
  intro f1
  induction f1 with
  | zero => intro _ s h; omega
  | succ f1 ih =>
    intro f2 s h1 h2
    cases f2 with
    | zero => omega
    | succ f2 =>
      unfold runesLoop
      by_cases he : s.isEmpty
      · simp [he]
      · simp only [he, Bool.false_eq_true, if_false]
        have hne : s ≠ [] := by simpa using he
        have hsz := nextRune_size bin s hne
        have hn : (if (nextRune bin s).2 = 0 then 1 else (nextRune bin s).2) = (nextRune bin s).2 := by
          split <;> omega
        rw [hn, ih f2 _ (by simp only [List.length_drop]; omega) (by simp only [List.length_drop]; omega)]

theorem runes_nil (bin : Bool) : runes bin [] = [] := by simp [runes, runesLoop]

theorem runes_cons (bin : Bool) (s : List Nat) (h : s ≠ []) :
    runes bin s = (nextRune bin s).1 :: runes bin (s.drop (nextRune bin s).2) := by
  have hsz := nextRune_size bin s h
  unfold runes
  conv => lhs; unfold runesLoop
  have he : s.isEmpty = false := by cases s <;> simp_all
  simp only [he, Bool.false_eq_true, if_false]
  have hn : (if (nextRune bin s).2 = 0 then 1 else (nextRune bin s).2) = (nextRune bin s).2 := by
    split <;> omega
  rw [hn, runesLoop_fuel bin s.length ((s.drop (nextRune bin s).2).length + 1) _
    (by simp only [List.length_drop]; omega) (by omega)]

/-! ## cmpW is a total preorder whose equivalence is equality of weight lists -/

theorem cmpW_range : ∀ (a b : List Int), cmpW a b = -1 ∨ cmpW a b = 0 ∨ cmpW a b = 1
  | [], [] => by simp [cmpW]
  | [], _ :: _ => by simp [cmpW]
  | _ :: _, [] => by simp [cmpW]
  | x :: xs, y :: ys => by
    simp only [cmpW]
    split
    · simp
    · split
      · simp
      · exact cmpW_range xs ys

theorem cmpW_refl : ∀ (a : List Int), cmpW a a = 0
  | [] => rfl
  | x :: xs => by simp [cmpW, cmpW_refl xs]

theorem cmpW_antisymm : ∀ (a b : List Int), cmpW a b = -(cmpW b a)
  | [], [] => by simp [cmpW]
  | [], _ :: _ => by simp [cmpW]
  | _ :: _, [] => by simp [cmpW]
  | x :: xs, y :: ys => by
    simp only [cmpW]
    have ih := cmpW_antisymm xs ys
    by_cases h1 : x < y
    · have h2 : ¬ y < x := by omega
      have h3 : y > x := h1
      simp [h1, h2]
    · by_cases h2 : x > y
      · have h3 : y < x := h2
        simp [h1, h2]
      · have h3 : ¬ y < x := h2
        have h4 : ¬ y > x := h1
        simp [h1, h2, h3, h4, ih]

theorem cmpW_eq_zero_iff : ∀ (a b : List Int), cmpW a b = 0 ↔ a = b
  | [], [] => by simp [cmpW]
  | [], _ :: _ => by simp [cmpW]
  | _ :: _, [] => by simp [cmpW]
  | x :: xs, y :: ys => by
    simp only [cmpW]
    have ih := cmpW_eq_zero_iff xs ys
    by_cases h1 : x < y
    · simp [h1]; omega
    · by_cases h2 : x > y
      · simp [h1, h2]; omega
      · have : x = y := by omega
        simp [h1, h2, ih, this]

theorem cmpW_trans : ∀ (a b c : List Int), cmpW a b ≤ 0 → cmpW b c ≤ 0 → cmpW a c ≤ 0
  | [], _, [], _, _ => by simp [cmpW]
  | [], _, _ :: _, _, _ => by simp [cmpW]
  | _ :: _, [], _, h, _ => by simp [cmpW] at h
  | _ :: _, _ :: _, [], _, h => by simp [cmpW] at h
  | x :: xs, y :: ys, z :: zs, h1, h2 => by
    simp only [cmpW] at h1 h2 ⊢
    have ih := cmpW_trans xs ys zs
    by_cases a1 : x < y
    · by_cases b1 : y < z
      · have : x < z := by omega
        simp [this]
      · by_cases b2 : y > z
        · simp [b1, b2] at h2
        · have : x < z := by omega
          simp [this]
    · by_cases a2 : x > y
      · simp [a1, a2] at h1
      · simp only [a1, a2, if_false] at h1
        have hxy : x = y := by omega
        subst hxy
        by_cases b1 : x < z
        · simp [b1]
        · by_cases b2 : x > z
          · simp [b1, b2] at h2
          · simp only [b1, b2, if_false] at h2 ⊢
            exact ih h1 h2

/-! ## The Go loop computes `cmpW` on the rune weights -/

theorem cmpLen_nil_left (b : List Nat) (w : Nat → Int) (bin : Bool) :
    cmpLen [] b = cmpW [] ((runes bin b).map w) := by
  cases b with
  | nil => simp [cmpLen, runes_nil, cmpW]
  | cons x t =>
    rw [runes_cons bin (x :: t) (by simp)]
    simp [cmpLen, cmpW]

theorem cmpLen_nil_right (a : List Nat) (w : Nat → Int) (bin : Bool) :
    cmpLen a [] = cmpW ((runes bin a).map w) [] := by
  cases a with
  | nil => simp [cmpLen, runes_nil, cmpW]
  | cons x t =>
    rw [runes_cons bin (x :: t) (by simp)]
    simp [cmpLen, cmpW]

theorem compareLoop_spec (w : Nat → Int) (bin : Bool) :
    ∀ (fuel : Nat) (a b : List Nat), a.length + b.length < fuel →
      compareLoop w bin fuel a b = some (compareSpec w bin a b) := by
  intro fuel
  induction fuel with
  | zero => intro a b h; omega
  | succ fuel ih =>
    intro a b hf
    unfold compareLoop compareSpec
    by_cases ha : a = []
    · subst ha; simp [cmpLen_nil_left b w bin, runes_nil]
    · by_cases hb : b = []
      · subst hb
        have : a.isEmpty = false := by cases a <;> simp_all
        simp [this, cmpLen_nil_right a w bin, runes_nil]
      · have hea : a.isEmpty = false := by cases a <;> simp_all
        have heb : b.isEmpty = false := by cases b <;> simp_all
        simp only [hea, heb, Bool.or_self, Bool.false_eq_true, if_false]
        have sa := nextRune_size bin a ha
        have sb := nextRune_size bin b hb
        rw [runes_cons bin a ha, runes_cons bin b hb]
        have hcond : ((nextRune bin a).2 = 0 || (nextRune bin b).2 = 0 || (nextRune bin a).2 = 0xFFFD ||
            (nextRune bin b).2 = 0xFFFD) = false := by
          simp only [Bool.or_eq_false_iff, decide_eq_false_iff_not, beq_eq_false_iff_ne, ne_eq]
          omega
        simp only [List.map_cons, cmpW]
        split
        · rename_i hc; rw [hcond] at hc; simp at hc
        · split
          · rfl
          · split
            · rfl
            · rw [ih _ _ (by simp only [List.length_drop]; omega)]
              rfl

/-! ## Weight strings -/

theorem wbytes_length (x : Int) : (wbytes x).length = 4 := by simp [wbytes]

theorem wbytes_inj (x y : Int) (hx : -2147483648 ≤ x ∧ x < 2147483648)
    (hy : -2147483648 ≤ y ∧ y < 2147483648) (h : wbytes x = wbytes y) : x = y := by
  simp only [wbytes, List.cons.injEq, and_true] at h
  omega

theorem flatMap_wbytes_inj : ∀ (a b : List Int),
    (∀ x ∈ a, -2147483648 ≤ x ∧ x < 2147483648) → (∀ y ∈ b, -2147483648 ≤ y ∧ y < 2147483648) →
    a.flatMap wbytes = b.flatMap wbytes → a = b
  | [], [], _, _, _ => rfl
  | [], y :: ys, _, _, h => by
    have := congrArg List.length h
    simp [wbytes_length] at this
    omega
  | x :: xs, [], _, _, h => by
    have := congrArg List.length h
    simp [wbytes_length] at this
  | x :: xs, y :: ys, ha, hb, h => by
    simp only [List.flatMap_cons] at h
    obtain ⟨h1, h2⟩ := List.append_inj h (by simp [wbytes_length])
    have := wbytes_inj x y (ha x (by simp)) (hb y (by simp)) h1
    subst this
    rw [flatMap_wbytes_inj xs ys (fun z hz => ha z (by simp [hz])) (fun z hz => hb z (by simp [hz])) h2]

theorem weightLoop_spec (w : Nat → Int) : ∀ (fuel : Nat) (s : List Nat), s.length < fuel →
    weightLoop w fuel s = some (weightsSpec w s) := by
  intro fuel
  induction fuel with
  | zero => intro s h; omega
  | succ fuel ih =>
    intro s hf
    unfold weightLoop weightsSpec
    by_cases hs : s = []
    · subst hs; simp [runes_nil]
    · have he : s.isEmpty = false := by cases s <;> simp_all
      simp only [he, Bool.false_eq_true, if_false]
      have sz := decodeUtf8_size s hs
      have hcond : ((decodeUtf8 s).2 = 0 || (decodeUtf8 s).2 = 0xFFFD) = false := by
        simp only [Bool.or_eq_false_iff, decide_eq_false_iff_not, beq_eq_false_iff_ne, ne_eq]
        omega
      rw [runes_cons false s hs, nextRune_false]
      split
      · rename_i hc; rw [hcond] at hc; simp at hc
      · rw [ih _ (by simp only [List.length_drop]; omega)]
        simp [weightsSpec]

end Gms.Collation
