/-
C08 — lemmas about `Gms.DecAgg` (aggregation buffers over shared value objects).

With the `fresh` policy a buffer never writes the heap (its accumulator is an object of its own), so the
buffers of a statement are independent of each other, the heap is the same after every statement, and each
buffer is the value-level fold of `Gms.GroupAgg` on the dereferenced values.
-/
import Gms.Model.DecAgg
namespace Gms.DecAgg
open Gms.Window Gms.GroupAgg

/-- a SUM/AVG buffer never holds a stored object as its accumulator -/
def WF (b : Buf) : Prop :=
  (b.fn = .sum ∨ b.fn = .avg) → ∀ r, b.obj ≠ some (.cell r)

/-- the buffer after one row under the `fresh` policy -/
def upd (h : Heap) (b : Buf) (v : Option Nat) : Buf := (b.update .fresh h v).2

theorem update_fresh (h : Heap) (b : Buf) (v : Option Nat) (hb : WF b) :
    (b.update .fresh h v).1 = h ∧ WF (upd h b v) ∧ (upd h b v).fn = b.fn := by
  obtain ⟨fn, obj, cnt⟩ := b
  cases v with
  | none => exact ⟨rfl, hb, rfl⟩
  | some r =>
    cases obj with
    | none => cases fn <;> simp [Buf.update, upd, sumStep, WF]
    | some o =>
      cases o with
      | own v => cases fn <;> simp [Buf.update, upd, sumStep, addInto, WF] <;> split <;> simp
      | cell c =>
        cases fn with
        | sum => exact absurd rfl (hb (Or.inl rfl) c)
        | avg => exact absurd rfl (hb (Or.inr rfl) c)
        | count => simp [Buf.update, upd, WF]
        | min => simp [Buf.update, upd, WF] <;> split <;> simp
        | max => simp [Buf.update, upd, WF] <;> split <;> simp
        | anyv => simp [Buf.update, upd, WF]

theorem stepBufs_fresh (h : Heap) (v : Option Nat) : ∀ (bufs : List Buf), (∀ b ∈ bufs, WF b) →
    stepBufs .fresh h bufs v = (h, bufs.map fun b => upd h b v)
  | [], _ => rfl
  | b :: bs, hw => by
    have hb := update_fresh h b v (hw b (by simp))
    have ih := stepBufs_fresh h v bs (fun x hx => hw x (by simp [hx]))
    have e : b.update .fresh h v = (h, upd h b v) := Prod.ext hb.1 rfl
    simp only [stepBufs, e, ih, List.map_cons]

theorem runGroup_fresh (h : Heap) : ∀ (vs : List (Option Nat)) (bufs : List Buf), (∀ b ∈ bufs, WF b) →
    runGroup .fresh h bufs vs = (h, bufs.map fun b => vs.foldl (upd h) b)
  | [], bufs, _ => by simp [runGroup]
  | v :: vs, bufs, hw => by
    have hw' : ∀ b ∈ bufs.map (fun b => upd h b v), WF b := by
      intro b hb
      obtain ⟨a, ha, rfl⟩ := List.mem_map.mp hb
      exact (update_fresh h a v (hw a ha)).2.1
    simp only [runGroup, stepBufs_fresh h v bufs hw, runGroup_fresh h vs _ hw', List.map_map, List.foldl_cons]
    rfl

theorem initBufs_wf (fns : List Fn) : ∀ b ∈ initBufs fns, WF b := by
  intro b hb
  obtain ⟨f, _, rfl⟩ := List.mem_map.mp hb
  intro _ r
  simp

theorem runGroups_fresh (h : Heap) (fns : List Fn) : ∀ (gs : List (Val × List (Option Nat))),
    runGroups .fresh h fns gs = (h, gs.map fun g => (g.1, (initBufs fns).map fun b => g.2.foldl (upd h) b))
  | [] => rfl
  | (k, vs) :: rest => by
    simp only [runGroups, runGroup_fresh h vs _ (initBufs_wf fns), runGroups_fresh h fns rest, List.map_cons]

/-! ## one buffer = the value-level fold -/

def deref (h : Heap) (vs : List (Option Nat)) : List Val := vs.map (Option.map (rd h))

theorem upd_fn (h : Heap) (b : Buf) (v : Option Nat) : (upd h b v).fn = b.fn := by
  obtain ⟨fn, obj, cnt⟩ := b
  cases v with
  | none => rfl
  | some r =>
    cases fn <;> cases obj <;> simp [upd, Buf.update, sumStep] <;> (try split) <;> simp [addInto] <;> (try split) <;> simp

theorem fold_fn (h : Heap) : ∀ (vs : List (Option Nat)) (b : Buf), (vs.foldl (upd h) b).fn = b.fn
  | [], _ => rfl
  | v :: vs, b => by rw [List.foldl_cons, fold_fn h vs, upd_fn]

def sumAbs (h : Heap) (b : Buf) : SumBuf :=
  match b.obj with
  | none => {}
  | some o => { sum := o.val h, isnil := false }

theorem sumAbs_upd (h : Heap) (b : Buf) (v : Option Nat) (hf : b.fn = .sum ∨ b.fn = .avg) (hb : WF b) :
    sumAbs h (upd h b v) = (sumAbs h b).update (v.map (rd h)) ∧
    (upd h b v).cnt = b.cnt + (if v.isSome then 1 else 0) := by
  obtain ⟨fn, obj, cnt⟩ := b
  cases v with
  | none => exact ⟨rfl, rfl⟩
  | some r =>
    rcases hf with hf | hf <;> simp only at hf <;> subst hf <;> cases obj with
    | none => simp [upd, Buf.update, sumStep, sumAbs, SumBuf.update, Obj.val]
    | some o =>
      cases o with
      | own x => simp [upd, Buf.update, sumStep, addInto, sumAbs, SumBuf.update, Obj.val]
      | cell c => exact absurd rfl (hb (by simp) c)

theorem sum_fold (h : Heap) : ∀ (vs : List (Option Nat)) (b : Buf), (b.fn = .sum ∨ b.fn = .avg) → WF b →
    sumAbs h (vs.foldl (upd h) b) = (deref h vs).foldl SumBuf.update (sumAbs h b) ∧
    ((vs.foldl (upd h) b).cnt : Int) = (deref h vs).foldl (fun (c : Int) v => if v.isSome then c + 1 else c) (b.cnt : Int)
  | [], _, _, _ => ⟨rfl, rfl⟩
  | v :: vs, b, hf, hb => by
    have hu := update_fresh h b v hb
    have hs := sumAbs_upd h b v hf hb
    have ih := sum_fold h vs (upd h b v) (by rw [hu.2.2]; exact hf) hu.2.1
    simp only [List.foldl_cons, deref, List.map_cons] at ih ⊢
    refine ⟨by rw [ih.1, hs.1], ?_⟩
    rw [ih.2, hs.2]
    cases v <;> simp [deref]

theorem cnt_fold (h : Heap) : ∀ (vs : List (Option Nat)) (b : Buf), b.fn = .count →
    ((vs.foldl (upd h) b).cnt : Int) = (deref h vs).foldl (fun (c : Int) v => if v.isSome then c + 1 else c) (b.cnt : Int)
  | [], _, _ => rfl
  | v :: vs, b, hf => by
    have ih := cnt_fold h vs (upd h b v) (by rw [upd_fn]; exact hf)
    simp only [List.foldl_cons, deref, List.map_cons] at ih ⊢
    rw [ih]
    obtain ⟨fn, obj, cnt⟩ := b
    simp only at hf
    subst hf
    cases v <;> simp [upd, Buf.update, deref]

def valAbs (h : Heap) (b : Buf) : Val := b.obj.map (Obj.val h)

theorem min_fold (h : Heap) : ∀ (vs : List (Option Nat)) (b : Buf), b.fn = .min →
    valAbs h (vs.foldl (upd h) b) = (deref h vs).foldl minUpdate (valAbs h b)
  | [], _, _ => rfl
  | v :: vs, b, hf => by
    have ih := min_fold h vs (upd h b v) (by rw [upd_fn]; exact hf)
    simp only [List.foldl_cons, deref, List.map_cons] at ih ⊢
    rw [ih]
    congr 1
    obtain ⟨fn, obj, cnt⟩ := b
    simp only at hf
    subst hf
    cases v with
    | none => rfl
    | some r =>
      cases obj with
      | none => simp [upd, Buf.update, valAbs, minUpdate, Obj.val]
      | some o =>
        simp only [upd, Buf.update, valAbs, minUpdate, Option.map_some]
        split <;> simp [Obj.val, *]

theorem max_fold (h : Heap) : ∀ (vs : List (Option Nat)) (b : Buf), b.fn = .max →
    valAbs h (vs.foldl (upd h) b) = (deref h vs).foldl maxUpdate (valAbs h b)
  | [], _, _ => rfl
  | v :: vs, b, hf => by
    have ih := max_fold h vs (upd h b v) (by rw [upd_fn]; exact hf)
    simp only [List.foldl_cons, deref, List.map_cons] at ih ⊢
    rw [ih]
    congr 1
    obtain ⟨fn, obj, cnt⟩ := b
    simp only at hf
    subst hf
    cases v with
    | none => rfl
    | some r =>
      cases obj with
      | none => simp [upd, Buf.update, valAbs, maxUpdate, Obj.val]
      | some o =>
        simp only [upd, Buf.update, valAbs, maxUpdate, Option.map_some]
        split <;> simp [Obj.val, *]

theorem anyv_fold (h : Heap) : ∀ (vs : List (Option Nat)) (b : Buf), b.fn = .anyv →
    valAbs h (vs.foldl (upd h) b) = match valAbs h b with | some x => some x | none => firstNonNull (deref h vs)
  | [], b, _ => by cases hb : valAbs h b <;> simp [deref, firstNonNull, hb]
  | v :: vs, b, hf => by
    have ih := anyv_fold h vs (upd h b v) (by rw [upd_fn]; exact hf)
    simp only [List.foldl_cons] at ih ⊢
    rw [ih]
    obtain ⟨fn, obj, cnt⟩ := b
    simp only at hf
    subst hf
    cases v with
    | none => cases obj <;> simp [upd, Buf.update, valAbs, deref, firstNonNull]
    | some r => cases obj <;> simp [upd, Buf.update, valAbs, deref, firstNonNull, Obj.val]

/-- one buffer over the rows of a group = `GroupAgg.implEval` on the dereferenced values -/
theorem bufFold_eval (h : Heap) (f : Fn) (vs : List (Option Nat)) :
    (vs.foldl (upd h) { fn := f }).eval h =
      match f with
      | .anyv => (match firstNonNull (deref h vs) with | none => .null | some v => .int v)
      | f => implEval (toG f) (deref h vs) := by
  have hwf : WF { fn := f } := fun _ r => by simp
  cases f with
  | count =>
    have := cnt_fold h vs { fn := .count } rfl
    simp only [Buf.eval, fold_fn, implEval, toG]
    rw [this]; rfl
  | sum =>
    have := (sum_fold h vs { fn := .sum } (Or.inl rfl) hwf).1
    simp only [implEval, toG]
    rw [show sumAbs h { fn := .sum } = ({} : SumBuf) from rfl] at this
    rw [← this]
    simp only [Buf.eval, fold_fn, sumAbs]
    cases (vs.foldl (upd h) { fn := .sum }).obj <;> simp [SumBuf.eval]
  | avg =>
    have hs := sum_fold h vs { fn := .avg } (Or.inr rfl) hwf
    have hav : ∀ (xs : List Val) (s : SumBuf) (c : Nat),
        xs.foldl AvgBuf.update { sum := s, rows := c } =
          { sum := xs.foldl SumBuf.update s,
            rows := (xs.foldl (fun (c : Int) v => if v.isSome then c + 1 else c) (c : Int)).toNat } := by
      intro xs
      induction xs with
      | nil => intro s c; simp
      | cons x xs ih =>
        intro s c
        cases x with
        | none => simpa [AvgBuf.update, SumBuf.update] using ih s c
        | some n =>
          simp only [List.foldl_cons, AvgBuf.update, Option.isSome_some, if_true]
          rw [ih]
          simp
    simp only [implEval, toG]
    rw [show ({} : AvgBuf) = { sum := ({} : SumBuf), rows := 0 } from rfl, hav]
    rw [show sumAbs h { fn := .avg } = ({} : SumBuf) from rfl] at hs
    rw [← hs.1]
    have hc : (0 : Nat) = ({ fn := .avg } : Buf).cnt := rfl
    rw [show ((0 : Nat) : Int) = ((({ fn := .avg } : Buf).cnt : Nat) : Int) from rfl, ← hs.2]
    simp only [Buf.eval, fold_fn, sumAbs, Int.toNat_natCast]
    cases (vs.foldl (upd h) { fn := .avg }).obj <;> simp [AvgBuf.eval]
  | min =>
    have := min_fold h vs { fn := .min } rfl
    simp only [implEval, toG]
    rw [show valAbs h { fn := .min } = none from rfl] at this
    rw [← this]
    simp only [Buf.eval, fold_fn, valAbs]
    cases (vs.foldl (upd h) { fn := .min }).obj <;> rfl
  | max =>
    have := max_fold h vs { fn := .max } rfl
    simp only [implEval, toG]
    rw [show valAbs h { fn := .max } = none from rfl] at this
    rw [← this]
    simp only [Buf.eval, fold_fn, valAbs]
    cases (vs.foldl (upd h) { fn := .max }).obj <;> rfl
  | anyv =>
    have := anyv_fold h vs { fn := .anyv } rfl
    rw [show valAbs h { fn := .anyv } = none from rfl] at this
    simp only at this
    rw [← this]
    simp only [Buf.eval, fold_fn, valAbs]
    cases (vs.foldl (upd h) { fn := .anyv }).obj <;> rfl

end Gms.DecAgg
