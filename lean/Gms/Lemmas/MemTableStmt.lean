/-
Statement-level lemmas about the MemTable model (keyed tables): Spec conflict vs Impl conflict,
plain multi-row INSERT and DELETE refine the Spec.
-/
import Gms.Lemmas.MemTableEd
namespace Gms.MemTable

/-- no unique index has a prefix length -/
def NoPrefix (sch : Schema) : Prop := ∀ u ∈ sch.uniques, ∀ p ∈ u.2, p = 0

theorem nodup_of_map {α β : Type} (f : α → β) (l : List α) (h : (l.map f).Nodup) : l.Nodup := by
  induction l with
  | nil => simp
  | cons a l ih =>
    simp only [List.map_cons, List.nodup_cons] at h ⊢
    exact ⟨fun hm => h.1 (List.mem_map_of_mem hm), ih h.2⟩

theorem find_of_mem_nodup {α β : Type} [DecidableEq β] (f : α → β) (l : List α) (h : (l.map f).Nodup)
    (x : α) (hx : x ∈ l) : l.find? (fun y => decide (f y = f x)) = some x := by
  induction l with
  | nil => simp at hx
  | cons a l ih =>
    simp only [List.map_cons, List.nodup_cons] at h
    simp only [List.find?_cons]
    rcases List.mem_cons.mp hx with rfl | hx
    · simp
    · have : ¬ f a = f x := fun e => h.1 (by rw [e]; exact List.mem_map_of_mem hx)
      simp only [this, decide_false]
      exact ih h.2 hx

/-- every row of the table-after-ApplyEdits is a stored row or a pending add. -/
theorem mem_pkApply_sub (sch : Schema) (hci : NoCi sch) (S : List Row) (e : Ed) (inv : EdInv sch S e)
    (x : Row) (hx : x ∈ pkApply sch e) : x ∈ e.rows ∨ x ∈ e.adds.map (·.2) := by
  have h := (mem_pkApply_iff sch hci e inv.nd x).mp hx
  unfold LMap at h
  rw [eff_apply sch.pk S _ _ inv.wf.addsKey inv.wf.addsNd] at h
  cases hf : (e.adds.map (·.2)).find? (fun r => decide (proj sch.pk r = proj sch.pk x)) with
  | some r =>
    rw [hf] at h
    simp only [Option.some.injEq] at h
    subst h
    exact Or.inr (List.mem_of_find?_eq_some hf)
  | none =>
    rw [hf] at h
    simp only at h
    split at h
    · cases h
    · exact Or.inl (List.mem_of_find?_eq_some h)

/-- With no pending delete and pending adds on fresh keys only (the state of a plain multi-row
INSERT), the unique-index lookup is exact. -/
theorem exact_of_no_dels (sch : Schema) (hk : sch.keyless = false) (hci : NoCi sch) (S : List Row)
    (e : Ed) (inv : EdInv sch S e) (hd : e.dels = [])
    (hfresh : ∀ a ∈ e.adds, absT sch.pk e.rows (proj sch.pk a.2) = none) (row : Row) :
    inexactNow sch e row = false := by
  unfold inexactNow
  simp only [hk, Bool.not_false, Bool.true_and]
  rw [List.any_eq_false]
  intro u _
  by_cases hn : hasNullForAnyCols row u.1 = true
  · simp [hn]
  · have hn' : hasNullForAnyCols row u.1 = false := by simpa using hn
    simp only [hn', Bool.not_false, Bool.true_and]
    have hpd : ((e.adds.map (·.2)).map (proj sch.pk)).Nodup := keyed_projs_nodup sch.pk S e.adds inv.wf.addsKey inv.wf.addsNd
    unfold pkGetByCols
    simp only [hd, List.any_nil, Bool.false_eq_true, if_false]
    cases ha : e.adds.find? (fun a => columnsMatch u.1 u.2 a.2 row) with
    | some a =>
      simp only
      have ham : a ∈ e.adds := List.mem_of_find?_eq_some ha
      have : a.2 ∈ pkApply sch e := by
        rw [mem_pkApply_iff sch hci e inv.nd]
        unfold LMap
        rw [eff_apply sch.pk S _ _ inv.wf.addsKey inv.wf.addsNd,
          find_of_mem_nodup (proj sch.pk) (e.adds.map (·.2)) hpd a.2 (List.mem_map_of_mem ham)]
      simp [this]
    | none =>
      simp only
      cases hr : e.rows.find? (fun pr => columnsMatch u.1 u.2 pr row) with
      | some ex =>
        simp only
        have hexm : ex ∈ e.rows := List.mem_of_find?_eq_some hr
        have : ex ∈ pkApply sch e := by
          rw [mem_pkApply_iff sch hci e inv.nd]
          unfold LMap
          rw [eff_apply sch.pk S _ _ inv.wf.addsKey inv.wf.addsNd]
          cases hf : (e.adds.map (·.2)).find? (fun r => decide (proj sch.pk r = proj sch.pk ex)) with
          | some r' =>
            exfalso
            have hr'm := List.mem_of_find?_eq_some hf
            obtain ⟨a, ham, rfl⟩ := List.mem_map.mp hr'm
            have hp : proj sch.pk a.2 = proj sch.pk ex := by simpa using List.find?_some hf
            have h1 := hfresh a ham
            have h2 := (absT_some_iff sch.pk e.rows inv.nd (proj sch.pk ex) ex).mpr ⟨hexm, rfl⟩
            rw [hp, h2] at h1; cases h1
          | none =>
            simp only [hd, List.map_nil, List.any_nil, Bool.false_eq_true, if_false]
            exact (absT_some_iff sch.pk e.rows inv.nd (proj sch.pk ex) ex).mpr ⟨hexm, rfl⟩
        simp [this]
      | none =>
        simp only
        rw [Bool.not_eq_true, List.any_eq_false]
        intro x hx
        rcases mem_pkApply_sub sch hci S e inv x hx with h | h
        · have := List.find?_eq_none.mp hr x h
          simpa using this
        · obtain ⟨a, ham, rfl⟩ := List.mem_map.mp h
          have := List.find?_eq_none.mp ha a ham
          simpa using this

end Gms.MemTable

namespace Gms.MemTable

theorem ci_false_of_noCi (sch : Schema) (hci : NoCi sch) (c : Nat) : (sch.cols.getD c {}).ci = false := by
  rw [List.getD_eq_getElem?_getD]
  cases h : sch.cols[c]? with
  | none => rfl
  | some col => exact hci col (List.mem_of_getElem? h)

theorem specColEq_of_colMatch (a b : Val) (h : colMatch 0 a b = true) (ha : a ≠ .null) :
    specColEq false 0 a b = true := by
  have : a = b := by simpa [colMatch] using h
  subst this
  cases a with
  | null => exact absurd rfl ha
  | int i => simp [specColEq]
  | str b => simp [specColEq]

theorem specKeyEq_of_match (sch : Schema) (hci : NoCi sch) (cols pls : List Nat) (hpl : ∀ p ∈ pls, p = 0)
    (r1 r2 : Row) (hm : columnsMatch cols pls r1 r2 = true) (hn : hasNullForAnyCols r1 cols = false) :
    specKeyEq sch cols pls r1 r2 = true := by
  induction cols generalizing pls with
  | nil => rfl
  | cons c cs ih =>
    have h0 : pls.headD 0 = 0 := by
      cases pls with
      | nil => rfl
      | cons p ps => exact hpl p (by simp)
    have ht : ∀ p ∈ pls.tail, p = 0 := fun p hp => hpl p (List.mem_of_mem_tail hp)
    simp only [columnsMatch, Bool.and_eq_true, h0] at hm
    simp only [hasNullForAnyCols, List.any_cons, Bool.or_eq_false_iff] at hn
    have hc : r1.at c ≠ .null := by intro e; have := hn.1; simp [e] at this
    simp only [specKeyEq, ci_false_of_noCi sch hci c, h0, Bool.and_eq_true]
    exact ⟨specColEq_of_colMatch _ _ hm.1 hc, ih pls.tail ht hm.2 (by simpa [hasNullForAnyCols] using hn.2)⟩

/-- the Impl-side notion of "stored row `r` collides with new row `row`" -/
def ImplConflict (sch : Schema) (r row : Row) : Prop :=
  proj sch.pk r = proj sch.pk row ∨
    ∃ u ∈ sch.uniques, hasNullForAnyCols row u.1 = false ∧ columnsMatch u.1 u.2 r row = true

theorem specConflict_of_impl (sch : Schema) (hk : sch.keyless = false) (hci : NoCi sch) (hnp : NoPrefix sch)
    (r row : Row) (hnn : hasNullForAnyCols row sch.pk = false) (h : ImplConflict sch r row) :
    specConflict sch row r = true := by
  simp only [specConflict, Schema.keys, hk, Bool.false_eq_true, if_false, List.any_append, List.any_cons,
    List.any_nil, Bool.or_false, Bool.or_eq_true]
  rcases h with h | ⟨u, hu, hn, hm⟩
  · left
    exact specKeyEq_of_match sch hci sch.pk [] (by simp) row r
      ((columnsMatch_nil_iff sch.pk row r).mpr h.symm) hnn
  · right
    rw [List.any_eq_true]
    refine ⟨u, hu, ?_⟩
    rw [columnsMatch_symm] at hm
    exact specKeyEq_of_match sch hci u.1 u.2 (hnp u hu) row r hm hn

end Gms.MemTable

namespace Gms.MemTable

theorem specColEq_imp (a b : Val) (h : specColEq false 0 a b = true) :
    colMatch 0 a b = true ∧ a ≠ .null ∧ b ≠ .null := by
  cases a <;> cases b <;> simp [specColEq] at h
  · rename_i x y
    subst h
    simp [colMatch]
  · rename_i x y
    refine ⟨?_, by simp, by simp⟩
    simp [colMatch, h]

theorem specKeyEq_imp (sch : Schema) (hci : NoCi sch) (cols pls : List Nat) (hpl : ∀ p ∈ pls, p = 0)
    (r1 r2 : Row) (h : specKeyEq sch cols pls r1 r2 = true) :
    columnsMatch cols pls r1 r2 = true ∧ hasNullForAnyCols r2 cols = false := by
  induction cols generalizing pls with
  | nil => simp [columnsMatch, hasNullForAnyCols]
  | cons c cs ih =>
    have h0 : pls.headD 0 = 0 := by
      cases pls with
      | nil => rfl
      | cons p ps => exact hpl p (by simp)
    have ht : ∀ p ∈ pls.tail, p = 0 := fun p hp => hpl p (List.mem_of_mem_tail hp)
    simp only [specKeyEq, ci_false_of_noCi sch hci c, Bool.and_eq_true, h0] at h
    obtain ⟨m, _, n2⟩ := specColEq_imp _ _ h.1
    obtain ⟨i1, i2⟩ := ih pls.tail ht h.2
    rw [← h0] at m
    refine ⟨by simp only [columnsMatch, m, i1, Bool.and_self], ?_⟩
    simp only [hasNullForAnyCols, List.any_cons, Bool.or_eq_false_iff] at i2 ⊢
    exact ⟨by simpa using n2, i2⟩

theorem edInsert_ok_form (sch : Schema) (hk : sch.keyless = false) (e : Ed) (row : Row) (e' : Ed)
    (h : edInsert sch e row = .ok e') :
    e'.dels = e.dels ∧ e'.rows = e.rows ∧ e'.adds = alSet e.adds (getRowKey sch.pk row) row := by
  unfold edInsert at h
  simp only at h
  split at h
  · cases h
  · split at h
    · cases h
    · simp only [accInsert, hk, Bool.false_eq_true, if_false] at h
      injection h with h
      subst h
      exact ⟨rfl, rfl, rfl⟩

/-- simulation relation between the editor state of a plain multi-row INSERT and the Spec table -/
structure InsSim (sch : Schema) (S : List Row) (e : Ed) (T : List Row) : Prop where
  inv : EdInv sch S e
  nodels : e.dels = []
  fresh : ∀ a ∈ e.adds, absT sch.pk e.rows (proj sch.pk a.2) = none
  mem : ∀ r, r ∈ T ↔ r ∈ pkApply sch e
  tnd : NoDupPk sch.pk T

theorem insertRows_sim (sch : Schema) (hk : sch.keyless = false) (hci : NoCi sch) (hnp : NoPrefix sch)
    (S : List Row) (hinj : KeyInjOn sch.pk S) (rows : List Row) (hS : ∀ r ∈ rows, r ∈ S)
    (hnn : ∀ r ∈ rows, hasNullForAnyCols r sch.pk = false) (e : Ed) (T : List Row) (sim : InsSim sch S e T) :
    (∃ e' T', implInsertRows sch e rows = .ok e' ∧ specInsertAll sch T rows = some T' ∧ InsSim sch S e' T')
      ∨ (∃ x, implInsertRows sch e rows = .error x ∧ specInsertAll sch T rows = none) := by
  induction rows generalizing e T with
  | nil => exact Or.inl ⟨e, T, rfl, rfl, sim⟩
  | cons r rs ih =>
    have hr : r ∈ S := hS r (by simp)
    have hrn := hnn r (by simp)
    have hex := exact_of_no_dels sch hk hci S e sim.inv sim.nodels sim.fresh r
    simp only [implInsertRows, specInsertAll]
    cases hc : edInsert sch e r with
    | error x =>
      right
      obtain ⟨m, c⟩ := edInsert_err sch hk hci S hinj e sim.inv r hr hex x hc
      have hconf : specConflict sch r x.existing = true := specConflict_of_impl sch hk hci hnp _ _ hrn c
      have : T.any (specConflict sch r) = true := List.any_eq_true.mpr ⟨x.existing, (sim.mem _).mpr m, hconf⟩
      exact ⟨x, rfl, by simp [this]⟩
    | ok e1 =>
      obtain ⟨inv1, mem1, free⟩ := edInsert_ok sch hk hci S hinj e sim.inv r hr hex e1 hc
      obtain ⟨f1, f2, f3⟩ := edInsert_ok_form sch hk e r e1 hc
      have hnoT : ∀ x ∈ T, proj sch.pk x ≠ proj sch.pk r := by
        intro x hx hp
        have := (mem_pkApply_iff sch hci e sim.inv.nd x).mp ((sim.mem x).mp hx)
        rw [hp, free] at this; cases this
      have hnc : T.any (specConflict sch r) = false := by
        rw [List.any_eq_false]
        intro x hx hcx
        simp only [specConflict, Schema.keys, hk, Bool.false_eq_true, if_false, List.any_append, List.any_cons,
          List.any_nil, Bool.or_false, Bool.or_eq_true] at hcx
        rcases hcx with hcx | hcx
        · obtain ⟨m, _⟩ := specKeyEq_imp sch hci sch.pk [] (by simp) r x hcx
          exact hnoT x hx ((columnsMatch_nil_iff sch.pk r x).mp m).symm
        · obtain ⟨u, hu, hm⟩ := List.any_eq_true.mp hcx
          obtain ⟨m, n⟩ := specKeyEq_imp sch hci u.1 u.2 (hnp u hu) r x hm
          have hx1 : x ∈ pkApply sch e1 := (mem1 x).mpr (Or.inr ((sim.mem x).mp hx))
          have hr1 : r ∈ pkApply sch e1 := (mem1 r).mpr (Or.inl rfl)
          have := inv1.ok r hr1 x hx1 (fun e => hnoT x hx e.symm) u hu n
          rw [m] at this; cases this
      simp only [hnc, Bool.false_eq_true, if_false]
      have sim1 : InsSim sch S e1 (T ++ [r]) := by
        refine ⟨inv1, by rw [f1]; exact sim.nodels, ?_, ?_, ?_⟩
        · intro a ha
          rw [f3] at ha
          rw [f2]
          rcases alSet_mem _ _ _ a ha with rfl | ha
          · simp only
            have hl := free
            unfold LMap at hl
            rw [eff_apply sch.pk S _ _ sim.inv.wf.addsKey sim.inv.wf.addsNd] at hl
            split at hl
            · cases hl
            · simpa [sim.nodels] using hl
          · exact sim.fresh a ha
        · intro x
          rw [List.mem_append, List.mem_singleton, mem1 x, sim.mem x]
          exact Or.comm
        · unfold NoDupPk
          simp only [List.map_append, List.map_cons, List.map_nil]
          rw [List.nodup_append]
          refine ⟨sim.tnd, by simp, ?_⟩
          intro a ha b hb
          simp only [List.mem_cons, List.not_mem_nil, or_false] at hb
          subst hb
          obtain ⟨x, hx, rfl⟩ := List.mem_map.mp ha
          exact hnoT x hx
      exact ih (fun r h => hS r (by simp [h])) (fun r h => hnn r (by simp [h])) e1 (T ++ [r]) sim1

/-- **Plain multi-row INSERT refines the keyed map** (statement level): outcome and table contents
of the Impl model equal the Spec's, for every keyed table satisfying the invariant and every list
of rows with distinguishable printed keys — no case-insensitive column, no prefix index. -/
theorem insert_stmt_refines (sch : Schema) (hk : sch.keyless = false) (hci : NoCi sch) (hnp : NoPrefix sch)
    (t rows : List Row) (ht : NoDupPk sch.pk t ∧ ListOK sch t) (hinj : KeyInjOn sch.pk rows)
    (hnn : ∀ r ∈ rows, hasNullForAnyCols r sch.pk = false) :
    (implStmt sch t (.insert false rows)).1 = (specStmt sch t (.insert false rows)).1
      ∧ ((implStmt sch t (.insert false rows)).2).Perm ((specStmt sch t (.insert false rows)).2) := by
  have inv0 : EdInv sch rows (stmtBegin (mkEd t)) := by
    refine ⟨⟨by simp [stmtBegin, mkEd], by simp [stmtBegin, mkEd], by simp [stmtBegin, mkEd]⟩, ht.1, ?_⟩
    have : pkApply sch (stmtBegin (mkEd t)) = sortRows sch t := rfl
    rw [this]
    exact listOK_sub sch t _ ht.2 (fun r hr => (mem_sortRows sch t r).mp hr)
  have sim0 : InsSim sch rows (stmtBegin (mkEd t)) t :=
    ⟨inv0, rfl, by simp [stmtBegin, mkEd], fun r => by
      have : pkApply sch (stmtBegin (mkEd t)) = sortRows sch t := rfl
      rw [this, mem_sortRows], ht.1⟩
  simp only [implStmt, implStmtE, specStmt]
  rcases insertRows_sim sch hk hci hnp rows hinj rows (fun r h => h) hnn _ t sim0 with
    ⟨e', T', h1, h2, sim⟩ | ⟨x, h1, h2⟩
  · rw [h1, h2]
    refine ⟨rfl, ?_⟩
    have hrows : (stmtComplete sch e').rows = pkApply sch e' := by simp [stmtComplete, applyEdits, hk]
    simp only [hrows]
    rw [List.perm_ext_iff_of_nodup (nodup_of_map _ _ (noDupPk_pkApply sch hci e' sim.inv.nd)) (nodup_of_map _ _ sim.tnd)]
    intro a
    exact (sim.mem a).symm
  · rw [h1, h2]
    exact ⟨rfl, List.Perm.refl _⟩

end Gms.MemTable

namespace Gms.MemTable

theorem foldl_pkDelete_mem (sch : Schema) (hci : NoCi sch) (S : List Row) (hinj : KeyInjOn sch.pk S)
    (ds : List Row) (hS : ∀ d ∈ ds, d ∈ S) (e : Ed) (hwf : AccWF sch.pk S e) (hnd : NoDupPk sch.pk e.rows) :
    (∀ r, r ∈ pkApply sch (ds.foldl (pkDelete sch) e) ↔ (r ∈ pkApply sch e ∧ ∀ d ∈ ds, proj sch.pk r ≠ proj sch.pk d))
      ∧ (ds.foldl (pkDelete sch) e).rows = e.rows := by
  induction ds generalizing e with
  | nil => exact ⟨fun r => by simp, rfl⟩
  | cons d ds ih =>
    simp only [List.foldl_cons]
    have hd : d ∈ S := hS d (by simp)
    have hwf1 := (eff_delete sch S hinj e hwf d hd (absT sch.pk e.rows)).2
    have hrows1 : (pkDelete sch e d).rows = e.rows := rfl
    obtain ⟨i1, i2⟩ := ih (fun x hx => hS x (by simp [hx])) (pkDelete sch e d) hwf1 (by rw [hrows1]; exact hnd)
    refine ⟨?_, by rw [i2, hrows1]⟩
    intro r
    rw [i1 r, pkApply_delete_mem sch hci S hinj e hwf hnd d hd r]
    simp only [List.mem_cons, forall_eq_or_imp]
    constructor
    · rintro ⟨⟨a, b⟩, c⟩; exact ⟨b, a, c⟩
    · rintro ⟨b, a, c⟩; exact ⟨⟨a, b⟩, c⟩

theorem mem_foldl_erase (t rows : List Row) (hnd : t.Nodup) (x : Row) :
    x ∈ rows.foldl List.erase t ↔ (x ∈ t ∧ x ∉ rows) := by
  induction rows generalizing t with
  | nil => simp
  | cons d ds ih =>
    simp only [List.foldl_cons]
    rw [ih (t.erase d) (hnd.erase d), hnd.mem_erase_iff]
    simp only [List.mem_cons, not_or]
    constructor
    · rintro ⟨⟨a, b⟩, c⟩; exact ⟨b, a, c⟩
    · rintro ⟨b, a, c⟩; exact ⟨⟨a, b⟩, c⟩

theorem nodup_foldl_erase (t rows : List Row) (hnd : t.Nodup) : (rows.foldl List.erase t).Nodup := by
  induction rows generalizing t with
  | nil => exact hnd
  | cons d ds ih => exact ih (t.erase d) (hnd.erase d)

theorem source_sub (sch : Schema) (t : List Row) (wh : List Cond) (ord : List (Nat × Bool)) (lim : Option Nat) :
    ∀ r ∈ source sch t wh ord lim, r ∈ t := by
  intro r hr
  unfold source at hr
  simp only at hr
  have hsorted : ∀ x ∈ (if ord.isEmpty then t.filter (fun r => wh.all (evalCond sch r))
      else sortRowsBy (ordLt sch ord) (t.filter (fun r => wh.all (evalCond sch r)))), x ∈ t := by
    intro x hx
    split at hx
    · exact (List.mem_filter.mp hx).1
    · exact (List.mem_filter.mp ((sortRowsBy_perm _ _).mem_iff.mp hx)).1
  cases lim with
  | none => exact hsorted r hr
  | some n => exact hsorted r (List.mem_of_mem_take hr)

/-- **DELETE refines the keyed map** (statement level, including the analyzer's TRUNCATE rewrite):
the Impl model removes exactly the selected rows and reports their number, for every keyed table
with distinct key values whose printed keys are distinguishable. -/
theorem delete_stmt_refines (sch : Schema) (hk : sch.keyless = false) (hci : NoCi sch)
    (t : List Row) (ht : NoDupPk sch.pk t) (hinj : KeyInjOn sch.pk t)
    (wh : List Cond) (ord : List (Nat × Bool)) (lim : Option Nat) :
    (implStmt sch t (.delete wh ord lim)).1 = (specStmt sch t (.delete wh ord lim)).1
      ∧ ((implStmt sch t (.delete wh ord lim)).2).Perm ((specStmt sch t (.delete wh ord lim)).2) := by
  have htn : t.Nodup := nodup_of_map _ _ ht
  have hrm : (removeRow : List Row → Row → List Row) = List.erase := by funext t r; rfl
  simp only [implStmt, implStmtE, specStmt, hrm]
  by_cases htr : (wh.isEmpty && ord.isEmpty && lim.isNone) = true
  · simp only [htr, if_true]
    simp only [Bool.and_eq_true, List.isEmpty_iff, Option.isNone_iff_eq_none] at htr
    obtain ⟨⟨rfl, rfl⟩, rfl⟩ := htr
    have hsrc : source sch t [] [] none = t := by simp [source]
    rw [hsrc]
    refine ⟨by first | rfl | trivial, ?_⟩
    have : t.foldl List.erase t = [] := by
      rw [List.eq_nil_iff_forall_not_mem]
      intro x hx
      have := (mem_foldl_erase t t htn x).mp hx
      exact this.2 this.1
    simp only [mkEd]
    rw [this]
  · simp only [htr, Bool.false_eq_true, if_false]
    refine ⟨by first | rfl | trivial, ?_⟩
    have hsub := source_sub sch t wh ord lim
    have hwf0 : AccWF sch.pk t (stmtBegin (mkEd t)) :=
      ⟨by simp [stmtBegin, mkEd], by simp [stmtBegin, mkEd], by simp [stmtBegin, mkEd]⟩
    have hfold : implDelete sch (stmtBegin (mkEd t)) (source sch t wh ord lim)
        = (source sch t wh ord lim).foldl (pkDelete sch) (stmtBegin (mkEd t)) := by
      unfold implDelete
      congr 1
      funext e r
      simp [edDelete, accDelete, hk]
    obtain ⟨m1, m2⟩ := foldl_pkDelete_mem sch hci t hinj (source sch t wh ord lim) hsub (stmtBegin (mkEd t)) hwf0 ht
    have hrows : (stmtComplete sch (implDelete sch (stmtBegin (mkEd t)) (source sch t wh ord lim))).rows
        = pkApply sch ((source sch t wh ord lim).foldl (pkDelete sch) (stmtBegin (mkEd t))) := by
      rw [hfold]; simp [stmtComplete, applyEdits, hk]
    rw [hrows]
    have hnd1 : NoDupPk sch.pk ((source sch t wh ord lim).foldl (pkDelete sch) (stmtBegin (mkEd t))).rows := by
      rw [m2]; exact ht
    rw [List.perm_ext_iff_of_nodup (nodup_of_map _ _ (noDupPk_pkApply sch hci _ hnd1))
      (nodup_foldl_erase t _ htn)]
    intro x
    have h0 : pkApply sch (stmtBegin (mkEd t)) = sortRows sch t := rfl
    rw [m1 x, h0, mem_sortRows]
    rw [mem_foldl_erase t _ htn x]
    constructor
    · rintro ⟨hx, hne⟩
      exact ⟨hx, fun hxs => hne x hxs rfl⟩
    · rintro ⟨hx, hns⟩
      refine ⟨hx, fun d hd hp => ?_⟩
      have hdt := hsub d hd
      have : x = d := by
        have h1 := (absT_some_iff sch.pk t ht (proj sch.pk x) x).mpr ⟨hx, rfl⟩
        have h2 := (absT_some_iff sch.pk t ht (proj sch.pk x) d).mpr ⟨hdt, hp.symm⟩
        rw [h1] at h2; injection h2
      exact hns (this ▸ hd)

end Gms.MemTable
