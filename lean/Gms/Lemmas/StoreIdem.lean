/-
C27: the value `Convert` returns is a value of the type, and a value of the type converts to itself
(the two halves of idempotence).
-/
import Gms.Lemmas.StoreDec
namespace Gms.Store
open Gms.Num Gms.Conv

/-! ### the value `Convert` returns is a value of the type -/

theorem convertToInt64_range (v : Val) (hwf : v.WF) (hne : (convertToInt64 v).err ≠ .fatal) :
    inI64 (convertToInt64 v).val ∧ ((convertToInt64 v).val < 0 → v.negative = true) := by
  cases v with
  | null => simp [convertToInt64, inI64, minI64, maxI64, Val.negative]
  | i x =>
    simp only [Val.WF] at hwf
    simp only [convertToInt64, Val.negative]
    exact ⟨hwf, fun h => by simp [h]⟩
  | u x =>
    simp only [Val.WF, inU64] at hwf
    simp only [convertToInt64]
    by_cases h : x > maxI64
    · rw [if_pos h]; simp [inI64, minI64, maxI64]
    · simp only [h, if_false]
      refine ⟨?_, fun h' => by omega⟩
      simp only [inI64, minI64, maxI64] at *; omega
  | d c s =>
    obtain ⟨_, hcase⟩ := convertToInt64_num (.d c s) hwf c s rfl
    have hp : minI64 * 10 ^ s ≤ 0 * 10 ^ s := mul_pow_le (by simp [minI64]) s
    rcases hcase with ⟨_, hv, hr⟩ | ⟨_, hv, _, _⟩ | ⟨_, hv, _, hc⟩
    · rw [hv]
      refine ⟨hr, fun h => ?_⟩
      by_cases hc0 : c < 0
      · simp [Val.negative, hc0]
      · have := rha_ge_of_ge c s 0 (by omega); omega
    · rw [hv]; simp [inI64, minI64, maxI64]
    · rw [hv]
      refine ⟨by simp [inI64, minI64, maxI64], fun _ => ?_⟩
      have : c < 0 := by omega
      simp [Val.negative, this]
  | s bs =>
    simp only [convertToInt64, Val.negative] at hne ⊢
    generalize truncateStringToInt bs = tt at *
    obtain ⟨t, trunc⟩ := tt
    simp only at hne ⊢
    by_cases hr : signedVal t < minI64 ∨ signedVal t > maxI64
    · rw [if_pos hr] at hne; exact absurd rfl hne
    · rw [if_neg hr]
      simp only
      refine ⟨by simp only [inI64]; omega, fun h => ?_⟩
      match t, h with
      | [], h => simp [signedVal, digitsVal] at h
      | c :: ds, h =>
        by_cases hc : c = 45
        · subst hc; simp
        · exfalso
          unfold signedVal at h
          split at h
          · rename_i heq; simp at heq; exact hc heq.1
          · omega
          · omega

theorem convertToUint64_range (v : Val) (hwf : v.WF) (hneg : v.negative = false) :
    0 ≤ (convertToUint64 v).val ∧ (convertToUint64 v).val ≤ maxU64 := by
  cases v with
  | null => simp [convertToUint64, maxU64]
  | i x =>
    simp only [Val.WF, inI64, minI64, maxI64] at hwf
    simp only [Val.negative, decide_eq_false_iff_not] at hneg
    simp only [convertToUint64, hneg, if_false, maxU64]; omega
  | u x =>
    simp only [Val.WF, inU64] at hwf
    simpa [convertToUint64] using hwf
  | d c s =>
    simp only [Val.negative, decide_eq_false_iff_not] at hneg
    obtain ⟨_, hcase⟩ := convertToUint64_num (.d c s) hwf c s rfl (by omega)
    rcases hcase with ⟨_, hv, h0, h1⟩ | ⟨_, hv, _, _⟩
    · rw [hv]; exact ⟨h0, h1⟩
    · rw [hv]; simp [maxU64]
  | s bs =>
    simp only [Val.negative] at hneg
    simp only [convertToUint64]
    generalize truncateStringToInt bs = tt at *
    obtain ⟨t, trunc⟩ := tt
    simp only at hneg ⊢
    have hsp : (splitSign t).1 = false := by
      match t, hneg with
      | [], _ => rfl
      | c :: ds, hneg =>
        have hc : c ≠ 45 := by intro h; subst h; simp at hneg
        unfold splitSign
        split
        · rfl
        · rename_i heq; simp at heq; exact absurd heq.1 hc
        · rfl
    generalize splitSign t = sp at *
    obtain ⟨neg, ds⟩ := sp
    simp only at hsp ⊢
    subst hsp
    by_cases hm : ((digitsVal ds 0 : Nat) : Int) > maxU64
    · rw [if_pos hm]; simp [maxU64]
    · simp only [hm, if_false, Bool.false_eq_true]
      exact ⟨by omega, by omega⟩

/-- except for the wrap of negative values into unsigned types, what an integer type's `Convert`
returns (without a fatal error) is a value of the type -/
theorem convertInt_val_storable (it : ITy) (v : Val) (hwf : v.WF) (hnn : v ≠ .null)
    (hreg : ¬ unsigned_underflow_wraps (.int it) v) (hne : (convertInt it v).err ≠ .fatal) :
    ∃ x, (convertInt it v).val = .int x ∧ it.lo ≤ x ∧ x ≤ it.hi := by
  have hneg : it.unsigned = true → v.negative = false := by
    intro hu
    cases h : v.negative
    · rfl
    · exact absurd ⟨hu, h⟩ hreg
  by_cases h1 : it = .i64
  · subst h1
    rw [convertInt_i64 v hnn] at hne ⊢
    obtain ⟨hr, _⟩ := convertToInt64_range v hwf hne
    refine ⟨_, rfl, ?_⟩
    simpa [ITy.lo, ITy.hi, ITy.unsigned, ITy.bits, inI64, minI64, maxI64] using hr
  · by_cases h2 : it = .u64
    · subst h2
      rw [convertInt_u64 v hnn]
      obtain ⟨a, b⟩ := convertToUint64_range v hwf (hneg rfl)
      refine ⟨_, rfl, ?_⟩
      simpa [ITy.lo, ITy.hi, ITy.unsigned, ITy.bits, maxU64] using And.intro a b
    · obtain ⟨hlo, hlo0, hhi0, hhi, hul⟩ := narrow_bounds it ⟨h1, h2⟩
      rw [convertInt_narrow it ⟨h1, h2⟩ v hnn] at hne ⊢
      simp only at hne ⊢
      by_cases hf : (convertToInt64 v).err = .fatal
      · rw [if_pos hf] at hne; exact absurd rfl hne
      · rw [if_neg hf]
        obtain ⟨hr, hng⟩ := convertToInt64_range v hwf hf
        by_cases ha : (convertToInt64 v).val > it.hi
        · rw [if_pos ha]; exact ⟨_, rfl, by omega, by omega⟩
        · rw [if_neg ha]
          by_cases hb : (convertToInt64 v).val < it.lo
          · rw [if_pos hb]
            cases hu : it.unsigned
            · exact ⟨_, rfl, by simp, by simp; omega⟩
            · exfalso
              have := hul hu
              have h3 := hng (by omega)
              rw [hneg hu] at h3; cases h3
          · rw [if_neg hb]; exact ⟨_, rfl, by omega, by omega⟩

/-! ### a value of the type converts to itself -/

theorem convertInt_fixpoint (it : ITy) (x : Int) (hlo : it.lo ≤ x) (hhi : x ≤ it.hi) :
    convertInt it (inject (.int it) (.int x)) = ⟨.int x, .inRange, .none⟩ := by
  have hb : it.hi ≤ maxU64 ∧ minI64 ≤ it.lo ∧ (it.unsigned = false → it.hi ≤ maxI64) ∧ (it.unsigned = true → it.lo = 0) := by
    cases it <;> simp [ITy.lo, ITy.hi, ITy.unsigned, ITy.bits, minI64, maxI64, maxU64]
  by_cases h1 : it = .i64
  · subst h1; simp [inject, ITy.unsigned, convertInt, convertToInt64]
  · by_cases h2 : it = .u64
    · subst h2; simp [inject, ITy.unsigned, convertInt, convertToUint64]
    · obtain ⟨_, _, _, hhi', _⟩ := narrow_bounds it ⟨h1, h2⟩
      have hnn : inject (.int it) (.int x) ≠ .null := by
        simp only [inject]; split <;> simp
      rw [convertInt_narrow it ⟨h1, h2⟩ _ hnn]
      have e : convertToInt64 (inject (.int it) (.int x)) = ⟨x, .inRange, .none⟩ := by
        simp only [inject]
        split
        · have : ¬ x > maxI64 := by omega
          simp [convertToInt64, this]
        · simp [convertToInt64]
      rw [e]
      have a : ¬ x > it.hi := by omega
      have b : ¬ x < it.lo := by omega
      simp [a, b]

theorem convertYear_fixpoint (x : Int) (h : x = 0 ∨ (1901 ≤ x ∧ x ≤ 2155)) :
    convertYear (inject .year (.int x)) = ⟨.int x, .inRange, .none⟩ := by
  simp [inject, convertYear, yearOfInt_storable x h]

theorem convertBit_fixpoint (n : Nat) (x : Int) (h : x ≤ 2 ^ n - 1) :
    convertBit n (inject (.bit n) (.int x)) = ⟨.int x, .inRange, .none⟩ := by
  have : ¬ x > 2 ^ n - 1 := by omega
  simp [inject, convertBit, this]

theorem convertDec_fixpoint (p s : Nat) (col : Bool) (c' : Int) (sc' : Nat) (hle : sc' ≤ s)
    (hcol : col = true → sc' = s) (hb : ¬ c'.natAbs ≥ 10 ^ (p - s) * 10 ^ sc') :
    convertDec p s col (.d c' sc') = ⟨.dec c' sc', .inRange, .none⟩ := by
  have h1 : ¬ (col = true ∧ sc' ≠ s) := fun h => h.2 (hcol h.1)
  have h2 : ¬ sc' > s := by omega
  simp only [convertDec, toDecimal, h1, if_false, h2, hb]
end Gms.Store
