/-
C32 — the shape of the Go code the models in Gms/Model/JsonQuote.lean and Gms/Model/JsonPath.lean
transliterate, as the extractor printed it when the models were written (committed; compared with
the regenerated Gms/Generated/C32.lean by `Gms.C32.facts_match`).
-/
namespace Gms.C32.Expected


-- Unquote: escape switch, (byte after the backslash, statements of the arm); 256 = default
def unquoteSwitch : List (Nat × String) := [
  (34, "ret.WriteByte('\"')"),
  (98, "ret.WriteByte('\\b')"),
  (102, "ret.WriteByte('\\f')"),
  (110, "ret.WriteByte('\\n')"),
  (114, "ret.WriteByte('\\r')"),
  (116, "ret.WriteByte('\\t')"),
  (92, "ret.WriteByte('\\\\')"),
  (117, "if i+4 > len(s) { return \"\", fmt.Errorf(\"Invalid unicode: %s\", s[i+1:]) }; char, size, err := decodeEscapedUnicode([]byte(s[i+1 : i+5])); if err != nil { return \"\", err }; ret.Write(char[0:size]); i += 4"),
  (256, "ret.WriteByte(s[i])")]
def unquoteConds : List String := ["s[i] == '\\\\'", "i == len(s)", "i+4 > len(s)", "err != nil", "strlen > 1", "head == '\"' && tail == '\"'"]
def quoteConds : List String := ["b := s[i]; b < utf8.RuneSelf", "esc := quoteEscape[b]; esc != \"\"", "start < i", "c == utf8.RuneError && size == 1", "start < i", "lit:`\\ufffd`", "start < len(s)"]
def shape_walkPathAndUpdate : List String := ["if path == \"\"", "case SET,REPLACE", "ret val, true, nil", "case INSERT", "ret doc, false, nil", "case ARRAY_APPEND", "if arr, ok := doc.(JsonArray); ok", "ret doc, true, nil", "ret doc, true, nil", "case ARRAY_INSERT,REMOVE", "ret nil, false, &parseErr{msg: \"Runtime error when processing json path\", character: *cursor}", "case ", "ret nil, false, &parseErr{msg: \"Invalid JSON path expression. End of path reached\", character: *cursor}", "if path[0] == '.'", "if !ok", "if mode == ARRAY_INSERT", "ret nil, false, &parseErr{msg: \"A path expression is not a path to a cell in an array\", character: *cursor}", "ret doc, false, nil", "ret updateObject(path, strMap, val, mode, cursor)", "if path[0] == '['", "if right == -1", "ret nil, false, &parseErr{msg: \"Invalid JSON path expression. Missing ']'\", character: *cursor}", "if arr, ok := doc.(JsonArray); ok", "ret updateArray(indexString, remaining, arr, val, mode, cursor)", "ret updateObjectTreatAsArray(indexString, doc, val, mode, cursor)", "ret nil, false, &parseErr{msg: \"Invalid JSON path expression. Expected '.' or '['\", character: *cursor}"]
def shape_updateObject : List String := ["if err != nil", "ret nil, false, err", "if remainingPath == \"\"", "if mode == ARRAY_APPEND", "if !ok", "ret doc, false, nil", "if err != nil", "ret nil, false, err", "if changed", "ret doc, changed, nil", "if mode == ARRAY_INSERT", "ret nil, false, &parseErr{msg: \"A path expression is not a path to a cell in an array\", character: *cursor}", "if mode == SET || (!destructive && mode == INSERT) || (destructive && mode == REPLACE)", "if destructive && mode == REMOVE", "ret doc, updated, nil", "if err != nil", "ret nil, false, err", "if changed", "ret doc, true, nil", "ret doc, false, nil"]
def shape_updateArray : List String := ["if err != nil", "ret nil, false, err", "if index.underflow && (mode != SET)", "ret arr, false, nil", "if len(arr) > index.index && !index.overflow", "if remaining == \"\" && mode != ARRAY_APPEND", "if mode == SET || mode == REPLACE", "if mode == REMOVE", "if mode == ARRAY_INSERT", "ret arr, updated, nil", "if err != nil", "ret nil, false, err", "if changed", "ret arr, changed, nil", "if mode == SET || mode == INSERT || mode == ARRAY_INSERT", "ret newArr, true, nil", "ret arr, false, nil"]
def shape_updateObjectTreatAsArray : List String := ["if err != nil", "ret nil, false, err", "if parsedIndex.underflow", "if mode == SET || mode == INSERT", "ret newArr, true, nil", "if parsedIndex.overflow", "if mode == SET || mode == INSERT", "ret newArr, true, nil", "if mode == SET || mode == REPLACE", "ret val, true, nil", "if mode == ARRAY_APPEND", "ret newArr, true, nil", "ret doc, false, nil"]
def shape_parseIndex : List String := ["if indexStr == \"last\"", "if lastIndex < 0", "ret &parseIndexResult{index: lastIndex}, nil", "if len(parts) == 2", "if part1 == \"last\"", "if err != nil || lastMinus < 0", "ret nil, &parseErr{msg: \"Invalid JSON path expression. Expected a positive integer after 'last-'\", character: *cursor}", "if reducedIdx < 0", "ret &parseIndexResult{index: reducedIdx, underflow: underFlow}, nil", "ret nil, &parseErr{msg: \"Invalid JSON path expression. Expected 'last-N'\", character: *cursor}", "if err != nil", "ret nil, &parseErr{msg: msg, character: *cursor}", "if val > lastIndex", "ret &parseIndexResult{index: val, overflow: overflow}, nil"]
def sortKeysLess : List String := ["if len(keys[i]) != len(keys[j]) { return len(keys[i]) < len(keys[j]) }", "return keys[i] < keys[j]"]

-- writeMarshalledValue, cases float64 / int64 / uint64 and convertJsonNumbers, case json.Number
-- (transliterated by Gms/Model/JsonNum.lean: printNum, convert)
def shape_printNumber : List String := ["float64: if val == float64(int64(val)); call strconv.FormatInt(int64(val), 10); call strconv.FormatFloat(val, 'f', -1, 64)", "int64: call strconv.FormatInt(val, 10)", "uint64: call strconv.FormatUint(val, 10)"]
def shape_convertNumber : List String := ["set s := val.String()", "set f, _ := val.Float64()", "if strings.ContainsAny(s, \".eE\")", "ret f", "if math.Abs(f) < (1 << 53)", "ret f", "if i, err := val.Int64(); err == nil", "set i, err := val.Int64()", "ret i", "if u, err := strconv.ParseUint(s, 10, 64); err == nil", "set u, err := strconv.ParseUint(s, 10, 64)", "ret u", "ret f"]

end Gms.C32.Expected
