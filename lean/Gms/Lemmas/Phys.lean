/-
Lemmas for C01: permutation algebra of nested `flatMap`s and the reordering identities of the
typed join algebra of `Gms/Model/Phys.lean`.
-/
import Gms.Model.Phys

namespace Gms.Phys
open List

/-! ## flatMap / Perm toolkit (core Lean only) -/

theorem flatMap_nil_fun {α β : Type} (l : List α) : l.flatMap (fun _ => ([] : List β)) = [] := by
  induction l with
  | nil => rfl
  | cons a l ih => simp [List.flatMap_cons, ih]

theorem flatMap_append_fun_perm {α β : Type} (g h : α → List β) (l : List α) :
    (l.flatMap fun a => g a ++ h a) ~ l.flatMap g ++ l.flatMap h := by
  induction l with
  | nil => simp
  | cons a l ih =>
    simp only [List.flatMap_cons, List.append_assoc]
    refine Perm.append_left (g a) ?_
    exact (Perm.append_left (h a) ih).trans (perm_append_comm_assoc _ _ _)

/-- Exchanging two nested loops permutes the output. -/
theorem flatMap_swap_perm {α β γ : Type} (f : α → β → List γ) (l : List α) (m : List β) :
    (l.flatMap fun a => m.flatMap fun b => f a b) ~ (m.flatMap fun b => l.flatMap fun a => f a b) := by
  induction l with
  | nil => simp [flatMap_nil_fun]
  | cons a l ih =>
    simp only [List.flatMap_cons]
    exact (Perm.append_left _ ih).trans (flatMap_append_fun_perm _ _ m).symm

theorem flatMap_congr_perm {α β : Type} {f g : α → List β} (l : List α) (h : ∀ a ∈ l, f a ~ g a) :
    l.flatMap f ~ l.flatMap g := by
  induction l with
  | nil => simp
  | cons a l ih =>
    simp only [List.flatMap_cons]
    exact (h a (by simp)).append (ih fun b hb => h b (by simp [hb]))

theorem filter_flatMap' {α β : Type} (p : β → Bool) (f : α → List β) (l : List α) :
    (l.flatMap f).filter p = l.flatMap fun a => (f a).filter p := by
  induction l with
  | nil => rfl
  | cons a l ih => simp [List.flatMap_cons, ih]

theorem map_flatMap' {α β γ : Type} (g : β → γ) (f : α → List β) (l : List α) :
    (l.flatMap f).map g = l.flatMap fun a => (f a).map g := by
  induction l with
  | nil => rfl
  | cons a l ih => simp [List.flatMap_cons, ih]

theorem flatMap_flatMap' {α β γ : Type} (f : α → List β) (g : β → List γ) (l : List α) :
    (l.flatMap f).flatMap g = l.flatMap fun a => (f a).flatMap g := by
  induction l with
  | nil => rfl
  | cons a l ih => simp [List.flatMap_cons, ih]

theorem flatMap_map' {α β γ : Type} (f : α → β) (g : β → List γ) (l : List α) :
    (l.map f).flatMap g = l.flatMap fun a => g (f a) := by
  induction l with
  | nil => rfl
  | cons a l ih => simp [List.flatMap_cons, ih]

theorem flatMap_congr' {α β : Type} {f g : α → List β} (l : List α) (h : ∀ a ∈ l, f a = g a) :
    l.flatMap f = l.flatMap g := by
  induction l with
  | nil => rfl
  | cons a l ih =>
    simp only [List.flatMap_cons]
    rw [h a (by simp), ih fun b hb => h b (by simp [hb])]


theorem flatMap_filter_eq {α β : Type} (p : α → Bool) (h : α → List β) (l : List α) :
    (l.filter p).flatMap h = l.flatMap fun b => if p b then h b else [] := by
  induction l with
  | nil => rfl
  | cons a l ih =>
    by_cases hp : p a = true
    · simp [List.filter_cons, hp, List.flatMap_cons, ih]
    · simp [List.filter_cons, hp, List.flatMap_cons, ih]

theorem map_filter_eq_flatMap {α β : Type} (p : α → Bool) (f : α → β) (l : List α) :
    (l.filter p).map f = l.flatMap fun x => if p x then [f x] else [] := by
  induction l with
  | nil => rfl
  | cons a l ih => by_cases hp : p a = true <;> simp [hp, List.flatMap_cons, ih]

theorem map_eq_flatMap_singleton {α β : Type} (f : α → β) (l : List α) :
    l.map f = l.flatMap fun x => [f x] := by
  induction l with
  | nil => rfl
  | cons a l ih => simp [List.flatMap_cons, ih]

theorem filter_map_fst_const {β γ : Type} (b : β) (c : Bool) (l : List γ) :
    ((l.map fun y => (b, y)).filter fun q => c) = if c then l.map fun y => (b, y) else [] := by
  cases c <;> simp

/-! ## The reordering moves as identities of the typed algebra -/

section Moves
variable {α β γ : Type}

/-- **commute** (`commute(op)` holds for inner and cross joins): swapping the inputs of an inner
join permutes the (swapped) pairs. -/
theorem commute_inner (m : α → β → Bool) (L : List α) (R : List β) :
    ((ij m L R).map fun p => (p.2, p.1)) ~ ij (fun b a => m a b) R L := by
  unfold ij
  rw [map_flatMap']
  have h1 : (L.flatMap fun a => ((R.filter (m a)).map fun b => (a, b)).map fun p => (p.2, p.1))
      = L.flatMap fun a => R.flatMap fun b => if m a b then [(b, a)] else [] := by
    apply flatMap_congr'
    intro a _
    rw [List.map_map]
    exact map_filter_eq_flatMap (m a) _ R
  have h2 : (R.flatMap fun b => (L.filter (fun a => m a b)).map fun a => (b, a))
      = R.flatMap fun b => L.flatMap fun a => if m a b then [(b, a)] else [] := by
    apply flatMap_congr'
    intro b _
    exact map_filter_eq_flatMap (fun a => m a b) _ L
  rw [h1, h2]
  exact flatMap_swap_perm _ L R

/-- **assoc** for an inner (or cross) operator A below any left-linear operator B:
`(e1 ⋈A e2) opB e3 = e1 ⋈A (e2 opB e3)` — as *lists*, up to re-bracketing of the tuples. The
side condition of `assoc()` (B's filter does not mention e1, A's filter does not mention e3) is the
typing of `mA : α → β → Bool`, `mB : β → γ → Bool`. -/
theorem assoc_inner (s : Shape) (mA : α → β → Bool) (mB : β → γ → Bool)
    (L : List α) (R2 : List β) (R3 : List γ) :
    ((lop s (fun p z => mB p.2 z) (ij mA L R2) R3).map fun q => (q.1.1, (q.1.2, q.2)))
      = ij (fun a q => mA a q.1) L (lop s mB R2 R3) := by
  unfold lop ij
  rw [flatMap_flatMap', map_flatMap']
  apply flatMap_congr'
  intro a _
  rw [flatMap_map', map_flatMap', filter_flatMap', map_flatMap', flatMap_filter_eq]
  apply flatMap_congr'
  intro b _
  by_cases hm : mA a b = true
  · have ht : ∀ l : List (Option γ), l.filter (fun _ => true) = l := fun l => by
      induction l with
      | nil => rfl
      | cons x l ih => simp
    simp [hm, List.map_map, Function.comp_def, List.filter_map, ht]
  · simp [hm, List.map_map, Function.comp_def, List.filter_map]

/-- **l-asscom** for any two left-linear operators:
`(e1 opA e2) opB e3 ≈ (e1 opB e3) opA e2` (B's filter mentions e1 and e3 only, A's filter e1 and
e2 only). -/
theorem lasscom (sA sB : Shape) (mA : α → β → Bool) (mB : α → γ → Bool)
    (L : List α) (R2 : List β) (R3 : List γ) :
    ((lop sB (fun p z => mB p.1 z) (lop sA mA L R2) R3).map fun q => (q.1.1, q.1.2, q.2))
      ~ ((lop sA (fun p y => mA p.1 y) (lop sB mB L R3) R2).map fun q => (q.1.1, q.2, q.1.2)) := by
  unfold lop
  rw [flatMap_flatMap', map_flatMap', flatMap_flatMap', map_flatMap']
  apply flatMap_congr_perm
  intro a _
  rw [flatMap_map', map_flatMap', flatMap_map', map_flatMap']
  simp only [List.map_map, Function.comp_def]
  -- both sides: the product of A's and B's contributions for the left row `a`
  have hl : ((sA.ext (R2.filter (mA a))).flatMap fun y => (sB.ext (R3.filter (mB a))).map fun z => (a, y, z))
      = (sA.ext (R2.filter (mA a))).flatMap fun y => (sB.ext (R3.filter (mB a))).flatMap fun z => [(a, y, z)] := by
    apply flatMap_congr'; intro y _
    exact map_eq_flatMap_singleton _ _
  have hr : ((sB.ext (R3.filter (mB a))).flatMap fun z => (sA.ext (R2.filter (mA a))).map fun y => (a, y, z))
      = (sB.ext (R3.filter (mB a))).flatMap fun z => (sA.ext (R2.filter (mA a))).flatMap fun y => [(a, y, z)] := by
    apply flatMap_congr'; intro z _
    exact map_eq_flatMap_singleton _ _
  rw [hl, hr]
  exact flatMap_swap_perm _ _ _

theorem rasscom_aux (mA : β → γ → Bool) (mB : α → γ → Bool) (a : α) (b : β) (L3 : List γ) :
    ((((L3.filter (mA b)).map fun c => (b, c)).filter fun q => mB a q.2).map
        ((fun q : α × β × γ => (q.1, q.2.1, q.2.2)) ∘ fun q => (a, q)))
      = L3.flatMap fun c => if mA b c && mB a c then [(a, b, c)] else [] := by
  induction L3 with
  | nil => rfl
  | cons c L3 ih =>
    by_cases h1 : mA b c = true <;> by_cases h2 : mB a c = true <;>
      simp [List.filter_cons, h1, h2, List.flatMap_cons] at ih ⊢ <;> exact ih

theorem rasscom_aux' (mA : β → γ → Bool) (mB : α → γ → Bool) (a : α) (b : β) (L3 : List γ) :
    ((((L3.filter (mB a)).map fun c => (a, c)).filter fun q => mA b q.2).map
        ((fun q : β × α × γ => (q.2.1, q.1, q.2.2)) ∘ fun q => (b, q)))
      = L3.flatMap fun c => if mA b c && mB a c then [(a, b, c)] else [] := by
  induction L3 with
  | nil => rfl
  | cons c L3 ih =>
    by_cases h1 : mA b c = true <;> by_cases h2 : mB a c = true <;>
      simp [List.filter_cons, h1, h2, List.flatMap_cons] at ih ⊢ <;> exact ih

/-- **r-asscom** for two inner (or cross) operators:
`e1 ⋈B (e2 ⋈A e3) ≈ e2 ⋈A (e1 ⋈B e3)` (B's filter mentions e1 and e3, A's filter e2 and e3). -/
theorem rasscom_inner (mA : β → γ → Bool) (mB : α → γ → Bool)
    (L1 : List α) (L2 : List β) (L3 : List γ) :
    ((ij (fun a q => mB a q.2) L1 (ij mA L2 L3)).map fun q => (q.1, q.2.1, q.2.2))
      ~ ((ij (fun b q => mA b q.2) L2 (ij mB L1 L3)).map fun q => (q.2.1, q.1, q.2.2)) := by
  unfold ij
  rw [map_flatMap', map_flatMap']
  have h1 : (L1.flatMap fun a => (((L2.flatMap fun b => (L3.filter (mA b)).map fun c => (b, c)).filter
        fun q => mB a q.2).map fun q => (a, q)).map fun q => (q.1, q.2.1, q.2.2))
      = L1.flatMap fun a => L2.flatMap fun b => L3.flatMap fun c =>
          if mA b c && mB a c then [(a, b, c)] else [] := by
    apply flatMap_congr'; intro a _
    rw [List.map_map, filter_flatMap', map_flatMap']
    apply flatMap_congr'; intro b _
    exact rasscom_aux mA mB a b L3
  have h2 : (L2.flatMap fun b => (((L1.flatMap fun a => (L3.filter (mB a)).map fun c => (a, c)).filter
        fun q => mA b q.2).map fun q => (b, q)).map fun q => (q.2.1, q.1, q.2.2))
      = L2.flatMap fun b => L1.flatMap fun a => L3.flatMap fun c =>
          if mA b c && mB a c then [(a, b, c)] else [] := by
    apply flatMap_congr'; intro b _
    rw [List.map_map, filter_flatMap', map_flatMap']
    apply flatMap_congr'; intro a _
    exact rasscom_aux' mA mB a b L3
  rw [h1, h2]
  exact flatMap_swap_perm _ L1 L2

end Moves

/-! ## Iterator models against the relational operators -/

open Gms.Sql Gms.Rel

/-- The matching right rows of a left row. -/
def matchRows (c : Row → Row → Tri) (a : Row) (R : List Row) : List Row := R.filter fun b => c a b == .t

/-- Closed form of the `joinIter` scan without NULL exclusion. -/
theorem nlScanRow_closed (lo : Bool) (c : Row → Row → Tri) (rw : Nat) (a : Row) (R : List Row) (found : Bool) :
    nlScanRow lo false c rw a R found
      = (matchRows c a R).map (a ++ ·) ++ (if !found && (matchRows c a R).isEmpty && lo then [a ++ nulls rw] else []) := by
  induction R generalizing found with
  | nil => cases found <;> cases lo <;> simp [nlScanRow, matchRows]
  | cons b R ih =>
    unfold nlScanRow
    cases hc : c a b with
    | t =>
      have hm : matchRows c a (b :: R) = b :: matchRows c a R := by simp [matchRows, hc]
      simp [ih, hm]
    | f =>
      have hm : matchRows c a (b :: R) = matchRows c a R := by simp [matchRows, hc]
      simp [ih, hm]
    | u =>
      have hm : matchRows c a (b :: R) = matchRows c a R := by simp [matchRows, hc]
      simp [ih, hm]

/-- `joinIter` as inner join is the inner join of the SQL definition (same row sequence). -/
theorem nlJoin_inner (c : Row → Row → Tri) (rw : Nat) (L R : List Row) :
    nlJoin false false c rw L R = innerJoin (fun a b => c a b == .t) L R := by
  unfold nlJoin innerJoin
  apply flatMap_congr'
  intro a _
  simp [nlScanRow_closed, matchRows]

/-- `joinIter` as left outer join is the left outer join of the SQL definition (same sequence). -/
theorem nlJoin_left (c : Row → Row → Tri) (rw : Nat) (L R : List Row) :
    nlJoin true false c rw L R = leftJoin (fun a b => c a b == .t) rw L R := by
  unfold nlJoin leftJoin
  apply flatMap_congr'
  intro a _
  rw [nlScanRow_closed]
  show _ = if (matchRows c a R).isEmpty then [a ++ nulls rw] else (matchRows c a R).map (a ++ ·)
  cases h : (matchRows c a R).isEmpty
  · simp
  · have : matchRows c a R = [] := by simpa using h
    simp [this]

/-- `existsIter` as semi join: the left row is emitted iff some right row makes the condition TRUE
(whether or not NULLs are "excluded"). -/
theorem existsScanRow_semi (excl : Bool) (c : Row → Row → Tri) (a : Row) (R : List Row) :
    existsScanRow false excl c a R = R.any fun b => c a b == .t := by
  induction R with
  | nil => rfl
  | cons b R ih =>
    unfold existsScanRow
    cases hc : c a b <;> cases excl <;> simp [ih, hc]

/-- `existsIter` as anti join "including NULLs" (NOT EXISTS): emitted iff no right row is TRUE. -/
theorem existsScanRow_antiIncl (c : Row → Row → Tri) (a : Row) (R : List Row) :
    existsScanRow true false c a R = !(R.any fun b => c a b == .t) := by
  induction R with
  | nil => rfl
  | cons b R ih =>
    unfold existsScanRow
    cases hc : c a b <;> simp [ih, hc]

/-- `existsIter` as anti join excluding NULLs (NOT IN): emitted iff every right row is FALSE. -/
theorem existsScanRow_antiExcl (c : Row → Row → Tri) (a : Row) (R : List Row) :
    existsScanRow true true c a R = R.all fun b => c a b == .f := by
  induction R with
  | nil => rfl
  | cons b R ih =>
    unfold existsScanRow
    cases hc : c a b <;> simp [ih, hc]

theorem existsJoin_semi (excl : Bool) (c : Row → Row → Tri) (L R : List Row) :
    existsJoin false excl c L R = semiJoin (fun a b => c a b == .t) L R := by
  unfold existsJoin semiJoin
  congr 1; funext a; exact existsScanRow_semi excl c a R

theorem existsJoin_antiIncl (c : Row → Row → Tri) (L R : List Row) :
    existsJoin true false c L R = antiJoin (fun a b => c a b == .t) L R := by
  unfold existsJoin antiJoin
  congr 1; funext a; exact existsScanRow_antiIncl c a R

/-! ### Hash lookup -/

section Hash
variable {κ : Type} [DecidableEq κ]

theorem bucket_addRow (k : κ) (r : Row) (t : List (κ × List Row)) (k' : κ) :
    bucket (addRow k r t) k' = if k' = k then bucket t k' ++ [r] else bucket t k' := by
  induction t with
  | nil =>
    by_cases h : k' = k
    · subst h; simp [addRow, bucket]
    · have : ¬ k = k' := fun e => h e.symm
      simp [addRow, bucket, h, this]
  | cons p t ih =>
    obtain ⟨k1, rs⟩ := p
    by_cases h1 : k1 = k
    · subst h1
      by_cases h : k' = k1
      · subst h; simp [addRow, bucket]
      · have : ¬ k1 = k' := fun e => h e.symm
        simp [addRow, bucket, h, this]
    · by_cases h : k' = k
      · subst h
        have hb : bucket ((k1, rs) :: t) k' = bucket t k' := by simp [bucket, h1]
        have hb' : bucket ((k1, rs) :: addRow k' r t) k' = bucket (addRow k' r t) k' := by simp [bucket, h1]
        simp only [addRow, h1, if_false, hb', hb, ih, if_true]
      · by_cases h2 : k1 = k'
        · subst h2; simp [addRow, bucket, h1, h]
        · have hb : bucket ((k1, rs) :: t) k' = bucket t k' := by simp [bucket, h2]
          have hb' : bucket ((k1, rs) :: addRow k r t) k' = bucket (addRow k r t) k' := by simp [bucket, h2]
          simp only [addRow, h1, if_false, hb', hb, ih, h]

theorem bucket_foldl (kR : Row → κ) (R : List Row) (t0 : List (κ × List Row)) (k : κ) :
    bucket (R.foldl (fun t r => addRow (kR r) r t) t0) k = bucket t0 k ++ R.filter (fun r => kR r = k) := by
  induction R generalizing t0 with
  | nil => simp
  | cons r R ih =>
    simp only [List.foldl_cons, ih, bucket_addRow]
    by_cases h : k = kR r
    · have : kR r = k := h.symm
      simp [h, List.filter_cons]
    · have : ¬ kR r = k := fun e => h e.symm
      simp [h, this, List.filter_cons]

/-- The bucket of a key holds exactly the right rows with that key, in input order. -/
theorem bucket_buildTable (kR : Row → κ) (R : List Row) (k : κ) :
    bucket (buildTable kR R) k = R.filter fun r => kR r = k := by
  unfold buildTable
  rw [bucket_foldl]
  simp [bucket]

/-- Rows on which the condition is FALSE do not influence a `joinIter` scan (any mode). -/
theorem nlScanRow_filter (lo excl : Bool) (c : Row → Row → Tri) (rw : Nat) (a : Row) (P : Row → Bool)
    (R : List Row) (found : Bool) (h : ∀ b ∈ R, P b = false → c a b = .f) :
    nlScanRow lo excl c rw a (R.filter P) found = nlScanRow lo excl c rw a R found := by
  induction R generalizing found with
  | nil => rfl
  | cons b R ih =>
    have ih' := fun fd => ih fd (fun x hx => h x (by simp [hx]))
    by_cases hp : P b = true
    · simp only [List.filter_cons, hp, if_true]
      unfold nlScanRow
      cases c a b <;> simp [ih']
    · have hp' : P b = false := by simpa using hp
      have hf := h b (by simp) hp'
      simp only [List.filter_cons, hp', Bool.false_eq_true, if_false]
      rw [ih']
      conv => rhs; unfold nlScanRow
      simp [hf]

/-- Without NULL exclusion, rows on which the condition is not TRUE do not influence the scan. -/
theorem nlScanRow_filter_noexcl (lo : Bool) (c : Row → Row → Tri) (rw : Nat) (a : Row) (P : Row → Bool)
    (R : List Row) (found : Bool) (h : ∀ b ∈ R, P b = false → c a b ≠ .t) :
    nlScanRow lo false c rw a (R.filter P) found = nlScanRow lo false c rw a R found := by
  rw [nlScanRow_closed, nlScanRow_closed]
  have : matchRows c a (R.filter P) = matchRows c a R := by
    unfold matchRows
    rw [List.filter_filter]
    apply List.filter_congr
    intro b hb
    by_cases hp : P b = true
    · simp [hp]
    · have hp' : P b = false := by simpa using hp
      have := h b hb hp'
      cases hc : c a b <;> simp_all
  rw [this]

/-- A scan over rows that are all FALSE yields only the left-outer padding. -/
theorem nlScanRow_allFalse (lo excl : Bool) (c : Row → Row → Tri) (rw : Nat) (a : Row)
    (R : List Row) (found : Bool) (h : ∀ b ∈ R, c a b = .f) :
    nlScanRow lo excl c rw a R found = if !found && lo then [a ++ nulls rw] else [] := by
  induction R generalizing found with
  | nil => rfl
  | cons b R ih =>
    unfold nlScanRow
    rw [h b (by simp)]
    exact ih found (fun x hx => h x (by simp [hx]))

theorem mem_addRow (k : κ) (r : Row) (t : List (κ × List Row)) (p : κ × List Row)
    (hp : p ∈ addRow k r t) (b : Row) (hb : b ∈ p.2) : b = r ∨ ∃ q ∈ t, b ∈ q.2 := by
  induction t with
  | nil =>
    simp only [addRow, List.mem_singleton] at hp
    subst hp
    simp only [List.mem_singleton] at hb
    exact Or.inl hb
  | cons q t ih =>
    obtain ⟨k1, rs⟩ := q
    by_cases h1 : k1 = k
    · simp only [addRow, h1, if_true, List.mem_cons] at hp
      rcases hp with rfl | hp
      · simp only [List.mem_append, List.mem_singleton] at hb
        rcases hb with hb | hb
        · exact Or.inr ⟨(k1, rs), by simp, hb⟩
        · exact Or.inl hb
      · exact Or.inr ⟨p, by simp [hp], hb⟩
    · simp only [addRow, h1, if_false, List.mem_cons] at hp
      rcases hp with rfl | hp
      · exact Or.inr ⟨(k1, rs), by simp, hb⟩
      · rcases ih hp with h | ⟨q, hq, hbq⟩
        · exact Or.inl h
        · exact Or.inr ⟨q, by simp [hq], hbq⟩

theorem mem_foldl_addRow (kR : Row → κ) (R : List Row) (t0 : List (κ × List Row)) (p : κ × List Row)
    (hp : p ∈ R.foldl (fun t r => addRow (kR r) r t) t0) (b : Row) (hb : b ∈ p.2) :
    b ∈ R ∨ ∃ q ∈ t0, b ∈ q.2 := by
  induction R generalizing t0 with
  | nil => exact Or.inr ⟨p, hp, hb⟩
  | cons r R ih =>
    rcases ih _ hp with h | ⟨q, hq, hbq⟩
    · exact Or.inl (by simp [h])
    · rcases mem_addRow _ _ _ q hq b hbq with h | h
      · exact Or.inl (by simp [h])
      · exact Or.inr h

/-- Every row a probe returns is a row of the right input. -/
theorem probe_subset (excl : Bool) (kR : Row → κ) (R : List Row) (k : κ) (choice : Nat) (b : Row)
    (hb : b ∈ probe excl (buildTable kR R) k choice) : b ∈ R := by
  unfold probe at hb
  simp only at hb
  by_cases hc : (excl && (bucket (buildTable kR R) k).isEmpty) = true
  · rw [if_pos hc] at hb
    cases hg : ((buildTable kR R).filter fun p => !p.2.isEmpty)[choice % ((buildTable kR R).filter fun p => !p.2.isEmpty).length]? with
    | none => rw [hg] at hb; cases hb
    | some p =>
      rw [hg] at hb
      have hmem : p ∈ (buildTable kR R).filter (fun p => !p.2.isEmpty) := List.mem_of_getElem? hg
      have hpt : p ∈ buildTable kR R := (List.mem_filter.mp hmem).1
      rcases mem_foldl_addRow kR R [] p hpt b hb with h | ⟨q, hq, _⟩
      · exact h
      · cases hq
  · rw [if_neg hc, bucket_buildTable] at hb
    exact (List.mem_filter.mp hb).1

/-- One probe step agrees with the full scan when every right row that is not FALSE for the left
row carries the left row's key. -/
theorem scan_probe_eq (lo excl : Bool) (c : Row → Row → Tri) (rw : Nat) (kL kR : Row → κ)
    (R : List Row) (choice : Nat) (a : Row) (found : Bool)
    (G : ∀ b ∈ R, c a b ≠ .f → kR b = kL a) :
    nlScanRow lo excl c rw a (probe excl (buildTable kR R) (kL a) choice) found
      = nlScanRow lo excl c rw a R found := by
  by_cases hc : (excl && (bucket (buildTable kR R) (kL a)).isEmpty) = true
  · -- empty bucket: no right row has the key, hence every right row is FALSE for `a`
    have hemp : R.filter (fun r => kR r = kL a) = [] := by
      have := (Bool.and_eq_true _ _).mp hc |>.2
      rw [bucket_buildTable] at this
      simpa using this
    have hallR : ∀ b ∈ R, c a b = .f := by
      intro b hb
      apply Classical.byContradiction
      intro hne
      have hk := G b hb hne
      have : b ∈ R.filter (fun r => kR r = kL a) := by simp [List.mem_filter, hb, hk]
      rw [hemp] at this
      cases this
    have hallP : ∀ b ∈ probe excl (buildTable kR R) (kL a) choice, c a b = .f :=
      fun b hb => hallR b (probe_subset excl kR R (kL a) choice b hb)
    rw [nlScanRow_allFalse lo excl c rw a _ found hallP, nlScanRow_allFalse lo excl c rw a R found hallR]
  · have hp : probe excl (buildTable kR R) (kL a) choice = R.filter (fun r => kR r = kL a) := by
      unfold probe
      simp only
      rw [if_neg hc, bucket_buildTable]
    rw [hp]
    apply nlScanRow_filter
    intro b hb hP
    apply Classical.byContradiction
    intro hne
    have := G b hb hne
    simp [this] at hP

/-- **Hash join = nested loop join, for every mode** (inner, left outer, with or without NULL
exclusion, any bucket choice, lookup table published or not), *provided* every pair on which the
condition is TRUE **or NULL** agrees on the hash key. The row sequence is the same. -/
theorem hashJoinGo_eq_nl (lo excl : Bool) (c : Row → Row → Tri) (rw : Nat) (kL kR : Row → κ)
    (R : List Row) (choice : Nat) (L : List Row) (built : Bool)
    (G : ∀ a ∈ L, ∀ b ∈ R, c a b ≠ .f → kR b = kL a) :
    hashJoinGo lo excl c rw kL kR R choice L built = nlJoin lo excl c rw L R := by
  induction L generalizing built with
  | nil => rfl
  | cons a L ih =>
    unfold hashJoinGo nlJoin
    simp only [List.flatMap_cons]
    have hstep : nlScanRow lo excl c rw a (if built then probe excl (buildTable kR R) (kL a) choice else R) false
        = nlScanRow lo excl c rw a R false := by
      cases built
      · rfl
      · exact scan_probe_eq lo excl c rw kL kR R choice a false (G a (by simp))
    rw [hstep]
    congr 1
    exact ih _ (fun a' ha' => G a' (by simp [ha']))

/-- Without NULL exclusion the weaker (and usual) hypothesis suffices: TRUE pairs agree on the key. -/
theorem hashJoinGo_eq_nl_noexcl (lo : Bool) (c : Row → Row → Tri) (rw : Nat) (kL kR : Row → κ)
    (R : List Row) (choice : Nat) (L : List Row) (built : Bool)
    (H : ∀ a ∈ L, ∀ b ∈ R, c a b = .t → kR b = kL a) :
    hashJoinGo lo false c rw kL kR R choice L built = nlJoin lo false c rw L R := by
  induction L generalizing built with
  | nil => rfl
  | cons a L ih =>
    unfold hashJoinGo nlJoin
    simp only [List.flatMap_cons]
    have hstep : nlScanRow lo false c rw a (if built then probe false (buildTable kR R) (kL a) choice else R) false
        = nlScanRow lo false c rw a R false := by
      cases built
      · rfl
      · have hp : probe false (buildTable kR R) (kL a) choice = R.filter (fun r => kR r = kL a) := by
          unfold probe
          simp [bucket_buildTable]
        simp only [if_true, hp]
        apply nlScanRow_filter_noexcl
        intro b hb hP hT
        have := H a (by simp) b hb hT
        simp [this] at hP
    rw [hstep]
    congr 1
    exact ih _ (fun a' ha' => H a' (by simp [ha']))

/-- Lookup join ≈ nested loop join: the index returns, for every key, a permutation of the right
rows with that key, and TRUE pairs agree on the key. -/
theorem lookupJoin_perm_nl (lo : Bool) (c : Row → Row → Tri) (rw : Nat) (kL kR : Row → κ)
    (idx : κ → List Row) (L R : List Row)
    (hidx : ∀ k, idx k ~ R.filter (fun r => kR r = k))
    (H : ∀ a ∈ L, ∀ b ∈ R, c a b = .t → kR b = kL a) :
    lookupJoin lo c rw kL idx L ~ nlJoin lo false c rw L R := by
  unfold lookupJoin nlJoin
  apply flatMap_congr_perm
  intro a ha
  have h1 : nlScanRow lo false c rw a R false = nlScanRow lo false c rw a (R.filter fun r => kR r = kL a) false := by
    symm
    apply nlScanRow_filter_noexcl
    intro b hb hP hT
    have := H a ha b hb hT
    simp [this] at hP
  rw [h1, nlScanRow_closed, nlScanRow_closed]
  have hm : matchRows c a (idx (kL a)) ~ matchRows c a (R.filter fun r => kR r = kL a) :=
    (hidx (kL a)).filter _
  have he : (matchRows c a (idx (kL a))).isEmpty = (matchRows c a (R.filter fun r => kR r = kL a)).isEmpty :=
    hm.isEmpty_eq
  rw [he]
  exact (hm.map _).append_right _

end Hash

end Gms.Phys
