//go:build verif

package strings

// VerifQuoteEscape returns a copy of the quoteEscape table (read-only accessor for the C32
// verification harness; overlay file, /repo is not edited).
func VerifQuoteEscape() [256]string { return quoteEscape }
