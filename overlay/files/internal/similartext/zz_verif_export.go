//go:build verif

package similartext

// VerifDistance exposes distanceForStrings to the verification harness (overlay file; /repo is not edited).
func VerifDistance(source, target string) int { return distanceForStrings(source, target) }
