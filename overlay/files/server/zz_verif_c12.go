//go:build verif

package server

import (
	"github.com/dolthub/vitess/go/vt/proto/query"
	"github.com/dolthub/vitess/go/vt/sqlparser"
)

// VerifBindingsToExprs exposes the wire-binding conversion (bind variable → AST literal) used by
// ComStmtExecute, read-only, for the C12 harness.
func VerifBindingsToExprs(bindings map[string]*query.BindVariable) (map[string]sqlparser.Expr, error) {
	return bindingsToExprs(bindings)
}
