//go:build verif

package sqle

import "github.com/dolthub/go-mysql-server/sql"

// VerifReadOnlyCheck exposes Engine.readOnlyCheck (overlay file for the verification harness of
// C42; wrapper only, /repo is not edited).
func (e *Engine) VerifReadOnlyCheck(n sql.Node) error { return e.readOnlyCheck(n) }
