//go:build verif

package memory

import "github.com/dolthub/go-mysql-server/sql"

// VerifBumpAutoInc runs updateAutoIncrementSafe on a copy of v (read-only accessor for C20).
func VerifBumpAutoInc(ctx *sql.Context, col *sql.Column, v uint64) uint64 {
	updateAutoIncrementSafe(ctx, col, &v)
	return v
}

// VerifAutoIncVal returns the raw AUTO_INCREMENT counter of the table as the session of ctx sees it.
func VerifAutoIncVal(ctx *sql.Context, t *Table) uint64 {
	return t.sessionTableData(ctx).autoIncVal
}
