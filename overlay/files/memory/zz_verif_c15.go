//go:build verif

package memory

import (
	"sort"
	"strings"

	"github.com/dolthub/go-mysql-server/sql"
	"github.com/dolthub/go-mysql-server/sql/expression"
)

// Read-only accessors for the C15 / C16 checks (statement atomicity, index consistency).

// VerifIdxEntry is one row of `secondaryIndexStorage`: the extended key values and the
// `primaryRowLocation` it ends with.
type VerifIdxEntry struct {
	Vals      sql.Row
	Partition string
	Idx       int
}

// VerifIdxDump is one entry of `secondaryIndexStorage` (storage order preserved) together with
// whether `TableData.indexes` still has an index for the storage key.
type VerifIdxDump struct {
	StorageKey string // key of secondaryIndexStorage
	Name       string // Index.Name of the index found under strings.ToLower(StorageKey) in indexes ("" if none)
	HasIndex   bool
	Cols       []int // schema ordinals of Index.Exprs (nil if none)
	Unique     bool
	Entries    []VerifIdxEntry
}

// VerifDump is the table data as the session of ctx sees it.
type VerifDump struct {
	PartitionKeys []string
	Partitions    [][]sql.Row // in PartitionKeys order
	Indexes       []VerifIdxDump
	IndexNames    []string // keys of TableData.indexes, sorted
	AutoIncVal    uint64
}

func verifDumpData(data *TableData) VerifDump {
	var d VerifDump
	for _, k := range data.partitionKeys {
		d.PartitionKeys = append(d.PartitionKeys, string(k))
		rows := data.partitions[string(k)]
		cp := make([]sql.Row, len(rows))
		copy(cp, rows)
		d.Partitions = append(d.Partitions, cp)
	}
	for name := range data.indexes {
		d.IndexNames = append(d.IndexNames, name)
	}
	sort.Strings(d.IndexNames)
	var keys []string
	for k := range data.secondaryIndexStorage {
		keys = append(keys, string(k))
	}
	sort.Strings(keys)
	for _, k := range keys {
		id := VerifIdxDump{StorageKey: k}
		if ix, ok := data.indexes[strings.ToLower(k)]; ok && ix != nil {
			if mi, ok := ix.(*Index); ok {
				id.HasIndex = true
				id.Name = mi.Name
				id.Unique = mi.Unique
				for _, e := range mi.Exprs {
					if gf, ok := e.(*expression.GetField); ok {
						id.Cols = append(id.Cols, data.schema.Schema.IndexOfColName(gf.Name()))
					} else {
						id.Cols = append(id.Cols, -1)
					}
				}
			}
		}
		for _, r := range data.secondaryIndexStorage[indexName(k)] {
			if len(r) == 0 {
				continue
			}
			loc, ok := r[len(r)-1].(primaryRowLocation)
			if !ok {
				id.Entries = append(id.Entries, VerifIdxEntry{Vals: r, Partition: "?", Idx: -1})
				continue
			}
			vals := make(sql.Row, len(r)-1)
			copy(vals, r[:len(r)-1])
			id.Entries = append(id.Entries, VerifIdxEntry{Vals: vals, Partition: loc.partition, Idx: loc.idx})
		}
		d.Indexes = append(d.Indexes, id)
	}
	d.AutoIncVal = data.autoIncVal
	return d
}

// VerifDumpTable dumps the session's view of t (the data a statement of this session would read).
func VerifDumpTable(ctx *sql.Context, t *Table) VerifDump {
	return verifDumpData(t.sessionTableData(ctx))
}

// VerifDumpBase dumps the data held by the table object itself (committed data for a table
// taken from the database map).
func VerifDumpBase(t *Table) VerifDump {
	return verifDumpData(t.data)
}

// VerifPartitionOf returns the number of the partition `TableData.partition` assigns to row.
func VerifPartitionOf(ctx *sql.Context, t *Table, row sql.Row) (int, error) {
	return t.sessionTableData(ctx).partition(ctx, row)
}

// VerifIndexNamed returns the index registered under the (lower-cased) name, if any.
func VerifIndexNamed(ctx *sql.Context, t *Table, name string) sql.Index {
	ix, ok := t.sessionTableData(ctx).indexes[strings.ToLower(name)]
	if !ok {
		return nil
	}
	return ix
}
