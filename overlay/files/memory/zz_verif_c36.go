//go:build verif

package memory

import (
	"fmt"

	"github.com/dolthub/go-mysql-server/sql"
)

// Read-only accessor for the C36 check (read-only sessions share the table storage).

// VerifScanAliases returns the keys of the partitions of t for which the row slice walked by the
// iterator that Table.PartitionRows hands out starts at the same address as the stored partition
// (i.e. the iterator does not own its rows). An iterator of an unexpected type is an error.
func VerifScanAliases(ctx *sql.Context, t *Table) ([]string, error) {
	data := t.sessionTableData(ctx)
	var out []string
	for _, k := range data.partitionKeys {
		stored := data.partitions[string(k)]
		it, err := t.PartitionRows(ctx, &Partition{key: k})
		if err != nil {
			return nil, err
		}
		ti, ok := it.(*tableIter)
		if !ok {
			return nil, fmt.Errorf("partition iterator of %s is a %T", t.name, it)
		}
		if len(ti.rows) != len(stored) {
			return nil, fmt.Errorf("partition iterator of %s walks %d rows, %d are stored", t.name, len(ti.rows), len(stored))
		}
		if len(stored) > 0 && &ti.rows[0] == &stored[0] {
			out = append(out, string(k))
		}
	}
	return out, nil
}
