//go:build verif

package sqle

// VerifByQueryPid returns a copy of the byQueryPid index (overlay file for the verification
// harness of C37; read-only accessor, /repo is not edited).
func (pl *ProcessList) VerifByQueryPid() map[uint64]uint32 {
	pl.mu.RLock()
	defer pl.mu.RUnlock()
	m := make(map[uint64]uint32, len(pl.byQueryPid))
	for k, v := range pl.byQueryPid {
		m[k] = v
	}
	return m
}
