//go:build verif

package analyzer

import (
	"github.com/dolthub/go-mysql-server/sql"
	"github.com/dolthub/go-mysql-server/sql/plan"
)

// VerifValidateReadOnlyTransaction / VerifValidateReadOnlyDatabase expose the two read-only
// validation rules (overlay file for the verification harness of C42; wrappers only).
func VerifValidateReadOnlyTransaction(ctx *sql.Context, a *Analyzer, n sql.Node, scope *plan.Scope) error {
	_, _, err := validateReadOnlyTransaction(ctx, a, n, scope, DefaultRuleSelector, nil)
	return err
}

func VerifValidateReadOnlyDatabase(ctx *sql.Context, a *Analyzer, n sql.Node, scope *plan.Scope) error {
	_, _, err := validateReadOnlyDatabase(ctx, a, n, scope, DefaultRuleSelector, nil)
	return err
}
