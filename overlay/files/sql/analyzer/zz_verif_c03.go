//go:build verif

package analyzer

import (
	"github.com/dolthub/go-mysql-server/sql"
	"github.com/dolthub/go-mysql-server/sql/sets"
)

// VerifC03ScanRanges exposes the analyzer's own path from a filter expression to the range collection of an
// index scan to the verification harness (C03; overlay file, /repo is not edited): indexCoster.buildRoot (filter →
// iScanAnd / iScanOr / iScanLeaf tree), then indexScanRangeBuilder.buildRangeCollection (rangeBuildAnd / rangeBuildOr /
// rangeBuildLeaf, MySQLRangeCollection.Intersect, RemoveOverlappingRanges) with every node of the tree included in the
// scan — what the coster selects when every leaf is on the index prefix. Read-only: it builds fresh, single-use helper
// objects exactly as getCostedIndexScan does. ok = false: the filter has no index-filter tree.
func VerifC03ScanRanges(ctx *sql.Context, idx sql.Index, table string, filter sql.Expression) (tree string, ranges sql.MySQLRangeCollection, leftover int, ok bool, err error) {
	c := newIndexCoster(table)
	root, left, imprecise := c.buildRoot(ctx, filter, NewDefaultLogicTreeWalker())
	if root == nil {
		return "", nil, 0, false, nil
	}
	var include sets.FastIntSet
	for i := indexScanId(0); i <= c.i; i++ {
		include.Add(int(i))
	}
	b := newIndexScanRangeBuilder(ctx, idx, include, imprecise, c.idToExpr)
	ranges, err = b.buildRangeCollection(root)
	leftover = len(b.leftover)
	if left != nil {
		leftover++
	}
	return formatIndexFilter(root), ranges, leftover, true, err
}
