//go:build verif

package analyzer

import "github.com/dolthub/go-mysql-server/sql"

// VerifPushNot exposes pushNotFiltersHelper to the verification harness (C05; overlay file, /repo
// is not edited).
func VerifPushNot(ctx *sql.Context, e sql.Expression) (sql.Expression, error) {
	return pushNotFiltersHelper(ctx, e)
}
