//go:build verif

package sql

import "context"

// Read-only accessors for the verification harness of C46/C03 (overlay file; /repo is not edited).

// VerifValidateRangeCollection exposes validateRangeCollection.
func VerifValidateRangeCollection(ctx context.Context, coll MySQLRangeCollection) error {
	return validateRangeCollection(ctx, coll)
}

// VerifTreeNode is one node of a MySQLRangeColumnExprTree in pre-order (node, left, right).
type VerifTreeNode struct {
	Depth         int // depth inside its own (per column) tree
	Side          byte // 'T' root, 'L' left child, 'R' right child
	Red           bool
	LowerBound    MySQLRangeCut
	UpperBound    MySQLRangeCut
	MaxUpperbound MySQLRangeCut
	Inner         []VerifTreeNode // nil when the node has no inner tree
	InnerSize     int
}

// VerifShape dumps the shape of the tree (no mutation).
func (tree *MySQLRangeColumnExprTree) VerifShape() (size int, nodes []VerifTreeNode) {
	if tree == nil {
		return 0, nil
	}
	var walk func(n *rangeColumnExprTreeNode, depth int, side byte)
	walk = func(n *rangeColumnExprTreeNode, depth int, side byte) {
		if n == nil {
			return
		}
		vn := VerifTreeNode{Depth: depth, Side: side, Red: n.color == red, LowerBound: n.LowerBound, UpperBound: n.UpperBound, MaxUpperbound: n.MaxUpperbound}
		if n.Inner != nil {
			vn.InnerSize, vn.Inner = n.Inner.VerifShape()
			if vn.Inner == nil {
				vn.Inner = []VerifTreeNode{}
			}
		}
		nodes = append(nodes, vn)
		walk(n.Left, depth+1, 'L')
		walk(n.Right, depth+1, 'R')
	}
	walk(tree.root, 0, 'T')
	return tree.size, nodes
}
