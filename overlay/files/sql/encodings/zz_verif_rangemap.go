//go:build verif

package encodings

// Read-only accessors for the verification harness (overlay file; /repo is not edited).

// VerifEntry is a deep copy of one rangeMapEntry.
type VerifEntry struct {
	InR, OutR [][2]byte
	InM, OutM []int
}

// VerifRangeMap is a deep copy of the tables of a RangeMap.
type VerifRangeMap struct {
	In, Out          [][]VerifEntry
	ToUpper, ToLower map[rune]rune
}

// VerifDumpRangeMap returns a copy of the tables of e when e is a *RangeMap.
func VerifDumpRangeMap(e Encoder) (VerifRangeMap, bool) {
	rm, ok := e.(*RangeMap)
	if !ok || rm == nil {
		return VerifRangeMap{}, false
	}
	cp := func(ess [][]rangeMapEntry) [][]VerifEntry {
		out := make([][]VerifEntry, len(ess))
		for i, es := range ess {
			out[i] = make([]VerifEntry, len(es))
			for j, e := range es {
				out[i][j] = VerifEntry{
					InR:  append([][2]byte(nil), e.inputRange...),
					OutR: append([][2]byte(nil), e.outputRange...),
					InM:  append([]int(nil), e.inputMults...),
					OutM: append([]int(nil), e.outputMults...),
				}
			}
		}
		return out
	}
	res := VerifRangeMap{In: cp(rm.inputEntries), Out: cp(rm.outputEntries), ToUpper: map[rune]rune{}, ToLower: map[rune]rune{}}
	for k, v := range rm.toUpper {
		res.ToUpper[k] = v
	}
	for k, v := range rm.toLower {
		res.ToLower[k] = v
	}
	return res, true
}
