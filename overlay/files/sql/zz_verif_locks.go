//go:build verif

package sql

import (
	"sync/atomic"
	"unsafe"
)

// VerifLockRecord returns the record currently installed for a named lock (overlay file for the
// verification harness of C38; read-only accessor, /repo is not edited).
func (ls *LockSubsystem) VerifLockRecord(name string) (exists bool, owner int64, count int64) {
	nl := ls.getNamedLock(name)
	if nl == nil {
		return false, 0, 0
	}
	dest := (*unsafe.Pointer)(unsafe.Pointer(nl))
	curr := *(*ownedLock)(atomic.LoadPointer(dest))
	return true, curr.Owner, curr.Count
}
