//go:build verif

package sqlredact

import (
	"sort"
	"strings"

	"github.com/dolthub/vitess/go/vt/sqlparser"
)

// Read-only accessors for the C45 verification harness (overlay file; /repo is not edited).

// VerifCollectIdents parses sql exactly as RedactSQLForTraceInto does and returns the sorted
// identifier set collectIdents builds from the AST.
func VerifCollectIdents(sql string) ([]string, error) {
	stmt, err := sqlparser.Parse(sql)
	if err != nil {
		return nil, err
	}
	set := collectIdents(stmt)
	out := make([]string, 0, len(set))
	for k := range set {
		out = append(out, k)
	}
	sort.Strings(out)
	return out, nil
}

// VerifSymbolOps returns a copy of the symbolOps table.
func VerifSymbolOps() map[int]string {
	out := make(map[int]string, len(symbolOps))
	for k, v := range symbolOps {
		out[k] = v
	}
	return out
}

// VerifEmitToken runs emitToken on one token against the given mapping and identifier set.
func VerifEmitToken(typ int, val []byte, m *Mapping, idents []string) string {
	set := map[string]struct{}{}
	for _, s := range idents {
		set[s] = struct{}{}
	}
	var b strings.Builder
	emitToken(&b, typ, val, m, set)
	return b.String()
}

// VerifCounters returns the two mint counters of a mapping.
func VerifCounters(m *Mapping) (int, int) {
	m.mu.RLock()
	defer m.mu.RUnlock()
	return m.nCount, m.vCount
}
