//go:build verif

package function

import "time"

// Read-only accessors for the C31 harness (verification build only).

// VerifFormatDate is DATE_FORMAT's formatter (formatDate).
func VerifFormatDate(format string, t time.Time) (string, error) { return formatDate(format, t) }

// VerifMonthsDiff is TIMESTAMPDIFF's month counter (monthsDiff).
func VerifMonthsDiff(t1, t2 time.Time) int64 { return monthsDiff(t1, t2) }

// VerifMicrosecondsDiff is TIMESTAMPDIFF's microsecond difference (microsecondsDiff).
func VerifMicrosecondsDiff(t1, t2 time.Time) int64 { return microsecondsDiff(t1, t2) }
