//go:build verif

package variables

import (
	"sort"

	"github.com/dolthub/go-mysql-server/sql"
)

// VerifSysVarEntry is one entry of the two registry maps (C44 registry dump).
type VerifSysVarEntry struct {
	Key     string // map key
	Table   string // "mysql" (systemVars) | "mariadb" (mariadbSystemVars)
	Var     sql.SystemVariable
}

// VerifRegistry lists systemVars and mariadbSystemVars (sorted by table, key). Read-only.
func VerifRegistry() []VerifSysVarEntry {
	var out []VerifSysVarEntry
	for k, v := range systemVars {
		out = append(out, VerifSysVarEntry{Key: k, Table: "mysql", Var: v})
	}
	for k, v := range mariadbSystemVars {
		out = append(out, VerifSysVarEntry{Key: k, Table: "mariadb", Var: v})
	}
	sort.Slice(out, func(i, j int) bool {
		if out[i].Table != out[j].Table {
			return out[i].Table > out[j].Table
		}
		return out[i].Key < out[j].Key
	})
	return out
}
