//go:build verif

package mysql_db

import (
	"net"

	"github.com/dolthub/vitess/go/mysql"
)

// Read-only wrappers for the verification harness (C40): the authentication entry points that vitess
// calls during the handshake, reachable without a network connection. The accounts used by the harness
// have no connection-security requirement (SslType ""), so the nil *mysql.Conn is never dereferenced.

const VerifDefaultAuthMethod = string(DefaultAuthMethod)

func VerifValidateNative(authResponse, salt []byte, stored string) bool {
	return validateMysqlNativePassword(authResponse, salt, stored)
}

func VerifNativeUserEntryWithHash(db *MySQLDb, salt []byte, user string, authResponse []byte, addr net.Addr) (mysql.Getter, error) {
	return (&nativePasswordHashStorage{db: db}).UserEntryWithHash(nil, salt, user, authResponse, addr)
}

func VerifHandleUser(db *MySQLDb, method string, user string, addr net.Addr) bool {
	return newUserValidator(db, mysql.AuthMethodDescription(method)).HandleUser(user, addr)
}

func VerifSha2Fast(db *MySQLDb, user string, authResponse []byte, addr net.Addr) (mysql.Getter, mysql.CacheState, error) {
	return noopCachingStorage{db: db}.UserEntryWithCacheHash(nil, nil, user, authResponse, addr)
}

func VerifSha2Plain(db *MySQLDb, user string, password string, addr net.Addr) (mysql.Getter, error) {
	return sha2PlainTextStorage{db: db}.UserEntryWithPassword(nil, user, password, addr)
}

// VerifMatchesHostPattern exposes the host-pattern matcher used by GetUser (C40 `hp` stream).
func VerifMatchesHostPattern(host, pattern string) bool { return matchesHostPattern(host, pattern) }
