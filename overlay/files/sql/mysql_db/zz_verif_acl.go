//go:build verif

package mysql_db

import "sort"

// Read-only accessors for the verification harness (C39/C41): the privilege set with its map keys.

type VerifTbl struct {
	Key, Name string
	Privs     []int
}

type VerifRtn struct {
	Key    string
	IsProc bool
	Name   string
	Privs  []int
}

type VerifDb struct {
	Key, Name string
	Privs     []int
	Tables    []VerifTbl
	Routines  []VerifRtn
}

type VerifDyn struct {
	Name string
	WGO  bool
}

type VerifPrivSet struct {
	Global  []int
	Dynamic []VerifDyn
	Dbs     []VerifDb
}

func verifPrivs[K comparable](m map[K]struct{}, f func(K) int) []int {
	out := make([]int, 0, len(m))
	for k := range m {
		out = append(out, f(k))
	}
	sort.Ints(out)
	return out
}

// VerifDumpPrivSet returns every entry of the privilege set (also empty ones), sorted by map key.
func VerifDumpPrivSet(ps PrivilegeSet) VerifPrivSet {
	var out VerifPrivSet
	for p := range ps.globalStatic {
		out.Global = append(out.Global, int(p))
	}
	sort.Ints(out.Global)
	for n, w := range ps.globalDynamic {
		out.Dynamic = append(out.Dynamic, VerifDyn{n, w})
	}
	sort.Slice(out.Dynamic, func(i, j int) bool { return out.Dynamic[i].Name < out.Dynamic[j].Name })
	for k, d := range ps.databases {
		vd := VerifDb{Key: k, Name: d.name}
		for p := range d.privs {
			vd.Privs = append(vd.Privs, int(p))
		}
		sort.Ints(vd.Privs)
		for tk, t := range d.tables {
			vt := VerifTbl{Key: tk, Name: t.name}
			for p := range t.privs {
				vt.Privs = append(vt.Privs, int(p))
			}
			sort.Ints(vt.Privs)
			vd.Tables = append(vd.Tables, vt)
		}
		sort.Slice(vd.Tables, func(i, j int) bool { return vd.Tables[i].Key < vd.Tables[j].Key })
		for rk, r := range d.routines {
			vr := VerifRtn{Key: rk.name, IsProc: rk.isProc, Name: r.name}
			for p := range r.privs {
				vr.Privs = append(vr.Privs, int(p))
			}
			sort.Ints(vr.Privs)
			vd.Routines = append(vd.Routines, vr)
		}
		sort.Slice(vd.Routines, func(i, j int) bool {
			if vd.Routines[i].Key != vd.Routines[j].Key {
				return vd.Routines[i].Key < vd.Routines[j].Key
			}
			return !vd.Routines[i].IsProc && vd.Routines[j].IsProc
		})
		out.Dbs = append(out.Dbs, vd)
	}
	sort.Slice(out.Dbs, func(i, j int) bool { return out.Dbs[i].Key < out.Dbs[j].Key })
	return out
}
