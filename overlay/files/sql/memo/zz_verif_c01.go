//go:build verif

package memo

import (
	"github.com/dolthub/go-mysql-server/sql/plan"
)

// VerifJoinPropTables exposes the three join-reordering property tables (read-only copy) to the
// verification harness of C01 (overlay file; /repo is not edited). Entry values are the raw
// lookupTableEntry bit sets.
func VerifJoinPropTables() (assoc, lasscom, rasscom [8][8]uint8) {
	for i := 0; i < 8; i++ {
		for j := 0; j < 8; j++ {
			assoc[i][j] = uint8(assocTable[i][j])
			lasscom[i][j] = uint8(leftAsscomTable[i][j])
			rasscom[i][j] = uint8(rightAsscomTable[i][j])
		}
	}
	return
}

// VerifEntryBits returns the values of the lookupTableEntry constants, in the order
// never, always, filterA, filterB, rejectsOnLeftA, rejectsOnRightA, rejectsOnRightB.
func VerifEntryBits() [7]uint8 {
	return [7]uint8{uint8(never), uint8(always), uint8(filterA), uint8(filterB), uint8(rejectsOnLeftA), uint8(rejectsOnRightA), uint8(rejectsOnRightB)}
}

// VerifGetOpIdx is getOpIdx on a bare join type (-1 when getOpIdx panics).
func VerifGetOpIdx(t plan.JoinType) (idx int) {
	defer func() {
		if recover() != nil {
			idx = -1
		}
	}()
	return getOpIdx(&edge{op: &operator{joinType: t}})
}

// VerifCommute is commute.
func VerifCommute(t plan.JoinType) bool { return commute(t) }

// VerifCheckProperty runs checkProperty on a one-entry table for two edges whose operators are
// cross joins (index 0), with the given null-rejection sets and right vertex set of edge A.
func VerifCheckProperty(entry uint8, nullRejA, nullRejB, leftA, rightA uint64) bool {
	var tab [8][8]lookupTableEntry
	tab[0][0] = lookupTableEntry(entry)
	eA := &edge{op: &operator{joinType: plan.JoinTypeCross, leftVertices: vertexSet(leftA), rightVertices: vertexSet(rightA)}, nullRejectedRels: vertexSet(nullRejA)}
	eB := &edge{op: &operator{joinType: plan.JoinTypeCross}, nullRejectedRels: vertexSet(nullRejB)}
	return checkProperty(tab, eA, eB)
}

// VerifChainEdge is what the conflict detection computed for one edge of a synthetic join chain.
type VerifChainEdge struct {
	Op    int // the operator: left input = vertexes 0..Op-1, right input = vertex Op
	Ses   uint64
	Tes   uint64
	Rules [][2]uint64 // (from, to)
}

// VerifChainEdges builds the edges of a LEFT-DEEP CHAIN OF INNER JOINS the way buildJoinOp /
// buildInnerEdge do (operator k+1 joins vertexes 0..k with vertex k+1; one edge per conjunct, whose
// SES is ons[k][c]; an operator without conjunct is a cross join: one edge with SES 0) and runs
// the REAL edge.calcTES on each of them. Read-only: the edges are private to the call. The edges are
// returned to the caller only as plain numbers; VerifChainApplicable re-creates them.
func verifChainEdges(ons [][]uint64) []edge {
	var edges []edge
	for k, conj := range ons {
		m := k + 1
		var leftE edgeSet
		for i := range edges {
			leftE.Add(i)
		}
		typ := plan.JoinTypeInner
		if len(conj) == 0 {
			typ = plan.JoinTypeCross
			conj = []uint64{0}
		}
		op := &operator{
			joinType:      typ,
			leftVertices:  vertexSet((uint64(1) << uint(m)) - 1),
			rightVertices: vertexSet(uint64(1) << uint(m)),
			leftEdges:     leftE,
			rightEdges:    edgeSet{},
		}
		var fresh []edge
		for _, ses := range conj {
			e := edge{op: op, ses: vertexSet(ses)}
			e.calcTES(edges)
			fresh = append(fresh, e)
		}
		// (buildInnerEdge appends one edge after the other, but an edge of the same operator is not in
		// leftEdges, so the order inside one operator does not matter)
		edges = append(edges, fresh...)
	}
	return edges
}

func VerifChainEdges(ons [][]uint64) []VerifChainEdge {
	var out []VerifChainEdge
	for _, e := range verifChainEdges(ons) {
		v := VerifChainEdge{Ses: uint64(e.ses), Tes: uint64(e.tes)}
		for r := uint64(e.op.rightVertices); r > 1; r >>= 1 {
			v.Op++
		}
		for _, r := range e.rules {
			v.Rules = append(v.Rules, [2]uint64{uint64(r.from), uint64(r.to)})
		}
		out = append(out, v)
	}
	return out
}

// VerifChainApplicable: the REAL edge.applicable(s1, s2) of edge number i of the chain.
func VerifChainApplicable(ons [][]uint64, i int, s1, s2 uint64) bool {
	edges := verifChainEdges(ons)
	return edges[i].applicable(vertexSet(s1), vertexSet(s2))
}
