//go:build verif

package memo

import (
	"github.com/dolthub/go-mysql-server/sql/plan"
)

// VerifJoinPropTables exposes the three join-reordering property tables (read-only copy) to the
// verification harness of C01 (overlay file; /repo is not edited). Entry values are the raw
// lookupTableEntry bit sets.
func VerifJoinPropTables() (assoc, lasscom, rasscom [8][8]uint8) {
	for i := 0; i < 8; i++ {
		for j := 0; j < 8; j++ {
			assoc[i][j] = uint8(assocTable[i][j])
			lasscom[i][j] = uint8(leftAsscomTable[i][j])
			rasscom[i][j] = uint8(rightAsscomTable[i][j])
		}
	}
	return
}

// VerifEntryBits returns the values of the lookupTableEntry constants, in the order
// never, always, filterA, filterB, rejectsOnLeftA, rejectsOnRightA, rejectsOnRightB.
func VerifEntryBits() [7]uint8 {
	return [7]uint8{uint8(never), uint8(always), uint8(filterA), uint8(filterB), uint8(rejectsOnLeftA), uint8(rejectsOnRightA), uint8(rejectsOnRightB)}
}

// VerifGetOpIdx is getOpIdx on a bare join type (-1 when getOpIdx panics).
func VerifGetOpIdx(t plan.JoinType) (idx int) {
	defer func() {
		if recover() != nil {
			idx = -1
		}
	}()
	return getOpIdx(&edge{op: &operator{joinType: t}})
}

// VerifCommute is commute.
func VerifCommute(t plan.JoinType) bool { return commute(t) }

// VerifCheckProperty runs checkProperty on a one-entry table for two edges whose operators are
// cross joins (index 0), with the given null-rejection sets and right vertex set of edge A.
func VerifCheckProperty(entry uint8, nullRejA, nullRejB, leftA, rightA uint64) bool {
	var tab [8][8]lookupTableEntry
	tab[0][0] = lookupTableEntry(entry)
	eA := &edge{op: &operator{joinType: plan.JoinTypeCross, leftVertices: vertexSet(leftA), rightVertices: vertexSet(rightA)}, nullRejectedRels: vertexSet(nullRejA)}
	eB := &edge{op: &operator{joinType: plan.JoinTypeCross}, nullRejectedRels: vertexSet(nullRejB)}
	return checkProperty(tab, eA, eB)
}
