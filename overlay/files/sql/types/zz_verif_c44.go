//go:build verif

package types

import (
	"sort"
	"strconv"

	"github.com/dolthub/go-mysql-server/sql"
)

// VerifSysVarType is a read-only description of a system-variable type (C44 registry dump).
type VerifSysVarType struct {
	Kind    string // bool | int | uint | double | enum | set | string | other:<String()>
	VarName string // the variable name stored inside the type (used in error messages)
	Lo, Hi  string // decimal text of the bounds (int, uint; double: strconv 'g')
	NegOne  bool   // int: -1 accepted besides [Lo,Hi]
	Values  []string // enum: indexToVal in order; set: values in bit order
}

// VerifDescribeSysVarType exposes the unexported fields of the system_* types.
func VerifDescribeSysVarType(t sql.Type) VerifSysVarType {
	switch v := t.(type) {
	case SystemBoolType:
		return VerifSysVarType{Kind: "bool", VarName: v.varName}
	case systemIntType:
		return VerifSysVarType{Kind: "int", VarName: v.varName, Lo: strconv.FormatInt(v.lowerbound, 10), Hi: strconv.FormatInt(v.upperbound, 10), NegOne: v.negativeOne}
	case systemUintType:
		return VerifSysVarType{Kind: "uint", VarName: v.varName, Lo: strconv.FormatUint(v.lowerbound, 10), Hi: strconv.FormatUint(v.upperbound, 10)}
	case systemDoubleType:
		return VerifSysVarType{Kind: "double", VarName: v.varName, Lo: strconv.FormatFloat(v.lowerbound, 'g', -1, 64), Hi: strconv.FormatFloat(v.upperbound, 'g', -1, 64)}
	case systemEnumType:
		vals := append([]string(nil), v.indexToVal...)
		return VerifSysVarType{Kind: "enum", VarName: v.varName, Values: vals}
	case systemSetType:
		type bv struct {
			bit uint64
			val string
		}
		st, _ := v.SetType.(SetType)
		var bvs []bv
		for b, s := range st.bitToVal {
			bvs = append(bvs, bv{b, s})
		}
		sort.Slice(bvs, func(i, j int) bool { return bvs[i].bit < bvs[j].bit })
		var vals []string
		for _, x := range bvs {
			vals = append(vals, x.val)
		}
		return VerifSysVarType{Kind: "set", VarName: v.varName, Values: vals}
	case systemStringType:
		return VerifSysVarType{Kind: "string", VarName: v.varName}
	}
	return VerifSysVarType{Kind: "other:" + t.String()}
}
