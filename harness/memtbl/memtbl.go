// Package memtbl holds what the C13 and C14 harnesses share: the statement IR (mirrors
// lean/Gms/Model/MemTable.lean `Stmt`), its rendering as SQL and as line-protocol payload,
// the history runner against the real engine, the model-free uniqueness oracle, generators and
// go/ast fact helpers.
package memtbl

import (
	"fmt"
	"go/ast"
	"go/token"
	"sort"
	"strconv"
	"strings"

	"github.com/dolthub/go-mysql-server/verifharness/hx"
	"github.com/dolthub/go-mysql-server/verifharness/hx/eng"
)

// ---------------------------------------------------------------------------------------------
// IR

type Col struct {
	Str      bool
	Nullable bool
	CI       bool // utf8mb4_0900_ai_ci instead of utf8mb4_0900_bin
}

type Uniq struct {
	Cols   []int
	Prefix []int // 0 = whole column
}

type Schema struct {
	Cols []Col
	PK   []int
	Uniq []Uniq
}

type Val struct {
	Null  bool
	IsStr bool
	I     int64
	S     string
}

func Int(i int64) Val  { return Val{I: i} }
func Str(s string) Val { return Val{IsStr: true, S: s} }

var Null = Val{Null: true}

type Row []Val

type Asg struct {
	Kind string // set | add | vals
	C    int
	V    Val
	K    int64
}

type Cond struct {
	Op string // eq ne lt le gt ge isnull notnull
	C  int
	V  Val
}

type Ord struct {
	C    int
	Desc bool
}

type Stmt struct {
	Kind   string // ins | rep | odku | upd | del
	Ignore bool
	Rows   []Row
	Asg    []Asg
	Where  []Cond
	Ord    []Ord
	Lim    int // -1 = none
}

func (s Schema) Keyless() bool { return len(s.PK) == 0 }

// IsKeyCol reports whether column c belongs to the primary key or a unique index.
func (s Schema) IsKeyCol(c int) bool {
	for _, k := range s.PK {
		if k == c {
			return true
		}
	}
	for _, u := range s.Uniq {
		for _, k := range u.Cols {
			if k == c {
				return true
			}
		}
	}
	return false
}

// ---------------------------------------------------------------------------------------------
// SQL rendering

func colName(i int) string { return "c" + strconv.Itoa(i) }

func (v Val) SQL() string {
	switch {
	case v.Null:
		return "NULL"
	case v.IsStr:
		return "'" + strings.ReplaceAll(v.S, "'", "''") + "'"
	}
	return strconv.FormatInt(v.I, 10)
}

func (s Schema) DDL(table string) string {
	var parts []string
	for i, c := range s.Cols {
		d := colName(i)
		if c.Str {
			coll := "utf8mb4_0900_bin"
			if c.CI {
				coll = "utf8mb4_0900_ai_ci"
			}
			d += " VARCHAR(16) COLLATE " + coll
		} else {
			d += " INT"
		}
		if !c.Nullable {
			d += " NOT NULL"
		}
		parts = append(parts, d)
	}
	if len(s.PK) > 0 {
		var ks []string
		for _, k := range s.PK {
			ks = append(ks, colName(k))
		}
		parts = append(parts, "PRIMARY KEY ("+strings.Join(ks, ", ")+")")
	}
	for i, u := range s.Uniq {
		var ks []string
		for j, k := range u.Cols {
			n := colName(k)
			if j < len(u.Prefix) && u.Prefix[j] > 0 {
				n += "(" + strconv.Itoa(u.Prefix[j]) + ")"
			}
			ks = append(ks, n)
		}
		parts = append(parts, fmt.Sprintf("UNIQUE KEY u%d (%s)", i, strings.Join(ks, ", ")))
	}
	return "CREATE TABLE " + table + " (" + strings.Join(parts, ", ") + ")"
}

func rowsSQL(rows []Row) string {
	var rs []string
	for _, r := range rows {
		var vs []string
		for _, v := range r {
			vs = append(vs, v.SQL())
		}
		rs = append(rs, "("+strings.Join(vs, ", ")+")")
	}
	return strings.Join(rs, ", ")
}

func asgSQL(as []Asg) string { return asgSQLn(as, colName) }

func asgSQLn(as []Asg, colName func(int) string) string {
	var ps []string
	for _, a := range as {
		n := colName(a.C)
		switch a.Kind {
		case "set":
			ps = append(ps, n+" = "+a.V.SQL())
		case "add":
			ps = append(ps, fmt.Sprintf("%s = %s + %d", n, n, a.K))
		case "vals":
			ps = append(ps, fmt.Sprintf("%s = VALUES(%s)", n, n))
		}
	}
	return strings.Join(ps, ", ")
}

var opSQL = map[string]string{"eq": "=", "ne": "<>", "lt": "<", "le": "<=", "gt": ">", "ge": ">="}

func tailSQL(st Stmt) string { return tailSQLn(st, colName) }

func tailSQLn(st Stmt, colName func(int) string) string {
	var b strings.Builder
	if len(st.Where) > 0 {
		var ps []string
		for _, c := range st.Where {
			switch c.Op {
			case "isnull":
				ps = append(ps, colName(c.C)+" IS NULL")
			case "notnull":
				ps = append(ps, colName(c.C)+" IS NOT NULL")
			default:
				ps = append(ps, colName(c.C)+" "+opSQL[c.Op]+" "+c.V.SQL())
			}
		}
		b.WriteString(" WHERE " + strings.Join(ps, " AND "))
	}
	if len(st.Ord) > 0 {
		var ps []string
		for _, o := range st.Ord {
			p := colName(o.C)
			if o.Desc {
				p += " DESC"
			}
			ps = append(ps, p)
		}
		b.WriteString(" ORDER BY " + strings.Join(ps, ", "))
	}
	if st.Lim >= 0 {
		b.WriteString(" LIMIT " + strconv.Itoa(st.Lim))
	}
	return b.String()
}

func (st Stmt) SQL(table string) string {
	switch st.Kind {
	case "ins":
		ig := ""
		if st.Ignore {
			ig = "IGNORE "
		}
		return "INSERT " + ig + "INTO " + table + " VALUES " + rowsSQL(st.Rows)
	case "rep":
		return "REPLACE INTO " + table + " VALUES " + rowsSQL(st.Rows)
	case "odku":
		return "INSERT INTO " + table + " VALUES " + rowsSQL(st.Rows) + " ON DUPLICATE KEY UPDATE " + asgSQL(st.Asg)
	case "upd":
		return "UPDATE " + table + " SET " + asgSQL(st.Asg) + tailSQL(st)
	case "del":
		return "DELETE FROM " + table + tailSQL(st)
	}
	return "SELECT 'bad statement kind'"
}

// ---------------------------------------------------------------------------------------------
// payload rendering (see lean/Gms/Driver/MemTableProto.lean)

func (v Val) Sexp() string {
	switch {
	case v.Null:
		return "n"
	case v.IsStr:
		return hx.HexS(v.S)
	}
	return "i" + strconv.FormatInt(v.I, 10)
}

func (r Row) Sexp() string { return hx.ListOf(r, Val.Sexp) }

func ints(xs []int) string { return hx.ListOf(xs, strconv.Itoa) }

func b01(b bool) string {
	if b {
		return "1"
	}
	return "0"
}

func (s Schema) Sexp() string {
	cols := []string{"cols"}
	for _, c := range s.Cols {
		k, co := "i", "b"
		if c.Str {
			k = "s"
		}
		if c.CI {
			co = "c"
		}
		cols = append(cols, hx.List(k, b01(c.Nullable), co))
	}
	pk := []string{"pk"}
	for _, k := range s.PK {
		pk = append(pk, strconv.Itoa(k))
	}
	uq := []string{"uq"}
	for _, u := range s.Uniq {
		pre := make([]int, len(u.Cols))
		copy(pre, u.Prefix)
		uq = append(uq, hx.List(ints(u.Cols), ints(pre)))
	}
	return hx.List("sch", hx.List(cols...), hx.List(pk...), hx.List(uq...))
}

func (a Asg) Sexp() string {
	switch a.Kind {
	case "set":
		return hx.List("set", strconv.Itoa(a.C), a.V.Sexp())
	case "add":
		return hx.List("add", strconv.Itoa(a.C), strconv.FormatInt(a.K, 10))
	}
	return hx.List("vals", strconv.Itoa(a.C))
}

func (c Cond) Sexp() string {
	if c.Op == "isnull" || c.Op == "notnull" {
		return hx.List(c.Op, strconv.Itoa(c.C))
	}
	return hx.List(c.Op, strconv.Itoa(c.C), c.V.Sexp())
}

func (o Ord) Sexp() string { return hx.List(strconv.Itoa(o.C), b01(o.Desc)) }

func (st Stmt) Sexp() string {
	switch st.Kind {
	case "ins":
		return hx.List("ins", b01(st.Ignore), hx.ListOf(st.Rows, Row.Sexp))
	case "rep":
		return hx.List("rep", hx.ListOf(st.Rows, Row.Sexp))
	case "odku":
		return hx.List("odku", hx.ListOf(st.Rows, Row.Sexp), hx.ListOf(st.Asg, Asg.Sexp))
	case "upd":
		return hx.List("upd", hx.ListOf(st.Asg, Asg.Sexp), hx.ListOf(st.Where, Cond.Sexp), hx.ListOf(st.Ord, Ord.Sexp), strconv.Itoa(st.Lim))
	}
	return hx.List("del", hx.ListOf(st.Where, Cond.Sexp), hx.ListOf(st.Ord, Ord.Sexp), strconv.Itoa(st.Lim))
}

func Payload(s Schema, stmts []Stmt) string {
	items := []string{"stmts"}
	for _, st := range stmts {
		items = append(items, st.Sexp())
	}
	return s.Sexp() + " " + hx.List(items...)
}

// ---------------------------------------------------------------------------------------------
// Running a history on the real engine

// Step is what one statement did on the real engine.
type Step struct {
	Class    string // ok | err:<errno> | crash | timeout
	Affected uint64
	Matched  int
	Rows     []Row // SELECT * afterwards
	Obs      string // class with counts | sorted rows   (C13)
	ObsNC    string // class | sorted rows               (C14)
}

func parseMatched(info string) int {
	// "Rows matched: 3  Changed: 3  Warnings: 0"
	const p = "Rows matched: "
	i := strings.Index(info, p)
	if i < 0 {
		return 0
	}
	rest := info[i+len(p):]
	j := 0
	for j < len(rest) && rest[j] >= '0' && rest[j] <= '9' {
		j++
	}
	n, _ := strconv.Atoi(rest[:j])
	return n
}

func renderRows(rows []Row) string {
	rs := make([]string, len(rows))
	for i, r := range rows {
		rs[i] = r.Sexp()
	}
	sort.Strings(rs)
	return strings.Join(rs, " ")
}

func readTable(e *eng.Eng, ctx0 *eng.Res, s Schema, r *eng.Res) []Row {
	var out []Row
	for i, row := range r.Rows {
		rr := make(Row, len(row))
		for j, cell := range row {
			switch {
			case r.Null[i][j]:
				rr[j] = Null
			case j < len(s.Cols) && s.Cols[j].Str:
				rr[j] = Str(cell)
			default:
				n, err := strconv.ParseInt(cell, 10, 64)
				if err != nil {
					rr[j] = Str("?" + cell)
				} else {
					rr[j] = Int(n)
				}
			}
		}
		out = append(out, rr)
	}
	return out
}

// History runs stmts on a fresh table of a shared engine. After every statement the table is
// dumped; `stop` (may be nil) is consulted after each step and ends the history early when it
// returns true (the returned steps then cover the executed prefix only).
type Runner struct {
	E *eng.Eng
	n int
}

func NewRunner() *Runner { return &Runner{E: eng.New("d")} }

// History runs a history on a fresh table. `next(i, cur)` produces statement i from the rows
// currently stored (nil ends the history); `stop` (may be nil) is consulted after each step and
// ends the history early when it returns true. Returns the executed statements and their steps.
func (rn *Runner) History(s Schema, next func(i int, cur []Row) *Stmt, stop func(i int, st Step) bool) ([]Stmt, []Step) {
	rn.n++
	e := rn.E
	ctx := e.Ctx()
	table := "t"
	e.Query(eng.SameSession(ctx), "DROP TABLE IF EXISTS "+table)
	e.MustExec(eng.SameSession(ctx), s.DDL(table))
	var steps []Step
	var stmts []Stmt
	var cur []Row
	for i := 0; ; i++ {
		stp := next(i, cur)
		if stp == nil {
			break
		}
		st := *stp
		stmts = append(stmts, st)
		r := e.Query(eng.SameSession(ctx), st.SQL(table))
		step := Step{Class: r.Class()}
		if r.Panic != "" {
			step.Class = "crash:" + r.Panic
		}
		if step.Class == "ok" {
			step.Affected = r.Affected
			step.Matched = parseMatched(r.Info)
		}
		d := e.Query(eng.SameSession(ctx), "SELECT * FROM "+table)
		if d.Class() != "ok" {
			step.Obs = step.Class + "|dump-failed:" + d.Class()
			step.ObsNC = step.Obs
		} else {
			step.Rows = readTable(e, nil, s, d)
			cur = step.Rows
			head := step.Class
			if step.Class == "ok" {
				head = fmt.Sprintf("ok:%d:%d", step.Affected, step.Matched)
			}
			step.Obs = head + "|" + renderRows(step.Rows)
			step.ObsNC = step.Class + "|" + renderRows(step.Rows)
		}
		steps = append(steps, step)
		if stop != nil && stop(i, step) {
			break
		}
	}
	return stmts, steps
}

// Fixed turns a fixed statement list into a `next` function.
func Fixed(h []Stmt) func(i int, cur []Row) *Stmt {
	return func(i int, cur []Row) *Stmt {
		if i >= len(h) {
			return nil
		}
		return &h[i]
	}
}

func JoinObsNC(steps []Step) string {
	obs := make([]string, len(steps))
	for i, s := range steps {
		obs[i] = s.ObsNC
	}
	return strings.Join(obs, ";")
}

func JoinObs(steps []Step) string {
	obs := make([]string, len(steps))
	for i, s := range steps {
		obs[i] = s.Obs
	}
	return strings.Join(obs, ";")
}

// ---------------------------------------------------------------------------------------------
// Model-free uniqueness oracle: the property's state invariant evaluated on dumped rows, under
// the columns' collations (case folding for the case-insensitive one; prefix lengths in
// characters; NULL never equal).

func foldCI(s string) string { return strings.ToLower(s) }

func keyEq(s Schema, cols, prefix []int, a, b Row) bool {
	for j, c := range cols {
		va, vb := a[c], b[c]
		if va.Null || vb.Null {
			return false
		}
		if va.IsStr != vb.IsStr {
			return false
		}
		if !va.IsStr {
			if va.I != vb.I {
				return false
			}
			continue
		}
		sa, sb := va.S, vb.S
		if j < len(prefix) && prefix[j] > 0 { // prefix lengths count characters
			if ra := []rune(sa); len(ra) > prefix[j] {
				sa = string(ra[:prefix[j]])
			}
			if rb := []rune(sb); len(rb) > prefix[j] {
				sb = string(rb[:prefix[j]])
			}
		}
		if s.Cols[c].CI {
			sa, sb = foldCI(sa), foldCI(sb)
		}
		if sa != sb {
			return false
		}
	}
	return true
}

// Conflict reports whether rows a and b collide on the primary key or on a unique index.
func Conflict(s Schema, a, b Row) (bool, string) {
	if len(s.PK) > 0 && keyEq(s, s.PK, nil, a, b) {
		return true, "PRIMARY"
	}
	for i, u := range s.Uniq {
		if keyEq(s, u.Cols, u.Prefix, a, b) {
			return true, "u" + strconv.Itoa(i)
		}
	}
	return false, ""
}

// DupIn returns a description of two stored rows that collide on a key, or "".
func DupIn(s Schema, rows []Row) string {
	for i := range rows {
		for j := i + 1; j < len(rows); j++ {
			if ok, k := Conflict(s, rows[i], rows[j]); ok {
				return fmt.Sprintf("rows %s and %s collide on key %s", rows[i].Sexp(), rows[j].Sexp(), k)
			}
		}
	}
	return ""
}

// ---------------------------------------------------------------------------------------------
// Generators

type Profile struct {
	CIChance      [2]int // chance (num, den) that a string key column is case-insensitive
	StrChance     [2]int
	KeylessChance [2]int
	MaxStmts      int
	KeyFocus      bool // C14: key-centred statements and colliding values
	Multibyte     bool // C14: multi-byte strings in prefix-indexed columns
}

var intPool = []int64{0, 1, 2, 3, 4, 5, 12, 23, 31, 123, 11, 1, 2, 3}
var strPool = []string{"a", "b", "ab", "ba", "abc", "abd", "", "c", "bc", "a", "ab", "1", "12", "23"}
var strPoolCI = []string{"a", "A", "b", "B", "ab", "Ab", "aB", "AB", "abc", "ABC", "c", ""}
var strPoolMB = []string{"é", "è", "éa", "èa", "ab", "ac", "a", "é", "aé", "aè", "€", "₭"}

// hasPrefix reports whether column c carries a prefix length in some unique index.
func (s Schema) hasPrefix(c int) bool {
	for _, u := range s.Uniq {
		for j, k := range u.Cols {
			if k == c && j < len(u.Prefix) && u.Prefix[j] > 0 {
				return true
			}
		}
	}
	return false
}

type Gen struct {
	R   *hx.Rand
	P   Profile
	cur []Row // rows stored before the statement being generated
}

func (g *Gen) Schema() Schema {
	r := g.R
	n := r.Range(2, 4)
	s := Schema{Cols: make([]Col, n)}
	for i := range s.Cols {
		s.Cols[i] = Col{Str: r.Chance(g.P.StrChance[0], g.P.StrChance[1]), Nullable: true}
	}
	if !r.Chance(g.P.KeylessChance[0], g.P.KeylessChance[1]) {
		if r.Chance(1, 2) || n < 3 {
			s.PK = []int{r.Intn(n)}
		} else {
			a := r.Intn(n)
			b := r.Intn(n - 1)
			if b >= a {
				b++
			}
			s.PK = []int{a, b}
		}
	}
	for _, k := range s.PK {
		s.Cols[k].Nullable = false
	}
	if r.Chance(1, 2) {
		// one unique index over 1-2 columns, not equal to the primary key
		var u Uniq
		a := r.Intn(n)
		u.Cols = []int{a}
		if n >= 3 && r.Chance(1, 3) {
			b := r.Intn(n - 1)
			if b >= a {
				b++
			}
			u.Cols = append(u.Cols, b)
		}
		same := len(u.Cols) == len(s.PK)
		if same {
			for i := range u.Cols {
				if u.Cols[i] != s.PK[i] {
					same = false
				}
			}
		}
		if !same {
			u.Prefix = make([]int, len(u.Cols))
			for i, c := range u.Cols {
				if s.Cols[c].Str && r.Chance(1, 3) {
					u.Prefix[i] = r.Range(1, 2)
				}
			}
			s.Uniq = []Uniq{u}
		}
	}
	for c := range s.Cols {
		if s.Cols[c].Str && s.IsKeyCol(c) && !(g.P.Multibyte && s.hasPrefix(c)) && r.Chance(g.P.CIChance[0], g.P.CIChance[1]) {
			s.Cols[c].CI = true
		}
	}
	return s
}

func (g *Gen) Val(s Schema, c int) Val {
	r := g.R
	col := s.Cols[c]
	if col.Nullable && r.Chance(1, 7) {
		return Null
	}
	if col.Str {
		if col.CI {
			return Str(hx.Pick(r, strPoolCI))
		}
		if g.P.Multibyte && s.hasPrefix(c) && r.Chance(2, 3) {
			return Str(hx.Pick(r, strPoolMB))
		}
		return Str(hx.Pick(r, strPool))
	}
	return Int(hx.Pick(r, intPool))
}

func (g *Gen) Row(s Schema) Row {
	row := make(Row, len(s.Cols))
	for c := range s.Cols {
		row[c] = g.Val(s, c)
	}
	return row
}

// Rows draws 1..max rows. To reach the interesting paths a row is, with some probability, a copy
// of the previous row of the statement or of a stored row (exact duplicates: keyless multisets,
// IGNORE / REPLACE / ODKU conflicts), or takes the key columns of a stored row.
func (g *Gen) Rows(s Schema, max int) []Row {
	r := g.R
	n := r.Range(1, max)
	rows := make([]Row, n)
	for i := range rows {
		switch k := r.Intn(12); {
		case k < 2 && i > 0:
			rows[i] = append(Row(nil), rows[i-1]...)
		case k < 4 && len(g.cur) > 0:
			rows[i] = append(Row(nil), hx.Pick(r, g.cur)...)
		case k < 6 && len(g.cur) > 0:
			rows[i] = g.Row(s)
			src := hx.Pick(r, g.cur)
			for c := range s.Cols {
				if s.IsKeyCol(c) && r.Chance(2, 3) {
					rows[i][c] = src[c]
				}
			}
		default:
			rows[i] = g.Row(s)
		}
	}
	return rows
}

func (g *Gen) asgs(s Schema, odku bool) ([]Asg, bool) {
	r := g.R
	n := r.Range(1, 2)
	var out []Asg
	touchesKey := false
	for i := 0; i < n; i++ {
		c := r.Intn(len(s.Cols))
		if g.P.KeyFocus {
			if !s.IsKeyCol(c) && r.Chance(2, 3) {
				c = r.Intn(len(s.Cols))
			}
		} else if s.IsKeyCol(c) && !r.Chance(2, 5) {
			c = r.Intn(len(s.Cols))
		}
		var a Asg
		switch {
		case odku && r.Chance(1, 3):
			a = Asg{Kind: "vals", C: c}
		case !s.Cols[c].Str && r.Chance(1, 2):
			a = Asg{Kind: "add", C: c, K: int64(r.Range(1, 11))}
		default:
			a = Asg{Kind: "set", C: c, V: g.Val(s, c)}
		}
		if s.IsKeyCol(c) {
			touchesKey = true
		}
		out = append(out, a)
	}
	return out, touchesKey
}

func (g *Gen) where(s Schema) []Cond {
	r := g.R
	n := r.Intn(3)
	var out []Cond
	ops := []string{"eq", "ne", "lt", "le", "gt", "ge"}
	for i := 0; i < n; i++ {
		c := r.Intn(len(s.Cols))
		if s.Cols[c].CI {
			continue // comparisons on case-insensitive columns are outside the envelope
		}
		switch {
		case s.Cols[c].Nullable && r.Chance(1, 6):
			out = append(out, Cond{Op: hx.Pick(r, []string{"isnull", "notnull"}), C: c})
		default:
			v := g.Val(s, c)
			if v.Null {
				continue
			}
			out = append(out, Cond{Op: hx.Pick(r, ops), C: c, V: v})
		}
	}
	return out
}

// totalOrder returns an ORDER BY that totally orders the stored rows (ties only between
// identical rows), or nil when the schema has none inside the envelope.
func (g *Gen) totalOrder(s Schema) []Ord {
	r := g.R
	var cols []int
	if s.Keyless() {
		for c := range s.Cols {
			cols = append(cols, c)
		}
	} else {
		cols = append(cols, s.PK...)
		if r.Chance(1, 3) {
			c := r.Intn(len(s.Cols))
			dup := false
			for _, k := range cols {
				if k == c {
					dup = true
				}
			}
			if !dup {
				cols = append([]int{c}, cols...)
			}
		}
	}
	var out []Ord
	for _, c := range cols {
		if s.Cols[c].CI {
			return nil
		}
		out = append(out, Ord{C: c, Desc: r.Chance(1, 3)})
	}
	return out
}

// printKey mirrors `getRowKey` as it was before the repair of finding pk_print_collision: the
// `%v` forms of the key columns, concatenated with no separator (the repaired function prefixes
// every part with its length and never collides).
func printKey(s Schema, r Row) string {
	var b strings.Builder
	for _, c := range s.PK {
		v := r[c]
		switch {
		case v.Null:
			b.WriteString("<nil>")
		case v.IsStr:
			b.WriteString(v.S)
		default:
			b.WriteString(strconv.FormatInt(v.I, 10))
		}
	}
	return b.String()
}

func samePK(s Schema, a, b Row) bool {
	for _, c := range s.PK {
		if a[c] != b[c] {
			return false
		}
	}
	return true
}

func applyAsg(as []Asg, old Row) Row {
	cur := append(Row(nil), old...)
	for _, a := range as {
		switch a.Kind {
		case "set":
			cur[a.C] = a.V
		case "add":
			if cur[a.C].Null || cur[a.C].IsStr {
				cur[a.C] = Null
			} else {
				cur[a.C] = Int(cur[a.C].I + a.K)
			}
		}
	}
	return cur
}

// CollisionRisk: two of the rows an UPDATE / DELETE may touch (stored rows and their updated
// images) have different key values with the same pre-fix printed key. On a tree without the
// repair of pk_print_collision the outcome of such a statement depends on the order in which the
// engine's plan delivers the rows, so the generator pins the order with a total ORDER BY (kept
// after the repair: it makes the replay of a reverted repair deterministic and keeps the
// generated stream of every seed unchanged).
func CollisionRisk(s Schema, cur []Row, as []Asg) bool {
	if len(s.PK) < 2 {
		return false
	}
	rows := append([]Row(nil), cur...)
	for _, r := range cur {
		rows = append(rows, applyAsg(as, r))
	}
	seen := map[string]Row{}
	for _, r := range rows {
		k := printKey(s, r)
		if o, ok := seen[k]; ok && !samePK(s, o, r) {
			return true
		}
		seen[k] = r
	}
	return false
}

// dupRow returns a stored row that occurs at least twice (keyless tables), if any.
func dupRow(cur []Row) Row {
	seen := map[string]bool{}
	for _, r := range cur {
		k := r.Sexp()
		if seen[k] {
			return r
		}
		seen[k] = true
	}
	return nil
}

func (g *Gen) Stmt(s Schema, cur []Row) Stmt {
	g.cur = cur
	st := g.stmt0(s)
	// keyless multiset semantics: touch exactly one of several equal rows
	if s.Keyless() && (st.Kind == "upd" || st.Kind == "del") && g.R.Chance(1, 2) {
		if d := dupRow(cur); d != nil {
			if o := g.totalOrder(s); o != nil {
				st.Where = nil
				for c, v := range d {
					if !v.Null && !s.Cols[c].CI {
						st.Where = append(st.Where, Cond{Op: "eq", C: c, V: v})
						break
					}
				}
				st.Ord, st.Lim = o, 1
			}
		}
	}
	if (st.Kind == "upd" || st.Kind == "del") && len(st.Ord) == 0 && CollisionRisk(s, cur, st.Asg) {
		if o := g.totalOrder(s); o != nil {
			st.Ord = o
		}
	}
	return st
}

func (g *Gen) stmt0(s Schema) Stmt {
	r := g.R
	k := r.Intn(100)
	if g.P.KeyFocus { // fewer plain inserts and deletes, more REPLACE / ODKU / UPDATE
		k = []int{0, 10, 20, 35, 36, 43, 50, 58, 65, 73, 80, 88, 95}[r.Intn(13)]
	}
	switch {
	case k < 30:
		return Stmt{Kind: "ins", Rows: g.Rows(s, 4), Lim: -1}
	case k < 42:
		return Stmt{Kind: "ins", Ignore: true, Rows: g.Rows(s, 4), Lim: -1}
	case k < 57:
		return Stmt{Kind: "rep", Rows: g.Rows(s, 4), Lim: -1}
	case k < 72:
		as, _ := g.asgs(s, true)
		return Stmt{Kind: "odku", Rows: g.Rows(s, 3), Asg: as, Lim: -1}
	case k < 90:
		as, key := g.asgs(s, false)
		st := Stmt{Kind: "upd", Asg: as, Where: g.where(s), Lim: -1}
		needOrder := key
		if r.Chance(1, 4) {
			st.Lim = r.Intn(4)
			needOrder = true
		}
		if needOrder || r.Chance(1, 5) {
			st.Ord = g.totalOrder(s)
			if st.Ord == nil {
				// no total order available: drop LIMIT and the key-touching assignments
				st.Lim = -1
				var keep []Asg
				for _, a := range st.Asg {
					if !s.IsKeyCol(a.C) {
						keep = append(keep, a)
					}
				}
				if len(keep) == 0 {
					return Stmt{Kind: "del", Where: g.where(s), Lim: -1}
				}
				st.Asg = keep
			}
		}
		return st
	default:
		st := Stmt{Kind: "del", Where: g.where(s), Lim: -1}
		if r.Chance(1, 3) {
			if o := g.totalOrder(s); o != nil {
				st.Ord = o
				st.Lim = r.Intn(3)
			}
		}
		return st
	}
}

// Next returns a `next` function for Runner.History: an INSERT IGNORE of a few rows first, then
// 1..MaxStmts-1 generated statements.
func (g *Gen) Next(s Schema) func(i int, cur []Row) *Stmt {
	n := g.R.Range(2, g.P.MaxStmts)
	return func(i int, cur []Row) *Stmt {
		if i >= n {
			return nil
		}
		var st Stmt
		if i == 0 {
			g.cur = nil
			st = Stmt{Kind: "ins", Ignore: true, Rows: g.Rows(s, 5), Lim: -1}
		} else {
			st = g.Stmt(s, cur)
		}
		return &st
	}
}

// ---------------------------------------------------------------------------------------------
// go/ast fact helpers

// CallSeq lists, in source order, the calls `x.y.z(...)` / `f(...)` inside fn whose printed
// callee is in want (callee text with the receiver variable stripped: `pke.adds.Set` ↦ `adds.Set`).
func CallSeq(src *hx.Src, fn *ast.FuncDecl, want map[string]bool) []string {
	recv := ""
	if fn.Recv != nil && len(fn.Recv.List) == 1 && len(fn.Recv.List[0].Names) == 1 {
		recv = fn.Recv.List[0].Names[0].Name + "."
	}
	var out []string
	ast.Inspect(fn.Body, func(n ast.Node) bool {
		ce, ok := n.(*ast.CallExpr)
		if !ok {
			return true
		}
		name := strings.TrimPrefix(src.Text(ce.Fun), recv)
		if want[name] {
			out = append(out, name)
		}
		return true
	})
	return out
}

// Increments lists, in source order, the amounts added to field `field` inside fn
// (`x.field++` ↦ 1, `x.field += k` ↦ k).
func Increments(src *hx.Src, fn *ast.FuncDecl, field string) []uint64 {
	var out []uint64
	isField := func(e ast.Expr) bool {
		se, ok := e.(*ast.SelectorExpr)
		return ok && se.Sel.Name == field
	}
	ast.Inspect(fn.Body, func(n ast.Node) bool {
		switch s := n.(type) {
		case *ast.IncDecStmt:
			if isField(s.X) && s.Tok == token.INC {
				out = append(out, 1)
			}
		case *ast.AssignStmt:
			if s.Tok == token.ADD_ASSIGN && len(s.Lhs) == 1 && isField(s.Lhs[0]) {
				if l, ok := s.Rhs[0].(*ast.BasicLit); ok {
					v, _ := strconv.ParseUint(l.Value, 10, 64)
					out = append(out, v)
				} else {
					out = append(out, 999999)
				}
			}
		}
		return true
	})
	return out
}
