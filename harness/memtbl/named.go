package memtbl

// Column-name-aware variants (C14 histories with schema changes: after ALTER TABLE ... ADD COLUMN
// ... FIRST / DROP COLUMN / RENAME COLUMN the name of the column at ordinal i is no longer
// "c<i>"). The functions of memtbl.go keep their behaviour: they are these with name(i) = "c<i>".

import (
	"fmt"
	"strconv"
	"strings"

	"github.com/dolthub/go-mysql-server/verifharness/hx/eng"
)

// ColDef renders the definition of a column (name, type, collation, nullability) as Schema.DDL does.
func ColDef(name string, c Col) string {
	d := name
	if c.Str {
		coll := "utf8mb4_0900_bin"
		if c.CI {
			coll = "utf8mb4_0900_ai_ci"
		}
		d += " VARCHAR(16) COLLATE " + coll
	} else {
		d += " INT"
	}
	if !c.Nullable {
		d += " NOT NULL"
	}
	return d
}

// DDLNamed is Schema.DDL with explicit column names.
func (s Schema) DDLNamed(table string, name func(int) string) string {
	var parts []string
	for i, c := range s.Cols {
		parts = append(parts, ColDef(name(i), c))
	}
	if len(s.PK) > 0 {
		var ks []string
		for _, k := range s.PK {
			ks = append(ks, name(k))
		}
		parts = append(parts, "PRIMARY KEY ("+strings.Join(ks, ", ")+")")
	}
	for i, u := range s.Uniq {
		var ks []string
		for j, k := range u.Cols {
			n := name(k)
			if j < len(u.Prefix) && u.Prefix[j] > 0 {
				n += "(" + strconv.Itoa(u.Prefix[j]) + ")"
			}
			ks = append(ks, n)
		}
		parts = append(parts, fmt.Sprintf("UNIQUE KEY u%d (%s)", i, strings.Join(ks, ", ")))
	}
	return "CREATE TABLE " + table + " (" + strings.Join(parts, ", ") + ")"
}

// SQLNamed is Stmt.SQL with explicit column names (INSERT / REPLACE stay positional).
func (st Stmt) SQLNamed(table string, name func(int) string) string {
	switch st.Kind {
	case "odku":
		return "INSERT INTO " + table + " VALUES " + rowsSQL(st.Rows) + " ON DUPLICATE KEY UPDATE " + asgSQLn(st.Asg, name)
	case "upd":
		return "UPDATE " + table + " SET " + asgSQLn(st.Asg, name) + tailSQLn(st, name)
	case "del":
		return "DELETE FROM " + table + tailSQLn(st, name)
	}
	return st.SQL(table)
}

// ReadTable turns the result of SELECT * into rows of the IR, typed by the schema s.
func ReadTable(s Schema, r *eng.Res) []Row { return readTable(nil, nil, s, r) }

// RenderRows is the canonical (sorted) rendering of a table dump.
func RenderRows(rows []Row) string { return renderRows(rows) }
