module github.com/dolthub/go-mysql-server/verifharness

go 1.26.2

require (
	github.com/cockroachdb/apd/v3 v3.2.3
	github.com/dolthub/go-mysql-server v0.0.0
	github.com/dolthub/vitess v0.0.0-20260819175407-19559ab533b7
	github.com/go-sql-driver/mysql v1.9.3
	github.com/sirupsen/logrus v1.8.3
	golang.org/x/sync v0.20.0
)

require (
	filippo.io/edwards25519 v1.1.1 // indirect
	github.com/cespare/xxhash/v2 v2.3.0 // indirect
	github.com/dolthub/flatbuffers/v23 v23.3.3-dh.2 // indirect
	github.com/dolthub/go-icu-regex v0.0.0-20260610153742-72563bc7ca83 // indirect
	github.com/dolthub/jsonpath v0.0.2-0.20260807003725-336cd89c1c76 // indirect
	github.com/google/uuid v1.6.0 // indirect
	github.com/hashicorp/golang-lru v0.5.4 // indirect
	github.com/lestrrat-go/strftime v1.2.0 // indirect
	github.com/pkg/errors v0.9.1 // indirect
	github.com/pmezard/go-difflib v1.0.0 // indirect
	go.opentelemetry.io/otel v1.41.0 // indirect
	go.opentelemetry.io/otel/trace v1.41.0 // indirect
	golang.org/x/sys v0.45.0 // indirect
	golang.org/x/text v0.37.0 // indirect
	golang.org/x/tools v0.45.0 // indirect
	google.golang.org/genproto v0.0.0-20230410155749-daa745c078e1 // indirect
	google.golang.org/grpc v1.79.3 // indirect
	google.golang.org/protobuf v1.36.10 // indirect
	gopkg.in/src-d/go-errors.v1 v1.0.0 // indirect
)

replace github.com/dolthub/go-mysql-server => /repo
