// Package memidx holds what the C15 and C16 harnesses share: the editor-level IR (mirrors
// lean/Gms/Model/MemIndex.lean `Env`, `Op`, `Stmt`), its payload rendering, the runner that drives
// the real in-memory `tableEditor` behind the real `plan.TableEditorIter` with scripted calls and
// injected failures, and the dump of partitions and `secondaryIndexStorage` (overlay accessor
// memory.VerifDumpTable).
package memidx

import (
	"fmt"
	"io"
	"sort"
	"strconv"
	"strings"

	"github.com/dolthub/go-mysql-server/memory"
	"github.com/dolthub/go-mysql-server/sql"
	"github.com/dolthub/go-mysql-server/sql/plan"
	"github.com/dolthub/go-mysql-server/sql/types"
	"github.com/dolthub/vitess/go/sqltypes"

	"github.com/dolthub/go-mysql-server/verifharness/hx"
	"github.com/dolthub/go-mysql-server/verifharness/hx/eng"
	"github.com/dolthub/go-mysql-server/verifharness/memtbl"
)

type Val = memtbl.Val
type Row = memtbl.Row

type IdxDef struct {
	Cols   []int
	Unique bool
	// Prefix lengths of a prefix index (`KEY (s(4))`), parallel to Cols; 0 or missing = the whole
	// column. nil for an ordinary index (the only form C15 uses).
	Prefix []int
}

// Env: columns are BIGINT, or VARCHAR(32) (default, binary collation) where Str says so;
// primary-key columns are NOT NULL.
type Env struct {
	NCols  int
	PK     []int
	Idx    []IdxDef
	NParts int
	// Str flags the string columns; nil = every column is BIGINT (the only form C15 uses).
	Str []bool
}

func (e Env) IsStr(c int) bool { return c < len(e.Str) && e.Str[c] }

func (e Env) HasStr() bool {
	for _, s := range e.Str {
		if s {
			return true
		}
	}
	return false
}

// PrefixOf returns the prefix length of the j-th column of the index (0 = the whole column).
func (d IdxDef) PrefixOf(j int) int {
	if j < len(d.Prefix) {
		return d.Prefix[j]
	}
	return 0
}

func (d IdxDef) HasPrefix() bool {
	for _, p := range d.Prefix {
		if p > 0 {
			return true
		}
	}
	return false
}

// PrefixSexp renders the prefix lengths padded to the number of columns.
func (d IdxDef) PrefixSexp() string {
	ps := make([]int, len(d.Cols))
	for j := range ps {
		ps[j] = d.PrefixOf(j)
	}
	return ints(ps)
}

// ColList renders the column list of CREATE INDEX, with prefix lengths where the index has them.
func (d IdxDef) ColList() string {
	var cs []string
	for j, c := range d.Cols {
		if p := d.PrefixOf(j); p > 0 {
			cs = append(cs, fmt.Sprintf("%s(%d)", colName(c), p))
		} else {
			cs = append(cs, colName(c))
		}
	}
	return strings.Join(cs, ", ")
}

type Op struct {
	Kind string // i | d | u | x
	R    Row    // i: new row; d: row; u: old row
	N    Row    // u: new row
}

type Stmt struct {
	Fin string // eof | err | ign
	Ops []Op
}

func (e Env) Keyless() bool { return len(e.PK) == 0 }

func (e Env) IsPK(c int) bool {
	for _, k := range e.PK {
		if k == c {
			return true
		}
	}
	return false
}

// ---------------------------------------------------------------------------------------------
// payload

func ints(xs []int) string { return hx.ListOf(xs, strconv.Itoa) }

func (o Op) Sexp() string {
	switch o.Kind {
	case "i":
		return hx.List("i", o.R.Sexp())
	case "d":
		return hx.List("d", o.R.Sexp())
	case "u":
		return hx.List("u", o.R.Sexp(), o.N.Sexp())
	}
	return "(x)"
}

func (s Stmt) Sexp() string {
	items := []string{s.Fin}
	for _, o := range s.Ops {
		items = append(items, o.Sexp())
	}
	return hx.List(items...)
}

// PartKey is the projection `TableData.partition` hashes.
func (e Env) PartKey(r Row) Row {
	if e.Keyless() {
		return r
	}
	k := make(Row, len(e.PK))
	for i, c := range e.PK {
		k[i] = r[c]
	}
	return k
}

// Payload renders env + history; pm tabulates the hash partition of every inserted key.
func Payload(e Env, pm map[string]int, pmKeys map[string]Row, stmts []Stmt) string {
	pk := []string{"pk"}
	for _, k := range e.PK {
		pk = append(pk, strconv.Itoa(k))
	}
	idx := []string{"idx"}
	for _, d := range e.Idx {
		u := "0"
		if d.Unique {
			u = "1"
		}
		if d.HasPrefix() {
			idx = append(idx, hx.List(ints(d.Cols), u, d.PrefixSexp()))
		} else {
			idx = append(idx, hx.List(ints(d.Cols), u))
		}
	}
	keys := make([]string, 0, len(pm))
	for k := range pm {
		keys = append(keys, k)
	}
	sort.Strings(keys)
	pms := []string{"pm"}
	for _, k := range keys {
		pms = append(pms, hx.List(pmKeys[k].Sexp(), strconv.Itoa(pm[k])))
	}
	st := []string{"stmts"}
	for _, s := range stmts {
		st = append(st, s.Sexp())
	}
	env := hx.List("env", hx.List("cols", strconv.Itoa(e.NCols)), hx.List(pk...), hx.List(idx...),
		hx.List("np", strconv.Itoa(e.NParts)), hx.List(pms...))
	return env + " " + hx.List(st...)
}

// ---------------------------------------------------------------------------------------------
// the real table

type Table struct {
	E    *eng.Eng
	Env  Env
	Name string
	Sess *sql.Context // the session every statement of the history runs on
	PM   map[string]int
	PMK  map[string]Row
}

var tableSeq int

func colName(i int) string { return "c" + strconv.Itoa(i) }

func IdxName(i int) string { return "i" + strconv.Itoa(i) }

// NewTable creates a fresh partitioned in-memory table in e's first database and its secondary
// indexes (through SQL, on the still empty table).
func NewTable(e *eng.Eng, env Env) (*Table, error) {
	tableSeq++
	name := fmt.Sprintf("t%d", tableSeq)
	db := e.DBs[0]
	ctx := e.Ctx()
	sch := make(sql.Schema, env.NCols)
	for i := range sch {
		var typ sql.Type = types.Int64
		if env.IsStr(i) {
			typ = types.MustCreateStringWithDefaults(sqltypes.VarChar, 32)
		}
		sch[i] = &sql.Column{Name: colName(i), Type: typ, Nullable: !env.IsPK(i), Source: name, PrimaryKey: env.IsPK(i)}
	}
	pks := sql.NewPrimaryKeySchema(sch, env.PK...)
	t := memory.NewPartitionedTable(ctx, db.BaseDatabase, name, pks, db.GetForeignKeyCollection(), env.NParts)
	db.AddTable(name, t)
	tb := &Table{E: e, Env: env, Name: name, Sess: ctx, PM: map[string]int{}, PMK: map[string]Row{}}
	for i, d := range env.Idx {
		u := ""
		if d.Unique {
			u = "UNIQUE "
		}
		q := fmt.Sprintf("CREATE %sINDEX %s ON %s (%s)", u, IdxName(i), name, d.ColList())
		r := e.Query(eng.SameSession(ctx), q)
		if r.Class() != "ok" {
			return nil, fmt.Errorf("%s: %s %v %s", q, r.Class(), r.Err, r.Panic)
		}
	}
	return tb, nil
}

func (tb *Table) Drop() {
	tb.E.Query(eng.SameSession(tb.Sess), "DROP TABLE IF EXISTS "+tb.Name)
}

func toSQLRow(r Row) sql.Row {
	out := make(sql.Row, len(r))
	for i, v := range r {
		switch {
		case v.Null:
			out[i] = nil
		case v.IsStr:
			out[i] = v.S
		default:
			out[i] = v.I
		}
	}
	return out
}

func fromSQLVal(v interface{}) Val {
	switch x := v.(type) {
	case nil:
		return memtbl.Null
	case int64:
		return memtbl.Int(x)
	case int32:
		return memtbl.Int(int64(x))
	case int:
		return memtbl.Int(int64(x))
	case uint64:
		return memtbl.Int(int64(x))
	case string:
		return memtbl.Str(x)
	}
	return memtbl.Str(fmt.Sprintf("?%T:%v", v, v))
}

func fromSQLRow(r sql.Row) Row {
	out := make(Row, len(r))
	for i, v := range r {
		out[i] = fromSQLVal(v)
	}
	return out
}

func (tb *Table) stmtCtx() *sql.Context {
	ctx := eng.SameSession(tb.Sess)
	ctx.SetCurrentDatabase(tb.E.DBs[0].Name())
	return ctx
}

func (tb *Table) memTable(ctx *sql.Context) (*memory.Table, error) {
	t, ok, err := tb.E.DBs[0].GetTableInsensitive(ctx, tb.Name)
	if err != nil || !ok {
		return nil, fmt.Errorf("table %s not found: %v", tb.Name, err)
	}
	mt, ok := t.(*memory.Table)
	if !ok {
		return nil, fmt.Errorf("table %s is a %T", tb.Name, t)
	}
	return mt, nil
}

// notePartition records the hash partition the real code assigns to a row about to be inserted.
func (tb *Table) notePartition(ctx *sql.Context, mt *memory.Table, r Row) error {
	k := tb.Env.PartKey(r)
	ks := k.Sexp()
	if _, ok := tb.PM[ks]; ok {
		return nil
	}
	p, err := memory.VerifPartitionOf(ctx, mt, toSQLRow(r))
	if err != nil {
		return err
	}
	tb.PM[ks] = p
	tb.PMK[ks] = k
	return nil
}

var ErrInjected = fmt.Errorf("verif: injected storage error")

// scriptIter is the iterator a DML node would wrap in a TableEditorIter: every Next performs one
// scripted call on the editor; Close closes the editor (as insertIter/updateIter/deleteIter do).
type scriptIter struct {
	ed     sql.TableEditor
	ops    []Op
	fin    string
	pos    int
	EdErr  error
	closed bool
}

func (s *scriptIter) Next(ctx *sql.Context) (sql.Row, error) {
	if s.pos >= len(s.ops) {
		switch s.fin {
		case "err":
			return nil, ErrInjected
		case "ign":
			return nil, sql.NewIgnorableError(nil)
		}
		return nil, io.EOF
	}
	o := s.ops[s.pos]
	s.pos++
	var err error
	switch o.Kind {
	case "i":
		err = s.ed.(sql.RowInserter).Insert(ctx, toSQLRow(o.R))
	case "d":
		err = s.ed.(sql.RowDeleter).Delete(ctx, toSQLRow(o.R))
	case "u":
		err = s.ed.Update(ctx, toSQLRow(o.R), toSQLRow(o.N))
	case "x":
		ia, ok := s.ed.(sql.IndexAddressable)
		if !ok {
			return nil, fmt.Errorf("verif-harness: editor %T is not IndexAddressable", s.ed)
		}
		_ = ia.IndexedAccess(ctx, sql.IndexLookup{})
	}
	if err != nil {
		s.EdErr = err
		return nil, err
	}
	return sql.Row{int64(s.pos)}, nil
}

func (s *scriptIter) Close(ctx *sql.Context) error {
	if s.closed {
		return nil
	}
	s.closed = true
	return s.ed.Close(ctx)
}

// Result of one scripted statement on the real code.
type Result struct {
	Executed int // editor calls that returned without error
	Failed   bool
	Crash    string
	Err      string
	Dump     Dump
}

// Exec runs one scripted statement the way the engine runs a DML statement in autocommit mode:
// begin a transaction if none is open, resolve the table, TableEditorIter(StatementBegin … Close),
// commit when the statement succeeded.
func (tb *Table) Exec(st Stmt) (res Result, harnessErr error) {
	ctx := tb.stmtCtx()
	sess := ctx.Session.(*memory.Session)
	if ctx.GetTransaction() == nil {
		tx, err := sess.StartTransaction(ctx, sql.ReadWrite)
		if err != nil {
			return res, err
		}
		ctx.SetTransaction(tx)
	}
	mt, err := tb.memTable(ctx)
	if err != nil {
		return res, err
	}
	for _, o := range st.Ops {
		if o.Kind == "i" {
			if err := tb.notePartition(ctx, mt, o.R); err != nil {
				return res, err
			}
		}
		if o.Kind == "u" {
			if err := tb.notePartition(ctx, mt, o.N); err != nil {
				return res, err
			}
		}
	}
	var stmtErr error
	var inner *scriptIter
	res.Crash = hx.Safe(func() {
		ed, ok := mt.Updater(ctx).(sql.TableEditor)
		if !ok {
			harnessErr = fmt.Errorf("Updater is not a sql.TableEditor")
			return
		}
		inner = &scriptIter{ed: ed, ops: st.Ops, fin: st.Fin}
		it := plan.NewTableEditorIter(inner, ed)
		for {
			_, err := it.Next(ctx)
			if err != nil {
				if err != io.EOF {
					stmtErr = err
				}
				break
			}
		}
		cerr := it.Close(ctx)
		if stmtErr == nil && cerr != nil {
			stmtErr = cerr
		}
	})
	if harnessErr != nil {
		return res, harnessErr
	}
	if inner != nil {
		res.Executed = inner.pos
		if inner.EdErr != nil {
			res.Executed = inner.pos - 1
		}
	}
	if _, ign := stmtErr.(sql.IgnorableError); ign {
		stmtErr = nil
	}
	if res.Crash != "" {
		res.Failed = true
	} else if stmtErr != nil {
		res.Failed = true
		res.Err = stmtErr.Error()
	} else {
		if err := sess.CommitTransaction(ctx, ctx.GetTransaction()); err != nil {
			return res, err
		}
		ctx.SetTransaction(nil)
	}
	res.Dump, harnessErr = tb.DumpNow()
	return res, harnessErr
}

// ---------------------------------------------------------------------------------------------
// dump

type Entry struct {
	Vals     Row
	Part     string
	Idx      int
	Resolved Row // nil when the location is dangling
}

type IndexDump struct {
	StorageKey string
	HasIndex   bool
	Name       string
	Cols       []int
	Entries    []Entry // storage order
}

type Dump struct {
	Parts    [][]Row
	Indexes  []IndexDump // sorted by storage key
	IdxNames []string
	AutoInc  uint64
}

// DumpNow dumps what the next statement of the session would see.
func (tb *Table) DumpNow() (Dump, error) {
	ctx := tb.stmtCtx()
	mt, err := tb.memTable(ctx)
	if err != nil {
		return Dump{}, err
	}
	return Convert(memory.VerifDumpTable(ctx, mt)), nil
}

func Convert(vd memory.VerifDump) Dump {
	var d Dump
	byKey := map[string][]Row{}
	for i, p := range vd.Partitions {
		var rows []Row
		for _, r := range p {
			rows = append(rows, fromSQLRow(r))
		}
		d.Parts = append(d.Parts, rows)
		byKey[vd.PartitionKeys[i]] = rows
	}
	for _, ix := range vd.Indexes {
		id := IndexDump{StorageKey: ix.StorageKey, HasIndex: ix.HasIndex, Name: ix.Name, Cols: ix.Cols}
		for _, e := range ix.Entries {
			en := Entry{Vals: fromSQLRow(e.Vals), Part: e.Partition, Idx: e.Idx}
			if p, ok := byKey[e.Partition]; ok && e.Idx >= 0 && e.Idx < len(p) {
				en.Resolved = p[e.Idx]
			}
			id.Entries = append(id.Entries, en)
		}
		d.Indexes = append(d.Indexes, id)
	}
	d.IdxNames = vd.IndexNames
	d.AutoInc = vd.AutoIncVal
	return d
}

func (d Dump) Rows() []Row {
	var out []Row
	for _, p := range d.Parts {
		out = append(out, p...)
	}
	return out
}

func renderRows(rows []Row) string {
	rs := make([]string, len(rows))
	for i, r := range rows {
		rs[i] = r.Sexp()
	}
	sort.Strings(rs)
	return strings.Join(rs, " ")
}

func renderIndex(ix IndexDump) string {
	es := make([]string, len(ix.Entries))
	for i, e := range ix.Entries {
		if e.Resolved == nil {
			es[i] = e.Vals.Sexp() + ">!"
		} else {
			es[i] = e.Vals.Sexp() + ">" + e.Resolved.Sexp()
		}
	}
	sort.Strings(es)
	return strings.Join(es, " ")
}

// View renders rows and the storage of the indexes named by names (in that order) in the
// canonical form of lean/Gms/Driver/MemIndexProto.lean `rView`. A missing storage renders empty.
func (d Dump) View(names []string) string {
	var ixs []string
	for _, n := range names {
		found := ""
		for _, ix := range d.Indexes {
			if ix.StorageKey == n {
				found = renderIndex(ix)
			}
		}
		ixs = append(ixs, found)
	}
	return renderRows(d.Rows()) + "|" + strings.Join(ixs, "/")
}

// Physical renders the dump exactly (partition layout and locations) — used to compare the state
// before and after a failed statement in the model-free oracle.
func (d Dump) Physical() string {
	var b strings.Builder
	for i, p := range d.Parts {
		fmt.Fprintf(&b, "P%d:", i)
		for _, r := range p {
			b.WriteString(r.Sexp())
		}
		b.WriteString(";")
	}
	for _, ix := range d.Indexes {
		fmt.Fprintf(&b, "I[%s has=%v name=%s]:", ix.StorageKey, ix.HasIndex, ix.Name)
		es := make([]string, len(ix.Entries))
		for i, e := range ix.Entries {
			es[i] = fmt.Sprintf("%s@%s.%d", e.Vals.Sexp(), e.Part, e.Idx)
		}
		sort.Strings(es)
		b.WriteString(strings.Join(es, ","))
		b.WriteString(";")
	}
	fmt.Fprintf(&b, "names=%s;ai=%d", strings.Join(d.IdxNames, ","), d.AutoInc)
	return b.String()
}

// OnlyLocationsDiffer reports whether two dumps differ in nothing but the locations stored in
// index rows: same partitions, same index definitions, same key values per index, same counter.
func OnlyLocationsDiffer(a, b Dump) bool {
	strip := func(d Dump) string {
		var sb strings.Builder
		for i, p := range d.Parts {
			fmt.Fprintf(&sb, "P%d:", i)
			for _, r := range p {
				sb.WriteString(r.Sexp())
			}
			sb.WriteString(";")
		}
		for _, ix := range d.Indexes {
			fmt.Fprintf(&sb, "I[%s has=%v name=%s]:", ix.StorageKey, ix.HasIndex, ix.Name)
			es := make([]string, len(ix.Entries))
			for i, e := range ix.Entries {
				es[i] = e.Vals.Sexp()
			}
			sort.Strings(es)
			sb.WriteString(strings.Join(es, ","))
			sb.WriteString(";")
		}
		fmt.Fprintf(&sb, "names=%s;ai=%d", strings.Join(d.IdxNames, ","), d.AutoInc)
		return sb.String()
	}
	return strip(a) == strip(b) && a.Physical() != b.Physical()
}

// Sorted reports whether every index storage is ordered by its declared columns (NULL first).
func (d Dump) Sorted() (bool, string) {
	for _, ix := range d.Indexes {
		n := len(ix.Cols)
		for i := 1; i < len(ix.Entries); i++ {
			a, b := ix.Entries[i-1].Vals, ix.Entries[i].Vals
			if keyLess(b, a, n) {
				return false, fmt.Sprintf("index %s: storage row %s stored before %s", ix.StorageKey, a.Sexp(), b.Sexp())
			}
		}
	}
	return true, ""
}

func keyLess(a, b Row, n int) bool {
	for j := 0; j < n && j < len(a) && j < len(b); j++ {
		switch {
		case a[j].Null && b[j].Null:
			continue
		case a[j].Null:
			return true
		case b[j].Null:
			return false
		case a[j].IsStr && b[j].IsStr:
			if a[j].S != b[j].S {
				return a[j].S < b[j].S // binary collation, ASCII values
			}
		case a[j].I != b[j].I:
			return a[j].I < b[j].I
		}
	}
	return false
}

// IndexNames returns the storage keys of env's indexes in env order.
func (e Env) IndexNames() []string {
	out := make([]string, len(e.Idx))
	for i := range e.Idx {
		out[i] = IdxName(i)
	}
	return out
}

// ExtVals mirrors Index.ExtendedExprs: index columns, then primary-key columns not among them.
func (e Env) ExtVals(d IdxDef, r Row) Row {
	var out Row
	seen := map[int]bool{}
	for _, c := range d.Cols {
		out = append(out, r[c])
		seen[c] = true
	}
	for _, c := range e.PK {
		if !seen[c] {
			out = append(out, r[c])
		}
	}
	return out
}

// ConsistentView renders what rows + indexes must look like when every index holds exactly one
// storage row per stored row, pointing at it (the C16 invariant), in the form of View.
func (e Env) ConsistentView(rows []Row) string {
	var ixs []string
	for _, d := range e.Idx {
		es := make([]string, len(rows))
		for i, r := range rows {
			es[i] = e.ExtVals(d, r).Sexp() + ">" + r.Sexp()
		}
		sort.Strings(es)
		ixs = append(ixs, strings.Join(es, " "))
	}
	return renderRows(rows) + "|" + strings.Join(ixs, "/")
}
