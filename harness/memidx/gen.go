package memidx

// Generators shared by the C15 and C16 harnesses: table descriptions, rows, scripted statements,
// the Spec ("shadow") semantics of an editor call, and self-validation of generated statements.

import (
	"fmt"

	"github.com/dolthub/go-mysql-server/verifharness/hx"
	"github.com/dolthub/go-mysql-server/verifharness/memtbl"
)

type Gen struct {
	R   *hx.Rand
	Env Env
}

func GenEnv(r *hx.Rand) Env {
	n := r.Range(2, 4)
	e := Env{NCols: n, NParts: r.Range(1, 3)}
	switch k := r.Intn(10); {
	case k < 2: // keyless
	case k < 8 || n < 3:
		e.PK = []int{r.Intn(n)}
	default:
		a := r.Intn(n)
		b := r.Intn(n - 1)
		if b >= a {
			b++
		}
		e.PK = []int{a, b}
	}
	ni := r.Intn(3)
	if r.Chance(1, 8) {
		ni = 0
	}
	for i := 0; i < ni; i++ {
		d := IdxDef{Cols: []int{r.Intn(n)}}
		if n >= 3 && r.Chance(1, 3) {
			b := r.Intn(n - 1)
			if b >= d.Cols[0] {
				b++
			}
			d.Cols = append(d.Cols, b)
		}
		// a unique index on a keyless table or equal to another index adds nothing new here
		d.Unique = !e.Keyless() && r.Chance(1, 4)
		e.Idx = append(e.Idx, d)
	}
	return e
}

func (g *Gen) Val(c int) Val {
	if g.Env.IsPK(c) {
		return memtbl.Int(int64(g.R.Intn(10))) // one digit: printed composite keys cannot collide (C14's finding)
	}
	if g.R.Chance(1, 8) {
		return memtbl.Null
	}
	return memtbl.Int(int64(g.R.Intn(6)))
}

func (g *Gen) Row() Row {
	row := make(Row, g.Env.NCols)
	for c := range row {
		row[c] = g.Val(c)
	}
	return row
}

func SamePK(e Env, a, b Row) bool {
	for _, c := range e.PK {
		if a[c] != b[c] {
			return false
		}
	}
	return true
}

func EqualRow(a, b Row) bool {
	if len(a) != len(b) {
		return false
	}
	for i := range a {
		if a[i] != b[i] {
			return false
		}
	}
	return true
}

// shadow applies an op with the Spec semantics (keyed map / multiset) — used to keep generated
// statements sensible and by the success oracle.
func ShadowApply(e Env, t []Row, o Op) []Row {
	del := func(t []Row, r Row) []Row {
		for i, x := range t {
			if (e.Keyless() && EqualRow(x, r)) || (!e.Keyless() && SamePK(e, x, r)) {
				return append(append([]Row(nil), t[:i]...), t[i+1:]...)
			}
		}
		return t
	}
	switch o.Kind {
	case "i":
		return append(append([]Row(nil), t...), o.R)
	case "d":
		return del(t, o.R)
	case "u":
		return append(del(t, o.R), o.N)
	}
	return t
}

func (g *Gen) Stmt(cur []Row, idxChance int) Stmt {
	r := g.R
	n := r.Range(1, 5)
	sh := append([]Row(nil), cur...)
	var ops []Op
	for i := 0; i < n; i++ {
		var o Op
		switch k := r.Intn(100); {
		case k < idxChance:
			o = Op{Kind: "x"}
		case k < 55 || len(sh) == 0:
			row := g.Row()
			if !g.Env.Keyless() && !r.Chance(1, 10) {
				// mostly a fresh key (a duplicate is a natural failure)
				for try := 0; try < 6; try++ {
					dup := false
					for _, x := range sh {
						if SamePK(g.Env, x, row) {
							dup = true
						}
					}
					if !dup {
						break
					}
					row = g.Row()
				}
			}
			if len(sh) > 0 && r.Chance(1, 6) { // share non-key values with a stored row: equal index keys
				src := hx.Pick(r, sh)
				for c := range row {
					if !g.Env.IsPK(c) {
						row[c] = src[c]
					}
				}
			}
			o = Op{Kind: "i", R: row}
		case k < 75:
			o = Op{Kind: "d", R: hx.Pick(r, sh)}
		default:
			old := hx.Pick(r, sh)
			nw := append(Row(nil), old...)
			c := r.Intn(g.Env.NCols)
			if g.Env.IsPK(c) && !r.Chance(1, 3) {
				c = r.Intn(g.Env.NCols)
			}
			nw[c] = g.Val(c)
			o = Op{Kind: "u", R: old, N: nw}
		}
		ops = append(ops, o)
		sh = ShadowApply(g.Env, sh, o)
	}
	return Stmt{Fin: "eof", Ops: ops}
}

func Validate(e Env, st Stmt) error {
	for _, o := range st.Ops {
		for _, r := range []Row{o.R, o.N} {
			if r == nil {
				continue
			}
			if len(r) != e.NCols {
				return fmt.Errorf("generated row %s has %d columns, table has %d", r.Sexp(), len(r), e.NCols)
			}
			for _, c := range e.PK {
				if r[c].Null {
					return fmt.Errorf("generated row %s has NULL in key column %d", r.Sexp(), c)
				}
			}
		}
		switch o.Kind {
		case "i", "d":
			if o.R == nil {
				return fmt.Errorf("op %s without row", o.Kind)
			}
		case "u":
			if o.R == nil || o.N == nil {
				return fmt.Errorf("update without rows")
			}
		case "x":
		default:
			return fmt.Errorf("unknown op kind %q", o.Kind)
		}
	}
	return nil
}
