package memidx

// Generators shared by the C15 and C16 harnesses: table descriptions, rows, scripted statements,
// the Spec ("shadow") semantics of an editor call, and self-validation of generated statements.

import (
	"fmt"

	"github.com/dolthub/go-mysql-server/verifharness/hx"
	"github.com/dolthub/go-mysql-server/verifharness/memtbl"
)

type Gen struct {
	R   *hx.Rand
	Env Env
	// Replace is the chance (in %) that a statement op re-writes a stored row under its own primary
	// key as Delete + Insert (what REPLACE does); 0 (C15) draws nothing extra.
	Replace int
}

// StrVal draws a short string over {a,b,c}: values that agree on a short prefix and differ behind it
// (or are shorter than it) are common.
func StrVal(r *hx.Rand) Val {
	n := r.Intn(7)
	b := make([]byte, n)
	for i := range b {
		b[i] = "abc"[r.Intn(3)]
	}
	return memtbl.Str(string(b))
}

// TailMutation keeps the first keep bytes of a string value and re-draws what follows (never the
// same value): the change a prefix index of length <= keep cannot see in its prefix.
func TailMutation(r *hx.Rand, v Val, keep int) Val {
	if !v.IsStr {
		return v
	}
	if keep > len(v.S) {
		keep = len(v.S)
	}
	for try := 0; try < 8; try++ {
		n := r.Intn(4)
		b := []byte(v.S[:keep])
		for i := 0; i < n; i++ {
			b = append(b, "abc"[r.Intn(3)])
		}
		if string(b) != v.S {
			return memtbl.Str(string(b))
		}
	}
	return memtbl.Str(v.S[:keep] + "cc")
}

func GenEnv(r *hx.Rand) Env {
	n := r.Range(2, 4)
	e := Env{NCols: n, NParts: r.Range(1, 3)}
	switch k := r.Intn(10); {
	case k < 2: // keyless
	case k < 8 || n < 3:
		e.PK = []int{r.Intn(n)}
	default:
		a := r.Intn(n)
		b := r.Intn(n - 1)
		if b >= a {
			b++
		}
		e.PK = []int{a, b}
	}
	ni := r.Intn(3)
	if r.Chance(1, 8) {
		ni = 0
	}
	for i := 0; i < ni; i++ {
		d := IdxDef{Cols: []int{r.Intn(n)}}
		if n >= 3 && r.Chance(1, 3) {
			b := r.Intn(n - 1)
			if b >= d.Cols[0] {
				b++
			}
			d.Cols = append(d.Cols, b)
		}
		// a unique index on a keyless table or equal to another index adds nothing new here
		d.Unique = !e.Keyless() && r.Chance(1, 4)
		e.Idx = append(e.Idx, d)
	}
	return e
}

func (g *Gen) Val(c int) Val {
	if g.Env.IsPK(c) {
		return memtbl.Int(int64(g.R.Intn(10))) // one digit: printed composite keys cannot collide (C14's finding)
	}
	if g.R.Chance(1, 8) {
		return memtbl.Null
	}
	if g.Env.IsStr(c) {
		return StrVal(g.R)
	}
	return memtbl.Int(int64(g.R.Intn(6)))
}

// maxPrefix is the longest prefix length an index declares on column c (0 = none).
func (g *Gen) maxPrefix(c int) int {
	m := 0
	for _, d := range g.Env.Idx {
		for j, dc := range d.Cols {
			if dc == c && d.PrefixOf(j) > m {
				m = d.PrefixOf(j)
			}
		}
	}
	return m
}

func (g *Gen) Row() Row {
	row := make(Row, g.Env.NCols)
	for c := range row {
		row[c] = g.Val(c)
	}
	return row
}

func SamePK(e Env, a, b Row) bool {
	for _, c := range e.PK {
		if a[c] != b[c] {
			return false
		}
	}
	return true
}

func EqualRow(a, b Row) bool {
	if len(a) != len(b) {
		return false
	}
	for i := range a {
		if a[i] != b[i] {
			return false
		}
	}
	return true
}

// shadow applies an op with the Spec semantics (keyed map / multiset) — used to keep generated
// statements sensible and by the success oracle.
func ShadowApply(e Env, t []Row, o Op) []Row {
	del := func(t []Row, r Row) []Row {
		for i, x := range t {
			if (e.Keyless() && EqualRow(x, r)) || (!e.Keyless() && SamePK(e, x, r)) {
				return append(append([]Row(nil), t[:i]...), t[i+1:]...)
			}
		}
		return t
	}
	switch o.Kind {
	case "i":
		return append(append([]Row(nil), t...), o.R)
	case "d":
		return del(t, o.R)
	case "u":
		return append(del(t, o.R), o.N)
	}
	return t
}

func (g *Gen) Stmt(cur []Row, idxChance int) Stmt {
	r := g.R
	n := r.Range(1, 5)
	sh := append([]Row(nil), cur...)
	var ops []Op
	for i := 0; i < n; i++ {
		var o Op
		if g.Replace > 0 && len(sh) > 0 && !g.Env.Keyless() && r.Intn(100) < g.Replace {
			// REPLACE of a stored key: Delete(old) + Insert(new row, same primary key)
			old := hx.Pick(r, sh)
			nw := g.Row()
			for _, c := range g.Env.PK {
				nw[c] = old[c]
			}
			for c := range nw {
				if g.Env.IsStr(c) && !old[c].Null && r.Chance(1, 2) {
					nw[c] = TailMutation(r, old[c], g.maxPrefix(c))
				}
			}
			ops = append(ops, Op{Kind: "d", R: old})
			sh = ShadowApply(g.Env, sh, ops[len(ops)-1])
			o = Op{Kind: "i", R: nw}
			ops = append(ops, o)
			sh = ShadowApply(g.Env, sh, o)
			continue
		}
		switch k := r.Intn(100); {
		case k < idxChance:
			o = Op{Kind: "x"}
		case k < 55 || len(sh) == 0:
			row := g.Row()
			if !g.Env.Keyless() && !r.Chance(1, 10) {
				// mostly a fresh key (a duplicate is a natural failure)
				for try := 0; try < 6; try++ {
					dup := false
					for _, x := range sh {
						if SamePK(g.Env, x, row) {
							dup = true
						}
					}
					if !dup {
						break
					}
					row = g.Row()
				}
			}
			if len(sh) > 0 && r.Chance(1, 6) { // share non-key values with a stored row: equal index keys
				src := hx.Pick(r, sh)
				for c := range row {
					if !g.Env.IsPK(c) {
						row[c] = src[c]
					}
				}
			}
			o = Op{Kind: "i", R: row}
		case k < 75:
			o = Op{Kind: "d", R: hx.Pick(r, sh)}
		default:
			old := hx.Pick(r, sh)
			nw := append(Row(nil), old...)
			c := r.Intn(g.Env.NCols)
			if g.Env.IsPK(c) && !r.Chance(1, 3) {
				c = r.Intn(g.Env.NCols)
			}
			if g.Env.IsStr(c) && !old[c].Null && r.Chance(1, 2) {
				nw[c] = TailMutation(r, old[c], g.maxPrefix(c)) // the change stays behind every indexed prefix
			} else {
				nw[c] = g.Val(c)
			}
			o = Op{Kind: "u", R: old, N: nw}
		}
		ops = append(ops, o)
		sh = ShadowApply(g.Env, sh, o)
	}
	return Stmt{Fin: "eof", Ops: ops}
}

func Validate(e Env, st Stmt) error {
	for _, o := range st.Ops {
		for _, r := range []Row{o.R, o.N} {
			if r == nil {
				continue
			}
			if len(r) != e.NCols {
				return fmt.Errorf("generated row %s has %d columns, table has %d", r.Sexp(), len(r), e.NCols)
			}
			for _, c := range e.PK {
				if r[c].Null {
					return fmt.Errorf("generated row %s has NULL in key column %d", r.Sexp(), c)
				}
			}
		}
		switch o.Kind {
		case "i", "d":
			if o.R == nil {
				return fmt.Errorf("op %s without row", o.Kind)
			}
		case "u":
			if o.R == nil || o.N == nil {
				return fmt.Errorf("update without rows")
			}
		case "x":
		default:
			return fmt.Errorf("unknown op kind %q", o.Kind)
		}
	}
	return nil
}
