// C13 — DML statements match a reference table model.
//
// extract: facts about the accumulator / ApplyEdits / row-count handlers / iterator protocol,
//          read from the source with go/ast (call orders and increments, not token streams).
// run:     generated statement histories over generated schemas on the real engine
//          (Engine.Query, in-memory backend); after each statement the outcome class, the
//          affected / matched counts and a sorted dump of the table are recorded. The Lean driver
//          predicts the same observation with the Impl model and states what the Spec demands.
package main

import (
	"fmt"
	"go/ast"
	"go/token"
	"strings"

	"github.com/dolthub/go-mysql-server/verifharness/hx"
	m "github.com/dolthub/go-mysql-server/verifharness/memtbl"
)

func main() { hx.Main(extract, run) }

func set(xs ...string) map[string]bool {
	o := map[string]bool{}
	for _, x := range xs {
		o[x] = true
	}
	return o
}

func extract(a hx.ExtractArgs) error {
	te, err := hx.ParseSrc(a.Repo, "memory/table_editor.go")
	if err != nil {
		return err
	}
	di, err := hx.ParseSrc(a.Repo, "sql/rowexec/dml_iters.go")
	if err != nil {
		return err
	}
	pt, err := hx.ParseSrc(a.Repo, "sql/plan/table_editor.go")
	if err != nil {
		return err
	}
	ins, err := hx.ParseSrc(a.Repo, "sql/rowexec/insert.go")
	if err != nil {
		return err
	}
	upd, err := hx.ParseSrc(a.Repo, "sql/rowexec/update.go")
	if err != nil {
		return err
	}
	lf := hx.NewLeanFile("Gms.Generated.C13", te.Path, di.Path, pt.Path, ins.Path, upd.Path)

	// getRowKey: format verbs, what is written with the length-prefixing format (the repair of
	// finding pk_print_collision: every printed key value is written as "%d:%s," with its own
	// length) and the number of other writes per key column
	fn, err := te.Func("pkTableEditAccumulator", "getRowKey")
	if err != nil {
		return err
	}
	var formats, lenArgs []string
	writes := 0
	ast.Inspect(fn.Body, func(n ast.Node) bool {
		ce, ok := n.(*ast.CallExpr)
		if !ok {
			return true
		}
		switch te.Text(ce.Fun) {
		case "fmt.Sprintf", "fmt.Fprintf", "fmt.Sprint", "fmt.Fprint":
			for i, arg := range ce.Args {
				if l, ok := arg.(*ast.BasicLit); ok && l.Kind == token.STRING {
					f := strings.Trim(l.Value, "\"`")
					formats = append(formats, f)
					if strings.Contains(f, "%d") {
						for _, rest := range ce.Args[i+1:] {
							lenArgs = append(lenArgs, te.Text(rest))
						}
					}
				}
			}
		}
		if se, ok := ce.Fun.(*ast.SelectorExpr); ok && strings.HasPrefix(se.Sel.Name, "Write") {
			writes++
		}
		return true
	})
	if len(formats) == 0 {
		return fmt.Errorf("getRowKey: no format string found")
	}
	lf.DefStringList("getRowKeyFormats", formats)
	lf.DefNat("getRowKeyWrites", uint64(writes))
	lf.DefStringList("getRowKeyLenArgs", lenArgs)

	seq := func(src *hx.Src, recv, name, def string, want ...string) error {
		fd, err := src.Func(recv, name)
		if err != nil {
			return err
		}
		s := m.CallSeq(src, fd, set(want...))
		if len(s) == 0 {
			return fmt.Errorf("%s.%s: none of the expected calls %v found", recv, name, want)
		}
		lf.DefStringList(def, s)
		return nil
	}
	if err := seq(te, "pkTableEditAccumulator", "ApplyEdits", "pkApplyEdits",
		"deletes.Foreach", "adds.Foreach", "deleteHelper", "insertHelper", "tableData.sortRows"); err != nil {
		return err
	}
	if err := seq(te, "pkTableEditAccumulator", "Insert", "pkInsert", "getRowKey", "adds.Set", "adds.Del", "deletes.Set", "deletes.Del"); err != nil {
		return err
	}
	if err := seq(te, "pkTableEditAccumulator", "Delete", "pkDelete", "getRowKey", "adds.Set", "adds.Del", "deletes.Set", "deletes.Del"); err != nil {
		return err
	}
	if err := seq(te, "pkTableEditAccumulator", "Get", "pkGet", "getRowKey", "adds.Get", "deletes.Get", "columnsMatch"); err != nil {
		return err
	}
	if err := seq(te, "keylessTableEditAccumulator", "ApplyEdits", "klApplyEdits", "deleteHelper", "insertHelper"); err != nil {
		return err
	}
	if err := seq(te, "tableEditor", "Insert", "edInsert", "ea.Get", "checkUniqueConstraints", "ea.Insert", "ea.Delete"); err != nil {
		return err
	}
	if err := seq(te, "tableEditor", "Update", "edUpdate", "ea.Get", "pkColsDiffer", "checkUniqueConstraints", "ea.Insert", "ea.Delete"); err != nil {
		return err
	}
	if err := seq(te, "tableEditor", "StatementComplete", "edComplete", "ea.ApplyEdits", "ea.Clear"); err != nil {
		return err
	}
	if err := seq(te, "tableEditor", "DiscardChanges", "edDiscard", "ea.ApplyEdits", "ea.Clear", "editedTable.replaceData"); err != nil {
		return err
	}
	if err := seq(pt, "TableEditorIter", "Close", "iterClose", "openerCloser.DiscardChanges", "openerCloser.StatementComplete"); err != nil {
		return err
	}
	if err := seq(pt, "CheckpointingTableEditorIter", "Next", "checkpointNext",
		"editIter.StatementBegin", "editIter.DiscardChanges", "editIter.StatementComplete", "inner.Next"); err != nil {
		return err
	}
	if err := seq(ins, "insertIter", "Next", "insertNext",
		"replacer.Insert", "replacer.Delete", "inserter.Insert", "handleOnDuplicateKeyUpdate"); err != nil {
		return err
	}
	if err := seq(ins, "insertIter", "handleOnDuplicateKeyUpdate", "odkuCalls", "updater.Update", "applyUpdates"); err != nil {
		return err
	}
	if err := seq(upd, "updateIter", "Next", "updateNext", "oldRow.Equals", "updater.Update"); err != nil {
		return err
	}

	incs := func(recv, field, def string) error {
		fd, err := di.Func(recv, "handleRowUpdate")
		if err != nil {
			return err
		}
		v := m.Increments(di, fd, field)
		if len(v) == 0 {
			return fmt.Errorf("%s.handleRowUpdate: no increment of %s", recv, field)
		}
		lf.DefNatList(def, v)
		return nil
	}
	for _, x := range [][3]string{
		{"insertRowHandler", "rowsAffected", "insertIncs"},
		{"replaceRowHandler", "rowsAffected", "replaceIncs"},
		{"onDuplicateUpdateHandler", "rowsAffected", "odkuIncs"},
		{"updateRowHandler", "rowsAffected", "updateAffectedIncs"},
		{"updateRowHandler", "rowsMatched", "updateMatchedIncs"},
		{"deleteRowHandler", "rowsAffected", "deleteIncs"},
	} {
		if err := incs(x[0], x[1], x[2]); err != nil {
			return err
		}
	}
	// replaceRowHandler: the second increment sits in a loop that breaks after the first hit
	fd, err := di.Func("replaceRowHandler", "handleRowUpdate")
	if err != nil {
		return err
	}
	breaks := 0
	ast.Inspect(fd.Body, func(n ast.Node) bool {
		if b, ok := n.(*ast.BranchStmt); ok && b.Tok == token.BREAK {
			breaks++
		}
		return true
	})
	lf.DefNat("replaceBreaks", uint64(breaks))
	return lf.Write(a.Out)
}

// ---------------------------------------------------------------------------------------------

func corpus() []struct {
	S m.Schema
	H []m.Stmt
} {
	I, R := m.Int, func(v ...m.Val) m.Row { return m.Row(v) }
	c3 := m.Schema{Cols: []m.Col{{}, {}, {Nullable: true}}, PK: []int{0, 1}}
	u2 := m.Schema{Cols: []m.Col{{}, {Nullable: true}}, PK: []int{0}, Uniq: []m.Uniq{{Cols: []int{1}, Prefix: []int{0}}}}
	u3 := m.Schema{Cols: []m.Col{{}, {Nullable: true}, {Nullable: true}}, PK: []int{0}, Uniq: []m.Uniq{{Cols: []int{1}, Prefix: []int{0}}}}
	kl := m.Schema{Cols: []m.Col{{Nullable: true}, {Nullable: true, Str: true}}}
	return []struct {
		S m.Schema
		H []m.Stmt
	}{
		// F-C14-a (repaired by the fix: commit for pk_print_collision; must pass now): composite key
		// (1,23)/(12,3) — was a false duplicate, and REPLACE lost a row
		{c3, []m.Stmt{
			{Kind: "ins", Rows: []m.Row{R(I(1), I(23), I(0)), R(I(12), I(3), I(1))}, Lim: -1},
			{Kind: "rep", Rows: []m.Row{R(I(1), I(23), I(0)), R(I(12), I(3), I(1))}, Lim: -1}}},
		// pending delete masks the unique check (REPLACE / UPDATE / ODKU)
		{u2, []m.Stmt{
			{Kind: "ins", Rows: []m.Row{R(I(1), I(5))}, Lim: -1},
			{Kind: "rep", Rows: []m.Row{R(I(1), I(6)), R(I(2), I(5)), R(I(3), I(5))}, Lim: -1}}},
		{u2, []m.Stmt{
			{Kind: "ins", Rows: []m.Row{R(I(1), I(5))}, Lim: -1},
			{Kind: "odku", Rows: []m.Row{R(I(1), I(0)), R(I(2), I(5)), R(I(3), I(5))}, Asg: []m.Asg{{Kind: "set", C: 1, V: I(6)}}, Lim: -1}}},
		// REPLACE that deletes two rows reports 2, not 3
		{u3, []m.Stmt{
			{Kind: "ins", Rows: []m.Row{R(I(1), I(5), I(0)), R(I(2), I(6), I(0))}, Lim: -1},
			{Kind: "rep", Rows: []m.Row{R(I(1), I(6), I(9))}, Lim: -1},
			{Kind: "rep", Rows: []m.Row{R(I(1), I(6), I(9))}, Lim: -1},
			{Kind: "rep", Rows: []m.Row{R(I(7), I(7), I(7))}, Lim: -1}}},
		// plain regression: update / delete / odku with counts
		{u2, []m.Stmt{
			{Kind: "ins", Rows: []m.Row{R(I(1), I(5)), R(I(2), I(7)), R(I(3), I(8))}, Lim: -1},
			{Kind: "upd", Asg: []m.Asg{{Kind: "add", C: 1, K: 1}}, Where: []m.Cond{{Op: "ge", C: 0, V: I(2)}}, Ord: []m.Ord{{C: 0, Desc: true}}, Lim: 1},
			{Kind: "del", Where: []m.Cond{{Op: "eq", C: 1, V: I(7)}}, Lim: -1},
			{Kind: "odku", Rows: []m.Row{R(I(1), I(0)), R(I(9), I(9))}, Asg: []m.Asg{{Kind: "add", C: 1, K: 10}}, Lim: -1}}},
		// keyless multiset: duplicates, delete one of two equal rows with LIMIT
		{kl, []m.Stmt{
			{Kind: "ins", Rows: []m.Row{R(I(1), m.Str("a")), R(I(1), m.Str("a")), R(m.Null, m.Str("b"))}, Lim: -1},
			{Kind: "del", Where: []m.Cond{{Op: "eq", C: 0, V: I(1)}}, Ord: []m.Ord{{C: 0}, {C: 1}}, Lim: 1},
			{Kind: "upd", Asg: []m.Asg{{Kind: "set", C: 1, V: m.Str("c")}}, Where: []m.Cond{{Op: "isnull", C: 0}}, Lim: -1}}},
	}
}

func run(a hx.RunArgs) error {
	out := hx.NewOut(a.OutDir)
	defer out.Close()
	out.Rule = "histories of 2-10 INSERT / INSERT IGNORE / REPLACE / INSERT..ON DUPLICATE KEY UPDATE / UPDATE / DELETE statements (multi-row, WHERE, ORDER BY, LIMIT) " +
		"over generated schemas (keyless, single and composite primary key, 0-1 unique index with optional prefix, INT and VARCHAR columns, NULLs), corpus of witnesses first; " +
		"a history is non-trivial when a statement after the first one hit a duplicate (error, skip, replace, update) or changed at least one row"
	rn := m.NewRunner()
	// Fork(): hx.NewRand(k+1) is hx.NewRand(k) shifted by one draw; forking decorrelates the seeds
	g := &m.Gen{R: hx.NewRand(a.Seed).Fork(), P: m.Profile{CIChance: [2]int{0, 1}, StrChance: [2]int{1, 3}, KeylessChance: [2]int{1, 4}, MaxStmts: 10}}

	one := func(s m.Schema, next func(i int, cur []m.Row) *m.Stmt) {
		dup := ""
		h, steps := rn.History(s, next, func(i int, st m.Step) bool {
			dup = m.DupIn(s, st.Rows)
			return dup != ""
		})
		nontriv := false
		for i, st := range steps {
			out.Stat("stmt:" + h[i].Kind)
			out.Stat("class:" + strings.SplitN(st.Class, ":", 2)[0] + map[bool]string{true: ":" + st.Class, false: ""}[strings.HasPrefix(st.Class, "err")])
			if i > 0 && (st.Class != "ok" || st.Affected > 0) {
				nontriv = true
			}
		}
		switch {
		case s.Keyless():
			out.Stat("schema:keyless")
		case len(s.PK) == 1:
			out.Stat("schema:pk1")
		default:
			out.Stat("schema:pk2")
		}
		if len(s.Uniq) > 0 {
			out.Stat("schema:unique")
		}
		id := out.Case(m.Payload(s, h[:len(steps)]), m.JoinObs(steps), nontriv)
		if dup != "" {
			out.Stat("oracle:stored-duplicate")
			out.OracleFail(id, "-", fmt.Sprintf("after statement %d (%s): %s", len(steps), h[len(steps)-1].SQL("t"), dup))
		}
	}

	for _, c := range corpus() {
		one(c.S, m.Fixed(c.H))
	}
	n := 1500
	if a.Thorough {
		n = 150000
	}
	for i := 0; i < n; i++ {
		s := g.Schema()
		one(s, g.Next(s))
	}
	return nil
}
