// C41 — Persisted accounts and grants reload identically.
//
// run: an engine A with accounts enabled executes a generated history of account-management
// statements (users with passwords/plugins, roles, GRANT/REVOKE at every level with names in mixed
// case, role grants with and without ADMIN OPTION, direct edits of the exported account fields);
// every statement hands the persister the serialized bytes. The last bytes are loaded into a fresh
// engine B with MySQLDb.LoadData. Observation of the real code: the complete access-control state of
// B (accounts, credentials, every privilege-set entry with its map key and display name, role edges)
// and a grid of authorization decisions of sessions on B (UserHasPrivileges for every privilege x
// database x table, CheckDatabase/CheckTable, RoutineAdminCheck, GrantRole.CheckAuth). The Lean driver
// receives the dump of A and predicts both through the model of Persist/LoadData.
//
// Model-free oracle: SHOW GRANTS FOR every account gives the same rows on A and B, and the decision
// grid of every session is the same on A and B — right after the reload and again after follow-up
// GRANT/REVOKE statements run on both. The rows compared are the grants: the row by which the live
// engine displays a routine entry that holds no privilege (`GRANT USAGE ON PROCEDURE …`, a residue of
// REVOKE) is left out on both sides, and after the follow-up statements the rows are compared without
// regard to letter case (display name of a privilege-less entry that was not persisted); see showGrants.
package main

import (
	"fmt"
	"go/ast"
	"regexp"
	"sort"
	"strings"

	"github.com/dolthub/go-mysql-server/sql"
	"github.com/dolthub/go-mysql-server/sql/mysql_db"
	"github.com/dolthub/go-mysql-server/sql/plan"
	"github.com/dolthub/go-mysql-server/verifharness/aclx"
	"github.com/dolthub/go-mysql-server/verifharness/hx"
)

func main() { hx.Main(extract, run) }

// ---------------------------------------------------------------------------------------------
// Dump of an engine's access-control state.

type dTbl struct {
	Key, Name string
	Privs     []int
}
type dRtn struct {
	Key    string
	IsProc bool
	Name   string
	Privs  []int
}
type dDb struct {
	Key, Name string
	Privs     []int
	Tables    []dTbl
	Routines  []dRtn
}
type dUser struct {
	Name, Host, Plugin, Auth string
	Locked, Super, Ephemeral bool
	Extra                    []string
	Global                   []int
	Dyn                      []mysql_db.VerifDyn
	Dbs                      []dDb
}
type dEdge struct {
	FromHost, FromUser, ToHost, ToUser string
	Admin                              bool
}
type dState struct {
	Users []dUser
	Edges []dEdge
}

func dump(db *mysql_db.MySQLDb) dState {
	rd := db.Reader()
	defer rd.Close()
	var st dState
	// Accounts in the order the lookup of MySQLDb.GetUser sees them: grouped by user name (names sorted),
	// inside a group in the order of the secondary index (= insertion order).
	nameSet := map[string]bool{}
	total := 0
	rd.VisitUsers(func(u *mysql_db.User) { nameSet[u.User] = true; total++ })
	var names []string
	for n := range nameSet {
		names = append(names, n)
	}
	sort.Strings(names)
	for _, n := range names {
		for _, u := range rd.GetUsersByUsername(n) {
			st.Users = append(st.Users, dumpUser(u))
		}
	}
	if len(st.Users) != total {
		panic(fmt.Sprintf("harness: secondary index lists %d accounts, the set holds %d", len(st.Users), total))
	}
	rd.VisitRoleEdges(func(e *mysql_db.RoleEdge) {
		st.Edges = append(st.Edges, dEdge{e.FromHost, e.FromUser, e.ToHost, e.ToUser, e.WithAdminOption})
	})
	sort.Slice(st.Edges, func(i, j int) bool { return fmt.Sprint(st.Edges[i]) < fmt.Sprint(st.Edges[j]) })
	return st
}

func dumpUser(u *mysql_db.User) dUser {
	attr := "-"
	if u.Attributes != nil {
		attr = "+" + *u.Attributes
	}
	du := dUser{Name: u.User, Host: u.Host, Plugin: u.Plugin, Auth: u.AuthString, Locked: u.Locked, Super: u.IsSuperUser,
		Ephemeral: u.IsEphemeral, Extra: []string{u.Identity, u.SslType, u.SslCipher, u.X509Issuer, u.X509Subject, attr}}
	v := mysql_db.VerifDumpPrivSet(u.PrivilegeSet)
	du.Global, du.Dyn = v.Global, v.Dynamic
	for _, d := range v.Dbs {
		dd := dDb{Key: d.Key, Name: d.Name, Privs: d.Privs}
		for _, t := range d.Tables {
			dd.Tables = append(dd.Tables, dTbl{t.Key, t.Name, t.Privs})
		}
		for _, r := range d.Routines {
			dd.Routines = append(dd.Routines, dRtn{r.Key, r.IsProc, r.Name, r.Privs})
		}
		du.Dbs = append(du.Dbs, dd)
	}
	return du
}

func b01(b bool) string {
	if b {
		return "1"
	}
	return "0"
}

func ints(l []int) string {
	parts := make([]string, len(l))
	for i, x := range l {
		parts[i] = fmt.Sprint(x)
	}
	return "(" + strings.Join(parts, " ") + ")"
}

func (s dState) payload() (users, edges string) {
	var us []string
	for _, u := range s.Users {
		var dy, dbs []string
		for _, d := range u.Dyn {
			dy = append(dy, hx.List(hx.HexS(d.Name), b01(d.WGO)))
		}
		for _, d := range u.Dbs {
			var ts, rs []string
			for _, t := range d.Tables {
				ts = append(ts, hx.List("t", hx.HexS(t.Key), hx.HexS(t.Name), ints(t.Privs)))
			}
			for _, r := range d.Routines {
				rs = append(rs, hx.List("r", hx.HexS(r.Key), b01(r.IsProc), hx.HexS(r.Name), ints(r.Privs)))
			}
			dbs = append(dbs, hx.List("db", hx.HexS(d.Key), hx.HexS(d.Name), ints(d.Privs), "("+strings.Join(ts, " ")+")", "("+strings.Join(rs, " ")+")"))
		}
		us = append(us, hx.List("u", hx.HexS(u.Name), hx.HexS(u.Host), hx.HexS(u.Plugin), hx.HexS(u.Auth), b01(u.Locked), b01(u.Super), b01(u.Ephemeral),
			hx.ListOf(u.Extra, hx.HexS), ints(u.Global), "("+strings.Join(dy, " ")+")", "("+strings.Join(dbs, " ")+")"))
	}
	var es []string
	for _, e := range s.Edges {
		es = append(es, hx.List("e", hx.HexS(e.FromHost), hx.HexS(e.FromUser), hx.HexS(e.ToHost), hx.HexS(e.ToUser), b01(e.Admin)))
	}
	return "(users " + strings.Join(us, " ") + ")", "(edges " + strings.Join(es, " ") + ")"
}

// render mirrors `renderState` of lean/Drivers/C41.lean.
func privsStr(l []int) string {
	parts := make([]string, len(l))
	for i, x := range l {
		parts[i] = fmt.Sprint(x)
	}
	return strings.Join(parts, ",")
}

func sorted(l []string) []string { sort.Strings(l); return l }

func (s dState) render() string {
	var us []string
	for _, u := range s.Users {
		if u.Ephemeral {
			continue
		}
		var ex, dy, dbs []string
		for _, e := range u.Extra {
			ex = append(ex, hx.HexS(e))
		}
		for _, d := range u.Dyn {
			dy = append(dy, hx.HexS(d.Name)+"="+b01(d.WGO))
		}
		for _, d := range u.Dbs {
			var ts, rs []string
			has := len(d.Privs) > 0
			for _, t := range d.Tables {
				if len(t.Privs) > 0 {
					has = true
					ts = append(ts, "T"+hx.HexS(t.Name)+"["+privsStr(t.Privs)+"]")
				}
			}
			for _, r := range d.Routines {
				if len(r.Privs) > 0 {
					has = true
					rs = append(rs, "R"+b01(r.IsProc)+"/"+hx.HexS(r.Name)+"["+privsStr(r.Privs)+"]")
				}
			}
			if has {
				dbs = append(dbs, "D"+hx.HexS(d.Name)+"["+privsStr(d.Privs)+"]("+strings.Join(sorted(ts), " ")+")("+strings.Join(sorted(rs), " ")+")")
			}
		}
		us = append(us, "U"+hx.HexS(u.Host)+"@"+hx.HexS(u.Name)+":"+hx.HexS(u.Plugin)+":"+hx.HexS(u.Auth)+":"+b01(u.Locked)+":"+
			strings.Join(ex, ",")+":G"+privsStr(u.Global)+":Y"+strings.Join(sorted(dy), ",")+":"+strings.Join(sorted(dbs), " "))
	}
	var es []string
	seen := map[string]bool{}
	for _, e := range s.Edges {
		r := "E" + hx.HexS(e.FromHost) + "@" + hx.HexS(e.FromUser) + ">" + hx.HexS(e.ToHost) + "@" + hx.HexS(e.ToUser) + ":" + b01(e.Admin)
		if !seen[r] {
			seen[r] = true
			es = append(es, r)
		}
	}
	return strings.Join(sorted(us), ";") + "|" + strings.Join(sorted(es), ";")
}

// keyedByLowerName checks the invariant the theorems assume of a live state: every privilege-set entry is
// filed under its lower-cased name ("" if it holds, else a description).
func (s dState) keyedByLowerName() string {
	for _, u := range s.Users {
		for _, d := range u.Dbs {
			if d.Key != strings.ToLower(d.Name) {
				return fmt.Sprintf("%s@%s: database entry %q under key %q", u.Name, u.Host, d.Name, d.Key)
			}
			for _, t := range d.Tables {
				if t.Key != strings.ToLower(t.Name) {
					return fmt.Sprintf("%s@%s: table entry %q.%q under key %q", u.Name, u.Host, d.Name, t.Name, t.Key)
				}
			}
			for _, r := range d.Routines {
				if r.Key != strings.ToLower(r.Name) {
					return fmt.Sprintf("%s@%s: routine entry %q.%q under key %q", u.Name, u.Host, d.Name, r.Name, r.Key)
				}
			}
		}
	}
	return ""
}

func (s dState) mixedCase() bool {
	for _, u := range s.Users {
		for _, d := range u.Dbs {
			has := len(d.Privs) > 0
			mixed := d.Name != d.Key
			for _, t := range d.Tables {
				if len(t.Privs) > 0 {
					has = true
					mixed = mixed || t.Name != t.Key
				}
			}
			for _, r := range d.Routines {
				has = has || len(r.Privs) > 0
				mixed = mixed || r.Name != r.Key
			}
			if has && mixed && !u.Ephemeral {
				return true
			}
		}
	}
	return false
}

// hostMatches is the harness's own copy of the disjunction in MySQLDb.GetUser (roleSearch = false); it is
// used only to classify a case (statistics and the tag of an oracle failure).
func hostMatches(host, orig, uHost string) bool {
	pat := func(h string) bool {
		if !strings.Contains(uHost, "%") {
			return false
		}
		m, err := regexp.MatchString("^"+strings.ReplaceAll(regexp.QuoteMeta(uHost), "%", ".*")+"$", h)
		return err == nil && m
	}
	return host == uHost || (host == "localhost" && (uHost == "::1" || uHost == "127.0.0.1")) || uHost == "%" || pat(host) || (orig != host && pat(orig))
}

// ambiguous: some session is not the primary key of an account and matches two or more accounts of its
// user name (or, when none, two or more anonymous accounts): which one it runs as depends on their order.
func (s dState) ambiguous(sessions []aclx.Acct) bool {
	for _, se := range sessions {
		host := se.Host
		if host == "127.0.0.1" || host == "::1" {
			host = "localhost"
		}
		exact, named, anon := false, 0, 0
		for _, u := range s.Users {
			if u.Ephemeral {
				continue
			}
			if u.Name == se.Name && u.Host == host {
				exact = true
			}
			if hostMatches(host, se.Host, u.Host) {
				if u.Name == se.Name {
					named++
				} else if u.Name == "" {
					anon++
				}
			}
		}
		if !exact && (named >= 2 || (named == 0 && anon >= 2)) {
			return true
		}
	}
	return false
}

func (s dState) adminEdge() bool {
	for _, e := range s.Edges {
		if e.Admin {
			return true
		}
	}
	return false
}

// ---------------------------------------------------------------------------------------------
// Decision grid on a real engine.

var gridDbs = []string{"d", "e", "D"}
var gridTbls = []string{"", "t", "s", "T"}

func grid(env *aclx.Env, user, addr string, roles []aclx.Acct) string {
	sess := env.Session(user, addr)
	sess.SetCurrentDatabase("")
	// does the session match an account at all?
	if err := env.Handler().CheckDatabase(sess, nil, "information_schema"); err != nil && aclx.Classify(err, "") == "noaccount" {
		return "S-"
	}
	var cells []string
	for _, d := range gridDbs {
		for _, t := range gridTbls {
			var b strings.Builder
			for p := 0; p <= 30; p++ {
				b.WriteString(b01(env.Db.UserHasPrivileges(sess, sql.NewPrivilegedOperation(sql.PrivilegeCheckSubject{Database: d, Table: t}, sql.PrivilegeType(p)))))
			}
			var err error
			if t == "" {
				err = env.Handler().CheckDatabase(sess, nil, d)
			} else {
				err = env.Handler().CheckTable(sess, nil, d, "", t)
			}
			switch aclx.Classify(err, "") {
			case "ok":
				b.WriteString("0")
			case "dbdenied":
				b.WriteString("1")
			case "tbldenied":
				b.WriteString("2")
			default:
				b.WriteString("9")
			}
			cells = append(cells, b.String())
		}
	}
	var rtn, rls strings.Builder
	for _, d := range gridDbs {
		rtn.WriteString(b01(env.Db.RoutineAdminCheck(sess, sql.NewPrivilegedOperation(sql.PrivilegeCheckSubject{Database: d, Routine: "p", IsProcedure: true}, sql.PrivilegeType_Execute))))
	}
	for _, d := range gridDbs {
		rtn.WriteString(b01(env.Db.RoutineAdminCheck(sess, sql.NewPrivilegedOperation(sql.PrivilegeCheckSubject{Database: d, Routine: "f", IsProcedure: false}, sql.PrivilegeType_Execute))))
	}
	for _, r := range roles {
		n, _ := plan.NewGrantRole([]plan.UserName{{Name: r.Name, Host: r.Host}}, nil, false).WithDatabase(env.Db)
		rls.WriteString(b01(n.(*plan.GrantRole).CheckAuth(sess, env.Db)))
	}
	aclx.Log = aclx.Log[:0]
	return "S" + strings.Join(cells, ".") + "/" + rtn.String() + "/" + rls.String()
}

// usageOnRoutine matches the SHOW GRANTS line of a routine entry that holds NO privilege. It is exact:
// generateRoutinePrivStrings (sql/rowexec/show_iters.go) prints the word USAGE iff the entry has no privilege
// other than GRANT OPTION, and appends " WITH GRANT OPTION" iff it has that one — so "USAGE" without the suffix
// is the rendering of the empty privilege set and of nothing else.
var usageOnRoutine = regexp.MustCompile("^GRANT USAGE ON (PROCEDURE|FUNCTION) `[^`]*`\\.`[^`]*` TO `[^`]*`@`[^`]*`$")

// showGrants returns the rows of SHOW GRANTS FOR the account as a sorted text, and how many rows of
// privilege-less routine entries were left out of it.
//
// A privilege-less routine entry is what REVOKE … ON PROCEDURE leaves behind in the live set when the routine
// name is given with an upper-case letter (RemoveRoutine obtains — or creates — the entry filed under the
// lower-cased name, removes the privileges, and then deletes `routines[routineKey{name as given}]`, which
// misses it). It is not a grant: it answers no privilege check, `render`/`renderState` leave it out of the compared state, the theorems
// (reload_privileges_spec: "the grants held at routine level") do not speak about it. Unlike a privilege-less
// table entry it is not filtered by GetRoutines(): SHOW GRANTS prints it as `GRANT USAGE ON PROCEDURE …` whenever
// its database holds some privilege, and Persist writes it in exactly that situation (serializeRoutines(
// database.getRoutines()) under getDatabases(), which keeps only databases with privileges). So right after a
// reload both engines print the same rows; but when the database held nothing else the residue exists only on
// the persisting engine, and a follow-up GRANT inside that database makes it visible there alone. That the
// live engine prints such a row at all is a display matter of SHOW GRANTS / REVOKE (not of persistence; MySQL
// deletes the procs_priv row) — the oracle of this property compares the grants, so the row is left out on
// both sides (first seen: seed 1 quick, u1@% with `e`.`P` fully revoked, follow-up GRANT DELETE ON `E`.`S`;
// corpus cases 9 and 10).
func showGrants(env *aclx.Env, a aclx.Acct) (string, int) {
	r := env.Run(env.Root, "d", "SHOW GRANTS FOR "+a.SQL())
	if r.Class() != "ok" {
		return r.Class(), 0
	}
	var rows []string
	residues := 0
	for _, row := range r.Rows {
		line := row[0]
		if usageOnRoutine.MatchString(line) {
			residues++
			continue
		}
		// the role line lists the roles in edge-insertion order: compare it as a set
		if strings.HasPrefix(line, "GRANT `") && strings.Contains(line, "` TO ") && !strings.Contains(line, " ON ") {
			i := strings.LastIndex(line, " TO ")
			rs := strings.Split(strings.TrimPrefix(line[:i], "GRANT "), ", ")
			sort.Strings(rs)
			line = "GRANT " + strings.Join(rs, ", ") + line[i:]
		}
		rows = append(rows, line)
	}
	sort.Strings(rows)
	return strings.Join(rows, "\n"), residues
}

// ---------------------------------------------------------------------------------------------
// Generator of the state of engine A.

var userNames = []string{"u1", "u2", "u3"}
var userHosts = []string{"localhost", "localhost", "%", "10.0.%", "h%"}
var roleNames = []string{"r1", "r2"}
var dbNames = []string{"d", "d", "e", "D", "E"}
var tblNames = []string{"t", "t", "s", "T", "S"}
var globalOnly = []int{4, 6, 8, 12, 15, 20, 22, 23, 24, 26, 28, 29}
var dbLevel = []int{1, 2, 3, 5, 7, 9, 10, 11, 13, 14, 16, 17, 18, 19, 21, 25, 27, 30, 31}
var tblLevel = []int{1, 3, 9, 10, 11, 16, 17, 18, 21, 25, 27, 30, 31}

type gen struct {
	r     *hx.Rand
	env   *aclx.Env
	accts []aclx.Acct
	roles []aclx.Acct
	mixed bool // allow names in mixed case
	admin bool // allow WITH ADMIN OPTION
	cont  []aclx.Stmt // fixed follow-up statements (corpus cases); nil: generated
}

func (g *gen) exec(s aclx.Stmt) bool {
	r := g.env.Run(g.env.Root, "d", s.SQL())
	return r.Class() == "ok"
}

func (g *gen) name(pool []string) string {
	for {
		n := hx.Pick(g.r, pool)
		if g.mixed || n == strings.ToLower(n) {
			return n
		}
	}
}

func (g *gen) grantee() aclx.Acct {
	if len(g.roles) > 0 && g.r.Chance(1, 3) {
		return hx.Pick(g.r, g.roles)
	}
	return hx.Pick(g.r, g.accts)
}

func (g *gen) privs(pool []int, global bool) []aclx.PPriv {
	if g.r.Chance(1, 8) {
		return []aclx.PPriv{{Type: 0}}
	}
	var out []aclx.PPriv
	for i, n := 0, 1+g.r.Intn(3); i < n; i++ {
		if global && g.r.Chance(1, 6) {
			out = append(out, aclx.PPriv{Type: 33, Dyn: hx.Pick(g.r, []string{"replication_slave_admin", "clone_admin"})})
			continue
		}
		out = append(out, aclx.PPriv{Type: hx.Pick(g.r, pool)})
	}
	return out
}

func (g *gen) step() {
	switch x := g.r.Intn(100); {
	case x < 8:
		a := aclx.Acct{Name: hx.Pick(g.r, userNames), Host: hx.Pick(g.r, userHosts)}
		q := "CREATE USER " + a.SQL()
		switch g.r.Intn(4) {
		case 1:
			q += " IDENTIFIED BY 'pw" + fmt.Sprint(g.r.Intn(3)) + "'"
		case 2:
			q += " IDENTIFIED WITH mysql_native_password BY 'np" + fmt.Sprint(g.r.Intn(3)) + "'"
		case 3:
			q += " IDENTIFIED WITH caching_sha2_password BY 'cs" + fmt.Sprint(g.r.Intn(3)) + "'"
		}
		if g.exec(aclx.Stmt{Kind: "none", Text: q}) {
			g.accts = append(g.accts, a)
		}
	case x < 12:
		a := aclx.Acct{Name: hx.Pick(g.r, roleNames), Host: "%"}
		if g.exec(aclx.Stmt{Kind: "cr", Roles: []aclx.Acct{a}}) {
			g.roles = append(g.roles, a)
		}
	case x < 15 && len(g.accts) > 1:
		i := g.r.Intn(len(g.accts))
		if g.exec(aclx.Stmt{Kind: "du", Users: []aclx.Acct{g.accts[i]}}) {
			g.accts = append(g.accts[:i:i], g.accts[i+1:]...)
		}
	case x < 17 && len(g.roles) > 0:
		i := g.r.Intn(len(g.roles))
		if g.exec(aclx.Stmt{Kind: "dr", Roles: []aclx.Acct{g.roles[i]}}) {
			g.roles = append(g.roles[:i:i], g.roles[i+1:]...)
		}
	case x < 30 && len(g.roles) > 0:
		g.exec(aclx.Stmt{Kind: "gr", Flag: g.admin && g.r.Chance(1, 3), Roles: []aclx.Acct{hx.Pick(g.r, g.roles)}, Users: []aclx.Acct{g.grantee()}})
	case x < 33 && len(g.roles) > 0:
		g.exec(aclx.Stmt{Kind: "rr", Roles: []aclx.Acct{hx.Pick(g.r, g.roles)}, Users: []aclx.Acct{g.grantee()}})
	case x < 38:
		// direct edit of exported account fields through the Editor API, then Persist (as ALTER USER does)
		a := hx.Pick(g.r, g.accts)
		ed := g.env.Db.Editor()
		if u := g.env.Db.GetUser(ed, a.Name, a.Host, false); u != nil {
			switch g.r.Intn(8) {
			case 7:
				// a function-level grant (GRANT … ON FUNCTION is not accepted by the executor, the privilege
				// tables are): routine entries with isProc = false
				u.PrivilegeSet.AddRoutine(g.name([]string{"d", "D", "e"}), g.name([]string{"f", "f", "F", "p"}), false, sql.PrivilegeType_Execute)
			case 0:
				u.Locked = !u.Locked
			case 1:
				s := fmt.Sprintf(`{"k": %d}`, g.r.Intn(5))
				u.Attributes = &s
			case 2:
				u.Identity = "id" + fmt.Sprint(g.r.Intn(3))
			case 3:
				u.SslType = hx.Pick(g.r, []string{"", "ANY", "X509", "SPECIFIED"})
			case 4:
				u.SslCipher = "c" + fmt.Sprint(g.r.Intn(3))
			case 5:
				u.X509Issuer = "i" + fmt.Sprint(g.r.Intn(3))
			case 6:
				u.X509Subject = "s" + fmt.Sprint(g.r.Intn(3))
			}
			ed.PutUser(u)
			if err := g.env.Db.Persist(g.env.Root, ed); err != nil {
				panic(err)
			}
		}
		ed.Close()
	default:
		s := aclx.Stmt{Kind: "grant"}
		if x >= 85 {
			s.Kind = "revoke"
		}
		switch g.r.Intn(10) {
		case 0, 1:
			s.LvDb, s.LvTbl = "*", "*"
			s.Privs = g.privs(append(append([]int{}, dbLevel...), globalOnly...), true)
		case 2, 3, 4:
			s.LvDb, s.LvTbl = g.name(dbNames), "*"
			s.Privs = g.privs(dbLevel, false)
		case 5:
			s.LvDb, s.LvTbl, s.ObjTyp = g.name([]string{"d", "D", "e"}), g.name([]string{"p", "p", "P", "q"}), 3
			s.Privs = []aclx.PPriv{{Type: hx.Pick(g.r, []int{14, 2, 16})}}
		default:
			s.LvDb, s.LvTbl = g.name(dbNames), g.name(tblNames)
			s.Privs = g.privs(tblLevel, false)
		}
		s.Users = []aclx.Acct{g.grantee()}
		if s.Kind == "grant" && s.ObjTyp == 0 {
			s.WGO = g.r.Chance(1, 6)
		}
		g.exec(s)
	}
}

// sqlToPlan maps sql.PrivilegeType to the plan.PrivilegeType keyword index (inverse of aclx.PlanToSQLPriv).
func sqlToPlan(p int) int {
	for i, q := range aclx.PlanToSQLPriv {
		if q == p {
			return i
		}
	}
	return -1
}

// followUps are statements run by root on both engines after the reload: they address entries the
// state already holds (REVOKE of a held privilege, GRANT beside it, under the stored name or another
// spelling of it) and role grants, so that a reloaded entry that can no longer be found shows up as a
// different decision.
func (g *gen) followUps(a dState) []aclx.Stmt {
	var out []aclx.Stmt
	type held struct {
		acct    aclx.Acct
		db, tbl string
		rtn     bool
		privs   []int
	}
	var hs []held
	for _, u := range a.Users {
		if u.Super || u.Ephemeral {
			continue
		}
		acct := aclx.Acct{Name: u.Name, Host: u.Host}
		for _, d := range u.Dbs {
			if len(d.Privs) > 0 {
				hs = append(hs, held{acct, d.Name, "*", false, d.Privs})
			}
			for _, t := range d.Tables {
				if len(t.Privs) > 0 {
					hs = append(hs, held{acct, d.Name, t.Name, false, t.Privs})
				}
			}
			for _, r := range d.Routines {
				if len(r.Privs) > 0 && r.IsProc {
					hs = append(hs, held{acct, d.Name, r.Name, true, r.Privs})
				}
			}
		}
	}
	respell := func(n string) string {
		switch g.r.Intn(4) {
		case 0:
			return strings.ToLower(n)
		case 1:
			return strings.ToUpper(n)
		}
		return n
	}
	for i, n := 0, g.r.Intn(4); i < n; i++ {
		switch x := g.r.Intn(10); {
		case x < 6 && len(hs) > 0:
			h := hx.Pick(g.r, hs)
			s := aclx.Stmt{Kind: "revoke", LvDb: respell(h.db), LvTbl: h.tbl, Users: []aclx.Acct{h.acct}}
			if h.tbl != "*" {
				s.LvTbl = respell(h.tbl)
			}
			if g.r.Chance(1, 3) {
				s.Kind = "grant"
			}
			if h.rtn {
				s.ObjTyp = 3
				s.Privs = []aclx.PPriv{{Type: hx.Pick(g.r, []int{14, 2, 16})}}
			} else if s.Kind == "revoke" && g.r.Chance(1, 4) {
				s.Privs = []aclx.PPriv{{Type: 0}}
			} else if s.Kind == "revoke" {
				pt := sqlToPlan(hx.Pick(g.r, h.privs))
				if pt < 0 {
					panic("harness: held privilege without keyword")
				}
				s.Privs = []aclx.PPriv{{Type: pt}}
			} else {
				s.Privs = []aclx.PPriv{{Type: hx.Pick(g.r, tblLevel)}}
			}
			out = append(out, s)
		case x < 8 && len(g.roles) > 0:
			out = append(out, aclx.Stmt{Kind: hx.Pick(g.r, []string{"gr", "rr"}), Roles: []aclx.Acct{hx.Pick(g.r, g.roles)}, Users: []aclx.Acct{g.grantee()}})
		default:
			s := aclx.Stmt{Kind: hx.Pick(g.r, []string{"grant", "revoke"}), LvDb: hx.Pick(g.r, dbNames), LvTbl: hx.Pick(g.r, append([]string{"*"}, tblNames...)), Users: []aclx.Acct{g.grantee()}}
			s.Privs = []aclx.PPriv{{Type: hx.Pick(g.r, tblLevel)}}
			out = append(out, s)
		}
	}
	return out
}

// sessions that reach the accounts of the state (plus one stranger)
func sessionsFor(st dState) []aclx.Acct {
	var out []aclx.Acct
	seen := map[aclx.Acct]bool{}
	add := func(a aclx.Acct) {
		if !seen[a] {
			seen[a] = true
			out = append(out, a)
		}
	}
	for _, u := range st.Users {
		switch u.Host {
		case "localhost":
			add(aclx.Acct{Name: u.Name, Host: "localhost"})
		case "%":
			add(aclx.Acct{Name: u.Name, Host: "elsewhere"})
		case "10.0.%":
			add(aclx.Acct{Name: u.Name, Host: "10.0.0.5"})
		case "h%":
			add(aclx.Acct{Name: u.Name, Host: "hx1"})
		}
	}
	add(aclx.Acct{Name: "stranger", Host: "localhost"})
	return out
}

// ---------------------------------------------------------------------------------------------

func oneCase(out *hx.Out, build func(g *gen), r *hx.Rand, mixed, admin bool) {
	envA := aclx.NewEnv(false)
	g := &gen{r: r, env: envA, mixed: mixed, admin: admin}
	build(g)
	a := dump(envA.Db)
	// force a final Persist so that the saved bytes describe exactly the dumped state
	ed := envA.Db.Editor()
	if err := envA.Db.Persist(envA.Root, ed); err != nil {
		panic(err)
	}
	ed.Close()

	envB := aclx.NewBareEnv()
	var loadErr error
	p := hx.Safe(func() { loadErr = envB.Db.LoadData(envB.Root, envA.Saved) })
	envB.Db.AddRootAccount()
	b := dump(envB.Db)

	sessions := sessionsFor(a)
	var roles []aclx.Acct
	for _, u := range a.Users {
		if u.Locked && u.Plugin == "mysql_native_password" && u.Auth == "" && u.Host == "%" { // roles (IsRole is not exported through the dump)
			roles = append(roles, aclx.Acct{Name: u.Name, Host: u.Host})
		}
	}
	if len(roles) > 3 {
		roles = roles[:3]
	}
	gridOf := func(env *aclx.Env) []string {
		var gs []string
		for _, s := range sessions {
			gs = append(gs, grid(env, s.Name, s.Host, roles))
		}
		return gs
	}
	// rows of SHOW GRANTS for every account, and the number of rows of privilege-less routine entries left out
	grantsOf := func(env *aclx.Env) ([]string, int) {
		var gs []string
		residues := 0
		for _, u := range a.Users {
			g, n := showGrants(env, aclx.Acct{Name: u.Name, Host: u.Host})
			gs = append(gs, g)
			residues += n
		}
		return gs, residues
	}
	gridA, gridB := gridOf(envA), gridOf(envB)
	grantsA, resA := grantsOf(envA)
	grantsB, resB := grantsOf(envB)

	// follow-up statements on both engines
	cont := g.cont
	if cont == nil {
		cont = g.followUps(a)
	}
	var contClassA, contClassB []string
	for _, s := range cont {
		contClassA = append(contClassA, envA.Run(envA.Root, "d", s.SQL()).Class())
		contClassB = append(contClassB, envB.Run(envB.Root, "d", s.SQL()).Class())
	}
	gridA2, gridB2 := gridOf(envA), gridOf(envB)
	grantsA2, resA2 := grantsOf(envA)
	grantsB2, resB2 := grantsOf(envB)

	obs := b.render() + "#" + strings.Join(gridB, " ") + "#" + strings.Join(gridB2, " ")
	if p != "" {
		obs = "crash:" + p
	} else if loadErr != nil {
		obs = "loaderr:" + loadErr.Error()
	}
	users, edges := a.payload()
	payload := hx.List("state", users, edges, "(sessions "+strings.Join(mapAccts(sessions), " ")+")",
		hx.List("grid", hx.ListOf(gridDbs, hx.HexS), hx.ListOf(gridTbls, hx.HexS), hx.ListOf(roles, aclx.Acct.Payload)),
		"(cont "+strings.Join(mapStmts(cont), " ")+")")
	nGrants := 0
	for _, u := range a.Users {
		if !u.Super {
			nGrants += len(u.Global) + len(u.Dbs)
		}
	}
	id := out.Case(payload, obs, nGrants > 0 && len(a.Users) > 2)
	out.Stat("state")
	if a.mixedCase() {
		out.Stat("state:mixed-case-names")
	}
	if a.adminEdge() {
		out.Stat("state:admin-edge")
	}
	if a.ambiguous(sessions) {
		out.Stat("state:session-matches-several-accounts")
	}
	if resA+resB+resA2+resB2 > 0 {
		out.Stat("oracle:SHOW GRANTS row of a privilege-less routine entry left out")
	}
	if resA != resB {
		// cannot happen while Persist writes a routine entry exactly when SHOW GRANTS prints it (see showGrants)
		out.Stat("oracle:privilege-less routine rows differ right after the reload")
	}
	if resA2 != resB2 {
		out.Stat("oracle:privilege-less routine rows differ after the follow-up statements")
	}
	out.StatN("accounts", len(a.Users))
	out.StatN("follow-up statements", len(cont))

	// model-free oracle: the reloaded engine answers like the one that persisted, before and after the
	// follow-up statements
	// The tag names the defect class the case belongs to that can explain the failed comparison: SHOW GRANTS
	// and the follow-up statements address accounts by their exact key (independent of the account order);
	// right after the reload every decision goes through Copy()/UnionWith, which re-files each entry under its
	// lower-cased name (independent of the map keys).
	pick := func(order, mixed, admin bool) string {
		switch {
		case order && a.ambiguous(sessions):
			return "reload_reorders_matching_accounts"
		case mixed && a.mixedCase():
			return "reload_loses_mixed_case_names"
		case admin && a.adminEdge():
			return "reload_drops_admin_option"
		}
		return "-"
	}
	if bad := a.keyedByLowerName(); bad != "" {
		out.OracleFail(id, "-", "live privilege set is not keyed by lower-cased names (assumption of reload_privileges_spec): "+bad)
	}
	switch {
	case p != "" || loadErr != nil:
		out.OracleFail(id, "-", "LoadData of the persisted bytes failed: "+obs)
	case !eqStrs(grantsA, grantsB):
		i := firstDiff(grantsA, grantsB)
		out.OracleFail(id, pick(false, false, true), fmt.Sprintf("SHOW GRANTS FOR %s@%s differs after reload: before %q, after %q", a.Users[i].Name, a.Users[i].Host, grantsA[i], grantsB[i]))
	case !eqStrs(gridA, gridB):
		i := firstDiff(gridA, gridB)
		out.OracleFail(id, pick(true, false, true), fmt.Sprintf("decisions of session %s@%s differ after reload: before %s, after %s", sessions[i].Name, sessions[i].Host, gridA[i], gridB[i]))
	case !eqStrs(contClassA, contClassB):
		i := firstDiff(contClassA, contClassB)
		out.OracleFail(id, pick(false, true, true), fmt.Sprintf("follow-up %q: %s on the persisting engine, %s on the reloaded one", cont[i].SQL(), contClassA[i], contClassB[i]))
	case !eqStrs(gridA2, gridB2):
		i := firstDiff(gridA2, gridB2)
		out.OracleFail(id, pick(true, true, true), fmt.Sprintf("after the follow-up statements %q the decisions of session %s@%s differ: persisting engine %s, reloaded engine %s", stmtsSQL(cont), sessions[i].Name, sessions[i].Host, gridA2[i], gridB2[i]))
	case !eqStrs(lowerAll(grantsA2), lowerAll(grantsB2)):
		// compared without regard to letter case: an entry whose privileges were all revoked stays in the live
		// set (and keeps its display name) but is not persisted, so a follow-up GRANT under another spelling
		// shows the old spelling on the persisting engine and the new one on the reloaded engine
		i := firstDiff(lowerAll(grantsA2), lowerAll(grantsB2))
		out.OracleFail(id, pick(false, true, true), fmt.Sprintf("after the follow-up statements %q SHOW GRANTS FOR %s@%s differs: persisting engine %q, reloaded engine %q", stmtsSQL(cont), a.Users[i].Name, a.Users[i].Host, grantsA2[i], grantsB2[i]))
	}
}

func lowerAll(a []string) []string {
	out := make([]string, len(a))
	for i, x := range a {
		out[i] = strings.ToLower(x)
	}
	return out
}

func eqStrs(a, b []string) bool { return firstDiff(a, b) < 0 }

func firstDiff(a, b []string) int {
	if len(a) != len(b) {
		panic("harness: observation vectors of different length")
	}
	for i := range a {
		if a[i] != b[i] {
			return i
		}
	}
	return -1
}

func mapStmts(ss []aclx.Stmt) []string {
	out := make([]string, len(ss))
	for i, s := range ss {
		out[i] = s.Payload()
	}
	return out
}

func stmtsSQL(ss []aclx.Stmt) string {
	out := make([]string, len(ss))
	for i, s := range ss {
		out[i] = s.SQL()
	}
	return strings.Join(out, "; ")
}

func mapAccts(as []aclx.Acct) []string {
	out := make([]string, len(as))
	for i, a := range as {
		out[i] = a.Payload()
	}
	return out
}

func run(a hx.RunArgs) error {
	out := hx.NewOut(a.OutDir)
	defer out.Close()
	out.Rule = "one case = one access-control state built on an engine by 8-45 statements (CREATE USER with native/sha2/default passwords, CREATE/DROP ROLE, DROP USER, " +
		"GRANT/REVOKE at global/database/table/routine level incl. ALL, dynamic privileges, GRANT OPTION, GRANT/REVOKE role with/without ADMIN OPTION, " +
		"direct edits of Locked/Attributes/Identity/Ssl*/X509* fields), persisted and loaded into a fresh engine; half of the states use only lower-case names and no ADMIN OPTION " +
		"(outside the known-defect regions); a state is non-trivial when it has more than two accounts and some non-super account holds a grant"
	u1 := aclx.Acct{Name: "u1", Host: "localhost"}
	r1 := aclx.Acct{Name: "r1", Host: "%"}
	// corpus
	u1h := aclx.Acct{Name: "u1", Host: "h%"}
	u1any := aclx.Acct{Name: "u1", Host: "%"}
	sel := []aclx.PPriv{{Type: 25}}
	oneCase(out, func(g *gen) { // F-C41-a: mixed-case database name, REVOKE after the reload
		g.exec(aclx.Stmt{Kind: "cu", Users: []aclx.Acct{u1}})
		g.exec(aclx.Stmt{Kind: "grant", LvDb: "D", LvTbl: "*", Privs: sel, Users: []aclx.Acct{u1}})
		g.cont = []aclx.Stmt{{Kind: "revoke", LvDb: "D", LvTbl: "*", Privs: sel, Users: []aclx.Acct{u1}}}
	}, hx.NewRand(1), true, false)
	oneCase(out, func(g *gen) { // F-C41-a: mixed-case table name, REVOKE after the reload
		g.exec(aclx.Stmt{Kind: "cu", Users: []aclx.Acct{u1}})
		g.exec(aclx.Stmt{Kind: "grant", LvDb: "d", LvTbl: "T", Privs: sel, Users: []aclx.Acct{u1}})
		g.cont = []aclx.Stmt{{Kind: "revoke", LvDb: "d", LvTbl: "T", Privs: sel, Users: []aclx.Acct{u1}}}
	}, hx.NewRand(1), true, false)
	oneCase(out, func(g *gen) { // F-C41-a: mixed-case routine name
		g.exec(aclx.Stmt{Kind: "cu", Users: []aclx.Acct{u1}})
		g.exec(aclx.Stmt{Kind: "grant", LvDb: "d", LvTbl: "P", ObjTyp: 3, Privs: []aclx.PPriv{{Type: 14}}, Users: []aclx.Acct{u1}})
		g.cont = []aclx.Stmt{{Kind: "revoke", LvDb: "d", LvTbl: "P", ObjTyp: 3, Privs: []aclx.PPriv{{Type: 14}}, Users: []aclx.Acct{u1}}}
	}, hx.NewRand(1), true, false)
	oneCase(out, func(g *gen) { // mixed-case name, no follow-up: the reloaded engine answers alike
		g.exec(aclx.Stmt{Kind: "cu", Users: []aclx.Acct{u1}})
		g.exec(aclx.Stmt{Kind: "grant", LvDb: "D", LvTbl: "T", Privs: sel, Users: []aclx.Acct{u1}})
		g.cont = []aclx.Stmt{}
	}, hx.NewRand(1), true, false)
	oneCase(out, func(g *gen) { // F-C41-b: ADMIN OPTION
		g.exec(aclx.Stmt{Kind: "cu", Users: []aclx.Acct{u1}})
		g.exec(aclx.Stmt{Kind: "cr", Roles: []aclx.Acct{r1}})
		g.exec(aclx.Stmt{Kind: "gr", Flag: true, Roles: []aclx.Acct{r1}, Users: []aclx.Acct{u1}})
		g.cont = []aclx.Stmt{}
	}, hx.NewRand(1), false, true)
	oneCase(out, func(g *gen) { // F-C41-c: two accounts match the session; the reload re-inserts them sorted by host
		g.exec(aclx.Stmt{Kind: "cu", Users: []aclx.Acct{u1h}})
		g.exec(aclx.Stmt{Kind: "cu", Users: []aclx.Acct{u1any}})
		g.exec(aclx.Stmt{Kind: "grant", LvDb: "d", LvTbl: "*", Privs: sel, Users: []aclx.Acct{u1h}})
		g.cont = []aclx.Stmt{}
	}, hx.NewRand(1), false, false)
	oneCase(out, func(g *gen) { // same accounts created in host order: the reload keeps the order
		g.exec(aclx.Stmt{Kind: "cu", Users: []aclx.Acct{u1any}})
		g.exec(aclx.Stmt{Kind: "cu", Users: []aclx.Acct{u1h}})
		g.exec(aclx.Stmt{Kind: "grant", LvDb: "d", LvTbl: "*", Privs: sel, Users: []aclx.Acct{u1h}})
		g.cont = []aclx.Stmt{}
	}, hx.NewRand(1), false, false)
	oneCase(out, func(g *gen) { // plain state, outside the regions
		g.exec(aclx.Stmt{Kind: "none", Text: "CREATE USER 'u1'@'localhost' IDENTIFIED BY 'pw'"})
		g.exec(aclx.Stmt{Kind: "cr", Roles: []aclx.Acct{r1}})
		g.exec(aclx.Stmt{Kind: "grant", LvDb: "d", LvTbl: "t", Privs: []aclx.PPriv{{Type: 25}, {Type: 18}}, Users: []aclx.Acct{u1}, WGO: true})
		g.exec(aclx.Stmt{Kind: "grant", LvDb: "e", LvTbl: "*", Privs: []aclx.PPriv{{Type: 0}}, Users: []aclx.Acct{r1}})
		g.exec(aclx.Stmt{Kind: "grant", LvDb: "*", LvTbl: "*", Privs: []aclx.PPriv{{Type: 20}, {Type: 33, Dyn: "clone_admin"}}, Users: []aclx.Acct{u1}})
		g.exec(aclx.Stmt{Kind: "grant", LvDb: "d", LvTbl: "p", ObjTyp: 3, Privs: []aclx.PPriv{{Type: 14}}, Users: []aclx.Acct{u1}})
		g.exec(aclx.Stmt{Kind: "gr", Roles: []aclx.Acct{r1}, Users: []aclx.Acct{u1}})
		g.cont = []aclx.Stmt{{Kind: "revoke", LvDb: "d", LvTbl: "t", Privs: []aclx.PPriv{{Type: 18}}, Users: []aclx.Acct{u1}},
			{Kind: "revoke", LvDb: "E", LvTbl: "*", Privs: sel, Users: []aclx.Acct{r1}}}
	}, hx.NewRand(1), false, false)
	exe := []aclx.PPriv{{Type: 14}}
	del := []aclx.PPriv{{Type: 10}}
	oneCase(out, func(g *gen) { // privilege-less routine entry (REVOKE under another spelling leaves it behind) in a database that holds
		// nothing else: neither shown nor persisted; the follow-up GRANT makes the live engine print it as USAGE
		// (no grant: left out of the compared rows, see showGrants). Every stored name is lower-case.
		g.exec(aclx.Stmt{Kind: "cu", Users: []aclx.Acct{u1}})
		g.exec(aclx.Stmt{Kind: "grant", LvDb: "e", LvTbl: "p", ObjTyp: 3, Privs: exe, Users: []aclx.Acct{u1}})
		g.exec(aclx.Stmt{Kind: "revoke", LvDb: "e", LvTbl: "P", ObjTyp: 3, Privs: exe, Users: []aclx.Acct{u1}})
		g.cont = []aclx.Stmt{{Kind: "grant", LvDb: "e", LvTbl: "s", Privs: del, Users: []aclx.Acct{u1}}}
	}, hx.NewRand(1), true, false)
	oneCase(out, func(g *gen) { // the alarm of seed 1 (quick): residue `e`.`P` with a mixed-case display name beside a real grant,
		// follow-up GRANT under another spelling of the database (the mixed-case region speaks about entries that
		// carry privileges: this state is outside it)
		g.exec(aclx.Stmt{Kind: "cu", Users: []aclx.Acct{u1any}})
		g.exec(aclx.Stmt{Kind: "cr", Roles: []aclx.Acct{r1}})
		g.exec(aclx.Stmt{Kind: "grant", LvDb: "d", LvTbl: "*", Privs: sel, Users: []aclx.Acct{u1any}})
		g.exec(aclx.Stmt{Kind: "grant", LvDb: "e", LvTbl: "P", ObjTyp: 3, Privs: exe, Users: []aclx.Acct{u1any}})
		g.exec(aclx.Stmt{Kind: "revoke", LvDb: "e", LvTbl: "P", ObjTyp: 3, Privs: exe, Users: []aclx.Acct{u1any}})
		g.cont = []aclx.Stmt{{Kind: "grant", LvDb: "E", LvTbl: "S", Privs: del, Users: []aclx.Acct{u1any}},
			{Kind: "rr", Roles: []aclx.Acct{r1}, Users: []aclx.Acct{u1any}}}
	}, hx.NewRand(1), true, false)

	n, maxSteps := 250, 45
	if a.Thorough {
		n = 6000
	}
	r := hx.NewRand(aclx.Scramble(a.Seed))
	for i := 0; i < n; i++ {
		rr := r.Fork()
		clean := rr.Chance(1, 2)
		steps := 8 + rr.Intn(maxSteps-7)
		oneCase(out, func(g *gen) {
			for k := 0; k < 3; k++ {
				a := aclx.Acct{Name: userNames[k], Host: hx.Pick(g.r, userHosts)}
				if g.exec(aclx.Stmt{Kind: "cu", Users: []aclx.Acct{a}}) {
					g.accts = append(g.accts, a)
				}
			}
			for k := 0; k < steps; k++ {
				g.step()
			}
		}, rr, !clean, !clean)
	}
	return nil
}

// ---------------------------------------------------------------------------------------------
// Facts: field coverage of the serializer and the loader.

func fieldNames(src *hx.Src, typeName string) ([]string, error) {
	for _, d := range src.File.Decls {
		gd, ok := d.(*ast.GenDecl)
		if !ok {
			continue
		}
		for _, sp := range gd.Specs {
			ts, ok := sp.(*ast.TypeSpec)
			if !ok || ts.Name.Name != typeName {
				continue
			}
			st, ok := ts.Type.(*ast.StructType)
			if !ok {
				return nil, fmt.Errorf("%s is not a struct", typeName)
			}
			var out []string
			for _, f := range st.Fields.List {
				for _, n := range f.Names {
					out = append(out, n.Name)
				}
			}
			return out, nil
		}
	}
	return nil, fmt.Errorf("%s: type %s not found", src.Path, typeName)
}

// selectorsOn lists the fields x.<F> read from identifier `recv` inside fd, sorted and unique.
func selectorsOn(fd *ast.FuncDecl, recv string) []string {
	set := map[string]bool{}
	ast.Inspect(fd.Body, func(n ast.Node) bool {
		if se, ok := n.(*ast.SelectorExpr); ok {
			if id, ok := se.X.(*ast.Ident); ok && id.Name == recv {
				set[se.Sel.Name] = true
			}
		}
		return true
	})
	var out []string
	for k := range set {
		out = append(out, k)
	}
	sort.Strings(out)
	return out
}

// compositeKeys lists the keys of the first composite literal of type `typeName` in fd.
func compositeKeys(fd *ast.FuncDecl, typeName string) []string {
	var out []string
	ast.Inspect(fd.Body, func(n ast.Node) bool {
		if cl, ok := n.(*ast.CompositeLit); ok && out == nil {
			if id, ok := cl.Type.(*ast.Ident); ok && id.Name == typeName {
				for _, e := range cl.Elts {
					if kv, ok := e.(*ast.KeyValueExpr); ok {
						if k, ok := kv.Key.(*ast.Ident); ok {
							out = append(out, k.Name)
						}
					}
				}
				sort.Strings(out)
			}
		}
		return true
	})
	return out
}

func extract(a hx.ExtractArgs) error {
	lf := hx.NewLeanFile("Gms.Generated.C41", "sql/mysql_db/user.go", "sql/mysql_db/role_edge.go", "sql/mysql_db/mysql_db_serialize.go", "sql/mysql_db/mysql_db_load.go", "sql/mysql_db/mysql_db.go")
	user, err := hx.ParseSrc(a.Repo, "sql/mysql_db/user.go")
	if err != nil {
		return err
	}
	uf, err := fieldNames(user, "User")
	if err != nil {
		return err
	}
	sort.Strings(uf)
	lf.DefStringList("userFields", uf)
	re, err := hx.ParseSrc(a.Repo, "sql/mysql_db/role_edge.go")
	if err != nil {
		return err
	}
	ef, err := fieldNames(re, "RoleEdge")
	if err != nil {
		return err
	}
	sort.Strings(ef)
	lf.DefStringList("roleEdgeFields", ef)

	ser, err := hx.ParseSrc(a.Repo, "sql/mysql_db/mysql_db_serialize.go")
	if err != nil {
		return err
	}
	fd, err := ser.Func("", "serializeUser")
	if err != nil {
		return err
	}
	lf.DefStringList("serializeUserReads", selectorsOn(fd, "user"))
	fd, err = ser.Func("", "serializeRoleEdge")
	if err != nil {
		return err
	}
	lf.DefStringList("serializeRoleEdgeReads", selectorsOn(fd, "roleEdge"))
	fd, err = ser.Func("", "serializePrivilegeSet")
	if err != nil {
		return err
	}
	var calls []string
	ast.Inspect(fd.Body, func(n ast.Node) bool {
		if ce, ok := n.(*ast.CallExpr); ok {
			if se, ok := ce.Fun.(*ast.SelectorExpr); ok {
				if id, ok := se.X.(*ast.Ident); ok && id.Name == "ps" {
					calls = append(calls, se.Sel.Name)
				}
			}
			for _, arg := range ce.Args {
				if se, ok := arg.(*ast.SelectorExpr); ok {
					if id, ok := se.X.(*ast.Ident); ok && id.Name == "ps" {
						calls = append(calls, se.Sel.Name)
					}
				}
			}
		}
		return true
	})
	sort.Strings(calls)
	lf.DefStringList("serializePrivilegeSetReads", calls)

	ld, err := hx.ParseSrc(a.Repo, "sql/mysql_db/mysql_db_load.go")
	if err != nil {
		return err
	}
	fd, err = ld.Func("", "LoadUser")
	if err != nil {
		return err
	}
	lf.DefStringList("loadUserSets", compositeKeys(fd, "User"))
	fd, err = ld.Func("", "LoadRoleEdge")
	if err != nil {
		return err
	}
	lf.DefStringList("loadRoleEdgeSets", compositeKeys(fd, "RoleEdge"))
	fd, err = ld.Func("", "loadPrivilegeSet")
	if err != nil {
		return err
	}
	lf.DefStringList("loadPrivilegeSetSets", compositeKeys(fd, "PrivilegeSet"))
	fd, err = ld.Func("", "loadDatabase")
	if err != nil {
		return err
	}
	lf.DefStringList("loadDatabaseSets", compositeKeys(fd, "PrivilegeSetDatabase"))
	// how the loader keys the reloaded maps: the index expressions of its map assignments
	var keys []string
	for _, fn := range []string{"loadPrivilegeSet", "loadDatabase"} {
		fd, err := ld.Func("", fn)
		if err != nil {
			return err
		}
		ast.Inspect(fd.Body, func(n ast.Node) bool {
			if as, ok := n.(*ast.AssignStmt); ok && len(as.Lhs) == 1 {
				if ix, ok := as.Lhs[0].(*ast.IndexExpr); ok {
					keys = append(keys, ld.Text(ix.X)+"["+strings.Join(strings.Fields(ld.Text(ix.Index)), " ")+"]")
				}
			}
			return true
		})
		// key := routineKey{...} assignments
		ast.Inspect(fd.Body, func(n ast.Node) bool {
			if as, ok := n.(*ast.AssignStmt); ok && len(as.Lhs) == 1 && len(as.Rhs) == 1 {
				if id, ok := as.Lhs[0].(*ast.Ident); ok && id.Name == "key" {
					keys = append(keys, "key="+strings.Join(strings.Fields(ld.Text(as.Rhs[0])), " "))
				}
			}
			return true
		})
	}
	lf.DefStringList("loaderMapKeys", keys)
	return lf.Write(a.Out)
}
