package main

import (
	"bytes"
	"fmt"
	"sort"
	"strconv"
	"strings"

	"github.com/dolthub/go-mysql-server/sql"
	"github.com/dolthub/go-mysql-server/sql/expression"
	"github.com/dolthub/go-mysql-server/sql/expression/function/spatial"
	"github.com/dolthub/go-mysql-server/sql/types"
	"github.com/dolthub/go-mysql-server/verifharness/hx"
	"github.com/dolthub/go-mysql-server/verifharness/hx/eng"
)

// ---------------------------------------------------------------------------------------------
// WKT round trip (model-free): ST_GeomFromText(ST_AsText(g), srid) = g

func realAsWKT(g types.GeometryValue) (string, string) {
	var v interface{}
	var err error
	p := hx.Safe(func() { v, err = spatial.NewAsWKT(ctx, expression.NewLiteral(g, types.GeometryType{})).Eval(ctx, nil) })
	if p != "" {
		return "", "crash"
	}
	if err != nil {
		return "", "err"
	}
	s, ok := v.(string)
	if !ok {
		return "", fmt.Sprintf("notstring:%T", v)
	}
	return s, "ok"
}

func realFromWKT(t string, srid uint32) (types.GeometryValue, string) {
	var v interface{}
	var err error
	p := hx.Safe(func() {
		var e sql.Expression
		e, err = spatial.NewGeomFromText(ctx, expression.NewLiteral(t, types.LongText), expression.NewLiteral(int64(srid), types.Int64))
		if err == nil {
			v, err = e.Eval(ctx, nil)
		}
	})
	if p != "" {
		return nil, "crash"
	}
	if err != nil {
		return nil, "err:" + strings.SplitN(err.Error(), "\n", 2)[0]
	}
	g, ok := v.(types.GeometryValue)
	if !ok {
		return nil, fmt.Sprintf("notgeom:%T", v)
	}
	return g, "ok"
}

// emptyCollNotLast: some collection has an empty collection as a member that is not its last member.
// ST_AsText prints such a member as `GEOMETRYCOLLECTION EMPTY,`; ParseWKTHeader only recognises the EMPTY
// form when the remaining text *ends* with " empty".
func emptyCollNotLast(g types.GeometryValue) bool {
	c, ok := g.(types.GeomColl)
	if !ok {
		return false
	}
	for i, m := range c.Geoms {
		if mc, ok := m.(types.GeomColl); ok {
			if len(mc.Geoms) == 0 && i+1 < len(c.Geoms) {
				return true
			}
			if emptyCollNotLast(mc) {
				return true
			}
		}
	}
	return false
}

func wktOracle(out *hx.Out, r *hx.Rand, n int) {
	g := &gen{r: r}
	for i := 0; i < n; i++ {
		srid := hx.Pick(r, sridPool)
		v := g.geom(srid, 0)
		id := out.Case(hx.List("oracle", "wkt", strconv.Itoa(i)), "done", typeOf(v) != 1)
		out.Stat("wkt")
		t, st := realAsWKT(v)
		if st != "ok" {
			out.OracleFail(id, "-", "ST_AsText failed: "+st+" on "+gsexp(v, nil))
			continue
		}
		back, st := realFromWKT(t, srid)
		region := "-"
		if emptyCollNotLast(v) {
			region = "wkt_empty_collection_member_not_last"
			out.Stat("wkt:empty-coll-not-last")
		}
		if st != "ok" {
			out.OracleFail(id, region, "ST_GeomFromText(ST_AsText(g)) failed: "+st+" text="+t)
			continue
		}
		bb, _ := realSerialize(back)
		vb, _ := realSerialize(v)
		if bb == nil || vb == nil {
			out.OracleFail(id, "-", "Serialize panics on "+gsexp(v, nil))
		} else if !bytes.Equal(bb, vb) {
			out.OracleFail(id, region, "ST_GeomFromText(ST_AsText(g)) != g: text="+t+" back="+gsexp(back, nil))
		}
	}
}

// ---------------------------------------------------------------------------------------------
// Engine oracles

func hexUpper(b []byte) string { return strings.ToUpper(strings.TrimPrefix(hx.Hex(b), "x")) }

func wktOf(g types.GeometryValue) string {
	t, _ := realAsWKT(g)
	return t
}

// smallGeom: small integer coordinates so that predicates are often true.
func smallGeom(g *gen) types.GeometryValue {
	switch g.r.Intn(5) {
	case 0, 1:
		return g.pt(0)
	case 2:
		return g.line(0)
	case 3:
		// axis-parallel rectangle
		x, y := float64(g.r.Range(-4, 4)), float64(g.r.Range(-4, 4))
		w, h := float64(g.r.Range(1, 5)), float64(g.r.Range(1, 5))
		q := func(a, b float64) types.Point { return types.Point{X: a, Y: b} }
		return types.Polygon{Lines: []types.LineString{{Points: []types.Point{q(x, y), q(x+w, y), q(x+w, y+h), q(x, y+h), q(x, y)}}}}
	}
	return types.MultiPoint{Points: g.pts(0, g.r.Range(1, 3))}
}

func idsOf(r *eng.Res) string {
	if c := r.Class(); c != "ok" {
		return c
	}
	var ids []string
	for _, row := range r.Rows {
		ids = append(ids, row[0])
	}
	sort.Strings(ids)
	return strings.Join(ids, ",")
}

func engineOracles(out *hx.Out, r *hx.Rand, thorough bool) {
	nSQL, nTables, nRows, nQueries := 40, 2, 25, 30
	if thorough {
		nSQL, nTables, nRows, nQueries = 1500, 25, 40, 120
	}
	e := eng.New("d")
	c := e.Ctx()

	// (1) SQL round trips through the engine: functions, literals, table storage
	e.MustExec(c, "CREATE TABLE gt (id INT PRIMARY KEY, g GEOMETRY)")
	g := &gen{r: r}
	for i := 0; i < nSQL; i++ {
		srid := hx.Pick(r, sridPool)
		v := g.geom(srid, 0)
		w, ws := realAsWKB(v)
		id := out.Case(hx.List("oracle", "sql", strconv.Itoa(i)), "done", typeOf(v) != 1)
		out.Stat("sql")
		if w == nil {
			out.OracleFail(id, "-", "ST_AsWKB failed: "+ws)
			continue
		}
		lit := "x'" + hexUpper(w) + "'"
		from := "ST_GeomFromWKB(" + lit + ", " + strconv.Itoa(int(srid)) + ")"
		q := "SELECT HEX(ST_AsWKB(" + from + ")), ST_SRID(" + from + ")"
		res := e.Query(c, q)
		if res.Class() != "ok" || len(res.Rows) != 1 || res.Rows[0][0] != hexUpper(w) || res.Rows[0][1] != strconv.Itoa(int(srid)) {
			out.OracleFail(id, "-", fmt.Sprintf("engine: %s → %s %v, expected %s %d", q, res.Class(), res.Rows, hexUpper(w), srid))
			continue
		}
		ins := e.Query(c, "INSERT INTO gt VALUES ("+strconv.Itoa(i)+", "+from+")")
		sel := e.Query(c, "SELECT HEX(ST_AsWKB(g)), ST_SRID(g) FROM gt WHERE id = "+strconv.Itoa(i))
		if ins.Class() != "ok" || sel.Class() != "ok" || len(sel.Rows) != 1 || sel.Rows[0][0] != hexUpper(w) || sel.Rows[0][1] != strconv.Itoa(int(srid)) {
			out.OracleFail(id, "-", fmt.Sprintf("table round trip: insert %s, select %s %v, expected %s %d", ins.Class(), sel.Class(), sel.Rows, hexUpper(w), srid))
		}
	}

	// (2) spatial index lookup = scan
	// ST_Equals is not registered as an SQL function in this tree (the planner knows *spatial.STEquals, the registry does not)
	preds := []string{"ST_Intersects(g, %s)", "ST_Intersects(%s, g)", "ST_Within(g, %s)", "ST_Within(%s, g)"}
	sg := &gen{r: r, small: true}
	for t := 0; t < nTables; t++ {
		si, sn := fmt.Sprintf("si%d", t), fmt.Sprintf("sn%d", t)
		e.MustExec(c, "CREATE TABLE "+si+" (id INT PRIMARY KEY, g GEOMETRY NOT NULL SRID 0, SPATIAL KEY (g))")
		e.MustExec(c, "CREATE TABLE "+sn+" (id INT PRIMARY KEY, g GEOMETRY NOT NULL SRID 0)")
		var rows []types.GeometryValue
		for i := 0; i < nRows; i++ {
			v := smallGeom(sg)
			if r.Chance(1, 12) {
				v = types.GeomColl{Geoms: []types.GeometryValue{}}
			}
			rows = append(rows, v)
			val := "(" + strconv.Itoa(i) + ", ST_GeomFromText('" + wktOf(v) + "'))"
			e.MustExec(c, "INSERT INTO "+si+" VALUES "+val, "INSERT INTO "+sn+" VALUES "+val)
		}
		for k := 0; k < nQueries; k++ {
			var qg types.GeometryValue
			if r.Chance(1, 3) {
				qg = rows[r.Intn(len(rows))]
			} else {
				qg = smallGeom(sg)
			}
			pred := fmt.Sprintf(hx.Pick(r, preds), "ST_GeomFromText('"+wktOf(qg)+"')")
			id := out.Case(hx.List("oracle", "idx", strconv.Itoa(t), strconv.Itoa(k)), "done", true)
			out.Stat("idx")
			withIdx := e.Query(c, "SELECT id FROM "+si+" WHERE "+pred)
			scan := e.Query(c, "SELECT id FROM "+sn+" WHERE "+pred)
			a, b := idsOf(withIdx), idsOf(scan)
			if scan.Class() != "ok" {
				// the predicate is not implemented for some row's type combination (error 1105 "unsupported"): the scan
				// fails on the first such row while the index lookup may never evaluate it; outside the property
				out.Stat("idx:scan-" + scan.Class())
				continue
			}
			if b != "" {
				out.Stat("idx:nonempty")
			}
			if a != b {
				region := "-"
				if gc, ok := qg.(types.GeomColl); ok && len(gc.Geoms) == 0 {
					region = "index_lookup_with_empty_collection"
				}
				out.OracleFail(id, region, fmt.Sprintf("spatial index lookup differs from scan: %s → index {%s} scan {%s}", pred, a, b))
			}
		}
		if t == 0 {
			ex := e.Query(c, "EXPLAIN FORMAT=TREE SELECT id FROM "+si+" WHERE ST_Intersects(g, ST_GeomFromText('POINT(1 1)'))")
			plan := fmt.Sprint(ex.Rows)
			if strings.Contains(plan, "IndexedTableAccess") {
				out.Stat("idx:plan-uses-index")
			} else {
				out.Stat("idx:plan-no-index")
			}
		}
	}
}
