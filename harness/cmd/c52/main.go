// C52 — Geometry values round-trip through WKT/WKB and predicates agree.
//
// extract: sizes and type ids of sql/types/geometry.go (run-time values of the freshly compiled constants),
// the length guard of every Deserialize* function (go/ast, constant expressions evaluated), the type → decoder
// switch of DeserializeGeomColl / GeometryType.Convert / EvalGeomFromWKB, the byte-order flag and SRID handling
// of the writers, the SRID test of AsWKB / EvalGeomFromWKB, the bounding-box test of the memory spatial index,
// the SRIDs known to the build.
// run:  (rt)      X.Serialize() and GeometryType.Convert on generated values vs the Lean codec model
//       (conv)    GeometryType.Convert on structurally malformed / big-endian / mixed-endian / truncated buffers
//       (sqlrt)   ST_AsWKB / ST_GeomFromWKB expression evaluation vs model (axis swap for SRID 4326)
//       (fromwkb) ST_GeomFromWKB on malformed WKB
//       (typed)   ST_PointFromWKB … ST_GeomCollFromWKB on ST_AsWKB of generated values
//       oracles (model-free): ST_GeomFromText(ST_AsText(g)) = g, engine SQL round trips, spatial index vs scan.
package main

import (
	"encoding/binary"
	"fmt"
	"go/ast"
	"go/constant"
	"go/token"
	"math"
	"sort"
	"strconv"
	"strings"

	"github.com/dolthub/go-mysql-server/sql"
	"github.com/dolthub/go-mysql-server/sql/expression"
	"github.com/dolthub/go-mysql-server/sql/expression/function/spatial"
	"github.com/dolthub/go-mysql-server/sql/types"
	"github.com/dolthub/go-mysql-server/verifharness/hx"
)

func main() { hx.Main(extract, run) }

// ---------------------------------------------------------------------------------------------
// Facts

var constNames = map[string]int64{
	"SRIDSize": types.SRIDSize, "EndianSize": types.EndianSize, "TypeSize": types.TypeSize,
	"EWKBHeaderSize": types.EWKBHeaderSize, "WKBHeaderSize": types.WKBHeaderSize,
	"PointSize": types.PointSize, "CountSize": types.CountSize,
}

// evalConst evaluates an integer constant expression over the size constants of geometry.go.
func evalConst(src *hx.Src, e ast.Expr) (int64, error) {
	switch x := e.(type) {
	case *ast.ParenExpr:
		return evalConst(src, x.X)
	case *ast.BasicLit:
		if x.Kind == token.INT {
			v, ok := constant.Int64Val(constant.MakeFromLiteral(x.Value, token.INT, 0))
			if ok {
				return v, nil
			}
		}
	case *ast.Ident:
		if v, ok := constNames[x.Name]; ok {
			return v, nil
		}
	case *ast.BinaryExpr:
		a, err := evalConst(src, x.X)
		if err != nil {
			return 0, err
		}
		b, err := evalConst(src, x.Y)
		if err != nil {
			return 0, err
		}
		switch x.Op {
		case token.ADD:
			return a + b, nil
		case token.MUL:
			return a * b, nil
		case token.SUB:
			return a - b, nil
		}
	}
	return 0, fmt.Errorf("not a constant size expression: %s", src.Text(e))
}

// firstLenGuard finds the first `if len(buf) <op> <const expr>` of a function.
func firstLenGuard(src *hx.Src, fd *ast.FuncDecl) (op string, val int64, err error) {
	found := false
	ast.Inspect(fd.Body, func(n ast.Node) bool {
		if found {
			return false
		}
		is, ok := n.(*ast.IfStmt)
		if !ok {
			return true
		}
		be, ok := is.Cond.(*ast.BinaryExpr)
		if !ok || src.Text(be.X) != "len(buf)" {
			return true
		}
		v, e := evalConst(src, be.Y)
		if e != nil {
			err = e
		}
		op, val, found = be.Op.String(), v, true
		return false
	})
	if !found && err == nil {
		err = fmt.Errorf("%s: no `len(buf)` guard found", fd.Name.Name)
	}
	return
}

// typeSwitch lists `case <id>: … = <callee>(` pairs of the first `switch <tag>` of a function.
func typeSwitch(src *hx.Src, fd *ast.FuncDecl, tag string) ([]string, error) {
	var res []string
	found := false
	ast.Inspect(fd.Body, func(n ast.Node) bool {
		sw, ok := n.(*ast.SwitchStmt)
		if !ok || found || sw.Tag == nil || src.Text(sw.Tag) != tag {
			return true
		}
		found = true
		for _, st := range sw.Body.List {
			cc := st.(*ast.CaseClause)
			callee := "-"
			for _, s := range cc.Body {
				ast.Inspect(s, func(m ast.Node) bool {
					if ce, ok := m.(*ast.CallExpr); ok && callee == "-" {
						callee = strings.TrimPrefix(src.Text(ce.Fun), "types.")
						if len(ce.Args) > 0 {
							callee += "(" + src.Text(ce.Args[0]) + ")"
						}
					}
					return true
				})
			}
			label := "default"
			if len(cc.List) > 0 {
				label = strings.TrimPrefix(src.Text(cc.List[0]), "types.")
			}
			res = append(res, label+"→"+callee)
		}
		return false
	})
	if !found {
		return nil, fmt.Errorf("%s: no `switch %s`", fd.Name.Name, tag)
	}
	return res, nil
}

func extract(a hx.ExtractArgs) error {
	geo, err := hx.ParseSrc(a.Repo, "sql/types/geometry.go")
	if err != nil {
		return err
	}
	wkb, err := hx.ParseSrc(a.Repo, "sql/expression/function/spatial/wkb.go")
	if err != nil {
		return err
	}
	mem, err := hx.ParseSrc(a.Repo, "memory/table.go")
	if err != nil {
		return err
	}
	lf := hx.NewLeanFile("Gms.Generated.C52", geo.Path, wkb.Path, mem.Path)

	// run-time values of the compiled constants
	lf.DefNatList("sizes", []uint64{types.SRIDSize, types.EndianSize, types.TypeSize, types.EWKBHeaderSize, types.WKBHeaderSize, types.PointSize, types.CountSize})
	lf.DefNatList("typeIds", []uint64{types.WKBUnknown, types.WKBPointID, types.WKBLineID, types.WKBPolyID, types.WKBMultiPointID, types.WKBMultiLineID, types.WKBMultiPolyID, types.WKBGeomCollID})
	lf.DefNat("geoSpatialSRID", uint64(types.GeoSpatialSRID))
	lf.DefNat("cartesianSRID", uint64(types.CartesianSRID))
	var srids []uint64
	for k := range types.SupportedSRIDs {
		srids = append(srids, uint64(k))
	}
	sort.Slice(srids, func(i, j int) bool { return srids[i] < srids[j] })
	lf.DefNatList("supportedSRIDs", srids)

	// length guards
	var guards []string
	for _, fn := range []string{"DeserializeEWKBHeader", "DeserializeWKBHeader", "DeserializePoint", "DeserializeLine", "DeserializePoly",
		"DeserializeMPoint", "DeserializeMLine", "DeserializeMPoly", "DeserializeGeomColl"} {
		fd, err := geo.Func("", fn)
		if err != nil {
			return err
		}
		op, v, err := firstLenGuard(geo, fd)
		if err != nil {
			return err
		}
		guards = append(guards, fmt.Sprintf("%s %s %d", fn, op, v))
	}
	lf.DefStringList("lenGuards", guards)

	// type switches
	for _, it := range []struct {
		src        *hx.Src
		recv, name string
		tag, def   string
	}{
		{geo, "", "DeserializeGeomColl", "typ", "collSwitch"},
		{geo, "GeometryType", "Convert", "geomType", "convertSwitch"},
		{wkb, "", "EvalGeomFromWKB", "geomType", "fromWkbSwitch"},
	} {
		fd, err := it.src.Func(it.recv, it.name)
		if err != nil {
			return err
		}
		sw, err := typeSwitch(it.src, fd, it.tag)
		if err != nil {
			return err
		}
		lf.DefStringList(it.def, sw)
	}

	// writers: statements of WriteEWKBHeader / WriteWKBHeader / WriteCount, AllocateGeoTypeBuffer
	for _, fn := range []string{"WriteEWKBHeader", "WriteWKBHeader", "WriteCount", "AllocateGeoTypeBuffer", "readCount"} {
		fd, err := geo.Func("", fn)
		if err != nil {
			return err
		}
		var stmts []string
		for _, s := range fd.Body.List {
			stmts = append(stmts, strings.Join(strings.Fields(geo.Text(s)), " "))
		}
		for i, s := range stmts { // drop trailing comments captured by Text (none: Text prints the node only)
			stmts[i] = s
		}
		lf.DefStringList("body_"+fn, stmts)
	}

	// header readers: which byte selects big-endian
	for _, fn := range []string{"DeserializeEWKBHeader", "DeserializeWKBHeader"} {
		fd, _ := geo.Func("", fn)
		var asg []string
		ast.Inspect(fd.Body, func(n ast.Node) bool {
			if as, ok := n.(*ast.AssignStmt); ok && len(as.Lhs) == 1 {
				l := geo.Text(as.Lhs[0])
				if l == "bigEndian" || l == "srid" {
					asg = append(asg, l+" = "+geo.Text(as.Rhs[0]))
				}
			}
			return true
		})
		lf.DefStringList("hdr_"+fn, asg)
	}

	// AsWKB.Eval: swap condition and the slice returned; EvalGeomFromWKB: order
	fd, err := wkb.Func("AsWKB", "Eval")
	if err != nil {
		return err
	}
	var asw []string
	ast.Inspect(fd.Body, func(n ast.Node) bool {
		switch x := n.(type) {
		case *ast.IfStmt:
			if strings.Contains(wkb.Text(x.Cond), "GetSRID") {
				asw = append(asw, "if "+wkb.Text(x.Cond)+" "+strings.Join(strings.Fields(wkb.Text(x.Body)), " "))
			}
		case *ast.ReturnStmt:
			if len(x.Results) == 2 && strings.Contains(wkb.Text(x.Results[0]), "Serialize") {
				asw = append(asw, "return "+wkb.Text(x.Results[0]))
			}
		}
		return true
	})
	lf.DefStringList("asWkbEval", asw)
	fd, err = wkb.Func("", "EvalGeomFromWKB")
	if err != nil {
		return err
	}
	var fw []string
	ast.Inspect(fd.Body, func(n ast.Node) bool {
		switch x := n.(type) {
		case *ast.AssignStmt:
			if len(x.Lhs) == 1 && wkb.Text(x.Lhs[0]) == "order" {
				fw = append(fw, "order "+x.Tok.String()+" "+wkb.Text(x.Rhs[0]))
			}
		case *ast.IfStmt:
			if wkb.Text(x.Cond) == "order" {
				fw = append(fw, "if order "+strings.Join(strings.Fields(wkb.Text(x.Body)), " "))
			}
		}
		return true
	})
	lf.DefStringList("fromWkbOrder", fw)

	// typed constructors: the expectedGeomType each Eval passes, and the struct each New… builds
	var typedEval, typedCtor []string
	for _, d := range wkb.File.Decls {
		fn, ok := d.(*ast.FuncDecl)
		if !ok || fn.Body == nil {
			continue
		}
		if fn.Recv != nil && fn.Name.Name == "Eval" && strings.HasSuffix(hx.RecvName(fn.Recv.List[0].Type), "FromWKB") {
			ast.Inspect(fn.Body, func(n ast.Node) bool {
				if ce, ok := n.(*ast.CallExpr); ok && wkb.Text(ce.Fun) == "EvalGeomFromWKB" && len(ce.Args) == 4 {
					typedEval = append(typedEval, hx.RecvName(fn.Recv.List[0].Type)+"→"+strings.TrimPrefix(wkb.Text(ce.Args[3]), "types."))
				}
				return true
			})
		}
		if fn.Recv == nil && strings.HasPrefix(fn.Name.Name, "New") && strings.HasSuffix(fn.Name.Name, "FromWKB") {
			ast.Inspect(fn.Body, func(n ast.Node) bool {
				if ue, ok := n.(*ast.UnaryExpr); ok && ue.Op == token.AND {
					if cl, ok := ue.X.(*ast.CompositeLit); ok {
						typedCtor = append(typedCtor, fn.Name.Name+"→"+wkb.Text(cl.Type))
					}
				}
				return true
			})
		}
	}
	if len(typedEval) == 0 || len(typedCtor) == 0 {
		return fmt.Errorf("typed FromWKB constructors not found")
	}
	lf.DefStringList("typedEval", typedEval)
	lf.DefStringList("typedCtor", typedCtor)

	// bounding-box test of the memory spatial index
	fd, err = mem.Func("spatialTableIter", "Next")
	if err != nil {
		return err
	}
	var bb []string
	ast.Inspect(fd.Body, func(n ast.Node) bool {
		if as, ok := n.(*ast.AssignStmt); ok && len(as.Lhs) == 1 {
			l := mem.Text(as.Lhs[0])
			if l == "xInt" || l == "yInt" {
				bb = append(bb, l+" := "+strings.Join(strings.Fields(mem.Text(as.Rhs[0])), " "))
			}
		}
		if is, ok := n.(*ast.IfStmt); ok && strings.Contains(mem.Text(is.Cond), "xInt") {
			bb = append(bb, "if "+mem.Text(is.Cond))
		}
		return true
	})
	if len(bb) != 3 {
		return fmt.Errorf("spatialTableIter.Next: bounding-box test not found (%d parts)", len(bb))
	}
	lf.DefStringList("bboxTest", bb)
	return lf.Write(a.Out)
}

// ---------------------------------------------------------------------------------------------
// Rendering

func f8(x float64) []byte {
	var b [8]byte
	binary.LittleEndian.PutUint64(b[:], math.Float64bits(x))
	return b[:]
}

func ptsHex(ps []types.Point) string {
	var b []byte
	for _, p := range ps {
		b = append(b, f8(p.X)...)
		b = append(b, f8(p.Y)...)
	}
	return hx.Hex(b)
}

func linesSexp(head string, ls []types.LineString) string {
	parts := []string{head}
	for _, l := range ls {
		parts = append(parts, ptsHex(l.Points))
	}
	return hx.List(parts...)
}

// gsexp renders a geometry value; srids collects every SRID field met.
func gsexp(g types.GeometryValue, srids map[uint32]bool) string {
	note := func(s uint32) {
		if srids != nil {
			srids[s] = true
		}
	}
	notePts := func(ps []types.Point) {
		for _, p := range ps {
			note(p.SRID)
		}
	}
	noteLines := func(ls []types.LineString) {
		for _, l := range ls {
			note(l.SRID)
			notePts(l.Points)
		}
	}
	switch v := g.(type) {
	case types.Point:
		note(v.SRID)
		return hx.List("pt", ptsHex([]types.Point{v}))
	case types.LineString:
		note(v.SRID)
		notePts(v.Points)
		return hx.List("line", ptsHex(v.Points))
	case types.Polygon:
		note(v.SRID)
		noteLines(v.Lines)
		return linesSexp("poly", v.Lines)
	case types.MultiPoint:
		note(v.SRID)
		notePts(v.Points)
		return hx.List("mpoint", ptsHex(v.Points))
	case types.MultiLineString:
		note(v.SRID)
		noteLines(v.Lines)
		return linesSexp("mline", v.Lines)
	case types.MultiPolygon:
		note(v.SRID)
		parts := []string{"mpoly"}
		for _, p := range v.Polygons {
			note(p.SRID)
			noteLines(p.Lines)
			parts = append(parts, linesSexp("p", p.Lines))
		}
		return hx.List(parts...)
	case types.GeomColl:
		note(v.SRID)
		parts := []string{"coll"}
		for _, m := range v.Geoms {
			parts = append(parts, gsexp(m, srids))
		}
		return hx.List(parts...)
	}
	return fmt.Sprintf("(unknown %T)", g)
}

// render canonicalises the result of a decoder / expression.
func render(v interface{}, err error, panicMsg string, uniform *bool) string {
	if panicMsg != "" {
		return "crash"
	}
	if err != nil {
		if sql.ErrInvalidGISData.Is(err) {
			return "err"
		}
		return "err:other:" + strings.SplitN(err.Error(), ":", 2)[0]
	}
	if v == nil {
		return "null"
	}
	g, ok := v.(types.GeometryValue)
	if !ok {
		return fmt.Sprintf("notgeom:%T", v)
	}
	srids := map[uint32]bool{}
	s := gsexp(g, srids)
	if uniform != nil {
		*uniform = len(srids) == 1
	}
	return "ok " + strconv.FormatUint(uint64(g.GetSRID()), 10) + " " + s
}

// ---------------------------------------------------------------------------------------------
// Real-code access

var ctx = sql.NewEmptyContext()

func exact(b []byte) []byte { // cap == len, like a value that arrives from SQL
	c := make([]byte, len(b))
	copy(c, b)
	return c
}

func realConvert(b []byte, uniform *bool) string {
	var v interface{}
	var err error
	p := hx.Safe(func() { v, _, err = types.GeometryType{}.Convert(ctx, exact(b)) })
	return render(v, err, p, uniform)
}

func realSerialize(g types.GeometryValue) ([]byte, string) {
	var b []byte
	p := hx.Safe(func() { b = g.Serialize() })
	if p != "" {
		return nil, "crash"
	}
	return b, hx.Hex(b)
}

func realAsWKB(g types.GeometryValue) ([]byte, string) {
	var v interface{}
	var err error
	p := hx.Safe(func() { v, err = spatial.NewAsWKB(ctx, expression.NewLiteral(g, types.GeometryType{})).Eval(ctx, nil) })
	if p != "" {
		return nil, "crash"
	}
	if err != nil {
		return nil, "err"
	}
	b, ok := v.([]byte)
	if !ok {
		return nil, fmt.Sprintf("notbytes:%T", v)
	}
	return b, hx.Hex(b)
}

func realFromWKB(b []byte, srid uint32, uniform *bool) (interface{}, string) {
	var v interface{}
	var err error
	p := hx.Safe(func() {
		var e sql.Expression
		e, err = spatial.NewGeomFromWKB(ctx, expression.NewLiteral(exact(b), types.LongBlob), expression.NewLiteral(int64(srid), types.Int64))
		if err == nil {
			v, err = e.Eval(ctx, nil)
		}
	})
	return v, render(v, err, p, uniform)
}

// ---------------------------------------------------------------------------------------------
// Safety filter: the largest element count the decoders would read from a buffer (a Go mirror of the
// decoders' control flow, used ONLY to keep buffers whose counts would make `make([]Point, n)` allocate
// gigabytes away from the real code; it is not an oracle).

type scanner struct{ max uint32 }

func (s *scanner) cnt(buf []byte, big bool) uint32 {
	var n uint32
	if big {
		n = binary.BigEndian.Uint32(buf)
	} else {
		n = binary.LittleEndian.Uint32(buf)
	}
	if n > s.max {
		s.max = n
	}
	return n
}

// each function returns the rest of the buffer and ok=false when decoding stops
func (s *scanner) line(buf []byte, big bool) ([]byte, bool) {
	if len(buf) < 36 {
		return nil, false
	}
	n := s.cnt(buf, big)
	buf = buf[4:]
	for i := uint32(0); i < n; i++ {
		if len(buf) < 16 {
			return nil, false
		}
		buf = buf[16:]
	}
	return buf, true
}

func (s *scanner) poly(buf []byte, big bool) ([]byte, bool) {
	if len(buf) < 72 {
		return nil, false
	}
	n := s.cnt(buf, big)
	buf = buf[4:]
	ok := true
	for i := uint32(0); i < n && ok; i++ {
		buf, ok = s.line(buf, big)
	}
	return buf, ok
}

func hdrOf(buf []byte) (bool, uint32, []byte, bool) {
	if len(buf) < 5 {
		return false, 0, nil, false
	}
	big := buf[0] == 0
	var t uint32
	if big {
		t = binary.BigEndian.Uint32(buf[1:])
	} else {
		t = binary.LittleEndian.Uint32(buf[1:])
	}
	return big, t, buf[5:], true
}

func (s *scanner) multi(buf []byte, big bool, min int, want uint32) ([]byte, bool) {
	if len(buf) < min {
		return nil, false
	}
	n := s.cnt(buf, big)
	buf = buf[4:]
	for i := uint32(0); i < n; i++ {
		ib, t, rest, ok := hdrOf(buf)
		if !ok || t != want {
			return nil, false
		}
		buf = rest
		switch want {
		case 1:
			if len(buf) < 16 {
				return nil, false
			}
			buf = buf[16:]
		case 2:
			buf, ok = s.line(buf, ib)
		case 3:
			buf, ok = s.poly(buf, ib)
		}
		if !ok {
			return nil, false
		}
	}
	return buf, true
}

func (s *scanner) data(typ uint32, buf []byte, big bool, depth int) ([]byte, bool) {
	switch typ {
	case 1:
		if len(buf) < 16 {
			return nil, false
		}
		return buf[16:], true
	case 2:
		return s.line(buf, big)
	case 3:
		return s.poly(buf, big)
	case 4:
		return s.multi(buf, big, 25, 1)
	case 5:
		return s.multi(buf, big, 45, 2)
	case 6:
		return s.multi(buf, big, 81, 3)
	case 7:
		if len(buf) < 4 || depth > 200 {
			return nil, false
		}
		n := s.cnt(buf, big)
		buf = buf[4:]
		for i := uint32(0); i < n; i++ {
			ib, t, rest, ok := hdrOf(buf)
			if !ok {
				return nil, false
			}
			buf, ok = s.data(t, rest, ib, depth+1)
			if !ok {
				return nil, false
			}
		}
		return buf, true
	}
	return nil, false
}

// maxCount of an EWKB (withSRID) or WKB buffer.
func maxCount(b []byte, withSRID bool) uint32 {
	if withSRID {
		if len(b) < 9 {
			return 0
		}
		b = b[4:]
	}
	big, t, rest, ok := hdrOf(b)
	if !ok {
		return 0
	}
	s := &scanner{}
	s.data(t, rest, big, 0)
	return s.max
}

const countLimit = 1 << 16

// ---------------------------------------------------------------------------------------------
// Generators

var floatPool = []float64{0, math.Copysign(0, -1), 1, -1, 2, 3, 4, 5, 10, -10, 0.5, -0.25, 1.5, 90, -90, 180, -180, 179.999999, 123.456, -77.0369, 38.9072,
	1e-7, 1e15, 1e21, 1e-320, math.SmallestNonzeroFloat64, math.MaxFloat64, -math.MaxFloat64, 4294967296, 0.1, 0.3, 1.0000000000000002}

var weirdFloats = []float64{math.NaN(), math.Inf(1), math.Inf(-1), math.Float64frombits(0x7ff8000000000001), math.Float64frombits(0xfff0000000000001), math.Float64frombits(0x0102030405060708)}

type gen struct {
	r     *hx.Rand
	weird bool // NaN / Inf / arbitrary bit patterns allowed (codec streams only)
	small bool // small integer coordinates (predicates)
}

func (g *gen) f() float64 {
	if g.small {
		return float64(g.r.Range(-4, 8))
	}
	if g.weird && g.r.Chance(1, 8) {
		if g.r.Chance(1, 2) {
			return hx.Pick(g.r, weirdFloats)
		}
		return math.Float64frombits(g.r.U64())
	}
	if g.r.Chance(1, 3) {
		return float64(g.r.Range(-20, 20))
	}
	return hx.Pick(g.r, floatPool)
}

func (g *gen) pt(srid uint32) types.Point { return types.Point{SRID: srid, X: g.f(), Y: g.f()} }

func (g *gen) pts(srid uint32, n int) []types.Point {
	ps := make([]types.Point, n)
	for i := range ps {
		ps[i] = g.pt(srid)
	}
	return ps
}

func (g *gen) line(srid uint32) types.LineString {
	return types.LineString{SRID: srid, Points: g.pts(srid, g.r.Range(2, 5))}
}

func (g *gen) ring(srid uint32) types.LineString {
	ps := g.pts(srid, g.r.Range(3, 5))
	ps = append(ps, ps[0])
	return types.LineString{SRID: srid, Points: ps}
}

func (g *gen) poly(srid uint32) types.Polygon {
	n := g.r.Range(1, 3)
	ls := make([]types.LineString, n)
	for i := range ls {
		ls[i] = g.ring(srid)
	}
	return types.Polygon{SRID: srid, Lines: ls}
}

// geom generates a well-formed value (what the engine's constructors and parsers can produce).
func (g *gen) geom(srid uint32, depth int) types.GeometryValue {
	k := g.r.Intn(7)
	if depth >= 3 && k == 6 {
		k = g.r.Intn(6)
	}
	switch k {
	case 0:
		return g.pt(srid)
	case 1:
		return g.line(srid)
	case 2:
		return g.poly(srid)
	case 3:
		return types.MultiPoint{SRID: srid, Points: g.pts(srid, g.r.Range(1, 4))}
	case 4:
		n := g.r.Range(1, 3)
		ls := make([]types.LineString, n)
		for i := range ls {
			ls[i] = g.line(srid)
		}
		return types.MultiLineString{SRID: srid, Lines: ls}
	case 5:
		n := g.r.Range(1, 3)
		ps := make([]types.Polygon, n)
		for i := range ps {
			ps[i] = g.poly(srid)
		}
		return types.MultiPolygon{SRID: srid, Polygons: ps}
	}
	n := g.r.Intn(4)
	ms := make([]types.GeometryValue, n)
	for i := range ms {
		ms[i] = g.geom(srid, depth+1)
	}
	return types.GeomColl{SRID: srid, Geoms: ms}
}

// degenerate generates values the Go structs allow but no constructor produces (empty / one-point lines,
// polygons without rings, rings of 0-3 points, empty multi values).
func (g *gen) degenerate(srid uint32, depth int) types.GeometryValue {
	shortLine := func() types.LineString { return types.LineString{SRID: srid, Points: g.pts(srid, g.r.Intn(4))} }
	switch g.r.Intn(7) {
	case 0:
		return shortLine()
	case 1:
		n := g.r.Intn(3)
		ls := make([]types.LineString, n)
		for i := range ls {
			if g.r.Chance(1, 2) {
				ls[i] = shortLine()
			} else {
				ls[i] = g.ring(srid)
			}
		}
		return types.Polygon{SRID: srid, Lines: ls}
	case 2:
		return types.MultiPoint{SRID: srid, Points: g.pts(srid, 0)}
	case 3:
		n := g.r.Intn(3)
		ls := make([]types.LineString, n)
		for i := range ls {
			ls[i] = shortLine()
		}
		return types.MultiLineString{SRID: srid, Lines: ls}
	case 4:
		n := g.r.Intn(3)
		ps := make([]types.Polygon, n)
		for i := range ps {
			if g.r.Chance(1, 2) {
				ps[i] = types.Polygon{SRID: srid}
			} else {
				ps[i] = g.poly(srid)
			}
		}
		return types.MultiPolygon{SRID: srid, Polygons: ps}
	default:
		n := g.r.Range(1, 3)
		ms := make([]types.GeometryValue, n)
		for i := range ms {
			if depth < 2 && g.r.Chance(1, 2) {
				ms[i] = g.degenerate(srid, depth+1)
			} else {
				ms[i] = g.geom(srid, depth+1)
			}
		}
		return types.GeomColl{SRID: srid, Geoms: ms}
	}
}

var sridPool = []uint32{0, 0, 4326, 3857}

// ---------------------------------------------------------------------------------------------
// Lenient encoder for malformed buffers: explicit byte order per node, count deltas, wrong types, flag bytes.

type lenient struct {
	r *hx.Rand
	// probability knobs (out of 100)
	pBig, pCount, pType, pFlag int
}

func (l *lenient) u32(b []byte, big bool, n uint32) []byte {
	var x [4]byte
	if big {
		binary.BigEndian.PutUint32(x[:], n)
	} else {
		binary.LittleEndian.PutUint32(x[:], n)
	}
	return append(b, x[:]...)
}

func (l *lenient) count(b []byte, big bool, n int) []byte {
	if l.r.Chance(l.pCount, 100) {
		switch l.r.Intn(4) {
		case 0:
			n++
		case 1:
			if n > 0 {
				n--
			}
		case 2:
			n += l.r.Range(2, 40)
		default:
			n = 0
		}
	}
	return l.u32(b, big, uint32(n))
}

func (l *lenient) f64(b []byte, big bool, x float64) []byte {
	var y [8]byte
	if big {
		binary.BigEndian.PutUint64(y[:], math.Float64bits(x))
	} else {
		binary.LittleEndian.PutUint64(y[:], math.Float64bits(x))
	}
	return append(b, y[:]...)
}

func (l *lenient) hdr(b []byte, big bool, typ uint32) []byte {
	flag := byte(1)
	if big {
		flag = 0
	}
	if !big && l.r.Chance(l.pFlag, 100) {
		flag = hx.Pick(l.r, []byte{2, 255, 1, 17}) // anything but 0 is little-endian
	}
	if l.r.Chance(l.pType, 100) {
		typ = hx.Pick(l.r, []uint32{0, 1, 2, 3, 4, 5, 6, 7, 8, 9, 255, 256, 1 << 24, 0xffffffff})
	}
	return l.u32(append(b, flag), big, typ)
}

func (l *lenient) pts(b []byte, big bool, ps []types.Point) []byte {
	for _, p := range ps {
		b = l.f64(l.f64(b, big, p.X), big, p.Y)
	}
	return b
}

func (l *lenient) line(b []byte, big bool, ln types.LineString) []byte {
	return l.pts(l.count(b, big, len(ln.Points)), big, ln.Points)
}

func (l *lenient) poly(b []byte, big bool, p types.Polygon) []byte {
	b = l.count(b, big, len(p.Lines))
	for _, ln := range p.Lines {
		b = l.line(b, big, ln)
	}
	return b
}

func typeOf(g types.GeometryValue) uint32 {
	switch g.(type) {
	case types.Point:
		return 1
	case types.LineString:
		return 2
	case types.Polygon:
		return 3
	case types.MultiPoint:
		return 4
	case types.MultiLineString:
		return 5
	case types.MultiPolygon:
		return 6
	}
	return 7
}

func (l *lenient) sub(big bool) bool { // byte order of a nested item
	if l.r.Chance(l.pBig, 100) {
		return !big
	}
	return big
}

func (l *lenient) data(b []byte, big bool, g types.GeometryValue) []byte {
	switch v := g.(type) {
	case types.Point:
		return l.pts(b, big, []types.Point{v})
	case types.LineString:
		return l.line(b, big, v)
	case types.Polygon:
		return l.poly(b, big, v)
	case types.MultiPoint:
		b = l.count(b, big, len(v.Points))
		for _, p := range v.Points {
			ib := l.sub(big)
			b = l.pts(l.hdr(b, ib, 1), ib, []types.Point{p})
		}
	case types.MultiLineString:
		b = l.count(b, big, len(v.Lines))
		for _, ln := range v.Lines {
			ib := l.sub(big)
			b = l.line(l.hdr(b, ib, 2), ib, ln)
		}
	case types.MultiPolygon:
		b = l.count(b, big, len(v.Polygons))
		for _, p := range v.Polygons {
			ib := l.sub(big)
			b = l.poly(l.hdr(b, ib, 3), ib, p)
		}
	case types.GeomColl:
		b = l.count(b, big, len(v.Geoms))
		for _, m := range v.Geoms {
			ib := l.sub(big)
			b = l.data(l.hdr(b, ib, typeOf(m)), ib, m)
		}
	}
	return b
}

// wkb encodes header + data; the result may be truncated or extended by the caller.
func (l *lenient) wkb(g types.GeometryValue) []byte {
	big := l.r.Chance(l.pBig, 100)
	return l.data(l.hdr(nil, big, typeOf(g)), big, g)
}

func (l *lenient) finish(b []byte) []byte {
	switch {
	case l.r.Chance(1, 4) && len(b) > 0:
		b = b[:l.r.Intn(len(b))]
	case l.r.Chance(1, 8):
		for i, n := 0, l.r.Range(1, 20); i < n; i++ {
			b = append(b, byte(l.r.Intn(256)))
		}
	}
	return b
}

// ---------------------------------------------------------------------------------------------
// Cases

func sridBytes(s uint32) []byte {
	var x [4]byte
	binary.LittleEndian.PutUint32(x[:], s)
	return x[:]
}

func rtCase(out *hx.Out, g types.GeometryValue, wellFormed bool) {
	b, bs := realSerialize(g)
	obs := "b=" + bs
	uniform := true
	if b != nil {
		obs += " v=" + realConvert(b, &uniform)
	}
	id := out.Case(hx.List("rt", strconv.FormatUint(uint64(g.GetSRID()), 10), gsexp(g, nil)), obs, wellFormed && typeOf(g) != 1)
	out.Stat("rt")
	out.Stat(fmt.Sprintf("rt:type%d", typeOf(g)))
	if !wellFormed {
		out.Stat("rt:degenerate")
		return
	}
	// model-free: decode(encode(g)) renders as g (coordinates compared as bit patterns), same SRID on every nested value
	if b != nil {
		var v interface{}
		var err error
		p := hx.Safe(func() { v, _, err = types.GeometryType{}.Convert(ctx, exact(b)) })
		gv, isGeom := v.(types.GeometryValue)
		if p != "" || err != nil || !isGeom || gsexp(gv, nil) != gsexp(g, nil) || gv.GetSRID() != g.GetSRID() {
			out.OracleFail(id, "-", fmt.Sprintf("Convert(Serialize(g)) != g: panic=%q err=%v", p, err))
		} else if !uniform {
			out.OracleFail(id, "-", "decoded value carries different SRIDs on nested values")
		}
	}
}

func convCase(out *hx.Out, b []byte, kind string) {
	if maxCount(b, true) > countLimit {
		out.Stat("conv:skipped-huge-count")
		return
	}
	obs := realConvert(b, nil)
	out.Case(hx.List("conv", hx.Hex(b)), obs, strings.HasPrefix(obs, "ok") && len(b) > 25)
	out.Stat("conv")
	out.Stat("conv:" + kind)
	out.Stat("conv:res:" + strings.SplitN(obs, " ", 2)[0])
}

func sqlrtCase(out *hx.Out, g types.GeometryValue) {
	srid := g.GetSRID()
	w, ws := realAsWKB(g)
	obs := "w=" + ws
	if w != nil {
		_, vs := realFromWKB(w, srid, nil)
		obs += " v=" + vs
	}
	out.Case(hx.List("sqlrt", strconv.FormatUint(uint64(srid), 10), gsexp(g, nil)), obs, typeOf(g) != 1)
	out.Stat("sqlrt")
	out.Stat(fmt.Sprintf("sqlrt:srid%d", srid))
}

var typedCtors = map[uint32]func(*sql.Context, ...sql.Expression) (sql.Expression, error){
	1: spatial.NewPointFromWKB, 2: spatial.NewLineFromWKB, 3: spatial.NewPolyFromWKB, 4: spatial.NewMPointFromWKB,
	5: spatial.NewMLineFromWKB, 6: spatial.NewMPolyFromWKB, 7: spatial.NewGeomCollFromWKB,
}

// typedCase: ST_<T>FromWKB(ST_AsWKB(g), srid) for the SQL function of type t (mostly g's own type).
func typedCase(out *hx.Out, g types.GeometryValue, t uint32) {
	srid := g.GetSRID()
	w, ws := realAsWKB(g)
	obs := "w=" + ws
	if w != nil {
		var v interface{}
		var err error
		p := hx.Safe(func() {
			var e sql.Expression
			e, err = typedCtors[t](ctx, expression.NewLiteral(exact(w), types.LongBlob), expression.NewLiteral(int64(srid), types.Int64))
			if err == nil {
				v, err = e.Eval(ctx, nil)
			}
		})
		obs += " v=" + render(v, err, p, nil)
	}
	out.Case(hx.List("typed", strconv.FormatUint(uint64(t), 10), strconv.FormatUint(uint64(srid), 10), gsexp(g, nil)), obs, t == typeOf(g))
	out.Stat("typed")
	if t == typeOf(g) {
		out.Stat(fmt.Sprintf("typed:own-type%d", t))
	} else {
		out.Stat("typed:other-type")
	}
}

func fromwkbCase(out *hx.Out, b []byte, srid uint32) {
	if maxCount(b, false) > countLimit {
		out.Stat("fromwkb:skipped-huge-count")
		return
	}
	_, obs := realFromWKB(b, srid, nil)
	out.Case(hx.List("fromwkb", strconv.FormatUint(uint64(srid), 10), hx.Hex(b)), obs, strings.HasPrefix(obs, "ok") && len(b) > 21)
	out.Stat("fromwkb")
	out.Stat("fromwkb:res:" + strings.SplitN(obs, " ", 2)[0])
}

func run(a hx.RunArgs) error {
	out := hx.NewOut(a.OutDir)
	defer out.Close()
	out.Rule = "rt: generated geometry values (7 types, nesting ≤ 4, SRID 0/4326/3857, coordinates from an edge pool incl. ±0, subnormals, ±MaxFloat64, NaN/Inf and random bit patterns; " +
		"plus degenerate values no constructor produces) → Serialize, then GeometryType.Convert; non-trivial = well-formed and not a bare point. " +
		"conv / fromwkb: structurally generated buffers with per-item byte order, wrong counts (+1, -1, +k, 0), wrong type codes, odd byte-order flags, truncation, trailing bytes " +
		"(buffers whose counts exceed 65536 are not run: the decoder would allocate count*24 bytes); non-trivial = accepted and longer than one point. " +
		"sqlrt: ST_AsWKB then ST_GeomFromWKB(…, srid) as expressions; typed: ST_<T>FromWKB(ST_AsWKB(g), srid) with T = g's type (3/4) or a random type; oracle cases: WKT round trip, SQL round trips through the engine, spatial index vs scan"
	root := hx.NewRand(a.Seed).Fork()
	rRt, rConv, rSql, rWkt, rIdx, rTyped := root.Fork(), root.Fork(), root.Fork(), root.Fork(), root.Fork(), root.Fork()

	nRt, nConv, nSql, nWkt := 3000, 6000, 1500, 1500
	if a.Thorough {
		nRt, nConv, nSql, nWkt = 150000, 300000, 60000, 60000
	}

	// corpus first
	p := func(x, y float64) types.Point { return types.Point{X: x, Y: y} }
	sq := types.LineString{Points: []types.Point{p(0, 0), p(0, 4), p(4, 4), p(4, 0), p(0, 0)}}
	corpus := []types.GeometryValue{
		p(1, 2), types.Point{SRID: 4326, X: 1, Y: 2},
		types.LineString{Points: []types.Point{p(0, 0), p(1, 1)}},
		types.Polygon{Lines: []types.LineString{sq}},
		types.MultiPoint{Points: []types.Point{p(1, 2)}},
		types.MultiLineString{Lines: []types.LineString{{Points: []types.Point{p(0, 0), p(1, 1)}}}},
		types.MultiPolygon{Polygons: []types.Polygon{{Lines: []types.LineString{sq}}}},
		types.GeomColl{Geoms: []types.GeometryValue{}},
		types.GeomColl{Geoms: []types.GeometryValue{p(1, 2), types.GeomColl{Geoms: []types.GeometryValue{}}, types.LineString{Points: []types.Point{p(0, 0), p(1, 1)}}}},
		types.GeomColl{Geoms: []types.GeometryValue{types.GeomColl{Geoms: []types.GeometryValue{types.GeomColl{Geoms: []types.GeometryValue{p(7, 8)}}}}}},
	}
	for _, g := range corpus {
		rtCase(out, g, true)
		sqlrtCase(out, g)
	}
	// witnesses of the decoder panics: a LINESTRING that announces 3 points and carries 2; a truncated multipoint member
	lineShort := append([]byte{0, 0, 0, 0, 1, 2, 0, 0, 0, 3, 0, 0, 0}, make([]byte, 32)...)
	convCase(out, lineShort, "corpus")
	fromwkbCase(out, lineShort[4:], 0)
	mpShort := append([]byte{0, 0, 0, 0, 1, 4, 0, 0, 0, 2, 0, 0, 0, 1, 1, 0, 0, 0}, make([]byte, 16)...)
	mpShort = append(mpShort, 1, 1, 0, 0, 0, 9, 9)
	convCase(out, mpShort, "corpus")
	convCase(out, nil, "corpus")
	convCase(out, []byte{0, 0, 0, 0, 1, 1, 0, 0, 0}, "corpus")

	// rt
	g := &gen{r: rRt, weird: true}
	for i := 0; i < nRt; i++ {
		srid := hx.Pick(rRt, sridPool)
		if rRt.Chance(1, 5) {
			rtCase(out, g.degenerate(srid, 0), false)
		} else {
			rtCase(out, g.geom(srid, 0), true)
		}
	}

	// conv / fromwkb: malformed
	gc := &gen{r: rConv, weird: true}
	for i := 0; i < nConv; i++ {
		l := &lenient{r: rConv}
		kind := "valid-any-order"
		switch rConv.Intn(6) {
		case 0: // valid, one byte order for everything
			if rConv.Chance(1, 2) {
				l.pBig = 100
				kind = "valid-big-endian"
			}
		case 1:
			l.pBig = 30
			kind = "valid-mixed-order"
		case 2:
			l.pBig, l.pCount = 20, 15
			kind = "bad-count"
		case 3:
			l.pBig, l.pType = 20, 15
			kind = "bad-type"
		case 4:
			l.pBig, l.pFlag = 20, 50
			kind = "odd-flag"
		default:
			l.pBig, l.pCount, l.pType, l.pFlag = 20, 5, 5, 10
			kind = "mixed"
		}
		var v types.GeometryValue
		if rConv.Chance(1, 6) {
			v = gc.degenerate(0, 0)
		} else {
			v = gc.geom(0, 0)
		}
		b := l.wkb(v)
		if kind != "valid-any-order" && kind != "valid-big-endian" && kind != "valid-mixed-order" {
			b = l.finish(b)
		} else if rConv.Chance(1, 10) {
			b = l.finish(b)
			kind = "valid-cut"
		}
		if rConv.Chance(2, 3) {
			srid := hx.Pick(rConv, []uint32{0, 4326, 3857, 1, 0xffffffff})
			convCase(out, append(sridBytes(srid), b...), kind)
		} else {
			fromwkbCase(out, b, hx.Pick(rConv, sridPool))
		}
	}

	// sqlrt
	gs := &gen{r: rSql, weird: true}
	for i := 0; i < nSql; i++ {
		sqlrtCase(out, gs.geom(hx.Pick(rSql, sridPool), 0))
	}

	// typed constructors
	gt := &gen{r: rTyped, weird: true}
	for _, g := range corpus {
		typedCase(out, g, typeOf(g))
	}
	typedCase(out, corpus[3], 6) // a POLYGON handed to ST_MPolyFromWKB / ST_GeomCollFromWKB
	typedCase(out, corpus[3], 7)
	for i := 0; i < nSql; i++ {
		v := gt.geom(hx.Pick(rTyped, sridPool), 0)
		t := typeOf(v)
		if rTyped.Chance(1, 4) {
			t = uint32(rTyped.Range(1, 7))
		}
		typedCase(out, v, t)
	}

	wktOracle(out, rWkt, nWkt)
	engineOracles(out, rIdx, a.Thorough)
	return nil
}
