package main

// SQL-level part of C15: statements through Engine.Query that fail at every row position.
// There is no Impl model for planbuilder + analyzer + rowexec, so these cases are kept out of the
// correspondence (payload `(sql …)`, observation `sql`) and the property is evaluated on the real
// code alone: physical dump (partitions, secondaryIndexStorage with locations, AUTO_INCREMENT
// counter) of every table the statement can touch, and every index-driven read, before = after.
//
// Feature envelope (grown one feature at a time; other properties' defects are kept out):
//   * one table `t(id PK, a KEY, b UNIQUE, c NOT NULL CHECK (c < 100)[, p REFERENCES t(id)])`,
//     BIGINT columns only, single-digit … three-digit values, no NULL in key columns;
//   * multi-row INSERT whose k-th row is bad, UPDATE / DELETE whose k-th row (in primary-key
//     order) is bad; kinds of failure: duplicate primary key, duplicate unique key, NULL into
//     NOT NULL, CHECK violation, foreign-key violation (self-referential), SIGNAL in a BEFORE
//     INSERT trigger;
//   * row provenance: before the failing statement some stored rows are rewritten by successful
//     INSERT … ON DUPLICATE KEY UPDATE / UPDATE / REPLACE statements (a stored row is a Go slice
//     whose spare capacity and sharing depend on the statement that wrote it, see
//     lean/Gms/Model/RowAlias.lean), and multi-row INSERT … ON DUPLICATE KEY UPDATE / REPLACE
//     statements update / replace such rows before their k-th row fails (NULL, CHECK on the incoming
//     or on the updated row, conversion error). Only the table state is observed, so C13's
//     row-count findings for these statements stay out;
//   * not used: INSERT IGNORE, composite or string keys (C14's findings), AUTO_INCREMENT columns
//     of `t` (C20), cascading foreign keys over several tables (C18).

import (
	"fmt"
	"sort"
	"strings"

	"github.com/dolthub/go-mysql-server/memory"
	"github.com/sirupsen/logrus"

	"github.com/dolthub/go-mysql-server/verifharness/hx"
	"github.com/dolthub/go-mysql-server/verifharness/hx/eng"
	mi "github.com/dolthub/go-mysql-server/verifharness/memidx"
)

const regionTrigger = "trigger_side_effects_survive"

type sqlCase struct {
	selfFK  bool
	trigger string // "" | "signal" | "audit"
	setup   [][4]int64
	stmt    string
	kind    string
	pos     int
}

type sqlRow struct {
	id, a, b, c int64
	p           int64 // -1 = NULL
}

func dumpOf(e *eng.Eng, name string) (mi.Dump, error) {
	ctx := e.Ctx()
	t, ok, err := e.DBs[0].GetTableInsensitive(ctx, name)
	if err != nil || !ok {
		return mi.Dump{}, fmt.Errorf("table %s: %v", name, err)
	}
	mt, ok := t.(*memory.Table)
	if !ok {
		return mi.Dump{}, fmt.Errorf("table %s is a %T", name, t)
	}
	return mi.Convert(memory.VerifDumpTable(ctx, mt)), nil
}

// reads: every index-driven read a client can make over the values present, plus a full scan.
func reads(e *eng.Eng, vals []int64) string {
	ctx := e.Ctx()
	var b strings.Builder
	q := func(s string) {
		r := e.Query(eng.SameSession(ctx), s)
		b.WriteString(eng.Canon(r, false))
		b.WriteString(";")
	}
	q("SELECT * FROM t")
	for _, v := range vals {
		q(fmt.Sprintf("SELECT * FROM t WHERE id = %d", v))
		q(fmt.Sprintf("SELECT * FROM t WHERE a = %d", v))
		q(fmt.Sprintf("SELECT * FROM t WHERE b = %d", v))
	}
	q("SELECT id FROM t WHERE a >= 0 ORDER BY a, id")
	q("SELECT * FROM audit")
	return b.String()
}

func rowSQL(r sqlRow, fk bool) string {
	c := fmt.Sprint(r.c)
	if r.c == -1 {
		c = "NULL"
	}
	s := fmt.Sprintf("(%d, %d, %d, %s", r.id, r.a, r.b, c)
	if fk {
		if r.p < 0 {
			s += ", NULL"
		} else {
			s += fmt.Sprintf(", %d", r.p)
		}
	}
	return s + ")"
}

func runSQL(a hx.RunArgs, out *hx.Out, r *hx.Rand) error {
	logrus.SetLevel(logrus.PanicLevel) // triggerRollbackIter logs "savepoints are not supported" on every statement
	n := 90
	if a.Thorough {
		n = 4000
	}
	kinds := []string{"dup-pk", "dup-uk", "null", "check", "fk", "signal", "upd-check", "upd-uk", "del-fk",
		"odku-null", "odku-check", "odku-updcheck", "odku-conv", "replace-null", "replace-check"}
	for c := 0; c < n; c++ {
		cr := r.Fork()
		e := eng.New("d")
		ctx := e.Ctx()
		selfFK := cr.Chance(1, 2)
		trigger := ""
		switch cr.Intn(4) {
		case 0:
			trigger = "signal"
		case 1:
			trigger = "audit"
		}
		kind := kinds[c%len(kinds)]
		if c >= len(kinds)*2 {
			kind = hx.Pick(cr, kinds)
		}
		if kind == "fk" || kind == "del-fk" {
			selfFK = true
		}
		if kind == "signal" {
			trigger = "signal"
		}
		ddl := "CREATE TABLE t (id BIGINT PRIMARY KEY, a BIGINT, b BIGINT, c BIGINT NOT NULL, KEY ka (a), UNIQUE KEY ub (b), CHECK (c < 100)"
		if selfFK {
			ddl += ", p BIGINT, KEY kp (p), FOREIGN KEY (p) REFERENCES t(id)"
		}
		ddl += ")"
		setup := []string{ddl, "CREATE TABLE audit (n BIGINT PRIMARY KEY, id BIGINT)"}
		switch trigger {
		case "signal":
			setup = append(setup, "CREATE TRIGGER trg BEFORE INSERT ON t FOR EACH ROW BEGIN IF NEW.c = 77 THEN SIGNAL SQLSTATE '45000' SET MESSAGE_TEXT = 'boom'; END IF; END")
		case "audit":
			setup = append(setup, "CREATE TRIGGER trg BEFORE INSERT ON t FOR EACH ROW BEGIN INSERT INTO audit VALUES (NEW.id, NEW.id); END")
		}
		e.MustExec(eng.SameSession(ctx), setup...)
		// stored rows: ids 10,20,…; a with repeats; b unique; c small
		var stored []sqlRow
		ns := cr.Range(2, 5)
		for i := 0; i < ns; i++ {
			row := sqlRow{id: int64(10 * (i + 1)), a: int64(cr.Intn(3)), b: int64(100 + i), c: int64(cr.Intn(40)), p: -1}
			if selfFK && i > 0 && cr.Chance(1, 2) {
				row.p = stored[cr.Intn(i)].id
			}
			stored = append(stored, row)
		}
		// inserted one at a time so that later rows may reference earlier ones
		for _, row := range stored {
			e.MustExec(eng.SameSession(ctx), "INSERT INTO t VALUES "+rowSQL(row, selfFK))
		}
		// row provenance: rewrite some stored rows by successful statements of other kinds (their
		// outcome is not judged here; a statement that fails, e.g. on a foreign key, is simply a no-op)
		if cr.Chance(2, 3) || strings.HasPrefix(kind, "odku-") || strings.HasPrefix(kind, "replace-") {
			for k, nk := 0, cr.Range(1, 3); k < nk; k++ {
				row := hx.Pick(cr, stored)
				var q string
				switch cr.Intn(4) {
				case 0, 1:
					q = "INSERT INTO t VALUES " + rowSQL(sqlRow{id: row.id, a: 0, b: int64(300 + k), c: 0, p: -1}, selfFK) + " ON DUPLICATE KEY UPDATE a = a + 1"
				case 2:
					q = fmt.Sprintf("UPDATE t SET a = a + 1 WHERE id = %d", row.id)
				default:
					q = "REPLACE INTO t VALUES " + rowSQL(row, selfFK)
				}
				pr := e.Query(eng.SameSession(ctx), q)
				out.Stat("sql:provenance:" + strings.Fields(q)[0] + ":" + pr.Class())
			}
		}
		// the failing statement
		nrows := cr.Range(1, 4)
		pos := cr.Intn(nrows)
		var stmt string
		mk := func(i int) sqlRow {
			// fresh ids below, between and above the stored ones (sortRows moves rows)
			return sqlRow{id: int64(5 + 10*cr.Intn(7)), a: int64(cr.Intn(3)), b: int64(200 + i), c: int64(cr.Intn(40)), p: -1}
		}
		switch kind {
		case "dup-pk", "dup-uk", "null", "check", "fk", "signal":
			var rows []sqlRow
			used := map[int64]bool{}
			for i := 0; i < nrows; i++ {
				row := mk(i)
				for used[row.id] {
					row.id += 100
				}
				used[row.id] = true
				if selfFK && i > 0 && cr.Chance(1, 2) {
					row.p = rows[cr.Intn(i)].id // references a row of the same statement: forces an early ApplyEdits
				}
				rows = append(rows, row)
			}
			bad := &rows[pos]
			switch kind {
			case "dup-pk":
				if pos > 0 && cr.Chance(1, 2) {
					bad.id = rows[cr.Intn(pos)].id
				} else {
					bad.id = hx.Pick(cr, stored).id
				}
			case "dup-uk":
				if pos > 0 && cr.Chance(1, 2) {
					bad.b = rows[cr.Intn(pos)].b
				} else {
					bad.b = hx.Pick(cr, stored).b
				}
			case "null":
				bad.c = -1
			case "check":
				bad.c = 100 + int64(cr.Intn(5))
			case "fk":
				bad.p = 999
			case "signal":
				bad.c = 77
			}
			var rs []string
			for _, row := range rows {
				rs = append(rs, rowSQL(row, selfFK))
			}
			stmt = "INSERT INTO t VALUES " + strings.Join(rs, ", ")
		case "odku-null", "odku-check", "odku-updcheck", "odku-conv", "replace-null", "replace-check":
			// rows 0..pos-1 hit stored rows (updated / replaced), the pos-th row cannot be stored
			var rs []string
			perm := cr.Intn(len(stored))
			for i := 0; i <= pos; i++ {
				row := stored[(perm+i)%len(stored)]
				row.b = int64(400 + i) // a fresh unique value: the primary key is the only conflict
				row.a = int64(cr.Intn(3))
				row.c = int64(cr.Intn(40))
				if strings.HasPrefix(kind, "replace-") {
					row.b = stored[(perm+i)%len(stored)].b
				}
				txt := rowSQL(row, selfFK)
				if i == pos {
					switch kind {
					case "odku-null", "replace-null":
						row.id, row.c = int64(995), -1
						txt = rowSQL(row, selfFK)
					case "odku-check", "replace-check":
						row.id, row.c = int64(996), 100+int64(cr.Intn(5))
						txt = rowSQL(row, selfFK)
					case "odku-conv":
						row.id = 997
						txt = strings.Replace(rowSQL(row, selfFK), fmt.Sprintf("(%d, %d,", row.id, row.a), fmt.Sprintf("(%d, 'abc',", row.id), 1)
					case "odku-updcheck":
						// hits a stored row whose updated c leaves the CHECK range
						row.c = 99
						txt = rowSQL(row, selfFK)
					}
				}
				rs = append(rs, txt)
			}
			if strings.HasPrefix(kind, "replace-") {
				stmt = "REPLACE INTO t VALUES " + strings.Join(rs, ", ")
			} else {
				set := "a = a + 1, c = c + 1"
				if kind == "odku-updcheck" {
					set = "a = a + 1, c = VALUES(c) + IF(VALUES(c) = 99, 1, 0)"
				}
				stmt = "INSERT INTO t VALUES " + strings.Join(rs, ", ") + " ON DUPLICATE KEY UPDATE " + set
			}
		case "upd-check":
			// rows are updated in primary-key order; the pos-th one violates the CHECK
			p := pos % len(stored)
			stmt = fmt.Sprintf("UPDATE t SET a = a + 1, c = c + IF(id = %d, 100, 1)", stored[p].id)
		case "upd-uk":
			p := pos % len(stored)
			if p == 0 {
				p = len(stored) - 1
			}
			stmt = fmt.Sprintf("UPDATE t SET a = a + 1, b = IF(id = %d, %d, b + 50)", stored[p].id, stored[0].b+50)
		case "del-fk":
			// delete a referenced row together with unreferenced ones: RESTRICT fails at the referenced row
			stmt = "DELETE FROM t WHERE id >= 0"
		}
		tables := []string{"t", "audit"}
		var vals []int64
		seen := map[int64]bool{}
		for _, row := range stored {
			for _, v := range []int64{row.id, row.a, row.b} {
				if !seen[v] {
					seen[v] = true
					vals = append(vals, v)
				}
			}
		}
		sort.Slice(vals, func(i, j int) bool { return vals[i] < vals[j] })
		before := map[string]mi.Dump{}
		for _, tn := range tables {
			p, err := dumpOf(e, tn)
			if err != nil {
				return err
			}
			before[tn] = p
		}
		readsBefore := reads(e, vals)
		res := e.Query(eng.SameSession(ctx), stmt)
		cls := res.Class()
		out.Stat("sql:" + kind + ":" + cls)
		script := strings.Join(append(append([]string{}, setup...), stmt), "; ")
		payload := hx.List("sql", hx.HexS(fmt.Sprintf("rows=%v; %s", stored, script)))
		failed := cls != "ok"
		id := out.Case(payload, "sql", failed && pos > 0)
		if !failed {
			// the generator intended a failure; a statement that succeeds is simply not a C15 case
			// (e.g. DELETE of rows nobody references). Not an error of the code under test.
			out.Stat("sql:not-failing")
			continue
		}
		out.Stat("sql:failed")
		ndiff := 0
		for _, tn := range tables {
			p, err := dumpOf(e, tn)
			if err != nil {
				return err
			}
			if p.Physical() == before[tn].Physical() {
				continue
			}
			ndiff++
			tag := "-"
			switch {
			case tn == "audit" && trigger == "audit":
				tag = regionTrigger
			case tn == "t" && selfFK && mi.OnlyLocationsDiffer(before[tn], p):
				// the foreign-key editor reads the table under edit through IndexedAccess
				tag = regionShared
			}
			out.OracleFail(id, tag, fmt.Sprintf("%s failed (%s %v) but changed table %s: before %s after %s", stmt, cls, res.Err, tn, before[tn].Physical(), p.Physical()))
		}
		if ra := reads(e, vals); ra != readsBefore && ndiff == 0 {
			out.OracleFail(id, "-", fmt.Sprintf("%s failed (%s %v) but reads changed: before %s after %s", stmt, cls, res.Err, readsBefore, ra))
		}
	}
	return nil
}
