package main

// Row-aliasing part of C15: histories of INSERT / INSERT … ON DUPLICATE KEY UPDATE statements
// through Engine.Query on one table, in which rows are rewritten again and again (so that stored
// rows of every provenance occur: written by INSERT, by ON DUPLICATE KEY UPDATE — these have spare
// capacity, the next accumulator built on them is the stored array —, hit twice inside one
// statement, pending or committed) and statements fail at every row position after having
// updated such rows (NULL into NOT NULL, CHECK on the incoming row, CHECK on the updated row,
// conversion error, duplicate key of a plain INSERT).
//
//   - correspondence: payload `(odku (cfg …) (stmts …))`; observation per statement `ok|fail` and the
//     rows afterwards. The Lean driver predicts it with the memory-level Impl model
//     (Gms/Model/RowAlias.lean: slices over backing arrays) and with the value-level Spec.
//   - model-free oracle: a failed statement leaves the physical dump (partitions, index storage
//     with locations) exactly as it was.
//
// Envelope: BIGINT columns `id PRIMARY KEY, a, c NOT NULL[, d]`, `KEY ka (a)`, `CHECK (c < 100)`;
// no other unique key (C13's finding unique_check_ignores_pending_edits), no IGNORE / REPLACE here
// (row-count findings of C13 are not observed anyway: the observation is the table), assignments
// `col = literal | col + k | VALUES(col)` on non-key columns, never NULL into the NOT NULL column.

import (
	"fmt"
	"strings"

	"github.com/dolthub/go-mysql-server/verifharness/hx"
	"github.com/dolthub/go-mysql-server/verifharness/hx/eng"
	m "github.com/dolthub/go-mysql-server/verifharness/memtbl"
)

type odkuStmt struct {
	odku bool
	rows []m.Row
	asg  []m.Asg
	bad  int // position of the row made bad on purpose, -1 = none
}

var odkuCols = []string{"id", "a", "c", "d"}

func sqlVal(v m.Val) string {
	switch {
	case v.Null:
		return "NULL"
	case v.IsStr:
		return "'" + v.S + "'"
	}
	return fmt.Sprint(v.I)
}

func (s odkuStmt) SQL() string {
	var rs []string
	for _, r := range s.rows {
		vs := make([]string, len(r))
		for i, v := range r {
			vs[i] = sqlVal(v)
		}
		rs = append(rs, "("+strings.Join(vs, ", ")+")")
	}
	q := "INSERT INTO t VALUES " + strings.Join(rs, ", ")
	if !s.odku {
		return q
	}
	var as []string
	for _, a := range s.asg {
		c := odkuCols[a.C]
		switch a.Kind {
		case "set":
			as = append(as, c+" = "+sqlVal(a.V))
		case "add":
			as = append(as, fmt.Sprintf("%s = %s + %d", c, c, a.K))
		default:
			as = append(as, fmt.Sprintf("%s = VALUES(%s)", c, c))
		}
	}
	return q + " ON DUPLICATE KEY UPDATE " + strings.Join(as, ", ")
}

func (s odkuStmt) Sexp() string {
	rows := hx.ListOf(s.rows, m.Row.Sexp)
	rows = rows[1 : len(rows)-1]
	if !s.odku {
		return strings.TrimSpace("(ins " + rows + ")")
	}
	return "(odku " + hx.ListOf(s.asg, m.Asg.Sexp) + " " + rows + ")"
}

// genOdkuStmt draws one statement over the ids currently stored. `hot` ids are hit on purpose.
func genOdkuStmt(r *hx.Rand, n int, stored map[int64]bool, hot []int64, first bool) odkuStmt {
	st := odkuStmt{bad: -1}
	nrows := r.Range(1, 4)
	if first {
		nrows = r.Range(2, 4)
	} else {
		st.odku = r.Chance(4, 5)
	}
	used := map[int64]bool{}
	for i := 0; i < nrows; i++ {
		var id int64
		switch {
		case first:
			id = int64(r.Range(1, 6))
			for used[id] {
				id = id%6 + 1
			}
		case len(hot) > 0 && r.Chance(3, 5):
			id = hx.Pick(r, hot)
		default:
			id = int64(r.Range(1, 8))
		}
		if !st.odku && !first {
			// a plain INSERT mostly brings new keys (a duplicate is one of the failure kinds below)
			for k := 0; k < 8 && (stored[id] || used[id]); k++ {
				id = id%9 + 1
			}
		}
		used[id] = true
		row := m.Row{m.Int(id), m.Int(int64(r.Intn(6))), m.Int(int64(r.Intn(60)))}
		if r.Chance(1, 6) {
			row[1] = m.Null
		}
		if n == 4 {
			row = append(row, m.Int(int64(r.Intn(9))))
		}
		st.rows = append(st.rows, row)
	}
	if st.odku {
		na := r.Range(1, 2)
		for i := 0; i < na; i++ {
			c := r.Range(1, n-1)
			var a m.Asg
			switch r.Intn(4) {
			case 0:
				a = m.Asg{Kind: "vals", C: c}
			case 1:
				v := m.Int(int64(r.Intn(50)))
				if c != 2 && r.Chance(1, 4) {
					v = m.Null
				}
				a = m.Asg{Kind: "set", C: c, V: v}
			default:
				k := int64(hx.Pick(r, []int{1, 1, 2, 5, 30}))
				a = m.Asg{Kind: "add", C: c, K: k}
			}
			st.asg = append(st.asg, a)
		}
	}
	// failure injection: the row at `bad` cannot be stored
	if !first && r.Chance(1, 2) {
		st.bad = r.Intn(nrows)
		if nrows > 1 && r.Chance(2, 3) {
			st.bad = r.Range(1, nrows-1)
		}
		b := st.rows[st.bad]
		kinds := []string{"null", "check", "conv", "updcheck", "dup"}
		switch hx.Pick(r, kinds) {
		case "null":
			b[2] = m.Null
		case "check":
			b[2] = m.Int(int64(100 + r.Intn(5)))
		case "conv":
			b[1] = m.Str("abc")
		case "updcheck":
			// the row hits a stored key and the assignment pushes c over the CHECK bound
			if st.odku && len(hot) > 0 {
				b[0] = m.Int(hx.Pick(r, hot))
				st.asg = append(st.asg, m.Asg{Kind: "add", C: 2, K: 100})
			} else {
				b[2] = m.Int(100)
			}
		case "dup":
			if !st.odku && len(hot) > 0 {
				b[0] = m.Int(hx.Pick(r, hot))
			} else {
				b[2] = m.Null
			}
		}
	}
	return st
}

func tableView(e *eng.Eng) (view, physical string, err error) {
	d, err := dumpOf(e, "t")
	if err != nil {
		return "", "", err
	}
	return strings.TrimSuffix(d.View(nil), "|"), d.Physical(), nil
}

// odkuHistory runs one history on a fresh engine; `next` yields the i-th statement (nil = end).
func odkuHistory(out *hx.Out, ncols int, next func(i int, stored, rewritten map[int64]bool) *odkuStmt) error {
	e := eng.New("d")
	ctx := e.Ctx()
	ddl := "CREATE TABLE t (id BIGINT PRIMARY KEY, a BIGINT, c BIGINT NOT NULL"
	if ncols == 4 {
		ddl += ", d BIGINT"
	}
	ddl += ", KEY ka (a), CHECK (c < 100))"
	e.MustExec(eng.SameSession(ctx), ddl)
	cfg := fmt.Sprintf("(cfg %d (nn 0 2) (ck 2 100))", ncols)

	var stmts []odkuStmt
	var obs []string
	var oracle []string
	stored := map[int64]bool{}
	rewritten := map[int64]bool{} // ids whose row was last written by a successful ON DUPLICATE KEY UPDATE
	nontriv := false
	for i := 0; ; i++ {
		stp := next(i, stored, rewritten)
		if stp == nil {
			break
		}
		st := *stp
		_, physBefore, err := tableView(e)
		if err != nil {
			return err
		}
		res := e.Query(eng.SameSession(ctx), st.SQL())
		view, physAfter, err := tableView(e)
		if err != nil {
			return err
		}
		stmts = append(stmts, st)
		cls := res.Class()
		kind := "ins"
		if st.odku {
			kind = "odku"
		}
		switch {
		case cls == "ok":
			obs = append(obs, "ok|"+view)
			out.Stat("odku:" + kind + ":ok")
			for _, row := range st.rows {
				id := row[0].I
				if st.odku && stored[id] {
					rewritten[id] = true
				}
				stored[id] = true
			}
		case strings.HasPrefix(cls, "err:"):
			obs = append(obs, "fail|"+view)
			out.Stat("odku:" + kind + ":fail")
			// which rows had been processed before the intended failure
			if st.bad > 0 {
				nontriv = true
				out.Stat("odku:failed-after-rows")
				for _, row := range st.rows[:st.bad] {
					if st.odku && rewritten[row[0].I] {
						out.Stat("odku:failed-after-updating-a-rewritten-row")
						break
					}
				}
			}
			if physBefore != physAfter {
				oracle = append(oracle, fmt.Sprintf("statement %d `%s` failed (%s %v) but changed the table: before %s after %s", i, st.SQL(), cls, res.Err, physBefore, physAfter))
			}
		default:
			obs = append(obs, cls+"|"+view)
			out.Stat("odku:" + cls)
		}
		if len(oracle) > 0 {
			break
		}
	}
	payload := "(odku " + cfg + " (stmts " + strings.Join(mapS(stmts, odkuStmt.Sexp), " ") + "))"
	id := out.Case(payload, strings.Join(obs, ";"), nontriv)
	for _, o := range oracle {
		out.OracleFail(id, "-", o)
	}
	out.Stat(fmt.Sprintf("odku:cols%d", ncols))
	return nil
}

func ro(vs ...int64) m.Row { return ri(vs...) }

// odkuCorpus: regression histories, run first. Rows rewritten by ON DUPLICATE KEY UPDATE are hit
// again by a statement that then fails at a later row, for every kind of failure.
func odkuCorpus() [][]odkuStmt {
	add := func(c int, k int64) m.Asg { return m.Asg{Kind: "add", C: c, K: k} }
	base := []odkuStmt{
		{rows: []m.Row{ro(1, 1, 10), ro(2, 2, 20), ro(3, 3, 30)}, bad: -1},
		{odku: true, rows: []m.Row{ro(1, 0, 0)}, asg: []m.Asg{add(2, 1)}, bad: -1},
	}
	h := func(more ...odkuStmt) []odkuStmt { return append(append([]odkuStmt{}, base...), more...) }
	conv := ro(6, 0, 6)
	conv[1] = m.Str("abc")
	return [][]odkuStmt{
		// NULL into NOT NULL at row 2, after row 1 updated the rewritten row again
		h(odkuStmt{odku: true, rows: []m.Row{ro(1, 0, 0), ro(5, 5, -1)}, asg: []m.Asg{add(2, 1)}, bad: 1},
			odkuStmt{odku: true, rows: []m.Row{ro(1, 0, 0), ro(4, 4, 40)}, asg: []m.Asg{add(2, 1)}, bad: -1}),
		// CHECK on the incoming row, conversion error at row 3, two assignments
		h(odkuStmt{odku: true, rows: []m.Row{ro(1, 0, 0), ro(5, 5, 100)}, asg: []m.Asg{add(2, 1), {Kind: "vals", C: 1}}, bad: 1},
			odkuStmt{odku: true, rows: []m.Row{ro(1, 0, 0), ro(7, 7, 7), conv}, asg: []m.Asg{add(2, 2)}, bad: 2}),
		// CHECK on the updated row: row 1 is updated twice in one statement, then row 2 pushes c over the bound
		h(odkuStmt{odku: true, rows: []m.Row{ro(1, 0, 0), ro(1, 0, 0), ro(3, 0, 0)}, asg: []m.Asg{add(2, 35)}, bad: 2}),
		// control: the same failures over rows written by INSERT only (no spare capacity)
		{base[0], {odku: true, rows: []m.Row{ro(2, 0, 0), ro(5, 5, -1)}, asg: []m.Asg{add(2, 1)}, bad: 1},
			{rows: []m.Row{ro(8, 0, 0), ro(2, 0, 0)}, bad: 1}},
	}
}

func runOdku(a hx.RunArgs, out *hx.Out, r *hx.Rand) error {
	for _, h := range odkuCorpus() {
		h := h
		if err := odkuHistory(out, 3, func(i int, _, _ map[int64]bool) *odkuStmt {
			if i >= len(h) {
				return nil
			}
			return &h[i]
		}); err != nil {
			return fmt.Errorf("odku corpus: %v", err)
		}
		out.Stat("odku:corpus")
	}
	n := 140
	if a.Thorough {
		n = 6000
	}
	for c := 0; c < n; c++ {
		cr := r.Fork()
		ncols := 3 + cr.Intn(2)
		nst := cr.Range(4, 8)
		err := odkuHistory(out, ncols, func(i int, stored, rewritten map[int64]bool) *odkuStmt {
			if i >= nst {
				return nil
			}
			var hot []int64
			src := stored
			if len(rewritten) > 0 && cr.Chance(2, 3) {
				src = rewritten
			}
			for id := range src {
				hot = append(hot, id)
			}
			sortI64(hot)
			st := genOdkuStmt(cr, ncols, stored, hot, i == 0)
			return &st
		})
		if err != nil {
			return err
		}
	}
	return nil
}

func mapS[T any](xs []T, f func(T) string) []string {
	out := make([]string, len(xs))
	for i, x := range xs {
		out[i] = f(x)
	}
	return out
}

func sortI64(xs []int64) {
	for i := 1; i < len(xs); i++ {
		for j := i; j > 0 && xs[j] < xs[j-1]; j-- {
			xs[j], xs[j-1] = xs[j-1], xs[j]
		}
	}
}
