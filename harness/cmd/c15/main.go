// C15 — A failed data-modifying statement has no effect.
//
// extract: the statement protocol as the source has it now (go/ast): which branch of
//
//	TableEditorIter.Close discards and which completes, what StatementBegin snapshots, what
//	DiscardChanges / StatementComplete / Close / IndexedAccess of the in-memory tableEditor
//	call and in which order, which fields TableData.copy() re-allocates (and that index
//	rows are copied by reference), the renumbering comparison of deleteRowFromIndexes.
//
// run:     (a) editor level — generated histories of scripted statements (Insert / Update / Delete
//
//	/ IndexedAccess calls) driven through the real plan.TableEditorIter and the real
//	in-memory tableEditor, with an injected storage error at EVERY call position of every
//	statement (fault enumeration), an injected ignorable error, and natural duplicate-key
//	failures; after each statement partitions and secondaryIndexStorage are dumped
//	(overlay accessor). The Lean driver predicts the same dumps with the Impl model.
//	(b) SQL level — multi-row INSERT / UPDATE / DELETE statements through Engine.Query that
//	fail at every row position (duplicate key, NOT NULL, CHECK, self-referential foreign
//	key, SIGNAL in a trigger); model-free oracle: physical dump and every index-driven
//	read before = after.
package main

import (
	"fmt"
	"go/ast"
	"go/token"
	"os"
	"sort"
	"strconv"
	"strings"

	"github.com/dolthub/go-mysql-server/verifharness/hx"
	"github.com/dolthub/go-mysql-server/verifharness/hx/eng"
	mi "github.com/dolthub/go-mysql-server/verifharness/memidx"
	m "github.com/dolthub/go-mysql-server/verifharness/memtbl"
)

func main() { hx.Main(extract, run) }

// ---------------------------------------------------------------------------------------------
// facts

func set(xs ...string) map[string]bool {
	o := map[string]bool{}
	for _, x := range xs {
		o[x] = true
	}
	return o
}

// callsIn lists the wanted calls inside a statement list, receiver prefix stripped.
func callsIn(src *hx.Src, recv string, body ast.Node, want map[string]bool) []string {
	var out []string
	if body == nil {
		return out
	}
	ast.Inspect(body, func(n ast.Node) bool {
		ce, ok := n.(*ast.CallExpr)
		if !ok {
			return true
		}
		name := strings.TrimPrefix(src.Text(ce.Fun), recv)
		if want[name] {
			out = append(out, name)
		}
		return true
	})
	return out
}

func recvPrefix(fn *ast.FuncDecl) string {
	if fn.Recv != nil && len(fn.Recv.List) == 1 && len(fn.Recv.List[0].Names) == 1 {
		return fn.Recv.List[0].Names[0].Name + "."
	}
	return ""
}

// assignsIn lists "lhs := rhs" texts of assignments whose lhs (receiver stripped) is wanted.
func assignsIn(src *hx.Src, recv string, body ast.Node, want map[string]bool) []string {
	var out []string
	ast.Inspect(body, func(n ast.Node) bool {
		as, ok := n.(*ast.AssignStmt)
		if !ok || len(as.Lhs) != 1 || len(as.Rhs) != 1 {
			return true
		}
		l := strings.TrimPrefix(src.Text(as.Lhs[0]), recv)
		if want[l] {
			out = append(out, l+" = "+strings.ReplaceAll(src.Text(as.Rhs[0]), recv, ""))
		}
		return true
	})
	return out
}

func extract(a hx.ExtractArgs) error {
	pt, err := hx.ParseSrc(a.Repo, "sql/plan/table_editor.go")
	if err != nil {
		return err
	}
	te, err := hx.ParseSrc(a.Repo, "memory/table_editor.go")
	if err != nil {
		return err
	}
	td, err := hx.ParseSrc(a.Repo, "memory/table_data.go")
	if err != nil {
		return err
	}
	tb, err := hx.ParseSrc(a.Repo, "memory/table.go")
	if err != nil {
		return err
	}
	lf := hx.NewLeanFile("Gms.Generated.C15", pt.Path, te.Path, td.Path, tb.Path)

	// 1. TableEditorIter.Close: the if/else that chooses DiscardChanges vs StatementComplete
	fn, err := pt.Func("TableEditorIter", "Close")
	if err != nil {
		return err
	}
	want := set("openerCloser.DiscardChanges", "openerCloser.StatementComplete")
	found := false
	for _, s := range fn.Body.List {
		ifs, ok := s.(*ast.IfStmt)
		if !ok {
			continue
		}
		th := callsIn(pt, "", ifs.Body, want)
		if len(th) == 0 {
			continue
		}
		el := callsIn(pt, "", ifs.Else, want)
		lf.DefString("closeCond", pt.Text(ifs.Cond))
		lf.DefStringList("closeThen", th)
		lf.DefStringList("closeElse", el)
		found = true
		break
	}
	if !found {
		return fmt.Errorf("TableEditorIter.Close: no branch calling DiscardChanges found")
	}
	// what `err` and `ignoreError` are in that condition
	lf.DefStringList("closeDefs", assignsInDefine(pt, fn.Body, set("err", "_, ignoreError")))

	// 2. TableEditorIter.Next: StatementBegin once; which errors are recorded
	fn, err = pt.Func("TableEditorIter", "Next")
	if err != nil {
		return err
	}
	lf.DefStringList("nextCalls", callsIn(pt, "s.", fn.Body, set("once.Do", "openerCloser.StatementBegin", "inner.Next")))
	var recCond []string
	ast.Inspect(fn.Body, func(n ast.Node) bool {
		ifs, ok := n.(*ast.IfStmt)
		if !ok {
			return true
		}
		if len(assignsIn(pt, "s.", ifs.Body, set("errorEncountered"))) > 0 {
			recCond = append(recCond, pt.Text(ifs.Cond))
		}
		return true
	})
	if len(recCond) == 0 {
		return fmt.Errorf("TableEditorIter.Next: errorEncountered is never recorded")
	}
	lf.DefStringList("nextRecordsErrorWhen", recCond)

	// 3. tableEditor protocol methods
	seq := func(name, def string, wantCalls map[string]bool, wantAssign map[string]bool) error {
		fd, err := te.Func("tableEditor", name)
		if err != nil {
			return err
		}
		r := recvPrefix(fd)
		var items []string
		ast.Inspect(fd.Body, func(n ast.Node) bool {
			switch x := n.(type) {
			case *ast.CallExpr:
				nm := strings.TrimPrefix(te.Text(x.Fun), r)
				if wantCalls[nm] {
					arg := ""
					if nm == "editedTable.replaceData" || nm == "sess.putTable" {
						if len(x.Args) == 1 {
							arg = "(" + strings.ReplaceAll(te.Text(x.Args[0]), r, "") + ")"
						}
					}
					items = append(items, nm+arg)
				}
			case *ast.AssignStmt:
				if len(x.Lhs) == 1 && len(x.Rhs) == 1 {
					l := strings.TrimPrefix(te.Text(x.Lhs[0]), r)
					if wantAssign[l] {
						items = append(items, l+" = "+strings.ReplaceAll(te.Text(x.Rhs[0]), r, ""))
						return false
					}
				}
			}
			return true
		})
		if len(items) == 0 {
			return fmt.Errorf("tableEditor.%s: expected shape not found", name)
		}
		lf.DefStringList(def, items)
		return nil
	}
	calls := set("ea.ApplyEdits", "ea.Clear", "editedTable.replaceData", "sess.putTable", "editedTable.copy")
	if err := seq("StatementBegin", "edBegin", set(), set("initialTable")); err != nil {
		return err
	}
	if err := seq("DiscardChanges", "edDiscard", calls, set("discardChanges")); err != nil {
		return err
	}
	if err := seq("StatementComplete", "edComplete", calls, set()); err != nil {
		return err
	}
	if err := seq("IndexedAccess", "edIndexedAccess", calls, set()); err != nil {
		return err
	}
	// tableEditor.Close: what is put into the session when discardChanges is set
	fn, err = te.Func("tableEditor", "Close")
	if err != nil {
		return err
	}
	var discardPuts []string
	ast.Inspect(fn.Body, func(n ast.Node) bool {
		ifs, ok := n.(*ast.IfStmt)
		if !ok || te.Text(ifs.Cond) != "t.discardChanges" {
			return true
		}
		ast.Inspect(ifs.Body, func(n ast.Node) bool {
			if ce, ok := n.(*ast.CallExpr); ok {
				t := te.Text(ce.Fun)
				if t == "sess.putTable" || t == "t.editedTable.replaceData" {
					discardPuts = append(discardPuts, t+"("+te.Text(ce.Args[0])+")")
				}
			}
			return true
		})
		return false
	})
	if len(discardPuts) == 0 {
		return fmt.Errorf("tableEditor.Close: discardChanges branch not found")
	}
	lf.DefStringList("edCloseDiscard", discardPuts)
	// DiscardChanges: the guard around the restore
	fn, err = te.Func("tableEditor", "DiscardChanges")
	if err != nil {
		return err
	}
	var guard []string
	ast.Inspect(fn.Body, func(n ast.Node) bool {
		ifs, ok := n.(*ast.IfStmt)
		if !ok {
			return true
		}
		if len(callsIn(te, "t.", ifs.Body, set("editedTable.replaceData"))) > 0 {
			init := ""
			if ifs.Init != nil {
				init = te.Text(ifs.Init) + "; "
			}
			guard = append(guard, init+te.Text(ifs.Cond))
		}
		return true
	})
	if len(guard) != 1 {
		return fmt.Errorf("tableEditor.DiscardChanges: restore guard not found")
	}
	lf.DefString("edDiscardGuard", guard[0])

	// 4. TableData.copy: which fields get fresh storage, and how index storage rows are copied
	fn, err = td.Func("TableData", "copy")
	if err != nil {
		return err
	}
	var fresh []string
	ast.Inspect(fn.Body, func(n ast.Node) bool {
		as, ok := n.(*ast.AssignStmt)
		if !ok || as.Tok != token.ASSIGN {
			return true
		}
		for _, l := range as.Lhs {
			t := td.Text(l)
			if strings.HasPrefix(t, "td.") {
				fresh = append(fresh, strings.TrimPrefix(t, "td."))
			}
		}
		return true
	})
	sort.Strings(fresh)
	lf.DefStringList("copyFreshFields", fresh)
	// inside the loop over secondaryIndexStorage: `copy(data, v)` (rows by reference) vs a per-row copy
	idxCopy := "none"
	ast.Inspect(fn.Body, func(n ast.Node) bool {
		rs, ok := n.(*ast.RangeStmt)
		if !ok || td.Text(rs.X) != "td.secondaryIndexStorage" {
			return true
		}
		nested := false
		flat := false
		ast.Inspect(rs.Body, func(n ast.Node) bool {
			switch x := n.(type) {
			case *ast.RangeStmt, *ast.ForStmt:
				nested = true
			case *ast.CallExpr:
				if td.Text(x.Fun) == "copy" {
					flat = true
				}
			}
			return true
		})
		switch {
		case nested:
			idxCopy = "per-row"
		case flat:
			idxCopy = "slice-of-shared-rows"
		}
		return false
	})
	lf.DefString("copyIndexStorage", idxCopy)

	// 5. deleteRowFromIndexes: the two comparisons on rowLoc.idx and the renumbering amount
	fn, err = te.Func("", "deleteRowFromIndexes")
	if err != nil {
		return err
	}
	var cmps []string
	ast.Inspect(fn.Body, func(n ast.Node) bool {
		be, ok := n.(*ast.BinaryExpr)
		if !ok {
			return true
		}
		if te.Text(be.X) == "rowLoc.idx" && (te.Text(be.Y) == "rowIdx" || te.Text(be.Y) == "1") {
			cmps = append(cmps, be.Op.String()+" "+te.Text(be.Y))
		}
		return true
	})
	lf.DefStringList("delIdxOps", cmps)
	inPlace := false
	ast.Inspect(fn.Body, func(n ast.Node) bool {
		as, ok := n.(*ast.AssignStmt)
		if ok && len(as.Lhs) == 1 && te.Text(as.Lhs[0]) == "idxRow[len(idxRow)-1]" {
			inPlace = true
		}
		return true
	})
	lf.DefBool("delRenumbersInPlace", inPlace)

	// 6. partitionssort.Swap relocates index rows in place
	fn, err = tb.Func("partitionssort", "Swap")
	if err != nil {
		return err
	}
	swapInPlace := 0
	ast.Inspect(fn.Body, func(n ast.Node) bool {
		as, ok := n.(*ast.AssignStmt)
		if ok && len(as.Lhs) == 1 && tb.Text(as.Lhs[0]) == "idxRow[len(idxRow)-1]" {
			swapInPlace++
		}
		return true
	})
	lf.DefNat("swapRelocatesInPlace", uint64(swapInPlace))

	// 7. ApplyEdits order of both accumulators
	for _, p := range [][2]string{{"pkTableEditAccumulator", "pkApplyEdits"}, {"keylessTableEditAccumulator", "klApplyEdits"}} {
		fd, err := te.Func(p[0], "ApplyEdits")
		if err != nil {
			return err
		}
		s := m.CallSeq(te, fd, set("deleteHelper", "insertHelper", "tableData.sortRows", "tableData.sortSecondaryIndexes", "table.replaceData"))
		if len(s) == 0 {
			return fmt.Errorf("%s.ApplyEdits: expected calls not found", p[0])
		}
		lf.DefStringList(p[1], s)
	}
	// 8. row aliasing on the ON DUPLICATE KEY UPDATE path (facts_alias.go)
	if err := extractAlias(a, lf); err != nil {
		return err
	}
	return lf.Write(a.Out)
}

// assignsInDefine lists `lhs := rhs` definitions (top level of body) for the wanted lhs texts.
func assignsInDefine(src *hx.Src, body *ast.BlockStmt, want map[string]bool) []string {
	var out []string
	for _, s := range body.List {
		as, ok := s.(*ast.AssignStmt)
		if !ok || as.Tok != token.DEFINE {
			continue
		}
		var ls []string
		for _, l := range as.Lhs {
			ls = append(ls, src.Text(l))
		}
		l := strings.Join(ls, ", ")
		if want[l] && len(as.Rhs) == 1 {
			out = append(out, l+" := "+src.Text(as.Rhs[0]))
		}
	}
	return out
}

// ---------------------------------------------------------------------------------------------
// run

const regionShared = "index_rows_shared_with_snapshot"

// executedIdx: an IndexedAccess call was executed before the statement stopped.
func executedIdx(st mi.Stmt, executed int) bool {
	for i, o := range st.Ops {
		if i < executed && o.Kind == "x" {
			return true
		}
	}
	return false
}

type histResult struct {
	stmts   []mi.Stmt
	obs     []string
	oracle  []string // "tag\tdesc"
	nontriv bool
}

// runHistory executes the scripted history on a fresh table; `next` yields statements from the
// rows currently stored. It stops at the first statement on which the model-free oracle fails.
func runHistory(e *eng.Eng, env mi.Env, out *hx.Out, next func(i int, cur []mi.Row) *mi.Stmt) (*mi.Table, histResult, error) {
	var hr histResult
	tb, err := mi.NewTable(e, env)
	if err != nil {
		return nil, hr, err
	}
	names := env.IndexNames()
	before, err := tb.DumpNow()
	if err != nil {
		return tb, hr, err
	}
	for i := 0; ; i++ {
		stp := next(i, before.Rows())
		if stp == nil {
			break
		}
		st := *stp
		if err := mi.Validate(env, st); err != nil {
			return tb, hr, err
		}
		res, err := tb.Exec(st)
		if err != nil {
			return tb, hr, err
		}
		hr.stmts = append(hr.stmts, st)
		head := "ok"
		if res.Failed {
			head = "fail"
		}
		if res.Crash != "" {
			head = "crash:" + res.Crash
		}
		// Region index_rows_shared_with_snapshot (decided on the case): the statement failed after
		// an early ApplyEdits on a table with secondary indexes. What is left in the index rows then
		// depends on Go's map iteration order over the pending edits (which delete renumbers
		// first), so the model cannot predict it: the observation is opaque, the history ends
		// here, and the finding is reported by the model-free oracle below.
		inRegion := res.Failed && res.Crash == "" && len(env.Idx) > 0 && executedIdx(st, res.Executed)
		if inRegion {
			hr.obs = append(hr.obs, "fail|*")
			out.Stat("region:" + regionShared)
		} else {
			hr.obs = append(hr.obs, head+"|"+res.Dump.View(names))
		}
		out.Stat("stmt:" + st.Fin)
		stop := inRegion
		if res.Failed {
			out.Stat("failed")
			if res.Err != "" && res.Err != mi.ErrInjected.Error() {
				out.Stat("failed:natural")
			}
			if len(st.Ops) > 0 && len(before.Rows()) > 0 {
				hr.nontriv = true
			}
			// the property, on the real code alone: nothing a reader can see has changed
			if b, a := before.Physical(), res.Dump.Physical(); b != a {
				tag := "-"
				if inRegion && mi.OnlyLocationsDiffer(before, res.Dump) {
					tag = regionShared
				}
				hr.oracle = append(hr.oracle, tag+"\t"+fmt.Sprintf("statement %d %s failed (%s%s) but changed the table: before %s after %s", i, st.Sexp(), res.Err, res.Crash, b, a))
				stop = true
			}
		} else {
			out.Stat("succeeded")
			// success applies every call: rows = Spec rows, every index consistent with them
			exp := before.Rows()
			for _, o := range st.Ops {
				exp = mi.ShadowApply(env, exp, o)
			}
			if want, got := env.ConsistentView(exp), res.Dump.View(names); want != got {
				hr.oracle = append(hr.oracle, "-\t"+fmt.Sprintf("statement %d %s succeeded but rows/indexes are %s, expected %s", i, st.Sexp(), got, want))
				stop = true
			}
			if ok, why := res.Dump.Sorted(); !ok {
				hr.oracle = append(hr.oracle, "-\t"+fmt.Sprintf("statement %d %s: %s", i, st.Sexp(), why))
				stop = true
			}
		}
		before = res.Dump
		if stop {
			break
		}
	}
	return tb, hr, nil
}

func emit(out *hx.Out, tb *mi.Table, env mi.Env, hr histResult) {
	id := out.Case(mi.Payload(env, tb.PM, tb.PMK, hr.stmts), strings.Join(hr.obs, ";"), hr.nontriv)
	for _, o := range hr.oracle {
		p := strings.SplitN(o, "\t", 2)
		out.OracleFail(id, p[0], p[1])
	}
}

// fixed turns a statement list into a `next` function.
func fixed(h []mi.Stmt) func(int, []mi.Row) *mi.Stmt {
	return func(i int, _ []mi.Row) *mi.Stmt {
		if i >= len(h) {
			return nil
		}
		return &h[i]
	}
}

func ri(vs ...int64) mi.Row {
	r := make(mi.Row, len(vs))
	for i, v := range vs {
		if v < 0 {
			r[i] = m.Null
		} else {
			r[i] = m.Int(v)
		}
	}
	return r
}

// corpus: witnesses and regression cases, run first.
func corpus() []struct {
	env mi.Env
	h   []mi.Stmt
} {
	ins := func(rs ...mi.Row) []mi.Op {
		var o []mi.Op
		for _, r := range rs {
			o = append(o, mi.Op{Kind: "i", R: r})
		}
		return o
	}
	x := mi.Op{Kind: "x"}
	e1 := mi.Env{NCols: 3, PK: []int{0}, Idx: []mi.IdxDef{{Cols: []int{2}}}, NParts: 1}
	e2 := mi.Env{NCols: 3, PK: []int{0}, Idx: []mi.IdxDef{{Cols: []int{1}}, {Cols: []int{2, 1}}}, NParts: 3}
	e3 := mi.Env{NCols: 2, Idx: []mi.IdxDef{{Cols: []int{1}}}, NParts: 2}
	return []struct {
		env mi.Env
		h   []mi.Stmt
	}{
		// witness of index_rows_shared_with_snapshot: rows 5,7 stored; a statement inserts key 1,
		// goes through IndexedAccess (rows re-sorted, index rows relocated in place), then fails
		{e1, []mi.Stmt{{Fin: "eof", Ops: ins(ri(5, -1, 50), ri(7, -1, 70))},
			{Fin: "err", Ops: append(ins(ri(1, -1, 10)), x)}}},
		// the same without IndexedAccess: no effect
		{e1, []mi.Stmt{{Fin: "eof", Ops: ins(ri(5, -1, 50), ri(7, -1, 70))},
			{Fin: "err", Ops: ins(ri(1, -1, 10), ri(2, 1, 20))},
			{Fin: "ign", Ops: ins(ri(3, 1, 30))},
			{Fin: "eof", Ops: []mi.Op{{Kind: "d", R: ri(5, -1, 50)}, {Kind: "u", R: ri(7, -1, 70), N: ri(7, 2, 5)}}}}},
		// IndexedAccess in a successful statement, several partitions, delete renumbering
		{e2, []mi.Stmt{{Fin: "eof", Ops: ins(ri(4, 1, 1), ri(2, 1, 0), ri(9, 0, 1), ri(6, -1, 1))},
			{Fin: "eof", Ops: []mi.Op{{Kind: "d", R: ri(2, 1, 0)}, x, {Kind: "i", R: ri(1, 1, 1)}}},
			{Fin: "err", Ops: []mi.Op{{Kind: "d", R: ri(4, 1, 1)}, {Kind: "i", R: ri(3, 3, 3)}}},
			{Fin: "err", Ops: []mi.Op{{Kind: "d", R: ri(4, 1, 1)}, x, {Kind: "i", R: ri(3, 3, 3)}}}}},
		// natural duplicate-key failure after pending edits; keyless table with equal rows
		{e1, []mi.Stmt{{Fin: "eof", Ops: ins(ri(1, 1, 1), ri(2, 2, 2))},
			{Fin: "eof", Ops: append(ins(ri(3, 3, 3)), mi.Op{Kind: "i", R: ri(1, 0, 0)})}}},
		{e3, []mi.Stmt{{Fin: "eof", Ops: ins(ri(1, 1), ri(1, 1), ri(2, 1))},
			{Fin: "err", Ops: []mi.Op{{Kind: "d", R: ri(1, 1)}, {Kind: "i", R: ri(3, 3)}}},
			{Fin: "eof", Ops: []mi.Op{{Kind: "d", R: ri(1, 1)}, x, {Kind: "d", R: ri(1, 1)}}},
			{Fin: "err", Ops: []mi.Op{{Kind: "d", R: ri(2, 1)}, x}}}},
	}
}

func run(a hx.RunArgs) error {
	out := hx.NewOut(a.OutDir)
	defer out.Close()
	out.Rule = "editor-level histories on the real tableEditor behind the real TableEditorIter: every generated statement is first run with an injected error at each call position (0..n) and once with an ignorable error, then completely; INSERT / ON DUPLICATE KEY UPDATE histories through Engine.Query in which rows rewritten by earlier statements are updated again by statements failing at a later row; SQL-level statements failing at every row position. Non-trivial: a failed statement had executed at least one call (processed at least one row) on a non-empty table"
	r := hx.NewRand(a.Seed).Fork()
	e := eng.New("d")

	for _, c := range corpus() {
		tb, hr, err := runHistory(e, c.env, out, fixed(c.h))
		if err != nil {
			return fmt.Errorf("corpus: %v", err)
		}
		emit(out, tb, c.env, hr)
		tb.Drop()
		out.Stat("corpus")
	}

	cases := 700
	if a.Thorough {
		cases = 40000
	}
	if v := os.Getenv("C15_MAXCASES"); v != "" { // debugging aid: stop the editor-level stream early
		if n, err := strconv.Atoi(v); err == nil && n < cases {
			cases = n
		}
	}
	for c := 0; c < cases; c++ {
		cr := r.Fork()
		env := mi.GenEnv(cr)
		g := &mi.Gen{R: cr, Env: env}
		idxChance := 0
		if cr.Chance(1, 3) {
			idxChance = 12
		}
		base := cr.Range(2, 5)
		// the queue of statements to run: for each generated statement its faulted variants first
		var queue []mi.Stmt
		nbase := 0
		next := func(i int, cur []mi.Row) *mi.Stmt {
			if len(queue) == 0 {
				if nbase >= base {
					return nil
				}
				nbase++
				st := g.Stmt(cur, idxChance)
				for k := 0; k <= len(st.Ops); k++ {
					queue = append(queue, mi.Stmt{Fin: "err", Ops: st.Ops[:k]})
				}
				// an ignorable error at a random position completes the prefix (documented exception);
				// run it last so the complete statement starts from the generated pre-state when it is skipped
				if cr.Chance(1, 4) {
					queue = append(queue, mi.Stmt{Fin: "ign", Ops: st.Ops[:cr.Intn(len(st.Ops)+1)]})
					// the remaining calls of st may no longer be sensible: a fresh statement follows instead
				} else {
					queue = append(queue, st)
				}
			}
			st := queue[0]
			queue = queue[1:]
			return &st
		}
		tb, hr, err := runHistory(e, env, out, next)
		if err != nil {
			return err
		}
		emit(out, tb, env, hr)
		tb.Drop()
		out.Stat(fmt.Sprintf("env:pk%d:idx%d:np%d", len(env.PK), len(env.Idx), env.NParts))
	}

	// row aliasing: INSERT / ON DUPLICATE KEY UPDATE histories (odku.go). Its random stream is
	// derived from the seed independently, so that the streams before and after keep their cases.
	if err := runOdku(a, out, hx.NewRand(a.Seed^0x0d4b15).Fork()); err != nil {
		return err
	}
	return runSQL(a, out, r.Fork())
}
