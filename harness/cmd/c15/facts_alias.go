package main

// Facts behind lean/Gms/Model/RowAlias.lean: who writes into the cells of a row on the
// INSERT … ON DUPLICATE KEY UPDATE path. The model says: the accumulator is `append(oldRow,
// newRow...)` (possibly the stored array itself), every SET goes through `SetField.Eval`, which
// assigns into `row.Copy()` and nowhere else, `Row.Copy` allocates, the updated row is a prefix of
// the final accumulator and reaches the table through `updater.Update` only. Each of these is
// read off the source as it is now; `facts_match` in Props/C15.lean compares.

import (
	"fmt"
	"go/ast"
	"sort"
	"strings"

	"github.com/dolthub/go-mysql-server/verifharness/hx"
)

// indexWrites lists the base expressions of every element assignment `base[...] = …`,
// `base[...] op= …`, `base[...]++` and of every `copy(base, …)` / `copy(base[...], …)` in body.
func indexWrites(src *hx.Src, body ast.Node) []string {
	var out []string
	base := func(e ast.Expr) (string, bool) {
		switch x := e.(type) {
		case *ast.IndexExpr:
			return src.Text(x.X), true
		case *ast.SliceExpr:
			return src.Text(x.X), true
		}
		return "", false
	}
	ast.Inspect(body, func(n ast.Node) bool {
		switch x := n.(type) {
		case *ast.AssignStmt:
			for _, l := range x.Lhs {
				if b, ok := base(l); ok {
					out = append(out, b)
				}
			}
		case *ast.IncDecStmt:
			if b, ok := base(x.X); ok {
				out = append(out, b)
			}
		case *ast.CallExpr:
			if id, ok := x.Fun.(*ast.Ident); ok && id.Name == "copy" && len(x.Args) == 2 {
				if b, ok := base(x.Args[0]); ok {
					out = append(out, b)
				} else {
					out = append(out, src.Text(x.Args[0]))
				}
			}
		}
		return true
	})
	return out
}

func isRowType(src *hx.Src, e ast.Expr) bool {
	t := src.Text(e)
	return t == "sql.Row" || t == "Row"
}

func uniqSorted(xs []string) []string {
	m := map[string]bool{}
	for _, x := range xs {
		m[x] = true
	}
	out := make([]string, 0, len(m))
	for x := range m {
		out = append(out, x)
	}
	sort.Strings(out)
	return out
}

func extractAlias(a hx.ExtractArgs, lf *hx.LeanFile) error {
	set, err := hx.ParseSrc(a.Repo, "sql/expression/set.go")
	if err != nil {
		return err
	}
	rows, err := hx.ParseSrc(a.Repo, "sql/rows.go")
	if err != nil {
		return err
	}
	ins, err := hx.ParseSrc(a.Repo, "sql/rowexec/insert.go")
	if err != nil {
		return err
	}
	lf.Comment("row aliasing on the ON DUPLICATE KEY UPDATE path: " + strings.Join([]string{set.Path, rows.Path, ins.Path}, ", "))

	// 1. SetField: every method (or function of the file) that is handed a row, and every element
	// write in the file ("func:base"). The model has one entry point, `Eval`, writing into a copy.
	var takesRow, writes, copies []string
	for _, d := range set.File.Decls {
		fd, ok := d.(*ast.FuncDecl)
		if !ok || fd.Body == nil {
			continue
		}
		for _, p := range fd.Type.Params.List {
			if isRowType(set, p.Type) {
				takesRow = append(takesRow, fd.Name.Name)
				break
			}
		}
		for _, w := range indexWrites(set, fd.Body) {
			writes = append(writes, fd.Name.Name+":"+w)
		}
		ast.Inspect(fd.Body, func(n ast.Node) bool {
			as, ok := n.(*ast.AssignStmt)
			if !ok || len(as.Lhs) != 1 || len(as.Rhs) != 1 {
				return true
			}
			if ce, ok := as.Rhs[0].(*ast.CallExpr); ok {
				if se, ok := ce.Fun.(*ast.SelectorExpr); ok && se.Sel.Name == "Copy" {
					copies = append(copies, fd.Name.Name+":"+set.Text(as.Lhs[0])+" := "+set.Text(as.Rhs[0]))
				}
			}
			return true
		})
	}
	if len(takesRow) == 0 {
		return fmt.Errorf("%s: no function takes a row (SetField.Eval gone?)", set.Path)
	}
	lf.DefStringList("setFieldTakesRow", uniqSorted(takesRow))
	lf.DefStringList("setFieldElementWrites", uniqSorted(writes))
	lf.DefStringList("setFieldCopies", uniqSorted(copies))

	// 2. Row.Copy / NewRow: a fresh array of exactly len cells
	fn, err := rows.Func("Row", "Copy")
	if err != nil {
		return err
	}
	var rets []string
	for _, st := range fn.Body.List {
		if rs, ok := st.(*ast.ReturnStmt); ok && len(rs.Results) == 1 {
			rets = append(rets, "return "+rows.Text(rs.Results[0]))
		} else {
			rets = append(rets, "other")
		}
	}
	lf.DefStringList("rowCopyBody", rets)
	fn, err = rows.Func("", "NewRow")
	if err != nil {
		return err
	}
	var makes []string
	ast.Inspect(fn.Body, func(n ast.Node) bool {
		if ce, ok := n.(*ast.CallExpr); ok {
			if id, ok := ce.Fun.(*ast.Ident); ok && (id.Name == "make" || id.Name == "copy" || id.Name == "append") {
				makes = append(makes, rows.Text(ce))
			}
		}
		return true
	})
	lf.DefStringList("newRowAllocs", makes)

	// 3. applyUpdates: what it calls, what it assigns to the accumulator, what it writes in place
	fn, err = ins.Func("insertIter", "applyUpdates")
	if err != nil {
		return err
	}
	var calls, accAssigns []string
	ast.Inspect(fn.Body, func(n ast.Node) bool {
		switch x := n.(type) {
		case *ast.CallExpr:
			calls = append(calls, ins.Text(x.Fun))
		case *ast.AssignStmt:
			for i, l := range x.Lhs {
				if ins.Text(l) == "updateAccumulator" && i < len(x.Rhs) {
					accAssigns = append(accAssigns, ins.Text(x.Rhs[i]))
				}
			}
		}
		return true
	})
	lf.DefStringList("applyUpdatesCalls", uniqSorted(calls))
	lf.DefStringList("applyUpdatesAccAssigns", accAssigns)
	lf.DefStringList("applyUpdatesElementWrites", uniqSorted(indexWrites(ins, fn.Body)))

	// 4. handleOnDuplicateKeyUpdate: the accumulator handed to applyUpdates, how the updated row is
	// cut out of it, how it reaches the table, element writes
	fn, err = ins.Func("insertIter", "handleOnDuplicateKeyUpdate")
	if err != nil {
		return err
	}
	var accArgs, evalRows, stores []string
	ast.Inspect(fn.Body, func(n ast.Node) bool {
		switch x := n.(type) {
		case *ast.CallExpr:
			f := ins.Text(x.Fun)
			if f == "i.applyUpdates" && len(x.Args) == 4 {
				accArgs = append(accArgs, ins.Text(x.Args[2]))
			}
			if strings.HasPrefix(f, "i.updater.") || strings.HasPrefix(f, "i.inserter.") || strings.HasPrefix(f, "i.replacer.") {
				stores = append(stores, hx.OneLine(ins.Text(x)))
			}
		case *ast.AssignStmt:
			for i, l := range x.Lhs {
				if ins.Text(l) == "evalRow" && i < len(x.Rhs) {
					evalRows = append(evalRows, ins.Text(x.Rhs[i]))
				}
			}
		}
		return true
	})
	if len(accArgs) == 0 {
		return fmt.Errorf("%s: handleOnDuplicateKeyUpdate no longer calls applyUpdates", ins.Path)
	}
	lf.DefStringList("odkuAccumulators", accArgs)
	lf.DefStringList("odkuEvalRow", evalRows)
	lf.DefStringList("odkuStores", stores)
	lf.DefStringList("odkuElementWrites", uniqSorted(indexWrites(ins, fn.Body)))

	// 5. insertIter.Next: element writes (all of them into the incoming row before it is handed
	// to the editor, or into the REPLACE result row) and where the Existing row of a unique-key
	// error goes
	fn, err = ins.Func("insertIter", "Next")
	if err != nil {
		return err
	}
	lf.DefStringList("insertNextElementWrites", uniqSorted(indexWrites(ins, fn.Body)))
	var existingUses []string
	ast.Inspect(fn.Body, func(n ast.Node) bool {
		ce, ok := n.(*ast.CallExpr)
		if !ok {
			return true
		}
		for _, arg := range ce.Args {
			if strings.HasSuffix(ins.Text(arg), ".Existing") {
				existingUses = append(existingUses, hx.OneLine(ins.Text(ce)))
			}
		}
		return true
	})
	lf.DefStringList("insertExistingUses", existingUses)
	return nil
}
