// Facts for the storage / snapshot side of C36, regenerated on every run:
//
//   - code shape (go/ast): Table.PartitionRows hands the partition iterator a COPY of the stored
//     partition; IndexedTable.PartitionRows sorts the iterator's slice in place (which is why the
//     copy is what keeps a primary-key lookup read-only); ProcessList.Processes builds every map
//     of the snapshot with make;
//   - measured on the freshly compiled code: no partition iterator starts at the address of the
//     stored partition; a Processes() snapshot taken in each registry shape is not changed by the
//     registry writes that follow; the statement kinds of the idx stream are planned onto the
//     access paths the model describes (primary-key index forwards / reverse, secondary index
//     forwards / reverse, table scan).
package main

import (
	"context"
	"fmt"
	"go/ast"
	"strings"

	sqle "github.com/dolthub/go-mysql-server"
	"github.com/dolthub/go-mysql-server/memory"
	"github.com/dolthub/go-mysql-server/sql"
	"github.com/dolthub/go-mysql-server/verifharness/hx"
	"github.com/dolthub/go-mysql-server/verifharness/hx/eng"
)

func extractStore(a hx.ExtractArgs, lf *hx.LeanFile) error {
	// 1. Table.PartitionRows: how `rowsCopy` comes to be
	tb, err := hx.ParseSrc(a.Repo, "memory/table.go")
	if err != nil {
		return err
	}
	pr, err := tb.Func("Table", "PartitionRows")
	if err != nil {
		return err
	}
	var copyStmts []string
	iterRows := ""
	ast.Inspect(pr.Body, func(n ast.Node) bool {
		switch t := n.(type) {
		case *ast.AssignStmt:
			for _, l := range t.Lhs {
				if id, ok := l.(*ast.Ident); ok && id.Name == "rowsCopy" {
					copyStmts = append(copyStmts, tb.Text(t))
				}
			}
		case *ast.ExprStmt:
			if ce, ok := t.X.(*ast.CallExpr); ok && selText(ce.Fun) == "copy" && len(ce.Args) == 2 && selText(ce.Args[0]) == "rowsCopy" {
				copyStmts = append(copyStmts, tb.Text(t))
			}
		case *ast.CompositeLit:
			if selText(t.Type) == "tableIter" {
				for _, e := range t.Elts {
					if kv, ok := e.(*ast.KeyValueExpr); ok && selText(kv.Key) == "rows" {
						iterRows = tb.Text(kv.Value)
					}
				}
			}
		}
		return true
	})
	if len(copyStmts) == 0 || iterRows == "" {
		return fmt.Errorf("memory/table.go: Table.PartitionRows no longer builds a tableIter from `rowsCopy` (found %v, rows: %q)", copyStmts, iterRows)
	}
	lf.Comment("memory/table.go Table.PartitionRows: the statements that produce rowsCopy, and what the tableIter walks")
	lf.DefStringList("partitionRowsCopyStmts", copyStmts)
	lf.DefString("tableIterRows", iterRows)

	// 2. IndexedTable.PartitionRows sorts the iterator's rows in place
	ipr, err := tb.Func("IndexedTable", "PartitionRows")
	if err != nil {
		return err
	}
	var sortCalls, rowSources []string
	ast.Inspect(ipr.Body, func(n ast.Node) bool {
		switch t := n.(type) {
		case *ast.CallExpr:
			if fn := selText(t.Fun); strings.HasPrefix(fn, "sort.") {
				sortCalls = append(sortCalls, fn)
			}
		case *ast.AssignStmt:
			if len(t.Lhs) == 1 && len(t.Rhs) == 1 && selText(t.Lhs[0]) == "rows" {
				rowSources = append(rowSources, tb.Text(t.Rhs[0]))
			}
		}
		return true
	})
	lf.Comment("memory/table.go IndexedTable.PartitionRows: sort calls, and the slices they are applied to")
	lf.DefStringList("indexedTableSortCalls", sortCalls)
	lf.DefStringList("indexedTableSortedSlices", rowSources)

	// 3. ProcessList.Processes: every map of the snapshot is made in the function
	pl, err := hx.ParseSrc(a.Repo, "processlist.go")
	if err != nil {
		return err
	}
	pf, err := pl.Func("ProcessList", "Processes")
	if err != nil {
		return err
	}
	var mapDefs []string
	ast.Inspect(pf.Body, func(n ast.Node) bool {
		switch t := n.(type) {
		case *ast.AssignStmt:
			if len(t.Lhs) == 1 && len(t.Rhs) == 1 {
				switch selText(t.Lhs[0]) {
				case "newProg", "p.Progress", "newProg.PartitionsProgress":
					mapDefs = append(mapDefs, selText(t.Lhs[0])+" "+t.Tok.String()+" "+oneLine(pl.Text(t.Rhs[0])))
				}
			}
		case *ast.GenDecl:
			for _, sp := range t.Specs {
				if vs, ok := sp.(*ast.ValueSpec); ok && len(vs.Names) == 1 && len(vs.Values) == 1 && vs.Names[0].Name == "progMap" {
					mapDefs = append(mapDefs, "progMap = "+oneLine(pl.Text(vs.Values[0])))
				}
			}
		}
		return true
	})
	lf.Comment("processlist.go ProcessList.Processes: where the maps of a snapshot come from")
	lf.DefStringList("processesMapDefs", mapDefs)

	// 4. measured: partition iterators own their rows
	e := eng.New("d")
	ctx := e.Ctx()
	e.MustExec(ctx, "CREATE TABLE d.p (pk INT PRIMARY KEY, v INT, s VARCHAR(8), KEY iv (v))",
		"INSERT INTO d.p VALUES (5,50,'r5'),(2,20,'r2'),(9,NULL,'r9'),(1,20,'r1')",
		"CREATE TABLE d.h (a INT, b INT)", "INSERT INTO d.h VALUES (3,1),(1,2),(2,3)")
	var aliasing []string
	for _, name := range []string{"p", "h"} {
		t, ok, err := e.DBs[0].GetTableInsensitive(ctx, name)
		if err != nil || !ok {
			return fmt.Errorf("table %s: %v", name, err)
		}
		ks, err := memory.VerifScanAliases(ctx, t.(*memory.Table))
		if err != nil {
			return err
		}
		for _, k := range ks {
			aliasing = append(aliasing, name+"/"+k)
		}
	}
	lf.Comment("measured: partitions whose iterator walks the stored slice itself (Table.PartitionRows)")
	lf.DefStringList("scanIteratorsAliasingStorage", aliasing)

	// 5. measured: the plans of the idx stream's statement kinds
	type tpl struct{ name, q string }
	var plans [][2]string
	for _, t := range []tpl{
		{"pkr-desc", "SELECT pk, v FROM p WHERE pk >= 2 ORDER BY pk DESC"},
		{"pkr-desc-all", "SELECT pk, v FROM p ORDER BY pk DESC"},
		{"pkr-asc", "SELECT pk, v FROM p WHERE pk BETWEEN 1 AND 7 ORDER BY pk"},
		{"pkr-eq", "SELECT pk, v FROM p WHERE pk = 5 ORDER BY pk"},
		{"seq", "SELECT pk, v FROM p WHERE v = 20"},
		{"srows", "SELECT pk, v FROM p WHERE v BETWEEN 10 AND 30"},
		{"srng-asc", "SELECT v FROM p WHERE v >= 10 ORDER BY v"},
		{"srng-desc", "SELECT v FROM p WHERE v <= 30 ORDER BY v DESC"},
		{"scan", "SELECT pk, v FROM p"},
	} {
		r := e.Query(eng.SameSession(ctx), "EXPLAIN PLAN "+t.q)
		if r.Class() != "ok" {
			return fmt.Errorf("EXPLAIN PLAN %s: %s %v", t.q, r.Class(), r.Err)
		}
		var lines []string
		for _, row := range r.Rows {
			lines = append(lines, row...)
		}
		plans = append(plans, [2]string{t.name, planShape(lines)})
	}
	var b strings.Builder
	b.WriteString("def idxPlans : List (String × String) := [")
	for i, p := range plans {
		if i > 0 {
			b.WriteString(", ")
		}
		fmt.Fprintf(&b, "(%s, %s)", hx.LeanString(p[0]), hx.LeanString(p[1]))
	}
	b.WriteString("]\n")
	lf.Comment("measured: access path the analyzer chooses for each statement kind of the idx stream (root node, index, direction)")
	lf.Raw(b.String())

	// 6. measured: a Processes() snapshot is not changed by later registry writes
	leaks, err := snapshotLeaks()
	if err != nil {
		return err
	}
	lf.Comment("measured: registry shapes in which a ProcessList.Processes() snapshot changed after a later registry write")
	lf.DefStringList("processesSnapshotLeaks", leaks)
	return nil
}

func oneLine(s string) string { return strings.Join(strings.Fields(s), " ") }

// planShape: root node, index and direction of an EXPLAIN PLAN output.
func planShape(lines []string) string {
	root, index, rev := "", "", ""
	for _, l := range lines {
		t := strings.TrimLeft(l, " │├└─")
		if root == "" && t != "" {
			root = t
			if i := strings.IndexAny(root, "(:"); i > 0 {
				root = root[:i]
			}
		}
		if strings.HasPrefix(t, "IndexedTableAccess") && root != "IndexedTableAccess" {
			root += ">IndexedTableAccess"
		}
		if strings.HasPrefix(t, "index: ") {
			index = strings.TrimPrefix(t, "index: ")
		}
		if strings.HasPrefix(t, "reverse: true") {
			rev = " reverse"
		}
	}
	return strings.TrimSpace(root + " " + index + rev)
}

// snapshotLeaks drives a process list through the registry shapes of a running statement and
// checks, for a snapshot taken in each shape, that the registry writes that follow do not show in it.
func snapshotLeaks() ([]string, error) {
	pl := sqle.NewProcessList()
	pro := memory.NewDBProvider(memory.NewDatabase("d"))
	bs := sql.NewBaseSessionWithClientServer("localhost:3306", sql.Client{Address: "localhost", User: "root"}, 7)
	sess := memory.NewSession(bs, pro)
	pl.AddConnection(7, "localhost")
	pl.ConnectionReady(sess)
	ctx := sql.NewContext(context.Background(), sql.WithSession(sess), sql.WithPid(41), sql.WithProcessList(pl))
	ctx, err := pl.BeginQuery(ctx, "SELECT 1")
	if err != nil {
		return nil, err
	}
	pid := ctx.Pid()
	var leaks []string
	type shot struct {
		shape string
		procs []sql.Process
		txt   string // latest reading
		orig  string // reading at the moment the snapshot was taken
	}
	var shots []shot
	take := func(shape string) {
		procs := pl.Processes()
		txt, _ := renderSnap(procs)
		shots = append(shots, shot{shape, procs, txt, txt})
	}
	check := func(after string) {
		for i := range shots {
			if txt, _ := renderSnap(shots[i].procs); txt != shots[i].txt {
				leaks = append(leaks, shots[i].shape+" / "+after)
				shots[i].txt = txt
			}
		}
	}
	take("query begun, nothing registered")
	pl.AddTableProgress(pid, "t", 4)
	check("AddTableProgress")
	take("table registered, no partition in flight")
	pl.AddPartitionProgress(pid, "t", "0", 10)
	check("AddPartitionProgress")
	take("partition in flight")
	pl.UpdatePartitionProgress(pid, "t", "0", 3)
	check("UpdatePartitionProgress")
	pl.UpdateTableProgress(pid, "t", 1)
	check("UpdateTableProgress")
	pl.RemovePartitionProgress(pid, "t", "0")
	check("RemovePartitionProgress")
	take("between two partitions")
	pl.AddPartitionProgress(pid, "t", "1", 10)
	check("AddPartitionProgress (second partition)")
	pl.AddTableProgress(pid, "u", 2)
	check("AddTableProgress (second table)")
	take("two tables")
	pl.AddPartitionProgress(pid, "u", "0", 5)
	check("AddPartitionProgress (second table)")
	pl.RemoveTableProgress(pid, "t")
	check("RemoveTableProgress")
	pl.EndQuery(ctx)
	check("EndQuery")
	pl.RemoveConnection(7)
	check("RemoveConnection")
	if len(shots) != 5 {
		return nil, fmt.Errorf("snapshotLeaks: %d shots", len(shots))
	}
	// the shapes must really have been what their names say
	if !strings.Contains(shots[1].orig, "t=t:0/4[]") || !strings.Contains(shots[2].orig, "t=t:0/4[0=0:0/10]") || !strings.Contains(shots[3].orig, "t=t:1/4[]") {
		return nil, fmt.Errorf("snapshotLeaks: registry shapes not reached: %q | %q | %q", shots[1].orig, shots[2].orig, shots[3].orig)
	}
	return leaks, nil
}
