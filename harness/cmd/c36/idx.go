// The idx stream: read-only statements over storage that all sessions share.
//
// The in-memory backend keeps ONE copy of a table's rows (`TableData.partitions`) and of its
// secondary-index storage (`secondaryIndexStorage`, entries pointing at (partition, position) of
// the primary storage); every session reads that copy. A read-only statement must leave it
// bit-identical — otherwise what the next statement of ANY session returns depends on who read
// what before (sequentially already) and concurrent readers race with the writer.
//
// Tables p<i>(pk INT PRIMARY KEY, v INT, s VARCHAR(8), KEY iv (v)) with rows inserted in random
// order; statements (`pq`) over them whose result the Lean model computes from the physical dump
// of the store that travels in the payload (Gms/Model/SharedStore.lean: Impl = the access paths of
// memory/table.go — primary rows filtered and stably sorted for a primary-key lookup, secondary
// index entries walked forwards/backwards and dereferenced for a secondary lookup; Spec = the
// logical table):
//
//	pkr    SELECT pk, v FROM p WHERE pk <range> ORDER BY pk [DESC] [LIMIT n]   primary-key index, both directions
//	seq    SELECT pk, v FROM p WHERE v = k                                     secondary index, point
//	srows  SELECT pk, v FROM p WHERE v BETWEEN a AND b                         secondary index, range
//	srng   SELECT v FROM p WHERE v <range> ORDER BY v [DESC]                   secondary index, both directions
//	scan   SELECT pk, v FROM p                                                 full scan
//	agg    SELECT COUNT(*), COUNT(v), MIN(pk), MAX(pk) FROM p
package main

import (
	"fmt"
	"sort"
	"strconv"
	"strings"

	"github.com/dolthub/go-mysql-server/memory"
	"github.com/dolthub/go-mysql-server/sql"
	"github.com/dolthub/go-mysql-server/verifharness/hx"
)

type prow struct {
	pk    int64
	v     int64
	vnull bool
}

type ptable struct {
	rows []prow // insertion order
}

type idxDb struct {
	tables []*ptable
}

func (d *idxDb) setup() []string {
	var out []string
	for i, t := range d.tables {
		out = append(out, fmt.Sprintf("CREATE TABLE d.p%d (pk INT PRIMARY KEY, v INT, s VARCHAR(8), KEY iv (v))", i))
		// several INSERT statements, so that rows arrive in an order that is neither key order nor one batch
		for lo := 0; lo < len(t.rows); lo += 3 {
			hi := lo + 3
			if hi > len(t.rows) {
				hi = len(t.rows)
			}
			var vs []string
			for _, r := range t.rows[lo:hi] {
				v := strconv.FormatInt(r.v, 10)
				if r.vnull {
					v = "NULL"
				}
				vs = append(vs, fmt.Sprintf("(%d,%s,'r%d')", r.pk, v, r.pk))
			}
			out = append(out, fmt.Sprintf("INSERT INTO d.p%d VALUES %s", i, strings.Join(vs, ",")))
		}
	}
	return out
}

func genIdxDb(r *hx.Rand, thorough bool) *idxDb {
	d := &idxDb{}
	nt := r.Range(1, 2)
	for i := 0; i < nt; i++ {
		t := &ptable{}
		n := r.Range(2, 14)
		if thorough && r.Chance(1, 6) {
			n = r.Range(15, 60)
		}
		if r.Chance(1, 12) {
			n = r.Range(0, 1)
		}
		seen := map[int64]bool{}
		for len(t.rows) < n {
			pk := int64(r.Range(-3, 3*n+2))
			if seen[pk] {
				continue
			}
			seen[pk] = true
			row := prow{pk: pk, v: int64(r.Range(0, 5)) * 10}
			if r.Chance(1, 8) {
				row.vnull = true
			}
			t.rows = append(t.rows, row)
		}
		d.tables = append(d.tables, t)
	}
	return d
}

func optInt(p *int64) string {
	if p == nil {
		return "N"
	}
	return strconv.FormatInt(*p, 10)
}

func i64(v int64) *int64 { return &v }

// pqSQL prints the statement; `variant` selects among equivalent spellings of the same range.
func pqSQL(st *stmt, variant int) string {
	t := fmt.Sprintf("d.p%d", st.Tbl) // qualified: a session's current database may be d2 by then
	rng := func(col string) string {
		switch {
		case st.Lo == nil && st.Hi == nil:
			return ""
		case st.Lo != nil && st.Hi != nil && *st.Lo == *st.Hi && variant%2 == 0:
			return fmt.Sprintf(" WHERE %s = %d", col, *st.Lo)
		case st.Lo != nil && st.Hi != nil:
			return fmt.Sprintf(" WHERE %s BETWEEN %d AND %d", col, *st.Lo, *st.Hi)
		case st.Lo != nil:
			if variant%2 == 0 {
				return fmt.Sprintf(" WHERE %s > %d", col, *st.Lo-1)
			}
			return fmt.Sprintf(" WHERE %s >= %d", col, *st.Lo)
		default:
			if variant%2 == 0 {
				return fmt.Sprintf(" WHERE %s < %d", col, *st.Hi+1)
			}
			return fmt.Sprintf(" WHERE %s <= %d", col, *st.Hi)
		}
	}
	dir := ""
	if st.Desc {
		dir = " DESC"
	}
	lim := ""
	if st.Lim >= 0 {
		lim = fmt.Sprintf(" LIMIT %d", st.Lim)
	}
	switch st.Q {
	case "pkr":
		return fmt.Sprintf("SELECT pk, v FROM %s%s ORDER BY pk%s%s", t, rng("pk"), dir, lim)
	case "seq":
		return fmt.Sprintf("SELECT pk, v FROM %s WHERE v = %d", t, *st.Lo)
	case "srows":
		return fmt.Sprintf("SELECT pk, v FROM %s%s", t, rng("v"))
	case "srng":
		return fmt.Sprintf("SELECT v FROM %s%s ORDER BY v%s", t, rng("v"), dir)
	case "scan":
		return fmt.Sprintf("SELECT pk, v FROM %s", t)
	case "agg":
		return fmt.Sprintf("SELECT COUNT(*), COUNT(v), MIN(pk), MAX(pk) FROM %s", t)
	}
	bug("pq kind %q", st.Q)
	return ""
}

// pqStmt draws one statement over the idx tables. Reverse primary-key scans, ascending ones and
// secondary-index lookups are the bulk; the rest keeps the other access paths in the mix.
func (c *genCtx) pqStmt() *stmt {
	r := c.r
	st := &stmt{Kind: "pq", Tbl: r.Intn(len(c.idb.tables)), Lim: -1}
	t := c.idb.tables[st.Tbl]
	maxPk := int64(3*len(t.rows) + 2)
	bounds := func(lo, hi int64) {
		switch r.Intn(5) {
		case 0: // open on both sides
		case 1:
			st.Lo = i64(int64(r.Range(int(lo), int(hi))))
		case 2:
			st.Hi = i64(int64(r.Range(int(lo), int(hi))))
		default:
			a, b := int64(r.Range(int(lo), int(hi))), int64(r.Range(int(lo), int(hi)))
			if a > b && !r.Chance(1, 6) { // an empty range now and then
				a, b = b, a
			}
			st.Lo, st.Hi = i64(a), i64(b)
		}
	}
	switch n := r.Intn(100); {
	case n < 26:
		st.Q, st.Desc = "pkr", true
		bounds(-3, maxPk)
	case n < 44:
		st.Q = "pkr"
		bounds(-3, maxPk)
	case n < 50:
		st.Q = "pkr"
		k := int64(r.Range(-3, int(maxPk)))
		if len(t.rows) > 0 && r.Chance(3, 4) {
			k = hx.Pick(r, t.rows).pk
		}
		st.Lo, st.Hi = i64(k), i64(k)
	case n < 70:
		st.Q, st.Canon = "seq", true
		st.Lo = i64(int64(r.Range(0, 6)) * 10)
		st.Hi = st.Lo
	case n < 78:
		st.Q, st.Canon = "srows", true
		bounds(-5, 55)
		if st.Lo == nil || st.Hi == nil { // (an open range is a different spelling of the same path; keep BETWEEN)
			st.Lo, st.Hi = i64(int64(r.Range(0, 3))*10), i64(int64(r.Range(2, 6))*10)
		}
	case n < 88:
		st.Q, st.Desc = "srng", r.Bool()
		bounds(-5, 55)
		if st.Lo == nil && st.Hi == nil {
			st.Lo = i64(0)
		}
	case n < 95:
		st.Q, st.Canon = "scan", true
	default:
		st.Q = "agg"
	}
	if st.Q == "pkr" && r.Chance(1, 4) {
		st.Lim = r.Range(0, 4)
	}
	st.Ordered = !st.Canon
	st.SQL = pqSQL(st, r.Intn(2))
	return st
}

// renderCells is the observation of a pq statement: `r:` + rows `;`-joined, cells `,`-joined,
// N = NULL. Rows of a statement without a determined order are sorted by their first cell (the
// primary key) as integers.
func renderCells(st *stmt, cells [][]string) string {
	rows := append([][]string(nil), cells...)
	if st.Canon {
		sort.SliceStable(rows, func(i, j int) bool {
			a, _ := strconv.ParseInt(rows[i][0], 10, 64)
			b, _ := strconv.ParseInt(rows[j][0], 10, 64)
			return a < b
		})
	}
	out := make([]string, len(rows))
	for i, r := range rows {
		out[i] = strings.Join(r, ",")
	}
	return "r:" + strings.Join(out, ";")
}

// ---------------------------------------------------------------------------------------------
// Physical dumps

// physTable renders the storage of one table exactly as it is laid out: every partition's rows in
// stored order, every secondary index's entries in stored order with the locations they point at.
func physTable(ctx *sql.Context, t *memory.Table) string {
	d := memory.VerifDumpTable(ctx, t)
	var b strings.Builder
	for i, k := range d.PartitionKeys {
		fmt.Fprintf(&b, "part %q:", k)
		for _, r := range d.Partitions[i] {
			b.WriteString(" " + cellsOf(r))
		}
		b.WriteString("\n")
	}
	for _, ix := range d.Indexes {
		fmt.Fprintf(&b, "index %s:", ix.StorageKey)
		for _, e := range ix.Entries {
			fmt.Fprintf(&b, " %s@%s/%d", cellsOf(e.Vals), e.Partition, e.Idx)
		}
		b.WriteString("\n")
	}
	fmt.Fprintf(&b, "autoinc %d\n", d.AutoIncVal)
	return b.String()
}

func cellsOf(r sql.Row) string {
	cs := make([]string, len(r))
	for i, v := range r {
		if v == nil {
			cs[i] = "N"
		} else {
			cs[i] = fmt.Sprintf("%T:%v", v, v)
		}
	}
	return "[" + strings.Join(cs, " ") + "]"
}

// phys dumps the storage of every table of both databases, keyed by db.table.
func (w *world) phys() map[string]string {
	out := map[string]string{}
	ctx := w.e.Ctx()
	for _, db := range w.e.DBs {
		for name, t := range db.Tables() {
			mt, ok := t.(*memory.Table)
			if !ok {
				bug("table %s.%s is a %T", db.Name(), name, t)
			}
			out[db.Name()+"."+name] = physTable(ctx, mt)
		}
	}
	return out
}

// physDiff names the tables whose storage differs and shows the first differing line of each.
func physDiff(before, after map[string]string) string {
	var names []string
	for n := range before {
		names = append(names, n)
	}
	for n := range after {
		if _, ok := before[n]; !ok {
			names = append(names, n)
		}
	}
	sort.Strings(names)
	var out []string
	for _, n := range names {
		b, a := before[n], after[n]
		if a == b {
			continue
		}
		bl, al := strings.Split(b, "\n"), strings.Split(a, "\n")
		for i := 0; i < len(bl) || i < len(al); i++ {
			x, y := "", ""
			if i < len(bl) {
				x = bl[i]
			}
			if i < len(al) {
				y = al[i]
			}
			if x != y {
				out = append(out, fmt.Sprintf("%s: before {%s} after {%s}", n, trunc(x, 300), trunc(y, 300)))
				break
			}
		}
	}
	return strings.Join(out, " ; ")
}

// storeSexp renders the physical storage of the idx tables for the Lean driver:
// (store (tbl (rows (pk v) …) (sec (key pk idx) …)) …) — rows in stored order, v/key `N` for NULL.
// Only single-partition tables with exactly the one secondary index `iv` are expected.
func (w *world) storeSexp(idb *idxDb) string {
	ctx := w.e.Ctx()
	var ts []string
	for i := range idb.tables {
		name := fmt.Sprintf("p%d", i)
		t, ok, err := w.e.DBs[0].GetTableInsensitive(ctx, name)
		if err != nil || !ok {
			bug("idx table %s missing: %v", name, err)
		}
		d := memory.VerifDumpTable(ctx, t.(*memory.Table))
		// (the index storage of a table that never held a row does not exist yet)
		emptyTbl := len(d.Partitions) == 1 && len(d.Partitions[0]) == 0 && len(d.Indexes) == 0
		if !emptyTbl && (len(d.Partitions) != 1 || len(d.Indexes) != 1 || d.Indexes[0].StorageKey != "iv") {
			bug("idx table %s: %d partitions, %d secondary indexes", name, len(d.Partitions), len(d.Indexes))
		}
		cell := func(v any) string {
			if v == nil {
				return "N"
			}
			return fmt.Sprintf("%d", v)
		}
		var rows, sec []string
		for _, r := range d.Partitions[0] {
			rows = append(rows, hx.List(cell(r[0]), cell(r[1])))
		}
		var entries []memory.VerifIdxEntry
		if !emptyTbl {
			entries = d.Indexes[0].Entries
		}
		for _, e := range entries {
			if len(e.Vals) != 2 || e.Partition != d.PartitionKeys[0] {
				bug("idx table %s: secondary index entry %v@%s/%d", name, e.Vals, e.Partition, e.Idx)
			}
			sec = append(sec, hx.List(cell(e.Vals[0]), cell(e.Vals[1]), strconv.Itoa(e.Idx)))
		}
		ts = append(ts, hx.List("tbl", "(rows"+sp(rows)+")", "(sec"+sp(sec)+")"))
	}
	return "(store" + sp(ts) + ")"
}

func sp(xs []string) string {
	if len(xs) == 0 {
		return ""
	}
	return " " + strings.Join(xs, " ")
}

// ---------------------------------------------------------------------------------------------
// Reference: every pq statement ALONE on a pristine engine

// pqReference runs every distinct pq statement by itself on an engine on which nothing else has run
// since the tables were filled (the storage is compared around every statement, so the engine IS
// pristine for the next one; after a statement that changed the storage a new engine is built).
// Fills Obs / Sel / Warn and returns what a statement run alone did to the storage.
func pqReference(db worldSpec, progs [][]*stmt, col *collector) {
	var w *world
	var before map[string]string
	done := map[string]*stmt{}
	for _, prog := range progs {
		for _, st := range prog {
			if st.Kind != "pq" {
				continue
			}
			if ref, ok := done[st.SQL]; ok {
				st.Obs, st.Sel, st.Warn = ref.Obs, ref.Sel, ref.Warn
				continue
			}
			if w == nil {
				w = db.build()
				before = w.phys()
			}
			col.refs++
			sess := w.newSession(50)
			r := w.exec(sess, st, nil, nil)
			w.pl.RemoveConnection(50)
			st.Obs, st.Sel, st.Warn = observation(st, r), r.sel, r.warn
			done[st.SQL] = st
			if after := w.phys(); !samePhys(before, after) {
				col.fails = append(col.fails, fmt.Sprintf("%q run ALONE on a fresh engine changed the stored partitions / index storage: %s", st.SQL, physDiff(before, after)))
				col.closeWorld(w)
				w = nil
			}
		}
	}
	if w != nil {
		col.closeWorld(w)
	}
}

func samePhys(a, b map[string]string) bool {
	if len(a) != len(b) {
		return false
	}
	for k, v := range a {
		if b[k] != v {
			return false
		}
	}
	return true
}

// idxCorpus: the fixed batch of the idx stream. Four sessions over one table; every session mixes
// reverse and forward primary-key scans with secondary-index lookups, so that in the sequential
// phases a lookup follows a reverse scan of an earlier session without a forward primary-key
// access in between, and in the concurrent phase all of them overlap.
func idxCorpus() (*idxDb, [][]*stmt) {
	t := &ptable{}
	for _, pk := range []int64{5, 2, 9, 1, 7, 3, 8, 4} {
		t.rows = append(t.rows, prow{pk: pk, v: (pk % 4) * 10, vnull: pk == 9})
	}
	db := &idxDb{tables: []*ptable{t}}
	mk := func(q string, lo, hi *int64, desc bool, lim int) *stmt {
		st := &stmt{Kind: "pq", Q: q, Lo: lo, Hi: hi, Desc: desc, Lim: lim}
		st.Canon = q == "seq" || q == "srows" || q == "scan"
		st.Ordered = !st.Canon
		st.SQL = pqSQL(st, 1)
		return st
	}
	progs := [][]*stmt{
		{mk("pkr", nil, nil, true, -1), mk("seq", i64(20), i64(20), false, -1), mk("pkr", i64(2), nil, false, -1), mk("seq", i64(10), i64(10), false, -1)},
		{mk("seq", i64(20), i64(20), false, -1), mk("seq", i64(30), i64(30), false, -1), mk("agg", nil, nil, false, -1), mk("scan", nil, nil, false, -1),
			{Kind: "setvar", Var: "a", K: 7, SQL: "SET @a = 7"}, {Kind: "getvar", Var: "a", SQL: "SELECT @a"}},
		{mk("srng", i64(0), nil, true, -1), mk("pkr", i64(3), i64(8), true, 2), mk("seq", i64(10), i64(10), false, -1), mk("srows", i64(10), i64(30), false, -1)},
		{mk("pkr", i64(2), i64(7), false, -1), mk("srows", i64(0), i64(20), false, -1), mk("pkr", nil, i64(6), true, -1), mk("seq", i64(0), i64(0), false, -1),
			mk("srng", i64(10), i64(30), false, -1)},
	}
	return db, progs
}
