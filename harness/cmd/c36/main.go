// C36 — Concurrent read-only sessions are race-free and isolated.
//
// `run` re-executes itself as a child process with GORACE set (the race detector reads its options
// at process start), so that race reports land in a log file the child inspects after every batch.
// The binary must be built with -race (props/C36.json: "race": true); a non-race binary refuses
// to run, and a canary race at start-up proves that the report capture works.
//
// One case = one batch: a generated database, K sessions with programs of M statements each
// (table queries from harness/sqlgen plus statements that read and write session-owned state),
//  1. run alone: every program on its own fresh session, one after the other, on a fresh engine
//     (twice: statements whose result is not reproducible even sequentially are replaced);
//  2. run concurrently: K goroutines, one session each, on another fresh engine over the same
//     data, every statement bracketed like server/handler.go does (ProcessList.BeginQuery …
//     EndQuery), with a monitor goroutine sampling the shared registries;
//  3. quiescence: counters, process list, table dumps, a second sequential run on the engine that
//     served the concurrent phase.
//
// The Lean driver runs the interleaving model on the observed schedule (Impl model) and the
// per-session sequential semantics (Spec); both must equal what the real sessions received.
package main

import (
	"bufio"
	"bytes"
	"context"
	"encoding/json"
	"fmt"
	"hash/fnv"
	"io"
	"os"
	"os/exec"
	"runtime"
	"sort"
	"strconv"
	"strings"
	"sync"
	"sync/atomic"
	"time"
	"unicode/utf8"

	sqle "github.com/dolthub/go-mysql-server"
	"github.com/dolthub/go-mysql-server/memory"
	"github.com/dolthub/go-mysql-server/sql"
	"github.com/dolthub/go-mysql-server/verifharness/hx"
	"github.com/dolthub/go-mysql-server/verifharness/hx/eng"
	"github.com/dolthub/go-mysql-server/verifharness/sqlgen"
)

func main() { hx.Main(extract, run) }

// ---------------------------------------------------------------------------------------------
// Statements

type stmt struct {
	Kind    string // read | setvar | addvar | getvar | usedb | curdb | sq | scs | div0 | showwarn | vol
	SQL     string
	Ordered bool
	Var     string
	K       int64
	Db      string
	// pq (physical-store query of the idx stream, idx.go): table number, query kind, bounds
	// (nil = open), direction, LIMIT (-1 = none); Canon = result order is not determined by the
	// statement (rows are compared sorted by their first cell)
	Tbl    int
	Q      string
	Lo, Hi *int64
	Desc   bool
	Lim    int
	Canon  bool
	// sequential reference, filled by seqRun
	Obs  string // canonical observation when the session runs alone
	Sel  bool   // session Com_select grew
	Warn int    // -1: warning list untouched (statement failed before binding finished), else its new length
}

// sexp renders the statement for the Lean driver.
func (s *stmt) sexp() string {
	b := func(x bool) string {
		if x {
			return "1"
		}
		return "0"
	}
	switch s.Kind {
	case "read":
		return hx.List("read", s.Obs, b(s.Sel), strconv.Itoa(s.Warn), b(s.resolvesInfoSchema()), hx.HexS(s.SQL))
	case "vol":
		return hx.List("vol", b(s.Sel), strconv.Itoa(s.Warn), b(s.resolvesInfoSchema()), hx.HexS(s.SQL))
	case "setvar", "addvar":
		return hx.List(s.Kind, hx.HexS(s.Var), strconv.FormatInt(s.K, 10))
	case "getvar":
		return hx.List(s.Kind, hx.HexS(s.Var))
	case "usedb":
		return hx.List(s.Kind, hx.HexS(s.Db))
	case "pq":
		return hx.List("pq", strconv.Itoa(s.Tbl), s.Q, optInt(s.Lo), optInt(s.Hi), b(s.Desc), strconv.Itoa(s.Lim), b(s.Sel), strconv.Itoa(s.Warn), hx.HexS(s.SQL))
	}
	return hx.List(s.Kind)
}

func digest(s string, rows int) string {
	h := fnv.New64a()
	h.Write([]byte(s))
	return fmt.Sprintf("d%016x.%d", h.Sum64(), rows)
}

// ---------------------------------------------------------------------------------------------
// The real engine

type world struct {
	e     *eng.Eng
	pl    sql.ProcessList
	pid   atomic.Uint64
	snaps snapBook // process-list snapshots taken while statements run (snap.go)
}

// newWorld builds a fresh engine over the generated database; idb (may be nil) adds the tables of
// the idx stream (primary key + secondary index, idx.go).
func newWorld(db *sqlgen.Db, idb *idxDb) *world {
	e := eng.New("d", "d2")
	ctx := e.Ctx()
	e.MustExec(ctx, db.Setup()...)
	e.MustExec(ctx, "CREATE TABLE d2.u0 (a int primary key, b varchar(8))", "INSERT INTO d2.u0 VALUES (1,'x'),(2,'y'),(3,NULL)")
	if idb != nil {
		e.MustExec(ctx, idb.setup()...)
	}
	return &world{e: e, pl: e.E.ProcessList}
}

func (w *world) newSession(id uint32) sql.Session {
	bs := sql.NewBaseSessionWithClientServer("localhost:3306", sql.Client{Address: "localhost", User: "root"}, id)
	sess := memory.NewSession(bs, w.e.Pro)
	sess.SetCurrentDatabase("d")
	w.pl.AddConnection(id, "localhost")
	w.pl.ConnectionReady(sess)
	return sess
}

type harnessBug string

func bug(format string, a ...any) { panic(harnessBug(fmt.Sprintf(format, a...))) }

type execRes struct {
	obs    string // canonical observation
	class  string
	rows   int
	sel    bool
	warn   int
	ticks  [5]int64 // before BeginQuery, after BeginQuery, after Engine.Query, after the rows, after EndQuery
	first  string   // text of the first cell ("" if none)
	isNull bool
	cells  [][]string // pq statements: the plain cell texts ("N" = NULL), in the order received
}

// exec runs one statement on sess the way server/handler.go does: BeginQuery, Engine.Query, drain,
// EndQuery. tick is called at the five points of the bracket (nil: no ticks).
func (w *world) exec(sess sql.Session, st *stmt, tick func() int64, pause func()) (res execRes) {
	if tick == nil {
		tick = func() int64 { return 0 }
	}
	if pause == nil {
		pause = func() {}
	}
	ctx := sql.NewContext(context.Background(), sql.WithSession(sess), sql.WithPid(w.pid.Add(1)), sql.WithQuery(st.SQL),
		sql.WithMemoryManager(w.e.E.MemoryManager), sql.WithProcessList(w.pl))
	warnBefore := sess.Warnings()
	cs0, _ := sess.GetStatusVariable(ctx, "Com_select")
	res.ticks[0] = tick()
	ctx, err := w.pl.BeginQuery(ctx, st.SQL)
	if err != nil {
		bug("BeginQuery failed: %v", err)
	}
	res.ticks[1] = tick()
	pause()
	var rows []string
	var qerr error
	var sch sql.Schema
	var it sql.RowIter
	crash := hx.Safe(func() {
		sch, it, _, qerr = w.e.E.Query(ctx, st.SQL)
	})
	res.ticks[2] = tick()
	// process-list snapshots (snap.go): taken when the statement is analysed and its tables are
	// registered but no partition is in flight yet, after the first row (a partition is in flight)
	// and after the last one; every snapshot is re-read later and must not have changed
	var recs []*snapRec
	snap := func(when string) {
		for _, rc := range recs {
			w.snaps.recheck(rc, when+" of "+st.SQL)
		}
		if len(recs) < 3 {
			recs = append(recs, w.snaps.take(w.pl, when+" of "+st.SQL))
		}
	}
	snap("after Engine.Query returned")
	pause()
	if crash == "" && qerr == nil {
		crash = hx.Safe(func() {
			for {
				row, err := it.Next(ctx)
				if err == io.EOF {
					break
				}
				if err != nil {
					qerr = err
					break
				}
				if len(rows) == 0 {
					snap("after the first row")
				}
				if st.Kind == "pq" {
					plain := make([]string, len(row))
					for i, v := range row {
						plain[i] = "N"
						if i < len(sch) {
							if txt, null := eng.Text(ctx, sch[i].Type, v); !null {
								plain[i] = txt
							}
						}
					}
					res.cells = append(res.cells, plain)
				}
				cells := make([]string, len(row))
				for i, v := range row {
					var txt string
					var null bool
					if i < len(sch) {
						txt, null = eng.Text(ctx, sch[i].Type, v)
					} else {
						txt = fmt.Sprintf("%v", v)
					}
					if len(rows) == 0 && i == 0 {
						res.first, res.isNull = txt, null
					}
					if null {
						cells[i] = "null"
					} else {
						cells[i] = hx.HexS(txt)
					}
				}
				rows = append(rows, "("+strings.Join(cells, " ")+")")
			}
			if cerr := it.Close(ctx); cerr != nil && qerr == nil {
				qerr = cerr
			}
		})
	}
	res.ticks[3] = tick()
	snap("after the last row")
	pause()
	w.pl.EndQuery(ctx)
	res.ticks[4] = tick()
	snap("after EndQuery")
	switch {
	case crash != "":
		res.class = "crash"
		res.obs = "crash:" + crash
	case qerr != nil:
		res.class = fmt.Sprintf("err:%d", eng.Errno(qerr))
		res.obs = res.class
	default:
		res.class = "ok"
		res.rows = len(rows)
		if !st.Ordered {
			sort.Strings(rows)
		}
		res.obs = "rows " + strings.Join(rows, " ")
	}
	cs1, _ := sess.GetStatusVariable(ctx, "Com_select")
	res.sel = cs0 != cs1
	wa := sess.Warnings()
	res.warn = len(wa)
	if len(wa) == len(warnBefore) && (len(wa) == 0 || wa[0] == warnBefore[0]) && res.class != "ok" {
		res.warn = -1
	}
	return res
}

// observation maps an execution to the observation the model predicts for this kind of statement.
func observation(st *stmt, r execRes) string {
	if r.class != "ok" {
		if st.Kind == "read" || st.Kind == "vol" {
			if st.Kind == "vol" {
				return "vol"
			}
			return digest(r.obs, 0)
		}
		return strings.ReplaceAll(r.obs, " ", "_") // a concrete statement must not fail: shows up as a disagreement
	}
	switch st.Kind {
	case "pq":
		return renderCells(st, r.cells)
	case "read":
		return digest(r.obs, r.rows)
	case "vol":
		return "vol"
	case "setvar", "addvar", "usedb":
		return "ok"
	case "getvar", "div0":
		if r.rows == 1 && r.isNull {
			return "null"
		}
		return "i:" + r.first
	case "curdb":
		return "s:" + r.first
	case "sq", "scs":
		return "i:" + lastCell(r.obs)
	case "showwarn":
		return "i:" + strconv.Itoa(r.rows)
	}
	return r.obs
}

// lastCell decodes the last cell of a one-row observation `rows (x.. x..)`.
func lastCell(obs string) string {
	i := strings.LastIndex(obs, " x")
	if i < 0 || !strings.HasSuffix(obs, ")") {
		return "?" + obs
	}
	h := obs[i+2 : len(obs)-1]
	b := make([]byte, len(h)/2)
	for k := range b {
		v, err := strconv.ParseUint(h[2*k:2*k+2], 16, 8)
		if err != nil {
			return "?" + obs
		}
		b[k] = byte(v)
	}
	return string(b)
}

func counter(name string) int64 {
	_, v, ok := sql.StatusVariables.GetGlobal(name)
	if !ok {
		bug("status variable %s missing", name)
	}
	u, ok := v.(uint64)
	if !ok {
		bug("status variable %s is %T", name, v)
	}
	return int64(u)
}

func (w *world) dump(db *sqlgen.Db) string {
	sess := w.newSession(9000)
	defer w.pl.RemoveConnection(9000)
	var parts []string
	for i := range db.Tables {
		r := w.exec(sess, &stmt{Kind: "read", SQL: fmt.Sprintf("SELECT * FROM d.t%d", i)}, nil, nil)
		parts = append(parts, r.obs)
	}
	r := w.exec(sess, &stmt{Kind: "read", SQL: "SELECT * FROM d2.u0"}, nil, nil)
	parts = append(parts, r.obs)
	r = w.exec(sess, &stmt{Kind: "read", SQL: "SELECT table_schema, table_name FROM information_schema.tables WHERE table_schema IN ('d','d2')"}, nil, nil)
	parts = append(parts, r.obs)
	return strings.Join(parts, " | ")
}

// ---------------------------------------------------------------------------------------------
// Program generator

var catalogReads = []string{
	"SHOW TABLES",
	"SELECT table_name FROM information_schema.tables WHERE table_schema IN ('d','d2') ORDER BY 1",
	"SELECT COUNT(*) FROM information_schema.columns WHERE table_schema = 'd'",
	"SHOW CREATE TABLE t0",
	"DESCRIBE t0",
	"SELECT * FROM d2.u0 ORDER BY a",
	"SELECT b FROM d2.u0 WHERE a = 2",
	"SELECT @@session.sql_mode",
	"SELECT * FROM nope",
	"SELEC 1",
	"SELECT 1 +",
	"SELECT c99 FROM t0",
}

var volatileReads = []string{
	"SHOW PROCESSLIST",
	"SHOW GLOBAL STATUS LIKE 'Threads_running'",
	"SHOW GLOBAL STATUS LIKE 'Questions'",
	"SELECT COUNT(*) FROM information_schema.processlist",
}

type genCtx struct {
	r   *hx.Rand
	g   *sqlgen.Gen
	db  *sqlgen.Db
	idb *idxDb // idx stream: tables with primary key + secondary index (idx.go)
}

func (c *genCtx) tableQuery() *stmt {
	r := c.r
	q, tys := c.g.Query(r.Range(1, 3))
	ordered := false
	if r.Chance(1, 3) {
		q = c.g.OrderLimit(q, tys, r.Chance(1, 3))
		ordered = true
	}
	p := &sqlgen.Printer{Db: c.db, NoFuse: r.Chance(1, 10), CTE: r.Chance(1, 8)}
	return &stmt{Kind: "read", SQL: p.SQL(q), Ordered: ordered}
}

func (c *genCtx) stmt() *stmt {
	r := c.r
	vars := []string{"a", "b", "v"}
	if c.idb != nil && r.Chance(13, 20) {
		return c.pqStmt()
	}
	switch n := r.Intn(100); {
	case n < 48:
		return c.tableQuery()
	case n < 58:
		s := hx.Pick(r, catalogReads)
		return &stmt{Kind: "read", SQL: s, Ordered: true}
	case n < 64:
		v := hx.Pick(r, vars)
		k := int64(r.Range(-5, 40))
		return &stmt{Kind: "setvar", Var: v, K: k, SQL: fmt.Sprintf("SET @%s = %d", v, k)}
	case n < 70:
		v := hx.Pick(r, vars)
		k := int64(r.Range(1, 9))
		return &stmt{Kind: "addvar", Var: v, K: k, SQL: fmt.Sprintf("SET @%s = @%s + %d", v, v, k)}
	case n < 78:
		v := hx.Pick(r, vars)
		return &stmt{Kind: "getvar", Var: v, SQL: "SELECT @" + v}
	case n < 81:
		d := hx.Pick(r, []string{"d", "d2"})
		return &stmt{Kind: "usedb", Db: d, SQL: "USE " + d}
	case n < 85:
		return &stmt{Kind: "curdb", SQL: "SELECT DATABASE()"}
	case n < 89:
		return &stmt{Kind: "sq", SQL: "SHOW SESSION STATUS LIKE 'Questions'"}
	case n < 92:
		return &stmt{Kind: "scs", SQL: "SHOW SESSION STATUS LIKE 'Com_select'"}
	case n < 94:
		return &stmt{Kind: "div0", SQL: "SELECT 1/0"}
	case n < 96:
		return &stmt{Kind: "showwarn", SQL: "SHOW WARNINGS"}
	default:
		return &stmt{Kind: "vol", SQL: hx.Pick(r, volatileReads), Ordered: true}
	}
}

// ---------------------------------------------------------------------------------------------
// Phases

// seqRun runs every program alone (one fresh session after the other) and returns the
// observations. The physical storage is dumped around every statement: a statement after which it
// differs is reported (phase names the run).
func seqRun(w *world, progs [][]*stmt, base uint32, phase string) (out [][]execRes, physFails []string) {
	out = make([][]execRes, len(progs))
	prev := w.phys()
	for s, prog := range progs {
		sess := w.newSession(base + uint32(s))
		for j, st := range prog {
			out[s] = append(out[s], w.exec(sess, st, nil, nil))
			if cur := w.phys(); !samePhys(prev, cur) {
				physFails = append(physFails, fmt.Sprintf("%s: session program %d statement %d %q changed the stored partitions / index storage: %s", phase, s, j, st.SQL, physDiff(prev, cur)))
				prev = cur
			}
		}
		w.pl.RemoveConnection(base + uint32(s))
	}
	return out, physFails
}

// interleavedRun runs the programs on K sessions of one engine in a random statement-level
// interleaving, on one goroutine.
func interleavedRun(w *world, progs [][]*stmt, r *hx.Rand, base uint32) (out [][]execRes, physFails []string) {
	out = make([][]execRes, len(progs))
	sessions := make([]sql.Session, len(progs))
	var live []int
	for s := range progs {
		sessions[s] = w.newSession(base + uint32(s))
		if len(progs[s]) > 0 {
			live = append(live, s)
		}
	}
	prev := w.phys()
	for len(live) > 0 {
		k := r.Intn(len(live))
		s := live[k]
		j := len(out[s])
		st := progs[s][j]
		out[s] = append(out[s], w.exec(sessions[s], st, nil, nil))
		if cur := w.phys(); !samePhys(prev, cur) {
			physFails = append(physFails, fmt.Sprintf("interleaved sequential schedule: session %d statement %d %q changed the stored partitions / index storage: %s", s, j, st.SQL, physDiff(prev, cur)))
			prev = cur
		}
		if len(out[s]) == len(progs[s]) {
			live = append(live[:k], live[k+1:]...)
		}
	}
	for s := range progs {
		w.pl.RemoveConnection(base + uint32(s))
	}
	return out, physFails
}

type sample struct {
	ta, tb  int64
	running int64
	procs   []sql.Process
}

type concResult struct {
	res      [][]execRes
	samples  []sample
	hung     bool
	q, cs    int64 // global Questions / Com_select deltas at quiescence
	running  int64 // Threads_running delta at quiescence
	conn     int64 // Threads_connected delta while the sessions are connected
	procsEnd []sql.Process
	sessQ    []int64
	sessCS   []int64
}

func concRun(w *world, progs [][]*stmt, r *hx.Rand, base uint32) *concResult {
	k := len(progs)
	cr := &concResult{res: make([][]execRes, k), sessQ: make([]int64, k), sessCS: make([]int64, k)}
	q0, cs0, run0, conn0 := counter("Questions"), counter("Com_select"), counter("Threads_running"), counter("Threads_connected")
	sessions := make([]sql.Session, k)
	for s := range progs {
		sessions[s] = w.newSession(base + uint32(s))
	}
	cr.conn = counter("Threads_connected") - conn0
	var tickv atomic.Int64
	tick := func() int64 { return tickv.Add(1) }
	start := make(chan struct{})
	var wg sync.WaitGroup
	for s := range progs {
		wg.Add(1)
		rs := r.Fork()
		go func(s int) {
			defer wg.Done()
			pause := func() {
				switch rs.Intn(6) {
				case 0, 1:
					runtime.Gosched()
				case 2:
					time.Sleep(time.Duration(rs.Intn(200)) * time.Microsecond)
				}
			}
			<-start
			for _, st := range progs[s] {
				cr.res[s] = append(cr.res[s], w.exec(sessions[s], st, tick, pause))
				pause()
			}
		}(s)
	}
	stop := make(chan struct{})
	monDone := make(chan struct{})
	go func() { // monitor: samples the shared registries while the sessions run
		defer close(monDone)
		<-start
		for {
			select {
			case <-stop:
				return
			default:
			}
			var sm sample
			sm.ta = tick()
			sm.running = counter("Threads_running") - run0
			if len(cr.samples) < 4000 {
				sm.procs = w.snaps.take(w.pl, "by the monitor while the sessions ran").procs
			} else {
				sm.procs = w.pl.Processes()
			}
			sm.tb = tick()
			if len(cr.samples) < 4000 {
				cr.samples = append(cr.samples, sm)
			}
			// older snapshots (the monitor's and the sessions') are re-read while the sessions move on
			for _, rc := range w.snaps.recent(6) {
				w.snaps.recheck(rc, "by the monitor a little later")
			}
			time.Sleep(50 * time.Microsecond)
		}
	}()
	close(start)
	done := make(chan struct{})
	go func() { wg.Wait(); close(done) }()
	select {
	case <-done:
	case <-time.After(120 * time.Second):
		cr.hung = true
		return cr
	}
	close(stop)
	<-monDone
	cr.q, cr.cs, cr.running = counter("Questions")-q0, counter("Com_select")-cs0, counter("Threads_running")-run0
	cr.procsEnd = w.pl.Processes()
	for s, sess := range sessions {
		ctx := sql.NewContext(context.Background(), sql.WithSession(sess))
		v, _ := sess.GetStatusVariable(ctx, "Questions")
		cr.sessQ[s] = int64(v.(uint64))
		v, _ = sess.GetStatusVariable(ctx, "Com_select")
		cr.sessCS[s] = int64(v.(uint64))
		w.pl.RemoveConnection(base + uint32(s))
	}
	return cr
}

// ---------------------------------------------------------------------------------------------
// Race log

type raceLog struct {
	path string
	off  int64
}

func (l *raceLog) fresh() string {
	b, err := os.ReadFile(l.path)
	if err != nil {
		return ""
	}
	if int64(len(b)) <= l.off {
		return ""
	}
	s := string(b[l.off:])
	l.off = int64(len(b))
	return s
}

// raceSummary extracts, for every report in txt, the function names of the two top frames.
func raceSummaries(txt string) []string {
	var out []string
	for _, rep := range strings.Split(txt, "WARNING: DATA RACE")[1:] {
		lines := strings.Split(rep, "\n")
		var tops []string
		for i, ln := range lines {
			t := strings.TrimSpace(ln)
			if (strings.HasPrefix(t, "Write at ") || strings.HasPrefix(t, "Read at ") || strings.HasPrefix(t, "Previous write at ") ||
				strings.HasPrefix(t, "Previous read at ")) && i+1 < len(lines) {
				// first frame that is not in the Go runtime
				for j := i + 1; j < len(lines) && strings.TrimSpace(lines[j]) != ""; j += 2 {
					fn := strings.TrimSuffix(strings.TrimSpace(lines[j]), "()")
					fn = strings.TrimPrefix(fn, "github.com/dolthub/go-mysql-server/")
					if strings.HasPrefix(fn, "runtime.") || strings.HasPrefix(fn, "sync.") || strings.HasPrefix(fn, "sync/atomic.") {
						continue
					}
					tops = append(tops, strings.Fields(t)[0]+" "+fn)
					break
				}
			}
		}
		out = append(out, strings.Join(tops, " / "))
	}
	return out
}

var canarySink int

// canary provokes one data race inside the harness itself, to prove that reports are captured.
func canary() {
	var wg sync.WaitGroup
	for i := 0; i < 2; i++ {
		wg.Add(1)
		go func() { defer wg.Done(); canarySink++ }()
	}
	wg.Wait()
}

// ---------------------------------------------------------------------------------------------

func run(a hx.RunArgs) (err error) {
	if !raceEnabled {
		return fmt.Errorf("the C36 harness must be built with -race (props/C36.json \"race\": true)")
	}
	if os.Getenv("C36_CHILD") == "" {
		return parent(a)
	}
	out := newSink(a.OutDir)
	defer func() {
		if p := recover(); p != nil {
			if hb, ok := p.(harnessBug); ok {
				err = fmt.Errorf("harness defect: %s", string(hb))
			} else {
				err = fmt.Errorf("harness panic: %v", p)
			}
		}
		out.Close()
	}()

	rl := &raceLog{path: fmt.Sprintf("%s/race.%d", a.OutDir, os.Getpid())}
	canary()
	if c := rl.fresh(); !strings.Contains(c, "DATA RACE") || !strings.Contains(c, "main.canary") {
		return fmt.Errorf("race-report capture does not work (canary race not reported in %s)", rl.path)
	}

	r := hx.NewRand(a.Seed).Fork()
	nBatch, K, M := 10, 6, 10
	if a.Thorough {
		nBatch, K, M = 400, 8, 24
	}
	cfg := sqlgen.Default()
	cfg.MaxRows = 12
	g := sqlgen.NewGen(r.Fork(), cfg)
	// corpus first: the witness of the listed finding (several sessions resolving information_schema
	// tables at the same time) and a fixed mix of every statement kind
	mk := func(kind, q string) *stmt { return &stmt{Kind: kind, SQL: q, Ordered: true} }
	var wit, mix [][]*stmt
	for s := 0; s < 6; s++ {
		var p []*stmt
		for j := 0; j < 3 && s < 4; j++ {
			p = append(p, mk("read", "SELECT table_name FROM information_schema.tables WHERE table_schema IN ('d','d2') ORDER BY 1"),
				mk("read", "SELECT COUNT(*) FROM information_schema.columns WHERE table_schema = 'd'"))
		}
		if s < 4 {
			wit = append(wit, p)
		}
		mix = append(mix, []*stmt{
			{Kind: "setvar", Var: "a", K: int64(s), SQL: fmt.Sprintf("SET @a = %d", s)},
			mk("read", "SELECT * FROM d2.u0 ORDER BY a"),
			{Kind: "addvar", Var: "a", K: 10, SQL: "SET @a = @a + 10"},
			{Kind: "getvar", Var: "a", SQL: "SELECT @a"},
			{Kind: "getvar", Var: "b", SQL: "SELECT @b"},
			{Kind: "usedb", Db: []string{"d", "d2"}[s%2], SQL: "USE " + []string{"d", "d2"}[s%2]},
			{Kind: "curdb", SQL: "SELECT DATABASE()"},
			{Kind: "div0", SQL: "SELECT 1/0"},
			{Kind: "showwarn", SQL: "SHOW WARNINGS"},
			mk("read", "SELEC 1"),
			{Kind: "showwarn", SQL: "SHOW WARNINGS"},
			{Kind: "sq", SQL: "SHOW SESSION STATUS LIKE 'Questions'"},
			{Kind: "scs", SQL: "SHOW SESSION STATUS LIKE 'Com_select'"},
			mk("vol", "SHOW PROCESSLIST"),
			mk("read", "SHOW TABLES"),
		})
	}
	for _, fixed := range [][][]*stmt{wit, mix} {
		if err := batch(a, out, rl, r.Fork(), g, K, M, fixed, nil); err != nil {
			return err
		}
	}
	// the idx stream (idx.go) has its own random stream and generator, so that the batches below are
	// the sample they were before it existed: first a fixed batch (reverse primary-key scans,
	// ascending ones and secondary-index lookups spread over four sessions), then random ones
	ri := hx.NewRand(a.Seed*1000003 + 0xc36).Fork()
	gi := sqlgen.NewGen(ri.Fork(), cfg)
	fdb, fprogs := idxCorpus()
	if err := batch(a, out, rl, ri.Fork(), gi, K, M, fprogs, fdb); err != nil {
		return err
	}
	nIdx := 5
	if a.Thorough {
		nIdx = 60
	}
	for b := 0; b < nIdx; b++ {
		k, m := K, M
		if b%4 == 3 {
			k, m = 2*K, M/2
		}
		if err := batch(a, out, rl, ri.Fork(), gi, k, m, nil, genIdxDb(ri, a.Thorough)); err != nil {
			return err
		}
	}
	for b := 0; b < nBatch; b++ {
		k, m := K, M
		if b%5 == 4 {
			k, m = 2*K, M/2
		}
		if err := batch(a, out, rl, r.Fork(), g, k, m, nil, nil); err != nil {
			return err
		}
	}
	for key, v := range gi.Stats {
		out.StatN("gen-idx:"+key, v)
	}
	for key, v := range g.Stats {
		out.StatN("gen:"+key, v)
	}
	return nil
}

func batch(a hx.RunArgs, out *sink, rl *raceLog, r *hx.Rand, g *sqlgen.Gen, K, M int, fixed [][]*stmt, idb *idxDb) error {
	db := g.GenDb()
	ws := worldSpec{db: db, idb: idb}
	gc := &genCtx{r: r, g: g, db: db, idb: idb}
	progs := make([][]*stmt, K)
	for s := range progs {
		n := r.Range(M/2, M)
		for j := 0; j < n; j++ {
			progs[s] = append(progs[s], gc.stmt())
		}
	}
	if fixed != nil {
		progs, K = fixed, len(fixed)
	}
	col := &collector{}
	// 0. idx stream: every pq statement alone on a pristine engine (the reference of these statements)
	if idb != nil {
		pqReference(ws, progs, col)
	}
	// 1. alone (twice). A table query that is not reproducible alone is not a usable reference and is
	// replaced; a session-state statement whose result differs between the two runs means that session
	// state leaks from one session (or engine) into the next: reported below, never replaced. A pq
	// statement has its reference from step 0 and is never replaced: a different result here means
	// that the programs that ran before it on this engine changed what it reads.
	var leaks, seqFails []string
	w1 := ws.build()
	for attempt := 0; ; attempt++ {
		if attempt > 20 {
			bug("sequential runs keep disagreeing")
		}
		leaks, seqFails = nil, nil
		r1, pf1 := seqRun(w1, progs, 100, "sequential run, programs one after the other")
		w2 := ws.build()
		r2, pf2 := seqRun(w2, progs, 100, "sequential run on a second fresh engine")
		col.closeWorld(w2)
		seqFails = append(append(seqFails, pf1...), pf2...)
		stable := true
		for s := range progs {
			for j, st := range progs[s] {
				o1, o2 := observation(st, r1[s][j]), observation(st, r2[s][j])
				if st.Kind == "pq" {
					for k, o := range []string{o1, o2} {
						rr := [][][]execRes{r1, r2}[k][s][j]
						if o != st.Obs || rr.sel != st.Sel || rr.warn != st.Warn {
							seqFails = append(seqFails, fmt.Sprintf("session program %d statement %d %q: alone on a fresh engine %s, after the programs before it (sequential run %d) %s",
								s, j, st.SQL, trunc(st.Obs, 200), k+1, trunc(o, 200)))
						}
					}
					continue
				}
				st.Obs, st.Sel, st.Warn = o1, r1[s][j].sel, r1[s][j].warn
				differs := o1 != o2 || r1[s][j].sel != r2[s][j].sel || r1[s][j].warn != r2[s][j].warn
				switch {
				case differs && (st.Kind == "read" || st.Kind == "vol"):
					out.Stat("replaced:not-reproducible-alone")
					fmt.Fprintf(os.Stderr, "c36: not reproducible alone, replaced: %s\n", st.SQL)
					progs[s][j] = &stmt{Kind: "getvar", Var: "a", SQL: "SELECT @a"}
					stable = false
				case differs:
					leaks = append(leaks, fmt.Sprintf("session program %d statement %d %q run alone gives %s on one fresh engine and %s on another", s, j, st.SQL, o1, o2))
				case r1[s][j].class == "crash": // C10's subject; keep crashing statements out of this property's envelope
					out.Stat("replaced:crash-alone")
					progs[s][j] = &stmt{Kind: "getvar", Var: "a", SQL: "SELECT @a"}
					stable = false
				}
			}
		}
		if stable {
			break
		}
	}
	col.closeWorld(w1)
	// 1b. idx stream: a sequential schedule that interleaves the sessions statement by statement
	// (one goroutine, so no concurrency at all): every statement still returns what it returns alone
	// and leaves the storage as it found it
	if idb != nil {
		w3 := ws.build()
		ri, pf := interleavedRun(w3, progs, r.Fork(), 100)
		seqFails = append(seqFails, pf...)
		for s := range progs {
			for j, st := range progs[s] {
				if st.Kind == "vol" {
					continue
				}
				if o := observation(st, ri[s][j]); o != st.Obs {
					seqFails = append(seqFails, fmt.Sprintf("interleaved sequential schedule: session %d statement %d %q gives %s, alone %s", s, j, st.SQL, trunc(o, 200), trunc(st.Obs, 200)))
				}
			}
		}
		col.closeWorld(w3)
	}
	// 2. concurrently, on a fresh engine over the same data
	w := ws.build()
	before := w.dump(db)
	physBefore := w.phys()
	store := ""
	if idb != nil {
		store = w.storeSexp(idb)
	}
	out.Pending(casePayload(K, store, progs, nil))
	cr := concRun(w, progs, r.Fork(), 100)

	// payload
	type ev struct {
		t int64
		s int
	}
	var evs []ev
	if !cr.hung {
		for s := range progs {
			for _, e := range cr.res[s] {
				for _, t := range e.ticks[1:] {
					evs = append(evs, ev{t, s})
				}
			}
		}
	}
	sort.Slice(evs, func(i, j int) bool { return evs[i].t < evs[j].t })
	sched := make([]string, len(evs))
	switches := 0
	for i, e := range evs {
		sched[i] = strconv.Itoa(e.s)
		if i > 0 && evs[i-1].s != e.s {
			switches++
		}
	}
	payload := casePayload(K, store, progs, sched)
	out.Pending("")

	// observation of the real code
	var obs string
	rowsSeen, stateSeen := false, false
	if cr.hung {
		obs = "hang"
	} else {
		var ss []string
		for s := range progs {
			var os_ []string
			for j, st := range progs[s] {
				os_ = append(os_, observation(st, cr.res[s][j]))
				if (st.Kind == "read" || st.Kind == "pq") && cr.res[s][j].rows > 0 {
					rowsSeen = true
				}
				if st.Kind != "read" && st.Kind != "vol" && st.Kind != "pq" {
					stateSeen = true
				}
				out.Stat("stmt:" + st.Kind)
				if st.Kind == "pq" {
					q := st.Q
					if st.Desc {
						q += "-desc"
					}
					out.Stat("pq:" + q)
				}
				out.Stat("class:" + cr.res[s][j].class)
			}
			ss = append(ss, fmt.Sprintf("(%s q=%d cs=%d)", strings.Join(os_, " "), cr.sessQ[s], cr.sessCS[s]))
			if len(os_) == 0 {
				ss[len(ss)-1] = fmt.Sprintf("(q=%d cs=%d)", cr.sessQ[s], cr.sessCS[s])
			}
		}
		obs = fmt.Sprintf("%s Q=%d CS=%d running=%d", strings.Join(ss, " "), cr.q, cr.cs, cr.running)
	}
	id := out.Case(payload, obs, switches >= 4*K && rowsSeen && stateSeen)
	out.Stat("batches")
	if idb != nil {
		out.Stat("batches:idx")
	}
	out.StatN("schedule:events", len(evs))
	out.StatN("schedule:switches", switches)
	out.StatN("monitor:samples", len(cr.samples))
	if cr.hung {
		out.OracleFail(id, "-", "the concurrent phase did not finish within 120 s (deadlock or livelock)")
		out.Close()
		os.Exit(0)
	}

	// model-free oracle ---------------------------------------------------------------------
	// (0) what statements run ALONE on a pristine engine did (idx stream), then the sequential phases
	nAlone := len(col.fails)
	for _, l := range col.fails {
		out.OracleFail(id, "-", l)
	}
	for _, l := range leaks {
		out.OracleFail(id, "-", "session state is not private: "+l)
	}
	for _, l := range seqFails {
		out.OracleFail(id, "-", "read-only statements interfere already in a sequential schedule: "+l)
	}
	// (a) every statement returns what it returned when its session ran alone
	for s := range progs {
		for j, st := range progs[s] {
			e := cr.res[s][j]
			if st.Kind == "vol" {
				if e.class != "ok" {
					out.OracleFail(id, "-", fmt.Sprintf("session %d statement %d %q failed under concurrency: %s", s, j, st.SQL, e.obs))
				}
				continue
			}
			if o := observation(st, e); o != st.Obs || e.sel != st.Sel || e.warn != st.Warn {
				out.OracleFail(id, "-", fmt.Sprintf("session %d statement %d %q: alone %s sel=%v warn=%d, concurrently %s sel=%v warn=%d (%s)",
					s, j, st.SQL, trunc(st.Obs, 200), st.Sel, st.Warn, trunc(o, 200), e.sel, e.warn, trunc(e.obs, 200)))
			}
		}
	}
	// (b) registries at quiescence
	nStmt, nSel := 0, 0
	for s := range progs {
		nStmt += len(progs[s])
		ns := 0
		for j := range progs[s] {
			if cr.res[s][j].sel {
				ns++
			}
		}
		nSel += ns
		if cr.sessQ[s] != int64(len(progs[s])) || cr.sessCS[s] != int64(ns) {
			out.OracleFail(id, "-", fmt.Sprintf("session %d status counters: Questions=%d (ran %d statements) Com_select=%d (%d selects)", s, cr.sessQ[s], len(progs[s]), cr.sessCS[s], ns))
		}
	}
	if cr.q != int64(nStmt) || cr.cs != int64(nSel) || cr.running != 0 || cr.conn != int64(K) {
		out.OracleFail(id, "-", fmt.Sprintf("global registries at quiescence: Questions +%d (want %d) Com_select +%d (want %d) Threads_running %+d (want 0) Threads_connected +%d (want %d)",
			cr.q, nStmt, cr.cs, nSel, cr.running, cr.conn, K))
	}
	if len(cr.procsEnd) != K {
		out.OracleFail(id, "-", fmt.Sprintf("process list has %d entries at quiescence, %d sessions are connected", len(cr.procsEnd), K))
	}
	for _, p := range cr.procsEnd {
		if p.Command != sql.ProcessCommandSleep || p.Query != "" {
			out.OracleFail(id, "-", fmt.Sprintf("process list entry of connection %d at quiescence: command %s query %q", p.Connection, p.Command, p.Query))
		}
	}
	// (c) registry samples taken while the sessions ran: between two ticks the number of running
	// statements lies between those certainly inside their bracket and those possibly inside it,
	// and a Query entry shows a statement of that very session that was possibly running
	for _, sm := range cr.samples {
		lo, hi := 0, 0
		for s := range progs {
			for _, e := range cr.res[s] {
				// (the engine itself ends the query when the tracked iterator is exhausted or closed —
				// sql/plan/process.go AddTrackedRowIter — so a statement is certainly "running" only
				// between BeginQuery and the return of Engine.Query)
				if e.ticks[1] < sm.ta && e.ticks[2] > sm.tb {
					lo++
				}
				if e.ticks[0] < sm.tb && e.ticks[4] > sm.ta {
					hi++
				}
			}
		}
		nq := 0
		for _, p := range sm.procs {
			if p.Command != sql.ProcessCommandQuery {
				continue
			}
			nq++
			s := int(p.Connection) - 100
			ok := false
			if s >= 0 && s < K {
				for j, e := range cr.res[s] {
					if progs[s][j].SQL == p.Query && e.ticks[0] < sm.tb && e.ticks[4] > sm.ta {
						ok = true
					}
				}
			}
			if !ok {
				out.OracleFail(id, "-", fmt.Sprintf("process list sample shows connection %d running %q, which that session was not running then", p.Connection, p.Query))
			}
		}
		if int(sm.running) < lo || int(sm.running) > hi || nq < lo || nq > hi || len(sm.procs) != K {
			out.OracleFail(id, "-", fmt.Sprintf("registry sample between ticks %d and %d: Threads_running=%d, %d Query entries, %d entries; %d..%d statements were running, %d sessions connected",
				sm.ta, sm.tb, sm.running, nq, len(sm.procs), lo, hi, K))
		}
	}
	// (d) the store is unchanged — logically (table contents, catalog) and physically (stored
	// partitions, index storage, bit for bit) — and the engine still answers like a fresh one
	if after := w.dump(db); after != before {
		out.OracleFail(id, "-", "table contents / catalog differ after the read-only batch")
	}
	physAfter := w.phys()
	if !samePhys(physBefore, physAfter) {
		out.OracleFail(id, "-", "the stored partitions / index storage differ after the concurrent read-only phase: "+physDiff(physBefore, physAfter))
	}
	r3, pf3 := seqRun(w, progs, 300, "sequential run on the engine that served the concurrent phase")
	for _, l := range pf3 {
		out.OracleFail(id, "-", "read-only statements interfere already in a sequential schedule: "+l)
	}
	for s := range progs {
		for j, st := range progs[s] {
			if st.Kind == "vol" {
				continue
			}
			if o := observation(st, r3[s][j]); o != st.Obs {
				out.OracleFail(id, "-", fmt.Sprintf("after the concurrent phase, session program %d statement %d %q run alone gives %s, on a fresh engine %s", s, j, st.SQL, trunc(o, 200), trunc(st.Obs, 200)))
			}
		}
	}
	// (e) process-list snapshots taken in any phase of this batch stayed what they were
	col.closeWorld(w)
	for _, l := range col.fails[nAlone:] {
		out.OracleFail(id, "-", l)
	}
	out.StatN("pq:alone-on-pristine-engine", col.refs)
	out.StatN("snapshots:taken", col.taken)
	out.StatN("snapshots:re-read", col.rechecks)
	out.StatN("snapshots:changed", col.changed)
	for k, v := range col.shapes {
		out.StatN("snapshot-shape:"+k, v)
	}
	// (f) data races reported while this batch ran
	if txt := rl.fresh(); txt != "" {
		for _, sum := range raceSummaries(txt) {
			out.Stat("race-report")
			out.OracleFail(id, raceRegion(sum, progs), "data race: "+sum)
		}
		os.WriteFile(fmt.Sprintf("%s/race-batch-%s.txt", a.OutDir, id), []byte(txt), 0o644)
	}
	return nil
}

// collector gathers what the worlds of one batch found before the case has an id.
type collector struct {
	fails    []string
	refs     int // pq statements run alone on a pristine engine
	changed  int // process-list snapshots that changed after they were taken
	taken    int
	rechecks int
	shapes   map[string]int
}

// closeWorld re-reads every process-list snapshot taken on w and collects the failures.
func (c *collector) closeWorld(w *world) {
	w.snaps.recheckAll("at quiescence")
	fails, taken, rechecks, changed, shapes := w.snaps.drain()
	c.fails = append(c.fails, fails...)
	c.taken += taken
	c.rechecks += rechecks
	c.changed += changed
	if c.shapes == nil {
		c.shapes = map[string]int{}
	}
	for k, v := range shapes {
		c.shapes[k] += v
	}
}

type worldSpec struct {
	db  *sqlgen.Db
	idb *idxDb
}

func (s worldSpec) build() *world { return newWorld(s.db, s.idb) }

// casePayload: (batch K (progs …) (sched …)), or (ibatch K (store …) (progs …) (sched …)) for a
// batch of the idx stream (the physical storage the concurrent phase started from).
func casePayload(K int, store string, progs [][]*stmt, sched []string) string {
	var ps []string
	for s := range progs {
		ps = append(ps, hx.ListOf(progs[s], func(st *stmt) string { return st.sexp() }))
	}
	if store != "" {
		return fmt.Sprintf("(ibatch %d %s (progs %s) (sched%s))", K, store, strings.Join(ps, " "), sp(sched))
	}
	return fmt.Sprintf("(batch %d (progs %s) (sched%s))", K, strings.Join(ps, " "), sp(sched))
}

// resolvesInfoSchema: the statement makes the planbuilder resolve an information_schema table
// (planbuilder.buildResolvedTable then calls sql.CatalogTable.AssignCatalog on the shared table object).
func (s *stmt) resolvesInfoSchema() bool {
	return strings.Contains(strings.ToLower(s.SQL), "information_schema.")
}

// raceRegion names the defect class of a race report. The one listed class: both racing accesses
// are methods of information_schema table types, one of them AssignCatalog, and at least two
// sessions of the batch resolve information_schema tables. Everything else is unclassified.
func raceRegion(summary string, progs [][]*stmt) string {
	sessions := 0
	for _, prog := range progs {
		for _, st := range prog {
			if st.resolvesInfoSchema() {
				sessions++
				break
			}
		}
	}
	parts := strings.Split(summary, " / ")
	assign := false
	for _, p := range parts {
		f := strings.Fields(p)
		if len(f) != 2 || !strings.HasPrefix(f[1], "sql/information_schema.(*") {
			return "-"
		}
		if strings.HasSuffix(f[1], ").AssignCatalog") {
			assign = true
		}
	}
	if len(parts) == 2 && assign && sessions >= 2 {
		return "infoschema_assign_catalog_race"
	}
	return "-"
}

func trunc(s string, n int) string {
	if len(s) > n {
		for n > 0 && !utf8.RuneStart(s[n]) {
			n--
		}
		return s[:n] + "…"
	}
	return s
}

var _ = sqle.NewProcessList

// ---------------------------------------------------------------------------------------------
// Parent / child plumbing. The child (race detector options set) does the work and writes one JSON
// line per event to <out>/events.jsonl, synced before every concurrent phase; the parent turns
// them into cases.txt / impl.txt / oracle.txt / stats.json. When the child dies in the middle of a
// batch (a Go runtime `fatal error` such as "concurrent map iteration and map write" cannot be
// recovered), the batch it was running becomes a failing case.

type event struct {
	T       string `json:"t"` // case | fail | stat | pending
	Payload string `json:"payload,omitempty"`
	Obs     string `json:"obs,omitempty"`
	NT      bool   `json:"nt,omitempty"`
	ID      string `json:"id,omitempty"`
	Tag     string `json:"tag,omitempty"`
	Desc    string `json:"desc,omitempty"`
	Key     string `json:"key,omitempty"`
	N       int    `json:"n,omitempty"`
}

type sink struct {
	f *os.File
	n int
}

func newSink(dir string) *sink {
	os.MkdirAll(dir, 0o755)
	f, err := os.Create(dir + "/events.jsonl")
	if err != nil {
		panic(err)
	}
	return &sink{f: f}
}

func (s *sink) put(e event) {
	b, _ := json.Marshal(e)
	s.f.Write(append(b, '\n'))
}
func (s *sink) Case(payload, obs string, nt bool) string {
	s.n++
	s.put(event{T: "case", Payload: payload, Obs: obs, NT: nt})
	return strconv.Itoa(s.n)
}
func (s *sink) OracleFail(id, tag, desc string) {
	s.put(event{T: "fail", ID: id, Tag: tag, Desc: desc})
}
func (s *sink) Stat(key string)         { s.put(event{T: "stat", Key: key, N: 1}) }
func (s *sink) StatN(key string, n int) { s.put(event{T: "stat", Key: key, N: n}) }
func (s *sink) Pending(payload string)  { s.put(event{T: "pending", Payload: payload}); s.f.Sync() }
func (s *sink) Close()                  { s.f.Sync(); s.f.Close() }

func parent(a hx.RunArgs) error {
	os.MkdirAll(a.OutDir, 0o755)
	cmd := exec.Command(os.Args[0], os.Args[1:]...)
	cmd.Env = append(os.Environ(), "C36_CHILD=1", "GORACE=log_path="+a.OutDir+"/race halt_on_error=0 exitcode=0 history_size=3")
	var errBuf bytes.Buffer
	cmd.Stdout, cmd.Stderr = os.Stdout, io.MultiWriter(os.Stderr, &errBuf)
	runErr := cmd.Run()

	out := hx.NewOut(a.OutDir)
	defer out.Close()
	out.Rule = "one case = one batch: a generated database (sqlgen), K sessions x M statements (table queries, catalog reads, failing statements, " +
		"user-variable / current-database / session-status / warning statements, volatile registry reads), run alone and then concurrently " +
		"(K goroutines, handler-style BeginQuery/EndQuery bracket, random yields, a monitor sampling the registries) under the race detector; " +
		"batches of the idx stream add tables with a primary key and a secondary index and statements over them (reverse / forward primary-key " +
		"index scans, secondary-index point / range lookups and ordered scans, full scans, aggregates) whose result the Lean model computes from " +
		"the physical storage dump in the payload, each first run alone on a pristine engine, then in sequential schedules (programs one after the " +
		"other, statement-level interleaving) and concurrently, with the stored partitions / index storage dumped around every statement of the " +
		"sequential phases and around the concurrent phase; process-list snapshots are taken in every registry shape and re-read later; " +
		"a batch is non-trivial when the observed schedule switches sessions at least 4*K times, at least one table query returned rows and at least one session-state statement ran"
	f, err := os.Open(a.OutDir + "/events.jsonl")
	if err != nil {
		if runErr != nil {
			return fmt.Errorf("child failed before writing events: %v", runErr)
		}
		return err
	}
	defer f.Close()
	sc := bufio.NewScanner(f)
	sc.Buffer(make([]byte, 1<<20), 1<<28)
	pending := ""
	for sc.Scan() {
		var e event
		if err := json.Unmarshal(sc.Bytes(), &e); err != nil {
			continue // a torn last line of a child that died
		}
		switch e.T {
		case "case":
			out.Case(e.Payload, e.Obs, e.NT)
		case "fail":
			out.OracleFail(e.ID, e.Tag, e.Desc)
		case "stat":
			out.StatN(e.Key, e.N)
		case "pending":
			pending = e.Payload
		}
	}
	if runErr == nil {
		return nil
	}
	if pending == "" || strings.Contains(errBuf.String(), "harness defect:") || strings.Contains(errBuf.String(), "harness panic:") {
		return fmt.Errorf("child failed (not while engine sessions ran concurrently, or by a harness defect): %v", runErr)
	}
	// the process died while the sessions of this batch were running concurrently
	msg := "process died"
	for _, ln := range strings.Split(errBuf.String(), "\n") {
		if strings.HasPrefix(ln, "fatal error:") || strings.HasPrefix(ln, "panic:") {
			msg = strings.TrimSpace(ln)
			break
		}
	}
	id := out.Case(pending, "died: "+msg, true)
	out.OracleFail(id, "-", "the engine process died while the read-only sessions of this batch ran concurrently: "+msg)
	out.Stat("child-died")
	return nil
}
