package main

import (
	"fmt"
	"go/ast"
	"go/token"
	"sort"
	"strconv"
	"strings"

	"github.com/dolthub/go-mysql-server/verifharness/hx"
)

func selText(e ast.Expr) string {
	switch t := e.(type) {
	case *ast.Ident:
		return t.Name
	case *ast.SelectorExpr:
		return selText(t.X) + "." + t.Sel.Name
	case *ast.CallExpr:
		return selText(t.Fun) + "()"
	case *ast.StarExpr:
		return "*" + selText(t.X)
	}
	return "?"
}

// lockCoverage splits the methods of type recv into those that take the mutex field `mu` of the
// receiver (Lock or RLock, released by a deferred Unlock/RUnlock) and those that do not.
func lockCoverage(src *hx.Src, recv string) (locked, unlocked []string, err error) {
	found := false
	for _, d := range src.File.Decls {
		fd, ok := d.(*ast.FuncDecl)
		if !ok || fd.Recv == nil || len(fd.Recv.List) != 1 || hx.RecvName(fd.Recv.List[0].Type) != recv || fd.Body == nil {
			continue
		}
		found = true
		rn := "_"
		if len(fd.Recv.List[0].Names) == 1 {
			rn = fd.Recv.List[0].Names[0].Name
		}
		lock, unlock := false, false
		ast.Inspect(fd.Body, func(n ast.Node) bool {
			switch t := n.(type) {
			case *ast.FuncLit:
				return false
			case *ast.ExprStmt:
				if ce, ok := t.X.(*ast.CallExpr); ok {
					if fn := selText(ce.Fun); fn == rn+".mu.Lock" || fn == rn+".mu.RLock" {
						lock = true
					}
				}
			case *ast.DeferStmt:
				if fn := selText(t.Call.Fun); fn == rn+".mu.Unlock" || fn == rn+".mu.RUnlock" {
					unlock = true
				}
			}
			return true
		})
		if lock && unlock {
			locked = append(locked, fd.Name.Name)
		} else {
			unlocked = append(unlocked, fd.Name.Name)
		}
	}
	if !found {
		return nil, nil, fmt.Errorf("%s: no methods of %s found", src.Path, recv)
	}
	sort.Strings(locked)
	sort.Strings(unlocked)
	return locked, unlocked, nil
}

func extract(a hx.ExtractArgs) error {
	lf := hx.NewLeanFile("Gms.Generated.C36", "processlist.go", "engine.go", "sql/core.go", "sql/memory.go", "sql/analyzer/catalog.go",
		"sql/variables/status_variables.go", "server/handler.go", "sql/information_schema/information_schema.go", "sql/planbuilder/from.go", "memory/table.go")

	// 1. the shared registries and their locks
	for _, x := range []struct{ file, recv, name string }{
		{"processlist.go", "ProcessList", "processList"},
		{"sql/memory.go", "MemoryManager", "memoryManager"},
		{"sql/analyzer/catalog.go", "Catalog", "catalog"},
	} {
		src, err := hx.ParseSrc(a.Repo, x.file)
		if err != nil {
			return err
		}
		locked, unlocked, err := lockCoverage(src, x.recv)
		if err != nil {
			return err
		}
		lf.Comment(fmt.Sprintf("%s: methods of %s that take / do not take the receiver's mutex", x.file, x.recv))
		lf.DefStringList(x.name+"MethodsLocked", locked)
		lf.DefStringList(x.name+"MethodsUnlocked", unlocked)
	}

	// 2. status counters are atomic
	core, err := hx.ParseSrc(a.Repo, "sql/core.go")
	if err != nil {
		return err
	}
	valType := ""
	for _, d := range core.File.Decls {
		gd, ok := d.(*ast.GenDecl)
		if !ok || gd.Tok != token.TYPE {
			continue
		}
		for _, sp := range gd.Specs {
			ts := sp.(*ast.TypeSpec)
			st, ok := ts.Type.(*ast.StructType)
			if !ok || ts.Name.Name != "MutableStatusVarValue" {
				continue
			}
			for _, f := range st.Fields.List {
				for _, n := range f.Names {
					if n.Name == "Val" {
						valType = selText(f.Type)
					}
				}
			}
		}
	}
	if valType == "" {
		return fmt.Errorf("sql/core.go: MutableStatusVarValue.Val not found")
	}
	lf.DefString("statusValueType", valType)
	callsIn := func(src *hx.Src, recv, name string) ([]string, error) {
		fd, err := src.Func(recv, name)
		if err != nil {
			return nil, err
		}
		var calls []string
		ast.Inspect(fd.Body, func(n ast.Node) bool {
			if ce, ok := n.(*ast.CallExpr); ok {
				calls = append(calls, selText(ce.Fun))
			}
			return true
		})
		return calls, nil
	}
	for _, m := range []string{"Increment", "Set", "Value"} {
		calls, err := callsIn(core, "MutableStatusVarValue", m)
		if err != nil {
			return err
		}
		var keep []string
		for _, c := range calls {
			if strings.HasPrefix(c, "s.Val.") {
				keep = append(keep, c)
			}
		}
		lf.DefStringList("statusValue"+m+"Calls", keep)
	}
	calls, err := callsIn(core, "", "IncrementStatusVariable")
	if err != nil {
		return err
	}
	lf.DefStringList("incrementStatusVariableCalls", calls)

	// 3. a session gets its own counters: NewSessionMap builds a fresh value per session
	sv, err := hx.ParseSrc(a.Repo, "sql/variables/status_variables.go")
	if err != nil {
		return err
	}
	fd, err := sv.Func("globalStatusVariables", "NewSessionMap")
	if err != nil {
		return err
	}
	freshVal := false
	ast.Inspect(fd.Body, func(n ast.Node) bool {
		cl, ok := n.(*ast.CompositeLit)
		if !ok || selText(cl.Type) != "sql.MutableStatusVarValue" {
			return true
		}
		for _, e := range cl.Elts {
			if kv, ok := e.(*ast.KeyValueExpr); ok && selText(kv.Key) == "Val" {
				if u, ok := kv.Value.(*ast.UnaryExpr); ok && u.Op == token.AND && selText(u.X) == "val" {
					freshVal = true // &val, val being the copy bound by the type switch
				}
			}
		}
		return true
	})
	lf.DefBool("sessionStatusMapFreshValue", freshVal)

	// 4. what Engine.QueryWithBindings counts
	engSrc, err := hx.ParseSrc(a.Repo, "engine.go")
	if err != nil {
		return err
	}
	qwb, err := engSrc.Func("Engine", "QueryWithBindings")
	if err != nil {
		return err
	}
	type inc struct {
		name  string
		delta string
		guard string
		first bool
	}
	var incs []inc
	var walk func(n ast.Node, guard string)
	walk = func(n ast.Node, guard string) {
		switch t := n.(type) {
		case nil:
			return
		case *ast.BlockStmt:
			for _, s := range t.List {
				walk(s, guard)
			}
		case *ast.IfStmt:
			walk(t.Body, strings.TrimSpace(guard+" "+engSrc.Text(t.Cond)))
			if t.Else != nil {
				walk(t.Else, strings.TrimSpace(guard+" !("+engSrc.Text(t.Cond)+")"))
			}
		case *ast.ExprStmt:
			if ce, ok := t.X.(*ast.CallExpr); ok && selText(ce.Fun) == "sql.IncrementStatusVariable" && len(ce.Args) == 3 {
				nm, _ := strconv.Unquote(engSrc.Text(ce.Args[1]))
				incs = append(incs, inc{name: nm, delta: engSrc.Text(ce.Args[2]), guard: guard})
			}
		}
	}
	walk(qwb.Body, "")
	// is the Questions increment the first statement after the defers?
	firstStmt := ""
	for _, s := range qwb.Body.List {
		if _, ok := s.(*ast.DeferStmt); ok {
			continue
		}
		firstStmt = engSrc.Text(s)
		break
	}
	var b strings.Builder
	b.WriteString("def queryCounters : List (String × String × String) := [")
	for i, x := range incs {
		if i > 0 {
			b.WriteString(", ")
		}
		fmt.Fprintf(&b, "(%s, %s, %s)", hx.LeanString(x.name), hx.LeanString(x.delta), hx.LeanString(x.guard))
	}
	b.WriteString("]\n")
	lf.Raw(b.String())
	lf.DefString("queryFirstStatement", firstStmt)

	// 5. Threads_running in BeginQuery / EndQuery
	pl, err := hx.ParseSrc(a.Repo, "processlist.go")
	if err != nil {
		return err
	}
	b.Reset()
	b.WriteString("def threadsRunningEffects : List (String × String) := [")
	n := 0
	for _, m := range []string{"BeginQuery", "EndQuery"} {
		fd, err := pl.Func("ProcessList", m)
		if err != nil {
			return err
		}
		ast.Inspect(fd.Body, func(nd ast.Node) bool {
			if ce, ok := nd.(*ast.CallExpr); ok && selText(ce.Fun) == "sql.StatusVariables.IncrementGlobal" && len(ce.Args) == 2 {
				if nm, _ := strconv.Unquote(pl.Text(ce.Args[0])); nm == "Threads_running" {
					if n > 0 {
						b.WriteString(", ")
					}
					n++
					fmt.Fprintf(&b, "(%s, %s)", hx.LeanString(m), hx.LeanString(strings.ReplaceAll(pl.Text(ce.Args[1]), " ", "")))
				}
			}
			return true
		})
	}
	b.WriteString("]\n")
	lf.Raw(b.String())

	// 6. the bracket in the server handler: BeginQuery, then a deferred EndQuery
	hs, err := hx.ParseSrc(a.Repo, "server/handler.go")
	if err != nil {
		return err
	}
	dq, err := hs.Func("Handler", "doQuery")
	if err != nil {
		return err
	}
	var order []string
	ast.Inspect(dq.Body, func(nd ast.Node) bool {
		switch t := nd.(type) {
		case *ast.FuncLit:
			return false
		case *ast.DeferStmt:
			if fn := selText(t.Call.Fun); strings.HasSuffix(fn, "ProcessList.EndQuery") {
				order = append(order, "defer EndQuery")
			}
			return false
		case *ast.CallExpr:
			fn := selText(t.Fun)
			switch {
			case strings.HasSuffix(fn, "ProcessList.BeginQuery"):
				order = append(order, "BeginQuery")
			case strings.HasSuffix(fn, "ProcessList.EndQuery"):
				order = append(order, "EndQuery")
			}
		}
		return true
	})
	lf.DefStringList("handlerBracket", order)

	// 7. the code shape of the listed finding infoschema_assign_catalog_race
	is, err := hx.ParseSrc(a.Repo, "sql/information_schema/information_schema.go")
	if err != nil {
		return err
	}
	ac, err := is.Func("InformationSchemaTable", "AssignCatalog")
	if err != nil {
		return err
	}
	var body []string
	for _, st := range ac.Body.List {
		body = append(body, is.Text(st))
	}
	lf.DefStringList("infoSchemaAssignCatalogBody", body)
	fr, err := hx.ParseSrc(a.Repo, "sql/planbuilder/from.go")
	if err != nil {
		return err
	}
	brt, err := fr.Func("Builder", "buildResolvedTable")
	if err != nil {
		return err
	}
	assigns := false
	ast.Inspect(brt.Body, func(nd ast.Node) bool {
		if ce, ok := nd.(*ast.CallExpr); ok && strings.HasSuffix(selText(ce.Fun), ".AssignCatalog") {
			assigns = true
		}
		return true
	})
	lf.DefBool("buildResolvedTableAssignsCatalog", assigns)

	// 8. the storage all sessions share and the process-list snapshots (facts2.go)
	if err := extractStore(a, lf); err != nil {
		return err
	}
	return lf.Write(a.Out)
}
