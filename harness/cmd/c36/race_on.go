//go:build race

package main

// raceEnabled reports whether this binary was built with the Go race detector (props/C36.json
// sets "race": true, so tools/check.py passes -race).
const raceEnabled = true
