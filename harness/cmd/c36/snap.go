// Process-list snapshots are values: what `ProcessList.Processes()` returned must not change after
// the call, whatever the sessions do next. (`SHOW PROCESSLIST` and information_schema.PROCESSLIST
// render the snapshot without holding the process list's lock, Engine.Close walks it.)
//
// A snapshot is taken at the points of a statement where the registry is in its different shapes —
// analysed and registered with NO partition in flight (after Engine.Query returned, before the
// first row is pulled), a partition in flight (after the first row), all partitions done (after the
// last row), query ended — by the session itself (a deterministic, sequential observation: the
// snapshot is re-read after the very statement moved on) and by the monitor goroutine of the
// concurrent phase (which re-reads older snapshots while the sessions keep running, so that a
// snapshot that shares a map with the live registry is also a data race the detector reports).
package main

import (
	"fmt"
	"sort"
	"strings"
	"sync"

	"github.com/dolthub/go-mysql-server/sql"
)

type snapRec struct {
	procs []sql.Process
	txt   string // rendering at the moment the snapshot was taken
	when  string
	bad   bool
}

type snapBook struct {
	mu       sync.Mutex
	recs     []*snapRec
	fails    []string
	taken    int
	rechecks int
	changed  int            // snapshots that changed after they were taken
	shapes   map[string]int // registry shapes seen in snapshots: idle | registered-no-partition | partition-in-flight
}

// renderSnap reads EVERYTHING reachable from a snapshot (every map included), canonically ordered;
// start times, kill functions and query pids are not part of the rendering.
func renderSnap(procs []sql.Process) (string, []string) {
	var shapes []string
	ps := make([]string, 0, len(procs))
	for _, p := range procs {
		var ts []string
		for name, tp := range p.Progress {
			var parts []string
			for pn, pp := range tp.PartitionsProgress {
				parts = append(parts, fmt.Sprintf("%s=%s:%d/%d", pn, pp.Name, pp.Done, pp.Total))
			}
			sort.Strings(parts)
			if len(parts) == 0 {
				shapes = append(shapes, "registered-no-partition")
			} else {
				shapes = append(shapes, "partition-in-flight")
			}
			ts = append(ts, fmt.Sprintf("%s=%s:%d/%d[%s]", name, tp.Name, tp.Done, tp.Total, strings.Join(parts, ",")))
		}
		sort.Strings(ts)
		if len(ts) == 0 {
			shapes = append(shapes, "idle")
		}
		ps = append(ps, fmt.Sprintf("%06d %s %q %s %s %s {%s}", p.Connection, p.Command, p.Query, p.Host, p.User, p.Database, strings.Join(ts, " ")))
	}
	sort.Strings(ps)
	return strings.Join(ps, "\n"), shapes
}

func (b *snapBook) take(pl sql.ProcessList, when string) *snapRec {
	procs := pl.Processes()
	txt, shapes := renderSnap(procs)
	rc := &snapRec{procs: procs, txt: txt, when: when}
	b.mu.Lock()
	b.recs = append(b.recs, rc)
	b.taken++
	if b.shapes == nil {
		b.shapes = map[string]int{}
	}
	for _, s := range shapes {
		b.shapes[s]++
	}
	b.mu.Unlock()
	return rc
}

// recheck re-reads a snapshot; the maps are read BEFORE the book's mutex is taken (reading them
// under it would order every such read with every session's next use of the book and hide most
// races on a map shared with the live registry).
func (b *snapBook) recheck(rc *snapRec, stage string) {
	txt, _ := renderSnap(rc.procs)
	b.mu.Lock()
	defer b.mu.Unlock()
	b.rechecks++
	if txt != rc.txt && !rc.bad {
		rc.bad = true
		b.changed++
		if len(b.fails) >= 3 { // a few per engine are enough; the count goes to the statistics
			return
		}
		b.fails = append(b.fails, fmt.Sprintf("a ProcessList.Processes() snapshot changed after it was taken (taken %s; re-read %s): when taken {%s} re-read {%s}",
			rc.when, stage, diffLines(rc.txt, txt), diffLines(txt, rc.txt)))
	}
}

// recheckAll re-reads every snapshot of the book (called at quiescence).
func (b *snapBook) recheckAll(stage string) {
	b.mu.Lock()
	recs := append([]*snapRec(nil), b.recs...)
	b.mu.Unlock()
	for _, rc := range recs {
		b.recheck(rc, stage)
	}
}

// recent returns the last n snapshots.
func (b *snapBook) recent(n int) []*snapRec {
	b.mu.Lock()
	defer b.mu.Unlock()
	if len(b.recs) <= n {
		return append([]*snapRec(nil), b.recs...)
	}
	return append([]*snapRec(nil), b.recs[len(b.recs)-n:]...)
}

// drain returns the failures found so far and forgets the snapshots.
func (b *snapBook) drain() (fails []string, taken, rechecks, changed int, shapes map[string]int) {
	b.mu.Lock()
	defer b.mu.Unlock()
	fails, taken, rechecks, changed, shapes = b.fails, b.taken, b.rechecks, b.changed, b.shapes
	b.recs, b.fails, b.taken, b.rechecks, b.changed, b.shapes = nil, nil, 0, 0, 0, nil
	return
}

// diffLines: the lines of a that are not lines of b.
func diffLines(a, b string) string {
	have := map[string]bool{}
	for _, l := range strings.Split(b, "\n") {
		have[l] = true
	}
	var out []string
	for _, l := range strings.Split(a, "\n") {
		if !have[l] {
			out = append(out, l)
		}
	}
	return trunc(strings.Join(out, " ; "), 400)
}
