// C27 — Storing a value keeps it exactly or reports the change.
//
// extract: per-type min/max constants read from NumberTypeImpl_.Convert (go/ast) and the base-type dispatch; the
//
//	insert policy conditions of rowexec/insert.go (go/ast).
//
// run: stream A `(conv ty v)`: real sql.Type.Convert on (value, type) pairs + re-conversion of the result (idempotence);
//
//	stream B `(ins strict|ignore ty v)`: INSERT [IGNORE] of a literal into a column of the type on the real engine,
//	then SELECT and SHOW WARNINGS; `(sins …)`: string literals into integer columns; `(bins mode via ty (b …))` and
//	`(conv ty (b …))`: binary strings ([]byte) — see bin.go.
package main

import (
	"context"
	"fmt"
	"go/ast"
	"math/big"
	"os"
	"strings"

	"github.com/cockroachdb/apd/v3"

	"github.com/dolthub/go-mysql-server/sql"
	"github.com/dolthub/go-mysql-server/sql/types"
	"github.com/dolthub/go-mysql-server/verifharness/hx"
	"github.com/dolthub/go-mysql-server/verifharness/hx/eng"
)

func main() { hx.Main(extract, run) }

// ---------------------------------------------------------------------------------------------
// Facts

func extract(a hx.ExtractArgs) error {
	var b strings.Builder
	b.WriteString("/- GENERATED on every run by harness/cmd/c27 (extract) from the repository's working tree. Do not edit.\n")
	b.WriteString("   Sources: sql/types/number.go NumberTypeImpl_.Convert (go/ast), sql/rowexec/insert.go (go/ast). -/\n")
	b.WriteString("namespace Gms.Generated.C27\n\n")

	src, err := hx.ParseSrc(a.Repo, "sql/types/number.go")
	if err != nil {
		return err
	}
	fd, err := src.Func("NumberTypeImpl_", "Convert")
	if err != nil {
		return err
	}
	var sw *ast.SwitchStmt
	for _, st := range fd.Body.List {
		if s, ok := st.(*ast.SwitchStmt); ok && src.Text(s.Tag) == "t.baseType" {
			sw = s
		}
	}
	if sw == nil {
		return fmt.Errorf("NumberTypeImpl_.Convert: `switch t.baseType` not found")
	}
	// per base type: converter called, and the (condition, returned value, flag) of every range guard
	var rows []string
	for _, cc := range sw.Body.List {
		c := cc.(*ast.CaseClause)
		if len(c.List) != 1 {
			continue
		}
		name := strings.TrimPrefix(src.Text(c.List[0]), "sqltypes.")
		if strings.HasPrefix(name, "Float") {
			continue
		}
		conv := ""
		var guards []string
		for _, st := range c.Body {
			ast.Inspect(st, func(n ast.Node) bool {
				if call, ok := n.(*ast.CallExpr); ok {
					if id, ok := call.Fun.(*ast.Ident); ok && strings.HasPrefix(id.Name, "convertTo") && conv == "" {
						conv = id.Name
					}
				}
				return true
			})
			if is, ok := st.(*ast.IfStmt); ok && len(is.Body.List) == 1 {
				if ret, ok := is.Body.List[0].(*ast.ReturnStmt); ok && len(ret.Results) == 3 {
					cond := strings.Join(strings.Fields(src.Text(is.Cond)), " ")
					if strings.HasPrefix(cond, "num ") {
						guards = append(guards, fmt.Sprintf("(%s, %s, %s)", hx.LeanString(cond), hx.LeanString(src.Text(ret.Results[0])), hx.LeanString(src.Text(ret.Results[1]))))
					}
				}
			}
		}
		rows = append(rows, fmt.Sprintf("(%s, %s, [%s])", hx.LeanString(name), hx.LeanString(conv), strings.Join(guards, ", ")))
	}
	fmt.Fprintf(&b, "/-- `NumberTypeImpl_.Convert`: (base type, converter, [(range guard, returned value, flag)]) -/\n")
	fmt.Fprintf(&b, "def convertDispatch : List (String × String × List (String × String × String)) := [\n  %s]\n\n", strings.Join(rows, ",\n  "))

	// run time: the bounds the compiled code clamps to (Convert of a huge / tiny value)
	huge, _, _ := apd.NewFromString("99999999999999999999999999")
	tiny, _, _ := apd.NewFromString("-99999999999999999999999999")
	var brows []string
	for _, m := range modelledTypes() {
		if !strings.HasPrefix(m.payload, "(int ") {
			continue
		}
		hv, hf, herr := m.t.Convert(context.Background(), huge)
		tv, tf, terr := m.t.Convert(context.Background(), tiny)
		name := strings.TrimSuffix(strings.TrimPrefix(m.payload, "(int "), ")")
		brows = append(brows, fmt.Sprintf("(%s, %s, %d, %v, %s, %d, %v)", hx.LeanString(name), leanIntS(fmt.Sprint(hv)), hf, herr == nil, leanIntS(fmt.Sprint(tv)), tf, terr == nil))
	}
	fmt.Fprintf(&b, "/-- (type, Convert(+10^26) value, flag, no error, Convert(-10^26) value, flag, no error); flags: 0 InRange, 1 Overflow, 2 Underflow -/\n")
	fmt.Fprintf(&b, "def clampTable : List (String × Int × Nat × Bool × Int × Nat × Bool) := [\n  %s]\n\n", strings.Join(brows, ",\n  "))
	fmt.Fprintf(&b, "def flagValues : List Nat := [%d, %d, %d]\n\n", sql.InRange, sql.Overflow, sql.Underflow)

	// insert policy: the conditions of insertIter.Next
	isrc, err := hx.ParseSrc(a.Repo, "sql/rowexec/insert.go")
	if err != nil {
		return err
	}
	ifd, err := isrc.Func("insertIter", "Next")
	if err != nil {
		return err
	}
	var conds []string
	ast.Inspect(ifd.Body, func(n ast.Node) bool {
		if is, ok := n.(*ast.IfStmt); ok {
			c := strings.Join(strings.Fields(isrc.Text(is.Cond)), " ")
			if strings.Contains(c, "cErr") || strings.Contains(c, "i.ignore &&") || strings.Contains(c, "RoundingNumberType") {
				body := ""
				if len(is.Body.List) > 0 {
					body = strings.Join(strings.Fields(isrc.Text(is.Body.List[0])), " ")
					if len(body) > 60 {
						body = body[:60]
					}
				}
				conds = append(conds, fmt.Sprintf("(%s, %s)", hx.LeanString(c), hx.LeanString(body)))
			}
		}
		return true
	})
	fmt.Fprintf(&b, "/-- the conversion-related conditions of `insertIter.Next`, in source order: (condition, first statement of the branch) -/\n")
	fmt.Fprintf(&b, "def insertPolicy : List (String × String) := [\n  %s]\n", strings.Join(conds, ",\n  "))
	if err := extractBin(&b, src); err != nil {
		return err
	}
	b.WriteString("\nend Gms.Generated.C27\n")
	return os.WriteFile(a.Out, []byte(b.String()), 0o644)
}

func leanIntS(s string) string {
	if strings.HasPrefix(s, "-") {
		return "(" + s + ")"
	}
	return s
}

// ---------------------------------------------------------------------------------------------
// Values

type val struct {
	kind string // null i u d s  | other (stream B only: f t x)
	v    *big.Int
	sc   int
	str  string
	gov  interface{} // the Go value handed to the real code
	desc string
}

func (v val) payload() string {
	switch v.kind {
	case "null":
		return "null"
	case "i":
		return hx.List("i", v.v.String())
	case "u":
		return hx.List("u", v.v.String())
	case "d":
		return hx.List("d", v.v.String(), fmt.Sprint(v.sc))
	case "s":
		return hx.List("s", hx.HexS(v.str))
	case "b":
		return binPayload([]byte(v.str))
	}
	return hx.List("x", hx.HexS(v.desc))
}

func pow10(n int) *big.Int { return new(big.Int).Exp(big.NewInt(10), big.NewInt(int64(n)), nil) }

func mkI(r *hx.Rand, x int64) val {
	// the same value in a random Go signed type that can hold it
	var g interface{} = x
	switch r.Intn(6) {
	case 0:
		if x >= -128 && x <= 127 {
			g = int8(x)
		}
	case 1:
		if x >= -32768 && x <= 32767 {
			g = int16(x)
		}
	case 2:
		if x >= -2147483648 && x <= 2147483647 {
			g = int32(x)
		}
	case 3:
		g = int(x)
	case 4:
		if (x == 0 || x == 1) && r.Bool() { // the Go kind of a boolean expression's value
			g = x == 1
		}
	}
	return val{kind: "i", v: big.NewInt(x), gov: g}
}

func mkU(r *hx.Rand, x uint64) val {
	var g interface{} = x
	switch r.Intn(5) {
	case 0:
		if x <= 255 {
			g = uint8(x)
		}
	case 1:
		if x <= 65535 {
			g = uint16(x)
		}
	case 2:
		if x <= 4294967295 {
			g = uint32(x)
		}
	case 3:
		if x <= 9223372036854775807 { // a Go `uint` above MaxInt64 is converted by a wrapping int64(v): not a value the engine produces
			g = uint(x)
		}
	}
	return val{kind: "u", v: new(big.Int).SetUint64(x), gov: g}
}

func mkD(c *big.Int, sc int) val {
	d := new(apd.Decimal)
	d.Coeff.SetMathBigInt(new(big.Int).Abs(c))
	d.Negative = c.Sign() < 0
	d.Exponent = int32(-sc)
	return val{kind: "d", v: c, sc: sc, gov: d}
}

func mkS(s string) val { return val{kind: "s", str: s, gov: s} }

var interestingInts = []int64{0, 1, -1, 2, 69, 70, 99, 100, 127, 128, -128, -129, 255, 256, 1900, 1901, 2000, 2155, 2156, 32767, 32768, -32768, 65535, 65536,
	8388607, 8388608, -8388608, -8388609, 16777215, 16777216, 2147483647, 2147483648, -2147483648, -2147483649, 4294967295, 4294967296,
	9223372036854775807, -9223372036854775808, 9223372036854775806, -9223372036854775807}

func randInt64(r *hx.Rand) int64 {
	switch r.Intn(4) {
	case 0:
		return hx.Pick(r, interestingInts)
	case 1:
		return int64(r.Intn(41) - 20)
	case 2:
		k := uint(r.Intn(64))
		x := int64(r.U64() >> (63 - k) >> 1)
		if r.Bool() {
			x = -x
		}
		return x
	}
	return hx.Pick(r, interestingInts) + int64(r.Intn(5)-2)
}

func randUint64(r *hx.Rand) uint64 {
	switch r.Intn(4) {
	case 0:
		return hx.Pick(r, []uint64{0, 1, 255, 256, 65535, 65536, 4294967295, 4294967296, 9223372036854775807, 9223372036854775808, 18446744073709551615, 18446744073709551614})
	case 1:
		return uint64(r.Intn(300))
	case 2:
		return r.U64() >> uint(r.Intn(64))
	}
	return 9223372036854775808 + uint64(r.Intn(5)) - 2
}

func randDec(r *hx.Rand) val {
	sc := r.Intn(5)
	var c *big.Int
	switch r.Intn(5) {
	case 0: // integer-valued, around an interesting integer
		c = new(big.Int).Mul(big.NewInt(hx.Pick(r, interestingInts)), pow10(sc))
	case 1: // half-way cases around interesting integers
		c = new(big.Int).Mul(big.NewInt(hx.Pick(r, interestingInts)), pow10(sc))
		if sc > 0 {
			c.Add(c, new(big.Int).Mul(big.NewInt(int64(r.Intn(3)+4)), pow10(sc-1))) // .4 .5 .6
			if r.Bool() {
				c.Sub(c, pow10(sc))
			}
		}
	case 2: // beyond the 64-bit ranges
		c = new(big.Int).Mul(new(big.Int).SetUint64(r.U64()), big.NewInt(int64(r.Intn(40)+1)))
		if r.Bool() {
			c.Neg(c)
		}
	default:
		c = new(big.Int).SetUint64(r.U64() >> uint(r.Intn(64)))
		if r.Bool() {
			c.Neg(c)
		}
	}
	return mkD(c, sc)
}

var stringPool = []string{"", "0", "1", "-1", "+5", "12", "12abc", "abc", " 42", "42 ", "\t7", "-", "+", "--5", "+-5", "1.9", "-1.5", "1e3", "007",
	"9223372036854775807", "9223372036854775808", "-9223372036854775808", "-9223372036854775809", "18446744073709551615", "18446744073709551616",
	"99999999999999999999999", "-99999999999999999999999", "255", "256", "-129", "65536", " -12x", "1 2", "\x00", "٣"}

func randStr(r *hx.Rand) val {
	if r.Chance(2, 3) {
		return mkS(hx.Pick(r, stringPool))
	}
	alpha := "0123456789+- .\tabe"
	n := r.Intn(8)
	bs := make([]byte, n)
	for i := range bs {
		if r.Chance(3, 4) {
			bs[i] = "0123456789"[r.Intn(10)]
		} else {
			bs[i] = alpha[r.Intn(len(alpha))]
		}
	}
	return mkS(string(bs))
}

func randNumVal(r *hx.Rand, withStrings bool) val {
	k := r.Intn(12)
	switch {
	case k == 0:
		return val{kind: "null"}
	case k <= 4:
		return mkI(r, randInt64(r))
	case k <= 7:
		return mkU(r, randUint64(r))
	case k <= 9 || !withStrings:
		return randDec(r)
	}
	return randStr(r)
}

// ---------------------------------------------------------------------------------------------
// Types

type mty struct { // modelled type
	payload     string
	t           sql.Type
	withStrings bool
	sqlDecl     string // column declaration for the SQL-level stream ("" = not used there)
}

func modelledTypes() []mty {
	var out []mty
	for _, n := range []struct {
		name string
		t    sql.Type
		decl string
	}{{"i8", types.Int8, "tinyint"}, {"u8", types.Uint8, "tinyint unsigned"}, {"i16", types.Int16, "smallint"}, {"u16", types.Uint16, "smallint unsigned"},
		{"i24", types.Int24, "mediumint"}, {"u24", types.Uint24, "mediumint unsigned"}, {"i32", types.Int32, "int"}, {"u32", types.Uint32, "int unsigned"},
		{"i64", types.Int64, "bigint"}, {"u64", types.Uint64, "bigint unsigned"}} {
		out = append(out, mty{hx.List("int", n.name), n.t, true, n.decl})
	}
	for _, d := range [][2]uint8{{10, 0}, {10, 2}, {20, 4}, {65, 30}} {
		out = append(out, mty{hx.List("dec", fmt.Sprint(d[0]), fmt.Sprint(d[1]), "0"), types.MustCreateDecimalType(d[0], d[1]), false, ""})
		out = append(out, mty{hx.List("dec", fmt.Sprint(d[0]), fmt.Sprint(d[1]), "1"), types.MustCreateColumnDecimalType(d[0], d[1]), false, fmt.Sprintf("decimal(%d,%d)", d[0], d[1])})
	}
	out = append(out, mty{"year", types.Year, false, "year"})
	for _, n := range []uint8{1, 8, 17, 64} {
		out = append(out, mty{hx.List("bit", fmt.Sprint(n)), types.MustCreateBitType(n), true, fmt.Sprintf("bit(%d)", n)})
	}
	return out
}

func flagName(f sql.ConvertInRange) string {
	switch f {
	case sql.InRange:
		return "in"
	case sql.Overflow:
		return "over"
	case sql.Underflow:
		return "under"
	}
	return fmt.Sprintf("flag%d", f)
}

// one Convert call: canonical observation and the returned Go value
func convObs(t sql.Type, v interface{}) (string, interface{}, bool) {
	var res interface{}
	var flag sql.ConvertInRange
	var err error
	if p := hx.Safe(func() { res, flag, err = t.Convert(context.Background(), v) }); p != "" {
		return "crash", nil, false
	}
	e := "none"
	if err != nil {
		if sql.ErrTruncatedIncorrect.Is(err) {
			e = "trunc"
		} else {
			e = "fatal"
		}
	}
	val := "null"
	switch x := res.(type) {
	case nil:
	case *apd.Decimal:
		c := new(big.Int).Set(x.Coeff.MathBigInt())
		if x.Negative {
			c.Neg(c)
		}
		sc := -int(x.Exponent)
		if sc < 0 {
			c.Mul(c, pow10(-sc))
			sc = 0
		}
		val = fmt.Sprintf("d:%s:%d", c.String(), sc)
	default:
		val = fmt.Sprint(x)
	}
	if e == "fatal" {
		val = "-" // the value returned beside a fatal error is meaningless
	}
	return val + " " + flagName(flag) + " " + e, res, e != "fatal" && res != nil
}

func sqlLiteral(v val) (string, bool) {
	switch v.kind {
	case "null":
		return "NULL", true
	case "i", "u":
		return v.v.String(), true
	case "d":
		s := new(big.Int).Abs(v.v).String()
		if v.sc > 0 {
			for len(s) <= v.sc {
				s = "0" + s
			}
			s = s[:len(s)-v.sc] + "." + s[len(s)-v.sc:]
		}
		if v.v.Sign() < 0 {
			s = "-" + s
		}
		return s, true
	}
	return "", false
}

func run(a hx.RunArgs) error {
	out := hx.NewOut(a.OutDir)
	defer out.Close()
	out.Rule = "conv: real sql.Type.Convert on (Go value, type) pairs — nil, signed/unsigned Go integers of every width (type bounds ±1, powers of two), " +
		"*apd.Decimal (half-way cases, beyond 64 bits), numeric/malformed/over-long strings — for the 10 integer types, DECIMAL(p,s) column and non-column, YEAR, BIT(1/8/17/64), " +
		"and binary strings ([]byte: empty, 1..10 bytes, 8 bytes with the top bit set, type bounds, leading zero bytes) for the integer types and BIT, " +
		"followed by re-conversion of the returned value; bins: INSERT and INSERT IGNORE of binary strings (X'..' / 0x.. literals and values read from a VARBINARY column by INSERT … SELECT) into the integer and BIT columns; ins: INSERT and INSERT IGNORE of integer/decimal literals into columns of the integer, DECIMAL and YEAR types " +
		"on the real engine, then SELECT and SHOW WARNINGS; sins: INSERT and INSERT IGNORE of string literals (integer text at the type and 64-bit bounds and around 2^53/2^63/2^64, signed, padded, with trailing garbage, empty and sign-only) into the ten integer column types; a case is non-trivial when the value is non-NULL and not exactly storable or not an integer Go value"
	r := hx.NewRand(a.Seed).Fork() // Fork: hx.NewRand(seed+1) is hx.NewRand(seed) shifted by one draw
	nA, nB := 4000, 220
	if a.Thorough {
		nA, nB = 80000, 6000
	}
	mts := modelledTypes()

	convCase := func(m mty, v val) {
		if _, isBool := v.gov.(bool); isBool && m.payload == "year" {
			v.gov = v.v.Int64() // YEAR has no branch for a Go bool
		}
		o1, res, again := convObs(m.t, v.gov)
		o2 := "-"
		if again {
			o2, _, _ = convObs(m.t, res)
		}
		obs := o1 + " | " + o2
		nontrivial := v.kind != "null" && (v.kind != "i" && v.kind != "u" || !strings.Contains(o1, " in none"))
		if v.kind == "b" {
			out.Stat("conv-bin:" + strings.Join(strings.Fields(o1)[1:], "-"))
			if len(v.str) == 8 && v.str[0] >= 0x80 {
				out.Stat("conv-bin:8-bytes-top-bit")
			}
		}
		out.Case(hx.List("conv", m.payload, v.payload()), obs, nontrivial)
		out.Stat("conv:" + strings.Fields(strings.Trim(m.payload, "()"))[0])
		out.Stat("conv-obs:" + strings.Join(strings.Fields(o1)[1:], "-"))
	}
	// corpus: witnesses first
	convCase(mts[1], mkI(r, -1))                         // u8 ← -1: 255 Underflow
	convCase(mts[1], mkI(r, -300))                       // u8 ← -300: 212 Underflow
	convCase(mts[9], mkI(r, -1))                         // u64 ← -1
	convCase(mts[0], mkI(r, 128))                        // i8 ← 128: 127 Overflow
	convCase(mts[0], mkD(big.NewInt(1275), 1))           // i8 ← 127.5
	convCase(mts[8], mkD(bi("92233720368547758073"), 1)) // i64 ← MaxInt64 + 0.3
	convCase(mts[8], mkS("99999999999999999999"))        // i64 ← out-of-range string
	convCase(mts[22], mkI(r, -1))                        // bit(64) ← -1
	convCase(mts[20], mkD(big.NewInt(-50), 1))           // bit(8) ← -5.0
	convCase(mts[11], mkD(big.NewInt(123456), 3))        // decimal(10,0) column ← 123.456
	convCase(mts[13], mkD(bi("12345678901234"), 2))      // decimal(10,2) ← too large
	convCase(mts[18], mkI(r, 1900))                      // year ← 1900
	for _, m := range mts {
		for k := 0; k < nA; k++ {
			convCase(m, randNumVal(r, m.withStrings))
		}
		// binary strings ([]byte): integer types and BIT
		if binModelled(m) {
			for _, bs := range binCorpus {
				convCase(m, mkB(bs))
			}
			for k := 0; k < nA/8; k++ {
				convCase(m, mkB(randBin(r)))
			}
		}
		// values centred on the type's own bounds
		if strings.HasPrefix(m.payload, "(int ") {
			for _, mm := range []int{8, 16, 24, 32} {
				for _, d := range []int64{-2, -1, 0, 1, 2} {
					for _, base := range []int64{1 << (mm - 1), 1 << mm, -(1 << (mm - 1))} {
						convCase(m, mkI(r, base+d))
						convCase(m, mkD(new(big.Int).Add(new(big.Int).Mul(big.NewInt(base), big.NewInt(10)), big.NewInt(d*2+1)), 1))
					}
				}
			}
		}
	}

	// SQL level
	e := eng.New("d")
	ctx := e.Ctx()
	tblOf := map[int]string{}
	for i, m := range mts {
		if m.sqlDecl == "" {
			continue
		}
		tblOf[i] = fmt.Sprintf("t%d", i)
		e.MustExec(ctx, fmt.Sprintf("create table %s (id int primary key, c %s)", tblOf[i], m.sqlDecl))
	}
	insCase := func(i int, v val) error {
		m, tbl := mts[i], tblOf[i]
		lit, ok := sqlLiteral(v)
		if !ok || tbl == "" {
			return fmt.Errorf("harness: no SQL form for case %s %s", m.payload, v.payload())
		}
		sel := "select c from " + tbl
		if strings.HasPrefix(m.payload, "(bit ") {
			sel = "select cast(c as unsigned) from " + tbl // a BIT cell is sent as raw bytes
		}
		for _, mode := range []string{"strict", "ignore"} {
			if d := e.Query(ctx, "delete from "+tbl); d.Class() != "ok" {
				return fmt.Errorf("harness: delete from %s: %s", tbl, d.Class())
			}
			ins := "insert into "
			if mode == "ignore" {
				ins = "insert ignore into "
			}
			res := e.Query(ctx, fmt.Sprintf("%s%s values (1, %s)", ins, tbl, lit))
			obs := ""
			if res.Class() != "ok" {
				obs = "rejected"
				if res.Class() == "crash" || res.Class() == "timeout" {
					obs = res.Class()
				}
			} else {
				w := e.Query(ctx, "show warnings")
				rows := e.Query(ctx, sel)
				cell := "norow"
				if rows.Class() == "ok" && len(rows.Rows) == 1 {
					cell = rows.Rows[0][0]
					if strings.HasPrefix(cell, "-") && strings.Trim(cell[1:], "0.") == "" {
						cell = cell[1:] // negative zero is printed as zero
					}
					if rows.Null[0][0] {
						cell = "null"
					}
				}
				obs = fmt.Sprintf("stored %s warn=%v", cell, len(w.Rows) > 0)
			}
			out.Case(hx.List("ins", mode, m.payload, v.payload()), obs, v.kind != "null")
			out.Stat("ins:" + mode)
			out.Stat("ins-obs:" + strings.Fields(obs)[0])
		}
		return nil
	}
	// corpus: the witnesses of the listed findings, replayed on the real engine on every run
	for _, c := range []struct {
		ty int
		v  val
	}{
		{1, val{kind: "i", v: big.NewInt(-1)}},    // tinyint unsigned ← -1: IGNORE stores 255
		{5, val{kind: "i", v: big.NewInt(-1)}},    // mediumint unsigned ← -1
		{9, val{kind: "i", v: big.NewInt(-1)}},    // bigint unsigned ← -1
		{18, mkD(bi("100000000000000000000"), 0)}, // year ← 1e20: stored as 0000 silently
		{13, mkD(bi("12345678901234"), 2)},        // decimal(10,2) ← 123456789012.34: IGNORE stores 0.00
		{22, val{kind: "i", v: big.NewInt(-1)}},   // bit(64) ← -1: stored as 2^64-1 silently
		{20, mkD(big.NewInt(-50), 1)},             // bit(8) ← -5.0: stored as 5 silently
		{20, val{kind: "i", v: big.NewInt(256)}},  // bit(8) ← 256: IGNORE stores 0
		{0, val{kind: "i", v: big.NewInt(300)}},   // tinyint ← 300: rejected / 127 + warning
		{0, mkD(big.NewInt(1275), 1)},             // tinyint ← 127.5
		{8, mkD(bi("92233720368547758073"), 1)},   // bigint ← MaxInt64 + 0.3
		{18, val{kind: "i", v: big.NewInt(1900)}}, // year ← 1900
	} {
		if err := insCase(c.ty, c.v); err != nil {
			return err
		}
	}
	for i, m := range mts {
		if m.sqlDecl == "" {
			continue
		}
		for k := 0; k < nB; k++ {
			v := randNumVal(r, false)
			if v.kind == "d" && v.sc == 0 { // a literal without fraction digits is an integer literal for the parser
				if v.v.IsInt64() {
					v = val{kind: "i", v: v.v}
				} else if v.v.IsUint64() {
					v = val{kind: "u", v: v.v}
				}
			}
			if err := insCase(i, v); err != nil {
				return err
			}
		}
	}
	// SQL level, string literals into integer columns (the ConvertRound path)
	sinsCase := func(i int, str string) error {
		m, tbl := mts[i], tblOf[i]
		for _, c := range []byte(str) {
			ok := c >= '0' && c <= '9' || c == '+' || c == '-' || c == ' ' || c == '\t' || (c >= 'a' && c <= 'z' && c != 'e')
			if !ok {
				return fmt.Errorf("harness: text %q is outside the alphabet of the round-mode model", str)
			}
		}
		for _, mode := range []string{"strict", "ignore"} {
			if d := e.Query(ctx, "delete from "+tbl); d.Class() != "ok" {
				return fmt.Errorf("harness: delete from %s: %s", tbl, d.Class())
			}
			ins := "insert into "
			if mode == "ignore" {
				ins = "insert ignore into "
			}
			res := e.Query(ctx, fmt.Sprintf("%s%s values (1, '%s')", ins, tbl, str))
			obs := ""
			if res.Class() != "ok" {
				obs = "rejected"
				if res.Class() == "crash" || res.Class() == "timeout" {
					obs = res.Class()
				}
			} else {
				w := e.Query(ctx, "show warnings")
				rows := e.Query(ctx, "select c from "+tbl)
				cell := "norow"
				if rows.Class() == "ok" && len(rows.Rows) == 1 {
					cell = rows.Rows[0][0]
					if rows.Null[0][0] {
						cell = "null"
					}
				}
				obs = fmt.Sprintf("stored %s warn=%v", cell, len(w.Rows) > 0)
			}
			out.Case(hx.List("sins", mode, m.payload, hx.List("s", hx.HexS(str))), obs, strings.TrimSpace(str) != "")
			out.Stat("sins:" + mode)
			out.Stat("sins-obs:" + strings.Fields(obs)[0])
		}
		return nil
	}
	strCorpus := []string{"", "-", "+", " ", " \t", "0", "7", "-5", "+5", " 42 ", "\t7", "12abc", "300abc", "-300abc", "abc", "x", "--5", "+-5", "1 2", "007",
		"127", "128", "-128", "-129", "255", "256", "65535", "65536", "2147483647", "2147483648", "-2147483649", "4294967296",
		"9223372036854775807", "9223372036854775808", "9223372036854775900", "9223372036854776832", "9223372036854776833", "9223372036854777856",
		"-9223372036854775808", "-9223372036854775809", "-9223372036854776833", "-99999999999999999999",
		"18446744073709551615", "18446744073709551616", "99999999999999999999", "+9007199254740993", "+9007199254740992", "+18446744073709551615",
		"9007199254740993", "-0", "+0", "70000abc", "-1x", "99999999999999999999x"}
	nS := 60
	if a.Thorough {
		nS = 1500
	}
	for i, m := range mts {
		if !strings.HasPrefix(m.payload, "(int ") {
			continue
		}
		unsigned64 := m.payload == "(int u64)"
		var texts []string
		texts = append(texts, strCorpus...)
		for k := 0; k < nS; k++ {
			var sb strings.Builder
			if r.Chance(1, 5) {
				sb.WriteString(hx.Pick(r, []string{" ", "\t", "  "}))
			}
			if r.Chance(1, 3) {
				sb.WriteString(hx.Pick(r, []string{"-", "+"}))
			}
			switch r.Intn(4) {
			case 0:
				sb.WriteString(fmt.Sprint(randInt64(r)))
			case 1:
				sb.WriteString(fmt.Sprint(randUint64(r)))
			case 2:
				for n := r.Intn(24); n > 0; n-- {
					sb.WriteByte("0123456789"[r.Intn(10)])
				}
			default:
				sb.WriteString(fmt.Sprint(hx.Pick(r, interestingInts) + int64(r.Intn(3)-1)))
			}
			if r.Chance(1, 4) {
				sb.WriteString(hx.Pick(r, []string{"abc", "x", " ", " 1", "-", "+3", "a1"}))
			}
			texts = append(texts, sb.String())
		}
		for _, str := range texts {
			if unsigned64 { // a negative text beyond 2^53 reaches `uint(-v-1)` on a float64 beyond the uint range: not modelled
				t := strings.Trim(str, " \t")
				if strings.HasPrefix(t, "-") {
					digits := 0
					for _, c := range t[1:] {
						if c < '0' || c > '9' {
							break
						}
						digits++
					}
					if digits > 15 {
						continue
					}
				}
			}
			if err := sinsCase(i, str); err != nil {
				return err
			}
		}
	}
	// SQL level, binary strings into integer and BIT columns
	return binInsertStream(a, out, r, e, ctx, mts, tblOf)
}

func bi(s string) *big.Int {
	v, ok := new(big.Int).SetString(s, 10)
	if !ok {
		panic("bad int " + s)
	}
	return v
}
