// C27 — binary strings ([]byte) written into integer / BIT columns: facts about the `[]byte` branch of the 64-bit
// converters and the generators of the `(conv ty (b …))` and `(bins mode via ty (b …))` streams.
package main

import (
	"context"
	"encoding/binary"
	"encoding/hex"
	"fmt"
	"go/ast"
	"strings"

	"github.com/dolthub/go-mysql-server/sql"
	"github.com/dolthub/go-mysql-server/verifharness/hx"
	"github.com/dolthub/go-mysql-server/verifharness/hx/eng"
)

// ---------------------------------------------------------------------------------------------
// Facts

// the binary strings whose conversion by the compiled code is dumped as a fact (hex)
var binFactInputs = []string{"", "00", "7f", "80", "ff", "01ff", "8000", "ffffffff", "7fffffffffffffff", "8000000000000000",
	"fffffffffffffffe", "ffffffffffffffff", "000000000000000001", "00000000000000008000", "010000000000000000"}

func oneLine(s string) string { return strings.Join(strings.Fields(s), " ") }

// extractBin appends: the Go kinds the two 64-bit converters dispatch on (go/ast), their `[]byte` branch (go/ast), the
// condition under which ConvertRound defers to Convert (go/ast) and what the compiled Convert returns for a table of
// binary strings (run time).
func extractBin(b *strings.Builder, src *hx.Src) error {
	var kindRows, byteRows []string
	for _, fn := range []string{"convertToInt64", "convertToUint64"} {
		fd, err := src.Func("", fn)
		if err != nil {
			return err
		}
		var ts *ast.TypeSwitchStmt
		for _, st := range fd.Body.List {
			if s, ok := st.(*ast.TypeSwitchStmt); ok {
				ts = s
			}
		}
		if ts == nil {
			return fmt.Errorf("%s: type switch not found", fn)
		}
		var kinds []string
		found := false
		for _, cc := range ts.Body.List {
			c := cc.(*ast.CaseClause)
			if c.List == nil {
				kinds = append(kinds, hx.LeanString("default"))
				continue
			}
			for _, e := range c.List {
				kinds = append(kinds, hx.LeanString(src.Text(e)))
			}
			if len(c.List) == 1 && src.Text(c.List[0]) == "[]byte" {
				found = true
				// shape: `x, err := <parse>; if err != nil { return … }; return …`
				parse := ""
				var rets []string
				for _, st := range c.Body {
					ast.Inspect(st, func(n ast.Node) bool {
						switch x := n.(type) {
						case *ast.AssignStmt:
							if parse == "" && len(x.Rhs) == 1 {
								parse = oneLine(src.Text(x.Rhs[0]))
							}
						case *ast.IfStmt:
							rets = append(rets, "if "+oneLine(src.Text(x.Cond)))
						case *ast.ReturnStmt:
							rets = append(rets, oneLine(src.Text(x)))
						}
						return true
					})
				}
				var rs []string
				for _, r := range rets {
					rs = append(rs, hx.LeanString(r))
				}
				byteRows = append(byteRows, fmt.Sprintf("(%s, %s, [%s])", hx.LeanString(fn), hx.LeanString(parse), strings.Join(rs, ", ")))
			}
		}
		if !found {
			return fmt.Errorf("%s: `case []byte` not found", fn)
		}
		kindRows = append(kindRows, fmt.Sprintf("(%s, [%s])", hx.LeanString(fn), strings.Join(kinds, ", ")))
	}
	fmt.Fprintf(b, "\n/-- the Go kinds `convertToInt64` / `convertToUint64` dispatch on (type switch, source order) -/\n")
	fmt.Fprintf(b, "def converterKinds : List (String × List String) := [\n  %s]\n", strings.Join(kindRows, ",\n  "))
	fmt.Fprintf(b, "\n/-- the `[]byte` branch of the two converters: (function, parse expression, statements in order) -/\n")
	fmt.Fprintf(b, "def bytesBranch : List (String × String × List String) := [\n  %s]\n", strings.Join(byteRows, ",\n  "))

	// ConvertRound: anything but a Go string is handed to Convert
	fd, err := src.Func("NumberTypeImpl_", "ConvertRound")
	if err != nil {
		return err
	}
	first, ok := fd.Body.List[0].(*ast.IfStmt)
	if !ok || len(first.Body.List) != 1 {
		return fmt.Errorf("ConvertRound: leading `if … { return t.Convert(ctx, v) }` not found")
	}
	init := ""
	if first.Init != nil {
		init = oneLine(src.Text(first.Init))
	}
	fmt.Fprintf(b, "\n/-- `NumberTypeImpl_.ConvertRound`: its first statement (init, condition, body) -/\n")
	fmt.Fprintf(b, "def roundDefers : String × String × String := (%s, %s, %s)\n", hx.LeanString(init), hx.LeanString(oneLine(src.Text(first.Cond))),
		hx.LeanString(oneLine(src.Text(first.Body.List[0]))))

	// run time: the compiled Convert on a table of binary strings, all ten integer types
	var rows []string
	for _, m := range modelledTypes() {
		if !strings.HasPrefix(m.payload, "(int ") {
			continue
		}
		name := strings.TrimSuffix(strings.TrimPrefix(m.payload, "(int "), ")")
		var cells []string
		for _, hs := range binFactInputs {
			bs, _ := hex.DecodeString(hs)
			v, f, err := m.t.Convert(context.Background(), bs)
			var lst []string
			for _, c := range bs {
				lst = append(lst, fmt.Sprint(c))
			}
			cells = append(cells, fmt.Sprintf("([%s], %s, %d, %v)", strings.Join(lst, ", "), leanIntS(fmt.Sprint(v)), f, err == nil))
		}
		rows = append(rows, fmt.Sprintf("(%s, [%s])", hx.LeanString(name), strings.Join(cells, ",\n    ")))
	}
	fmt.Fprintf(b, "\n/-- (type, [(bytes, Convert(bytes) value, flag, no error)]) from the compiled code -/\n")
	fmt.Fprintf(b, "def binTable : List (String × List (List Nat × Int × Nat × Bool)) := [\n  %s]\n", strings.Join(rows, ",\n  "))
	return nil
}

// ---------------------------------------------------------------------------------------------
// Values

func mkB(bs []byte) val {
	cp := append([]byte{}, bs...)
	return val{kind: "b", str: string(cp), gov: cp}
}

func beBytes(x uint64, minimal bool) []byte {
	var buf [8]byte
	binary.BigEndian.PutUint64(buf[:], x)
	if !minimal {
		return buf[:]
	}
	i := 0
	for i < 7 && buf[i] == 0 {
		i++
	}
	return buf[i:]
}

// the binary strings every run starts with, per type: the 8-byte strings with the top bit set, the type bounds ±1
var binCorpus = [][]byte{
	{}, {0x00}, {0x01}, {0x7f}, {0x80}, {0xff}, {0x01, 0x00}, {0x01, 0xff}, {0x7f, 0xff}, {0x80, 0x00}, {0xff, 0xff}, {0x01, 0x00, 0x00},
	{0x7f, 0xff, 0xff}, {0x80, 0x00, 0x00}, {0xff, 0xff, 0xff}, {0x01, 0x00, 0x00, 0x00}, {0x7f, 0xff, 0xff, 0xff}, {0x80, 0x00, 0x00, 0x00},
	{0xff, 0xff, 0xff, 0xff}, {0x01, 0x00, 0x00, 0x00, 0x00},
	{0x7f, 0xff, 0xff, 0xff, 0xff, 0xff, 0xff, 0xff}, {0x80, 0, 0, 0, 0, 0, 0, 0}, {0x80, 0, 0, 0, 0, 0, 0, 1}, {0xff, 0xff, 0xff, 0xff, 0xff, 0xff, 0xff, 0xfe},
	{0xff, 0xff, 0xff, 0xff, 0xff, 0xff, 0xff, 0xff}, {0xc0, 0, 0, 0, 0, 0, 0, 0}, {0xff, 0xff, 0xff, 0xff, 0xff, 0xff, 0xff, 0x80},
	{0, 0, 0, 0, 0, 0, 0, 0, 1}, {0, 0xff, 0xff, 0xff, 0xff, 0xff, 0xff, 0xff, 0xff}, {1, 0, 0, 0, 0, 0, 0, 0, 0}, {0, 0, 0, 0, 0, 0, 0, 0, 0x80, 0},
	{0x31, 0x32}, {0x2d, 0x31},
}

func randBin(r *hx.Rand) []byte {
	switch r.Intn(6) {
	case 0: // an interesting integer, minimal or padded to 8 bytes
		x := hx.Pick(r, interestingInts) + int64(r.Intn(3)-1)
		return beBytes(uint64(x), r.Bool()) // negative ones become 8-byte strings with the top bit set
	case 1:
		return beBytes(randUint64(r), r.Bool())
	case 2: // 8 bytes, top bit set
		return beBytes(r.U64()|1<<63, false)
	case 3: // leading zero bytes in front of a value, possibly beyond 8 bytes
		return append(make([]byte, r.Intn(4)), beBytes(randUint64(r), r.Bool())...)
	case 4: // any length 0..10, random bytes
		bs := make([]byte, r.Intn(11))
		for i := range bs {
			bs[i] = byte(r.Intn(256))
		}
		return bs
	}
	return beBytes(uint64(r.Intn(70000)), true)
}

func binPayload(bs []byte) string { return hx.List("b", hx.Hex(bs)) }

// binModelled: the types of the binary-string model (integer types and BIT)
func binModelled(m mty) bool {
	return strings.HasPrefix(m.payload, "(int ") || strings.HasPrefix(m.payload, "(bit ")
}

// binInsertStream: INSERT [IGNORE] of a binary string — as a X'..' / 0x.. literal, or read from a VARBINARY column by
// INSERT … SELECT — into the integer and BIT columns of the real engine, then SELECT and SHOW WARNINGS.
func binInsertStream(a hx.RunArgs, out *hx.Out, r *hx.Rand, e *eng.Eng, ctx *sql.Context, mts []mty, tblOf map[int]string) error {
	e.MustExec(ctx, "create table binsrc (id int primary key, b varbinary(16))")
	one := func(i int, bs []byte, via string) error {
		m, tbl := mts[i], tblOf[i]
		hexs := strings.ToUpper(hex.EncodeToString(bs))
		sel := "select c from " + tbl
		if strings.HasPrefix(m.payload, "(bit ") {
			sel = "select cast(c as unsigned) from " + tbl
		}
		for _, mode := range []string{"strict", "ignore"} {
			if d := e.Query(ctx, "delete from "+tbl); d.Class() != "ok" {
				return fmt.Errorf("harness: delete from %s: %s", tbl, d.Class())
			}
			ins := "insert into "
			if mode == "ignore" {
				ins = "insert ignore into "
			}
			var q string
			switch via {
			case "x":
				q = fmt.Sprintf("%s%s values (1, X'%s')", ins, tbl, hexs)
			case "0x":
				q = fmt.Sprintf("%s%s values (1, 0x%s)", ins, tbl, hexs)
			default: // "sel"
				if d := e.Query(ctx, "delete from binsrc"); d.Class() != "ok" {
					return fmt.Errorf("harness: delete from binsrc: %s", d.Class())
				}
				if d := e.Query(ctx, fmt.Sprintf("insert into binsrc values (1, X'%s')", hexs)); d.Class() != "ok" {
					return fmt.Errorf("harness: insert into binsrc X'%s': %s", hexs, d.Class())
				}
				q = fmt.Sprintf("%s%s select id, b from binsrc", ins, tbl)
			}
			res := e.Query(ctx, q)
			obs := ""
			if res.Class() != "ok" {
				obs = "rejected"
				if res.Class() == "crash" || res.Class() == "timeout" {
					obs = res.Class()
				}
			} else {
				w := e.Query(ctx, "show warnings")
				rows := e.Query(ctx, sel)
				cell := "norow"
				if rows.Class() == "ok" && len(rows.Rows) == 1 {
					cell = rows.Rows[0][0]
					if rows.Null[0][0] {
						cell = "null"
					}
				}
				obs = fmt.Sprintf("stored %s warn=%v", cell, len(w.Rows) > 0)
			}
			out.Case(hx.List("bins", mode, via, m.payload, binPayload(bs)), obs, len(bs) > 0)
			out.Stat("bins:" + mode + ":" + via)
			out.Stat("bins-obs:" + strings.Fields(obs)[0])
			if len(bs) == 8 && bs[0] >= 0x80 {
				out.Stat("bins:8-bytes-top-bit")
			}
		}
		return nil
	}
	nR := 25
	if a.Thorough {
		nR = 700
	}
	for i, m := range mts {
		if !binModelled(m) || tblOf[i] == "" {
			continue
		}
		for k, bs := range binCorpus {
			via := []string{"x", "sel", "0x"}[k%3]
			if via == "0x" && len(bs) == 0 {
				via = "x" // `0x` alone is not a literal
			}
			if err := one(i, bs, via); err != nil {
				return err
			}
		}
		for k := 0; k < nR; k++ {
			bs := randBin(r)
			via := hx.Pick(r, []string{"x", "x", "sel", "0x"})
			if via == "0x" && len(bs) == 0 {
				via = "x"
			}
			if err := one(i, bs, via); err != nil {
				return err
			}
		}
	}
	return nil
}
