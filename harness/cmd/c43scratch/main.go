package main

import (
	"fmt"
	"os"
	"strings"

	"github.com/dolthub/go-mysql-server/verifharness/hx/eng"
)

func main() {
	e := eng.New("d")
	if len(os.Args) > 1 && os.Args[1] == "acct" {
		e.E.Analyzer.Catalog.MySQLDb.AddRootAccount()
	}
	ctx := e.Ctx()
	for _, q := range os.Args[2:] {
		r := e.Query(eng.SameSession(ctx), q)
		fmt.Printf("-- %s => %s %v %s\n", q, r.Class(), r.Err, r.Panic)
		if len(r.Rows) > 0 {
			fmt.Println("   ", strings.Join(r.Cols, " | "))
		}
		for _, rw := range r.Rows {
			fmt.Println("   ", strings.Join(rw, " | "))
		}
	}
}
