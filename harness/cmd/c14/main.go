// C14 — Primary and unique keys are enforced exactly.
//
// extract: the branch structure of columnsMatch, the lookup order of GetByCols / Get, the shape of
//          checkUniqueConstraints / hasNullForAnyCols, the call order of tableEditor.Insert/Update, and
//          how indexColsForTableEditor finds the columns of the unique indexes (by name, never through
//          the ordinals stored in the index expressions).
// run:     key-centred statement histories on the real engine (composite keys with colliding
//          printed forms (the repaired finding pk_print_collision), case variants under utf8mb4_0900_ai_ci, prefix indexes over multi-byte
//          text, NULLs in unique indexes, key updates; ddl.go: the same interleaved with schema changes
//          that move columns under the unique indexes); after each statement the outcome class and
//          a sorted table dump. Model-free oracles: no two stored rows collide on a key under the
//          columns' collations / character prefixes; a rejected plain INSERT really collides.
package main

import (
	"fmt"
	"go/ast"
	"go/token"
	"strconv"
	"strings"

	"github.com/dolthub/go-mysql-server/verifharness/hx"
	m "github.com/dolthub/go-mysql-server/verifharness/memtbl"
)

func main() { hx.Main(extract, run) }

func set(xs ...string) map[string]bool {
	o := map[string]bool{}
	for _, x := range xs {
		o[x] = true
	}
	return o
}

func extract(a hx.ExtractArgs) error {
	te, err := hx.ParseSrc(a.Repo, "memory/table_editor.go")
	if err != nil {
		return err
	}
	tb, err := hx.ParseSrc(a.Repo, "memory/table.go")
	if err != nil {
		return err
	}
	lf := hx.NewLeanFile("Gms.Generated.C14", te.Path, tb.Path)

	// columnsMatch: type-switch cases, type assertions, the comparisons that decide a mismatch
	cm, err := te.Func("", "columnsMatch")
	if err != nil {
		return err
	}
	var cases, asserts, neqs, slices []string
	cmpCalls := 0
	ast.Inspect(cm.Body, func(n ast.Node) bool {
		switch x := n.(type) {
		case *ast.TypeSwitchStmt:
			for _, c := range x.Body.List {
				cc := c.(*ast.CaseClause)
				if cc.List == nil {
					cases = append(cases, "default")
				}
				for _, e := range cc.List {
					cases = append(cases, te.Text(e))
				}
			}
		case *ast.TypeAssertExpr:
			if x.Type != nil {
				asserts = append(asserts, te.Text(x.Type))
			}
		case *ast.BinaryExpr:
			if x.Op == token.NEQ {
				neqs = append(neqs, te.Text(x))
			}
		case *ast.SliceExpr:
			slices = append(slices, te.Text(x))
		case *ast.CallExpr:
			if se, ok := x.Fun.(*ast.SelectorExpr); ok && se.Sel.Name == "Cmp" {
				cmpCalls++
			}
		}
		return true
	})
	if len(cases) == 0 || len(neqs) == 0 {
		return fmt.Errorf("columnsMatch: expected type switches and a != comparison")
	}
	lf.DefStringList("columnsMatchSwitchCases", cases)
	lf.DefStringList("columnsMatchTypeAsserts", asserts)
	lf.DefStringList("columnsMatchNeq", neqs)
	lf.DefStringList("columnsMatchSlices", slices)
	lf.DefNat("columnsMatchDecimalCmp", uint64(cmpCalls))

	seq := func(src *hx.Src, recv, name, def string, want ...string) error {
		fd, err := src.Func(recv, name)
		if err != nil {
			return err
		}
		s := m.CallSeq(src, fd, set(want...))
		if len(s) == 0 {
			return fmt.Errorf("%s.%s: none of the expected calls %v found", recv, name, want)
		}
		lf.DefStringList(def, s)
		return nil
	}
	if err := seq(te, "pkTableEditAccumulator", "GetByCols", "pkGetByCols",
		"deletes.FindForeach", "adds.FindForeach", "columnsMatch", "tableData.schema.HasVirtualColumns"); err != nil {
		return err
	}
	if err := seq(te, "pkTableEditAccumulator", "Get", "pkGet", "getRowKey", "adds.Get", "deletes.Get", "columnsMatch"); err != nil {
		return err
	}
	// getRowKey: the format strings, and what is written with the length-prefixing format (the
	// repair of finding pk_print_collision: every printed key value is written as "%d:%s," with
	// its own length, which makes the key injective over composite keys)
	rk, err := te.Func("pkTableEditAccumulator", "getRowKey")
	if err != nil {
		return err
	}
	var formats, lenArgs []string
	ast.Inspect(rk.Body, func(n ast.Node) bool {
		ce, ok := n.(*ast.CallExpr)
		if !ok {
			return true
		}
		switch te.Text(ce.Fun) {
		case "fmt.Sprintf", "fmt.Fprintf", "fmt.Sprint", "fmt.Fprint":
			for i, arg := range ce.Args {
				if l, ok := arg.(*ast.BasicLit); ok && l.Kind == token.STRING {
					f := strings.Trim(l.Value, "\"`")
					formats = append(formats, f)
					if strings.Contains(f, "%d") {
						for _, rest := range ce.Args[i+1:] {
							lenArgs = append(lenArgs, te.Text(rest))
						}
					}
				}
			}
		}
		return true
	})
	if len(formats) == 0 {
		return fmt.Errorf("getRowKey: no format string found")
	}
	lf.DefStringList("getRowKeyFormats", formats)
	lf.DefStringList("getRowKeyLenArgs", lenArgs)
	if err := seq(te, "tableEditor", "checkUniqueConstraints", "checkUnique", "hasNullForAnyCols", "ea.GetByCols", "sql.NewUniqueKeyErr"); err != nil {
		return err
	}
	if err := seq(te, "tableEditor", "Insert", "edInsert", "ea.Get", "checkUniqueConstraints", "ea.Insert", "ea.Delete", "sql.NewUniqueKeyErr"); err != nil {
		return err
	}
	if err := seq(te, "tableEditor", "Update", "edUpdate", "ea.Get", "pkColsDiffer", "checkUniqueConstraints", "ea.Insert", "ea.Delete", "sql.NewUniqueKeyErr"); err != nil {
		return err
	}
	if err := seq(te, "tableEditor", "pkColsDiffer", "pkColsDiffer", "columnsMatch", "pkColumnIndexes"); err != nil {
		return err
	}
	// checkUniqueConstraints skips an index with `continue` when the row has a NULL in it
	cu, err := te.Func("tableEditor", "checkUniqueConstraints")
	if err != nil {
		return err
	}
	conts := 0
	ast.Inspect(cu.Body, func(n ast.Node) bool {
		if is, ok := n.(*ast.IfStmt); ok {
			if ce, ok := is.Cond.(*ast.CallExpr); ok && te.Text(ce.Fun) == "hasNullForAnyCols" {
				for _, st := range is.Body.List {
					if b, ok := st.(*ast.BranchStmt); ok && b.Tok == token.CONTINUE {
						conts++
					}
				}
			}
		}
		return true
	})
	lf.DefNat("checkUniqueNullContinue", uint64(conts))
	// the third argument of NewUniqueKeyErr (isPK) at the two call sites of Insert
	insFn, err := te.Func("tableEditor", "Insert")
	if err != nil {
		return err
	}
	var isPK []string
	ast.Inspect(insFn.Body, func(n ast.Node) bool {
		if ce, ok := n.(*ast.CallExpr); ok && te.Text(ce.Fun) == "sql.NewUniqueKeyErr" && len(ce.Args) == 3 {
			isPK = append(isPK, te.Text(ce.Args[1]))
		}
		return true
	})
	lf.DefStringList("insertDupIsPK", isPK)
	// hasNullForAnyCols: condition and returns
	hn, err := tb.Func("", "hasNullForAnyCols")
	if err != nil {
		return err
	}
	var conds, rets []string
	ast.Inspect(hn.Body, func(n ast.Node) bool {
		switch x := n.(type) {
		case *ast.IfStmt:
			conds = append(conds, tb.Text(x.Cond))
		case *ast.ReturnStmt:
			for _, r := range x.Results {
				rets = append(rets, tb.Text(r))
			}
		}
		return true
	})
	// indexColsForTableEditor: where every new tableEditor gets the column positions of the unique
	// indexes from. The model (Gms/Model/MemTableDdl.lean) resolves the index columns BY NAME against
	// the current schema (columnIndexes -> Schema.IndexOf) and never reads the field ordinals stored in
	// the index expressions (GetField.Index()), which ADD COLUMN ... FIRST/AFTER and RENAME TABLE
	// leave stale.
	tdSrc, err := hx.ParseSrc(a.Repo, "memory/table_data.go")
	if err != nil {
		return err
	}
	icFn, err := tdSrc.Func("TableData", "indexColsForTableEditor")
	if err != nil {
		return err
	}
	var icCalls []string
	ordinalReads := 0
	ast.Inspect(icFn.Body, func(n ast.Node) bool {
		ce, ok := n.(*ast.CallExpr)
		if !ok {
			return true
		}
		if se, ok := ce.Fun.(*ast.SelectorExpr); ok {
			switch se.Sel.Name {
			case "IsUnique", "Name", "columnIndexes", "PrefixLengths", "IndexOf":
				icCalls = append(icCalls, se.Sel.Name)
			case "Index":
				ordinalReads++
			}
		}
		return true
	})
	if len(icCalls) == 0 {
		return fmt.Errorf("indexColsForTableEditor: none of the expected calls found")
	}
	lf.DefStringList("indexColsForTableEditor", icCalls)
	lf.DefNat("indexColsOrdinalReads", uint64(ordinalReads))
	if err := seq(tdSrc, "TableData", "columnIndexes", "columnIndexes", "schema.IndexOf", "errColumnNotFound.New"); err != nil {
		return err
	}
	lf.DefStringList("hasNullConds", conds)
	lf.DefStringList("hasNullReturns", rets)
	return lf.Write(a.Out)
}

// ---------------------------------------------------------------------------------------------

type hist struct {
	S m.Schema
	H []m.Stmt
}

func corpus() []hist {
	I, S, R := m.Int, m.Str, func(v ...m.Val) m.Row { return m.Row(v) }
	ins := func(rows ...m.Row) m.Stmt { return m.Stmt{Kind: "ins", Rows: rows, Lim: -1} }
	c3 := m.Schema{Cols: []m.Col{{}, {}, {Nullable: true}}, PK: []int{0, 1}}
	s2 := m.Schema{Cols: []m.Col{{Str: true}, {Str: true}, {Nullable: true}}, PK: []int{0, 1}}
	u2 := m.Schema{Cols: []m.Col{{}, {Nullable: true}}, PK: []int{0}, Uniq: []m.Uniq{{Cols: []int{1}, Prefix: []int{0}}}}
	u4 := m.Schema{Cols: []m.Col{{Nullable: true}, {Nullable: true}, {Nullable: true}, {}}, PK: []int{3}, Uniq: []m.Uniq{{Cols: []int{0, 1}, Prefix: []int{0, 0}}}}
	ciPk := m.Schema{Cols: []m.Col{{Str: true, CI: true}, {Nullable: true}}, PK: []int{0}}
	ciUq := m.Schema{Cols: []m.Col{{}, {Str: true, CI: true, Nullable: true}}, PK: []int{0}, Uniq: []m.Uniq{{Cols: []int{1}, Prefix: []int{0}}}}
	pre := m.Schema{Cols: []m.Col{{}, {Str: true, Nullable: true}}, PK: []int{0}, Uniq: []m.Uniq{{Cols: []int{1}, Prefix: []int{1}}}}
	return []hist{
		// F-C14-a (repaired by the fix: commit for pk_print_collision; these must pass now):
		// pre-fix printed keys collide — was a false duplicate, integers and strings
		{c3, []m.Stmt{ins(R(I(1), I(23), I(0)), R(I(12), I(3), I(1)))}},
		{s2, []m.Stmt{ins(R(S("a"), S("bc"), I(0)), R(S("ab"), S("c"), I(1)))}},
		// F-C14-b: case-insensitive primary / unique key not enforced
		{ciPk, []m.Stmt{ins(R(S("a"), I(1)), R(S("A"), I(2)))}},
		{ciUq, []m.Stmt{ins(R(I(1), S("a")), R(I(2), S("A")))}},
		// unique lookup ignores pending edits: masked duplicate, and stale conflict
		{u2, []m.Stmt{ins(R(I(1), I(5))), {Kind: "rep", Rows: []m.Row{R(I(1), I(6)), R(I(2), I(5)), R(I(3), I(5))}, Lim: -1}}},
		{u4, []m.Stmt{ins(R(I(4), I(31), I(123), I(5))),
			{Kind: "odku", Rows: []m.Row{R(I(12), m.Null, I(5), I(5)), R(I(3), I(31), I(0), I(5))}, Asg: []m.Asg{{Kind: "vals", C: 1}}, Lim: -1}}},
		// prefix index cuts bytes, not characters
		{pre, []m.Stmt{ins(R(I(1), S("é"))), ins(R(I(2), S("è"))), ins(R(I(3), S("ab"))), ins(R(I(4), S("ac")))}},
		// NULLs never conflict in a unique index; equal non-NULL values do
		{u2, []m.Stmt{ins(R(I(1), m.Null), R(I(2), m.Null)), ins(R(I(3), I(7))), ins(R(I(4), I(7))),
			{Kind: "upd", Asg: []m.Asg{{Kind: "set", C: 1, V: I(7)}}, Where: []m.Cond{{Op: "eq", C: 0, V: I(1)}}, Ord: []m.Ord{{C: 0}}, Lim: -1},
			{Kind: "upd", Asg: []m.Asg{{Kind: "set", C: 1, V: m.Null}}, Where: []m.Cond{{Op: "eq", C: 0, V: I(3)}}, Ord: []m.Ord{{C: 0}}, Lim: -1}}},
		// key values swapped / shifted within one statement
		{u2, []m.Stmt{ins(R(I(1), I(1)), R(I(2), I(2)), R(I(3), I(3))),
			{Kind: "upd", Asg: []m.Asg{{Kind: "add", C: 0, K: 1}}, Ord: []m.Ord{{C: 0, Desc: true}}, Lim: -1},
			{Kind: "upd", Asg: []m.Asg{{Kind: "add", C: 0, K: 1}}, Ord: []m.Ord{{C: 0}}, Lim: -1},
			{Kind: "upd", Asg: []m.Asg{{Kind: "add", C: 1, K: 1}}, Ord: []m.Ord{{C: 0}}, Lim: -1}}},
	}
}

// collidingPairs lists pairs of distinct two-column integer keys in 0..max whose printed
// concatenations are equal (the keys the pre-fix getRowKey could not tell apart; the sweep over
// them is the regression test of the repair).
func collidingPairs(max int) [][4]int64 {
	by := map[string][][2]int64{}
	for a := 0; a <= max; a++ {
		for b := 0; b <= max; b++ {
			k := strconv.Itoa(a) + strconv.Itoa(b)
			by[k] = append(by[k], [2]int64{int64(a), int64(b)})
		}
	}
	var out [][4]int64
	for a := 0; a <= max; a++ { // deterministic order
		for b := 0; b <= max; b++ {
			g := by[strconv.Itoa(a)+strconv.Itoa(b)]
			for _, p := range g {
				if p[0] > int64(a) {
					out = append(out, [4]int64{int64(a), int64(b), p[0], p[1]})
				}
			}
		}
	}
	return out
}

func run(a hx.RunArgs) error {
	out := hx.NewOut(a.OutDir)
	defer out.Close()
	out.Rule = "key-centred histories of 2-9 INSERT / IGNORE / REPLACE / ON DUPLICATE KEY UPDATE / UPDATE / DELETE statements over schemas with single or composite primary keys, " +
		"0-1 unique index (optional prefix length), INT and VARCHAR key columns (utf8mb4_0900_bin or utf8mb4_0900_ai_ci), NULLs, multi-byte text in prefix-indexed columns; witnesses first, " +
		"then a sweep over two-column integer keys with equal printed forms, then histories that interleave the DML with up to three schema changes which move columns under the unique indexes " +
		"(ADD COLUMN FIRST / AFTER c / last, DROP COLUMN of a non-key column, RENAME COLUMN, RENAME TABLE; non-trivial when a statement after a schema change hit a duplicate or changed the table); a history is non-trivial when some statement after the first hit a duplicate (error, skip, replace, update) or moved a key"
	rn := m.NewRunner()
	g := &m.Gen{R: hx.NewRand(a.Seed).Fork(), P: m.Profile{CIChance: [2]int{2, 5}, StrChance: [2]int{2, 5}, KeylessChance: [2]int{1, 12},
		MaxStmts: 9, KeyFocus: true, Multibyte: true}}

	one := func(s m.Schema, next func(i int, cur []m.Row) *m.Stmt) {
		dup, falseDup := "", ""
		var prev []m.Row
		var hh []m.Stmt
		h, steps := rn.History(s, func(i int, cur []m.Row) *m.Stmt {
			st := next(i, cur)
			if st != nil {
				hh = append(hh, *st)
			}
			return st
		}, func(i int, st m.Step) bool {
			// oracle 2: a rejected plain INSERT must contain a real collision
			if cur := hh[i]; cur.Kind == "ins" && !cur.Ignore && st.Class == "err:1062" && falseDup == "" {
				all := append(append([]m.Row(nil), prev...), cur.Rows...)
				if m.DupIn(s, all) == "" {
					falseDup = fmt.Sprintf("statement %d (%s) was rejected as a duplicate but no two of its rows / stored rows collide on a key", i+1, cur.SQL("t"))
				}
			}
			prev = st.Rows
			// oracle 1: stored rows are duplicate-free
			dup = m.DupIn(s, st.Rows)
			return dup != ""
		})
		nontriv := false
		for i, st := range steps {
			out.Stat("stmt:" + h[i].Kind)
			if strings.HasPrefix(st.Class, "err") || strings.HasPrefix(st.Class, "crash") {
				out.Stat("class:" + st.Class)
			} else {
				out.Stat("class:ok")
			}
			if i > 0 && (st.Class != "ok" || st.Affected > 0) {
				nontriv = true
			}
		}
		switch {
		case s.Keyless():
			out.Stat("schema:keyless")
		case len(s.PK) == 1:
			out.Stat("schema:pk1")
		default:
			out.Stat("schema:pk2")
		}
		for _, u := range s.Uniq {
			out.Stat("schema:unique")
			for _, p := range u.Prefix {
				if p > 0 {
					out.Stat("schema:unique-prefix")
				}
			}
		}
		for c, col := range s.Cols {
			if col.CI && s.IsKeyCol(c) {
				out.Stat("schema:ci-key-column")
				break
			}
		}
		id := out.Case(m.Payload(s, h[:len(steps)]), m.JoinObsNC(steps), nontriv)
		if dup != "" {
			out.Stat("oracle:stored-duplicate")
			out.OracleFail(id, "-", fmt.Sprintf("after statement %d (%s): %s", len(steps), h[len(steps)-1].SQL("t"), dup))
		}
		if falseDup != "" {
			out.Stat("oracle:false-duplicate")
			out.OracleFail(id, "-", falseDup)
		}
	}

	for _, c := range corpus() {
		one(c.S, m.Fixed(c.H))
	}
	// print-collision sweep: composite integer keys with equal printed forms
	c3 := m.Schema{Cols: []m.Col{{}, {}, {Nullable: true}}, PK: []int{0, 1}}
	pairs := collidingPairs(30)
	nPairs := 60
	if a.Thorough {
		nPairs = len(pairs)
	}
	r0 := hx.NewRand(a.Seed).Fork().Fork()
	for i := 0; i < nPairs && len(pairs) > 0; i++ {
		p := pairs[i%len(pairs)]
		if !a.Thorough {
			p = pairs[r0.Intn(len(pairs))]
		}
		r1 := m.Row{m.Int(p[0]), m.Int(p[1]), m.Int(0)}
		r2 := m.Row{m.Int(p[2]), m.Int(p[3]), m.Int(1)}
		kind := []string{"ins", "rep", "two"}[i%3]
		var h []m.Stmt
		switch kind {
		case "ins":
			h = []m.Stmt{{Kind: "ins", Rows: []m.Row{r1, r2}, Lim: -1}}
		case "rep":
			h = []m.Stmt{{Kind: "rep", Rows: []m.Row{r1, r2}, Lim: -1}}
		default: // separate statements: no collision inside one accumulator
			h = []m.Stmt{{Kind: "ins", Rows: []m.Row{r1}, Lim: -1}, {Kind: "ins", Rows: []m.Row{r2}, Lim: -1},
				{Kind: "upd", Asg: []m.Asg{{Kind: "add", C: 2, K: 1}}, Ord: []m.Ord{{C: 0}, {C: 1}}, Lim: -1}}
		}
		out.Stat("sweep:print-collision:" + kind)
		one(c3, m.Fixed(h))
	}
	// histories with schema changes between the statements (ddl.go)
	runDDL(a, out, rn)
	n := 1500
	if a.Thorough {
		n = 120000
	}
	for i := 0; i < n; i++ {
		s := g.Schema()
		one(s, g.Next(s))
	}
	return nil
}
