package main

// Histories that interleave DML with schema changes which move columns without rewriting the
// unique indexes: ADD COLUMN … FIRST / AFTER c / (last), DROP COLUMN (non-key), RENAME COLUMN,
// RENAME TABLE. Every statement gets a fresh tableEditor whose unique-index column positions are
// recomputed from the table definition (TableData.indexColsForTableEditor); the Lean model resolves
// the index columns by NAME (Gms/Model/MemTableDdl.lean), which is what the property needs: the
// index keeps guarding the same column wherever it has moved to.
//
// The harness keeps its own ordinal-based copy of the schema (for rendering, the generators and the
// model-free oracles) and the column names; the Lean side recomputes both from the payload.

import (
	"fmt"
	"strconv"
	"strings"

	"github.com/dolthub/go-mysql-server/verifharness/hx"
	"github.com/dolthub/go-mysql-server/verifharness/hx/eng"
	m "github.com/dolthub/go-mysql-server/verifharness/memtbl"
)

type ddl struct {
	Kind string // addcol | dropcol | rencol | rentab
	P    int    // addcol: position of the new column; dropcol / rencol: ordinal of the column
	ID   int    // addcol / rencol: the new name is c<ID>
}

func (d ddl) Sexp() string {
	switch d.Kind {
	case "addcol":
		return hx.List("addcol", strconv.Itoa(d.P), strconv.Itoa(d.ID))
	case "dropcol":
		return hx.List("dropcol", strconv.Itoa(d.P))
	case "rencol":
		return hx.List("rencol", strconv.Itoa(d.P), strconv.Itoa(d.ID))
	}
	return hx.List("rentab")
}

// item is one statement of a history: a schema change or a DML statement.
type item struct {
	D *ddl
	S *m.Stmt
}

func (it item) Sexp() string {
	if it.D != nil {
		return it.D.Sexp()
	}
	return it.S.Sexp()
}

// tbl is the harness' view of the table definition.
type tbl struct {
	S      m.Schema
	Names  []int // Names[i]: id of the column at ordinal i (SQL name c<id>)
	Table  string
	NextID int
	MinLen int // the smallest number of columns the table has had (see genDDL, envelope)
}

func newTbl(s m.Schema) *tbl {
	t := &tbl{S: m.Schema{Cols: append([]m.Col(nil), s.Cols...), PK: append([]int(nil), s.PK...)}, Table: "t", NextID: len(s.Cols), MinLen: len(s.Cols)}
	for _, u := range s.Uniq {
		t.S.Uniq = append(t.S.Uniq, m.Uniq{Cols: append([]int(nil), u.Cols...), Prefix: append([]int(nil), u.Prefix...)})
	}
	for i := range s.Cols {
		t.Names = append(t.Names, i)
	}
	return t
}

func (t *tbl) name(i int) string { return "c" + strconv.Itoa(t.Names[i]) }

func (t *tbl) mapOrd(f func(int) int) {
	for i := range t.S.PK {
		t.S.PK[i] = f(t.S.PK[i])
	}
	for _, u := range t.S.Uniq {
		for i := range u.Cols {
			u.Cols[i] = f(u.Cols[i])
		}
	}
}

// sql renders the schema change against the current definition (call before apply).
func (t *tbl) sql(d ddl) string {
	switch d.Kind {
	case "addcol":
		q := "ALTER TABLE " + t.Table + " ADD COLUMN " + m.ColDef("c"+strconv.Itoa(d.ID), m.Col{Nullable: true})
		switch {
		case d.P == 0:
			q += " FIRST"
		case d.P < len(t.Names):
			q += " AFTER " + t.name(d.P-1)
		}
		return q
	case "dropcol":
		return "ALTER TABLE " + t.Table + " DROP COLUMN " + t.name(d.P)
	case "rencol":
		return "ALTER TABLE " + t.Table + " RENAME COLUMN " + t.name(d.P) + " TO c" + strconv.Itoa(d.ID)
	}
	return "RENAME TABLE " + t.Table + " TO " + otherTable(t.Table)
}

func otherTable(n string) string {
	if n == "t" {
		return "tr"
	}
	return "t"
}

// apply updates the harness' view: the keys follow their columns.
func (t *tbl) apply(d ddl) {
	switch d.Kind {
	case "addcol":
		p := d.P
		t.S.Cols = append(t.S.Cols[:p:p], append([]m.Col{{Nullable: true}}, t.S.Cols[p:]...)...)
		t.Names = append(t.Names[:p:p], append([]int{d.ID}, t.Names[p:]...)...)
		t.mapOrd(func(o int) int {
			if o >= p {
				return o + 1
			}
			return o
		})
	case "dropcol":
		p := d.P
		t.S.Cols = append(t.S.Cols[:p:p], t.S.Cols[p+1:]...)
		t.Names = append(t.Names[:p:p], t.Names[p+1:]...)
		if len(t.Names) < t.MinLen {
			t.MinLen = len(t.Names)
		}
		t.mapOrd(func(o int) int {
			if o > p {
				return o - 1
			}
			return o
		})
	case "rencol":
		t.Names[d.P] = d.ID
	case "rentab":
		t.Table = otherTable(t.Table)
	}
}

// genDDL draws an applicable schema change, biased towards the ones that move a unique-index column.
//
// Envelope (defects of the unchanged tree that belong to other properties — ALTER TABLE / index
// maintenance / no-crash — and would only hide what this check is about; each was replayed on the
// real code):
//   - memory.addColumnToSchema bumps schema.PkOrdinals IN PLACE (the slice is shared with the
//     schema copy that the table's *Index values still point to through idx.Tbl): once a bumped
//     primary-key ordinal reaches the column count that stale schema has, every DML statement on a
//     table with a secondary index panics in Index.ExtendedExprs (index out of range [n] with
//     length n). So on a table with a unique index a column is added in front of a primary-key
//     column only while the largest key ordinal stays below the smallest column count the table has
//     had.
//   - RENAME COLUMN of a primary-key column of a table with a secondary index: the same function
//     panics with index out of range [-1] on the next DML statement. Not generated.
//   - DROP COLUMN of a column in front of a primary-key column fails with ERROR 1105 "unable to
//     find field with index n in row of n columns". Only columns behind the primary key are dropped.
//   - the first two rules are applied to tables without a unique index as well: after ADD COLUMN FIRST,
//     RENAME COLUMN of a primary-key column and another ADD COLUMN on t(c0,c1,c2, PRIMARY KEY (c2,c0))
//     a REPLACE stored a second row with an existing primary key (same family: stale key ordinals /
//     names after in-place schema surgery; not narrowed down further).
func genDDL(r *hx.Rand, t *tbl) *ddl {
	n := len(t.S.Cols)
	maxPK := -1
	for _, k := range t.S.PK {
		if k > maxPK {
			maxPK = k
		}
	}
	for try := 0; try < 6; try++ {
		switch k := r.Intn(10); {
		case k < 5 && n < 7:
			p := r.Intn(n + 1)
			if r.Chance(1, 2) { // in front of a key column
				p = 0
				for c := 0; c < n; c++ {
					if t.S.IsKeyCol(c) && r.Chance(1, 2) {
						p = r.Intn(c + 1)
					}
				}
			}
			if p <= maxPK && maxPK+1 >= t.MinLen {
				if maxPK+1 > n {
					continue
				}
				p = maxPK + 1 + r.Intn(n-maxPK) // behind the primary key, possibly still in front of the unique column
			}
			t.NextID++
			return &ddl{Kind: "addcol", P: p, ID: t.NextID - 1}
		case k < 7:
			if n <= 2 {
				continue
			}
			var cand []int
			for c := maxPK + 1; c < n; c++ {
				if !t.S.IsKeyCol(c) {
					cand = append(cand, c)
				}
			}
			if len(cand) == 0 {
				continue
			}
			return &ddl{Kind: "dropcol", P: hx.Pick(r, cand)}
		case k < 8:
			c := r.Intn(n)
			if c <= maxPK {
				isPK := false
				for _, k := range t.S.PK {
					isPK = isPK || k == c
				}
				if isPK {
					continue
				}
			}
			t.NextID++
			return &ddl{Kind: "rencol", P: c, ID: t.NextID - 1}
		default:
			return &ddl{Kind: "rentab"}
		}
	}
	return &ddl{Kind: "rentab"}
}

// ddlCorpus: the shapes of the class first (unique column behind a new first column; composite
// unique key with a column spliced in between; renamed table; dropped column in front of the key).
func ddlCorpus() []struct {
	S m.Schema
	H []item
} {
	I, R := m.Int, func(v ...m.Val) m.Row { return m.Row(v) }
	ins := func(rows ...m.Row) item {
		return item{S: &m.Stmt{Kind: "ins", Rows: rows, Lim: -1}}
	}
	dd := func(k string, p, id int) item { return item{D: &ddl{Kind: k, P: p, ID: id}} }
	u2 := m.Schema{Cols: []m.Col{{}, {Nullable: true}}, PK: []int{0}, Uniq: []m.Uniq{{Cols: []int{1}, Prefix: []int{0}}}}
	u3 := m.Schema{Cols: []m.Col{{}, {Nullable: true}, {Nullable: true}}, PK: []int{0}, Uniq: []m.Uniq{{Cols: []int{1, 2}, Prefix: []int{0, 0}}}}
	d3 := m.Schema{Cols: []m.Col{{Nullable: true}, {}, {Nullable: true}}, PK: []int{1}, Uniq: []m.Uniq{{Cols: []int{2}, Prefix: []int{0}}}}
	return []struct {
		S m.Schema
		H []item
	}{
		{u2, []item{ins(R(I(1), I(10)), R(I(3), I(11))), dd("addcol", 0, 2), ins(R(I(0), I(2), I(10))),
			{S: &m.Stmt{Kind: "upd", Asg: []m.Asg{{Kind: "set", C: 2, V: I(10)}}, Where: []m.Cond{{Op: "eq", C: 1, V: I(3)}}, Ord: []m.Ord{{C: 1}}, Lim: -1}},
			ins(R(I(0), I(4), I(12)))}},
		{u3, []item{ins(R(I(1), I(1), I(10)), R(I(2), I(2), I(10))), dd("addcol", 1, 3), ins(R(I(3), m.Null, I(1), I(10))),
			{S: &m.Stmt{Kind: "rep", Rows: []m.Row{R(I(4), I(0), I(2), I(10))}, Lim: -1}},
			{S: &m.Stmt{Kind: "odku", Rows: []m.Row{R(I(5), I(0), I(1), I(10))}, Asg: []m.Asg{{Kind: "set", C: 1, V: I(7)}}, Lim: -1}}}},
		{u2, []item{ins(R(I(1), I(10))), dd("rentab", 0, 0), ins(R(I(2), I(10))),
			{S: &m.Stmt{Kind: "ins", Ignore: true, Rows: []m.Row{R(I(3), I(10)), R(I(4), I(11))}, Lim: -1}}}},
		{d3, []item{ins(R(I(0), I(1), I(10))), dd("dropcol", 0, 0), ins(R(I(2), I(10))), dd("rencol", 1, 3), ins(R(I(3), I(10))), ins(R(I(4), I(11)))}},
	}
}

// oneDDL runs one history with schema changes on the real engine and records it as a case.
// `next(i, t, cur)` returns statement i for the current definition and stored rows (nil = end).
func oneDDL(rn *m.Runner, out *hx.Out, s m.Schema, next func(i int, t *tbl, cur []m.Row) *item) {
	e := rn.E
	ctx := e.Ctx()
	e.Query(eng.SameSession(ctx), "DROP TABLE IF EXISTS t")
	e.Query(eng.SameSession(ctx), "DROP TABLE IF EXISTS tr")
	t := newTbl(s)
	e.MustExec(eng.SameSession(ctx), s.DDLNamed(t.Table, t.name))
	var items []item
	var obs []string
	var cur []m.Row
	dup, falseDup, lastSQL := "", "", ""
	nontriv, afterDDL := false, false
	for i := 0; ; i++ {
		it := next(i, t, cur)
		if it == nil {
			break
		}
		items = append(items, *it)
		var q string
		if it.D != nil {
			q = t.sql(*it.D)
			out.Stat("ddl:" + it.D.Kind)
			if it.D.Kind == "addcol" {
				moved := false
				for c := it.D.P; c < len(t.S.Cols); c++ {
					moved = moved || t.S.IsKeyCol(c)
				}
				if moved {
					out.Stat("ddl:addcol-moves-key-column")
				}
			}
		} else {
			q = it.S.SQLNamed(t.Table, t.name)
			out.Stat("stmt:" + it.S.Kind)
		}
		lastSQL = q
		r := e.Query(eng.SameSession(ctx), q)
		class := r.Class()
		if r.Panic != "" {
			class = "crash:" + r.Panic
		}
		if it.D != nil && class == "ok" {
			t.apply(*it.D)
			afterDDL = true
		}
		if strings.HasPrefix(class, "err") || strings.HasPrefix(class, "crash") {
			out.Stat("class:" + class)
		} else {
			out.Stat("class:ok")
		}
		d := e.Query(eng.SameSession(ctx), "SELECT * FROM "+t.Table)
		if d.Class() != "ok" {
			obs = append(obs, class+"|dump-failed:"+d.Class())
			break
		}
		rows := m.ReadTable(t.S, d)
		obs = append(obs, class+"|"+m.RenderRows(rows))
		if it.S != nil && afterDDL && (class != "ok" || r.Affected > 0) {
			nontriv = true // a statement after a schema change hit a duplicate or changed the table
		}
		// oracle 2: a rejected plain INSERT must contain a real collision
		if it.S != nil && it.S.Kind == "ins" && !it.S.Ignore && class == "err:1062" && falseDup == "" {
			all := append(append([]m.Row(nil), cur...), it.S.Rows...)
			if m.DupIn(t.S, all) == "" {
				falseDup = fmt.Sprintf("statement %d (%s) was rejected as a duplicate but no two of its rows / stored rows collide on a key", i+1, q)
			}
		}
		cur = rows
		// oracle 1: stored rows are duplicate-free (keys follow their columns through schema changes)
		if dup = m.DupIn(t.S, rows); dup != "" {
			break
		}
	}
	e.Query(eng.SameSession(ctx), "DROP TABLE IF EXISTS "+t.Table)
	out.Stat("schema:ddl-history")
	for _, u := range s.Uniq {
		out.Stat("schema:unique")
		_ = u
	}
	parts := []string{"stmts"}
	for _, it := range items {
		parts = append(parts, it.Sexp())
	}
	id := out.Case(s.Sexp()+" "+hx.List(parts...), strings.Join(obs, ";"), nontriv)
	if dup != "" {
		out.Stat("oracle:stored-duplicate")
		out.OracleFail(id, "-", fmt.Sprintf("after statement %d (%s): %s", len(items), lastSQL, dup))
	}
	if falseDup != "" {
		out.Stat("oracle:false-duplicate")
		out.OracleFail(id, "-", falseDup)
	}
}

// runDDL: the corpus, then generated histories: INSERT IGNORE of a few rows, then 2-8 statements
// of which up to three are schema changes.
func runDDL(a hx.RunArgs, out *hx.Out, rn *m.Runner) {
	for _, c := range ddlCorpus() {
		h := c.H
		oneDDL(rn, out, c.S, func(i int, t *tbl, cur []m.Row) *item {
			if i >= len(h) {
				return nil
			}
			return &h[i]
		})
	}
	r := hx.NewRand(a.Seed).Fork().Fork().Fork()
	g := &m.Gen{R: r.Fork(), P: m.Profile{CIChance: [2]int{1, 8}, StrChance: [2]int{2, 5}, KeylessChance: [2]int{1, 12},
		MaxStmts: 9, KeyFocus: true, Multibyte: true}}
	n := 400
	if a.Thorough {
		n = 12000
	}
	for c := 0; c < n; c++ {
		s := g.Schema()
		for try := 0; try < 3 && len(s.Uniq) == 0; try++ { // the class needs a secondary unique index
			s = g.Schema()
		}
		total := r.Range(3, 9)
		nd := 0
		oneDDL(rn, out, s, func(i int, t *tbl, cur []m.Row) *item {
			if i >= total {
				return nil
			}
			if i == 0 {
				st := g.Stmt(t.S, nil)
				st = m.Stmt{Kind: "ins", Ignore: true, Rows: g.Rows(t.S, 5), Lim: -1}
				return &item{S: &st}
			}
			if nd < 3 && r.Chance(1, 3) {
				nd++
				return &item{D: genDDL(r, t)}
			}
			st := g.Stmt(t.S, cur)
			if nd > 0 {
				// Envelope: after a schema change the engine's INDEX ACCESS PATH reads through the stale
				// ordinals of the index expressions (unchanged tree; replayed: after ADD COLUMN c4 AFTER c0,
				// UPDATE ... WHERE <primary-key column> = v finds no row; after RENAME TABLE a range on
				// the first unique-index column selects wrong rows) - a defect of index lookups (= scan),
				// not of key enforcement. WHERE conditions on key columns are dropped after the first
				// schema change, so the rows of UPDATE / DELETE come from a table scan.
				var keep []m.Cond
				for _, c := range st.Where {
					if !t.S.IsKeyCol(c.C) {
						keep = append(keep, c)
					}
				}
				st.Where = keep
			}
			return &item{S: &st}
		})
	}
}
